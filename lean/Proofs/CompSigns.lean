import Proofs.Storage
import Proofs.Compl
import Proofs.Graded
import Model.MV

/-! C06: the sign lists of `_gen_complement_func` — read off the executable outer-product table at `[n, -1, dims-1-n]` — are the
    outer-product signs `wsign(σ n, ~σ n)` of the canonical complements, for any storage order with the mirror property. -/
open Finset Model

namespace CompSigns

/-- the array with a single 1 at position `k` -/
def unitArr (N k : Nat) : Array Int := (Array.range N).map fun i => if i = k then 1 else 0

theorem unitArr_getD (N k i : Nat) : (unitArr N k).getD i 0 = if i = k ∧ i < N then 1 else 0 := by
  unfold unitArr
  simp only [Array.getD_eq_getD_getElem?, Array.getElem?_map, Array.getElem?_range]
  by_cases h : i < N
  · simp [h]
  · simp [h]

/-- a table entry is the contraction with two unit arrays -/
theorem tableAt_eq_contraction (es : List Entry) (N k l m : Nat) (hk : k < N) (hm : m < N) :
    Ctx.tableAt es k l m = contraction es (unitArr N k) (unitArr N m) l := by
  unfold Ctx.tableAt contraction
  induction es with
  | nil => simp
  | cons e es ih =>
    have hfold : ∀ (l' : List Entry) (init : Int), l'.foldl (fun acc e => acc + e.v) init = init + (l'.map (·.v)).sum := by
      intro l'; induction l' with
      | nil => intro init; simp
      | cons x xs ihx => intro init; simp only [List.foldl_cons, List.map_cons, List.sum_cons]; rw [ihx]; ring
    rw [hfold] at ih ⊢
    simp only [List.map_cons, List.sum_cons, List.filter_cons]
    rw [unitArr_getD, unitArr_getD]
    by_cases h1 : e.k = k <;> by_cases h2 : e.l = l <;> by_cases h3 : e.m = m <;>
      simp [h1, h2, h3, hk, hm] <;> (try rw [zero_add] at ih) <;> (try simpa using ih)

variable (n : Nat)

/-- the unit array in storage order is the basis blade `σ k` in canonical order -/
theorem unit_as_blade (σ : Equiv.Perm (Bm n)) (b2i : Nat → Nat) (h2 : ∀ c : Bm n, b2i c.val = (σ.symm c).val) (k : Bm n) :
    (fun c : Bm n => (unitArr (2 ^ n) k.val).getD (b2i c.val) 0) = (blade n (σ k) : CMV n Int) := by
  funext c
  rw [unitArr_getD, h2 c]
  simp only [blade]
  have hlt : (σ.symm c).val < 2 ^ n := (σ.symm c).isLt
  by_cases h : c = σ k
  · subst h; simp
  · have : (σ.symm c).val ≠ k.val := by
      intro he; apply h
      have : σ.symm c = k := Fin.ext he
      rw [← this]; simp
    simp [h, this]

/-- **an entry of the executable outer-product table**: `omt[k, j, m] = (σk ∧ σm)` at `σj` -/
theorem omt_entry (sig : Nat → Int) (σ : Equiv.Perm (Bm n)) (i2b b2i : Nat → Nat)
    (h1 : ∀ i : Bm n, i2b i.val = (σ i).val) (h2 : ∀ c : Bm n, b2i c.val = (σ.symm c).val) (k j m : Bm n) :
    Ctx.tableAt (gradedMt (fun i => popcount (i2b i)) omtCheck (constructGmt sig i2b b2i (2 ^ n))) k.val j.val m.val
      = if σ j = fxor (σ k) (σ m) then (wsign n (σ k).val (σ m).val : Int) else 0 := by
  rw [tableAt_eq_contraction _ (2 ^ n) k.val j.val m.val k.isLt m.isLt]
  have hg : ∀ i : Bm n, (fun i => popcount (i2b i)) i.val = pc n (σ i).val := by
    intro i; show popcount (i2b i.val) = pc n (σ i).val
    rw [h1 i, popcount_spec n _ (σ i).isLt]; rfl
  rw [storage_bridge_graded n sig σ i2b b2i (fun i => popcount (i2b i)) omtCheck h1 h2 hg _ _ j,
    unit_as_blade n σ b2i h2 k, unit_as_blade n σ b2i h2 m, mmul_omt_eq_wedge, wedge_blade_blade]
  simp only [Pi.smul_apply, blade, smul_eq_mul_R]
  split <;> simp

/-- the mirrored storage index -/
def mir (i : Bm n) : Bm n := ⟨2 ^ n - 1 - i.val, by have := i.isLt; omega⟩
def last : Bm n := ⟨2 ^ n - 1, by have := Nat.two_pow_pos n; omega⟩

theorem int_sign_of_sq (w : Int) (h : w * w = 1) : (if w < 1 then (-1 : Int) else 1) = w := by
  have h1 : w = 1 ∨ w = -1 := by
    have : (w - 1) * (w + 1) = 0 := by ring_nf; linarith
    rcases mul_eq_zero.mp this with h | h
    · left; linarith
    · right; linarith
  rcases h1 with h | h <;> subst h <;> decide

variable (sig : Nat → Int) (σ : Equiv.Perm (Bm n)) (i2b b2i : Nat → Nat)
  (h1 : ∀ i : Bm n, i2b i.val = (σ i).val) (h2 : ∀ c : Bm n, b2i c.val = (σ.symm c).val)
  (hmir : ∀ i : Bm n, σ (mir n i) = cmpl n (σ i)) (h0 : σ fzero = fzero)

include h1 h2 hmir h0

theorem sigma_last : σ (last n) = full n := by
  have : last n = mir n fzero := by ext; simp [last, mir, fzero]
  rw [this, hmir, h0]; unfold cmpl; ext; simp [fzero]

/-- `signlist[k] = (-1)**(omt[k, -1, dims-1-k] < 0.001)` of the *left* complement is `wsign(σk, ~σk)` -/
theorem left_sign (k : Bm n) :
    (if Ctx.tableAt (gradedMt (fun i => popcount (i2b i)) omtCheck (constructGmt sig i2b b2i (2 ^ n))) k.val (2 ^ n - 1) (2 ^ n - 1 - k.val) < 1
      then (-1 : Int) else 1) = wsign n (σ k).val (cmpl n (σ k)).val := by
  have e : Ctx.tableAt (gradedMt (fun i => popcount (i2b i)) omtCheck (constructGmt sig i2b b2i (2 ^ n))) k.val (2 ^ n - 1) (2 ^ n - 1 - k.val)
      = if σ (last n) = fxor (σ k) (σ (mir n k)) then (wsign n (σ k).val (σ (mir n k)).val : Int) else 0 :=
    omt_entry n sig σ i2b b2i h1 h2 k (last n) (mir n k)
  rw [e, sigma_last n σ i2b b2i h1 h2 hmir h0, hmir k, fxor_cmpl, if_pos rfl]
  exact int_sign_of_sq _ (wsign_sq_of_disjoint n _ _ (and_cmpl n (σ k)))

/-- the sign list of the *right* complement (`omt.T`): `wsign(~σk, σk)` -/
theorem right_sign (k : Bm n) :
    (if Ctx.tableAt (gradedMt (fun i => popcount (i2b i)) omtCheck (constructGmt sig i2b b2i (2 ^ n))) (2 ^ n - 1 - k.val) (2 ^ n - 1) k.val < 1
      then (-1 : Int) else 1) = wsign n (cmpl n (σ k)).val (σ k).val := by
  have e : Ctx.tableAt (gradedMt (fun i => popcount (i2b i)) omtCheck (constructGmt sig i2b b2i (2 ^ n))) (2 ^ n - 1 - k.val) (2 ^ n - 1) k.val
      = if σ (last n) = fxor (σ (mir n k)) (σ k) then (wsign n (σ (mir n k)).val (σ k).val : Int) else 0 :=
    omt_entry n sig σ i2b b2i h1 h2 (mir n k) (last n) k
  rw [e, sigma_last n σ i2b b2i h1 h2 hmir h0, hmir k, cmpl_fxor, if_pos rfl]
  exact int_sign_of_sq _ (wsign_sq_of_disjoint n _ _ (cmpl_and n (σ k)))

omit h1 h0 in
/-- the mirrored storage index holds the complementary blade -/
theorem b2i_cmpl (i : Bm n) : b2i (cmpl n (σ i)).val = 2 ^ n - 1 - i.val := by
  rw [h2, ← hmir]; simp [mir]

omit h1 h2 hmir h0 in
theorem wsign_cast {R : Type} [CommRing R] (a b : Nat) : (((wsign n a b : Int)) : R) = (wsign n a b : R) := by
  unfold wsign sgn; split <;> simp

/-- `comp_func` with the left-complement sign list is the canonical left complement `lcomp`, conjugated by the storage order -/
theorem left_comp_entry {R : Type} [CommRing R] (a : Array R) (i : Bm n) :
    a.getD (2 ^ n - 1 - i.val) 0 * (((wsign n (σ i).val (cmpl n (σ i)).val : Int)) : R)
      = lcomp n (fun c : Bm n => a.getD (b2i c.val) 0) (σ i) := by
  simp only [lcomp]
  rw [b2i_cmpl n σ b2i h2 hmir i, wsign_cast]; ring

/-- likewise the right complement -/
theorem right_comp_entry {R : Type} [CommRing R] (a : Array R) (i : Bm n) :
    a.getD (2 ^ n - 1 - i.val) 0 * (((wsign n (cmpl n (σ i)).val (σ i).val : Int)) : R)
      = rcomp n (fun c : Bm n => a.getD (b2i c.val) 0) (σ i) := by
  simp only [rcomp]
  rw [b2i_cmpl n σ b2i h2 hmir i, wsign_cast]; ring

end CompSigns
