import Proofs.GaExp
open Finset SeriesP
set_option linter.unusedSectionVars false

/-! C13: `ga_log` / `extractRotorComponents` undo `ga_exp` on the closed form (algebraic skeleton).

With the notation of `Proofs/GaExp.lean` (`Z = tn n`, `Y = tp n`), the rotor `R = (c + sP)(1 + Z) + σY` has
scalar part `c`, bivector part `R₂ = sP + cZ + σY` and 4-vector part `R₄ = s·PZ` (`PZ = (a·t) e123 n` is a 4-vector, `PY = (P tp) n` a
bivector because `P tp` is again a vector of the plane).  The code computes
`phiP = ((R₂ ninf)|ep)/sinc`, `t_normal_n = −(phiP R₄)/(φ² sinc)`, `t_perpendicular_n = −(phiP ⟨phiP R₂⟩₂)/(φ² sinc)`. -/

namespace GaLog

variable {A : Type} [Ring A] [Algebra ℚ A]
variable (P n tn tp ep : A) (φ c s σ : ℚ)
  (hP : P * P = -1) (hn : n * n = 0) (hPn : P * n = n * P)
  (htn : tn * n = -(n * tn)) (htp : tp * n = -(n * tp))
  (hPtn : P * tn = tn * P) (hPtp : P * tp = -(tp * P))
  (hPe : P * ep = ep * P) (hne : n * ep + ep * n = (2 : ℚ) • (1 : A))
include hP hn hPn htn htp hPtn hPtp hPe hne

/-- `(R₂ ninf)|ep = s·P`: only the rotation part survives the product with `ninf` (`Z ninf = Y ninf = 0`), and `ninf·ep = 1` -/
theorem phiP_numerator :
    (1/2 : ℚ) • (((s • P + c • (tn * n) + σ • (tp * n)) * n) * ep + ep * ((s • P + c • (tn * n) + σ • (tp * n)) * n)) = s • P := by
  have h1 : (s • P + c • (tn * n) + σ • (tp * n)) * n = s • (P * n) := by
    simp only [add_mul, smul_mul_assoc, mul_assoc, hn, mul_zero, smul_zero, add_zero]
  rw [h1]
  have h2 : (s • (P * n)) * ep + ep * (s • (P * n)) = s • (P * (n * ep + ep * n)) := by
    simp only [smul_mul_assoc, mul_smul_comm, mul_add, mul_assoc]
    rw [← mul_assoc ep P, ← hPe, mul_assoc, smul_add]
  rw [h2, hne, mul_smul_comm, mul_one, smul_smul, smul_smul]
  congr 1; ring

/-- `phiP·R₂ = −φs + φc·PZ + φσ·PY` for `phiP = φP`: scalar + 4-vector + bivector; its bivector part is `φσ·PY` -/
theorem phiP_R2 :
    (φ • P) * (s • P + c • (tn * n) + σ • (tp * n)) = (-(φ * s)) • (1 : A) + (φ * c) • (P * (tn * n)) + (φ * σ) • (P * (tp * n)) := by
  simp only [mul_add, smul_mul_assoc, mul_smul_comm, smul_smul, hP]
  module

/-- `t_normal_n = −(phiP R₄)/(φ² sinc) = tn·ninf` (with `sin φ = sinc φ · φ`) -/
theorem t_normal (hφ : φ ≠ 0) (hσ : σ ≠ 0) (hs : s = σ * φ) :
    (-(1 / (φ ^ 2 * σ))) • ((φ • P) * (s • (P * (tn * n)))) = tn * n := by
  have : (φ • P) * (s • (P * (tn * n))) = (-(φ * s)) • (tn * n) := by
    rw [smul_mul_assoc, mul_smul_comm, ← mul_assoc, hP, neg_one_mul, smul_neg, smul_neg, smul_smul, neg_smul]
  rw [this, smul_smul, hs]
  have : -(1 / (φ ^ 2 * σ)) * -(φ * (σ * φ)) = 1 := by field_simp
  rw [this, one_smul]

/-- `t_perpendicular_n = −(phiP ⟨phiP R₂⟩₂)/(φ² sinc) = tp·ninf` -/
theorem t_perpendicular (hφ : φ ≠ 0) (hσ : σ ≠ 0) :
    (-(1 / (φ ^ 2 * σ))) • ((φ • P) * ((φ * σ) • (P * (tp * n)))) = tp * n := by
  have : (φ • P) * ((φ * σ) • (P * (tp * n))) = (-(φ * (φ * σ))) • (tp * n) := by
    rw [smul_mul_assoc, mul_smul_comm, ← mul_assoc, hP, neg_one_mul, smul_neg, smul_neg, smul_smul, neg_smul]
  rw [this, smul_smul]
  have : -(1 / (φ ^ 2 * σ)) * -(φ * (φ * σ)) = 1 := by field_simp
  rw [this, one_smul]

/-- **`ga_log(ga_exp(B)) = B` on the closed form** (`phi ≠ 0` branch): the three components add up to `φP + tn n + tp n` -/
theorem log_of_closed_form (hφ : φ ≠ 0) (hσ : σ ≠ 0) (hs : s = σ * φ) :
    (1 / σ) • ((1/2 : ℚ) • (((s • P + c • (tn * n) + σ • (tp * n)) * n) * ep + ep * ((s • P + c • (tn * n) + σ • (tp * n)) * n)))
      + (-(1 / (φ ^ 2 * σ))) • ((φ • P) * (s • (P * (tn * n))))
      + (-(1 / (φ ^ 2 * σ))) • ((φ • P) * ((φ * σ) • (P * (tp * n))))
      = φ • P + (tn + tp) * n := by
  rw [phiP_numerator P n tn tp ep c s σ hP hn hPn htn htp hPtn hPtp hPe hne,
    t_normal P n tn tp ep φ s σ hP hn hPn htn htp hPtn hPtp hPe hne hφ hσ hs,
    t_perpendicular P n tn tp ep φ σ hP hn hPn htn htp hPtn hPtp hPe hne hφ hσ, smul_smul, hs]
  have : 1 / σ * (σ * φ) = φ := by field_simp
  rw [this, add_mul]; abel

end GaLog
