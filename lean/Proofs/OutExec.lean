import Proofs.Outer
import Proofs.Recip
import Proofs.Fund
import Model.Transform
import Proofs.Storage
import Proofs.KernelArr
import Proofs.Graded
import Mathlib.Data.List.Range
import Mathlib.Tactic.Ring

/-! array bookkeeping of `_make_outermorphism`: two passes of `cols[idx] = value` -/
namespace ArrFill
variable {α : Type}

theorem getD_setIfInBounds (a : Array α) (i j : Nat) (v d : α) :
    (a.setIfInBounds i v).getD j d = if i = j ∧ j < a.size then v else a.getD j d := by
  simp only [Array.getD_eq_getD_getElem?, Array.getElem?_setIfInBounds]
  by_cases h : i = j
  · subst h
    by_cases hs : i < a.size
    · simp [hs]
    · simp [hs]
  · simp [h]

/-- pass 1: `for vs in range(nSrc): cols[pos vs] = V vs` -/
def fillVectors (pos : Nat → Nat) (V : Nat → α) (nSrc : Nat) (init : Array α) : Array α :=
  (List.range nSrc).foldl (fun cols vs => cols.setIfInBounds (pos vs) (V vs)) init

theorem fillVectors_size (pos : Nat → Nat) (V : Nat → α) (nSrc : Nat) (init : Array α) :
    (fillVectors pos V nSrc init).size = init.size := by
  unfold fillVectors
  induction nSrc with
  | zero => rfl
  | succ k ih => rw [List.range_succ, List.foldl_append]; simp [ih]

theorem fillVectors_getD (pos : Nat → Nat) (V : Nat → α) (d : α) (nSrc : Nat) (init : Array α)
    (hinj : ∀ a b, a < nSrc → b < nSrc → pos a = pos b → a = b) (hpos : ∀ vs, vs < nSrc → pos vs < init.size) (j : Nat) :
    (fillVectors pos V nSrc init).getD j d = (if h : ∃ vs, vs < nSrc ∧ pos vs = j then V h.choose else init.getD j d) := by
  induction nSrc with
  | zero => simp [fillVectors]
  | succ k ih =>
    have ih' := ih (fun a b ha hb => hinj a b (by omega) (by omega)) (fun vs h => hpos vs (by omega))
    unfold fillVectors at ih' ⊢
    rw [List.range_succ, List.foldl_append]
    simp only [List.foldl_cons, List.foldl_nil]
    rw [getD_setIfInBounds, ih']
    have hsz := fillVectors_size pos V k init
    unfold fillVectors at hsz
    rw [hsz]
    by_cases hk : pos k = j
    · have hj : j < init.size := hk ▸ hpos k (by omega)
      have hex : ∃ vs, vs < k + 1 ∧ pos vs = j := ⟨k, by omega, hk⟩
      rw [if_pos ⟨hk, hj⟩, dif_pos hex]
      have := hex.choose_spec
      have : hex.choose = k := hinj _ _ this.1 (by omega) (this.2.trans hk.symm)
      rw [this]
    · rw [if_neg (fun h => hk h.1)]
      by_cases hex : ∃ vs, vs < k ∧ pos vs = j
      · have hex' : ∃ vs, vs < k + 1 ∧ pos vs = j := by obtain ⟨v, hv, hp⟩ := hex; exact ⟨v, by omega, hp⟩
        rw [dif_pos hex, dif_pos hex']
        have h1 := hex.choose_spec; have h2 := hex'.choose_spec
        have : hex.choose = hex'.choose := hinj _ _ (by omega) h2.1 (h1.2.trans h2.2.symm)
        rw [this]
      · have hex' : ¬ ∃ vs, vs < k + 1 ∧ pos vs = j := by
          rintro ⟨v, hv, hp⟩
          by_cases hvk : v = k
          · subst hvk; exact hk hp
          · exact hex ⟨v, by omega, hp⟩
        rw [dif_neg hex, dif_neg hex']

/-- pass 2: `for i in range(dims): if grade i == 1: continue; cols[i] = F cols i` -/
def fillRest (grade : Nat → Nat) (F : Array α → Nat → α) (dims : Nat) (cols0 : Array α) : Array α :=
  (List.range dims).foldl (fun cols i => if grade i == 1 then cols else cols.setIfInBounds i (F cols i)) cols0

/-- if `F cols i` only depends on entries that pass 2 never writes (`P` below is preserved), the result is explicit -/
theorem fillRest_getD (grade : Nat → Nat) (F : Array α → Nat → α) (G : Nat → α) (d : α) (dims : Nat) (cols0 : Array α)
    (P : Array α → Prop) (hP0 : P cols0) (hsz : cols0.size = dims)
    (hPstep : ∀ cols i v, P cols → grade i ≠ 1 → P (cols.setIfInBounds i v))
    (hF : ∀ cols i, P cols → cols.size = dims → i < dims → grade i ≠ 1 → F cols i = G i) :
    ∀ j, j < dims → (fillRest grade F dims cols0).getD j d = if grade j = 1 then cols0.getD j d else G j := by
  -- invariant over prefixes
  have inv : ∀ k, k ≤ dims →
      let c := (List.range k).foldl (fun cols i => if grade i == 1 then cols else cols.setIfInBounds i (F cols i)) cols0
      P c ∧ c.size = dims ∧ ∀ j, j < dims → c.getD j d = if j < k then (if grade j = 1 then cols0.getD j d else G j) else cols0.getD j d := by
    intro k
    induction k with
    | zero => intro _; exact ⟨hP0, hsz, fun j _ => by simp⟩
    | succ k ih =>
      intro hk
      obtain ⟨hPc, hszc, hget⟩ := ih (by omega)
      simp only [List.range_succ, List.foldl_append, List.foldl_cons, List.foldl_nil]
      set c := (List.range k).foldl (fun cols i => if grade i == 1 then cols else cols.setIfInBounds i (F cols i)) cols0 with hc
      by_cases hg : grade k = 1
      · simp only [hg, beq_self_eq_true, if_true]
        refine ⟨hPc, hszc, fun j hj => ?_⟩
        rw [hget j hj]
        by_cases hjk : j < k
        · simp [hjk, show j < k + 1 by omega]
        · by_cases hje : j = k
          · subst hje; simp [hg]
          · simp [hjk, show ¬ j < k + 1 by omega]
      · have hb : (grade k == 1) = false := by simp [hg]
        simp only [hb, Bool.false_eq_true, if_false]
        refine ⟨hPstep c k _ hPc hg, by simp [hszc], fun j hj => ?_⟩
        rw [getD_setIfInBounds, hszc]
        by_cases hje : k = j
        · subst hje
          rw [if_pos ⟨rfl, hj⟩, hF c k hPc hszc hj hg]
          simp [hg]
        · rw [if_neg (fun h => hje h.1), hget j hj]
          by_cases hjk : j < k
          · simp [hjk, show j < k + 1 by omega]
          · simp [hjk, show ¬ j < k + 1 by omega]
  intro j hj
  obtain ⟨_, _, hget⟩ := inv dims (le_refl dims)
  unfold fillRest
  rw [hget j hj]; simp [hj]

end ArrFill

/-! C11: the executable `_make_outermorphism` builds, for each source blade, the ordered outer product `Fprod` of the images -/
open Model

namespace OutExec

/-- `set_bit_indices` (fuel version) lists the set bits in ascending order -/
theorem aux_eq_filter : ∀ (fuel x n : Nat), x < 2 ^ fuel →
    setBitIndicesAux fuel x n = ((List.range fuel).filter (fun i => x.testBit i)).map (n + ·) := by
  intro fuel
  induction fuel with
  | zero => intro x n hx; simp at hx; subst hx; simp [setBitIndicesAux]
  | succ fuel ih =>
    intro x n hx
    simp only [setBitIndicesAux]
    by_cases h0 : x = 0
    · subst h0; simp
    · rw [if_neg h0]
      have hx2 : x / 2 < 2 ^ fuel := by
        rw [Nat.pow_succ] at hx; omega
      rw [ih (x / 2) (n + 1) hx2, List.range_succ_eq_map, List.filter_cons, List.filter_map]
      have hb0 : x.testBit 0 = decide (x % 2 = 1) := by simp [Nat.testBit_zero]
      have hf : ((fun i => x.testBit i) ∘ Nat.succ) = (fun i => (x / 2).testBit i) := by
        funext i; simp [Function.comp, Nat.testBit_succ]
      rw [hf]
      by_cases h1 : x % 2 = 1
      · simp only [h1, hb0, decide_true, if_true, List.map_cons, List.map_map, List.singleton_append, Nat.add_zero]
        congr 1; apply List.map_congr_left; intro a _; simp only [Function.comp]; omega
      · simp only [h1, hb0, decide_false, if_false, List.nil_append, List.map_map, Bool.false_eq_true]
        apply List.map_congr_left; intro a _; simp only [Function.comp]; omega

theorem filter_range_stable (x t N : Nat) (hx : x < 2 ^ t) (htN : t ≤ N) :
    (List.range N).filter (fun i => x.testBit i) = (List.range t).filter (fun i => x.testBit i) := by
  obtain ⟨k, rfl⟩ : ∃ k, N = t + k := ⟨N - t, by omega⟩
  rw [List.range_add, List.filter_append]
  have : ((List.range k).map (t + ·)).filter (fun i => x.testBit i) = [] := by
    rw [List.filter_eq_nil_iff]
    intro a ha
    obtain ⟨j, _, rfl⟩ := List.mem_map.mp ha
    simp only [Bool.not_eq_true]
    exact Nat.testBit_lt_two_pow (lt_of_lt_of_le hx (Nat.pow_le_pow_right (by decide) (by omega)))
  rw [this, List.append_nil]

theorem setBitIndices_eq (x t : Nat) (hx : x < 2 ^ t) : setBitIndices x = (List.range t).filter (fun i => x.testBit i) := by
  unfold setBitIndices
  have hlt : x < 2 ^ (x + 1) := lt_trans (Nat.lt_two_pow_self) (Nat.pow_lt_pow_right (by decide) (Nat.lt_succ_self x))
  rw [aux_eq_filter (x + 1) x 0 hlt]
  simp only [Nat.zero_add, List.map_id']
  by_cases h : t ≤ x + 1
  · exact filter_range_stable x t (x + 1) hx h
  · exact (filter_range_stable x (x + 1) t hlt (by omega)).symm

variable {R : Type} [CommRing R] (d : Nat)

theorem wprod_append (xs ys : List (CMV d R)) : wprod d (xs ++ ys) = wedge d (wprod d xs) (wprod d ys) := by
  induction xs with
  | nil => simp [wprod, one_wedge]
  | cons x xs ih => simp only [List.cons_append, wprod]; rw [ih, wedge_assoc]

/-- `Fprod` is the right-nested product of the images of the set bits, in ascending order -/
theorem Fprod_eq_wprod (f : Nat → CMV d R) (t a : Nat) :
    Fprod d f t a = wprod d (((List.range t).filter (fun i => a.testBit i)).map f) := by
  induction t with
  | zero => simp [Fprod, wprod]
  | succ t ih =>
    simp only [Fprod]
    rw [List.range_succ, List.filter_append, List.map_append, wprod_append, ← ih]
    by_cases h : a.testBit t
    · simp [h, wprod, wedge_one]
    · simp [h, wprod, wedge_one]

/-- the inner loop of `_make_outermorphism` — `out = 1; for v in set_bit_indices(bitmap): out = out ∧ f(v)` — is `Fprod` -/
theorem foldl_setBits_eq_Fprod (f : Nat → CMV d R) (t a : Nat) (ha : a < 2 ^ t) :
    (setBitIndices a).foldl (fun out vs => wedge d out (f vs)) (one d) = Fprod d f t a := by
  rw [Fprod_eq_wprod, setBitIndices_eq a t ha]
  generalize (List.range t).filter (fun i => a.testBit i) = l
  have : ∀ (X : CMV d R), l.foldl (fun out vs => wedge d out (f vs)) X = wedge d X (wprod d (l.map f)) := by
    induction l with
    | nil => intro X; simp [wprod, wedge_one]
    | cons v vs ih => intro X; simp only [List.foldl_cons, List.map_cons, wprod]; rw [ih, wedge_assoc]
  rw [this, one_wedge]

/-! ### assembly -/
open ArrFill

/-- storage index of source basis vector `vs` -/
def posS (Cs : Ctx) (vs : Nat) : Nat := Cs.L.b2iF (1 <<< vs)
/-- the unit scalar of the destination as a value array -/
def unitCol (Cd : Ctx) : MV := Cd.zero.setIfInBounds (Cd.L.b2iF 0) 1
/-- the image vector of source basis vector `vs` as stored by pass 1 -/
def vecCol (Cd : Ctx) (M : Array (Array Rat)) (vs : Nat) : MV :=
  (List.range Cd.L.dims).foldl (fun col vd => col.setIfInBounds (Cd.L.b2iF (1 <<< vd)) ((M.getD vd #[]).getD vs 0)) Cd.zero
/-- the body of pass 2 -/
def restF (Cs Cd : Ctx) (cols : Array MV) (i : Nat) : MV :=
  (setBitIndices (Cs.L.i2bF i)).foldl (fun out vs => Cd.op out (cols.getD (posS Cs vs) Cd.zero)) (unitCol Cd)

/-- `makeOutermorphism` is the two passes -/
theorem makeOutermorphism_eq (Cs Cd : Ctx) (M : Array (Array Rat)) :
    makeOutermorphism Cs Cd M =
      fillRest Cs.L.gradeF (restF Cs Cd) Cs.dims (fillVectors (posS Cs) (vecCol Cd M) Cs.L.dims (Array.replicate Cs.dims Cd.zero)) := rfl

/-- canonical view (coefficient per bitmap) of a destination value array -/
def canon (Cd : Ctx) (d : Nat) (a : MV) : CMV d ℚ := fun c => a.getD (Cd.L.b2iF c.val) 0

theorem canon_foldl (Cd : Ctx) (d : Nat) (hop : ∀ a b : MV, canon Cd d (Cd.op a b) = wedge d (canon Cd d a) (canon Cd d b))
    (V : Nat → MV) (l : List Nat) (X : MV) :
    canon Cd d (l.foldl (fun out vs => Cd.op out (V vs)) X) = l.foldl (fun out vs => wedge d out (canon Cd d (V vs))) (canon Cd d X) := by
  induction l generalizing X with
  | nil => rfl
  | cons v vs ih => simp only [List.foldl_cons]; rw [ih, hop]

theorem foldl_congr_mem {β : Type} (op : β → β → β) (g h : Nat → β) (l : List Nat) (hgh : ∀ v ∈ l, g v = h v) (X : β) :
    l.foldl (fun out v => op out (g v)) X = l.foldl (fun out v => op out (h v)) X := by
  induction l generalizing X with
  | nil => rfl
  | cons v vs ih =>
    simp only [List.foldl_cons]
    rw [hgh v (by simp)]
    exact ih (fun w hw => hgh w (List.mem_cons_of_mem _ hw)) _

/-- **every column of the executable outermorphism matrix is the ordered outer product of the stored vector columns**:
    for a source layout of `ms` basis vectors in storage order `σs` and a destination whose `omt_func` is the canonical wedge
    (`hop`, which the storage bridge provides), column `i` is `Fprod` of the images over the set bits of blade `σs i` -/
theorem columns_are_Fprod (Cs Cd : Ctx) (M : Array (Array Rat)) (ms d : Nat) (σs : Equiv.Perm (Bm ms))
    (hsdims : Cs.L.dims = ms) (hsga : Cs.dims = 2 ^ ms)
    (hs1 : ∀ i : Bm ms, Cs.L.i2bF i.val = (σs i).val) (hs2 : ∀ c : Bm ms, Cs.L.b2iF c.val = (σs.symm c).val)
    (hsg : ∀ i : Bm ms, Cs.L.gradeF i.val = pc ms (σs i).val)
    (hop : ∀ a b : MV, canon Cd d (Cd.op a b) = wedge d (canon Cd d a) (canon Cd d b))
    (hone : canon Cd d (unitCol Cd) = one d) (i : Bm ms) :
    canon Cd d ((makeOutermorphism Cs Cd M).getD i.val Cd.zero)
      = Fprod d (fun vs => canon Cd d (vecCol Cd M vs)) ms (σs i).val := by
  rw [makeOutermorphism_eq]
  -- the generators as bitmaps
  have hgen : ∀ vs, vs < ms → (1 <<< vs) < 2 ^ ms := by
    intro vs h; rw [Nat.one_shiftLeft]; exact Nat.pow_lt_pow_right (by decide) h
  have hposval : ∀ vs (h : vs < ms), posS Cs vs = (σs.symm ⟨1 <<< vs, hgen vs h⟩).val := by
    intro vs h; exact hs2 ⟨1 <<< vs, hgen vs h⟩
  have hposlt : ∀ vs, vs < ms → posS Cs vs < 2 ^ ms := by
    intro vs h; rw [hposval vs h]; exact (σs.symm _).isLt
  have hinj : ∀ a b, a < ms → b < ms → posS Cs a = posS Cs b → a = b := by
    intro a b ha hb hab
    rw [hposval a ha, hposval b hb] at hab
    have := σs.symm.injective (Fin.ext hab)
    have h2 : (1 : Nat) <<< a = 1 <<< b := congrArg Fin.val this
    rw [Nat.one_shiftLeft, Nat.one_shiftLeft] at h2
    exact Nat.pow_right_injective (le_refl 2) h2
  have hgrade : ∀ vs, vs < ms → Cs.L.gradeF (posS Cs vs) = 1 := by
    intro vs h
    have := hsg (σs.symm ⟨1 <<< vs, hgen vs h⟩)
    rw [← hposval vs h] at this
    rw [this]; simp only [Equiv.apply_symm_apply]
    rw [Nat.one_shiftLeft]; exact pc_two_pow ms vs h
  -- pass 1
  have hsz0 : (fillVectors (posS Cs) (vecCol Cd M) Cs.L.dims (Array.replicate Cs.dims Cd.zero)).size = 2 ^ ms := by
    rw [fillVectors_size]; simp [hsga]
  have hcols0get : ∀ vs, vs < ms →
      (fillVectors (posS Cs) (vecCol Cd M) Cs.L.dims (Array.replicate Cs.dims Cd.zero)).getD (posS Cs vs) Cd.zero = vecCol Cd M vs := by
    intro vs h
    rw [fillVectors_getD (posS Cs) (vecCol Cd M) Cd.zero Cs.L.dims _ (by rw [hsdims]; exact hinj)
      (by rw [hsdims]; intro v hv; simp [hsga]; exact hposlt v hv) (posS Cs vs)]
    have hex : ∃ v, v < Cs.L.dims ∧ posS Cs v = posS Cs vs := ⟨vs, by rw [hsdims]; exact h, rfl⟩
    rw [dif_pos hex]
    have hc := hex.choose_spec
    have : hex.choose = vs := hinj _ _ (by rw [← hsdims]; exact hc.1) h hc.2
    rw [this]
  -- pass 2
  have hmain := fillRest_getD Cs.L.gradeF (restF Cs Cd)
    (fun j => (setBitIndices (Cs.L.i2bF j)).foldl (fun out vs => Cd.op out (vecCol Cd M vs)) (unitCol Cd))
    Cd.zero Cs.dims (fillVectors (posS Cs) (vecCol Cd M) Cs.L.dims (Array.replicate Cs.dims Cd.zero))
    (fun cols => ∀ vs, vs < ms → cols.getD (posS Cs vs) Cd.zero = vecCol Cd M vs) hcols0get (by rw [hsz0, hsga])
    (by
      intro cols j v hPc hg vs hvs
      rw [getD_setIfInBounds]
      have : j ≠ posS Cs vs := by intro h; apply hg; rw [h]; exact hgrade vs hvs
      rw [if_neg (fun h => this h.1)]; exact hPc vs hvs)
    (by
      intro cols j hPc _ hj _
      have hjlt : j < 2 ^ ms := by rw [← hsga]; exact hj
      have hbits : ∀ vs ∈ setBitIndices (Cs.L.i2bF j), vs < ms := by
        intro vs hvs
        have hb := hs1 ⟨j, hjlt⟩
        rw [show Cs.L.i2bF j = (σs ⟨j, hjlt⟩).val from hb, setBitIndices_eq _ ms (σs ⟨j, hjlt⟩).isLt] at hvs
        exact List.mem_range.mp (List.mem_filter.mp hvs).1
      exact foldl_congr_mem Cd.op _ _ _ (fun v hv => hPc v (hbits v hv)) _)
    i.val (by rw [hsga]; exact i.isLt)
  rw [hmain]
  by_cases hg : Cs.L.gradeF i.val = 1
  · rw [if_pos hg]
    have hpc : pc ms (σs i).val = 1 := by rw [← hsg i]; exact hg
    obtain ⟨vs, hvs, hval⟩ := eq_two_pow_of_pc_one ms (σs i).val (σs i).isLt hpc
    have hi : i.val = posS Cs vs := by
      rw [hposval vs hvs]
      have : σs i = ⟨1 <<< vs, hgen vs hvs⟩ := by
        apply Fin.ext; show (σs i).val = 1 <<< vs; rw [hval]; exact (Nat.one_shiftLeft vs).symm
      rw [← this]; simp
    rw [hi, hcols0get vs hvs, hval, Fprod_single d _ vs ms hvs]
  · rw [if_neg hg, canon_foldl Cd d hop (vecCol Cd M), hs1 i, hone]
    exact foldl_setBits_eq_Fprod d (fun vs => canon Cd d (vecCol Cd M vs)) ms (σs i).val (σs i).isLt

/-- the destination's `omt_func` is the canonical wedge (the storage bridge, for any storage order of the destination) -/
theorem op_is_wedge (Cd : Ctx) (d : Nat) (σd : Equiv.Perm (Bm d)) (hdims : Cd.dims = 2 ^ d) (homt : Cd.omt = Cd.L.omt)
    (h1 : ∀ i : Bm d, Cd.L.i2bF i.val = (σd i).val) (h2 : ∀ c : Bm d, Cd.L.b2iF c.val = (σd.symm c).val)
    (hg : ∀ i : Bm d, Cd.L.gradeF i.val = pc d (σd i).val) (a b : MV) :
    canon Cd d (Cd.op a b) = wedge d (canon Cd d a) (canon Cd d b) := by
  funext c
  have hga : Cd.L.gaDims = 2 ^ d := hdims
  show (Cd.op a b).getD (Cd.L.b2iF c.val) 0 = _
  unfold Ctx.op
  rw [h2 c, hdims, KernelArr.multSparse_eq_contraction _ _ a b _ (σd.symm c).isLt, homt]
  unfold Layout.omt Layout.gmt
  rw [hga, storage_bridge_graded d Cd.L.sigF σd Cd.L.i2bF Cd.L.b2iF Cd.L.gradeF omtCheck h1 h2 hg a b (σd.symm c),
    mmul_omt_eq_wedge]
  simp only [Equiv.apply_symm_apply]
  rfl

/-- the unit column is the canonical 1 -/
theorem unit_is_one (Cd : Ctx) (d : Nat) (σd : Equiv.Perm (Bm d)) (hdims : Cd.dims = 2 ^ d)
    (h2 : ∀ c : Bm d, Cd.L.b2iF c.val = (σd.symm c).val) : canon Cd d (unitCol Cd) = one d := by
  funext c
  show (Cd.zero.setIfInBounds (Cd.L.b2iF 0) 1).getD (Cd.L.b2iF c.val) 0 = _
  rw [ArrFill.getD_setIfInBounds]
  have h0 : Cd.L.b2iF 0 = (σd.symm fzero).val := h2 fzero
  have hz : Cd.zero.size = 2 ^ d := by simp [Ctx.zero, hdims]
  rw [h0, h2 c, hz]
  simp only [one]
  by_cases hc : c = fzero
  · subst hc; simp [(σd.symm fzero).isLt]
  · have : (σd.symm fzero).val ≠ (σd.symm c).val := by
      intro h; apply hc; exact (σd.symm.injective (Fin.ext h)).symm
    simp only [hc, this, false_and, if_false, Ctx.zero, Array.getD_eq_getD_getElem?, Array.getElem?_replicate]
    split <;> rfl

end OutExec

namespace OutExec
open ArrFill

/-- **`_make_outermorphism` computes the outermorphism**: for a source layout of `ms` basis vectors (storage order `σs`) and a
    destination of `d` basis vectors (storage order `σd`, tables as built by the layout), column `i` of the executable matrix,
    read in canonical coordinates, is `omap f` of the basis blade stored at `i`, where `f vs` is the stored image of `e_vs` -/
theorem executable_outermorphism (Cs Cd : Ctx) (M : Array (Array Rat)) (ms d : Nat) (σs : Equiv.Perm (Bm ms)) (σd : Equiv.Perm (Bm d))
    (hsdims : Cs.L.dims = ms) (hsga : Cs.dims = 2 ^ ms)
    (hs1 : ∀ i : Bm ms, Cs.L.i2bF i.val = (σs i).val) (hs2 : ∀ c : Bm ms, Cs.L.b2iF c.val = (σs.symm c).val)
    (hsg : ∀ i : Bm ms, Cs.L.gradeF i.val = pc ms (σs i).val)
    (hddims : Cd.dims = 2 ^ d) (homt : Cd.omt = Cd.L.omt)
    (hd1 : ∀ i : Bm d, Cd.L.i2bF i.val = (σd i).val) (hd2 : ∀ c : Bm d, Cd.L.b2iF c.val = (σd.symm c).val)
    (hdg : ∀ i : Bm d, Cd.L.gradeF i.val = pc d (σd i).val) (i : Bm ms) :
    canon Cd d ((makeOutermorphism Cs Cd M).getD i.val Cd.zero)
      = omap d ms (fun vs => canon Cd d (vecCol Cd M vs)) (blade ms (σs i)) := by
  rw [omap_blade]
  exact columns_are_Fprod Cs Cd M ms d σs hsdims hsga hs1 hs2 hsg
    (op_is_wedge Cd d σd hddims homt hd1 hd2 hdg) (unit_is_one Cd d σd hddims hd2) i

end OutExec
