import Mathlib.Analysis.Complex.Trigonometric
import Mathlib.Tactic.Positivity
import Mathlib.Tactic.Linarith
import Mathlib.Tactic.NormNum
open Finset Complex

/-! C16, scalar clause for `cos` / `sin`: the unscaled `N`-term series of `taylor_expansions.cos/sin` on a real scalar against the real functions -/
namespace TrigReal

/-- the truncations the code accumulates on a scalar: `Σ_{k<N} (−1)^k c^{2k}/(2k)!`, `Σ_{k<N} (−1)^k c^{2k+1}/(2k+1)!` -/
noncomputable def cosTrunc (N : ℕ) (c : ℝ) : ℝ := ∑ k ∈ range N, (-1) ^ k * c ^ (2 * k) / ((2 * k).factorial : ℝ)
noncomputable def sinTrunc (N : ℕ) (c : ℝ) : ℝ := ∑ k ∈ range N, (-1) ^ k * c ^ (2 * k + 1) / ((2 * k + 1).factorial : ℝ)

theorem I_mul_pow_even (c : ℝ) (k : ℕ) : ((c : ℂ) * I) ^ (2 * k) = (((-1) ^ k * c ^ (2 * k) : ℝ) : ℂ) := by
  rw [mul_pow, pow_mul I, I_sq, ← ofReal_pow]
  push_cast; ring

theorem I_mul_pow_odd (c : ℝ) (k : ℕ) : ((c : ℂ) * I) ^ (2 * k + 1) = (((-1) ^ k * c ^ (2 * k + 1) : ℝ) : ℂ) * I := by
  rw [pow_succ, I_mul_pow_even]
  push_cast; ring

/-- the `2N`-term exponential series at `i c` is `cosTrunc_N(c) + i·sinTrunc_N(c)` -/
theorem exp_series_split (c : ℝ) (N : ℕ) :
    ∑ m ∈ range (2 * N), ((c : ℂ) * I) ^ m / (m.factorial : ℂ) = ((cosTrunc N c : ℝ) : ℂ) + ((sinTrunc N c : ℝ) : ℂ) * I := by
  induction N with
  | zero => simp [cosTrunc, sinTrunc]
  | succ N ih =>
    rw [show 2 * (N + 1) = 2 * N + 1 + 1 by ring, sum_range_succ, sum_range_succ, ih, I_mul_pow_even, I_mul_pow_odd]
    unfold cosTrunc sinTrunc
    rw [sum_range_succ, sum_range_succ]
    push_cast
    ring

/-- **`cos` and `sin` on a real scalar**: for `|c| / (2N+1) ≤ 1/2` (with the code's `N = 30`: `|c| ≤ 30.5`) both truncations are within
    `2|c|^{2N}/(2N)!` of the real functions -/
theorem cos_sin_close (c : ℝ) (N : ℕ) (h : |c| / ((2 * N : ℕ).succ : ℝ) ≤ 1 / 2) :
    |Real.cos c - cosTrunc N c| ≤ |c| ^ (2 * N) / ((2 * N).factorial : ℝ) * 2
    ∧ |Real.sin c - sinTrunc N c| ≤ |c| ^ (2 * N) / ((2 * N).factorial : ℝ) * 2 := by
  have hn : ‖(c : ℂ) * I‖ = |c| := by simp
  have hb := Complex.exp_bound' (x := (c : ℂ) * I) (n := 2 * N) (by rw [hn]; exact h)
  rw [exp_series_split, hn] at hb
  set w := exp ((c : ℂ) * I) - (((cosTrunc N c : ℝ) : ℂ) + ((sinTrunc N c : ℝ) : ℂ) * I) with hw
  have hre : w.re = Real.cos c - cosTrunc N c := by
    rw [hw]; simp [exp_ofReal_mul_I_re]
  have him : w.im = Real.sin c - sinTrunc N c := by
    rw [hw]; simp [exp_ofReal_mul_I_im]
  constructor
  · rw [← hre]; exact le_trans (abs_re_le_norm w) hb
  · rw [← him]; exact le_trans (abs_im_le_norm w) hb

/-- with the code's `max_order = 30` and scalars of moderate size (`|c| ≤ 8`): absolute error at most `10⁻¹²` -/
theorem cos_sin_within_tolerance (c : ℝ) (hc : |c| ≤ 8) :
    |Real.cos c - cosTrunc 30 c| ≤ 1 / 1000000000000 ∧ |Real.sin c - sinTrunc 30 c| ≤ 1 / 1000000000000 := by
  have h : |c| / ((2 * 30 : ℕ).succ : ℝ) ≤ 1 / 2 := by
    have : ((2 * 30 : ℕ).succ : ℝ) = 61 := by norm_num
    rw [this]; linarith
  have hb : |c| ^ (2 * 30) / ((2 * 30).factorial : ℝ) * 2 ≤ 1 / 1000000000000 := by
    have h1 : |c| ^ (2 * 30) ≤ 8 ^ (2 * 30) := pow_le_pow_left₀ (abs_nonneg c) hc _
    have hf : (((2 * 30).factorial : ℕ) : ℝ) = 8320987112741390144276341183223364380754172606361245952449277696409600000000000000 := by
      norm_num [Nat.factorial]
    rw [hf]
    have h2 : |c| ^ (2 * 30) / (8320987112741390144276341183223364380754172606361245952449277696409600000000000000 : ℝ) * 2
        ≤ 8 ^ (2 * 30) / (8320987112741390144276341183223364380754172606361245952449277696409600000000000000 : ℝ) * 2 := by
      apply mul_le_mul_of_nonneg_right _ (by norm_num)
      apply div_le_div_of_nonneg_right h1 (by norm_num)
    refine le_trans h2 ?_
    norm_num
  obtain ⟨h1, h2⟩ := cos_sin_close c 30 h
  exact ⟨le_trans h1 hb, le_trans h2 hb⟩

end TrigReal
