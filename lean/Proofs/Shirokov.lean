import Proofs.Hitzer
import Mathlib.Algebra.Field.Basic
import Mathlib.Algebra.CharZero.Defs
import Mathlib.Tactic.FieldSimp
open Finset

/-! C05: the Shirokov (Faddeev–LeVerrier style) recursion of `_shirokov_inverse` as coded —
`Uk = U; for k in 1..N-1: Ck = (N/k)·Uk[0]; adjU = Uk − Ck; Uk = U·adjU` with `N = 2^((n+1)//2)` —
ends with a **scalar** `Uk`, for every multivector and every signature (symbolic, zeros included), in dimensions 1, 2, 3.
With `Cl.scaled_inverse` the returned `adjU / Uk[0]` is then the two-sided inverse whenever `Uk[0]` is invertible. -/

variable {R : Type} [Field R] [CharZero R]

/-- one pass of the loop body: `(Uk, _) ↦ (U·(Uk − c·Uk[0]), Uk − c·Uk[0])` with `c = N/k` -/
def shStep (n : Nat) (sig : Nat → R) (U : CMV n R) (c : R) (Uk : CMV n R) : CMV n R × CMV n R :=
  let adj : CMV n R := Uk - (c * Uk fzero) • one n
  (gmul n sig U adj, adj)

/-- the loop for `k = 1 … N−1`, folded from `(U, 0)` -/
def shLoop (n : Nat) (sig : Nat → R) (U : CMV n R) (N : Nat) : CMV n R × CMV n R :=
  (List.range' 1 (N - 1)).foldl (fun st (k : ℕ) => shStep n sig U ((N : R) / (k : R)) st.1) (U, 0)

macro "shirokov_eval" : tactic => `(tactic| (
  simp only [shLoop, shStep, List.range', List.foldl]
  norm_num
  simp only [gmul, one, Finset.sum_fin_eq_sum_range, Pi.sub_apply, Pi.add_apply, Pi.smul_apply, smul_eq_mul_R]
  simp +decide [Finset.sum_range_succ, fxor, fzero, s, swaps, metric, sgn, pc, bit, Finset.prod_range_succ]
  try ring))

theorem shirokov1_comp (sig : Nat → R) (U : CMV 1 R) : (shLoop 1 sig U 2).1 ⟨1, by decide⟩ = 0 := by shirokov_eval

theorem shirokov2_comp (sig : Nat → R) (U : CMV 2 R) :
    (shLoop 2 sig U 2).1 ⟨1, by decide⟩ = 0 ∧ (shLoop 2 sig U 2).1 ⟨2, by decide⟩ = 0 ∧ (shLoop 2 sig U 2).1 ⟨3, by decide⟩ = 0 := by
  refine ⟨?_, ?_, ?_⟩ <;> shirokov_eval

/-! ### n = 3 (`N = 4`): explicit components of the product, then the three passes expanded and closed by `ring` -/

macro "g3_eval" : tactic => `(tactic| (
  simp only [gmul, Finset.sum_fin_eq_sum_range]
  simp +decide [Finset.sum_range_succ, fxor, s, swaps, metric, sgn, pc, bit, Finset.prod_range_succ]
  try ring))

theorem g3_0 (sig : Nat → R) (A B : CMV 3 R) : gmul 3 sig A B ⟨0, by decide⟩ = A ⟨0, by decide⟩ * B ⟨0, by decide⟩ + sig 0 * A ⟨1, by decide⟩ * B ⟨1, by decide⟩ + sig 1 * A ⟨2, by decide⟩ * B ⟨2, by decide⟩ + -(sig 0 * sig 1 * A ⟨3, by decide⟩ * B ⟨3, by decide⟩) + sig 2 * A ⟨4, by decide⟩ * B ⟨4, by decide⟩ + -(sig 0 * sig 2 * A ⟨5, by decide⟩ * B ⟨5, by decide⟩) + -(sig 1 * sig 2 * A ⟨6, by decide⟩ * B ⟨6, by decide⟩) + -(sig 0 * sig 1 * sig 2 * A ⟨7, by decide⟩ * B ⟨7, by decide⟩) := by
  g3_eval

theorem g3_1 (sig : Nat → R) (A B : CMV 3 R) : gmul 3 sig A B ⟨1, by decide⟩ = A ⟨0, by decide⟩ * B ⟨1, by decide⟩ + A ⟨1, by decide⟩ * B ⟨0, by decide⟩ + -(sig 1 * A ⟨2, by decide⟩ * B ⟨3, by decide⟩) + sig 1 * A ⟨3, by decide⟩ * B ⟨2, by decide⟩ + -(sig 2 * A ⟨4, by decide⟩ * B ⟨5, by decide⟩) + sig 2 * A ⟨5, by decide⟩ * B ⟨4, by decide⟩ + -(sig 1 * sig 2 * A ⟨6, by decide⟩ * B ⟨7, by decide⟩) + -(sig 1 * sig 2 * A ⟨7, by decide⟩ * B ⟨6, by decide⟩) := by
  g3_eval

theorem g3_2 (sig : Nat → R) (A B : CMV 3 R) : gmul 3 sig A B ⟨2, by decide⟩ = A ⟨0, by decide⟩ * B ⟨2, by decide⟩ + sig 0 * A ⟨1, by decide⟩ * B ⟨3, by decide⟩ + A ⟨2, by decide⟩ * B ⟨0, by decide⟩ + -(sig 0 * A ⟨3, by decide⟩ * B ⟨1, by decide⟩) + -(sig 2 * A ⟨4, by decide⟩ * B ⟨6, by decide⟩) + sig 0 * sig 2 * A ⟨5, by decide⟩ * B ⟨7, by decide⟩ + sig 2 * A ⟨6, by decide⟩ * B ⟨4, by decide⟩ + sig 0 * sig 2 * A ⟨7, by decide⟩ * B ⟨5, by decide⟩ := by
  g3_eval

theorem g3_3 (sig : Nat → R) (A B : CMV 3 R) : gmul 3 sig A B ⟨3, by decide⟩ = A ⟨0, by decide⟩ * B ⟨3, by decide⟩ + A ⟨1, by decide⟩ * B ⟨2, by decide⟩ + -(A ⟨2, by decide⟩ * B ⟨1, by decide⟩) + A ⟨3, by decide⟩ * B ⟨0, by decide⟩ + sig 2 * A ⟨4, by decide⟩ * B ⟨7, by decide⟩ + -(sig 2 * A ⟨5, by decide⟩ * B ⟨6, by decide⟩) + sig 2 * A ⟨6, by decide⟩ * B ⟨5, by decide⟩ + sig 2 * A ⟨7, by decide⟩ * B ⟨4, by decide⟩ := by
  g3_eval

theorem g3_4 (sig : Nat → R) (A B : CMV 3 R) : gmul 3 sig A B ⟨4, by decide⟩ = A ⟨0, by decide⟩ * B ⟨4, by decide⟩ + sig 0 * A ⟨1, by decide⟩ * B ⟨5, by decide⟩ + sig 1 * A ⟨2, by decide⟩ * B ⟨6, by decide⟩ + -(sig 0 * sig 1 * A ⟨3, by decide⟩ * B ⟨7, by decide⟩) + A ⟨4, by decide⟩ * B ⟨0, by decide⟩ + -(sig 0 * A ⟨5, by decide⟩ * B ⟨1, by decide⟩) + -(sig 1 * A ⟨6, by decide⟩ * B ⟨2, by decide⟩) + -(sig 0 * sig 1 * A ⟨7, by decide⟩ * B ⟨3, by decide⟩) := by
  g3_eval

theorem g3_5 (sig : Nat → R) (A B : CMV 3 R) : gmul 3 sig A B ⟨5, by decide⟩ = A ⟨0, by decide⟩ * B ⟨5, by decide⟩ + A ⟨1, by decide⟩ * B ⟨4, by decide⟩ + -(sig 1 * A ⟨2, by decide⟩ * B ⟨7, by decide⟩) + sig 1 * A ⟨3, by decide⟩ * B ⟨6, by decide⟩ + -(A ⟨4, by decide⟩ * B ⟨1, by decide⟩) + A ⟨5, by decide⟩ * B ⟨0, by decide⟩ + -(sig 1 * A ⟨6, by decide⟩ * B ⟨3, by decide⟩) + -(sig 1 * A ⟨7, by decide⟩ * B ⟨2, by decide⟩) := by
  g3_eval

theorem g3_6 (sig : Nat → R) (A B : CMV 3 R) : gmul 3 sig A B ⟨6, by decide⟩ = A ⟨0, by decide⟩ * B ⟨6, by decide⟩ + sig 0 * A ⟨1, by decide⟩ * B ⟨7, by decide⟩ + A ⟨2, by decide⟩ * B ⟨4, by decide⟩ + -(sig 0 * A ⟨3, by decide⟩ * B ⟨5, by decide⟩) + -(A ⟨4, by decide⟩ * B ⟨2, by decide⟩) + sig 0 * A ⟨5, by decide⟩ * B ⟨3, by decide⟩ + A ⟨6, by decide⟩ * B ⟨0, by decide⟩ + sig 0 * A ⟨7, by decide⟩ * B ⟨1, by decide⟩ := by
  g3_eval

theorem g3_7 (sig : Nat → R) (A B : CMV 3 R) : gmul 3 sig A B ⟨7, by decide⟩ = A ⟨0, by decide⟩ * B ⟨7, by decide⟩ + A ⟨1, by decide⟩ * B ⟨6, by decide⟩ + -(A ⟨2, by decide⟩ * B ⟨5, by decide⟩) + A ⟨3, by decide⟩ * B ⟨4, by decide⟩ + A ⟨4, by decide⟩ * B ⟨3, by decide⟩ + -(A ⟨5, by decide⟩ * B ⟨2, by decide⟩) + A ⟨6, by decide⟩ * B ⟨1, by decide⟩ + A ⟨7, by decide⟩ * B ⟨0, by decide⟩ := by
  g3_eval


/-- the loop for `N = 4`, unrolled -/
theorem shLoop4 (n : Nat) (sig : Nat → R) (U : CMV n R) :
    shLoop n sig U 4 = shStep n sig U (((4 : ℕ) : R) / ((3 : ℕ) : R)) (shStep n sig U (((4 : ℕ) : R) / ((2 : ℕ) : R)) (shStep n sig U (((4 : ℕ) : R) / ((1 : ℕ) : R)) U).1).1 := rfl

macro "shirokov3_eval" : tactic => `(tactic| (
  rw [shLoop4]
  simp only [shStep]
  simp only [g3_0, g3_1, g3_2, g3_3, g3_4, g3_5, g3_6, g3_7, Pi.sub_apply, Pi.smul_apply, smul_eq_mul_R, one, fzero]
  simp only [Fin.mk.injEq, if_true, if_false, Nat.reduceEqDiff, OfNat.ofNat_ne_zero, OfNat.zero_ne_ofNat, one_ne_zero, zero_ne_one]
  push_cast
  ring))

theorem shirokov3_comp1 (sig : Nat → R) (U : CMV 3 R) : (shLoop 3 sig U 4).1 ⟨1, by decide⟩ = 0 := by shirokov3_eval
theorem shirokov3_comp2 (sig : Nat → R) (U : CMV 3 R) : (shLoop 3 sig U 4).1 ⟨2, by decide⟩ = 0 := by shirokov3_eval
theorem shirokov3_comp3 (sig : Nat → R) (U : CMV 3 R) : (shLoop 3 sig U 4).1 ⟨3, by decide⟩ = 0 := by shirokov3_eval
theorem shirokov3_comp4 (sig : Nat → R) (U : CMV 3 R) : (shLoop 3 sig U 4).1 ⟨4, by decide⟩ = 0 := by shirokov3_eval
theorem shirokov3_comp5 (sig : Nat → R) (U : CMV 3 R) : (shLoop 3 sig U 4).1 ⟨5, by decide⟩ = 0 := by shirokov3_eval
theorem shirokov3_comp6 (sig : Nat → R) (U : CMV 3 R) : (shLoop 3 sig U 4).1 ⟨6, by decide⟩ = 0 := by shirokov3_eval
theorem shirokov3_comp7 (sig : Nat → R) (U : CMV 3 R) : (shLoop 3 sig U 4).1 ⟨7, by decide⟩ = 0 := by shirokov3_eval

theorem shirokov1 (sig : Nat → R) (U : CMV 1 R) (c : Bm 1) (hc : c ≠ fzero) : (shLoop 1 sig U 2).1 c = 0 := by
  obtain ⟨v, hv⟩ := c
  have h0 : v ≠ 0 := by intro h; apply hc; exact Fin.ext h
  have : v = 1 := by omega
  subst this; exact shirokov1_comp sig U

theorem shirokov2 (sig : Nat → R) (U : CMV 2 R) (c : Bm 2) (hc : c ≠ fzero) : (shLoop 2 sig U 2).1 c = 0 := by
  obtain ⟨v, hv⟩ := c
  have h0 : v ≠ 0 := by intro h; apply hc; exact Fin.ext h
  have : v = 1 ∨ v = 2 ∨ v = 3 := by omega
  have h := shirokov2_comp sig U
  rcases this with rfl | rfl | rfl
  · exact h.1
  · exact h.2.1
  · exact h.2.2

theorem shirokov3 (sig : Nat → R) (U : CMV 3 R) (c : Bm 3) (hc : c ≠ fzero) : (shLoop 3 sig U 4).1 c = 0 := by
  obtain ⟨v, hv⟩ := c
  have h0 : v ≠ 0 := by intro h; apply hc; exact Fin.ext h
  have : v = 1 ∨ v = 2 ∨ v = 3 ∨ v = 4 ∨ v = 5 ∨ v = 6 ∨ v = 7 := by omega
  rcases this with rfl | rfl | rfl | rfl | rfl | rfl | rfl
  · exact shirokov3_comp1 sig U
  · exact shirokov3_comp2 sig U
  · exact shirokov3_comp3 sig U
  · exact shirokov3_comp4 sig U
  · exact shirokov3_comp5 sig U
  · exact shirokov3_comp6 sig U
  · exact shirokov3_comp7 sig U

/-- the loop invariant that makes the last line meaningful: the second component is the `adjU` the first was built from -/
theorem shStep_fst (n : Nat) (sig : Nat → R) (U Uk : CMV n R) (c : R) :
    (shStep n sig U c Uk).1 = gmul n sig U (shStep n sig U c Uk).2 := rfl
