import Proofs.Recip

/-! C15 (DualFlat) / C06: contraction with a dual: `x ⌋ (B I⁻¹) = (x ∧ B) I⁻¹` for every vector `x`, any `B`, `I` the pseudoscalar -/
variable {R : Type} [CommRing R] {n : Nat} {sig : Nat → R}

/-- every vector wedges the pseudoscalar (any top-grade element) to zero -/
theorem wedge_top_zero (x I : CMV n R) (hx : IsHom n 1 x) (hI : IsHom n n I) : wedge n x I = 0 :=
  isHom_zero_of_gt n (1 + n) (by omega) _ (wedge_hom n 1 n x I hx hI)

/-- `2 (x ⌋ (B I⁻¹)) = 2 (x ∧ B) I⁻¹` -/
theorem two_lc_dual_pseudoscalar (x I Iinv B : Cl n sig) (hx : IsHom n 1 x) (hI : IsHom n n I) (h1 : I * Iinv = 1) (h2 : Iinv * I = 1) :
    asCl (mmul n sig Model.lcmtCheck x (B * Iinv)) + asCl (mmul n sig Model.lcmtCheck x (B * Iinv))
      = (asCl (wedge n x B) + asCl (wedge n x B)) * Iinv :=
  two_lc_dual x I Iinv B hx (wedge_top_zero x I hx hI) h1 h2

/-- hence (with ½) the dual of anything that contains `x` (`x ∧ B = 0`) is orthogonal to `x`: `x ⌋ (B I⁻¹) = 0` — the test
    `−einf | X == 0` of `classify` on a dual flat `X = F I⁻¹`, `einf ∧ F = 0` -/
theorem lc_dual_of_wedge_zero (half : R) (hhalf : 2 * half = 1) (x I Iinv B : Cl n sig) (hx : IsHom n 1 x) (hI : IsHom n n I)
    (h1 : I * Iinv = 1) (h2 : Iinv * I = 1) (hB : wedge n x B = 0) :
    (asCl (mmul n sig Model.lcmtCheck x (B * Iinv)) : Cl n sig) = 0 := by
  have h := two_lc_dual_pseudoscalar x I Iinv B hx hI h1 h2
  have e : (asCl (wedge n x B) : Cl n sig) = 0 := hB
  rw [e, add_zero, zero_mul] at h
  have hL := half_double half hhalf (asCl (mmul n sig Model.lcmtCheck x (B * Iinv)) : Cl n sig)
  rw [h, smul_zero] at hL
  exact hL
