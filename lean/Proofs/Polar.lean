import Proofs.Conf2

/-! C13: the polar-decomposition normalisation of `rotor_between_objects` (Dorst–Valkenburg), algebraic core.
    `C = 1 + γ X2 X1`, `σ = C ~C = s + q` with `q² = t` (a scalar plus a 4-vector whose square is scalar), `n = ‖σ‖`,
    `n² = s² − t`; the code multiplies `C` by `k̄ = (s + n) − q` (`annihilate_k(positive_root(σ), C)`) and normalises. -/
namespace Polar
variable {A : Type} [Ring A] [Algebra ℚ A]

/-- `X1 ~C = ~C X2` for `~C = 1 + γ X1 X2` (the reverse of the intertwining identity) -/
theorem rev_intertwines (X1 X2 : A) (γ : ℚ) (hγ : γ * γ = 1) (h1 : X1 * X1 = γ • (1 : A)) (h2 : X2 * X2 = γ • (1 : A)) :
    X1 * (1 + γ • (X1 * X2)) = (1 + γ • (X1 * X2)) * X2 := by
  rw [mul_add, add_mul, mul_one, one_mul, mul_smul_comm, smul_mul_assoc, ← mul_assoc, h1, mul_assoc, h2]
  simp only [mul_smul_comm, smul_mul_assoc, mul_one, one_mul, smul_smul, hγ, one_smul]
  abel

/-- hence `σ = C ~C` commutes with `X2` -/
theorem sigma_commutes (X1 X2 : A) (γ : ℚ) (hγ : γ * γ = 1) (h1 : X1 * X1 = γ • (1 : A)) (h2 : X2 * X2 = γ • (1 : A)) :
    X2 * ((1 + γ • (X2 * X1)) * (1 + γ • (X1 * X2))) = ((1 + γ • (X2 * X1)) * (1 + γ • (X1 * X2))) * X2 := by
  have a := Intertwine.rotor_between_intertwines X1 X2 γ hγ h1 h2
  have b := rev_intertwines X1 X2 γ hγ h1 h2
  calc X2 * ((1 + γ • (X2 * X1)) * (1 + γ • (X1 * X2)))
      = (X2 * (1 + γ • (X2 * X1))) * (1 + γ • (X1 * X2)) := by rw [mul_assoc]
    _ = ((1 + γ • (X2 * X1)) * X1) * (1 + γ • (X1 * X2)) := by rw [a]
    _ = (1 + γ • (X2 * X1)) * (X1 * (1 + γ • (X1 * X2))) := by rw [mul_assoc]
    _ = (1 + γ • (X2 * X1)) * ((1 + γ • (X1 * X2)) * X2) := by rw [b]
    _ = _ := by rw [mul_assoc]

/-- the commutative part: for `σ = s + q`, `q² = t`, `n² = s² − t`, `k̄ = (s+n) − q`: `k̄ σ k̄ = 2(s+n)n²` (a scalar) -/
theorem kbar_sigma_kbar (q : A) (s t n : ℚ) (hq : q * q = t • (1 : A)) (hn : n * n = s * s - t) :
    ((s + n) • (1 : A) - q) * (s • (1 : A) + q) * ((s + n) • (1 : A) - q) = (2 * (s + n) * (n * n)) • (1 : A) := by
  have ht : t = s * s - n * n := by linear_combination hn
  subst ht
  have hq' (z : A) : q * (q * z) = (s * s - n * n) • z := by rw [← mul_assoc, hq, smul_mul_assoc, one_mul]
  simp only [mul_add, add_mul, mul_sub, sub_mul, smul_mul_assoc, mul_smul_comm, smul_smul, mul_assoc, mul_one, one_mul, hq, hq']
  module

/-- **`rotor_between_objects`, positive-root branch**: with `k̄ = (s+n) − q` the unnormalised versor `k̄ C` satisfies
    `(k̄ C) ~(k̄ C) = μ` and `(k̄ C) X1 ~(k̄ C) = μ X2`, `μ = 2(s+n)n²`; so after the normalisation `κ² μ = 1` the result is a unit
    versor carrying `X1` to `X2` -/
theorem polar_rotor (X1 X2 C Crev q : A) (s t n κ : ℚ) (hσ : C * Crev = s • (1 : A) + q) (hq : q * q = t • (1 : A))
    (hn : n * n = s * s - t) (hint : C * X1 = X2 * C) (hrev : X1 * Crev = Crev * X2) (hκ : κ * κ * (2 * (s + n) * (n * n)) = 1) :
    (κ • (((s + n) • (1 : A) - q) * C)) * (κ • (Crev * ((s + n) • (1 : A) - q))) = 1
    ∧ (κ • (((s + n) • (1 : A) - q) * C)) * X1 * (κ • (Crev * ((s + n) • (1 : A) - q))) = X2 := by
  set kb := (s + n) • (1 : A) - q with hkb
  have hk := kbar_sigma_kbar q s t n hq hn
  rw [← hkb] at hk
  -- σ commutes with X2, hence so does q, hence k̄
  have hσX : X2 * (C * Crev) = (C * Crev) * X2 := by
    calc X2 * (C * Crev) = (X2 * C) * Crev := by rw [mul_assoc]
      _ = (C * X1) * Crev := by rw [hint]
      _ = C * (X1 * Crev) := by rw [mul_assoc]
      _ = C * (Crev * X2) := by rw [hrev]
      _ = _ := by rw [mul_assoc]
  have hqX : X2 * q = q * X2 := by
    rw [hσ] at hσX
    have : X2 * (s • (1 : A) + q) = s • X2 + X2 * q := by rw [mul_add, mul_smul_comm, mul_one]
    have h2 : (s • (1 : A) + q) * X2 = s • X2 + q * X2 := by rw [add_mul, smul_mul_assoc, one_mul]
    rw [this, h2] at hσX
    exact add_left_cancel hσX
  have hkX : X2 * kb = kb * X2 := by
    rw [hkb, mul_sub, sub_mul, mul_smul_comm, smul_mul_assoc, mul_one, one_mul, hqX]
  constructor
  · calc (κ • (kb * C)) * (κ • (Crev * kb)) = (κ * κ) • (kb * (C * Crev) * kb) := by
          simp only [smul_mul_assoc, mul_smul_comm, smul_smul, mul_assoc]
      _ = (κ * κ) • ((2 * (s + n) * (n * n)) • (1 : A)) := by rw [hσ, hk]
      _ = 1 := by rw [smul_smul, hκ, one_smul]
  · calc (κ • (kb * C)) * X1 * (κ • (Crev * kb)) = (κ * κ) • (kb * ((C * X1) * Crev) * kb) := by
          simp only [smul_mul_assoc, mul_smul_comm, smul_smul, mul_assoc]
      _ = (κ * κ) • (kb * (X2 * (C * Crev)) * kb) := by rw [hint, mul_assoc X2]
      _ = (κ * κ) • (X2 * (kb * (C * Crev) * kb)) := by
          congr 1
          calc kb * (X2 * (C * Crev)) * kb = (kb * X2) * (C * Crev) * kb := by simp only [mul_assoc]
            _ = (X2 * kb) * (C * Crev) * kb := by rw [hkX]
            _ = _ := by simp only [mul_assoc]
      _ = (κ * κ) • (X2 * ((2 * (s + n) * (n * n)) • (1 : A))) := by rw [hσ, hk]
      _ = X2 := by rw [mul_smul_comm, mul_one, smul_smul, hκ, one_smul]

/-- for `C = 1 + γ X2 X1`, `~C = 1 + γ X1 X2` the two intertwining hypotheses hold -/
theorem polar_rotor_between (X1 X2 q : A) (γ s t n κ : ℚ) (hγ : γ * γ = 1) (h1 : X1 * X1 = γ • (1 : A)) (h2 : X2 * X2 = γ • (1 : A))
    (hσ : (1 + γ • (X2 * X1)) * (1 + γ • (X1 * X2)) = s • (1 : A) + q) (hq : q * q = t • (1 : A))
    (hn : n * n = s * s - t) (hκ : κ * κ * (2 * (s + n) * (n * n)) = 1) :
    (κ • (((s + n) • (1 : A) - q) * (1 + γ • (X2 * X1)))) * (κ • ((1 + γ • (X1 * X2)) * ((s + n) • (1 : A) - q))) = 1
    ∧ (κ • (((s + n) • (1 : A) - q) * (1 + γ • (X2 * X1)))) * X1 * (κ • ((1 + γ • (X1 * X2)) * ((s + n) • (1 : A) - q))) = X2 :=
  polar_rotor X1 X2 _ _ q s t n κ hσ hq hn (Intertwine.rotor_between_intertwines X1 X2 γ hγ h1 h2)
    (rev_intertwines X1 X2 γ hγ h1 h2) hκ

/-- the 'infinite roots' / scalar branch (`k = 1`, `R = C.normal()`): when `σ = C ~C` is a scalar `s` and `κ² s = ε` (`ε = ±1`:
    `+1` for `s > 0`, `−1` for `s < 0` — the case of coplanar disjoint or nested opposite rounds), `R = κ C` has `R ~R = ε` and
    `R X1 ~R = ε X2` -/
theorem scalar_sigma_rotor (X1 X2 C Crev : A) (s κ ε : ℚ) (hσ : C * Crev = s • (1 : A)) (hint : C * X1 = X2 * C)
    (hκ : κ * κ * s = ε) :
    (κ • C) * (κ • Crev) = ε • (1 : A) ∧ (κ • C) * X1 * (κ • Crev) = ε • X2 := by
  constructor
  · rw [smul_mul_assoc, mul_smul_comm, smul_smul, hσ, smul_smul, hκ]
  · calc (κ • C) * X1 * (κ • Crev) = (κ * κ) • ((C * X1) * Crev) := by
          simp only [smul_mul_assoc, mul_smul_comm, smul_smul, mul_assoc]
      _ = (κ * κ) • (X2 * (C * Crev)) := by rw [hint, mul_assoc]
      _ = ε • X2 := by rw [hσ, mul_smul_comm, mul_one, smul_smul, hκ]

/-- **`square_roots_of_rotor(R) = pos_twiddle_root(1 + R)`**: for a unit rotor `R` (`R ~R = ~R R = 1`), `C = 1 + R`,
    `σ = C ~C = s + q` as above, the normalised `r = κ k̄ C` is a unit versor with `r² = R` -/
theorem sqrt_rotor (R Rrev q : A) (s t n κ : ℚ) (hR : R * Rrev = 1) (hR' : Rrev * R = 1)
    (hσ : (1 + R) * (1 + Rrev) = s • (1 : A) + q) (hq : q * q = t • (1 : A))
    (hn : n * n = s * s - t) (hκ : κ * κ * (2 * (s + n) * (n * n)) = 1) :
    (κ • (((s + n) • (1 : A) - q) * (1 + R))) * (κ • (((s + n) • (1 : A) - q) * (1 + R))) = R := by
  set kb := (s + n) • (1 : A) - q with hkb
  have hk := kbar_sigma_kbar q s t n hq hn
  rw [← hkb] at hk
  -- σ commutes with C = 1 + R
  have hRr' (z : A) : Rrev * (R * z) = z := by rw [← mul_assoc, hR', one_mul]
  have hRr (z : A) : R * (Rrev * z) = z := by rw [← mul_assoc, hR, one_mul]
  have hσC : (1 + R) * ((1 + R) * (1 + Rrev)) = ((1 + R) * (1 + Rrev)) * (1 + R) := by
    simp only [mul_add, add_mul, mul_one, one_mul, mul_assoc, hR, hR', hRr, hRr']
    abel
  have hqC : (1 + R) * q = q * (1 + R) := by
    rw [hσ] at hσC
    have e1 : (1 + R) * (s • (1 : A) + q) = s • (1 + R) + (1 + R) * q := by rw [mul_add, mul_smul_comm, mul_one]
    have e2 : (s • (1 : A) + q) * (1 + R) = s • (1 + R) + q * (1 + R) := by rw [add_mul, smul_mul_assoc, one_mul]
    rw [e1, e2] at hσC
    exact add_left_cancel hσC
  have hkC : (1 + R) * kb = kb * (1 + R) := by
    rw [hkb, mul_sub, sub_mul, mul_smul_comm, smul_mul_assoc, mul_one, one_mul, hqC]
  -- σ R = C²
  have hσR : ((1 + R) * (1 + Rrev)) * R = (1 + R) * (1 + R) := by
    simp only [mul_add, add_mul, mul_one, one_mul, mul_assoc, hR']
    abel
  -- k̄ commutes with σ (both polynomials in q)
  have hkσ : kb * (s • (1 : A) + q) = (s • (1 : A) + q) * kb := by
    rw [hkb]; simp only [mul_add, add_mul, mul_sub, sub_mul, smul_mul_assoc, mul_smul_comm, mul_one, one_mul, smul_smul]
    module
  calc (κ • (kb * (1 + R))) * (κ • (kb * (1 + R))) = (κ * κ) • (kb * ((1 + R) * kb) * (1 + R)) := by
        simp only [smul_mul_assoc, mul_smul_comm, smul_smul, mul_assoc]
    _ = (κ * κ) • (kb * kb * ((1 + R) * (1 + R))) := by rw [hkC]; simp only [mul_assoc]
    _ = (κ * κ) • (kb * kb * (((1 + R) * (1 + Rrev)) * R)) := by rw [hσR]
    _ = (κ * κ) • ((kb * (s • (1 : A) + q) * kb) * R) := by
        rw [hσ]; congr 1
        calc kb * kb * ((s • (1 : A) + q) * R) = kb * (kb * (s • (1 : A) + q)) * R := by simp only [mul_assoc]
          _ = kb * ((s • (1 : A) + q) * kb) * R := by rw [hkσ]
          _ = _ := by simp only [mul_assoc]
    _ = R := by rw [hk, smul_mul_assoc, one_mul, smul_smul, hκ, one_smul]

/-- `positive_root(σ) = (σ + ‖σ‖) / (√2 √(σ₀ + ‖σ‖))` squares to `σ`: with `d² = 2(s + n)`, `n² = s² − t` -/
theorem positive_root_sq (q : A) (s t n dinv : ℚ) (hq : q * q = t • (1 : A)) (hn : n * n = s * s - t)
    (hd : dinv * dinv * (2 * (s + n)) = 1) :
    (dinv • ((s • (1 : A) + q) + n • (1 : A))) * (dinv • ((s • (1 : A) + q) + n • (1 : A))) = s • (1 : A) + q := by
  have ht : t = s * s - n * n := by linear_combination hn
  subst ht
  simp only [mul_add, add_mul, smul_mul_assoc, mul_smul_comm, smul_smul, mul_one, one_mul, hq, smul_add]
  match_scalars
  · linear_combination s * hd
  · linear_combination hd

end Polar
