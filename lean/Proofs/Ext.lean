import Proofs.Iso
import Proofs.Wedge
import Mathlib.LinearAlgebra.ExteriorAlgebra.Basic

/-! C02: the coded outer product is the product of Mathlib's exterior algebra -/
open Finset
variable {R : Type} [CommRing R] {n : Nat}

/-- with the zero signature the geometric sign is the outer sign (on bitmaps below `2^n`) -/
theorem s_zero_sig (a b : Nat) (ha : a < 2 ^ n) : s (fun _ => (0 : R)) n a b = wsign n a b := by
  by_cases h : a &&& b = 0
  · exact s_eq_wsign_of_disjoint n _ a b h
  · unfold s wsign
    rw [if_neg h]
    have hm : metric (fun _ => (0 : R)) n (a &&& b) = 0 := by
      unfold metric
      -- some bit below n is set in a &&& b
      have hlt : a &&& b < 2 ^ n := lt_of_le_of_lt Nat.and_le_left ha
      have : ∃ i, i < n ∧ (a &&& b).testBit i = true := by
        by_contra hne
        push Not at hne
        apply h
        apply Nat.eq_of_testBit_eq; intro i
        rw [Nat.zero_testBit]
        by_cases hi : i < n
        · simpa using hne i hi
        · exact Nat.testBit_lt_two_pow (lt_of_lt_of_le hlt (Nat.pow_le_pow_right (by decide) (by omega)))
      obtain ⟨i, hi, hb⟩ := this
      apply Finset.prod_eq_zero (Finset.mem_range.mpr hi)
      rw [if_pos hb]
    rw [hm, mul_zero]

/-- **the coded outer product is the geometric product of the zero-signature algebra** -/
theorem wedge_eq_gmul_zero (A B : CMV n R) : wedge n A B = gmul n (fun _ => (0 : R)) A B := by
  funext c
  simp only [wedge, tmul, gmul]
  refine Finset.sum_congr rfl (fun a _ => ?_)
  rw [s_zero_sig a.val (fxor a c).val a.isLt]

namespace Cl
theorem Q_zero : Q n (fun _ => (0 : R)) = 0 := by
  ext v; simp [Q, QuadraticMap.weightedSumSquares_apply]

/-- the exterior algebra of `R^n` (Mathlib: the Clifford algebra of the zero form) is isomorphic to the zero-signature model, and
    under that isomorphism its product is the coded outer product -/
theorem wedge_is_exterior_product (x y : CliffordAlgebra (Q n (fun _ => (0 : R)))) :
    (fromMathlib (x * y) : Cl n (fun _ => (0 : R))) = wedge n (fromMathlib x : Cl n (fun _ => (0 : R))) (fromMathlib y : Cl n (fun _ => (0 : R))) := by
  rw [map_mul]
  exact (wedge_eq_gmul_zero (n := n) (fromMathlib x : Cl n (fun _ => (0 : R))) (fromMathlib y : Cl n (fun _ => (0 : R)))).symm
end Cl
