import Model.Text
import Mathlib.Algebra.Order.Field.Basic
import Mathlib.Algebra.Order.Ring.Abs
import Mathlib.Tactic.Linarith
import Mathlib.Tactic.FieldSimp
import Mathlib.Tactic.Positivity

/-! C19: rounding to `p` decimals, order independence of the parsed sum -/
namespace TextProps
open Text

/-- printing with `p` decimals: whatever nearest-integer rule `np.round` uses (`k` within 1/2 of `q·10^p`),
the printed value `k / 10^p` is within half a unit of the print precision of `q` -/
theorem round_within_half_unit {K : Type} [Field K] [LinearOrder K] [IsStrictOrderedRing K]
    (q : K) (p : Nat) (k : K) (hk : |k - q * 10 ^ p| ≤ 1 / 2) :
    |k / 10 ^ p - q| ≤ 1 / (2 * 10 ^ p) := by
  have hpos : (0 : K) < 10 ^ p := by positivity
  have e : k / 10 ^ p - q = (k - q * 10 ^ p) / 10 ^ p := by field_simp
  rw [e, abs_div, abs_of_pos hpos]
  have h2 : (1 : K) / (2 * 10 ^ p) = (1 / 2) / 10 ^ p := by field_simp
  rw [h2]
  exact div_le_div_of_nonneg_right hk (le_of_lt hpos)

/-- `bump`s commute: the accumulated multivector does not depend on the order of the terms -/
theorem bump_comm (f : Nat → Int) (i j : Nat) (c d : Int) : bump (bump f i c) j d = bump (bump f j d) i c := by
  funext k; unfold bump
  by_cases h1 : k = i <;> by_cases h2 : k = j <;> simp [h1, h2] <;> omega

theorem denote_perm (sidx : Nat) {ts ts' : List Term} (h : ts.Perm ts') (acc : Nat → Int) :
    denote sidx ts acc = denote sidx ts' acc := by
  unfold denote
  induction h generalizing acc with
  | nil => rfl
  | cons x _ ih => simp only [List.foldl_cons]; exact ih _
  | swap x y l => simp only [List.foldl_cons]; rw [bump_comm]
  | trans _ _ ih1 ih2 => rw [ih1, ih2]

end TextProps
