import Proofs.Outer
import Proofs.Compl

/-! C14: `reduce(op, points)` — the outer product of a list of vectors: grade, and `∧` with any member vanishes.
    Any commutative ring, any dimension, any vectors (the conformal points `up(x)` and `einf` are grade-1). -/

variable {R : Type} [CommRing R] (d : Nat)

/-- `reduce(op, p :: ps)` -/
def wedgeList (p : CMV d R) (ps : List (CMV d R)) : CMV d R := ps.foldl (wedge d) p

theorem wedge_swap_right (X v w : CMV d R) (hv : IsHom d 1 v) (hw : IsHom d 1 w) :
    wedge d (wedge d X v) w = - wedge d (wedge d X w) v := by
  rw [wedge_assoc, wedge_vector_anticomm d v w hv hw, wedge_neg_right, ← wedge_assoc]

theorem wedge_neg_left (A B : CMV d R) : wedge d (-A) B = - wedge d A B := by
  have := wedge_smul_left d (-1 : R) A B
  simpa using this

/-- folding more vectors onto `X ∧ w … ` keeps it killed by `w`: if `w` is among the folded vectors, the result wedged with `w` is 0 -/
theorem foldl_wedge_mem (X : CMV d R) (vs : List (CMV d R)) (hvs : ∀ v ∈ vs, IsHom d 1 v) (w : CMV d R) (hw : w ∈ vs) :
    wedge d (vs.foldl (wedge d) X) w = 0 := by
  induction vs using List.reverseRecOn with
  | nil => cases hw
  | append_singleton vs u ih =>
    have hu : IsHom d 1 u := hvs u (by simp)
    have hwv : IsHom d 1 w := hvs w hw
    rw [List.foldl_append, List.foldl_cons, List.foldl_nil]
    rcases List.mem_append.mp hw with h | h
    · rw [wedge_swap_right d _ u w hu hwv, ih (fun v hv => hvs v (List.mem_append_left _ hv)) h, wedge_zero_left, neg_zero]
    · have : w = u := by simpa using h
      subst this
      rw [wedge_assoc, wedge_self_vector d w hwv, wedge_zero_right]

/-- a vector already in the product to the left of the fold -/
theorem foldl_wedge_head (X : CMV d R) (w : CMV d R) (hw : IsHom d 1 w) (vs : List (CMV d R)) (hvs : ∀ v ∈ vs, IsHom d 1 v) :
    wedge d (vs.foldl (wedge d) (wedge d X w)) w = 0 := by
  have := foldl_wedge_mem d X (w :: vs) (by intro v hv; rcases List.mem_cons.mp hv with h | h; exact h ▸ hw; exact hvs v h) w (by simp)
  simpa using this

/-- **the object contains its defining points**: `(p₁ ∧ … ∧ p_k) ∧ p_i = 0` -/
theorem wedgeList_contains (p : CMV d R) (ps : List (CMV d R)) (hp : IsHom d 1 p) (hps : ∀ v ∈ ps, IsHom d 1 v)
    (w : CMV d R) (hw : w = p ∨ w ∈ ps) : wedge d (wedgeList d p ps) w = 0 := by
  unfold wedgeList
  rcases hw with h | h
  · subst h
    have := foldl_wedge_head d (one d) w hp ps hps
    rwa [one_wedge] at this
  · exact foldl_wedge_mem d p ps hps w h

/-- … also after the normalisation `mv.normal()` (any scalar multiple) -/
theorem wedgeList_contains_smul (c : R) (p : CMV d R) (ps : List (CMV d R)) (hp : IsHom d 1 p) (hps : ∀ v ∈ ps, IsHom d 1 v)
    (w : CMV d R) (hw : w = p ∨ w ∈ ps) : wedge d (c • wedgeList d p ps) w = 0 := by
  rw [wedge_smul_left, wedgeList_contains d p ps hp hps w hw, smul_zero]

/-- **grade of the object**: the outer product of `k` vectors is homogeneous of grade `k` -/
theorem wedgeList_grade (p : CMV d R) (ps : List (CMV d R)) (hp : IsHom d 1 p) (hps : ∀ v ∈ ps, IsHom d 1 v) :
    IsHom d (ps.length + 1) (wedgeList d p ps) := by
  unfold wedgeList
  induction ps using List.reverseRecOn with
  | nil => simpa using hp
  | append_singleton vs u ih =>
    rw [List.foldl_append, List.foldl_cons, List.foldl_nil, List.length_append, List.length_singleton]
    have := wedge_hom d (vs.length + 1) 1 _ u (ih (fun v hv => hps v (List.mem_append_left _ hv))) (hps u (by simp))
    convert this using 1
