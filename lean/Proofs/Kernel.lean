import Mathlib.Algebra.BigOperators.Group.List.Basic
import Mathlib.Algebra.Ring.Defs
import Mathlib.Tactic.Ring

/-! C03 spike: both generated kernel shapes equal the dense contraction, for any COO entry list -/
namespace Kernel

variable {R : Type} [CommRing R] [DecidableEq R]

structure Entry (R : Type) where
  k : Nat
  l : Nat
  m : Nat
  v : R

def bump (f : Nat → R) (i : Nat) (c : R) : Nat → R := fun j => if j = i then f j + c else f j

/-- `_get_mult_function`: res = value[k]*mt*other[m]; output[l] += res, in list order -/
def multDense (es : List (Entry R)) (a b : Nat → R) : Nat → R :=
  es.foldl (fun out e => bump out e.l (a e.k * e.v * b e.m)) (fun _ => 0)

/-- `_get_mult_function_runtime_sparse`: the same over the entries surviving `nz_mask` -/
def nz (a b : Nat → R) (e : Entry R) : Bool := decide (a e.k ≠ 0) && decide (b e.m ≠ 0)

def multSparse (es : List (Entry R)) (a b : Nat → R) : Nat → R :=
  (es.filter (nz a b)).foldl (fun out e => bump out e.l (a e.k * e.v * b e.m)) (fun _ => 0)

/-- the table contraction Σ_{entries with l=j} a_k · v · b_m -/
def contraction (es : List (Entry R)) (a b : Nat → R) (j : Nat) : R :=
  (es.map (fun e => if e.l = j then a e.k * e.v * b e.m else 0)).sum

theorem foldl_bump (es : List (Entry R)) (a b : Nat → R) (init : Nat → R) (j : Nat) :
    (es.foldl (fun out e => bump out e.l (a e.k * e.v * b e.m)) init) j
      = init j + (es.map (fun e => if e.l = j then a e.k * e.v * b e.m else 0)).sum := by
  induction es generalizing init with
  | nil => simp
  | cons e es ih =>
    simp only [List.foldl_cons, List.map_cons, List.sum_cons]
    rw [ih]
    unfold bump
    by_cases h : j = e.l
    · subst h; simp; ring
    · have h' : e.l ≠ j := fun x => h x.symm
      simp [h, h']

theorem multDense_eq_contraction (es : List (Entry R)) (a b : Nat → R) (j : Nat) :
    multDense es a b j = contraction es a b j := by
  unfold multDense contraction; rw [foldl_bump]; simp

theorem multSparse_eq_contraction (es : List (Entry R)) (a b : Nat → R) (j : Nat) :
    multSparse es a b j = contraction es a b j := by
  unfold multSparse contraction; rw [foldl_bump]; simp only [zero_add]
  induction es with
  | nil => simp
  | cons e es ih =>
    by_cases h : nz a b e = true
    · rw [List.filter_cons_of_pos h]; simp only [List.map_cons, List.sum_cons, ih]
    · rw [List.filter_cons_of_neg h]
      have hz : a e.k * e.v * b e.m = 0 := by
        by_cases ha : a e.k = 0
        · simp [ha]
        · have hb : b e.m = 0 := by
            by_contra hb; apply h; simp [nz, ha, hb]
          simp [hb]
      simp only [List.map_cons, List.sum_cons, ih, hz]; simp

/-- entry order is irrelevant: any permutation of the COO list gives the same kernel -/
theorem multDense_perm {es es' : List (Entry R)} (h : es.Perm es') (a b : Nat → R) (j : Nat) :
    multDense es a b j = multDense es' a b j := by
  rw [multDense_eq_contraction, multDense_eq_contraction]
  unfold contraction
  exact (h.map _).sum_eq

end Kernel
