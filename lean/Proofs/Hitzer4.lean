import Proofs.Hitzer
open Finset

/-! C05: the closed-form inverse numerator for n = 4 (Equation 7.7 as coded):
`numerator = conj M * (A - 2 * A(3, 4))` with `A = M * conj M`.  Structural route, every signature. -/

variable {R : Type} [CommRing R]

/-- `A = M * conj M` has no grade-1 and no grade-2 part (10 components) -/
theorem mconj4 (sig : Nat → R) (M : CMV 4 R) :
    gmul 4 sig M (cconj 4 M) ⟨1, by decide⟩ = 0 ∧ gmul 4 sig M (cconj 4 M) ⟨2, by decide⟩ = 0 ∧ gmul 4 sig M (cconj 4 M) ⟨4, by decide⟩ = 0 ∧ gmul 4 sig M (cconj 4 M) ⟨8, by decide⟩ = 0 ∧ gmul 4 sig M (cconj 4 M) ⟨3, by decide⟩ = 0 ∧ gmul 4 sig M (cconj 4 M) ⟨5, by decide⟩ = 0 ∧ gmul 4 sig M (cconj 4 M) ⟨6, by decide⟩ = 0 ∧ gmul 4 sig M (cconj 4 M) ⟨9, by decide⟩ = 0 ∧ gmul 4 sig M (cconj 4 M) ⟨10, by decide⟩ = 0 ∧ gmul 4 sig M (cconj 4 M) ⟨12, by decide⟩ = 0 := by
  refine ⟨?_, ?_, ?_, ?_, ?_, ?_, ?_, ?_, ?_, ?_⟩ <;> hitzer_eval

/-- the second factor of the coded numerator -/
def fac4 (A : CMV 4 R) : CMV 4 R := A - (2 : R) • (gpart 4 3 A + gpart 4 4 A)

theorem sp4_1 (sig : Nat → R) (A : CMV 4 R)
    (h1 : A ⟨1, by decide⟩ = 0)
    (h2 : A ⟨2, by decide⟩ = 0)
    (h4 : A ⟨4, by decide⟩ = 0)
    (h8 : A ⟨8, by decide⟩ = 0)
    (h3 : A ⟨3, by decide⟩ = 0)
    (h5 : A ⟨5, by decide⟩ = 0)
    (h6 : A ⟨6, by decide⟩ = 0)
    (h9 : A ⟨9, by decide⟩ = 0)
    (h10 : A ⟨10, by decide⟩ = 0)
    (h12 : A ⟨12, by decide⟩ = 0) :
    gmul 4 sig A (fac4 A) ⟨1, by decide⟩ = 0 := by
  have k1 : A 1 = 0 := h1
  have k2 : A 2 = 0 := h2
  have k4 : A 4 = 0 := h4
  have k8 : A 8 = 0 := h8
  have k3 : A 3 = 0 := h3
  have k5 : A 5 = 0 := h5
  have k6 : A 6 = 0 := h6
  have k9 : A 9 = 0 := h9
  have k10 : A 10 = 0 := h10
  have k12 : A 12 = 0 := h12
  simp only [gmul, fac4, gpart, Finset.sum_fin_eq_sum_range, Pi.sub_apply, Pi.add_apply, Pi.smul_apply, smul_eq_mul_R]
  simp +decide [Finset.sum_range_succ, fxor, s, swaps, metric, sgn, pc, bit, Finset.prod_range_succ, k1, k2, k4, k8, k3, k5, k6, k9, k10, k12]
  try ring

theorem sp4_2 (sig : Nat → R) (A : CMV 4 R)
    (h1 : A ⟨1, by decide⟩ = 0)
    (h2 : A ⟨2, by decide⟩ = 0)
    (h4 : A ⟨4, by decide⟩ = 0)
    (h8 : A ⟨8, by decide⟩ = 0)
    (h3 : A ⟨3, by decide⟩ = 0)
    (h5 : A ⟨5, by decide⟩ = 0)
    (h6 : A ⟨6, by decide⟩ = 0)
    (h9 : A ⟨9, by decide⟩ = 0)
    (h10 : A ⟨10, by decide⟩ = 0)
    (h12 : A ⟨12, by decide⟩ = 0) :
    gmul 4 sig A (fac4 A) ⟨2, by decide⟩ = 0 := by
  have k1 : A 1 = 0 := h1
  have k2 : A 2 = 0 := h2
  have k4 : A 4 = 0 := h4
  have k8 : A 8 = 0 := h8
  have k3 : A 3 = 0 := h3
  have k5 : A 5 = 0 := h5
  have k6 : A 6 = 0 := h6
  have k9 : A 9 = 0 := h9
  have k10 : A 10 = 0 := h10
  have k12 : A 12 = 0 := h12
  simp only [gmul, fac4, gpart, Finset.sum_fin_eq_sum_range, Pi.sub_apply, Pi.add_apply, Pi.smul_apply, smul_eq_mul_R]
  simp +decide [Finset.sum_range_succ, fxor, s, swaps, metric, sgn, pc, bit, Finset.prod_range_succ, k1, k2, k4, k8, k3, k5, k6, k9, k10, k12]
  try ring

theorem sp4_3 (sig : Nat → R) (A : CMV 4 R)
    (h1 : A ⟨1, by decide⟩ = 0)
    (h2 : A ⟨2, by decide⟩ = 0)
    (h4 : A ⟨4, by decide⟩ = 0)
    (h8 : A ⟨8, by decide⟩ = 0)
    (h3 : A ⟨3, by decide⟩ = 0)
    (h5 : A ⟨5, by decide⟩ = 0)
    (h6 : A ⟨6, by decide⟩ = 0)
    (h9 : A ⟨9, by decide⟩ = 0)
    (h10 : A ⟨10, by decide⟩ = 0)
    (h12 : A ⟨12, by decide⟩ = 0) :
    gmul 4 sig A (fac4 A) ⟨3, by decide⟩ = 0 := by
  have k1 : A 1 = 0 := h1
  have k2 : A 2 = 0 := h2
  have k4 : A 4 = 0 := h4
  have k8 : A 8 = 0 := h8
  have k3 : A 3 = 0 := h3
  have k5 : A 5 = 0 := h5
  have k6 : A 6 = 0 := h6
  have k9 : A 9 = 0 := h9
  have k10 : A 10 = 0 := h10
  have k12 : A 12 = 0 := h12
  simp only [gmul, fac4, gpart, Finset.sum_fin_eq_sum_range, Pi.sub_apply, Pi.add_apply, Pi.smul_apply, smul_eq_mul_R]
  simp +decide [Finset.sum_range_succ, fxor, s, swaps, metric, sgn, pc, bit, Finset.prod_range_succ, k1, k2, k4, k8, k3, k5, k6, k9, k10, k12]
  try ring

theorem sp4_4 (sig : Nat → R) (A : CMV 4 R)
    (h1 : A ⟨1, by decide⟩ = 0)
    (h2 : A ⟨2, by decide⟩ = 0)
    (h4 : A ⟨4, by decide⟩ = 0)
    (h8 : A ⟨8, by decide⟩ = 0)
    (h3 : A ⟨3, by decide⟩ = 0)
    (h5 : A ⟨5, by decide⟩ = 0)
    (h6 : A ⟨6, by decide⟩ = 0)
    (h9 : A ⟨9, by decide⟩ = 0)
    (h10 : A ⟨10, by decide⟩ = 0)
    (h12 : A ⟨12, by decide⟩ = 0) :
    gmul 4 sig A (fac4 A) ⟨4, by decide⟩ = 0 := by
  have k1 : A 1 = 0 := h1
  have k2 : A 2 = 0 := h2
  have k4 : A 4 = 0 := h4
  have k8 : A 8 = 0 := h8
  have k3 : A 3 = 0 := h3
  have k5 : A 5 = 0 := h5
  have k6 : A 6 = 0 := h6
  have k9 : A 9 = 0 := h9
  have k10 : A 10 = 0 := h10
  have k12 : A 12 = 0 := h12
  simp only [gmul, fac4, gpart, Finset.sum_fin_eq_sum_range, Pi.sub_apply, Pi.add_apply, Pi.smul_apply, smul_eq_mul_R]
  simp +decide [Finset.sum_range_succ, fxor, s, swaps, metric, sgn, pc, bit, Finset.prod_range_succ, k1, k2, k4, k8, k3, k5, k6, k9, k10, k12]
  try ring

theorem sp4_5 (sig : Nat → R) (A : CMV 4 R)
    (h1 : A ⟨1, by decide⟩ = 0)
    (h2 : A ⟨2, by decide⟩ = 0)
    (h4 : A ⟨4, by decide⟩ = 0)
    (h8 : A ⟨8, by decide⟩ = 0)
    (h3 : A ⟨3, by decide⟩ = 0)
    (h5 : A ⟨5, by decide⟩ = 0)
    (h6 : A ⟨6, by decide⟩ = 0)
    (h9 : A ⟨9, by decide⟩ = 0)
    (h10 : A ⟨10, by decide⟩ = 0)
    (h12 : A ⟨12, by decide⟩ = 0) :
    gmul 4 sig A (fac4 A) ⟨5, by decide⟩ = 0 := by
  have k1 : A 1 = 0 := h1
  have k2 : A 2 = 0 := h2
  have k4 : A 4 = 0 := h4
  have k8 : A 8 = 0 := h8
  have k3 : A 3 = 0 := h3
  have k5 : A 5 = 0 := h5
  have k6 : A 6 = 0 := h6
  have k9 : A 9 = 0 := h9
  have k10 : A 10 = 0 := h10
  have k12 : A 12 = 0 := h12
  simp only [gmul, fac4, gpart, Finset.sum_fin_eq_sum_range, Pi.sub_apply, Pi.add_apply, Pi.smul_apply, smul_eq_mul_R]
  simp +decide [Finset.sum_range_succ, fxor, s, swaps, metric, sgn, pc, bit, Finset.prod_range_succ, k1, k2, k4, k8, k3, k5, k6, k9, k10, k12]
  try ring

theorem sp4_6 (sig : Nat → R) (A : CMV 4 R)
    (h1 : A ⟨1, by decide⟩ = 0)
    (h2 : A ⟨2, by decide⟩ = 0)
    (h4 : A ⟨4, by decide⟩ = 0)
    (h8 : A ⟨8, by decide⟩ = 0)
    (h3 : A ⟨3, by decide⟩ = 0)
    (h5 : A ⟨5, by decide⟩ = 0)
    (h6 : A ⟨6, by decide⟩ = 0)
    (h9 : A ⟨9, by decide⟩ = 0)
    (h10 : A ⟨10, by decide⟩ = 0)
    (h12 : A ⟨12, by decide⟩ = 0) :
    gmul 4 sig A (fac4 A) ⟨6, by decide⟩ = 0 := by
  have k1 : A 1 = 0 := h1
  have k2 : A 2 = 0 := h2
  have k4 : A 4 = 0 := h4
  have k8 : A 8 = 0 := h8
  have k3 : A 3 = 0 := h3
  have k5 : A 5 = 0 := h5
  have k6 : A 6 = 0 := h6
  have k9 : A 9 = 0 := h9
  have k10 : A 10 = 0 := h10
  have k12 : A 12 = 0 := h12
  simp only [gmul, fac4, gpart, Finset.sum_fin_eq_sum_range, Pi.sub_apply, Pi.add_apply, Pi.smul_apply, smul_eq_mul_R]
  simp +decide [Finset.sum_range_succ, fxor, s, swaps, metric, sgn, pc, bit, Finset.prod_range_succ, k1, k2, k4, k8, k3, k5, k6, k9, k10, k12]
  try ring

theorem sp4_7 (sig : Nat → R) (A : CMV 4 R)
    (h1 : A ⟨1, by decide⟩ = 0)
    (h2 : A ⟨2, by decide⟩ = 0)
    (h4 : A ⟨4, by decide⟩ = 0)
    (h8 : A ⟨8, by decide⟩ = 0)
    (h3 : A ⟨3, by decide⟩ = 0)
    (h5 : A ⟨5, by decide⟩ = 0)
    (h6 : A ⟨6, by decide⟩ = 0)
    (h9 : A ⟨9, by decide⟩ = 0)
    (h10 : A ⟨10, by decide⟩ = 0)
    (h12 : A ⟨12, by decide⟩ = 0) :
    gmul 4 sig A (fac4 A) ⟨7, by decide⟩ = 0 := by
  have k1 : A 1 = 0 := h1
  have k2 : A 2 = 0 := h2
  have k4 : A 4 = 0 := h4
  have k8 : A 8 = 0 := h8
  have k3 : A 3 = 0 := h3
  have k5 : A 5 = 0 := h5
  have k6 : A 6 = 0 := h6
  have k9 : A 9 = 0 := h9
  have k10 : A 10 = 0 := h10
  have k12 : A 12 = 0 := h12
  simp only [gmul, fac4, gpart, Finset.sum_fin_eq_sum_range, Pi.sub_apply, Pi.add_apply, Pi.smul_apply, smul_eq_mul_R]
  simp +decide [Finset.sum_range_succ, fxor, s, swaps, metric, sgn, pc, bit, Finset.prod_range_succ, k1, k2, k4, k8, k3, k5, k6, k9, k10, k12]
  try ring

theorem sp4_8 (sig : Nat → R) (A : CMV 4 R)
    (h1 : A ⟨1, by decide⟩ = 0)
    (h2 : A ⟨2, by decide⟩ = 0)
    (h4 : A ⟨4, by decide⟩ = 0)
    (h8 : A ⟨8, by decide⟩ = 0)
    (h3 : A ⟨3, by decide⟩ = 0)
    (h5 : A ⟨5, by decide⟩ = 0)
    (h6 : A ⟨6, by decide⟩ = 0)
    (h9 : A ⟨9, by decide⟩ = 0)
    (h10 : A ⟨10, by decide⟩ = 0)
    (h12 : A ⟨12, by decide⟩ = 0) :
    gmul 4 sig A (fac4 A) ⟨8, by decide⟩ = 0 := by
  have k1 : A 1 = 0 := h1
  have k2 : A 2 = 0 := h2
  have k4 : A 4 = 0 := h4
  have k8 : A 8 = 0 := h8
  have k3 : A 3 = 0 := h3
  have k5 : A 5 = 0 := h5
  have k6 : A 6 = 0 := h6
  have k9 : A 9 = 0 := h9
  have k10 : A 10 = 0 := h10
  have k12 : A 12 = 0 := h12
  simp only [gmul, fac4, gpart, Finset.sum_fin_eq_sum_range, Pi.sub_apply, Pi.add_apply, Pi.smul_apply, smul_eq_mul_R]
  simp +decide [Finset.sum_range_succ, fxor, s, swaps, metric, sgn, pc, bit, Finset.prod_range_succ, k1, k2, k4, k8, k3, k5, k6, k9, k10, k12]
  try ring

theorem sp4_9 (sig : Nat → R) (A : CMV 4 R)
    (h1 : A ⟨1, by decide⟩ = 0)
    (h2 : A ⟨2, by decide⟩ = 0)
    (h4 : A ⟨4, by decide⟩ = 0)
    (h8 : A ⟨8, by decide⟩ = 0)
    (h3 : A ⟨3, by decide⟩ = 0)
    (h5 : A ⟨5, by decide⟩ = 0)
    (h6 : A ⟨6, by decide⟩ = 0)
    (h9 : A ⟨9, by decide⟩ = 0)
    (h10 : A ⟨10, by decide⟩ = 0)
    (h12 : A ⟨12, by decide⟩ = 0) :
    gmul 4 sig A (fac4 A) ⟨9, by decide⟩ = 0 := by
  have k1 : A 1 = 0 := h1
  have k2 : A 2 = 0 := h2
  have k4 : A 4 = 0 := h4
  have k8 : A 8 = 0 := h8
  have k3 : A 3 = 0 := h3
  have k5 : A 5 = 0 := h5
  have k6 : A 6 = 0 := h6
  have k9 : A 9 = 0 := h9
  have k10 : A 10 = 0 := h10
  have k12 : A 12 = 0 := h12
  simp only [gmul, fac4, gpart, Finset.sum_fin_eq_sum_range, Pi.sub_apply, Pi.add_apply, Pi.smul_apply, smul_eq_mul_R]
  simp +decide [Finset.sum_range_succ, fxor, s, swaps, metric, sgn, pc, bit, Finset.prod_range_succ, k1, k2, k4, k8, k3, k5, k6, k9, k10, k12]
  try ring

theorem sp4_10 (sig : Nat → R) (A : CMV 4 R)
    (h1 : A ⟨1, by decide⟩ = 0)
    (h2 : A ⟨2, by decide⟩ = 0)
    (h4 : A ⟨4, by decide⟩ = 0)
    (h8 : A ⟨8, by decide⟩ = 0)
    (h3 : A ⟨3, by decide⟩ = 0)
    (h5 : A ⟨5, by decide⟩ = 0)
    (h6 : A ⟨6, by decide⟩ = 0)
    (h9 : A ⟨9, by decide⟩ = 0)
    (h10 : A ⟨10, by decide⟩ = 0)
    (h12 : A ⟨12, by decide⟩ = 0) :
    gmul 4 sig A (fac4 A) ⟨10, by decide⟩ = 0 := by
  have k1 : A 1 = 0 := h1
  have k2 : A 2 = 0 := h2
  have k4 : A 4 = 0 := h4
  have k8 : A 8 = 0 := h8
  have k3 : A 3 = 0 := h3
  have k5 : A 5 = 0 := h5
  have k6 : A 6 = 0 := h6
  have k9 : A 9 = 0 := h9
  have k10 : A 10 = 0 := h10
  have k12 : A 12 = 0 := h12
  simp only [gmul, fac4, gpart, Finset.sum_fin_eq_sum_range, Pi.sub_apply, Pi.add_apply, Pi.smul_apply, smul_eq_mul_R]
  simp +decide [Finset.sum_range_succ, fxor, s, swaps, metric, sgn, pc, bit, Finset.prod_range_succ, k1, k2, k4, k8, k3, k5, k6, k9, k10, k12]
  try ring

theorem sp4_11 (sig : Nat → R) (A : CMV 4 R)
    (h1 : A ⟨1, by decide⟩ = 0)
    (h2 : A ⟨2, by decide⟩ = 0)
    (h4 : A ⟨4, by decide⟩ = 0)
    (h8 : A ⟨8, by decide⟩ = 0)
    (h3 : A ⟨3, by decide⟩ = 0)
    (h5 : A ⟨5, by decide⟩ = 0)
    (h6 : A ⟨6, by decide⟩ = 0)
    (h9 : A ⟨9, by decide⟩ = 0)
    (h10 : A ⟨10, by decide⟩ = 0)
    (h12 : A ⟨12, by decide⟩ = 0) :
    gmul 4 sig A (fac4 A) ⟨11, by decide⟩ = 0 := by
  have k1 : A 1 = 0 := h1
  have k2 : A 2 = 0 := h2
  have k4 : A 4 = 0 := h4
  have k8 : A 8 = 0 := h8
  have k3 : A 3 = 0 := h3
  have k5 : A 5 = 0 := h5
  have k6 : A 6 = 0 := h6
  have k9 : A 9 = 0 := h9
  have k10 : A 10 = 0 := h10
  have k12 : A 12 = 0 := h12
  simp only [gmul, fac4, gpart, Finset.sum_fin_eq_sum_range, Pi.sub_apply, Pi.add_apply, Pi.smul_apply, smul_eq_mul_R]
  simp +decide [Finset.sum_range_succ, fxor, s, swaps, metric, sgn, pc, bit, Finset.prod_range_succ, k1, k2, k4, k8, k3, k5, k6, k9, k10, k12]
  try ring

theorem sp4_12 (sig : Nat → R) (A : CMV 4 R)
    (h1 : A ⟨1, by decide⟩ = 0)
    (h2 : A ⟨2, by decide⟩ = 0)
    (h4 : A ⟨4, by decide⟩ = 0)
    (h8 : A ⟨8, by decide⟩ = 0)
    (h3 : A ⟨3, by decide⟩ = 0)
    (h5 : A ⟨5, by decide⟩ = 0)
    (h6 : A ⟨6, by decide⟩ = 0)
    (h9 : A ⟨9, by decide⟩ = 0)
    (h10 : A ⟨10, by decide⟩ = 0)
    (h12 : A ⟨12, by decide⟩ = 0) :
    gmul 4 sig A (fac4 A) ⟨12, by decide⟩ = 0 := by
  have k1 : A 1 = 0 := h1
  have k2 : A 2 = 0 := h2
  have k4 : A 4 = 0 := h4
  have k8 : A 8 = 0 := h8
  have k3 : A 3 = 0 := h3
  have k5 : A 5 = 0 := h5
  have k6 : A 6 = 0 := h6
  have k9 : A 9 = 0 := h9
  have k10 : A 10 = 0 := h10
  have k12 : A 12 = 0 := h12
  simp only [gmul, fac4, gpart, Finset.sum_fin_eq_sum_range, Pi.sub_apply, Pi.add_apply, Pi.smul_apply, smul_eq_mul_R]
  simp +decide [Finset.sum_range_succ, fxor, s, swaps, metric, sgn, pc, bit, Finset.prod_range_succ, k1, k2, k4, k8, k3, k5, k6, k9, k10, k12]
  try ring

theorem sp4_13 (sig : Nat → R) (A : CMV 4 R)
    (h1 : A ⟨1, by decide⟩ = 0)
    (h2 : A ⟨2, by decide⟩ = 0)
    (h4 : A ⟨4, by decide⟩ = 0)
    (h8 : A ⟨8, by decide⟩ = 0)
    (h3 : A ⟨3, by decide⟩ = 0)
    (h5 : A ⟨5, by decide⟩ = 0)
    (h6 : A ⟨6, by decide⟩ = 0)
    (h9 : A ⟨9, by decide⟩ = 0)
    (h10 : A ⟨10, by decide⟩ = 0)
    (h12 : A ⟨12, by decide⟩ = 0) :
    gmul 4 sig A (fac4 A) ⟨13, by decide⟩ = 0 := by
  have k1 : A 1 = 0 := h1
  have k2 : A 2 = 0 := h2
  have k4 : A 4 = 0 := h4
  have k8 : A 8 = 0 := h8
  have k3 : A 3 = 0 := h3
  have k5 : A 5 = 0 := h5
  have k6 : A 6 = 0 := h6
  have k9 : A 9 = 0 := h9
  have k10 : A 10 = 0 := h10
  have k12 : A 12 = 0 := h12
  simp only [gmul, fac4, gpart, Finset.sum_fin_eq_sum_range, Pi.sub_apply, Pi.add_apply, Pi.smul_apply, smul_eq_mul_R]
  simp +decide [Finset.sum_range_succ, fxor, s, swaps, metric, sgn, pc, bit, Finset.prod_range_succ, k1, k2, k4, k8, k3, k5, k6, k9, k10, k12]
  try ring

theorem sp4_14 (sig : Nat → R) (A : CMV 4 R)
    (h1 : A ⟨1, by decide⟩ = 0)
    (h2 : A ⟨2, by decide⟩ = 0)
    (h4 : A ⟨4, by decide⟩ = 0)
    (h8 : A ⟨8, by decide⟩ = 0)
    (h3 : A ⟨3, by decide⟩ = 0)
    (h5 : A ⟨5, by decide⟩ = 0)
    (h6 : A ⟨6, by decide⟩ = 0)
    (h9 : A ⟨9, by decide⟩ = 0)
    (h10 : A ⟨10, by decide⟩ = 0)
    (h12 : A ⟨12, by decide⟩ = 0) :
    gmul 4 sig A (fac4 A) ⟨14, by decide⟩ = 0 := by
  have k1 : A 1 = 0 := h1
  have k2 : A 2 = 0 := h2
  have k4 : A 4 = 0 := h4
  have k8 : A 8 = 0 := h8
  have k3 : A 3 = 0 := h3
  have k5 : A 5 = 0 := h5
  have k6 : A 6 = 0 := h6
  have k9 : A 9 = 0 := h9
  have k10 : A 10 = 0 := h10
  have k12 : A 12 = 0 := h12
  simp only [gmul, fac4, gpart, Finset.sum_fin_eq_sum_range, Pi.sub_apply, Pi.add_apply, Pi.smul_apply, smul_eq_mul_R]
  simp +decide [Finset.sum_range_succ, fxor, s, swaps, metric, sgn, pc, bit, Finset.prod_range_succ, k1, k2, k4, k8, k3, k5, k6, k9, k10, k12]
  try ring

theorem sp4_15 (sig : Nat → R) (A : CMV 4 R)
    (h1 : A ⟨1, by decide⟩ = 0)
    (h2 : A ⟨2, by decide⟩ = 0)
    (h4 : A ⟨4, by decide⟩ = 0)
    (h8 : A ⟨8, by decide⟩ = 0)
    (h3 : A ⟨3, by decide⟩ = 0)
    (h5 : A ⟨5, by decide⟩ = 0)
    (h6 : A ⟨6, by decide⟩ = 0)
    (h9 : A ⟨9, by decide⟩ = 0)
    (h10 : A ⟨10, by decide⟩ = 0)
    (h12 : A ⟨12, by decide⟩ = 0) :
    gmul 4 sig A (fac4 A) ⟨15, by decide⟩ = 0 := by
  have k1 : A 1 = 0 := h1
  have k2 : A 2 = 0 := h2
  have k4 : A 4 = 0 := h4
  have k8 : A 8 = 0 := h8
  have k3 : A 3 = 0 := h3
  have k5 : A 5 = 0 := h5
  have k6 : A 6 = 0 := h6
  have k9 : A 9 = 0 := h9
  have k10 : A 10 = 0 := h10
  have k12 : A 12 = 0 := h12
  simp only [gmul, fac4, gpart, Finset.sum_fin_eq_sum_range, Pi.sub_apply, Pi.add_apply, Pi.smul_apply, smul_eq_mul_R]
  simp +decide [Finset.sum_range_succ, fxor, s, swaps, metric, sgn, pc, bit, Finset.prod_range_succ, k1, k2, k4, k8, k3, k5, k6, k9, k10, k12]
  try ring

/-- for `A` with grades {0, 3, 4} only, `A * (A - 2 A(3,4))` is a scalar (15 components) -/
theorem sp4 (sig : Nat → R) (A : CMV 4 R)
    (h1 : A ⟨1, by decide⟩ = 0)
    (h2 : A ⟨2, by decide⟩ = 0)
    (h4 : A ⟨4, by decide⟩ = 0)
    (h8 : A ⟨8, by decide⟩ = 0)
    (h3 : A ⟨3, by decide⟩ = 0)
    (h5 : A ⟨5, by decide⟩ = 0)
    (h6 : A ⟨6, by decide⟩ = 0)
    (h9 : A ⟨9, by decide⟩ = 0)
    (h10 : A ⟨10, by decide⟩ = 0)
    (h12 : A ⟨12, by decide⟩ = 0) :
    gmul 4 sig A (fac4 A) ⟨1, by decide⟩ = 0 ∧ gmul 4 sig A (fac4 A) ⟨2, by decide⟩ = 0 ∧ gmul 4 sig A (fac4 A) ⟨3, by decide⟩ = 0 ∧ gmul 4 sig A (fac4 A) ⟨4, by decide⟩ = 0 ∧ gmul 4 sig A (fac4 A) ⟨5, by decide⟩ = 0 ∧ gmul 4 sig A (fac4 A) ⟨6, by decide⟩ = 0 ∧ gmul 4 sig A (fac4 A) ⟨7, by decide⟩ = 0 ∧ gmul 4 sig A (fac4 A) ⟨8, by decide⟩ = 0 ∧ gmul 4 sig A (fac4 A) ⟨9, by decide⟩ = 0 ∧ gmul 4 sig A (fac4 A) ⟨10, by decide⟩ = 0 ∧ gmul 4 sig A (fac4 A) ⟨11, by decide⟩ = 0 ∧ gmul 4 sig A (fac4 A) ⟨12, by decide⟩ = 0 ∧ gmul 4 sig A (fac4 A) ⟨13, by decide⟩ = 0 ∧ gmul 4 sig A (fac4 A) ⟨14, by decide⟩ = 0 ∧ gmul 4 sig A (fac4 A) ⟨15, by decide⟩ = 0 :=
  ⟨sp4_1 sig A h1 h2 h4 h8 h3 h5 h6 h9 h10 h12, sp4_2 sig A h1 h2 h4 h8 h3 h5 h6 h9 h10 h12, sp4_3 sig A h1 h2 h4 h8 h3 h5 h6 h9 h10 h12, sp4_4 sig A h1 h2 h4 h8 h3 h5 h6 h9 h10 h12, sp4_5 sig A h1 h2 h4 h8 h3 h5 h6 h9 h10 h12, sp4_6 sig A h1 h2 h4 h8 h3 h5 h6 h9 h10 h12, sp4_7 sig A h1 h2 h4 h8 h3 h5 h6 h9 h10 h12, sp4_8 sig A h1 h2 h4 h8 h3 h5 h6 h9 h10 h12, sp4_9 sig A h1 h2 h4 h8 h3 h5 h6 h9 h10 h12, sp4_10 sig A h1 h2 h4 h8 h3 h5 h6 h9 h10 h12, sp4_11 sig A h1 h2 h4 h8 h3 h5 h6 h9 h10 h12, sp4_12 sig A h1 h2 h4 h8 h3 h5 h6 h9 h10 h12, sp4_13 sig A h1 h2 h4 h8 h3 h5 h6 h9 h10 h12, sp4_14 sig A h1 h2 h4 h8 h3 h5 h6 h9 h10 h12, sp4_15 sig A h1 h2 h4 h8 h3 h5 h6 h9 h10 h12⟩

/-- the coded numerator for n = 4 -/
def num4 (sig : Nat → R) (M : CMV 4 R) : CMV 4 R := gmul 4 sig (cconj 4 M) (fac4 (gmul 4 sig M (cconj 4 M)))

theorem hitzer4 (sig : Nat → R) (M : CMV 4 R) (c : Bm 4) (hc : c ≠ fzero) : gmul 4 sig M (num4 sig M) c = 0 := by
  unfold num4
  rw [← gmul_assoc]
  obtain ⟨m1, m2, m4, m8, m3, m5, m6, m9, m10, m12⟩ := mconj4 sig M
  have h := sp4 sig (gmul 4 sig M (cconj 4 M)) m1 m2 m4 m8 m3 m5 m6 m9 m10 m12
  obtain ⟨v, hv⟩ := c
  have h0 : v ≠ 0 := by intro h; apply hc; exact Fin.ext h
  have : v = 1 ∨ v = 2 ∨ v = 3 ∨ v = 4 ∨ v = 5 ∨ v = 6 ∨ v = 7 ∨ v = 8 ∨ v = 9 ∨ v = 10 ∨ v = 11 ∨ v = 12 ∨ v = 13 ∨ v = 14 ∨ v = 15 := by omega
  rcases this with rfl | rfl | rfl | rfl | rfl | rfl | rfl | rfl | rfl | rfl | rfl | rfl | rfl | rfl | rfl
  · exact h.1
  · exact h.2.1
  · exact h.2.2.1
  · exact h.2.2.2.1
  · exact h.2.2.2.2.1
  · exact h.2.2.2.2.2.1
  · exact h.2.2.2.2.2.2.1
  · exact h.2.2.2.2.2.2.2.1
  · exact h.2.2.2.2.2.2.2.2.1
  · exact h.2.2.2.2.2.2.2.2.2.1
  · exact h.2.2.2.2.2.2.2.2.2.2.1
  · exact h.2.2.2.2.2.2.2.2.2.2.2.1
  · exact h.2.2.2.2.2.2.2.2.2.2.2.2.1
  · exact h.2.2.2.2.2.2.2.2.2.2.2.2.2.1
  · exact h.2.2.2.2.2.2.2.2.2.2.2.2.2.2
