import Proofs.Conf2

/-! C15: the formulas of `clifford.tools.classify` (GA4CS table 14.1) from the defining relations, any ℚ-algebra.

A direction blade `E` of grade `k` in base space commutes (`ε = 1`, `k` even) or anticommutes (`ε = −1`, `k` odd) with the two
added basis vectors and squares to a scalar `e2`.  For a vector `v` and a homogeneous `X` of grade `g` (`σ = (−1)^g`) the coded
products are `v|X = ½(vX − σXv)`, `X|v = ½(Xv − σvX)`, `v∧X = ½(vX + σXv)`, `X∧v = ½(Xv + σvX)` — proved for the coded tables
in `Proofs/Fund.lean` (`two_inner_vector_hom`, `blade_inner_vector`, `two_wedge_vector_hom`, `wedge_blade_vector`). -/

namespace Classify
open Conf
variable {A : Type} [Ring A] [Algebra ℚ A]

def vdot (v X : A) (σ : ℚ) : A := (1/2 : ℚ) • (v * X - σ • (X * v))
def dotv (X v : A) (σ : ℚ) : A := (1/2 : ℚ) • (X * v - σ • (v * X))
def vwedge (v X : A) (σ : ℚ) : A := (1/2 : ℚ) • (v * X + σ • (X * v))
def wedgev (X v : A) (σ : ℚ) : A := (1/2 : ℚ) • (X * v + σ • (v * X))

structure BRel (E ep en : A) (ε e2 : ℚ) : Prop where
  hep : ep * ep = 1
  hen : en * en = -1
  h3 : ep * en = -(en * ep)
  hEp : ep * E = ε • (E * ep)
  hEn : en * E = ε • (E * en)
  hEE : E * E = e2 • (1 : A)

section
variable {E ep en : A} {ε e2 : ℚ}
theorem BRel.hep' (r : BRel E ep en ε e2) (z : A) : ep * (ep * z) = z := by rw [← mul_assoc, r.hep, one_mul]
theorem BRel.hen' (r : BRel E ep en ε e2) (z : A) : en * (en * z) = -z := by rw [← mul_assoc, r.hen, neg_mul, one_mul]
theorem BRel.h3' (r : BRel E ep en ε e2) (z : A) : ep * (en * z) = -(en * (ep * z)) := by rw [← mul_assoc, r.h3, neg_mul, mul_assoc]
theorem BRel.hEp' (r : BRel E ep en ε e2) (z : A) : ep * (E * z) = ε • (E * (ep * z)) := by
  rw [← mul_assoc, r.hEp, smul_mul_assoc, mul_assoc]
theorem BRel.hEn' (r : BRel E ep en ε e2) (z : A) : en * (E * z) = ε • (E * (en * z)) := by
  rw [← mul_assoc, r.hEn, smul_mul_assoc, mul_assoc]
theorem BRel.hEE' (r : BRel E ep en ε e2) (z : A) : E * (E * z) = e2 • z := by rw [← mul_assoc, r.hEE, smul_mul_assoc, one_mul]
end

/-- normal form: `E` first, then `en`, then `ep` -/
macro "bl_nf" r:term : tactic => `(tactic| (
  simp only [mul_add, add_mul, mul_sub, sub_mul, smul_mul_assoc, mul_smul_comm, smul_smul, mul_assoc, mul_one, one_mul,
    neg_mul, mul_neg, neg_neg, smul_neg, neg_smul, smul_add, smul_sub,
    ($r).hep, ($r).hen, ($r).h3, ($r).hEp, ($r).hEn, ($r).hEE, ($r).hep', ($r).hen', ($r).h3', ($r).hEp', ($r).hEn', ($r).hEE']))

/-- non-vacuity: every base vector is a direction blade of grade 1 (`ε = −1`); the scalar 1 one of grade 0 -/
theorem BRel.of_vector {x ep en : A} {q : ℚ} (r : Rel x ep en q) : BRel x ep en (-1) q where
  hep := r.hep
  hen := r.hen
  h3 := r.h3
  hEp := by rw [r.h1]; simp
  hEn := by rw [r.h2]; simp
  hEE := r.hx

theorem BRel.of_one {x ep en : A} {q : ℚ} (r : Rel x ep en q) : BRel (1 : A) ep en 1 1 where
  hep := r.hep
  hen := r.hen
  h3 := r.h3
  hEp := by simp
  hEn := by simp
  hEE := by simp

theorem eps_cases {ε : ℚ} (h : ε * ε = 1) : ε = 1 ∨ ε = -1 := by
  have : (ε - 1) * (ε + 1) = 0 := by linear_combination h
  rcases mul_eq_zero.mp this with h1 | h1
  · left; linear_combination h1
  · right; linear_combination h1

variable {E ep en : A} {ε e2 : ℚ}

/-! ### Direction: `X = E ∧ einf` -/

/-- `E ∧ einf = E einf` -/
theorem direction_mv (r : BRel E ep en ε e2) (hε : ε * ε = 1) : wedgev E (einf ep en) ε = E * einf ep en := by
  unfold wedgev einf
  rcases eps_cases hε with h | h <;> subst h <;> · bl_nf r; module

/-- `−einf | X = 0` and `einf ∧ X = 0` (grade of `X` is `k+1`: `σ = −ε`) … -/
theorem direction_tests (r : BRel E ep en ε e2) (hε : ε * ε = 1) :
    vdot (-(einf ep en)) (E * einf ep en) (-ε) = 0 ∧ vwedge (einf ep en) (E * einf ep en) (-ε) = 0 := by
  unfold vdot vwedge einf
  rcases eps_cases hε with h | h <;> subst h <;> constructor <;> · bl_nf r; module

/-- … and `X | −eo = E`: the direction is recovered -/
theorem direction_recovered (r : BRel E ep en ε e2) (hε : ε * ε = 1) :
    dotv (E * einf ep en) (-(eo ep en)) (-ε) = E := by
  unfold dotv einf eo
  rcases eps_cases hε with h | h <;> subst h <;> · bl_nf r; module

/-! ### Flat at the origin: `X = eo ∧ E ∧ einf` (grade `k+2`: `σ = ε`) -/

def flat0 (E ep en : A) (ε : ℚ) : A := vwedge (eo ep en) (E * einf ep en) (-ε)

/-- `y = −einf | X = E einf ≠ 0`, `einf ∧ X = 0`, `eo ∧ X = 0` (so `(eo|X) X⁻¹ = eo`: the location is the origin),
    direction `y | −eo = E` by `direction_recovered` -/
theorem flat_tests (r : BRel E ep en ε e2) (hε : ε * ε = 1) :
    vdot (-(einf ep en)) (flat0 E ep en ε) ε = E * einf ep en
    ∧ vwedge (einf ep en) (flat0 E ep en ε) ε = 0
    ∧ vwedge (eo ep en) (flat0 E ep en ε) ε = 0 := by
  unfold vdot vwedge flat0 vwedge einf eo
  rcases eps_cases hε with h | h <;> subst h <;> refine ⟨?_, ?_, ?_⟩ <;> · bl_nf r; module

/-! ### Round at the origin: `X = (eo + ρ einf) ∧ E`, `ρ = r²/2` (grade `k+1`) -/

def round0 (E ep en : A) (ε ρ : ℚ) : A := vwedge (eo ep en + ρ • einf ep en) E ε

/-- `X = (eo + ρ einf) E` -/
theorem round_mv (r : BRel E ep en ε e2) (hε : ε * ε = 1) (ρ : ℚ) : round0 E ep en ε ρ = (eo ep en + ρ • einf ep en) * E := by
  unfold round0 vwedge einf eo
  rcases eps_cases hε with h | h <;> subst h <;> · bl_nf r; module

/-- `y = −einf | X = E`; then `direction = (y ∧ einf) | −eo = E` (`direction_mv`, `direction_recovered`),
    `location = X y⁻¹ = eo + ρ einf` (`round_mv`), and `X·X̂ = 2ρ·E²`, `y² = E²`: `radius² = 2ρ = r²`
    (real for `ρ > 0`, imaginary for `ρ < 0`, a tangent for `ρ = 0`) -/
theorem round_tests (r : BRel E ep en ε e2) (hε : ε * ε = 1) (ρ : ℚ) :
    vdot (-(einf ep en)) (round0 E ep en ε ρ) (-ε) = E
    ∧ round0 E ep en ε ρ * ((-ε) • round0 E ep en ε ρ) = (2 * ρ * e2) • (1 : A) := by
  rw [round_mv r hε]
  unfold vdot einf eo
  rcases eps_cases hε with h | h <;> subst h <;> constructor <;> · bl_nf r; module

/-! ### translation: `Blade._translate(t, X) = T X ~T`, `T = 1 − t einf/2` -/

/-- the sandwich by a unit versor is multiplicative … -/
theorem sandwich_mul (T Tr u w : A) (h : Tr * T = 1) : (T * u * Tr) * (T * w * Tr) = T * (u * w) * Tr := by
  calc (T * u * Tr) * (T * w * Tr) = T * u * (Tr * T) * w * Tr := by simp only [mul_assoc]
    _ = T * (u * w) * Tr := by rw [h]; simp only [mul_assoc, mul_one]

/-- … so it commutes with the four coded products of a vector and a blade: every test `classify` makes with `einf`
    (`−einf|X = 0?`, `einf∧X = 0?`) and the scalars `X·X̂`, `y²` are the same for a translated blade, because the
    translation fixes `einf` -/
theorem sandwich_vdot (T Tr v X : A) (σ : ℚ) (h : Tr * T = 1) : vdot (T * v * Tr) (T * X * Tr) σ = T * vdot v X σ * Tr := by
  unfold vdot; rw [sandwich_mul T Tr v X h, sandwich_mul T Tr X v h]
  simp only [mul_sub, sub_mul, mul_smul_comm, smul_mul_assoc]
theorem sandwich_vwedge (T Tr v X : A) (σ : ℚ) (h : Tr * T = 1) : vwedge (T * v * Tr) (T * X * Tr) σ = T * vwedge v X σ * Tr := by
  unfold vwedge; rw [sandwich_mul T Tr v X h, sandwich_mul T Tr X v h]
  simp only [mul_add, add_mul, mul_smul_comm, smul_mul_assoc]
theorem sandwich_scalar (T Tr : A) (c : ℚ) (h : T * Tr = 1) : T * (c • (1 : A)) * Tr = c • (1 : A) := by
  rw [mul_smul_comm, mul_one, smul_mul_assoc, h]

/-- the direction element `E einf` is translation invariant (`e = einf`: null, anticommutes with the translation vector,
    (anti)commutes with `E`), so `direction` is recovered for a blade at any location -/
theorem direction_translation_invariant (E a e : A) (ε : ℚ) (hee : e * e = 0) (hea : e * a = -(a * e)) (heE : e * E = ε • (E * e)) :
    (1 + (1/2 : ℚ) • (e * a)) * (E * e) * (1 + (1/2 : ℚ) • (a * e)) = E * e := by
  have hee' (z : A) : e * (e * z) = 0 := by rw [← mul_assoc, hee, zero_mul]
  have hea' (z : A) : e * (a * z) = -(a * (e * z)) := by rw [← mul_assoc, hea, neg_mul, mul_assoc]
  have heE' (z : A) : e * (E * z) = ε • (E * (e * z)) := by rw [← mul_assoc, heE, smul_mul_assoc, mul_assoc]
  simp only [mul_add, add_mul, mul_one, one_mul, smul_mul_assoc, mul_smul_comm, mul_assoc, hee, hea, heE, hee', hea', heE',
    mul_zero, smul_zero, neg_zero, mul_neg, neg_mul, add_zero]

/-- location of a translated round: `T (eo + ρ einf) ~T = up(p) + ρ einf`, and `down` of it is `p` -/
theorem round_location {p ep en : A} {qp : ℚ} (r : Rel p ep en qp) (ρ : ℚ) :
    transl p ep en * (eo ep en + ρ • einf ep en) * translRev p ep en = up p ep en qp + ρ • einf ep en
    ∧ (1/2 : ℚ) • ((up p ep en qp + ρ • einf ep en) * einf ep en + einf ep en * (up p ep en qp + ρ • einf ep en)) = -1
    ∧ ((1/2 : ℚ) • ((up p ep en qp + ρ • einf ep en) * E0 ep en + E0 ep en * (up p ep en qp + ρ • einf ep en))) * E0 ep en = p := by
  refine ⟨?_, ?_, ?_⟩
  · unfold transl translRev up eo einf; cga_nf r; module
  · unfold up eo einf; cga_nf r; module
  · rw [E0_eq r]; unfold up eo einf; cga_nf r; module

end Classify
