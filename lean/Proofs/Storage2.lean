import Proofs.Invol
import Proofs.Graded
import Model.MV

/-! C04: the executable involutions and the grade projection — sign vectors / masks indexed by *storage position* through the
    grade array — are the canonical maps `rev`, `gi`, `gpart` conjugated by the storage order `σ`. -/
open Model

namespace Storage2
variable {R : Type} [CommRing R] (n : Nat)

/-- `adjoint_func`: `signs[i] * value[i]` with `signs = (-1)^(g(g-1)/2)`, `g = grades[i] = popcount(index_to_bitmap[i])` -/
theorem storage_rev (σ : Equiv.Perm (Bm n)) (b2i grade : Nat → Nat)
    (h2 : ∀ c : Bm n, b2i c.val = (σ.symm c).val) (hg : ∀ i : Bm n, grade i.val = pc n (σ i).val) (a : Array R) (i : Bm n) :
    ((Ctx.negOnePow (grade i.val * (grade i.val - 1) / 2) : Int) : R) * a.getD i.val 0
      = rev n (fun c : Bm n => a.getD (b2i c.val) 0) (σ i) := by
  simp only [rev]
  rw [revSign_code, hg i, h2 (σ i)]; simp

/-- `_grade_invol`: `signs = (-1)^grades` -/
theorem storage_gi (σ : Equiv.Perm (Bm n)) (b2i grade : Nat → Nat)
    (h2 : ∀ c : Bm n, b2i c.val = (σ.symm c).val) (hg : ∀ i : Bm n, grade i.val = pc n (σ i).val) (a : Array R) (i : Bm n) :
    ((Ctx.negOnePow (grade i.val) : Int) : R) * a.getD i.val 0 = gi n (fun c : Bm n => a.getD (b2i c.val) 0) (σ i) := by
  simp only [gi]
  rw [negOnePow_cast, hg i, h2 (σ i)]; simp

/-- `M(g)`: `grade_mask(g) * value` -/
theorem storage_gradeProj (σ : Equiv.Perm (Bm n)) (b2i grade : Nat → Nat)
    (h2 : ∀ c : Bm n, b2i c.val = (σ.symm c).val) (hg : ∀ i : Bm n, grade i.val = pc n (σ i).val) (g : Nat) (a : Array R) (i : Bm n) :
    (if grade i.val = g then a.getD i.val 0 else 0) = gpart n g (fun c : Bm n => a.getD (b2i c.val) 0) (σ i) := by
  simp only [gpart]
  rw [hg i, h2 (σ i)]; simp

end Storage2
