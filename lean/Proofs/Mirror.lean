import Model.Table
import Mathlib.Data.List.Basic
import Mathlib.Data.List.Range
import Mathlib.Data.Nat.Bitwise

/-! C06: the default blade order has the complement at the mirrored position, for every n -/
namespace Mirror
open Model Shortlex

theorem foldl_or (a : Nat) (xs : List Nat) : xs.foldl (· ||| ·) a = a ||| xs.foldl (· ||| ·) 0 := by
  induction xs generalizing a with
  | nil => simp
  | cons x xs ih => simp only [List.foldl_cons]; rw [ih (a ||| x), ih (0 ||| x)]; simp [Nat.lor_assoc]

theorem orReduce_cons (x : Nat) (xs : List Nat) : orReduce (x :: xs) = x ||| orReduce xs := by
  simp only [orReduce, List.foldl_cons]; rw [foldl_or]; simp

theorem orReduce_nil : orReduce [] = 0 := rfl

/-- members of `combsC l k` split `l`: the OR of the two parts is the OR of `l` -/
theorem combsC_or (l : List Nat) (k : Nat) : ∀ p ∈ combsC l k, orReduce p.1 ||| orReduce p.2 = orReduce l := by
  induction l generalizing k with
  | nil => cases k <;> simp [combsC]
  | cons x xs ih =>
    cases k with
    | zero => simp [combsC, orReduce_nil]
    | succ k =>
      intro p hp
      simp only [combsC, List.mem_append, List.mem_map] at hp
      rcases hp with ⟨q, hq, rfl⟩ | ⟨q, hq, rfl⟩
      · have := ih k q hq
        simp only [orReduce_cons]; rw [← this, Nat.lor_assoc]
      · have := ih (k+1) q hq
        simp only [orReduce_cons]; rw [← this, ← Nat.lor_assoc, Nat.lor_comm (orReduce q.1) x, Nat.lor_assoc]

/-- every element of a part is an element of `l` -/
theorem combsC_sub (l : List Nat) (k : Nat) : ∀ p ∈ combsC l k, (∀ a ∈ p.1, a ∈ l) ∧ (∀ a ∈ p.2, a ∈ l) := by
  induction l generalizing k with
  | nil => cases k <;> simp [combsC]
  | cons x xs ih =>
    cases k with
    | zero => simp [combsC]
    | succ k =>
      intro p hp
      simp only [combsC, List.mem_append, List.mem_map] at hp
      rcases hp with ⟨q, hq, rfl⟩ | ⟨q, hq, rfl⟩
      · obtain ⟨h1, h2⟩ := ih k q hq
        constructor
        · intro a ha; rcases List.mem_cons.mp ha with rfl | h
          · simp
          · exact List.mem_cons_of_mem _ (h1 a h)
        · intro a ha; exact List.mem_cons_of_mem _ (h2 a ha)
      · obtain ⟨h1, h2⟩ := ih (k+1) q hq
        constructor
        · intro a ha; exact List.mem_cons_of_mem _ (h1 a ha)
        · intro a ha; rcases List.mem_cons.mp ha with rfl | h
          · simp
          · exact List.mem_cons_of_mem _ (h2 a h)

theorem and_orReduce_zero (x : Nat) (xs : List Nat) (h : ∀ y ∈ xs, x &&& y = 0) : x &&& orReduce xs = 0 := by
  induction xs with
  | nil => simp [orReduce_nil]
  | cons y ys ih =>
    rw [orReduce_cons, Nat.and_or_distrib_left, h y (by simp), ih (fun z hz => h z (List.mem_cons_of_mem _ hz))]; rfl

/-- for a list with pairwise disjoint bits, the two parts share no bit -/
theorem combsC_and (l : List Nat) (hd : l.Pairwise (fun a b => a &&& b = 0)) (k : Nat) :
    ∀ p ∈ combsC l k, orReduce p.1 &&& orReduce p.2 = 0 := by
  induction l generalizing k with
  | nil => cases k <;> simp [combsC, orReduce_nil]
  | cons x xs ih =>
    have hx : ∀ y ∈ xs, x &&& y = 0 := (List.pairwise_cons.mp hd).1
    have hd' := (List.pairwise_cons.mp hd).2
    cases k with
    | zero => simp [combsC, orReduce_nil]
    | succ k =>
      intro p hp
      simp only [combsC, List.mem_append, List.mem_map] at hp
      rcases hp with ⟨q, hq, rfl⟩ | ⟨q, hq, rfl⟩
      · have h1 := ih hd' k q hq
        have h2 := and_orReduce_zero x q.2 (fun y hy => hx y ((combsC_sub xs k q hq).2 y hy))
        simp only [orReduce_cons]; rw [Nat.and_comm, Nat.and_or_distrib_left, Nat.and_comm _ x, h2, Nat.and_comm, h1]; rfl
      · have h1 := ih hd' (k+1) q hq
        have h2 := and_orReduce_zero x q.1 (fun y hy => hx y ((combsC_sub xs (k+1) q hq).1 y hy))
        simp only [orReduce_cons]; rw [Nat.and_or_distrib_left, Nat.and_comm _ x, h2, h1]; rfl

theorem xor_of_or_and (f a c : Nat) (h1 : a ||| c = f) (h2 : a &&& c = 0) : f ^^^ a = c := by
  apply Nat.eq_of_testBit_eq; intro i
  have e1 := congrArg (fun z => z.testBit i) h1
  have e2 := congrArg (fun z => z.testBit i) h2
  simp only [Nat.testBit_or, Nat.testBit_and, Nat.zero_testBit] at e1 e2
  rw [Nat.testBit_xor, ← e1]
  cases ha : a.testBit i <;> cases hc : c.testBit i <;> simp_all

/-- the generators `1 <<< i` have pairwise disjoint bits and OR to `2^n − 1` -/
theorem gens_pairwise (n : Nat) : ((List.range n).map (1 <<< ·)).Pairwise (fun a b => a &&& b = 0) := by
  rw [List.pairwise_map]
  refine List.Pairwise.imp_of_mem ?_ (List.pairwise_lt_range)
  intro i j _ _ hij
  simp only [Nat.one_shiftLeft]
  apply Nat.eq_of_testBit_eq; intro k
  simp only [Nat.testBit_and, Nat.testBit_two_pow, Nat.zero_testBit]
  by_cases h1 : i = k <;> by_cases h2 : j = k <;> simp [h1, h2]
  omega

theorem gens_or (n : Nat) : orReduce ((List.range n).map (1 <<< ·)) = 2 ^ n - 1 := by
  induction n with
  | zero => rfl
  | succ n ih =>
    rw [List.range_succ, List.map_append, List.map_singleton]
    have happ : ∀ (xs ys : List Nat), orReduce (xs ++ ys) = orReduce xs ||| orReduce ys := by
      intro xs ys; simp only [orReduce, List.foldl_append]; rw [foldl_or]
    rw [happ, ih, orReduce_cons, orReduce_nil, Nat.or_zero, Nat.one_shiftLeft]
    apply Nat.eq_of_testBit_eq; intro k
    rw [Nat.testBit_or, Nat.testBit_two_pow_sub_one, Nat.testBit_two_pow_sub_one, Nat.testBit_two_pow]
    by_cases h1 : k < n <;> by_cases h2 : n = k <;> simp [h1, h2] <;> omega

theorem gens_length (n : Nat) : ((List.range n).map (1 <<< ·)).length = n := by simp

/-- the complement (within `2^n − 1`) of the OR of the first part is the OR of the second part -/
theorem compl_fst_eq_snd (n k : Nat) : ∀ p ∈ combsC ((List.range n).map (1 <<< ·)) k,
    (2 ^ n - 1) ^^^ orReduce p.1 = orReduce p.2 := by
  intro p hp
  apply xor_of_or_and
  · rw [combsC_or _ k p hp, gens_or]
  · exact combsC_and _ (gens_pairwise n) k p hp

theorem reverse_range_succ (n : Nat) : (List.range (n + 1)).reverse = (List.range (n + 1)).map (n - ·) := by
  apply List.ext_getElem
  · simp
  · intro i h1 h2
    simp only [List.length_reverse, List.length_range] at h1
    simp [List.getElem_reverse]

/-- **mirror law, every n**: reversing the default blade order and complementing each bitmap gives the default order back -/
theorem shortlexOrder_mirror (n : Nat) : (shortlexOrder n).reverse.map ((2 ^ n - 1) ^^^ ·) = shortlexOrder n := by
  unfold shortlexOrder
  set l := (List.range n).map (1 <<< ·) with hl
  have hlen : l.length = n := by rw [hl]; simp
  rw [List.reverse_flatMap, List.map_flatMap, reverse_range_succ, List.flatMap_map]
  -- both sides are flatMaps over `range (n+1)`; compare the summands
  have key : ∀ r ∈ List.range (n + 1),
      (((combs l (n - r)).map orReduce).reverse).map ((2 ^ n - 1) ^^^ ·) = (combs l r).map orReduce := by
    intro r hr
    have hr' : r ≤ n := by have := List.mem_range.mp hr; omega
    rw [← combsC_fst l (n - r), ← combsC_fst l r, List.map_map, ← List.map_reverse, List.map_map]
    have h1 : ∀ p ∈ (combsC l (n - r)).reverse, ((fun x => (2 ^ n - 1) ^^^ x) ∘ orReduce ∘ Prod.fst) p = (orReduce ∘ Prod.fst ∘ Prod.swap) p := by
      intro p hp
      simp only [Function.comp, Prod.fst_swap]
      exact compl_fst_eq_snd n (n - r) p (List.mem_reverse.mp hp)
    rw [List.map_congr_left h1]
    have h2 : List.map (orReduce ∘ Prod.fst ∘ Prod.swap) (combsC l (n - r)).reverse
        = List.map (orReduce ∘ Prod.fst) ((combsC l (n - r)).reverse.map Prod.swap) := by
      rw [List.map_map]; rfl
    have := combsC_reverse_swap l (n - r) (by omega)
    rw [h2, this, hlen, show n - (n - r) = r by omega, List.map_map]
  exact List.flatMap_congr key

/-- index form: the blade stored at the mirrored position is the complement (what `_gen_complement_func` relies on when it
    reads `omt[n, -1, dims-1-n]`) -/
theorem shortlexOrder_mirror_index (n i : Nat) (hi : i < (shortlexOrder n).length) :
    (shortlexOrder n)[i] = (2 ^ n - 1) ^^^ (shortlexOrder n)[(shortlexOrder n).length - 1 - i]'(by omega) := by
  have h := shortlexOrder_mirror n
  have hlen : ((shortlexOrder n).reverse.map ((2 ^ n - 1) ^^^ ·)).length = (shortlexOrder n).length := by simp
  have := List.getElem_of_eq h (i := i) (by rw [hlen]; exact hi)
  rw [← this]
  simp [List.getElem_reverse]

end Mirror
