import Proofs.Graded
import Proofs.Gen
import Mathlib.Algebra.Group.Action.Defs
import Mathlib.Algebra.Group.Action.Pi
open Finset

/-! C06: complements, dual and the vee product in canonical form.
No signature appears in the complements or in vee. -/

variable {R : Type} [CommRing R] (n : Nat)

/-- bitmap of the pseudoscalar -/
def full : Bm n := ⟨2^n - 1, Nat.sub_lt (Nat.two_pow_pos n) Nat.one_pos⟩
/-- complementary bitmap -/
def cmpl (c : Bm n) : Bm n := fxor (full n) c

theorem cmpl_cmpl (c : Bm n) : cmpl n (cmpl n c) = c := fxor_cancel _ _

theorem cmpl_testBit (c : Bm n) (i : Nat) : (cmpl n c).val.testBit i = (decide (i < n) && !c.val.testBit i) := by
  simp only [cmpl, fxor_val, full, Nat.testBit_xor, Nat.testBit_two_pow_sub_one]
  by_cases hi : i < n
  · simp [hi]
  · have : c.val < 2^i := lt_of_lt_of_le c.isLt (Nat.pow_le_pow_right (by decide) (by omega))
    simp [hi, Nat.testBit_lt_two_pow this]

theorem cmpl_and (c : Bm n) : (cmpl n c).val &&& c.val = 0 := by
  apply Nat.eq_of_testBit_eq; intro i
  rw [Nat.testBit_and, cmpl_testBit, Nat.zero_testBit]
  cases c.val.testBit i <;> simp

theorem and_cmpl (c : Bm n) : c.val &&& (cmpl n c).val = 0 := by rw [Nat.and_comm]; exact cmpl_and n c

theorem fxor_cmpl (c : Bm n) : fxor c (cmpl n c) = full n := by
  unfold cmpl; rw [fxor_comm c, fxor_assoc, fxor_self, fxor_zero]
theorem cmpl_fxor (c : Bm n) : fxor (cmpl n c) c = full n := by rw [fxor_comm]; exact fxor_cmpl n c

theorem wsign_sq_of_disjoint (a b : Nat) (h : a &&& b = 0) : (wsign n a b : R) * wsign n a b = 1 := by
  unfold wsign; rw [if_pos h]; exact sgn_mul_self _

/-- right complement: `E_b ↦ wsign(b, ~b) E_{~b}` -/
def rcomp (A : CMV n R) : CMV n R := fun c => wsign n (cmpl n c).val c.val * A (cmpl n c)
/-- left complement: `E_b ↦ wsign(~b, b) E_{~b}` -/
def lcomp (A : CMV n R) : CMV n R := fun c => wsign n c.val (cmpl n c).val * A (cmpl n c)

theorem lcomp_rcomp (A : CMV n R) : lcomp n (rcomp n A) = A := by
  funext c
  simp only [lcomp, rcomp, cmpl_cmpl]
  rw [← mul_assoc, wsign_sq_of_disjoint n _ _ (and_cmpl n c), one_mul]

theorem rcomp_lcomp (A : CMV n R) : rcomp n (lcomp n A) = A := by
  funext c
  simp only [lcomp, rcomp, cmpl_cmpl]
  rw [← mul_assoc, wsign_sq_of_disjoint n _ _ (cmpl_and n c), one_mul]

theorem rcomp_add (A B : CMV n R) : rcomp n (A + B) = rcomp n A + rcomp n B := by
  funext c; simp only [rcomp, Pi.add_apply]; ring
theorem lcomp_add (A B : CMV n R) : lcomp n (A + B) = lcomp n A + lcomp n B := by
  funext c; simp only [lcomp, Pi.add_apply]; ring
theorem rcomp_smul (q : R) (A : CMV n R) : rcomp n (q • A) = q • rcomp n A := by
  funext c; simp only [rcomp, Pi.smul_apply, smul_eq_mul_R]; ring
theorem lcomp_smul (q : R) (A : CMV n R) : lcomp n (q • A) = q • lcomp n A := by
  funext c; simp only [lcomp, Pi.smul_apply, smul_eq_mul_R]; ring

theorem cmpl_eq_iff (c b : Bm n) : cmpl n c = b ↔ c = cmpl n b := by
  constructor
  · intro h; rw [← h, cmpl_cmpl]
  · intro h; rw [h, cmpl_cmpl]

theorem rcomp_blade (b : Bm n) : rcomp n (blade n b : CMV n R) = (wsign n b.val (cmpl n b).val : R) • blade n (cmpl n b) := by
  funext c
  simp only [rcomp, blade, Pi.smul_apply, smul_eq_mul_R]
  by_cases h : c = cmpl n b
  · subst h; simp [cmpl_cmpl]
  · have : ¬ cmpl n c = b := fun hb => h ((cmpl_eq_iff n c b).mp hb)
    simp [h, this]

theorem lcomp_blade (b : Bm n) : lcomp n (blade n b : CMV n R) = (wsign n (cmpl n b).val b.val : R) • blade n (cmpl n b) := by
  funext c
  simp only [lcomp, blade, Pi.smul_apply, smul_eq_mul_R]
  by_cases h : c = cmpl n b
  · subst h; simp [cmpl_cmpl]
  · have : ¬ cmpl n c = b := fun hb => h ((cmpl_eq_iff n c b).mp hb)
    simp [h, this]

/-- wedge of two basis blades -/
theorem wedge_blade_blade (a b : Bm n) :
    wedge n (blade n a : CMV n R) (blade n b) = (wsign n a.val b.val : R) • blade n (fxor a b) := by
  funext c
  simp only [wedge, tmul, blade, Pi.smul_apply, smul_eq_mul_R]
  rw [Finset.sum_eq_single a]
  · by_cases h : c = fxor a b
    · subst h; simp [fxor_cancel]
    · have : fxor a c ≠ b := by
        intro hb; apply h; rw [← hb, fxor_cancel]
      simp [h, this]
  · intro x _ hx; simp [hx]
  · intro h; exact absurd (Finset.mem_univ _) h

theorem wedge_smul_right (q : R) (A B : CMV n R) : wedge n A (q • B) = q • wedge n A B := by
  rw [← mmul_omt_eq_wedge n (fun _ => (1 : R)), ← mmul_omt_eq_wedge n (fun _ => (1 : R))]
  exact mmul_smul_right n _ _ q A B
theorem wedge_smul_left (q : R) (A B : CMV n R) : wedge n (q • A) B = q • wedge n A B := by
  rw [← mmul_omt_eq_wedge n (fun _ => (1 : R)), ← mmul_omt_eq_wedge n (fun _ => (1 : R))]
  exact mmul_smul_left n _ _ q A B

/-- `b ∧ rc(b) = I` for every basis blade, in every metric (no signature enters) -/
theorem blade_wedge_rcomp (b : Bm n) :
    wedge n (blade n b : CMV n R) (rcomp n (blade n b)) = blade n (full n) := by
  rw [rcomp_blade, wedge_smul_right, wedge_blade_blade, smul_smul,
    wsign_sq_of_disjoint n _ _ (and_cmpl n b), one_smul, fxor_cmpl]

/-- `lc(b) ∧ b = I` -/
theorem lcomp_wedge_blade (b : Bm n) :
    wedge n (lcomp n (blade n b : CMV n R)) (blade n b) = blade n (full n) := by
  rw [lcomp_blade, wedge_smul_left, wedge_blade_blade, smul_smul,
    wsign_sq_of_disjoint n _ _ (cmpl_and n b), one_smul, cmpl_fxor]

/-! ### vee -/

/-- `vee_func`: `lc(rc(a) ∧ rc(b))` -/
def vee (A B : CMV n R) : CMV n R := lcomp n (wedge n (rcomp n A) (rcomp n B))

theorem rcomp_vee (A B : CMV n R) : rcomp n (vee n A B) = wedge n (rcomp n A) (rcomp n B) := by
  unfold vee; rw [rcomp_lcomp]

theorem vee_assoc (A B C : CMV n R) : vee n (vee n A B) C = vee n A (vee n B C) := by
  unfold vee; rw [rcomp_lcomp, rcomp_lcomp, wedge_assoc]

theorem wsign_zero_right (a : Nat) : (wsign n a 0 : R) = 1 := by
  unfold wsign; rw [Nat.and_zero, if_pos rfl, swaps_zero_right]; simp [sgn]
theorem wsign_zero_left (a : Nat) : (wsign n 0 a : R) = 1 := by
  unfold wsign; rw [Nat.zero_and, if_pos rfl, swaps_zero_left]; simp [sgn]

theorem wedge_one (A : CMV n R) : wedge n A (one n) = A := by
  funext c
  simp only [wedge, tmul, one]
  rw [Finset.sum_eq_single c]
  · have : (fzero : Bm n).val = 0 := rfl
    simp [this, wsign_zero_right]
  · intro b _ hb
    have : fxor b c ≠ fzero := by
      intro h; apply hb
      have := congrArg (fxor b) h; rw [fxor_cancel, fxor_zero] at this; exact this.symm
    simp [this]
  · intro h; exact absurd (Finset.mem_univ _) h

theorem one_wedge (A : CMV n R) : wedge n (one n) A = A := by
  funext c
  simp only [wedge, tmul, one]
  rw [Finset.sum_eq_single (fzero : Bm n)]
  · have : (fzero : Bm n).val = 0 := rfl
    simp [this, wsign_zero_left]
  · intro b _ hb; simp [hb]
  · intro h; exact absurd (Finset.mem_univ _) h

theorem cmpl_full : cmpl n (full n) = fzero := by unfold cmpl; exact fxor_self _

theorem blade_zero_eq_one : (blade n (fzero : Bm n) : CMV n R) = one n := by
  funext c; simp [blade, one]

theorem rcomp_full : rcomp n (blade n (full n) : CMV n R) = one n := by
  rw [rcomp_blade, cmpl_full]
  have : (fzero : Bm n).val = 0 := rfl
  rw [this, wsign_zero_right, one_smul, blade_zero_eq_one]

/-- the pseudoscalar is the identity of vee -/
theorem vee_full_right (A : CMV n R) : vee n A (blade n (full n)) = A := by
  unfold vee; rw [rcomp_full, wedge_one, lcomp_rcomp]
theorem vee_full_left (A : CMV n R) : vee n (blade n (full n)) A = A := by
  unfold vee; rw [rcomp_full, one_wedge, lcomp_rcomp]

/-! ### grades -/

theorem pc_full_and (c : Bm n) : (full n).val &&& c.val = c.val := by
  apply Nat.eq_of_testBit_eq; intro i
  simp only [full, Nat.testBit_and, Nat.testBit_two_pow_sub_one]
  by_cases hi : i < n
  · simp [hi]
  · have : c.val < 2^i := lt_of_lt_of_le c.isLt (Nat.pow_le_pow_right (by decide) (by omega))
    simp [hi, Nat.testBit_lt_two_pow this]

theorem pc_full : pc n (full n).val = n := by
  unfold pc
  have : ∀ i ∈ range n, bit (full n).val i = 1 := by
    intro i hi
    simp [bit, full, Nat.testBit_two_pow_sub_one, mem_range.mp hi]
  rw [Finset.sum_congr rfl this]; simp

theorem pc_cmpl (c : Bm n) : pc n (cmpl n c).val + pc n c.val = n := by
  have h := pc_xor n (full n).val c.val
  rw [pc_full_and, pc_full] at h
  have : (cmpl n c).val = (full n).val ^^^ c.val := rfl
  rw [this]; omega

theorem rcomp_hom (r : Nat) (A : CMV n R) (hA : IsHom n r A) : IsHom n (n - r) (rcomp n A) := by
  intro c hc
  simp only [rcomp]
  have := pc_cmpl n c
  rw [hA (cmpl n c) (by omega), mul_zero]

theorem lcomp_hom (r : Nat) (A : CMV n R) (hA : IsHom n r A) : IsHom n (n - r) (lcomp n A) := by
  intro c hc
  simp only [lcomp]
  have := pc_cmpl n c
  rw [hA (cmpl n c) (by omega), mul_zero]

theorem gpart_hom (g : Nat) (A : CMV n R) : IsHom n g (gpart n g A) := by
  intro c hc; simp [gpart, hc]

theorem wedge_hom (r t : Nat) (A B : CMV n R) (hA : IsHom n r A) (hB : IsHom n t B) :
    IsHom n (r + t) (wedge n A B) := by
  rw [← mmul_omt_eq_wedge n (fun _ => (1 : R)),
    mmul_hom n _ Model.omtCheck r t (r + t) (fun v => omtCheck_iff v r t) A B hA hB]
  exact gpart_hom n _ _

theorem pc_le (c : Bm n) : pc n c.val ≤ n := by have := pc_cmpl n c; omega

theorem isHom_zero_of_gt (g : Nat) (hg : n < g) (A : CMV n R) (hA : IsHom n g A) : A = 0 := by
  funext c
  have := pc_le n c
  exact hA c (by omega)

/-- vee maps grades `(r, s)` to `r + s - n` -/
theorem vee_hom (r t : Nat) (hr : r ≤ n) (ht : t ≤ n) (hrt : n ≤ r + t) (A B : CMV n R)
    (hA : IsHom n r A) (hB : IsHom n t B) : IsHom n (r + t - n) (vee n A B) := by
  unfold vee
  have h1 := wedge_hom n (n - r) (n - t) _ _ (rcomp_hom n r A hA) (rcomp_hom n t B hB)
  have h2 := lcomp_hom n _ _ h1
  have : n - (n - r + (n - t)) = r + t - n := by omega
  rw [this] at h2; exact h2

/-- … and to `0` when `r + s < n` -/
theorem vee_zero_of_lt (r t : Nat) (hr : r ≤ n) (ht : t ≤ n) (hrt : r + t < n) (A B : CMV n R)
    (hA : IsHom n r A) (hB : IsHom n t B) : vee n A B = 0 := by
  unfold vee
  have h1 := wedge_hom n (n - r) (n - t) _ _ (rcomp_hom n r A hA) (rcomp_hom n t B hB)
  have hz := isHom_zero_of_gt n _ (by omega) _ h1
  rw [hz]; funext c; simp [lcomp]

/-! ### dual -/

/-- `I * I` is the scalar `s(full, full)` (the table entry `gmt[-1, 0, -1]` that `dual_func` reads) -/
theorem full_sq (sig : Nat → R) :
    gmul n sig (blade n (full n)) (blade n (full n)) = s sig n (full n).val (full n).val • one n := by
  rw [gmul_blade_blade]; funext c
  simp only [fxor_self, one, Pi.smul_apply, smul_eq_mul_R]
  split <;> simp

/-- when that entry is invertible, `Iinv = (1/II) I` is the two-sided inverse of `I`: `dual M = M * I⁻¹` -/
theorem dual_Iinv (sig : Nat → R) (uinv : R) (h : s sig n (full n).val (full n).val * uinv = 1) :
    gmul n sig (blade n (full n)) (uinv • blade n (full n)) = one n
    ∧ gmul n sig (uinv • blade n (full n)) (blade n (full n)) = one n := by
  have e1 : gmul n sig (blade n (full n)) (uinv • blade n (full n)) = uinv • gmul n sig (blade n (full n)) (blade n (full n)) := by
    funext c; simp only [gmul, Pi.smul_apply, smul_eq_mul_R, Finset.mul_sum]
    refine Finset.sum_congr rfl (fun a _ => ?_); ring
  have e2 : gmul n sig (uinv • blade n (full n)) (blade n (full n)) = uinv • gmul n sig (blade n (full n)) (blade n (full n)) := by
    funext c; simp only [gmul, Pi.smul_apply, smul_eq_mul_R, Finset.mul_sum]
    refine Finset.sum_congr rfl (fun a _ => ?_); ring
  rw [e1, e2, full_sq, smul_smul, mul_comm, h, one_smul]
  exact ⟨rfl, rfl⟩
