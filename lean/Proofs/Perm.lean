import Proofs.Gen
import Proofs.Refine
open Finset Model

/-! C07 spike: the sign accumulated by `tuple_as_sign_and_bitmap` is the parity of the inversion count -/

/-- the loop of `BasisVectorIds.tuple_as_sign_and_bitmap` over id *positions*;
    `none` = ValueError("blade contains repeated basis vector") -/
def tupleLoop : (out : Nat) → (sw : Nat) → List Nat → Option (Nat × Nat)
  | out, sw, [] => some (sw, out)
  | out, sw, p :: ps =>
      if 2^p &&& out ≠ 0 then none
      else tupleLoop (out ^^^ 2^p) (sw + reorderSwaps out (2^p)) ps

/-- inversions counted the way the loop meets them: for each element, the earlier ones that are larger -/
def invCount : Finset Nat → List Nat → Nat
  | _, [] => 0
  | seen, t :: ps => (seen.filter (t < ·)).card + invCount (insert t seen) ps

/-- `out` is the bitmap of the set `seen` -/
def IsBitmapOf (out : Nat) (seen : Finset Nat) : Prop := ∀ i, out.testBit i = true ↔ i ∈ seen

theorem isBitmapOf_lt {out n : Nat} {seen : Finset Nat} (h : IsBitmapOf out seen) (hs : ∀ i ∈ seen, i < n) : out < 2^n := by
  apply Nat.lt_pow_two_of_testBit
  intro i hi
  by_contra hb
  have : i ∈ seen := (h i).mp (by simpa using hb)
  exact absurd (hs i this) (by omega)

theorem bits_above (n out t : Nat) (seen : Finset Nat) (h : IsBitmapOf out seen) (hs : ∀ i ∈ seen, i < n) :
    ∑ i ∈ Ico (t+1) n, bit out i = (seen.filter (t < ·)).card := by
  classical
  have : ∀ i, bit out i = if i ∈ seen then 1 else 0 := by
    intro i; unfold bit
    by_cases hi : i ∈ seen
    · simp [hi, (h i).mpr hi]
    · have : out.testBit i = false := by
        cases hb : out.testBit i
        · rfl
        · exact absurd ((h i).mp hb) hi
      simp [hi, this]
  simp only [this, Finset.sum_boole, Nat.cast_id]
  apply congrArg Finset.card
  ext i
  simp only [mem_filter, mem_Ico]
  constructor
  · rintro ⟨⟨h1, _⟩, h2⟩; exact ⟨h2, by omega⟩
  · rintro ⟨h1, h2⟩; exact ⟨⟨by omega, hs i h1⟩, h1⟩

theorem tupleLoop_spec (n : Nat) : ∀ (ps : List Nat) (out sw : Nat) (seen : Finset Nat),
    IsBitmapOf out seen → (∀ i ∈ seen, i < n) → (∀ p ∈ ps, p < n) → (∀ p ∈ ps, p ∉ seen) → ps.Nodup →
    ∃ out', tupleLoop out sw ps = some (sw + invCount seen ps, out') ∧ IsBitmapOf out' (seen ∪ ps.toFinset) := by
  intro ps
  induction ps with
  | nil => intro out sw seen h _ _ _ _; exact ⟨out, by simp [tupleLoop, invCount], by simpa using h⟩
  | cons p ps ih =>
    intro out sw seen h hs hp hns hnd
    have hpn : p < n := hp p (by simp)
    have hpns : p ∉ seen := hns p (by simp)
    have hand : 2^p &&& out = 0 := by
      apply Nat.eq_of_testBit_eq; intro i
      simp only [Nat.testBit_and, Nat.testBit_two_pow, Nat.zero_testBit]
      by_cases hi : p = i
      · subst hi
        have : out.testBit p = false := by
          cases hb : out.testBit p
          · rfl
          · exact absurd ((h p).mp hb) hpns
        simp [this]
      · simp [hi]
    have hout : out < 2^n := isBitmapOf_lt h hs
    have h2p : 2^p < 2^n := Nat.pow_lt_pow_right (by decide) hpn
    have hsw : reorderSwaps out (2^p) = (seen.filter (p < ·)).card := by
      rw [reorderSwaps_spec n out (2^p) hout h2p, swaps_single_right n out p hpn, bits_above n out p seen h hs]
    have h' : IsBitmapOf (out ^^^ 2^p) (insert p seen) := by
      intro i
      simp only [Nat.testBit_xor, Nat.testBit_two_pow, mem_insert]
      by_cases hi : p = i
      · subst hi
        have : out.testBit p = false := by
          cases hb : out.testBit p
          · rfl
          · exact absurd ((h p).mp hb) hpns
        simp [this]
      · have : (decide (p = i)) = false := by simp [hi]
        rw [this, Bool.xor_false]
        constructor
        · intro hb; right; exact (h i).mp hb
        · rintro (rfl | hm)
          · exact absurd rfl hi
          · exact (h i).mpr hm
    obtain ⟨out', he, hb'⟩ := ih (out ^^^ 2^p) (sw + reorderSwaps out (2^p)) (insert p seen) h'
      (by intro i hi; rcases mem_insert.mp hi with rfl | hi; exact hpn; exact hs i hi)
      (fun q hq => hp q (by simp [hq]))
      (by
        intro q hq hmem
        rcases mem_insert.mp hmem with rfl | hm
        · exact (List.nodup_cons.mp hnd).1 hq
        · exact hns q (by simp [hq]) hm)
      (List.nodup_cons.mp hnd).2
    refine ⟨out', ?_, ?_⟩
    · rw [tupleLoop, if_neg (by simp [hand]), he, hsw]; simp [invCount, Nat.add_assoc]
    · have : seen ∪ (p :: ps).toFinset = insert p seen ∪ ps.toFinset := by
        ext x; simp [or_comm, or_left_comm]
      rw [this]; exact hb'
