import Proofs.Wedge
import Model.Table
open Finset Model

/-! C02: the three grade-masked tables (`omt`, `imt`, `lcmt`) as masked products, and what they
compute on homogeneous operands.  `chk` is applied as the code applies it:
`check(grade(result), grade(left), grade(right))` on the integer grades. -/

variable {R : Type} [CommRing R] (n : Nat) (sig : Nat → R)

/-- grade-`g` part of a canonical multivector -/
def gpart (g : Nat) (A : CMV n R) : CMV n R := fun c => if pc n c.val = g then A c else 0

/-- homogeneous of grade `r`: every coefficient off grade `r` vanishes -/
def IsHom (r : Nat) (A : CMV n R) : Prop := ∀ c : Bm n, pc n c.val ≠ r → A c = 0

/-- the product defined by a grade-masked geometric table (`construct_graded_mt`) -/
def mmul (chk : Int → Int → Int → Bool) (A B : CMV n R) : CMV n R :=
  fun c => ∑ a : Bm n,
    if chk (pc n c.val : Nat) (pc n a.val : Nat) (pc n (fxor a c).val : Nat) then
      s sig n a.val (fxor a c).val * A a * B (fxor a c) else 0

/-- masked product on homogeneous operands, when the predicate selects exactly the result grade `g` -/
theorem mmul_hom (chk : Int → Int → Int → Bool) (r t g : Nat)
    (hchk : ∀ v : Nat, chk v r t = true ↔ v = g)
    (A B : CMV n R) (hA : IsHom n r A) (hB : IsHom n t B) :
    mmul n sig chk A B = gpart n g (gmul n sig A B) := by
  funext c
  simp only [mmul, gpart, gmul]
  by_cases hc : pc n c.val = g
  · rw [if_pos hc]
    refine Finset.sum_congr rfl (fun a _ => ?_)
    by_cases ha : pc n a.val = r
    · by_cases hb : pc n (fxor a c).val = t
      · rw [ha, hb, hc, if_pos ((hchk g).mpr rfl)]
      · rw [hB _ hb]; simp
    · rw [hA _ ha]; simp
  · rw [if_neg hc]
    refine Finset.sum_eq_zero (fun a _ => ?_)
    by_cases ha : pc n a.val = r
    · by_cases hb : pc n (fxor a c).val = t
      · rw [ha, hb]
        have : chk (pc n c.val : Nat) r t = false := by
          cases h : chk (pc n c.val : Nat) r t
          · rfl
          · exact absurd ((hchk _).mp h) hc
        rw [this]; simp
      · rw [hB _ hb]; simp
    · rw [hA _ ha]; simp

/-- masked product on homogeneous operands, when the predicate rejects every result grade -/
theorem mmul_hom_zero (chk : Int → Int → Int → Bool) (r t : Nat)
    (hchk : ∀ v : Nat, chk v r t = false)
    (A B : CMV n R) (hA : IsHom n r A) (hB : IsHom n t B) :
    mmul n sig chk A B = 0 := by
  funext c
  simp only [mmul, Pi.zero_apply]
  refine Finset.sum_eq_zero (fun a _ => ?_)
  by_cases ha : pc n a.val = r
  · by_cases hb : pc n (fxor a c).val = t
    · rw [ha, hb, hchk]; simp
    · rw [hB _ hb]; simp
  · rw [hA _ ha]; simp

theorem smul_eq_mul_R {R} [CommRing R] (q a : R) : q • a = q * a := rfl

/-- the masked products are additive in each argument (with linearity in scalars: bilinear) -/
theorem mmul_add_left (chk : Int → Int → Int → Bool) (A A' B : CMV n R) :
    mmul n sig chk (A + A') B = mmul n sig chk A B + mmul n sig chk A' B := by
  funext c
  simp only [mmul, Pi.add_apply, ← Finset.sum_add_distrib]
  refine Finset.sum_congr rfl (fun a _ => ?_)
  split <;> ring

theorem mmul_add_right (chk : Int → Int → Int → Bool) (A B B' : CMV n R) :
    mmul n sig chk A (B + B') = mmul n sig chk A B + mmul n sig chk A B' := by
  funext c
  simp only [mmul, Pi.add_apply, ← Finset.sum_add_distrib]
  refine Finset.sum_congr rfl (fun a _ => ?_)
  split <;> ring

theorem mmul_smul_left (chk : Int → Int → Int → Bool) (q : R) (A B : CMV n R) :
    mmul n sig chk (q • A) B = q • mmul n sig chk A B := by
  funext c
  simp only [mmul, Pi.smul_apply, smul_eq_mul_R, Finset.mul_sum]
  refine Finset.sum_congr rfl (fun a _ => ?_)
  split <;> ring

theorem mmul_smul_right (chk : Int → Int → Int → Bool) (q : R) (A B : CMV n R) :
    mmul n sig chk A (q • B) = q • mmul n sig chk A B := by
  funext c
  simp only [mmul, Pi.smul_apply, smul_eq_mul_R, Finset.mul_sum]
  refine Finset.sum_congr rfl (fun a _ => ?_)
  split <;> ring

/-! the three code predicates, on natural grades -/

theorem omtCheck_iff (v r t : Nat) : omtCheck v r t = true ↔ v = r + t := by
  simp only [omtCheck, beq_iff_eq]; omega

theorem lcmtCheck_iff_of_le (v r t : Nat) (h : r ≤ t) : lcmtCheck v r t = true ↔ v = t - r := by
  simp only [lcmtCheck, beq_iff_eq]; omega

theorem lcmtCheck_of_gt (v r t : Nat) (h : t < r) : lcmtCheck v r t = false := by
  simp only [lcmtCheck, beq_eq_false_iff_ne, ne_eq]; omega

theorem imtCheck_iff (v r t : Nat) (hr : r ≠ 0) (ht : t ≠ 0) :
    imtCheck v r t = true ↔ v = (if r ≤ t then t - r else r - t) := by
  simp only [imtCheck, Bool.and_eq_true, beq_iff_eq, bne_iff_ne, ne_eq]
  split <;> omega

theorem imtCheck_scalar_left (v t : Nat) : imtCheck v 0 t = false := by
  simp [imtCheck]

theorem imtCheck_scalar_right (v r : Nat) : imtCheck v r 0 = false := by
  simp [imtCheck]

/-- the outer-table product is the signature-free wedge: `omt` keeps entry `(a, b)` exactly when the
blades are disjoint, where the metric factor is an empty product -/
theorem mmul_omt_eq_wedge (A B : CMV n R) : mmul n sig omtCheck A B = wedge n A B := by
  funext c
  simp only [mmul, wedge, tmul]
  refine Finset.sum_congr rfl (fun a _ => ?_)
  have hx : a.val ^^^ (fxor a c).val = c.val := by
    simp only [fxor_val]
    apply Nat.eq_of_testBit_eq; intro i
    simp only [Nat.testBit_xor]
    cases a.val.testBit i <;> cases c.val.testBit i <;> rfl
  have hiff := pc_xor_eq_add_iff n a.val (fxor a c).val a.isLt (fxor a c).isLt
  rw [hx] at hiff
  by_cases hd : a.val &&& (fxor a c).val = 0
  · have hg : pc n c.val = pc n a.val + pc n (fxor a c).val := hiff.mpr hd
    rw [if_pos ((omtCheck_iff _ _ _).mpr hg), s_eq_wsign_of_disjoint n sig _ _ hd]
  · have hg : ¬ pc n c.val = pc n a.val + pc n (fxor a c).val := fun h => hd (hiff.mp h)
    have : omtCheck (pc n c.val : Nat) (pc n a.val : Nat) (pc n (fxor a c).val : Nat) = false := by
      cases h : omtCheck (pc n c.val : Nat) (pc n a.val : Nat) (pc n (fxor a c).val : Nat)
      · rfl
      · exact absurd ((omtCheck_iff _ _ _).mp h) hg
    rw [this]
    have hd2 : ¬ a.val &&& (a.val ^^^ c.val) = 0 := hd
    simp [wsign, hd2]

/-- vectors: `v ∧ v = 0` -/
theorem fxor_fxor_right {n} (a c : Bm n) : fxor (fxor a c) c = a := by
  rw [fxor_assoc, fxor_self, fxor_zero]

theorem wedge_self_vector (v : CMV n R) (hv : IsHom n 1 v) : wedge n v v = 0 := by
  funext c
  simp only [wedge, tmul, Pi.zero_apply]
  -- pair the term `a` with the term `a ^ c`
  apply Finset.sum_involution (fun a _ => fxor a c)
  · intro a _
    simp only [fxor_fxor_right]
    by_cases hd : a.val &&& (fxor a c).val = 0
    · by_cases ha : pc n a.val = 1
      · by_cases hb : pc n (fxor a c).val = 1
        · -- both single bits, disjoint: the two orders have opposite sign
          have h1 := swaps_add_swaps_comm n a.val (fxor a c).val
          rw [ha, hb, hd] at h1
          have hz : pc n 0 = 0 := by unfold pc; apply Finset.sum_eq_zero; intro i _; simp [bit]
          rw [hz] at h1
          have hd' : (fxor a c).val &&& a.val = 0 := by rw [Nat.and_comm]; exact hd
          simp only [wsign, hd, hd', if_true]
          have : (sgn (swaps n a.val (fxor a c).val) : R) = - sgn (swaps n (fxor a c).val a.val) := by
            have hp : swaps n a.val (fxor a c).val % 2 = (swaps n (fxor a c).val a.val + 1) % 2 := by omega
            rw [sgn_congr hp, sgn_add]; simp [sgn]
          rw [this]; ring
        · rw [hv _ hb]; simp
      · rw [hv _ ha]; simp
    · have hd' : ¬ (fxor a c).val &&& a.val = 0 := by rw [Nat.and_comm]; exact hd
      rw [wsign, wsign, if_neg hd, if_neg hd']; simp
  · intro a _ hne heq
    -- a fixed point `a = a ^ c` forces `c = 0`, and then the blades are not disjoint unless `a = 0`
    have hc : c = fzero := by
      have := congrArg (fxor a) heq
      rw [fxor_cancel, fxor_self] at this; exact this
    apply hne
    subst hc
    simp only [fxor_zero]
    by_cases ha : pc n a.val = 1
    · have : ¬ a.val &&& a.val = 0 := by
        rw [Nat.and_self]
        intro h0
        rw [h0] at ha
        have hz : pc n 0 = 0 := by unfold pc; apply Finset.sum_eq_zero; intro i _; simp [bit]
        omega
      rw [wsign, if_neg this]; simp
    · rw [hv _ ha]; simp
  · intro a _; exact Finset.mem_univ _
  · intro a _; exact fxor_fxor_right a c
