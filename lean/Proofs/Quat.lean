import Proofs.Shipped
import Mathlib.Analysis.Real.Sqrt
import Mathlib.Tactic.FieldSimp
import Mathlib.Tactic.Ring
import Mathlib.Tactic.Linarith
import Mathlib.Tactic.FinCases

/-! # g3 conversions: quaternion ↔ rotor ↔ rotation matrix (C12)

The code's quaternion is `(w, x, y, z)`; `e 0, e 1, e 2` are the Euclidean basis vectors of g3c (squares `+1`), `I3 = e123`.

* `mat` is `quaternion_to_matrix`; `mat_rows`: `M Mᵀ = I + 4(|q|²−1)(|u|² I − u uᵀ)` (orthogonal for a unit quaternion);
* `m2q` is `rotation_matrix_to_quaternion` over ℝ with `math.sqrt` as `Real.sqrt`, branch selection included;
  `m2q_mat`: for EVERY unit quaternion `m2q (mat q) = ±q` (in the branch taken the radicand is `4c²` with `c ≠ 0`);
* `toRotor` is `quaternion_to_rotor`; `rotor_acts_as_matrix`: `R v ~R = M(q) v + (|q|²−1) v`, `rotor_norm`: `R ~R = |q|²`,
  `rotor_to_quaternion_inverts`: `e123 R = w e123 + (x e1 + y e2 + z e3)` — from the generator relations (`Ship.Gens`). -/

namespace Quat

/-- `quaternion_to_matrix` over any field -/
def mat {K : Type} [Field K] (w x y z : K) : Fin 3 → Fin 3 → K := fun i j =>
  match i, j with
  | 0, 0 => 1 - 2*y^2 - 2*z^2 | 0, 1 => 2*x*y - 2*z*w | 0, 2 => 2*x*z + 2*y*w
  | 1, 0 => 2*x*y + 2*z*w | 1, 1 => 1 - 2*x^2 - 2*z^2 | 1, 2 => 2*y*z - 2*x*w
  | 2, 0 => 2*x*z - 2*y*w | 2, 1 => 2*y*z + 2*x*w | 2, 2 => 1 - 2*x^2 - 2*y^2

/-- `M Mᵀ = I + 4(|q|² − 1)(|u|² I − u uᵀ)`: orthogonal for a unit quaternion -/
theorem mat_rows {K : Type} [Field K] (w x y z : K) (i j : Fin 3) :
    mat w x y z i 0 * mat w x y z j 0 + mat w x y z i 1 * mat w x y z j 1 + mat w x y z i 2 * mat w x y z j 2
      = (if i = j then 1 else 0) + 4 * (w^2 + x^2 + y^2 + z^2 - 1) *
          ((if i = j then x^2 + y^2 + z^2 else 0) - ![x, y, z] i * ![x, y, z] j) := by
  fin_cases i <;> fin_cases j <;> simp [mat] <;> ring

/-! `rotation_matrix_to_quaternion`, with `math.sqrt` as the real square root: the four branches and the selection -/
noncomputable def br1 (a : Fin 3 → Fin 3 → ℝ) : ℝ × ℝ × ℝ × ℝ :=
  let s := (1/2) / Real.sqrt (a 0 0 + a 1 1 + a 2 2 + 1)
  ((1/4) / s, (a 2 1 - a 1 2) * s, (a 0 2 - a 2 0) * s, (a 1 0 - a 0 1) * s)
noncomputable def br2 (a : Fin 3 → Fin 3 → ℝ) : ℝ × ℝ × ℝ × ℝ :=
  let s := 2 * Real.sqrt (1 + a 0 0 - a 1 1 - a 2 2)
  ((a 2 1 - a 1 2) / s, (1/4) * s, (a 0 1 + a 1 0) / s, (a 0 2 + a 2 0) / s)
noncomputable def br3 (a : Fin 3 → Fin 3 → ℝ) : ℝ × ℝ × ℝ × ℝ :=
  let s := 2 * Real.sqrt (1 + a 1 1 - a 0 0 - a 2 2)
  ((a 0 2 - a 2 0) / s, (a 0 1 + a 1 0) / s, (1/4) * s, (a 1 2 + a 2 1) / s)
noncomputable def br4 (a : Fin 3 → Fin 3 → ℝ) : ℝ × ℝ × ℝ × ℝ :=
  let s := 2 * Real.sqrt (1 + a 2 2 - a 0 0 - a 1 1)
  ((a 1 0 - a 0 1) / s, (a 0 2 + a 2 0) / s, (a 1 2 + a 2 1) / s, (1/4) * s)
noncomputable def m2q (a : Fin 3 → Fin 3 → ℝ) : ℝ × ℝ × ℝ × ℝ :=
  if a 0 0 + a 1 1 + a 2 2 > 0 then br1 a
  else if a 0 0 > a 1 1 ∧ a 0 0 > a 2 2 then br2 a
  else if a 1 1 > a 2 2 then br3 a
  else br4 a

theorem sqrt_four_sq (c : ℝ) : Real.sqrt (4 * c ^ 2) = 2 * |c| := by
  have : (4 : ℝ) * c ^ 2 = (2 * c) ^ 2 := by ring
  rw [this, Real.sqrt_sq_eq_abs, abs_mul]; norm_num

def PM (p : ℝ × ℝ × ℝ × ℝ) (w x y z : ℝ) : Prop := p = (w, x, y, z) ∨ p = (-w, -x, -y, -z)

theorem br1_mat (w x y z : ℝ) (hq : w^2 + x^2 + y^2 + z^2 = 1) (hw : w ≠ 0) : PM (br1 (mat w x y z)) w x y z := by
  have hr : (mat w x y z 0 0 + mat w x y z 1 1 + mat w x y z 2 2 + 1 : ℝ) = 4 * w^2 := by simp only [mat]; nlinarith
  unfold br1 PM
  rw [hr, sqrt_four_sq]
  simp only [mat]
  rcases lt_or_gt_of_ne hw with hneg | hpos
  · right; rw [abs_of_neg hneg]
    refine Prod.ext ?_ (Prod.ext ?_ (Prod.ext ?_ ?_)) <;> simp <;> field_simp <;> ring
  · left; rw [abs_of_pos hpos]
    refine Prod.ext ?_ (Prod.ext ?_ (Prod.ext ?_ ?_)) <;> simp <;> field_simp <;> ring

theorem br2_mat (w x y z : ℝ) (hx : x ≠ 0) : PM (br2 (mat w x y z)) w x y z := by
  have hr : (1 + mat w x y z 0 0 - mat w x y z 1 1 - mat w x y z 2 2 : ℝ) = 4 * x^2 := by simp only [mat]; ring
  unfold br2 PM
  rw [hr, sqrt_four_sq]
  simp only [mat]
  rcases lt_or_gt_of_ne hx with hneg | hpos
  · right; rw [abs_of_neg hneg]
    refine Prod.ext ?_ (Prod.ext ?_ (Prod.ext ?_ ?_)) <;> simp <;> field_simp <;> ring
  · left; rw [abs_of_pos hpos]
    refine Prod.ext ?_ (Prod.ext ?_ (Prod.ext ?_ ?_)) <;> simp <;> field_simp <;> ring

theorem br3_mat (w x y z : ℝ) (hy : y ≠ 0) : PM (br3 (mat w x y z)) w x y z := by
  have hr : (1 + mat w x y z 1 1 - mat w x y z 0 0 - mat w x y z 2 2 : ℝ) = 4 * y^2 := by simp only [mat]; ring
  unfold br3 PM
  rw [hr, sqrt_four_sq]
  simp only [mat]
  rcases lt_or_gt_of_ne hy with hneg | hpos
  · right; rw [abs_of_neg hneg]
    refine Prod.ext ?_ (Prod.ext ?_ (Prod.ext ?_ ?_)) <;> simp <;> field_simp <;> ring
  · left; rw [abs_of_pos hpos]
    refine Prod.ext ?_ (Prod.ext ?_ (Prod.ext ?_ ?_)) <;> simp <;> field_simp <;> ring

theorem br4_mat (w x y z : ℝ) (hz : z ≠ 0) : PM (br4 (mat w x y z)) w x y z := by
  have hr : (1 + mat w x y z 2 2 - mat w x y z 0 0 - mat w x y z 1 1 : ℝ) = 4 * z^2 := by simp only [mat]; ring
  unfold br4 PM
  rw [hr, sqrt_four_sq]
  simp only [mat]
  rcases lt_or_gt_of_ne hz with hneg | hpos
  · right; rw [abs_of_neg hneg]
    refine Prod.ext ?_ (Prod.ext ?_ (Prod.ext ?_ ?_)) <;> simp <;> field_simp <;> ring
  · left; rw [abs_of_pos hpos]
    refine Prod.ext ?_ (Prod.ext ?_ (Prod.ext ?_ ?_)) <;> simp <;> field_simp <;> ring

/-- **round trip**: for every unit quaternion, `rotation_matrix_to_quaternion(quaternion_to_matrix(q)) = ±q`
    (the branch taken always has a non-zero radicand) -/
theorem m2q_mat (w x y z : ℝ) (hq : w^2 + x^2 + y^2 + z^2 = 1) : PM (m2q (mat w x y z)) w x y z := by
  unfold m2q
  by_cases h1 : mat w x y z 0 0 + mat w x y z 1 1 + mat w x y z 2 2 > 0
  · rw [if_pos h1]
    apply br1_mat w x y z hq
    intro hw; simp only [mat] at h1; rw [hw] at hq; nlinarith
  · rw [if_neg h1]
    by_cases h2 : mat w x y z 0 0 > mat w x y z 1 1 ∧ mat w x y z 0 0 > mat w x y z 2 2
    · rw [if_pos h2]
      apply br2_mat
      intro hx; simp only [mat] at h2; rw [hx] at h2; nlinarith [h2.1, sq_nonneg y]
    · rw [if_neg h2]
      by_cases h3 : mat w x y z 1 1 > mat w x y z 2 2
      · rw [if_pos h3]
        apply br3_mat
        intro hy; simp only [mat] at h3; rw [hy] at h3; nlinarith [sq_nonneg z]
      · rw [if_neg h3]
        apply br4_mat
        intro hz
        simp only [mat] at h1 h2 h3
        rw [hz] at h1 h2 h3 hq
        have hy : y = 0 := by nlinarith [sq_nonneg y]
        rw [hy] at h1 h2 hq
        have hx : x = 0 := by
          by_contra hx
          have : x ^ 2 > 0 := by positivity
          apply h2; constructor <;> nlinarith
        rw [hx] at h1 hq
        nlinarith

end Quat

namespace Quat
open Ship
variable {A : Type} [Ring A] [Algebra ℚ A]

def I3 (e : Fin 5 → A) : A := e 0 * e 1 * e 2
def vec3 (e : Fin 5 → A) (x y z : ℚ) : A := x • e 0 + y • e 1 + z • e 2

/-- `quaternion_to_rotor`: `Q.value[1:4] = q[1:4]; Q = -e123*Q; Q.value[0] = q[0]` (the product has no scalar part, so setting the
    scalar slot adds `w`) -/
def toRotor (e : Fin 5 → A) (w x y z : ℚ) : A := w • (1 : A) + -(I3 e * vec3 e x y z)
/-- its reverse (the bivector part changes sign) -/
def toRotorRev (e : Fin 5 → A) (w x y z : ℚ) : A := w • (1 : A) + (I3 e * vec3 e x y z)

variable {e : Fin 5 → A} {sig : Fin 5 → ℚ}

/-- `R v ~R = M(q) v + (|q|² − 1) v`: for a unit quaternion the rotor acts on vectors as the matrix does -/
theorem rotor_acts_as_matrix (G : Gens e sig) (h0 : sig 0 = 1) (h1 : sig 1 = 1) (h2 : sig 2 = 1) (w x y z a b c : ℚ) :
    toRotor e w x y z * vec3 e a b c * toRotorRev e w x y z
      = vec3 e (mat w x y z 0 0 * a + mat w x y z 0 1 * b + mat w x y z 0 2 * c)
               (mat w x y z 1 0 * a + mat w x y z 1 1 * b + mat w x y z 1 2 * c)
               (mat w x y z 2 0 * a + mat w x y z 2 1 * b + mat w x y z 2 2 * c)
        + (w^2 + x^2 + y^2 + z^2 - 1) • vec3 e a b c := by
  simp only [toRotor, toRotorRev, vec3, I3, mat]
  gens_nf G
  simp only [h0, h1, h2]
  module

/-- the rotor is a unit rotor exactly when the quaternion is: `R ~R = |q|²` -/
theorem rotor_norm (G : Gens e sig) (h0 : sig 0 = 1) (h1 : sig 1 = 1) (h2 : sig 2 = 1) (w x y z : ℚ) :
    toRotor e w x y z * toRotorRev e w x y z = (w^2 + x^2 + y^2 + z^2) • (1 : A) := by
  simp only [toRotor, toRotorRev, vec3, I3]
  gens_nf G
  simp only [h0, h1, h2]
  module

/-- `rotor_to_quaternion`: `(e123 * R).value[1:4]` are the vector coefficients of `I R = w I + (x e1 + y e2 + z e3)` -/
theorem rotor_to_quaternion_inverts (G : Gens e sig) (h0 : sig 0 = 1) (h1 : sig 1 = 1) (h2 : sig 2 = 1) (w x y z : ℚ) :
    I3 e * toRotor e w x y z = w • I3 e + vec3 e x y z := by
  simp only [toRotor, vec3, I3]
  gens_nf G
  simp only [h0, h1, h2]
  module

end Quat
