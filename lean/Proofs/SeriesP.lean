import Mathlib.Algebra.Algebra.Rat
import Mathlib.Algebra.Algebra.Basic
import Mathlib.Algebra.BigOperators.Ring.Finset
import Mathlib.Data.Nat.Factorial.Basic
import Mathlib.Tactic.Ring
import Mathlib.Algebra.Module.BigOperators
import Mathlib.Tactic.Module
open Finset

/-! C16: the truncated series on a blade with scalar square, in any ℚ-algebra (every dimension and signature at once) -/
namespace SeriesP

variable {A : Type} [Ring A] [Algebra ℚ A]

/-- `B*B = s` ⇒ even powers are scalars … -/
theorem pow_even (B : A) (s : ℚ) (h : B * B = s • (1 : A)) (j : Nat) : B ^ (2 * j) = (s ^ j) • (1 : A) := by
  induction j with
  | zero => simp
  | succ j ih =>
    rw [show 2 * (j + 1) = 2 * j + 2 from by ring, pow_add, ih, pow_two, h, smul_mul_smul_comm, mul_one, pow_succ]

/-- … and odd powers are scalar multiples of `B` -/
theorem pow_odd (B : A) (s : ℚ) (h : B * B = s • (1 : A)) (j : Nat) : B ^ (2 * j + 1) = (s ^ j) • B := by
  rw [pow_succ, pow_even B s h j, smul_mul_assoc, one_mul]

theorem pow_general (B : A) (s : ℚ) (h : B * B = s • (1 : A)) (k : Nat) :
    B ^ k = (s ^ (k / 2)) • (if k % 2 = 0 then (1 : A) else B) := by
  rcases Nat.mod_two_eq_zero_or_one k with h0 | h1
  · have : k = 2 * (k / 2) := by omega
    rw [if_pos h0]; conv_lhs => rw [this]
    exact pow_even B s h _
  · have : k = 2 * (k / 2) + 1 := by omega
    rw [if_neg (by omega)]; conv_lhs => rw [this]
    exact pow_odd B s h _

/-- the `N`-term exponential series `Σ_{k<N} X^k / k!` (what the loop of `exp` accumulates before the squarings) -/
def expTrunc (N : Nat) (X : A) : A := ∑ k ∈ range N, ((1 : ℚ) / (k.factorial : ℚ)) • X ^ k

/-- on a blade with `B*B = s`: `exp_N(B) = C_N(s) + S_N(s) B` with the truncated even/odd polynomials in `s`
(`s = -t²`: cos/sin polynomials; `s = +t²`: cosh/sinh; `s = 0`: `1 + B`) -/
theorem expTrunc_blade (B : A) (s : ℚ) (h : B * B = s • (1 : A)) (N : Nat) :
    expTrunc N B =
      (∑ k ∈ range N, if k % 2 = 0 then (1 : ℚ) / (k.factorial : ℚ) * s ^ (k / 2) else 0) • (1 : A)
      + (∑ k ∈ range N, if k % 2 = 0 then 0 else (1 : ℚ) / (k.factorial : ℚ) * s ^ (k / 2)) • B := by
  unfold expTrunc
  rw [Finset.sum_smul, Finset.sum_smul, ← Finset.sum_add_distrib]
  refine Finset.sum_congr rfl (fun k _ => ?_)
  rw [pow_general B s h k, smul_smul]
  by_cases hk : k % 2 = 0
  · simp [hk]
  · simp [hk]

/-- null blade: `exp_N(B) = 1 + B` for `N ≥ 2` -/
theorem expTrunc_null (B : A) (h : B * B = 0) (N : Nat) (hN : 2 ≤ N) : expTrunc N B = 1 + B := by
  have hs : B * B = (0 : ℚ) • (1 : A) := by rw [h, zero_smul]
  unfold expTrunc
  obtain ⟨m, rfl⟩ : ∃ m, N = m + 2 := ⟨N - 2, by omega⟩
  rw [Finset.sum_range_succ', Finset.sum_range_succ']
  have hz : ∑ k ∈ range m, ((1 : ℚ) / ((k + 1 + 1).factorial : ℚ)) • B ^ (k + 1 + 1) = 0 := by
    apply Finset.sum_eq_zero
    intro k _
    have : B ^ (k + 1 + 1) = 0 := by
      rw [show k + 1 + 1 = k + 2 from rfl, pow_add, pow_two, h, mul_zero]
    rw [this, smul_zero]
  rw [hz]; simp [add_comm]

/-- scalar input stays scalar: `exp_N(c·1) = (Σ c^k/k!)·1` -/
theorem expTrunc_scalar (c : ℚ) (N : Nat) :
    expTrunc N (c • (1 : A)) = (∑ k ∈ range N, (1 : ℚ) / (k.factorial : ℚ) * c ^ k) • (1 : A) := by
  unfold expTrunc
  rw [Finset.sum_smul]
  refine Finset.sum_congr rfl (fun k _ => ?_)
  rw [smul_pow, one_pow, smul_smul]

/-- undoing the scaling: squaring `j` times raises to the power `2^j` -/
theorem sq_iter (E : A) (j : Nat) : (fun r => r * r)^[j] E = E ^ (2 ^ j) := by
  induction j generalizing E with
  | zero => simp
  | succ j ih =>
    rw [Function.iterate_succ_apply, ih, ← pow_two, ← pow_mul, pow_succ, mul_comm]

/-- if `X` and `Y` commute, so do all their powers and the truncated exponentials
(the algebraic half of `exp(A+B) = exp A exp B`; the analytic half is checked numerically) -/
theorem expTrunc_comm (X Y : A) (h : Commute X Y) (N M : Nat) : Commute (expTrunc N X) (expTrunc M Y) := by
  unfold expTrunc
  apply Commute.sum_left; intro k _
  apply Commute.sum_right; intro l _
  exact ((h.pow_pow k l).smul_left _).smul_right _

end SeriesP
