import Proofs.Conf

/-! C12/C13/C14/C15: rotors of the conformal model from the relations alone (any ℚ-algebra, any base dimension/signature) -/
namespace Conf

variable {A : Type} [Ring A] [Algebra ℚ A]

/-- two base vectors and the added pair: `x`, `a` each satisfy `Rel`, and `x a + a x = 2b` -/
structure Rel2 (x a ep en : A) (qx qa b : ℚ) : Prop where
  rx : Rel x ep en qx
  ra : Rel a ep en qa
  hax : a * x = (2 * b) • (1 : A) - x * a

theorem Rel2.hax' {x a ep en : A} {qx qa b : ℚ} (r : Rel2 x a ep en qx qa b) (z : A) :
    a * (x * z) = (2 * b) • z - x * (a * z) := by
  rw [← mul_assoc, r.hax, sub_mul, smul_mul_assoc, one_mul, mul_assoc]

/-- normal form with two base vectors: order `en < ep < x < a` -/
macro "cga_nf2" r:term : tactic => `(tactic| (
  simp only [mul_add, add_mul, mul_sub, sub_mul, smul_mul_assoc, mul_smul_comm, smul_smul, mul_assoc, mul_one, one_mul,
    neg_mul, mul_neg, neg_neg, smul_neg, neg_smul, smul_add, smul_sub,
    ($r).rx.hx, ($r).rx.hep, ($r).rx.hen, ($r).rx.h1, ($r).rx.h2, ($r).rx.h3,
    ($r).rx.hx', ($r).rx.hep', ($r).rx.hen', ($r).rx.h1', ($r).rx.h2', ($r).rx.h3',
    ($r).ra.hx, ($r).ra.h1, ($r).ra.h2, ($r).ra.hx', ($r).ra.h1', ($r).ra.h2', ($r).hax, ($r).hax']))

/-- `generate_translation_rotor(a) = 1 + einf * a / 2` and its reverse `1 + a * einf / 2` -/
def transl (a ep en : A) : A := 1 + (1/2 : ℚ) • (einf ep en * a)
def translRev (a ep en : A) : A := 1 + (1/2 : ℚ) • (a * einf ep en)

variable {x a ep en : A} {qx qa b : ℚ}

/-- the translation rotor is a unit rotor: `T ~T = 1` -/
theorem transl_unit (r : Rel2 x a ep en qx qa b) : transl a ep en * translRev a ep en = 1 := by
  unfold transl translRev einf; cga_nf2 r; module

/-- it moves the point of `x` to the point of `x + a`: `T up(x) ~T = up(x + a)`, where `(x+a)² = qx + qa + 2b` -/
theorem transl_moves_point (r : Rel2 x a ep en qx qa b) :
    transl a ep en * up x ep en qx * translRev a ep en = up (x + a) ep en (qx + qa + 2 * b) := by
  unfold transl translRev up eo einf; cga_nf2 r; module

/-- it fixes `einf` -/
theorem transl_fixes_einf (r : Rel2 x a ep en qx qa b) :
    transl a ep en * einf ep en * translRev a ep en = einf ep en := by
  unfold transl translRev einf; cga_nf2 r; module

/-- the origin goes to the point of `a`: `T eo ~T = up(a)` -/
theorem transl_origin (r : Rel2 x a ep en qx qa b) :
    transl a ep en * eo ep en * translRev a ep en = up a ep en qa := by
  unfold transl translRev up eo einf; cga_nf2 r; module

/-- `fast_up(x) = x - no + 0.5*(x*x)*ninf` with `no = -eo`, `ninf = einf` is `up(x)` -/
theorem fast_up_eq_up (r : Rel x ep en qx) :
    x - (-(eo ep en)) + (1/2 : ℚ) • ((x * x) * einf ep en) = up x ep en qx := by
  unfold up; rw [r.hx]; simp only [smul_mul_assoc, one_mul, smul_smul]; module

/-- `euc_dist`: `-2 (X · Y) = (x - y)²` -/
theorem dist_sq {y : A} {qy b' : ℚ} (r : Rel x ep en qx) (ry : Rel y ep en qy) (hxy : x * y + y * x = (2 * b') • (1 : A)) :
    (-2 : ℚ) • ((1/2 : ℚ) • (up x ep en qx * up y ep en qy + up y ep en qy * up x ep en qx)) = (x - y) * (x - y) := by
  rw [up_dot_up r ry hxy, sub_sq_base r ry hxy, smul_smul]; congr 1; ring

end Conf

/-! rotor between two objects of the same kind: the intertwining identity (any ring) -/
namespace Intertwine
variable {A : Type} [Ring A] [Algebra ℚ A]

/-- for `X1² = X2² = γ` with `γ² = 1`: `C = 1 + γ X2 X1` satisfies `C X1 = X2 C` — so `R = k C` carries `X1` to `X2` whenever `k` normalises it -/
theorem rotor_between_intertwines (X1 X2 : A) (γ : ℚ) (hγ : γ * γ = 1) (h1 : X1 * X1 = γ • (1 : A)) (h2 : X2 * X2 = γ • (1 : A)) :
    (1 + γ • (X2 * X1)) * X1 = X2 * (1 + γ • (X2 * X1)) := by
  rw [add_mul, mul_add, one_mul, mul_one, smul_mul_assoc, mul_smul_comm, mul_assoc, h1, ← mul_assoc, h2]
  simp only [mul_smul_comm, smul_mul_assoc, mul_one, one_mul, smul_smul, hγ, one_smul]
  abel

/-- `apply_rotor(M, R) = R*M*~R` composes: applying `R2` after `R1` is applying `R2 R1` (with reverse `~R1 ~R2`) -/
theorem apply_rotor_compose (R1 R2 R1r R2r M : A) : R2 * (R1 * M * R1r) * R2r = (R2 * R1) * M * (R1r * R2r) := by
  simp only [mul_assoc]

end Intertwine
