import Proofs.Spec
open Finset

/-! C04 groundwork: symmetry of the swap count, triangular-number parity, reversion sign relation -/

theorem pc_mul_pc (n a b : Nat) : pc n a * pc n b = ∑ i ∈ range n, ∑ j ∈ range n, bit a i * bit b j := by
  unfold pc; rw [Finset.sum_mul_sum]

theorem swaps_add_swaps_comm (n a b : Nat) :
    swaps n a b + swaps n b a + pc n (a &&& b) = pc n a * pc n b := by
  rw [pc_mul_pc]
  unfold swaps pc
  -- rewrite `swaps n b a` with the roles of the indices exchanged
  have h2 : ∑ j ∈ range n, ∑ i ∈ range j, bit b j * bit a i
      = ∑ i ∈ range n, ∑ j ∈ Ico (i+1) n, bit a i * bit b j := by
    rw [Finset.sum_comm' (t' := range n) (s' := fun i => Ico (i+1) n)]
    · apply Finset.sum_congr rfl; intro i _; apply Finset.sum_congr rfl; intro j _; ring
    · intro j i; simp only [mem_range, mem_Ico]; omega
  rw [h2, ← Finset.sum_add_distrib, ← Finset.sum_add_distrib]
  apply Finset.sum_congr rfl; intro i hi
  have hi' : i < n := mem_range.mp hi
  rw [bit_and]
  -- split range n = range i ∪ {i} ∪ Ico (i+1) n
  have hsplit : ∑ j ∈ range n, bit a i * bit b j
      = ∑ j ∈ range i, bit a i * bit b j + bit a i * bit b i + ∑ j ∈ Ico (i+1) n, bit a i * bit b j := by
    rw [Finset.range_eq_Ico, ← Finset.sum_Ico_consecutive _ (Nat.zero_le i) (le_of_lt hi'),
        ← Finset.sum_Ico_consecutive _ (Nat.le_succ i) (Nat.succ_le_of_lt hi')]
    simp [Finset.sum_Ico_succ_top, add_assoc]
  rw [hsplit]; ring

/-- triangular numbers, the exponent in `adjoint_func`: k(k-1)/2 -/
def tri : Nat → Nat
  | 0 => 0
  | k+1 => tri k + k

theorem tri_eq (k : Nat) : tri k = k * (k - 1) / 2 := by
  induction k with
  | zero => rfl
  | succ k ih =>
    rw [tri, ih]; simp only [Nat.add_sub_cancel]
    rcases Nat.even_or_odd' k with ⟨m, h | h⟩
    · subst h
      rcases m with _ | m
      · simp
      · have e1 : 2 * (m+1) * (2 * (m+1) - 1) = 2 * ((m+1) * (2*m+1)) := by
          have : 2 * (m+1) - 1 = 2*m+1 := by omega
          rw [this]; ring
        have e2 : (2 * (m+1) + 1) * (2 * (m+1)) = 2 * ((2*m+3) * (m+1)) := by ring
        rw [e1, e2, Nat.mul_div_cancel_left _ (by decide : 0 < 2), Nat.mul_div_cancel_left _ (by decide : 0 < 2)]; ring
    · subst h
      have e1 : (2*m+1) * (2*m+1-1) = 2 * ((2*m+1) * m) := by
        have : 2*m+1-1 = 2*m := by omega
        rw [this]; ring
      have e2 : (2*m+1+1) * (2*m+1) = 2 * ((m+1) * (2*m+1)) := by ring
      rw [e1, e2, Nat.mul_div_cancel_left _ (by decide : 0 < 2), Nat.mul_div_cancel_left _ (by decide : 0 < 2)]; ring

theorem tri_add (p q : Nat) : tri (p + q) = tri p + tri q + p * q := by
  induction q with
  | zero => simp [tri]
  | succ q ih => rw [← Nat.add_assoc, tri, ih, tri]; ring

theorem tri_add_two_mod (m : Nat) : tri (m + 2) % 2 = (tri m + 1) % 2 := by
  rw [tri_add]; simp [tri]

theorem tri_sub_two_mul_mod (m c : Nat) (h : 2 * c ≤ m) : tri (m - 2*c) % 2 = (tri m + c) % 2 := by
  induction c with
  | zero => simp
  | succ c ih =>
    have h' : 2 * c ≤ m := by omega
    have := ih h'
    have e : m - 2*c = (m - 2*(c+1)) + 2 := by omega
    rw [e, tri_add_two_mod] at this
    omega

/-- 4-periodicity of the reversion sign -/
theorem tri_add_four_mod (k : Nat) : tri (k + 4) % 2 = tri k % 2 := by
  have := tri_add_two_mod k; have h2 := tri_add_two_mod (k+2)
  have e : k + 4 = k + 2 + 2 := by omega
  rw [e]; omega
