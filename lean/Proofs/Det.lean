import Proofs.Outer
import Proofs.WedgeList
import Proofs.Compl
import Mathlib.LinearAlgebra.Determinant

/-! C11: `f(I) = det(m) I` — the ordered outer product of the images of the basis vectors is the determinant times the
    pseudoscalar (any dimension, any commutative ring). -/
open Finset

variable {R : Type} [CommRing R] (d : Nat)

namespace DetW

theorem foldl_wedge_add (X Y : CMV d R) (vs : List (CMV d R)) :
    vs.foldl (wedge d) (X + Y) = vs.foldl (wedge d) X + vs.foldl (wedge d) Y := by
  induction vs generalizing X Y with
  | nil => rfl
  | cons v vs ih => simp only [List.foldl_cons]; rw [wedge_add_left, ih]

theorem foldl_wedge_smul (c : R) (X : CMV d R) (vs : List (CMV d R)) :
    vs.foldl (wedge d) (c • X) = c • vs.foldl (wedge d) X := by
  induction vs generalizing X with
  | nil => rfl
  | cons v vs ih => simp only [List.foldl_cons]; rw [wedge_smul_left, ih]

theorem foldl_wedge_zero (vs : List (CMV d R)) : vs.foldl (wedge d) (0 : CMV d R) = 0 := by
  induction vs with
  | nil => rfl
  | cons v vs ih => simp only [List.foldl_cons]; rw [wedge_zero_left, ih]

theorem foldl_set_add (X : CMV d R) (l : List (CMV d R)) (i : Nat) (hi : i < l.length) (x y : CMV d R) :
    (l.set i (x + y)).foldl (wedge d) X = (l.set i x).foldl (wedge d) X + (l.set i y).foldl (wedge d) X := by
  induction l generalizing X i with
  | nil => simp at hi
  | cons v vs ih =>
    cases i with
    | zero => simp only [List.set_cons_zero, List.foldl_cons]; rw [wedge_add_right, foldl_wedge_add]
    | succ i => simp only [List.set_cons_succ, List.foldl_cons]; exact ih _ i (by simpa using hi)

theorem foldl_set_smul (X : CMV d R) (l : List (CMV d R)) (i : Nat) (hi : i < l.length) (c : R) (x : CMV d R) :
    (l.set i (c • x)).foldl (wedge d) X = c • (l.set i x).foldl (wedge d) X := by
  induction l generalizing X i with
  | nil => simp at hi
  | cons v vs ih =>
    cases i with
    | zero => simp only [List.set_cons_zero, List.foldl_cons]; rw [wedge_smul_right, foldl_wedge_smul]
    | succ i => simp only [List.set_cons_succ, List.foldl_cons]; exact ih _ i (by simpa using hi)

/-- two equal vectors in the list: the product vanishes -/
theorem foldl_dup_zero (X : CMV d R) (l : List (CMV d R)) (hv : ∀ v ∈ l, IsHom d 1 v) (i j : Nat) (hij : i < j) (hj : j < l.length)
    (h : l[i]'(by omega) = l[j]) : l.foldl (wedge d) X = 0 := by
  have hsplit : l = l.take j ++ l[j] :: l.drop (j + 1) := by
    rw [List.getElem_cons_drop]; exact (List.take_append_drop j l).symm
  rw [hsplit, List.foldl_append, List.foldl_cons]
  have hmem : l[j] ∈ l.take j := by
    rw [← h]
    have : l[i]'(by omega) = (l.take j)[i]'(by simp; omega) := by simp
    rw [this]; exact List.getElem_mem _
  rw [foldl_wedge_mem d X (l.take j) (fun v hv' => hv v (List.mem_of_mem_take hv')) l[j] hmem, foldl_wedge_zero]

end DetW

namespace DetW
variable {d}

def gen (j : Fin d) : Bm d := ⟨2 ^ j.val, Nat.pow_lt_pow_right (by decide) j.isLt⟩

/-- the vector with coordinates `u` -/
def vec (u : Fin d → R) : CMV d R := ∑ j : Fin d, u j • blade d (gen j)

theorem vec_add (u w : Fin d → R) : vec (u + w) = vec u + vec w := by
  unfold vec; rw [← Finset.sum_add_distrib]; refine Finset.sum_congr rfl (fun j _ => ?_); rw [Pi.add_apply, add_smul]

theorem vec_smul (c : R) (u : Fin d → R) : vec (c • u) = c • vec u := by
  unfold vec; rw [Finset.smul_sum]; refine Finset.sum_congr rfl (fun j _ => ?_); rw [Pi.smul_apply, smul_smul]; rfl

theorem vec_hom (u : Fin d → R) : IsHom d 1 (vec u) := by
  intro c hc
  unfold vec
  rw [Finset.sum_apply]
  refine Finset.sum_eq_zero (fun j _ => ?_)
  simp only [Pi.smul_apply, blade, smul_eq_mul_R]
  rw [if_neg, mul_zero]
  intro h; apply hc; rw [h]; exact pc_two_pow d j.val j.isLt

/-- the full-blade coefficient of the ordered outer product of the vectors with coordinate rows `v` -/
def Wfun (v : Fin d → (Fin d → R)) : R := ((List.ofFn fun i => vec (v i)).foldl (wedge d) (one d)) (full d)

theorem ofFn_update {α β : Type} (g : α → β) (m : Fin d → α) (i : Fin d) (z : α) :
    (List.ofFn fun k => g (Function.update m i z k)) = (List.ofFn fun k => g (m k)).set i.val (g z) := by
  apply List.ext_getElem
  · simp
  · intro k h1 h2
    simp only [List.getElem_ofFn, List.getElem_set]
    by_cases hk : i.val = k
    · have : (⟨k, by simpa using h1⟩ : Fin d) = i := Fin.ext hk.symm
      simp [hk, this]
    · have : (⟨k, by simpa using h1⟩ : Fin d) ≠ i := fun h => hk (by rw [← h])
      simp [hk, Function.update_of_ne this]

/-- `Wfun` as an alternating multilinear map -/
noncomputable def W : (Fin d → R) [⋀^Fin d]→ₗ[R] R where
  toFun := Wfun
  map_update_add' := by
    intro _ m i x y
    unfold Wfun
    have e (z : Fin d → R) : (List.ofFn fun k => vec (Function.update m i z k)) = (List.ofFn fun k => vec (m k)).set i.val (vec z) := by
      convert ofFn_update (d := d) vec m i z
    rw [e, e, e, vec_add, foldl_set_add d _ _ i.val (by simp)]; rfl
  map_update_smul' := by
    intro _ m i c x
    unfold Wfun
    have e (z : Fin d → R) : (List.ofFn fun k => vec (Function.update m i z k)) = (List.ofFn fun k => vec (m k)).set i.val (vec z) := by
      convert ofFn_update (d := d) vec m i z
    rw [e, e, vec_smul, foldl_set_smul d _ _ i.val (by simp)]; rfl
  map_eq_zero_of_eq' := by
    intro v i j hij hne
    show Wfun v = 0
    unfold Wfun
    have hv : ∀ w ∈ (List.ofFn fun k => vec (v k)), IsHom d 1 w := by
      intro w hw; obtain ⟨k, rfl⟩ := (List.mem_ofFn' _ _).mp hw; exact vec_hom _
    rcases Nat.lt_or_gt_of_ne (fun h => hne (Fin.ext h)) with h | h
    · rw [foldl_dup_zero d _ _ hv i.val j.val h (by simp) (by simp [hij])]; rfl
    · rw [foldl_dup_zero d _ _ hv j.val i.val h (by simp) (by simp [hij])]; rfl

end DetW

namespace DetW
variable {d}

def low (t : Nat) (ht : t ≤ d) : Bm d := ⟨2 ^ t - 1, by
  have : 2 ^ t ≤ 2 ^ d := Nat.pow_le_pow_right (by decide) ht
  have : 0 < 2 ^ t := Nat.two_pow_pos t
  omega⟩

theorem low_and_gen (t : Nat) (ht : t < d) : (2 ^ t - 1) &&& 2 ^ t = 0 := by
  apply Nat.eq_of_testBit_eq; intro k
  rw [Nat.testBit_and, Nat.testBit_two_pow_sub_one, Nat.testBit_two_pow, Nat.zero_testBit]
  by_cases h1 : k < t <;> by_cases h2 : t = k <;> simp [h1, h2] <;> omega

theorem low_xor_gen (t : Nat) : (2 ^ t - 1) ^^^ 2 ^ t = 2 ^ (t + 1) - 1 := by
  apply Nat.eq_of_testBit_eq; intro k
  rw [Nat.testBit_xor, Nat.testBit_two_pow_sub_one, Nat.testBit_two_pow, Nat.testBit_two_pow_sub_one]
  by_cases h1 : k < t <;> by_cases h2 : t = k <;> simp [h1, h2] <;> omega

theorem swaps_low_gen (t : Nat) : swaps d (2 ^ t - 1) (2 ^ t) = 0 := by
  unfold swaps
  refine Finset.sum_eq_zero (fun i _ => Finset.sum_eq_zero (fun j hj => ?_))
  have hji : j < i := Finset.mem_range.mp hj
  unfold bit
  rw [Nat.testBit_two_pow_sub_one, Nat.testBit_two_pow]
  by_cases h1 : i < t <;> by_cases h2 : t = j <;> simp [h1, h2] <;> omega

/-- the ordered outer product of the first `t` basis vectors is the blade `e_0 ∧ … ∧ e_{t−1}` -/
theorem foldl_gens (t : Nat) (ht : t ≤ d) :
    ((List.ofFn fun i : Fin d => (blade d (gen i) : CMV d R)).take t).foldl (wedge d) (one d) = blade d (low t ht) := by
  induction t with
  | zero =>
    simp only [List.take_zero, List.foldl_nil]
    rw [← blade_zero_eq_one]; congr 1
  | succ t ih =>
    have htd : t < d := ht
    rw [List.take_succ_eq_append_getElem (by simpa using htd), List.foldl_append, ih (Nat.le_of_lt htd)]
    simp only [List.foldl_cons, List.foldl_nil, List.getElem_ofFn]
    rw [wedge_blade_blade]
    have hs : (wsign d (low t (Nat.le_of_lt htd)).val (gen ⟨t, htd⟩).val : R) = 1 := by
      unfold wsign
      have : (low t (Nat.le_of_lt htd)).val &&& (gen ⟨t, htd⟩ : Bm d).val = 0 := low_and_gen t htd
      rw [if_pos this]
      show sgn (swaps d (2 ^ t - 1) (2 ^ t)) = (1 : R)
      rw [swaps_low_gen]; simp [sgn]
    rw [hs, one_smul]; congr 1
    ext; exact low_xor_gen t

theorem vec_single [DecidableEq (Fin d)] (i : Fin d) : vec (Pi.single i (1 : R)) = blade d (gen i) := by
  unfold vec
  rw [Finset.sum_eq_single i]
  · simp
  · intro j _ hj; simp [Pi.single_apply, hj]
  · intro h; exact absurd (Finset.mem_univ _) h

theorem W_basis : (W (R := R) (d := d)) (Pi.basisFun R (Fin d)) = 1 := by
  show Wfun (fun i => Pi.basisFun R (Fin d) i) = 1
  unfold Wfun
  have e : (List.ofFn fun i : Fin d => vec ((Pi.basisFun R (Fin d)) i)) = List.ofFn fun i : Fin d => (blade d (gen i) : CMV d R) := by
    congr 1; funext i; rw [Pi.basisFun_apply]; exact vec_single i
  rw [e]
  have h := foldl_gens (R := R) d (le_refl d)
  rw [List.take_of_length_le (by simp)] at h
  rw [h]
  have : low d (le_refl d) = full d := by ext; rfl
  rw [this]; simp [blade]

/-- **the full-blade coefficient of `f(e_0) ∧ … ∧ f(e_{d−1})` is the determinant of the coordinate matrix** -/
theorem Wfun_eq_det (v : Fin d → (Fin d → R)) : Wfun v = (Matrix.of v).det := by
  have h := AlternatingMap.eq_smul_basis_det (Pi.basisFun R (Fin d)) (W (R := R) (d := d))
  have h2 := congrArg (fun g => g v) h
  simp only [AlternatingMap.smul_apply] at h2
  rw [W_basis, one_smul, Pi.basisFun_det_apply] at h2
  exact h2

end DetW

namespace DetW
variable {d}

theorem pc_eq_zero (a : Nat) (ha : a < 2 ^ d) (h : pc d a = 0) : a = 0 := by
  apply Nat.eq_of_testBit_eq; intro i
  rw [Nat.zero_testBit]
  by_cases hi : i < d
  · unfold pc at h
    have := (Finset.sum_eq_zero_iff.mp h) i (Finset.mem_range.mpr hi)
    unfold bit at this
    by_contra hc; simp at hc; simp [hc] at this
  · exact Nat.testBit_lt_two_pow (lt_of_lt_of_le ha (Nat.pow_le_pow_right (by decide) (Nat.le_of_not_lt hi)))

theorem eq_full_of_pc (c : Bm d) (h : pc d c.val = d) : c = full d := by
  have h1 := pc_cmpl d c
  have h0 : pc d (cmpl d c).val = 0 := by omega
  have hz : cmpl d c = fzero := by ext; exact pc_eq_zero _ (cmpl d c).isLt h0
  have : c = cmpl d fzero := by rw [← hz, cmpl_cmpl]
  rw [this]; unfold cmpl; ext; simp [fzero]

/-- a multivector of top grade is its pseudoscalar coefficient times the pseudoscalar -/
theorem top_grade (X : CMV d R) (hX : IsHom d d X) : X = X (full d) • blade d (full d) := by
  funext c
  simp only [Pi.smul_apply, blade, smul_eq_mul_R]
  by_cases hc : c = full d
  · subst hc; simp
  · rw [if_neg hc, mul_zero]; exact hX c (fun h => hc (eq_full_of_pc c h))

theorem Fprod_full (f : Nat → CMV d R) (t : Nat) (ht : t ≤ d) :
    Fprod d f t (2 ^ d - 1) = ((List.range t).map f).foldl (wedge d) (one d) := by
  induction t with
  | zero => rfl
  | succ t ih =>
    have hb : (2 ^ d - 1).testBit t = true := by rw [Nat.testBit_two_pow_sub_one]; simp; omega
    simp only [Fprod, hb, if_true]
    rw [ih (by omega), List.range_succ, List.map_append, List.foldl_append]; rfl

theorem range_map_eq_ofFn (g : Nat → CMV d R) : (List.range d).map g = List.ofFn fun i : Fin d => g i.val := by
  apply List.ext_getElem
  · simp
  · intro k h1 h2; simp

/-- **`f(I) = det(m) I`**: for the vector map sending `e_i` to the vector with coordinates `v i` (the `i`-th column of the matrix
    of the map), the outermorphism image of the pseudoscalar is `det • I` -/
theorem omap_pseudoscalar (v : Fin d → (Fin d → R)) :
    omap d d (fun i => if h : i < d then vec (v ⟨i, h⟩) else 0) (blade d (full d)) = (Matrix.of v).det • blade d (full d) := by
  rw [omap_blade]
  have hf : ∀ i, IsHom d 1 ((fun i => if h : i < d then vec (v ⟨i, h⟩) else (0 : CMV d R)) i) := by
    intro i; by_cases h : i < d
    · simp only [h, dif_pos]; exact vec_hom _
    · simp only [h, dif_neg, not_false_eq_true]; intro c _; rfl
  have hhom := Fprod_hom d _ hf d (full d).val
  rw [pc_full] at hhom
  rw [top_grade _ hhom]
  congr 1
  show (Fprod d _ d (2 ^ d - 1)) (full d) = _
  rw [Fprod_full _ d (le_refl d), range_map_eq_ofFn, ← Wfun_eq_det]
  unfold Wfun
  have e : (List.ofFn fun i : Fin d => if h : i.val < d then vec (v ⟨i.val, h⟩) else (0 : CMV d R)) = List.ofFn fun i => vec (v i) := by
    congr 1; funext i; simp [i.isLt]
  rw [e]

end DetW
