import Model.Numba
import Mathlib.Algebra.Order.Ring.Rat
import Mathlib.Tactic.Ring

/-! C10: each overload body equals the interpreter-path operation of the model (on value arrays of the layout's length) -/
namespace NumbaEq
open Model Model.Ctx

variable (C : Ctx)

theorem getD_range_map (n : Nat) (f : Nat → Rat) (i : Nat) (hi : i < n) : ((Array.range n).map f).getD i 0 = f i := by
  simp [Array.getD_eq_getD_getElem?, hi]

theorem getD_modify (xs : MV) (i j : Nat) (f : Rat → Rat) (hj : j < xs.size) :
    (xs.modify i f).getD j 0 = if i = j then f (xs.getD j 0) else xs.getD j 0 := by
  simp only [Array.getD_eq_getD_getElem?, Array.getElem?_modify]
  by_cases h : i = j
  · subst h; simp [hj]
  · simp [h]

theorem getD_ofScalar (q : Rat) (i : Nat) (hs : C.scalarIdx < C.dims) (hi : i < C.dims) :
    (C.ofScalar q).getD i 0 = if i = C.scalarIdx then q else 0 := by
  unfold Ctx.ofScalar Ctx.zero
  simp only [Array.getD_eq_getD_getElem?, Array.getElem?_setIfInBounds, Array.size_replicate]
  by_cases h : C.scalarIdx = i
  · subst h; simp [hs]
  · have h' : ¬ i = C.scalarIdx := fun e => h e.symm
    simp [h, h', hi]

/-- jitted `mv + number` = interpreter `mv + number` (`_checkOther` coerces the number to a grade-0 multivector) -/
theorem jAddScalar_eq (a : MV) (q : Rat) (ha : a.size = C.dims) (hs : C.scalarIdx < C.dims) (i : Nat) (hi : i < C.dims) :
    (C.jAddScalar a q).getD i 0 = (C.add a (C.ofScalar q)).getD i 0 := by
  unfold Ctx.jAddScalar Ctx.add
  rw [getD_modify _ _ _ _ (by rw [ha]; exact hi), getD_range_map _ _ _ hi, getD_ofScalar C q i hs hi]
  by_cases h : C.scalarIdx = i
  · subst h; simp
  · have h' : ¬ i = C.scalarIdx := fun e => h e.symm
    simp [h, h']

theorem jSubScalar_eq (a : MV) (q : Rat) (ha : a.size = C.dims) (hs : C.scalarIdx < C.dims) (i : Nat) (hi : i < C.dims) :
    (C.jSubScalar a q).getD i 0 = (C.sub a (C.ofScalar q)).getD i 0 := by
  unfold Ctx.jSubScalar Ctx.sub
  rw [getD_modify _ _ _ _ (by rw [ha]; exact hi), getD_range_map _ _ _ hi, getD_ofScalar C q i hs hi]
  by_cases h : C.scalarIdx = i
  · subst h; simp
  · have h' : ¬ i = C.scalarIdx := fun e => h e.symm
    simp [h, h']

/-- jitted `mv * number` / `mv ^ number` = `number * mv.value` -/
theorem jMulScalar_eq (a : MV) (q : Rat) (ha : a.size = C.dims) (i : Nat) (hi : i < C.dims) :
    (C.jMulScalar a q).getD i 0 = (C.smul q a).getD i 0 := by
  unfold Ctx.jMulScalar Ctx.smul
  rw [getD_range_map _ _ _ hi]
  simp only [Array.getD_eq_getD_getElem?, Array.getElem?_map]
  have : i < a.size := by rw [ha]; exact hi
  simp [this]; ring

/-- jitted `mv ** 0` (`1 + 0*a`) is the unit -/
theorem jPow_zero (a : MV) (ha : a.size = C.dims) (hs : C.scalarIdx < C.dims) (i : Nat) (hi : i < C.dims) :
    (C.jPow a 0).getD i 0 = (C.one).getD i 0 := by
  unfold Ctx.jPow Ctx.one
  simp only [if_true]
  unfold Ctx.jAddScalar Ctx.jMulScalar
  have hsz : (a.map (· * (0 : Rat))).size = C.dims := by simp [ha]
  rw [getD_modify _ _ _ _ (by rw [hsz]; exact hi), getD_ofScalar C 1 i hs hi]
  have hz : (a.map (· * (0 : Rat))).getD i 0 = 0 := by
    simp only [Array.getD_eq_getD_getElem?, Array.getElem?_map]
    have : i < a.size := by rw [ha]; exact hi
    simp [this]
  rw [hz]
  by_cases h : C.scalarIdx = i
  · subst h; simp
  · have h' : ¬ i = C.scalarIdx := fun e => h e.symm
    simp [h, h']

/-- jitted `mv ** n` for `n ≥ 1` runs the same loop as the interpreter -/
theorem jPow_pos (a : MV) (n : Nat) (hn : n ≠ 0) : C.jPow a n = C.powNat a n := by
  unfold Ctx.jPow Ctx.powNat; simp [hn]

/-- jitted grade selection for a single grade = the interpreter's mask multiplication -/
theorem jCall_single (g : Nat) (a : MV) (ha : a.size = C.dims) (i : Nat) (hi : i < C.dims) :
    (C.jCall [g] a).getD i 0 = (C.gradeProj g a).getD i 0 := by
  unfold Ctx.jCall Ctx.gradeProj
  rw [ha, getD_range_map _ _ _ hi, getD_range_map _ _ _ hi]
  simp [List.contains_cons, eq_comm]

/-- … and for two *distinct* grades it is the sum of the two projections (for a repeated grade the interpreter adds the
projection twice while the jitted mask keeps it once: recorded as a known finding) -/
theorem jCall_pair (g h : Nat) (hgh : g ≠ h) (a : MV) (ha : a.size = C.dims) (i : Nat) (hi : i < C.dims) :
    (C.jCall [g, h] a).getD i 0 = (C.gradeProj g a).getD i 0 + (C.gradeProj h a).getD i 0 := by
  unfold Ctx.jCall Ctx.gradeProj
  rw [ha, getD_range_map _ _ _ hi, getD_range_map _ _ _ hi, getD_range_map _ _ _ hi]
  by_cases h1 : C.grade i = g
  · have h2 : ¬ C.grade i = h := fun e => hgh (h1.symm.trans e)
    simp [List.contains_cons, h1, h2, hgh]
  · by_cases h2 : C.grade i = h
    · simp [List.contains_cons, h1, h2, Ne.symm hgh]
    · have e1 : ¬ g = C.grade i := fun e => h1 e.symm
      have e2 : ¬ h = C.grade i := fun e => h2 e.symm
      simp [List.contains_cons, h1, h2, e1, e2]

/-- the jitted `mag2` is the interpreter's -/
theorem jMag2_eq (a : MV) : C.jMag2 a = C.mag2 a := rfl

/-- scalar `|`: zeros -/
theorem jOrScalar_zero (a : MV) (q : Rat) (i : Nat) : (C.jOrScalar a q).getD i 0 = 0 := by
  unfold Ctx.jOrScalar
  simp only [Array.getD_eq_getD_getElem?, Array.getElem?_map]
  cases a[i]? <;> simp

end NumbaEq

namespace NumbaEq
open Model

/-- the DISABLE_JIT `count_set_bits` (count the items `set_bit_indices` yields) is the population count
that the compiled build computes with `ctpop` -/
theorem setBitIndicesAux_length : ∀ (fuel x n : Nat), x < fuel → (setBitIndicesAux fuel x n).length = popcount x := by
  intro fuel
  induction fuel with
  | zero => intro x n h; omega
  | succ fuel ih =>
    intro x n h
    unfold setBitIndicesAux
    by_cases hx : x = 0
    · subst hx; simp [popcount]
    · rw [if_neg hx, List.length_append, ih (x / 2) (n + 1) (by omega)]
      rw [popcount.eq_1 x, dif_neg hx]
      rcases Nat.mod_two_eq_zero_or_one x with h2 | h2 <;> simp [h2]

theorem countSetBitsLoop_eq_popcount (x : Nat) : countSetBitsLoop x = popcount x :=
  setBitIndicesAux_length (x + 1) x 0 (Nat.lt_succ_self x)

end NumbaEq

/-! ### `ga_call`: the mask `inds = (grades == g0) | (grades == g1) | …` built by a loop is membership in the grade list -/
namespace NumbaEq

theorem orMasks_size (sz : Nat) (gr : Nat → Nat) (gs : List Nat) (init : Array Bool) (h : init.size = sz) :
    (gs.foldl (fun inds g => (Array.range sz).map fun j => inds.getD j false || (gr j == g)) init).size = sz := by
  induction gs generalizing init with
  | nil => simpa using h
  | cons g gs ih => simp only [List.foldl_cons]; exact ih _ (by simp)

theorem orMasks (sz : Nat) (gr : Nat → Nat) (gs : List Nat) (init : Array Bool) (h : init.size = sz) (i : Nat) (hi : i < sz) :
    (gs.foldl (fun inds g => (Array.range sz).map fun j => inds.getD j false || (gr j == g)) init).getD i false
      = (init.getD i false || gs.contains (gr i)) := by
  induction gs generalizing init with
  | nil => simp
  | cons g gs ih =>
    simp only [List.foldl_cons]
    rw [ih _ (by simp)]
    have : ((Array.range sz).map fun j => init.getD j false || (gr j == g)).getD i false = (init.getD i false || (gr i == g)) := by
      simp [Array.getD, hi]
    rw [this, List.contains_cons, Bool.or_assoc]

theorem range_map_congr {α : Type} (n : Nat) (f g : Nat → α) (h : ∀ i, i < n → f i = g i) : (Array.range n).map f = (Array.range n).map g := by
  apply Array.ext
  · simp
  · intro i h1 h2
    simp only [Array.size_map, Array.size_range] at h1
    simp [h i h1]

/-- the body of `ga_call` (both the literal-grade and the runtime-grade path): copy the slots selected by the OR of the grade masks -/
def callBody (C : Model.Ctx) (g0 : Nat) (rest : List Nat) (a : Model.MV) : Model.MV :=
  let inds := rest.foldl (fun inds g => (Array.range a.size).map fun j => inds.getD j false || (C.grade j == g))
    ((Array.range a.size).map fun j => C.grade j == g0)
  (Array.range a.size).map fun i => if inds.getD i false then a.getD i 0 else 0

theorem callBody_eq (C : Model.Ctx) (g0 : Nat) (rest : List Nat) (a : Model.MV) : callBody C g0 rest a = C.jCall (g0 :: rest) a := by
  unfold callBody Model.Ctx.jCall
  apply range_map_congr
  intro i hi
  rw [orMasks a.size C.grade rest _ (by simp) i hi]
  have : ((Array.range a.size).map fun j => C.grade j == g0).getD i false = (C.grade i == g0) := by simp [Array.getD, hi]
  rw [this, List.contains_cons]

end NumbaEq
