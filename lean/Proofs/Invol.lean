import Proofs.Alg
import Proofs.Graded
import Model.MV
import Mathlib.Algebra.Order.Field.Basic
import Mathlib.Algebra.Order.Ring.Abs
open Finset

/-! C04: reversion, grade involution, conjugation, even/odd parts, mag2, normal -/

variable {R : Type} [CommRing R] (n : Nat) (sig : Nat → R)

/-- grade involution -/
def gi (A : CMV n R) : CMV n R := fun c => sgn (pc n c.val) * A c
/-- Clifford conjugate, as coded: `(~M).gradeInvol()` -/
def cconj (A : CMV n R) : CMV n R := gi n (rev n A)

theorem revSign_mul_self (k : Nat) : (revSign k : R) * revSign k = 1 := sgn_mul_self _

theorem rev_rev (A : CMV n R) : rev n (rev n A) = A := by
  funext c; simp only [rev]; rw [← mul_assoc, revSign_mul_self, one_mul]

theorem gi_gi (A : CMV n R) : gi n (gi n A) = A := by
  funext c; simp only [gi]; rw [← mul_assoc, sgn_mul_self, one_mul]

theorem gi_rev (A : CMV n R) : gi n (rev n A) = rev n (gi n A) := by
  funext c; simp only [gi, rev]; ring

theorem cconj_cconj (A : CMV n R) : cconj n (cconj n A) = A := by
  unfold cconj; rw [← gi_rev, gi_gi, rev_rev]

theorem xor_fxor_val {n} (a c : Bm n) : a.val ^^^ (fxor a c).val = c.val := by
  simp only [fxor_val]
  apply Nat.eq_of_testBit_eq; intro i
  simp only [Nat.testBit_xor]
  cases a.val.testBit i <;> cases c.val.testBit i <;> rfl

/-- grade involution is an automorphism of the product -/
theorem gi_gmul (A B : CMV n R) : gi n (gmul n sig A B) = gmul n sig (gi n A) (gi n B) := by
  funext c
  simp only [gi, gmul, Finset.mul_sum]
  refine Finset.sum_congr rfl (fun a _ => ?_)
  have hp := gi_parity n a.val (fxor a c).val
  rw [xor_fxor_val] at hp
  have : (sgn (pc n c.val) : R) = sgn (pc n a.val) * sgn (pc n (fxor a c).val) := by
    rw [← sgn_add]; exact sgn_congr hp
  rw [this]; ring

/-- conjugation is an anti-automorphism -/
theorem cconj_gmul (A B : CMV n R) : cconj n (gmul n sig A B) = gmul n sig (cconj n B) (cconj n A) := by
  unfold cconj; rw [rev_gmul, gi_gmul]

/-- even / odd parts by grade parity -/
def evenPart (A : CMV n R) : CMV n R := fun c => if pc n c.val % 2 = 0 then A c else 0
def oddPart (A : CMV n R) : CMV n R := fun c => if pc n c.val % 2 = 0 then 0 else A c

theorem even_add_odd (A : CMV n R) : evenPart n A + oddPart n A = A := by
  funext c; simp only [evenPart, oddPart, Pi.add_apply]; split <;> simp

theorem sgn_even {k : Nat} (h : k % 2 = 0) : (sgn k : R) = 1 := by
  have : (sgn k : R) = sgn 0 := sgn_congr (by omega)
  rw [this]; simp [sgn]
theorem sgn_odd {k : Nat} (h : ¬ k % 2 = 0) : (sgn k : R) = -1 := by
  have : (sgn k : R) = sgn 1 := sgn_congr (by omega)
  rw [this]; simp [sgn]

theorem gi_evenPart (A : CMV n R) : gi n (evenPart n A) = evenPart n A := by
  funext c; simp only [gi, evenPart]; split
  · rename_i h; rw [sgn_even h, one_mul]
  · simp
theorem gi_oddPart (A : CMV n R) : gi n (oddPart n A) = - oddPart n A := by
  funext c; simp only [gi, oddPart, Pi.neg_apply]; split
  · simp
  · rename_i h; rw [sgn_odd h]; ring

/-- the code's `even`: `.5*(M + M.gradeInvol())` -/
theorem half_add_gi (half : R) (h : 2 * half = 1) (A : CMV n R) :
    half • (A + gi n A) = evenPart n A := by
  funext c
  simp only [Pi.smul_apply, Pi.add_apply, gi, evenPart, smul_eq_mul_R]
  split
  · rename_i hc; rw [sgn_even hc]
    calc half * (A c + 1 * A c) = (2 * half) * A c := by ring
      _ = A c := by rw [h, one_mul]
  · rename_i hc; rw [sgn_odd hc]; ring

/-- the code's `odd`: `.5*(M - M.gradeInvol())` -/
theorem half_sub_gi (half : R) (h : 2 * half = 1) (A : CMV n R) :
    half • (A - gi n A) = oddPart n A := by
  funext c
  simp only [Pi.smul_apply, Pi.sub_apply, gi, oddPart, smul_eq_mul_R]
  split
  · rename_i hc; rw [sgn_even hc]; ring
  · rename_i hc; rw [sgn_odd hc]
    calc half * (A c - -1 * A c) = (2 * half) * A c := by ring
      _ = A c := by rw [h, one_mul]

/-- `mag2`: the scalar coefficient of `~M * M` -/
def mag2 (A : CMV n R) : R := gmul n sig (rev n A) A fzero

/-- explicit diagonal formula: only the terms `a * a` reach the scalar part -/
theorem mag2_formula (A : CMV n R) :
    mag2 n sig A = ∑ a : Bm n, revSign (pc n a.val) * s sig n a.val a.val * (A a * A a) := by
  simp only [mag2, gmul, rev, fxor_zero]
  refine Finset.sum_congr rfl (fun a _ => ?_)
  ring

theorem mag2_smul (q : R) (A : CMV n R) : mag2 n sig (q • A) = q * q * mag2 n sig A := by
  simp only [mag2_formula, Pi.smul_apply, smul_eq_mul_R, Finset.mul_sum]
  refine Finset.sum_congr rfl (fun a _ => ?_)
  ring

/-- `normal()`: `M / abs(M)` with `abs(M) = sqrt(|mag2|)`; if `mag2 ≠ 0` the result is a positive
multiple of `M` whose `mag2` is `+1` or `-1` -/
theorem normal_mag2 {K : Type} [Field K] [LinearOrder K] [IsStrictOrderedRing K] (sigK : Nat → K)
    (A : CMV n K) (r : K) (hr : 0 < r) (hrr : r * r = |mag2 n sigK A|) (hne : mag2 n sigK A ≠ 0) :
    0 < r⁻¹ ∧ (mag2 n sigK (r⁻¹ • A) = 1 ∨ mag2 n sigK (r⁻¹ • A) = -1) := by
  refine ⟨inv_pos.mpr hr, ?_⟩
  rw [mag2_smul]
  have hr0 : r ≠ 0 := ne_of_gt hr
  have hinv : r⁻¹ * r⁻¹ = (|mag2 n sigK A|)⁻¹ := by rw [← hrr, mul_inv]
  rw [hinv]
  rcases abs_choice (mag2 n sigK A) with h | h
  · left; rw [h]; exact inv_mul_cancel₀ hne
  · right; rw [h]
    have : (-mag2 n sigK A)⁻¹ * mag2 n sigK A = -((mag2 n sigK A)⁻¹ * mag2 n sigK A) := by
      rw [inv_neg]; ring
    rw [this, inv_mul_cancel₀ hne]

/-! the exponents as coded -/

open Model.Ctx in
theorem negOnePow_cast (k : Nat) : ((negOnePow k : Int) : R) = sgn k := by
  unfold negOnePow sgn
  rw [neg_one_pow_eq_pow_mod_two]
  rcases Nat.mod_two_eq_zero_or_one k with h | h <;> simp [h]

/-- `np.power(-1, grades*(grades-1)//2)` is the reversion sign -/
theorem revSign_code (g : Nat) : ((Model.Ctx.negOnePow (g * (g - 1) / 2) : Int) : R) = revSign g := by
  rw [negOnePow_cast, ← tri_eq]; rfl

theorem revSign_add_four (k : Nat) : (revSign (k + 4) : R) = revSign k := by
  unfold revSign; exact sgn_congr (tri_add_four_mod k)

theorem revSign_values : (revSign 0 : R) = 1 ∧ (revSign 1 : R) = 1 ∧ (revSign 2 : R) = -1 ∧ (revSign 3 : R) = -1 := by
  refine ⟨by simp [revSign, tri, sgn], by simp [revSign, tri, sgn], by simp [revSign, tri, sgn], ?_⟩
  simp only [revSign, tri, sgn]; norm_num

/-- reversion multiplies grade `k` by `(-1)^(k(k-1)/2)`; grade involution by `(-1)^k`; conjugation by the product -/
theorem rev_gpart (k : Nat) (A : CMV n R) : rev n (gpart n k A) = (revSign k : R) • gpart n k A := by
  funext c; simp only [rev, gpart, Pi.smul_apply, smul_eq_mul_R]; split
  · rename_i h; rw [h]
  · simp
theorem gi_gpart (k : Nat) (A : CMV n R) : gi n (gpart n k A) = (sgn k : R) • gpart n k A := by
  funext c; simp only [gi, gpart, Pi.smul_apply, smul_eq_mul_R]; split
  · rename_i h; rw [h]
  · simp
theorem cconj_gpart (k : Nat) (A : CMV n R) :
    cconj n (gpart n k A) = ((sgn k : R) * revSign k) • gpart n k A := by
  funext c; simp only [cconj, gi, rev, gpart, Pi.smul_apply, smul_eq_mul_R]; split
  · rename_i h; rw [h]; ring
  · simp
