import Mathlib.Data.Matrix.Mul
import Mathlib.LinearAlgebra.Matrix.ToLin

/-! C11: matrix-backed linear transformations (`LinearMatrix`): application, adjoint, composition, `from_function` -/
namespace Linear
open Matrix

variable {R : Type} [CommRing R] {m n k : Type} [Fintype m] [Fintype n] [Fintype k] [DecidableEq n] [DecidableEq m]

/-- `adjoint` is the transposed matrix: `⟨f a, b⟩ = ⟨a, adj b⟩` for the coefficient dot product -/
theorem adjoint_dot (M : Matrix m n R) (a : n → R) (b : m → R) :
    (M *ᵥ a) ⬝ᵥ b = a ⬝ᵥ (Mᵀ *ᵥ b) := by
  rw [dotProduct_comm, dotProduct_mulVec, mulVec_transpose, dotProduct_comm]

/-- composition of two matrix transformations is the product matrix -/
theorem compose (M2 : Matrix k m R) (M1 : Matrix m n R) (a : n → R) : (M2 * M1) *ᵥ a = M2 *ᵥ (M1 *ᵥ a) := by
  rw [mulVec_mulVec]

/-- `from_function(g)`: the matrix whose `c`-th *column* is `g(blade c)` maps every basis blade to its image under `g`,
for any source / destination sizes -/
theorem from_function_on_blades (g : (n → R) → (m → R)) (c : n) :
    (Matrix.of fun r c' => g (Pi.single c' 1) r) *ᵥ (Pi.single c 1) = g (Pi.single c 1) := by
  funext r
  simp [mulVec_single_one, Matrix.col_apply]

/-- … and if `g` is linear the matrix *is* `g` -/
theorem from_function_linear (g : (n → R) →ₗ[R] (m → R)) (a : n → R) :
    (LinearMap.toMatrix' g) *ᵥ a = g a := by
  rw [← Matrix.toLin'_apply, Matrix.toLin'_toMatrix']

/-- a matrix transformation is linear -/
theorem apply_add (M : Matrix m n R) (a b : n → R) : M *ᵥ (a + b) = M *ᵥ a + M *ᵥ b := mulVec_add M a b
theorem apply_smul (M : Matrix m n R) (q : R) (a : n → R) : M *ᵥ (q • a) = q • (M *ᵥ a) := mulVec_smul M q a

end Linear
