import Proofs.Hitzer5c
open Finset

/-! C05, n = 5 (Equation 8.22 as coded): `combo = conj M * ~(M * conj M)`, `numerator = combo * (B - 2 B(1, 4))`, `B = M * combo`.
`M * numerator` is a scalar for every multivector of every 5-dimensional algebra (g3c included), every signature. -/

variable {R : Type} [CommRing R]

def combo5 (sig : Nat → R) (M : CMV 5 R) : CMV 5 R := gmul 5 sig (cconj 5 M) (rev 5 (gmul 5 sig M (cconj 5 M)))
/-- the coded numerator for n = 5 -/
def num5 (sig : Nat → R) (M : CMV 5 R) : CMV 5 R := gmul 5 sig (combo5 sig M) (fac5 (gmul 5 sig M (combo5 sig M)))

theorem hitzer5 (sig : Nat → R) (M : CMV 5 R) (c : Bm 5) (hc : c ≠ fzero) : gmul 5 sig M (num5 sig M) c = 0 := by
  unfold num5
  rw [← gmul_assoc]
  -- B = M * combo = (M * conj M) * ~(M * conj M)
  have hB : gmul 5 sig M (combo5 sig M) = gmul 5 sig (gmul 5 sig M (cconj 5 M)) (rev 5 (gmul 5 sig M (cconj 5 M))) := by
    unfold combo5; rw [← gmul_assoc]
  rw [hB]
  have a1 := mconj5_1 sig M
  have a2 := mconj5_2 sig M
  have a4 := mconj5_4 sig M
  have a8 := mconj5_8 sig M
  have a16 := mconj5_16 sig M
  have a3 := mconj5_3 sig M
  have a5 := mconj5_5 sig M
  have a6 := mconj5_6 sig M
  have a9 := mconj5_9 sig M
  have a10 := mconj5_10 sig M
  have a12 := mconj5_12 sig M
  have a17 := mconj5_17 sig M
  have a18 := mconj5_18 sig M
  have a20 := mconj5_20 sig M
  have a24 := mconj5_24 sig M
  have a31 := mconj5_31 sig M
  have b3 := arev5_3 sig (gmul 5 sig M (cconj 5 M)) a1 a2 a4 a8 a16 a3 a5 a6 a9 a10 a12 a17 a18 a20 a24 a31
  have b5 := arev5_5 sig (gmul 5 sig M (cconj 5 M)) a1 a2 a4 a8 a16 a3 a5 a6 a9 a10 a12 a17 a18 a20 a24 a31
  have b6 := arev5_6 sig (gmul 5 sig M (cconj 5 M)) a1 a2 a4 a8 a16 a3 a5 a6 a9 a10 a12 a17 a18 a20 a24 a31
  have b9 := arev5_9 sig (gmul 5 sig M (cconj 5 M)) a1 a2 a4 a8 a16 a3 a5 a6 a9 a10 a12 a17 a18 a20 a24 a31
  have b10 := arev5_10 sig (gmul 5 sig M (cconj 5 M)) a1 a2 a4 a8 a16 a3 a5 a6 a9 a10 a12 a17 a18 a20 a24 a31
  have b12 := arev5_12 sig (gmul 5 sig M (cconj 5 M)) a1 a2 a4 a8 a16 a3 a5 a6 a9 a10 a12 a17 a18 a20 a24 a31
  have b17 := arev5_17 sig (gmul 5 sig M (cconj 5 M)) a1 a2 a4 a8 a16 a3 a5 a6 a9 a10 a12 a17 a18 a20 a24 a31
  have b18 := arev5_18 sig (gmul 5 sig M (cconj 5 M)) a1 a2 a4 a8 a16 a3 a5 a6 a9 a10 a12 a17 a18 a20 a24 a31
  have b20 := arev5_20 sig (gmul 5 sig M (cconj 5 M)) a1 a2 a4 a8 a16 a3 a5 a6 a9 a10 a12 a17 a18 a20 a24 a31
  have b24 := arev5_24 sig (gmul 5 sig M (cconj 5 M)) a1 a2 a4 a8 a16 a3 a5 a6 a9 a10 a12 a17 a18 a20 a24 a31
  have b7 := arev5_7 sig (gmul 5 sig M (cconj 5 M)) a1 a2 a4 a8 a16 a3 a5 a6 a9 a10 a12 a17 a18 a20 a24 a31
  have b11 := arev5_11 sig (gmul 5 sig M (cconj 5 M)) a1 a2 a4 a8 a16 a3 a5 a6 a9 a10 a12 a17 a18 a20 a24 a31
  have b13 := arev5_13 sig (gmul 5 sig M (cconj 5 M)) a1 a2 a4 a8 a16 a3 a5 a6 a9 a10 a12 a17 a18 a20 a24 a31
  have b14 := arev5_14 sig (gmul 5 sig M (cconj 5 M)) a1 a2 a4 a8 a16 a3 a5 a6 a9 a10 a12 a17 a18 a20 a24 a31
  have b19 := arev5_19 sig (gmul 5 sig M (cconj 5 M)) a1 a2 a4 a8 a16 a3 a5 a6 a9 a10 a12 a17 a18 a20 a24 a31
  have b21 := arev5_21 sig (gmul 5 sig M (cconj 5 M)) a1 a2 a4 a8 a16 a3 a5 a6 a9 a10 a12 a17 a18 a20 a24 a31
  have b22 := arev5_22 sig (gmul 5 sig M (cconj 5 M)) a1 a2 a4 a8 a16 a3 a5 a6 a9 a10 a12 a17 a18 a20 a24 a31
  have b25 := arev5_25 sig (gmul 5 sig M (cconj 5 M)) a1 a2 a4 a8 a16 a3 a5 a6 a9 a10 a12 a17 a18 a20 a24 a31
  have b26 := arev5_26 sig (gmul 5 sig M (cconj 5 M)) a1 a2 a4 a8 a16 a3 a5 a6 a9 a10 a12 a17 a18 a20 a24 a31
  have b28 := arev5_28 sig (gmul 5 sig M (cconj 5 M)) a1 a2 a4 a8 a16 a3 a5 a6 a9 a10 a12 a17 a18 a20 a24 a31
  have b31 := arev5_31 sig (gmul 5 sig M (cconj 5 M)) a1 a2 a4 a8 a16 a3 a5 a6 a9 a10 a12 a17 a18 a20 a24 a31
  obtain ⟨v, hv⟩ := c
  have h0 : v ≠ 0 := by intro h; apply hc; exact Fin.ext h
  have : v = 1 ∨ v = 2 ∨ v = 3 ∨ v = 4 ∨ v = 5 ∨ v = 6 ∨ v = 7 ∨ v = 8 ∨ v = 9 ∨ v = 10 ∨ v = 11 ∨ v = 12 ∨ v = 13 ∨ v = 14 ∨ v = 15 ∨ v = 16 ∨ v = 17 ∨ v = 18 ∨ v = 19 ∨ v = 20 ∨ v = 21 ∨ v = 22 ∨ v = 23 ∨ v = 24 ∨ v = 25 ∨ v = 26 ∨ v = 27 ∨ v = 28 ∨ v = 29 ∨ v = 30 ∨ v = 31 := by omega
  rcases this with rfl | rfl | rfl | rfl | rfl | rfl | rfl | rfl | rfl | rfl | rfl | rfl | rfl | rfl | rfl | rfl | rfl | rfl | rfl | rfl | rfl | rfl | rfl | rfl | rfl | rfl | rfl | rfl | rfl | rfl | rfl
  · exact sp5_1 sig _ b3 b5 b6 b9 b10 b12 b17 b18 b20 b24 b7 b11 b13 b14 b19 b21 b22 b25 b26 b28 b31
  · exact sp5_2 sig _ b3 b5 b6 b9 b10 b12 b17 b18 b20 b24 b7 b11 b13 b14 b19 b21 b22 b25 b26 b28 b31
  · exact sp5_3 sig _ b3 b5 b6 b9 b10 b12 b17 b18 b20 b24 b7 b11 b13 b14 b19 b21 b22 b25 b26 b28 b31
  · exact sp5_4 sig _ b3 b5 b6 b9 b10 b12 b17 b18 b20 b24 b7 b11 b13 b14 b19 b21 b22 b25 b26 b28 b31
  · exact sp5_5 sig _ b3 b5 b6 b9 b10 b12 b17 b18 b20 b24 b7 b11 b13 b14 b19 b21 b22 b25 b26 b28 b31
  · exact sp5_6 sig _ b3 b5 b6 b9 b10 b12 b17 b18 b20 b24 b7 b11 b13 b14 b19 b21 b22 b25 b26 b28 b31
  · exact sp5_7 sig _ b3 b5 b6 b9 b10 b12 b17 b18 b20 b24 b7 b11 b13 b14 b19 b21 b22 b25 b26 b28 b31
  · exact sp5_8 sig _ b3 b5 b6 b9 b10 b12 b17 b18 b20 b24 b7 b11 b13 b14 b19 b21 b22 b25 b26 b28 b31
  · exact sp5_9 sig _ b3 b5 b6 b9 b10 b12 b17 b18 b20 b24 b7 b11 b13 b14 b19 b21 b22 b25 b26 b28 b31
  · exact sp5_10 sig _ b3 b5 b6 b9 b10 b12 b17 b18 b20 b24 b7 b11 b13 b14 b19 b21 b22 b25 b26 b28 b31
  · exact sp5_11 sig _ b3 b5 b6 b9 b10 b12 b17 b18 b20 b24 b7 b11 b13 b14 b19 b21 b22 b25 b26 b28 b31
  · exact sp5_12 sig _ b3 b5 b6 b9 b10 b12 b17 b18 b20 b24 b7 b11 b13 b14 b19 b21 b22 b25 b26 b28 b31
  · exact sp5_13 sig _ b3 b5 b6 b9 b10 b12 b17 b18 b20 b24 b7 b11 b13 b14 b19 b21 b22 b25 b26 b28 b31
  · exact sp5_14 sig _ b3 b5 b6 b9 b10 b12 b17 b18 b20 b24 b7 b11 b13 b14 b19 b21 b22 b25 b26 b28 b31
  · exact sp5_15 sig _ b3 b5 b6 b9 b10 b12 b17 b18 b20 b24 b7 b11 b13 b14 b19 b21 b22 b25 b26 b28 b31
  · exact sp5_16 sig _ b3 b5 b6 b9 b10 b12 b17 b18 b20 b24 b7 b11 b13 b14 b19 b21 b22 b25 b26 b28 b31
  · exact sp5_17 sig _ b3 b5 b6 b9 b10 b12 b17 b18 b20 b24 b7 b11 b13 b14 b19 b21 b22 b25 b26 b28 b31
  · exact sp5_18 sig _ b3 b5 b6 b9 b10 b12 b17 b18 b20 b24 b7 b11 b13 b14 b19 b21 b22 b25 b26 b28 b31
  · exact sp5_19 sig _ b3 b5 b6 b9 b10 b12 b17 b18 b20 b24 b7 b11 b13 b14 b19 b21 b22 b25 b26 b28 b31
  · exact sp5_20 sig _ b3 b5 b6 b9 b10 b12 b17 b18 b20 b24 b7 b11 b13 b14 b19 b21 b22 b25 b26 b28 b31
  · exact sp5_21 sig _ b3 b5 b6 b9 b10 b12 b17 b18 b20 b24 b7 b11 b13 b14 b19 b21 b22 b25 b26 b28 b31
  · exact sp5_22 sig _ b3 b5 b6 b9 b10 b12 b17 b18 b20 b24 b7 b11 b13 b14 b19 b21 b22 b25 b26 b28 b31
  · exact sp5_23 sig _ b3 b5 b6 b9 b10 b12 b17 b18 b20 b24 b7 b11 b13 b14 b19 b21 b22 b25 b26 b28 b31
  · exact sp5_24 sig _ b3 b5 b6 b9 b10 b12 b17 b18 b20 b24 b7 b11 b13 b14 b19 b21 b22 b25 b26 b28 b31
  · exact sp5_25 sig _ b3 b5 b6 b9 b10 b12 b17 b18 b20 b24 b7 b11 b13 b14 b19 b21 b22 b25 b26 b28 b31
  · exact sp5_26 sig _ b3 b5 b6 b9 b10 b12 b17 b18 b20 b24 b7 b11 b13 b14 b19 b21 b22 b25 b26 b28 b31
  · exact sp5_27 sig _ b3 b5 b6 b9 b10 b12 b17 b18 b20 b24 b7 b11 b13 b14 b19 b21 b22 b25 b26 b28 b31
  · exact sp5_28 sig _ b3 b5 b6 b9 b10 b12 b17 b18 b20 b24 b7 b11 b13 b14 b19 b21 b22 b25 b26 b28 b31
  · exact sp5_29 sig _ b3 b5 b6 b9 b10 b12 b17 b18 b20 b24 b7 b11 b13 b14 b19 b21 b22 b25 b26 b28 b31
  · exact sp5_30 sig _ b3 b5 b6 b9 b10 b12 b17 b18 b20 b24 b7 b11 b13 b14 b19 b21 b22 b25 b26 b28 b31
  · rw [ps5_generic sig _ b3 b5 b6 b9 b10 b12 b17 b18 b20 b24 b7 b11 b13 b14 b19 b21 b22 b25 b26 b28 b31]
    exact ps5_zero sig (gmul 5 sig M (cconj 5 M)) a1 a2 a3 a4 a5 a6 a8 a9 a10 a12 a16 a17 a18 a20 a24 a31
