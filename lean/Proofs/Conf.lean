import Mathlib.Tactic.NoncommRing
import Mathlib.Tactic.LinearCombination
import Mathlib.Algebra.Algebra.Rat
import Mathlib.Algebra.Algebra.Basic
import Mathlib.Tactic.Module

/-! C08: the conformal identities from the defining relations alone, in any ℚ-algebra
    (so for every base dimension and every base signature at once).

`x`, `y` are base vectors (`x*x = qx`, `y*y = qy`, `x*y + y*x = 2b`), `ep`, `en` the two added basis vectors
(`ep² = 1`, `en² = -1`), all base vectors anticommute with `ep`, `en`, and `ep`, `en` anticommute.
For vectors `a·b = ½(ab + ba)` and `a∧b = ½(ab − ba)`; for a vector `v` and the bivector `E0`,
`v∧E0 = ½(v E0 + E0 v)`. -/

namespace Conf

variable {A : Type} [Ring A] [Algebra ℚ A]

/-- the defining relations between one base vector and the added pair -/
structure Rel (x ep en : A) (q : ℚ) : Prop where
  hx : x * x = q • (1 : A)
  hep : ep * ep = 1
  hen : en * en = -1
  h1 : x * ep = -(ep * x)
  h2 : x * en = -(en * x)
  h3 : ep * en = -(en * ep)

section
variable {x ep en : A} {q : ℚ}

theorem Rel.hx' (r : Rel x ep en q) (z : A) : x * (x * z) = q • z := by rw [← mul_assoc, r.hx, smul_mul_assoc, one_mul]
theorem Rel.hep' (r : Rel x ep en q) (z : A) : ep * (ep * z) = z := by rw [← mul_assoc, r.hep, one_mul]
theorem Rel.hen' (r : Rel x ep en q) (z : A) : en * (en * z) = -z := by rw [← mul_assoc, r.hen, neg_mul, one_mul]
theorem Rel.h1' (r : Rel x ep en q) (z : A) : x * (ep * z) = -(ep * (x * z)) := by rw [← mul_assoc, r.h1, neg_mul, mul_assoc]
theorem Rel.h2' (r : Rel x ep en q) (z : A) : x * (en * z) = -(en * (x * z)) := by rw [← mul_assoc, r.h2, neg_mul, mul_assoc]
theorem Rel.h3' (r : Rel x ep en q) (z : A) : ep * (en * z) = -(en * (ep * z)) := by rw [← mul_assoc, r.h3, neg_mul, mul_assoc]
end

/-- normalise products of `x`, `ep`, `en` to the monomial order `en < ep < x`, then compare coefficients -/
macro "cga_nf" r:term : tactic => `(tactic| (
  simp only [mul_add, add_mul, mul_sub, sub_mul, smul_mul_assoc, mul_smul_comm, smul_smul, mul_assoc, mul_one, one_mul,
    neg_mul, mul_neg, neg_neg, smul_neg, neg_smul, smul_add, smul_sub,
    ($r).hx, ($r).hep, ($r).hen, ($r).h1, ($r).h2, ($r).h3, ($r).hx', ($r).hep', ($r).hen', ($r).h1', ($r).h2', ($r).h3']))

def einf (ep en : A) : A := en + ep
def eo (ep en : A) : A := (1/2 : ℚ) • (en - ep)
/-- `E0 = einf ∧ eo = ½(einf·eo − eo·einf)` -/
def E0 (ep en : A) : A := (1/2 : ℚ) • (einf ep en * eo ep en - eo ep en * einf ep en)
/-- `up x = x + ½ x² einf + eo` -/
def up (x ep en : A) (q : ℚ) : A := x + (q/2) • einf ep en + eo ep en

variable {x ep en : A} {q : ℚ}

theorem eo_null (r : Rel x ep en q) : eo ep en * eo ep en = 0 := by
  unfold eo; cga_nf r; module

theorem einf_null (r : Rel x ep en q) : einf ep en * einf ep en = 0 := by
  unfold einf; cga_nf r; module

/-- `eo · einf = -1` -/
theorem eo_dot_einf (r : Rel x ep en q) :
    (1/2 : ℚ) • (eo ep en * einf ep en + einf ep en * eo ep en) = -1 := by
  unfold eo einf; cga_nf r; module

theorem E0_eq (r : Rel x ep en q) : E0 ep en = -(en * ep) := by
  unfold E0 eo einf; cga_nf r; module

theorem E0_sq (r : Rel x ep en q) : E0 ep en * E0 ep en = 1 := by
  rw [E0_eq r]; cga_nf r

/-- `up x` is null -/
theorem up_null (r : Rel x ep en q) : up x ep en q * up x ep en q = 0 := by
  unfold up eo einf; cga_nf r; module

/-- `up x · einf = -1` -/
theorem up_dot_einf (r : Rel x ep en q) :
    (1/2 : ℚ) • (up x ep en q * einf ep en + einf ep en * up x ep en q) = -1 := by
  unfold up eo einf; cga_nf r; module

/-- `homo`: a scaled point `s • X` has `-(sX)·einf = s`, so dividing by it removes the scale -/
theorem homo_scale (r : Rel x ep en q) (s : ℚ) :
    -((1/2 : ℚ) • ((s • up x ep en q) * einf ep en + einf ep en * (s • up x ep en q))) = s • (1 : A) := by
  unfold up eo einf; cga_nf r; module

/-- `down (up x) = ((up x) ∧ E0) * E0 = x` -/
theorem down_up (r : Rel x ep en q) :
    ((1/2 : ℚ) • (up x ep en q * E0 ep en + E0 ep en * up x ep en q)) * E0 ep en = x := by
  rw [E0_eq r]; unfold up eo einf; cga_nf r; module

/-- two base vectors: the distance identity `up x · up y = -½ (x - y)²` -/
theorem up_dot_up {y : A} {qy b : ℚ} (r : Rel x ep en q) (ry : Rel y ep en qy)
    (hxy : x * y + y * x = (2 * b) • (1 : A)) :
    (1/2 : ℚ) • (up x ep en q * up y ep en qy + up y ep en qy * up x ep en q)
      = (-(1/2 : ℚ) * (q + qy - 2 * b)) • (1 : A) := by
  have hyx : y * x = (2 * b) • (1 : A) - x * y := by rw [← hxy]; abel
  unfold up eo einf
  simp only [mul_add, add_mul, mul_sub, sub_mul, smul_mul_assoc, mul_smul_comm, smul_smul, mul_assoc, mul_one, one_mul,
    neg_mul, mul_neg, neg_neg, smul_neg, neg_smul, smul_add, smul_sub,
    r.hx, r.hep, r.hen, r.h1, r.h2, r.h3, r.hx', r.hep', r.hen', r.h1', r.h2', r.h3',
    ry.hx, ry.h1, ry.h2, ry.hx', ry.h1', ry.h2', hyx]
  module

/-- `(x - y)² = x² + y² - (xy + yx)` for the statement above -/
theorem sub_sq_base {y : A} {qy b : ℚ} (r : Rel x ep en q) (ry : Rel y ep en qy)
    (hxy : x * y + y * x = (2 * b) • (1 : A)) : (x - y) * (x - y) = (q + qy - 2 * b) • (1 : A) := by
  have : (x - y) * (x - y) = x * x + y * y - (x * y + y * x) := by noncomm_ring
  rw [this, r.hx, ry.hx, hxy]; module

end Conf
