import Mathlib.Tactic.NoncommRing
import Mathlib.Tactic.LinearCombination
import Mathlib.Algebra.Algebra.Rat
import Mathlib.Algebra.Algebra.Basic
import Mathlib.Tactic.Module

/-! C08 spike: the conformal identities from the defining relations alone, in any ℚ-algebra
    (so for every base dimension and every base signature at once) -/

variable {A : Type} [Ring A] [Algebra ℚ A]

/-- `up x = x + ½x² einf + eo` is null -/
theorem up_null (x ep en : A) (q : ℚ)
    (hx : x * x = q • (1 : A)) (hep : ep * ep = 1) (hen : en * en = -1)
    (h1 : x * ep + ep * x = 0) (h2 : x * en + en * x = 0) (h3 : ep * en + en * ep = 0) :
    let einf := en + ep
    let eo := (1/2 : ℚ) • (en - ep)
    let X := x + (q/2) • einf + eo
    X * X = 0 := by
  intro einf eo X
  have hX : X = x + ((q+1)/2) • en + ((q-1)/2) • ep := by
    simp only [X, einf, eo]; module
  rw [hX]
  simp only [mul_add, add_mul, smul_mul_assoc, mul_smul_comm, smul_smul]
  have e1 : x * en = -(en * x) := eq_neg_of_add_eq_zero_left h2
  have e2 : x * ep = -(ep * x) := eq_neg_of_add_eq_zero_left h1
  have e3 : ep * en = -(en * ep) := eq_neg_of_add_eq_zero_left h3
  rw [hx, hen, hep, e1, e2, e3]
  module
