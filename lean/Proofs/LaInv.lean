import Proofs.Storage
import Proofs.LeftMat
import Proofs.InvProps
open Model KernelArr

/-! C05: the linear-algebra inverse (`Layout.inv_func` / `leftLaInv`). The code builds `intermed = get_left_gmt_matrix(M)` from the
COO geometric table and hands `intermed @ x = e_scalar` to `np.linalg.solve`. Here: *any* solution `x` of that system — for the
executable table `constructGmt` in any storage order — is the two-sided inverse of `M` in the algebra. `np.linalg.solve` /
`np.linalg.cond` themselves are parameters (floating-point LAPACK): what is proved is that the system is the right one. -/

variable {R : Type} [CommRing R]

namespace LaInv

theorem constructGmt_m_lt (sig : Nat → Int) (i2b b2i : Nat → Nat) (N : Nat) : ∀ e ∈ constructGmt sig i2b b2i N, e.m < N := by
  intro e he
  unfold constructGmt at he
  obtain ⟨i, _, hi⟩ := List.mem_flatMap.mp he
  obtain ⟨j, hj, rfl⟩ := List.mem_map.mp hi
  simpa using hj

/-- the storage-order view of a value array as an element of the algebra -/
def ofArr (n : Nat) (sig : Nat → Int) (b2i : Nat → Nat) (a : Array R) : Cl n (fun i => ((sig i : Int) : R)) :=
  (fun c : Bm n => a.getD (b2i c.val) 0)

/-- a solution of `get_left_gmt_matrix(M) @ x = e_scalar` is a right inverse of `M` -/
theorem solve_right_inverse (n : Nat) (sig : Nat → Int) (σ : Equiv.Perm (Bm n)) (i2b b2i : Nat → Nat)
    (h1 : ∀ i : Bm n, i2b i.val = (σ i).val) (h2 : ∀ c : Bm n, b2i c.val = (σ.symm c).val)
    (M x : Array R)
    (hsol : ∀ j, j < 2 ^ n → (mulVec (leftMat (2 ^ n) (constructGmt sig i2b b2i (2 ^ n)) M) x).getD j 0 = if j = b2i 0 then 1 else 0) :
    ofArr n sig b2i M * ofArr n sig b2i x = 1 := by
  funext c
  have hj := hsol (σ.symm c).val (σ.symm c).isLt
  rw [leftMat_mulVec _ _ _ _ _ (σ.symm c).isLt (constructGmt_m_lt sig i2b b2i _), storage_bridge n sig σ i2b b2i h1 h2] at hj
  simp only [Equiv.apply_symm_apply] at hj
  have h0 : b2i 0 = (σ.symm (fzero : Bm n)).val := h2 fzero
  rw [Cl.mul_def, Cl.one_def]
  unfold ofArr
  show gmul n _ (fun c : Bm n => M.getD (b2i c.val) 0) (fun c : Bm n => x.getD (b2i c.val) 0) c = one n c
  rw [hj, h0]
  unfold one
  by_cases hc : c = fzero
  · subst hc; simp
  · rw [if_neg hc, if_neg]
    intro h
    exact hc (σ.symm.injective (Fin.ext h))

/-- **`leftLaInv`**: a solution of the system the code solves is the two-sided inverse (and hence the one every other method returns) -/
theorem solve_two_sided (n : Nat) (sig : Nat → Int) (σ : Equiv.Perm (Bm n)) (i2b b2i : Nat → Nat)
    (h1 : ∀ i : Bm n, i2b i.val = (σ i).val) (h2 : ∀ c : Bm n, b2i c.val = (σ.symm c).val)
    (M x : Array R)
    (hsol : ∀ j, j < 2 ^ n → (mulVec (leftMat (2 ^ n) (constructGmt sig i2b b2i (2 ^ n)) M) x).getD j 0 = if j = b2i 0 then 1 else 0) :
    ofArr n sig b2i M * ofArr n sig b2i x = 1 ∧ ofArr n sig b2i x * ofArr n sig b2i M = 1 := by
  have h := solve_right_inverse n sig σ i2b b2i h1 h2 M x hsol
  exact ⟨h, (Cl.left_inv_iff_right_inv _ _).mpr h⟩

/-- conversely the inverse, stored in the layout's order, solves the system: the system is solvable exactly when `M` is invertible -/
theorem inverse_solves (n : Nat) (sig : Nat → Int) (σ : Equiv.Perm (Bm n)) (i2b b2i : Nat → Nat)
    (h1 : ∀ i : Bm n, i2b i.val = (σ i).val) (h2 : ∀ c : Bm n, b2i c.val = (σ.symm c).val)
    (M x : Array R) (hinv : ofArr n sig b2i M * ofArr n sig b2i x = 1) :
    ∀ j, j < 2 ^ n → (mulVec (leftMat (2 ^ n) (constructGmt sig i2b b2i (2 ^ n)) M) x).getD j 0 = if j = b2i 0 then 1 else 0 := by
  intro j hj
  have hb := storage_bridge (R := R) n sig σ i2b b2i h1 h2 M x ⟨j, hj⟩
  rw [leftMat_mulVec _ _ _ _ _ hj (constructGmt_m_lt sig i2b b2i _)]
  have hb' : contraction (constructGmt sig i2b b2i (2 ^ n)) M x j
      = gmul n (fun i => ((sig i : Int) : R)) (fun c => M.getD (b2i c.val) 0) (fun c => x.getD (b2i c.val) 0) (σ ⟨j, hj⟩) := hb
  rw [hb']
  have := congrFun hinv (σ ⟨j, hj⟩)
  rw [Cl.mul_def, Cl.one_def] at this
  unfold ofArr at this
  have h3 : gmul n (fun i => ((sig i : Int) : R)) (fun c => M.getD (b2i c.val) 0) (fun c => x.getD (b2i c.val) 0) (σ ⟨j, hj⟩) = one n (σ ⟨j, hj⟩) := this
  rw [h3]
  unfold one
  have h0 : b2i 0 = (σ.symm (fzero : Bm n)).val := h2 fzero
  by_cases hc : σ ⟨j, hj⟩ = fzero
  · rw [if_pos hc, if_pos]
    rw [h0, ← hc]; simp
  · rw [if_neg hc, if_neg]
    intro h
    apply hc
    have : (⟨j, hj⟩ : Bm n) = σ.symm fzero := Fin.ext (h.trans h0)
    rw [this]; simp

end LaInv
