import Proofs.Refine
import Proofs.Alg
import Mathlib.Algebra.BigOperators.Fin
open Finset Model

/-! bridging the executable, code-shaped definitions to the proof representation -/

/-- the metric loop equals the product over the set bits (for any accumulator and start index) -/
theorem metricLoop_spec (sig : Nat → Int) : ∀ (n m i : Nat) (acc : Int), m < 2^n →
    metricLoop sig m i acc = acc * ∏ k ∈ range n, (if m.testBit k then sig (i + k) else 1) := by
  intro n
  induction n with
  | zero =>
    intro m i acc hm
    have : m = 0 := by simpa using hm
    subst this; rw [metricLoop]; simp
  | succ n ih =>
    intro m i acc hm
    rw [metricLoop]
    split
    · next h => subst h; simp
    · next h =>
      have hm2 : m >>> 1 < 2^n := by
        rw [Nat.shiftRight_eq_div_pow]; simp
        rw [Nat.div_lt_iff_lt_mul (by decide)]; rw [pow_succ] at hm; exact hm
      rw [ih (m >>> 1) (i+1) _ hm2, Finset.prod_range_succ']
      have hb : ∀ k, (m >>> 1).testBit k = m.testBit (k+1) := by
        intro k; rw [Nat.testBit_shiftRight]; congr 1; omega
      simp only [hb]
      have hi : ∀ k, i + 1 + k = i + (k + 1) := by intro k; omega
      simp only [hi, Nat.add_zero]
      have h0 : (m &&& 1 ≠ 0) ↔ m.testBit 0 = true := by
        rw [Nat.testBit_zero]
        have : m &&& 1 = m % 2 := Nat.and_one_is_mod m
        rw [this]; simp only [decide_eq_true_eq]; omega
      by_cases hb0 : m.testBit 0 = true
      · have hc : m &&& 1 ≠ 0 := h0.mpr hb0
        rw [if_pos hc, if_pos hb0]; ring
      · have hc : ¬ (m &&& 1 ≠ 0) := fun h => hb0 (h0.mp h)
        rw [if_neg hc, if_neg hb0]; ring

/-- the executable blade sign agrees with the spec-level `s` (signature entries cast into any ring) -/
theorem bladeSign_eq_s {R : Type} [CommRing R] (sig : Nat → Int) (n a b : Nat) (ha : a < 2^n) (hb : b < 2^n) :
    ((bladeSign sig a b : Int) : R) = s (fun i => ((sig i : Int) : R)) n a b := by
  unfold bladeSign s
  have hab : a &&& b < 2^n := lt_of_le_of_lt Nat.and_le_left ha
  rw [metricLoop_spec sig n (a &&& b) 0 _ hab]
  simp only [Nat.zero_add]
  unfold signE
  rw [reorderSwaps_spec n a b ha hb]
  have hs : (if swaps n a b &&& 1 = 0 then (1 : R) else -1) = sgn (swaps n a b) := by
    have hm : swaps n a b &&& 1 = swaps n a b % 2 := Nat.and_one_is_mod _
    rw [hm]
    rcases Nat.mod_two_eq_zero_or_one (swaps n a b) with h | h
    · rw [h, if_pos rfl]
      have : (sgn (swaps n a b) : R) = sgn 0 := sgn_congr (by omega)
      rw [this]; simp [sgn]
    · rw [h, if_neg (by decide)]
      have : (sgn (swaps n a b) : R) = sgn 1 := sgn_congr (by omega)
      rw [this]; simp [sgn]
  push_cast
  rw [hs]
  rfl
