import Proofs.Pseudo
import Proofs.Fund
import Proofs.Ring
import Proofs.Blade
import Mathlib.Tactic.LinearCombination

/-! # C13: `σ = C ~C` of `rotor_between_objects` is a scalar plus a 4-vector with scalar square (g3c, `n = 5`)

For `X1`, `X2` homogeneous of the same grade with `X1² = X2² = γ`, `γ² = 1`: `C = 1 + γ X2 X1`, `~C = 1 + γ X1 X2`,
`σ = C ~C = 2 + γ (M + ~M)` with `M = X1 X2`.  `M` is even and `M + ~M` keeps only the grades whose reversion sign is `+1`, so in five
dimensions `σ` lives in grades 0 and 4; the grade-4 part is a pseudovector and squares to a scalar (`Proofs/Pseudo.lean`).  These are
exactly the hypotheses `hσ`, `hq` of the polar-decomposition theorems (`Proofs/Polar.lean`). -/

variable {R : Type} [CommRing R] (n : Nat) (sig : Nat → R)

theorem rev_hom (g : Nat) (B : CMV n R) (hB : IsHom n g B) : rev n B = (revSign g : R) • B := by
  funext c; simp only [rev, Pi.smul_apply, smul_eq_mul_R]
  by_cases h : pc n c.val = g
  · rw [h]
  · rw [hB c h]; simp

theorem revSign_sq (g : Nat) : (revSign g : R) * revSign g = 1 := by unfold revSign; exact sgn_mul_self _

section
variable {n} {sig}

/-- the product of two homogeneous elements of the same grade is even (coefficients on odd grades vanish), when `r + r = 0 → r = 0` -/
theorem same_grade_product_even (h2 : ∀ r : R, r + r = 0 → r = 0) (g : Nat) (X1 X2 : CMV n R) (h1 : IsHom n g X1) (hX2 : IsHom n g X2)
    (c : Bm n) (hc : pc n c.val % 2 = 1) : gmul n sig X1 X2 c = 0 := by
  have hgi : gi n (gmul n sig X1 X2) = gmul n sig X1 X2 := by
    rw [gi_gmul, gi_hom n g X1 h1, gi_hom n g X2 hX2]
    funext d
    have : gmul n sig ((sgn g : R) • X1) ((sgn g : R) • X2) = ((sgn g : R) * sgn g) • gmul n sig X1 X2 := by
      funext e; simp only [gmul, Pi.smul_apply, smul_eq_mul_R, Finset.mul_sum]
      refine Finset.sum_congr rfl (fun a _ => ?_); ring
    rw [this, sgn_mul_self, one_smul]
  have hcc := congrFun hgi c
  simp only [gi] at hcc
  have hs : (sgn (pc n c.val) : R) = -1 := sgn_odd (by omega)
  rw [hs] at hcc
  apply h2
  linear_combination -hcc

/-- `~(X1 X2) = X2 X1` for homogeneous elements of the same grade -/
theorem rev_same_grade_product (g : Nat) (X1 X2 : CMV n R) (h1 : IsHom n g X1) (hX2 : IsHom n g X2) :
    rev n (gmul n sig X1 X2) = gmul n sig X2 X1 := by
  rw [rev_gmul, rev_hom n g X1 h1, rev_hom n g X2 hX2]
  funext e; simp only [gmul, Pi.smul_apply, smul_eq_mul_R, Finset.mul_sum]
  refine Finset.sum_congr rfl (fun a _ => ?_)
  have := revSign_sq (R := R) g
  linear_combination (s sig n a.val (fxor a e).val * X2 a * X1 (fxor a e)) * this

end

section Five
variable {sig} 

/-- in five dimensions `M + ~M` of an even `M` is supported on grades 0 and 4 -/
theorem sym_support (h2 : ∀ r : R, r + r = 0 → r = 0) (g : Nat) (X1 X2 : CMV 5 R) (h1 : IsHom 5 g X1) (hX2 : IsHom 5 g X2)
    (c : Bm 5) (hc0 : pc 5 c.val ≠ 0) (hc4 : pc 5 c.val ≠ 4) : gmul 5 sig X1 X2 c + gmul 5 sig X2 X1 c = 0 := by
  have hr := rev_same_grade_product (sig := sig) g X1 X2 h1 hX2
  have hrc : gmul 5 sig X2 X1 c = (revSign (pc 5 c.val) : R) * gmul 5 sig X1 X2 c := by
    rw [← hr]; rfl
  rw [hrc]
  have hle : pc 5 c.val ≤ 5 := by
    have := pc_add_le 5 c.val c.val
    rw [Nat.and_self] at this; omega
  by_cases hodd : pc 5 c.val % 2 = 1
  · rw [same_grade_product_even (sig := sig) h2 g X1 X2 h1 hX2 c hodd]; simp
  · have h2c : pc 5 c.val = 2 := by omega
    rw [h2c]
    have : (revSign 2 : R) = -1 := by simp [revSign, tri, sgn]
    rw [this]; ring

/-- **`σ = s + q`**: `σ = (1 + γ X2 X1)(1 + γ X1 X2)` is its scalar part plus its grade-4 part, and the grade-4 part squares to a scalar -/
theorem sigma_form (h2 : ∀ r : R, r + r = 0 → r = 0) (g : Nat) (γ : R) (hγ : γ * γ = 1) (X1 X2 : Cl 5 sig) (h1 : IsHom 5 g X1) (hX2 : IsHom 5 g X2)
    (hs1 : X1 * X1 = γ • (1 : Cl 5 sig)) (hs2 : X2 * X2 = γ • (1 : Cl 5 sig)) :
    let σ : Cl 5 sig := (1 + γ • (X2 * X1)) * (1 + γ • (X1 * X2))
    let q : Cl 5 sig := asCl (gpart 5 4 σ)
    σ = (σ fzero) • (1 : Cl 5 sig) + q ∧ IsHom 5 4 q ∧ q * q = ((q * q) fzero) • (1 : Cl 5 sig) := by
  intro σ q
  have hσ : σ = (2 : R) • (1 : Cl 5 sig) + γ • (X1 * X2 + X2 * X1) := by
    have hmm : (X2 * X1) * (X1 * X2) = (γ * γ) • (1 : Cl 5 sig) := by
      calc (X2 * X1) * (X1 * X2) = X2 * (X1 * X1) * X2 := by noncomm_ring
        _ = (γ * γ) • (1 : Cl 5 sig) := by rw [hs1, mul_smul_comm, mul_one, smul_mul_assoc, hs2, smul_smul]
    show (1 + γ • (X2 * X1)) * (1 + γ • (X1 * X2)) = _
    have : (1 + γ • (X2 * X1)) * (1 + γ • (X1 * X2))
        = 1 + γ • (X1 * X2) + γ • (X2 * X1) + (γ * γ) • ((X2 * X1) * (X1 * X2)) := by
      simp only [mul_add, add_mul, mul_one, one_mul, smul_mul_assoc, mul_smul_comm, smul_add, smul_smul]; abel
    rw [this, hmm, hγ, one_smul, one_smul, two_smul, smul_add]; abel
  have hsupp : ∀ c : Bm 5, pc 5 c.val ≠ 0 → pc 5 c.val ≠ 4 → σ c = 0 := by
    intro c hc0 hc4
    rw [hσ]
    have h1c : ((2 : R) • (1 : Cl 5 sig)) c = 0 := by
      show (2 : R) * (one 5 : CMV 5 R) c = 0
      have : c ≠ fzero := by
        intro h; apply hc0; rw [h]; simp [pc, fzero, bit]
      simp [one, this]
    have h2c : (X1 * X2 + X2 * X1) c = 0 := sym_support (sig := sig) h2 g X1 X2 h1 hX2 c hc0 hc4
    show ((2 : R) • (1 : Cl 5 sig)) c + γ * (X1 * X2 + X2 * X1) c = 0
    rw [h1c, h2c]; ring
  refine ⟨?_, gpart_hom 5 4 σ, ?_⟩
  · funext c
    show σ c = (σ fzero) * (one 5 : CMV 5 R) c + gpart 5 4 σ c
    by_cases hc : c = fzero
    · subst hc
      have : pc 5 (fzero : Bm 5).val ≠ 4 := by simp [pc, fzero, bit]
      simp [one, gpart, this]
    · by_cases h4 : pc 5 c.val = 4
      · simp [one, hc, gpart, h4]
      · have h0 : pc 5 c.val ≠ 0 := by
          intro h; apply hc; ext; exact DetW.pc_eq_zero c.val c.isLt h
        rw [hsupp c h0 h4]; simp [one, hc, gpart, h4]
  · exact pseudovector_sq 5 sig (gpart 5 4 σ) (gpart_hom 5 4 σ)

end Five
