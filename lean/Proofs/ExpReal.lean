import Mathlib.Analysis.Complex.Exponential
import Mathlib.Analysis.Complex.ExponentialBounds
import Mathlib.Tactic.NormNum
import Mathlib.Tactic.Positivity
import Mathlib.Tactic.Linarith
open Finset

/-! C16, scalar clause: the coded `exp` on a real scalar `c` — scale by `2^j` so that `|c/2^j| ≤ 1`, `N`-term series, `j` squarings —
against the real exponential. -/
namespace ExpReal

/-- `|(1+u)^m − 1| ≤ (1+|u|)^m − 1` -/
theorem abs_one_add_pow_sub_one (u : ℝ) (m : ℕ) : |(1 + u) ^ m - 1| ≤ (1 + |u|) ^ m - 1 := by
  induction m with
  | zero => simp
  | succ m ih =>
    have h1 : (1 + u) ^ (m + 1) - 1 = ((1 + u) ^ m - 1) * (1 + u) + u := by ring
    have h2 : (1 + |u|) ^ (m + 1) - 1 = ((1 + |u|) ^ m - 1) * (1 + |u|) + |u| := by ring
    rw [h1, h2]
    have hpos : 0 ≤ (1 + |u|) ^ m - 1 := le_trans (abs_nonneg _) ih
    calc |((1 + u) ^ m - 1) * (1 + u) + u| ≤ |((1 + u) ^ m - 1) * (1 + u)| + |u| := abs_add_le _ _
      _ = |(1 + u) ^ m - 1| * |1 + u| + |u| := by rw [abs_mul]
      _ ≤ ((1 + |u|) ^ m - 1) * (1 + |u|) + |u| := by
        have : |1 + u| ≤ 1 + |u| := by
          calc |1 + u| ≤ |(1 : ℝ)| + |u| := abs_add_le _ _
            _ = 1 + |u| := by simp
        have := mul_le_mul ih this (abs_nonneg _) hpos
        linarith

/-- the `N`-term series -/
noncomputable def series (N : ℕ) (y : ℝ) : ℝ := ∑ k ∈ range N, y ^ k / (k.factorial : ℝ)

/-- **scaling and squaring on a real scalar**: with `y = c / 2^j`, `|y| ≤ 1`, `N ≥ 1` and `β = |y|^N (N+1)/(N!·N)` (Mathlib's remainder bound),
    `|series_N(y)^(2^j) − exp c| ≤ exp c · ((1 + β·e^{|y|})^(2^j) − 1)` -/
theorem scaled_squared (c : ℝ) (j N : ℕ) (hN : 0 < N) (hy : |c / 2 ^ j| ≤ 1) :
    |series N (c / 2 ^ j) ^ (2 ^ j) - Real.exp c|
      ≤ Real.exp c * ((1 + |c / 2 ^ j| ^ N * ((N.succ : ℝ) / ((N.factorial : ℝ) * N)) * Real.exp |c / 2 ^ j|) ^ (2 ^ j) - 1) := by
  set y := c / 2 ^ j with hy_def
  set β := |y| ^ N * ((N.succ : ℝ) / ((N.factorial : ℝ) * N)) with hβ
  have hb : |Real.exp y - series N y| ≤ β := Real.exp_bound hy hN
  have hexp_pos : 0 < Real.exp y := Real.exp_pos y
  -- series = exp y * (1 + u), |u| ≤ β e^{|y|}
  set u := (series N y - Real.exp y) / Real.exp y with hu
  have hser : series N y = Real.exp y * (1 + u) := by
    rw [hu]; field_simp; ring
  have hβ0 : 0 ≤ β := le_trans (abs_nonneg _) hb
  have hu_le : |u| ≤ β * Real.exp |y| := by
    rw [hu, abs_div, abs_of_pos hexp_pos, div_le_iff₀ hexp_pos]
    have h1 : |series N y - Real.exp y| ≤ β := by rw [abs_sub_comm]; exact hb
    have h2 : (1 : ℝ) ≤ Real.exp |y| * Real.exp y := by
      rw [← Real.exp_add]
      have : 0 ≤ |y| + y := by
        have := neg_abs_le y; linarith
      calc (1 : ℝ) = Real.exp 0 := (Real.exp_zero).symm
        _ ≤ Real.exp (|y| + y) := Real.exp_le_exp.mpr this
    calc |series N y - Real.exp y| ≤ β := h1
      _ = β * 1 := (mul_one β).symm
      _ ≤ β * (Real.exp |y| * Real.exp y) := mul_le_mul_of_nonneg_left h2 hβ0
      _ = β * Real.exp |y| * Real.exp y := by ring
  have hc : Real.exp c = Real.exp y ^ (2 ^ j) := by
    rw [← Real.exp_nat_mul]
    congr 1
    rw [hy_def]; push_cast; field_simp
  rw [hser, mul_pow, ← hc]
  have : Real.exp c * (1 + u) ^ (2 ^ j) - Real.exp c = Real.exp c * ((1 + u) ^ (2 ^ j) - 1) := by ring
  rw [this, abs_mul, abs_of_pos (Real.exp_pos c)]
  apply mul_le_mul_of_nonneg_left _ (Real.exp_pos c).le
  calc |(1 + u) ^ (2 ^ j) - 1| ≤ (1 + |u|) ^ (2 ^ j) - 1 := abs_one_add_pow_sub_one u _
    _ ≤ (1 + β * Real.exp |y|) ^ (2 ^ j) - 1 := by
      apply sub_le_sub_right
      apply pow_le_pow_left₀ (by positivity)
      linarith

/-- `(1+δ)^m ≤ 1/(1 − mδ)` for `0 ≤ δ`, `mδ < 1` -/
theorem one_add_pow_le (δ : ℝ) (m : ℕ) (h0 : 0 ≤ δ) (h1 : (m : ℝ) * δ < 1) : (1 + δ) ^ m ≤ 1 / (1 - m * δ) := by
  have hδ1 : δ < 1 ∨ m = 0 := by
    rcases Nat.eq_zero_or_pos m with hm | hm
    · right; exact hm
    · left
      have : (1 : ℝ) ≤ m := by exact_mod_cast hm
      nlinarith
  rcases hδ1 with hδ1 | hm
  · have hb : 1 - (m : ℝ) * δ ≤ (1 - δ) ^ m := by
      have := one_add_mul_le_pow (show (-2 : ℝ) ≤ -δ by linarith) m
      simpa [sub_eq_add_neg, mul_neg] using this
    have hpos : 0 < 1 - (m : ℝ) * δ := by linarith
    have h2 : (1 + δ) ^ m * (1 - δ) ^ m ≤ 1 := by
      rw [← mul_pow]
      have : (1 + δ) * (1 - δ) ≤ 1 := by nlinarith
      have hnn : 0 ≤ (1 + δ) * (1 - δ) := by
        apply mul_nonneg <;> linarith
      exact pow_le_one₀ hnn this
    rw [le_div_iff₀ hpos]
    have hp : 0 ≤ (1 + δ) ^ m := by positivity
    calc (1 + δ) ^ m * (1 - m * δ) ≤ (1 + δ) ^ m * (1 - δ) ^ m := mul_le_mul_of_nonneg_left hb hp
      _ ≤ 1 := h2
  · subst hm; simp

/-- **the coded scalar exponential is within the property's tolerance**: 15 terms (`max_order = 15`), scaling by `2^j` with `|c|/2^j ≤ 1`,
    `j ≤ 18` squarings (so `|c| ≤ 262144`): relative error at most `10⁻⁶` (binary64 rounding is on top of this and evaluated) -/
theorem exp_scalar_within_tolerance (c : ℝ) (j : ℕ) (hj : j ≤ 18) (hy : |c / 2 ^ j| ≤ 1) :
    |series 15 (c / 2 ^ j) ^ (2 ^ j) - Real.exp c| ≤ (1 / 1000000) * Real.exp c := by
  have h := scaled_squared c j 15 (by norm_num) hy
  set y := c / 2 ^ j with hy_def
  set δ := |y| ^ 15 * (((15 : ℕ).succ : ℝ) / (((15 : ℕ).factorial : ℝ) * (15 : ℕ))) * Real.exp |y| with hδ
  have hfac : ((15 : ℕ).factorial : ℝ) = 1307674368000 := by norm_num [Nat.factorial]
  have hy0 : 0 ≤ |y| := abs_nonneg y
  have hpow : |y| ^ 15 ≤ 1 := pow_le_one₀ hy0 hy
  have hexp : Real.exp |y| ≤ 2.7182818286 := by
    calc Real.exp |y| ≤ Real.exp 1 := Real.exp_le_exp.mpr hy
      _ ≤ 2.7182818286 := Real.exp_one_lt_d9.le
  have hδ0 : 0 ≤ δ := by rw [hδ]; positivity
  have hδle : δ ≤ 2.2174e-12 := by
    rw [hδ, hfac]
    have h1 : |y| ^ 15 * (((15 : ℕ).succ : ℝ) / (1307674368000 * ((15 : ℕ) : ℝ))) ≤ 1 * (((15 : ℕ).succ : ℝ) / (1307674368000 * ((15 : ℕ) : ℝ))) := by
      apply mul_le_mul_of_nonneg_right hpow; positivity
    have h2 : |y| ^ 15 * (((15 : ℕ).succ : ℝ) / (1307674368000 * ((15 : ℕ) : ℝ))) * Real.exp |y|
        ≤ (1 * (((15 : ℕ).succ : ℝ) / (1307674368000 * ((15 : ℕ) : ℝ)))) * 2.7182818286 := by
      apply mul_le_mul h1 hexp (Real.exp_pos _).le; positivity
    refine le_trans h2 ?_
    norm_num
  have hm : ((2 ^ j : ℕ) : ℝ) ≤ 262144 := by
    have : 2 ^ j ≤ 2 ^ 18 := Nat.pow_le_pow_right (by norm_num) hj
    exact_mod_cast this
  have hmδ : ((2 ^ j : ℕ) : ℝ) * δ ≤ 5.813e-7 := by
    calc ((2 ^ j : ℕ) : ℝ) * δ ≤ 262144 * 2.2174e-12 := mul_le_mul hm hδle hδ0 (by norm_num)
      _ ≤ 5.813e-7 := by norm_num
  have hlt : ((2 ^ j : ℕ) : ℝ) * δ < 1 := lt_of_le_of_lt hmδ (by norm_num)
  have hb := one_add_pow_le δ (2 ^ j) hδ0 hlt
  have hrel : (1 + δ) ^ (2 ^ j) - 1 ≤ 1 / 1000000 := by
    have hpos : 0 < 1 - ((2 ^ j : ℕ) : ℝ) * δ := by linarith
    have : 1 / (1 - ((2 ^ j : ℕ) : ℝ) * δ) ≤ 1 + 1 / 1000000 := by
      rw [div_le_iff₀ hpos]
      nlinarith
    linarith
  calc |series 15 y ^ (2 ^ j) - Real.exp c| ≤ Real.exp c * ((1 + δ) ^ (2 ^ j) - 1) := h
    _ ≤ Real.exp c * (1 / 1000000) := mul_le_mul_of_nonneg_left hrel (Real.exp_pos c).le
    _ = (1 / 1000000) * Real.exp c := mul_comm _ _

end ExpReal
