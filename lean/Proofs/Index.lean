import Proofs.Perm
import Proofs.Compl
import Proofs.Ring
import Model.Table
open Finset Model

/-! C07: tuple indexing sign, grade projection laws, metric matrix -/

/-- `canonical_reordering_sign_euclidean` is `(-1)^swaps` -/
theorem signE_eq (a b : Nat) : signE a b = (-1 : Int) ^ reorderSwaps a b := by
  unfold signE
  rw [neg_one_pow_eq_pow_mod_two]
  have h : reorderSwaps a b &&& 1 = reorderSwaps a b % 2 := Nat.and_one_is_mod _
  rw [h]
  rcases Nat.mod_two_eq_zero_or_one (reorderSwaps a b) with h0 | h0 <;> simp [h0]

/-- the executable loop (`Model.tupleLoop`, carrying the sign as the code does) against the
swap-counting loop of `Proofs/Perm.lean` -/
theorem model_tupleLoop_eq : ∀ (ps : List Nat) (sw out : Nat),
    Model.tupleLoop ps ((-1 : Int) ^ sw) out = (_root_.tupleLoop out sw ps).map (fun r => ((-1 : Int) ^ r.1, r.2)) := by
  intro ps
  induction ps with
  | nil => intro sw out; simp [Model.tupleLoop, _root_.tupleLoop]
  | cons p ps ih =>
    intro sw out
    simp only [Model.tupleLoop, _root_.tupleLoop, Nat.one_shiftLeft]
    by_cases h : 2 ^ p &&& out = 0
    · simp only [h, ne_eq, not_true_eq_false, if_false]
      rw [signE_eq, ← pow_add, ih, Nat.xor_comm]
    · simp [h]

/-- a duplicate-free tuple of known id positions: the sign is the parity of the inversion count
(the sign of the sorting permutation) and the bitmap is the union -/
theorem tuple_sign_spec (n : Nat) (ps : List Nat) (hp : ∀ p ∈ ps, p < n) (hnd : ps.Nodup) :
    ∃ out, Model.tupleLoop ps 1 0 = some ((-1 : Int) ^ invCount ∅ ps, out) ∧ IsBitmapOf out ps.toFinset := by
  obtain ⟨out, he, hb⟩ := tupleLoop_spec n ps 0 0 ∅ (by intro i; simp) (by simp) hp (by simp) hnd
  refine ⟨out, ?_, by simpa using hb⟩
  have := model_tupleLoop_eq ps 0 0
  simp only [pow_zero] at this
  rw [this, he]; simp

/-- a repeated id takes the `ValueError` branch -/
theorem tupleLoop_dup : ∀ (ps : List Nat) (out sw : Nat) (seen : Finset Nat),
    IsBitmapOf out seen → (¬ ps.Nodup ∨ ∃ p ∈ ps, p ∈ seen) → _root_.tupleLoop out sw ps = none := by
  intro ps
  induction ps with
  | nil => intro out sw seen _ h; rcases h with h | ⟨p, hp, _⟩ <;> simp at *
  | cons p ps ih =>
    intro out sw seen hb h
    simp only [_root_.tupleLoop]
    by_cases hps : p ∈ seen
    · have : 2 ^ p &&& out ≠ 0 := by
        intro h0
        have := congrArg (fun x => x.testBit p) h0
        simp only [Nat.testBit_and, Nat.testBit_two_pow_self, Bool.true_and, Nat.zero_testBit] at this
        rw [(hb p).mpr hps] at this; exact absurd this (by decide)
      rw [if_pos this]
    · by_cases hand : 2 ^ p &&& out ≠ 0
      · rw [if_pos hand]
      · rw [if_neg hand]
        have hb' : IsBitmapOf (out ^^^ 2 ^ p) (insert p seen) := by
          intro i
          simp only [Nat.testBit_xor, Nat.testBit_two_pow, mem_insert]
          by_cases hi : p = i
          · subst hi
            have : out.testBit p = false := by
              cases hbb : out.testBit p
              · rfl
              · exact absurd ((hb p).mp hbb) hps
            simp [this]
          · have : (decide (p = i)) = false := by simp [hi]
            rw [this, Bool.xor_false]
            constructor
            · intro hbb; right; exact (hb i).mp hbb
            · rintro (rfl | hm)
              · exact absurd rfl hi
              · exact (hb i).mpr hm
        apply ih _ _ (insert p seen) hb'
        rcases h with h | ⟨q, hq, hqs⟩
        · rw [List.nodup_cons] at h
          by_cases hmem : p ∈ ps
          · right; exact ⟨p, hmem, mem_insert_self p seen⟩
          · left; intro hnd; exact h ⟨hmem, hnd⟩
        · rcases List.mem_cons.mp hq with rfl | hq'
          · exact absurd hqs hps
          · right; exact ⟨q, hq', mem_insert_of_mem hqs⟩

theorem tuple_dup_error (ps : List Nat) (h : ¬ ps.Nodup) : Model.tupleLoop ps 1 0 = none := by
  have := model_tupleLoop_eq ps 0 0
  simp only [pow_zero] at this
  rw [this, tupleLoop_dup ps 0 0 ∅ (by intro i; simp) (Or.inl h)]; rfl

/-! ### grade projection -/

variable {R : Type} [CommRing R] (n : Nat)

theorem gpart_gpart (g h : Nat) (A : CMV n R) : gpart n g (gpart n h A) = if g = h then gpart n g A else 0 := by
  funext c
  by_cases hgh : g = h
  · subst hgh; simp only [gpart, if_true]; split <;> rfl
  · simp only [gpart, if_neg hgh, Pi.zero_apply]
    by_cases h1 : pc n c.val = g
    · rw [if_pos h1, if_neg (by omega)]
    · rw [if_neg h1]

theorem gpart_zero_of_gt (g : Nat) (hg : n < g) (A : CMV n R) : gpart n g A = 0 := by
  funext c
  have := pc_le n c
  simp only [gpart, Pi.zero_apply]
  rw [if_neg (by omega)]

/-- the projections over all grades sum to `M` -/
theorem sum_gpart (A : CMV n R) : ∑ g ∈ range (n + 1), gpart n g A = A := by
  funext c
  rw [Finset.sum_apply]
  simp only [gpart]
  rw [Finset.sum_eq_single (pc n c.val)]
  · simp
  · intro g _ hg; rw [if_neg (Ne.symm hg)]
  · intro h; exact absurd (mem_range.mpr (Nat.lt_succ_of_le (pc_le n c))) h

theorem gpart_add (g : Nat) (A B : CMV n R) : gpart n g (A + B) = gpart n g A + gpart n g B := by
  funext c; simp only [gpart, Pi.add_apply]; split <;> simp

/-- `M(g)` keeps exactly the grade-`g` coefficients -/
theorem gpart_apply (g : Nat) (A : CMV n R) (c : Bm n) :
    gpart n g A c = if pc n c.val = g then A c else 0 := rfl

/-! ### metric -/

theorem pc_two_pow (i : Nat) (hi : i < n) : pc n (2^i) = 1 := by
  unfold pc
  rw [Finset.sum_eq_single i]
  · simp [bit, Nat.testBit_two_pow]
  · intro j _ hj; simp [bit, Nat.testBit_two_pow, Ne.symm hj]
  · intro h; exact absurd (mem_range.mpr hi) h

theorem blade_hom (a : Bm n) : IsHom n (pc n a.val) (blade n a : CMV n R) := by
  intro c hc
  simp only [blade]
  rw [if_neg]; intro h; subst h; exact hc rfl

/-- `metric[i, j] = (e_i | e_j)[()] = sig i` on the diagonal, `0` off it -/
theorem metric_entry (sig : Nat → R) (i j : Nat) (hi : i < n) (hj : j < n) :
    mmul n sig imtCheck (Cl.e i hi : Cl n sig) (Cl.e j hj : Cl n sig) fzero = if i = j then sig i else 0 := by
  have hA : IsHom n 1 (Cl.e i hi : Cl n sig) := by
    have := blade_hom (R := R) n ⟨2^i, Nat.pow_lt_pow_right (by decide) hi⟩
    rwa [pc_two_pow n i hi] at this
  have hB : IsHom n 1 (Cl.e j hj : Cl n sig) := by
    have := blade_hom (R := R) n ⟨2^j, Nat.pow_lt_pow_right (by decide) hj⟩
    rwa [pc_two_pow n j hj] at this
  rw [mmul_hom n sig imtCheck 1 1 0 (fun v => by rw [imtCheck_iff v 1 1 (by decide) (by decide)]; simp) _ _ hA hB]
  have hz : pc n (fzero : Bm n).val = 0 := by
    unfold pc; apply Finset.sum_eq_zero; intro k _; simp [bit, fzero]
  simp only [gpart, hz, if_true]
  unfold Cl.e
  rw [gmul_blade_blade]
  by_cases hij : i = j
  · subst hij
    simp only [fxor_self, if_true]
    exact s_gen_sq n sig i hi
  · rw [if_neg hij]
    show (if (fzero : Bm n) = fxor _ _ then _ else _) = _
    rw [if_neg]
    intro h
    have := congrArg Fin.val h
    simp only [fxor_val, fzero] at this
    have h2 : (2^i ^^^ 2^j).testBit i = true := by
      simp [Nat.testBit_xor, Nat.testBit_two_pow, hij, Ne.symm hij]
    rw [← this] at h2; simp at h2
