import Model.Kernel
import Mathlib.Algebra.BigOperators.Group.List.Basic
import Mathlib.Algebra.Ring.Defs
import Mathlib.Tactic.Ring

/-! C03: the *executable* kernels of `Model/Kernel.lean` (arrays, `modify`) equal the table contraction. -/
namespace KernelArr
open Model

variable {R : Type} [CommRing R]

theorem getD_modify (xs : Array R) (i j : Nat) (f : R → R) (hj : j < xs.size) :
    (xs.modify i f).getD j 0 = if i = j then f (xs.getD j 0) else xs.getD j 0 := by
  simp only [Array.getD_eq_getD_getElem?, Array.getElem?_modify]
  by_cases h : i = j
  · subst h; simp [hj]
  · simp [h]

theorem foldl_modify_getD (es : List Entry) (a b : Array R) :
    ∀ (init : Array R) (j : Nat), j < init.size →
    (es.foldl (fun out e => out.modify e.l (· + a.getD e.k 0 * (e.v : R) * b.getD e.m 0)) init).getD j 0
      = init.getD j 0 + (es.map fun e => if e.l = j then a.getD e.k 0 * (e.v : R) * b.getD e.m 0 else 0).sum := by
  induction es with
  | nil => intro init j _; simp
  | cons e es ih =>
    intro init j hj
    simp only [List.foldl_cons, List.map_cons, List.sum_cons]
    rw [ih _ j (by simpa using hj), getD_modify _ _ _ _ hj]
    by_cases h : e.l = j
    · simp only [h, if_true]; ring
    · simp only [h, if_false]; ring

theorem size_foldl_modify (es : List Entry) (g : Entry → R → R) :
    ∀ (init : Array R), (es.foldl (fun out e => out.modify e.l (g e)) init).size = init.size := by
  induction es with
  | nil => intro init; rfl
  | cons e es ih => intro init; simp only [List.foldl_cons]; rw [ih]; simp

/-- the dense kernel (`_get_mult_function`) computes the table contraction, for any entry list -/
theorem multDense_eq_contraction (dims : Nat) (es : List Entry) (a b : Array R) (j : Nat) (hj : j < dims) :
    (multDense dims es a b).getD j 0 = contraction es a b j := by
  unfold multDense contraction
  rw [foldl_modify_getD es a b _ j (by simpa using hj)]
  have : (Array.replicate dims (0 : R)).getD j 0 = 0 := by
    simp only [Array.getD_eq_getD_getElem?, Array.getElem?_replicate]; split <;> rfl
  rw [this, zero_add]

theorem size_multDense (dims : Nat) (es : List Entry) (a b : Array R) : (multDense dims es a b).size = dims := by
  unfold multDense
  rw [size_foldl_modify es (fun e => (· + a.getD e.k 0 * (e.v : R) * b.getD e.m 0))]; simp

theorem contraction_filter_nz [DecidableEq R] (es : List Entry) (a b : Array R) (j : Nat) :
    contraction (es.filter (nzMask a b)) a b j = contraction es a b j := by
  unfold contraction
  induction es with
  | nil => simp
  | cons e es ih =>
    by_cases h : nzMask a b e = true
    · rw [List.filter_cons_of_pos h]; simp only [List.map_cons, List.sum_cons, ih]
    · rw [List.filter_cons_of_neg h]
      have hz : a.getD e.k 0 * (e.v : R) * b.getD e.m 0 = 0 := by
        by_cases ha : a.getD e.k 0 = 0
        · simp [ha]
        · have hb : b.getD e.m 0 = 0 := by
            by_contra hb; apply h
            show (decide (a.getD e.k 0 ≠ 0) && decide (b.getD e.m 0 ≠ 0)) = true
            rw [Bool.and_eq_true]; exact ⟨decide_eq_true ha, decide_eq_true hb⟩
          simp [hb]
      simp only [List.map_cons, List.sum_cons, ih, hz]; simp

/-- the runtime-sparse kernel (zero skipping) computes the same contraction -/
theorem multSparse_eq_contraction [DecidableEq R] (dims : Nat) (es : List Entry) (a b : Array R) (j : Nat) (hj : j < dims) :
    (multSparse dims es a b).getD j 0 = contraction es a b j := by
  unfold multSparse
  rw [multDense_eq_contraction dims _ a b j hj, contraction_filter_nz]

/-- entry order does not matter -/
theorem contraction_perm {es es' : List Entry} (h : es.Perm es') (a b : Array R) (j : Nat) :
    contraction es a b j = contraction es' a b j := by
  unfold contraction
  exact (h.map _).sum_eq

/-- projection of an operand onto a list of grades (what the grade filter amounts to) -/
def projGrades (grade : Nat → Nat) (gs : List Nat) (a : Array R) : Array R :=
  (Array.range a.size).map fun i => if gs.contains (grade i) then a.getD i 0 else 0

theorem getD_projGrades (grade : Nat → Nat) (gs : List Nat) (a : Array R) (i : Nat) :
    (projGrades grade gs a).getD i 0 = if gs.contains (grade i) then a.getD i 0 else 0 := by
  unfold projGrades
  by_cases hi : i < a.size
  · simp [Array.getD_eq_getD_getElem?, hi]
  · have : a.getD i 0 = 0 := by simp [Array.getD_eq_getD_getElem?, hi]
    simp [Array.getD_eq_getD_getElem?, hi, this]

/-- the grade-restricted kernel is the contraction with both operands projected onto the admitted grades -/
theorem contraction_gradeFilter (grade : Nat → Nat) (ga gb : List Nat) (es : List Entry) (a b : Array R) (j : Nat) :
    contraction (gradeFilter grade ga gb es) a b j
      = contraction es (projGrades grade ga a) (projGrades grade gb b) j := by
  unfold contraction gradeFilter
  induction es with
  | nil => simp
  | cons e es ih =>
    simp only [List.map_cons, List.sum_cons, getD_projGrades]
    by_cases h : (ga.contains (grade e.k) && gb.contains (grade e.m)) = true
    · simp only [List.filter_cons]
      rw [if_pos h]
      simp only [List.map_cons, List.sum_cons, ih, getD_projGrades]
      simp only [Bool.and_eq_true] at h
      rw [if_pos h.1, if_pos h.2]
    · simp only [List.filter_cons]
      rw [if_neg h, ih]
      simp only [getD_projGrades]
      have : (if ga.contains (grade e.k) = true then a.getD e.k 0 else 0) * (e.v : R)
            * (if gb.contains (grade e.m) = true then b.getD e.m 0 else 0) = 0 := by
        simp only [Bool.and_eq_true, not_and] at h
        by_cases h1 : ga.contains (grade e.k) = true
        · rw [if_neg (h h1)]; simp
        · rw [if_neg h1]; simp
      rw [this]; simp

/-- `get_mult_function`: whatever branch it takes, the result is the contraction of the (filtered) table -/
theorem getMultFunction_spec [DecidableEq R] (dims : Nat) (grade : Nat → Nat) (es : List Entry)
    (ga gb : Option (List Nat)) (a b : Array R) (j : Nat) (hj : j < dims) :
    (getMultFunction dims grade es ga gb a b).getD j 0 =
      match ga, gb with
      | some ga, some gb => contraction es (projGrades grade ga a) (projGrades grade gb b) j
      | _, _ => contraction es a b j := by
  unfold getMultFunction
  cases ga with
  | none => simp [multSparse_eq_contraction dims es a b j hj]
  | some ga =>
    cases gb with
    | none => simp [multSparse_eq_contraction dims es a b j hj]
    | some gb => simp [multDense_eq_contraction dims _ a b j hj, contraction_gradeFilter]

end KernelArr
