import Proofs.SeriesP
import Mathlib.Tactic.NoncommRing
import Mathlib.Tactic.LinearCombination
import Mathlib.Tactic.FieldSimp
import Mathlib.Tactic.Positivity
set_option linter.unusedSectionVars false
open Finset SeriesP

/-! C12 / C13: the closed form of `val_exp` / `ga_exp` (rotation–translation bivectors of g3c) against the series exponential.

Abstractly, in any ℚ-algebra: `P` (unit bivector of the rotation plane, `P² = −1`), `n` (`ninf`, `n² = 0`), `tn` (the part of the
translation along the rotation axis: commutes with `P`), `tp` (the part in the rotation plane: anticommutes with `P`); vectors
anticommute with `n`, the Euclidean bivector `P` commutes with it.  The bivector is `B = φ P + (tn + tp) n`. -/

namespace GaExp

variable {A : Type} [Ring A] [Algebra ℚ A]

/-- powers of `U + Z` for commuting `U`, `Z` with `Z² = 0` -/
theorem pow_add_nil (U Z : A) (hc : U * Z = Z * U) (hz : Z * Z = 0) (k : Nat) :
    (U + Z) ^ (k + 1) = U ^ (k + 1) + ((k + 1 : ℕ) : ℚ) • (U ^ k * Z) := by
  induction k with
  | zero => simp
  | succ k ih =>
    have hUkZ : ∀ j : Nat, Z * U ^ j = U ^ j * Z := by
      intro j
      induction j with
      | zero => simp
      | succ j ihj => rw [pow_succ, ← mul_assoc, ihj, mul_assoc, ← hc, ← mul_assoc]
    rw [pow_succ (U + Z) (k + 1), ih]
    have e1 : (U ^ (k + 1) + ((k + 1 : ℕ) : ℚ) • (U ^ k * Z)) * (U + Z)
        = U ^ (k + 1) * U + U ^ (k + 1) * Z + ((k + 1 : ℕ) : ℚ) • (U ^ k * (Z * U)) + ((k + 1 : ℕ) : ℚ) • (U ^ k * (Z * Z)) := by
      simp only [add_mul, mul_add, smul_mul_assoc, mul_assoc]
      abel
    rw [e1, hz, mul_zero, smul_zero, add_zero, ← hc, ← mul_assoc, ← pow_succ, ← pow_succ]
    have : (((k + 1 + 1 : ℕ)) : ℚ) = 1 + ((k + 1 : ℕ) : ℚ) := by push_cast; ring
    rw [this, add_smul, one_smul]
    abel

/-- **truncated exponential of `U + Z`** (`U Z = Z U`, `Z² = 0`): `exp_{N+1}(U + Z) = exp_{N+1}(U) + exp_N(U)·Z` -/
theorem expTrunc_add_nil (U Z : A) (hc : U * Z = Z * U) (hz : Z * Z = 0) (N : Nat) :
    expTrunc (N + 1) (U + Z) = expTrunc (N + 1) U + expTrunc N U * Z := by
  unfold expTrunc
  rw [Finset.sum_range_succ' _ N, Finset.sum_range_succ' _ N, Finset.sum_mul]
  simp only [pow_zero, Nat.factorial_zero, Nat.cast_one, div_one, one_smul]
  have : ∀ k ∈ range N, ((1 : ℚ) / ((k + 1).factorial : ℚ)) • (U + Z) ^ (k + 1)
      = ((1 : ℚ) / ((k + 1).factorial : ℚ)) • U ^ (k + 1) + (((1 : ℚ) / (k.factorial : ℚ)) • U ^ k) * Z := by
    intro k _
    rw [pow_add_nil U Z hc hz k, smul_add, smul_smul, smul_mul_assoc]
    congr 2
    rw [Nat.factorial_succ]
    have hk : ((k + 1 : ℕ) : ℚ) ≠ 0 := Nat.cast_ne_zero.mpr (Nat.succ_ne_zero k)
    have hf : ((k.factorial : ℕ) : ℚ) ≠ 0 := Nat.cast_ne_zero.mpr (Nat.factorial_ne_zero k)
    push_cast
    field_simp
  rw [Finset.sum_congr rfl this, Finset.sum_add_distrib]
  abel

/-- the even / odd scalar polynomials of the truncated series (`cos`/`sin·/φ` polynomials at `s = −φ²`) -/
def Cn (N : Nat) (s : ℚ) : ℚ := ∑ k ∈ range N, if k % 2 = 0 then (1 : ℚ) / (k.factorial : ℚ) * s ^ (k / 2) else 0
def Sn (N : Nat) (s : ℚ) : ℚ := ∑ k ∈ range N, if k % 2 = 0 then 0 else (1 : ℚ) / (k.factorial : ℚ) * s ^ (k / 2)

/-- the algebra behind `closed_form_unit`, on atoms -/
theorem unit_abstract (E E' Y Z : A) (σ : ℚ) (hE : E * E' = 1) (hZ : Z * Z = 0) (hY : Y * Y = 0) (hYZ : Y * Z = 0) (hZY : Z * Y = 0)
    (hEY : E * Y = Y * E') : (E * (1 + Z) + σ • Y) * ((1 - Z) * E' - σ • Y) = 1 := by
  have hZ' : ∀ x, Z * (Z * x) = 0 := fun x => by rw [← mul_assoc, hZ, zero_mul]
  have hYZ' : ∀ x, Y * (Z * x) = 0 := fun x => by rw [← mul_assoc, hYZ, zero_mul]
  have e : (E * (1 + Z) + σ • Y) * ((1 - Z) * E' - σ • Y)
      = E * E' - E * (Z * (Z * E')) - σ • (E * Y) - σ • (E * (Z * Y)) + σ • (Y * E') - σ • (Y * (Z * E')) - (σ * σ) • (Y * Y) := by
    simp only [mul_add, add_mul, mul_sub, sub_mul, smul_mul_assoc, mul_smul_comm, mul_one, one_mul, smul_smul, smul_sub, mul_assoc]
    module
  rw [e, hE, hZ', hZY, hYZ', hY, hEY]
  simp

section motor
variable (P n tn tp : A) (φ : ℚ)
  (hP : P * P = -1) (hn : n * n = 0) (hPn : P * n = n * P)
  (htn : tn * n = -(n * tn)) (htp : tp * n = -(n * tp))
  (hPtn : P * tn = tn * P) (hPtp : P * tp = -(tp * P))
include hP hn hPn htn htp hPtn hPtp

theorem Y_sq : (tp * n) * (tp * n) = 0 := by
  have : (tp * n) * (tp * n) = tp * (n * tp) * n := by noncomm_ring
  rw [this, show n * tp = -(tp * n) by rw [htp]; simp, mul_neg, neg_mul, mul_assoc tp (tp * n) n, mul_assoc tp n n, hn]; simp

theorem Z_sq : (tn * n) * (tn * n) = 0 := by
  have : (tn * n) * (tn * n) = tn * (n * tn) * n := by noncomm_ring
  rw [this, show n * tn = -(tn * n) by rw [htn]; simp, mul_neg, neg_mul, mul_assoc tn (tn * n) n, mul_assoc tn n n, hn]; simp

theorem Y_Z : (tp * n) * (tn * n) = 0 := by
  have : (tp * n) * (tn * n) = tp * (n * tn) * n := by noncomm_ring
  rw [this, show n * tn = -(tn * n) by rw [htn]; simp, mul_neg, neg_mul, mul_assoc tp (tn * n) n, mul_assoc tn n n, hn]; simp

theorem Z_Y : (tn * n) * (tp * n) = 0 := by
  have : (tn * n) * (tp * n) = tn * (n * tp) * n := by noncomm_ring
  rw [this, show n * tp = -(tp * n) by rw [htp]; simp, mul_neg, neg_mul, mul_assoc tn (tp * n) n, mul_assoc tp n n, hn]; simp

theorem P_Y : P * (tp * n) = -((tp * n) * P) := by
  rw [← mul_assoc, hPtp, neg_mul, mul_assoc, hPn, ← mul_assoc]

theorem P_Z : P * (tn * n) = (tn * n) * P := by
  rw [← mul_assoc, hPtn, mul_assoc, hPn, ← mul_assoc]

/-- `U = φ P + tp n` squares to the scalar `−φ²` -/
theorem U_sq : (φ • P + tp * n) * (φ • P + tp * n) = (-(φ ^ 2)) • (1 : A) := by
  have hy := Y_sq P n tn tp hP hn hPn htn htp hPtn hPtp
  have hpy := P_Y P n tn tp hP hn hPn htn htp hPtn hPtp
  have : (φ • P + tp * n) * (φ • P + tp * n)
      = (φ * φ) • (P * P) + φ • (P * (tp * n)) + φ • ((tp * n) * P) + (tp * n) * (tp * n) := by
    simp only [add_mul, mul_add, smul_mul_assoc, mul_smul_comm]
    module
  rw [this, hy, hpy, hP]
  module

theorem U_Z : (φ • P + tp * n) * (tn * n) = (tn * n) * (φ • P + tp * n) := by
  rw [add_mul, mul_add, Y_Z P n tn tp hP hn hPn htn htp hPtn hPtp, Z_Y P n tn tp hP hn hPn htn htp hPtn hPtp,
    smul_mul_assoc, mul_smul_comm, P_Z P n tn tp hP hn hPn htn htp hPtn hPtp]

/-- **`ga_exp` / `val_exp` against the series exponential**: for `B = φ P + (tn + tp) n` the `(N+1)`-term series is
    `C + (S φ) P + S·(tp n) + (C' + (S' φ) P)·(tn n)` with `C, S` (`C', S'`) the `N+1` (`N`)-term cosine and `sin(φ)/φ` polynomials —
    term for term the coded closed form `coef + coef·(t_nor ninf) + sinc(φ)·(t_par ninf)`, `coef = cos φ + sin φ·P` -/
theorem series_closed_form (N : Nat) :
    expTrunc (N + 1) (φ • P + (tn + tp) * n)
      = (Cn (N + 1) (-(φ ^ 2))) • (1 : A) + (Sn (N + 1) (-(φ ^ 2)) * φ) • P + (Sn (N + 1) (-(φ ^ 2))) • (tp * n)
        + ((Cn N (-(φ ^ 2))) • (1 : A) + (Sn N (-(φ ^ 2)) * φ) • P) * (tn * n) := by
  have hB : φ • P + (tn + tp) * n = (φ • P + tp * n) + tn * n := by rw [add_mul]; abel
  have hyz := Y_Z P n tn tp hP hn hPn htn htp hPtn hPtp
  rw [hB, expTrunc_add_nil _ _ (U_Z P n tn tp φ hP hn hPn htn htp hPtn hPtp) (Z_sq P n tn tp hP hn hPn htn htp hPtn hPtp) N,
    expTrunc_blade _ _ (U_sq P n tn tp φ hP hn hPn htn htp hPtn hPtp) (N + 1),
    expTrunc_blade _ _ (U_sq P n tn tp φ hP hn hPn htn htp hPtn hPtp) N]
  simp only [Cn, Sn]
  generalize (∑ k ∈ range (N + 1), if k % 2 = 0 then (1 : ℚ) / (k.factorial : ℚ) * (-(φ ^ 2)) ^ (k / 2) else 0) = a
  generalize (∑ k ∈ range (N + 1), if k % 2 = 0 then 0 else (1 : ℚ) / (k.factorial : ℚ) * (-(φ ^ 2)) ^ (k / 2)) = b
  generalize (∑ k ∈ range N, if k % 2 = 0 then (1 : ℚ) / (k.factorial : ℚ) * (-(φ ^ 2)) ^ (k / 2) else 0) = c
  generalize (∑ k ∈ range N, if k % 2 = 0 then 0 else (1 : ℚ) / (k.factorial : ℚ) * (-(φ ^ 2)) ^ (k / 2)) = d
  simp only [add_mul, smul_mul_assoc, one_mul, smul_add, hyz, smul_zero, add_zero]
  module

/-- **the closed form is a unit rotor**: with `c² + s² = 1`, `R = (c + s P)(1 + tn n) + σ·(tp n)` and its reverse
    `~R = (1 − tn n)(c − s P) − σ·(tp n)` multiply to 1 (whatever `σ`; in the code `σ = sinc φ`) -/
theorem closed_form_unit (c s σ : ℚ) (h : c ^ 2 + s ^ 2 = 1) :
    ((c • (1 : A) + s • P) * (1 + tn * n) + σ • (tp * n)) * ((1 - tn * n) * (c • (1 : A) - s • P) - σ • (tp * n)) = 1 := by
  have hy := Y_sq P n tn tp hP hn hPn htn htp hPtn hPtp
  have hz := Z_sq P n tn tp hP hn hPn htn htp hPtn hPtp
  have hyz := Y_Z P n tn tp hP hn hPn htn htp hPtn hPtp
  have hzy := Z_Y P n tn tp hP hn hPn htn htp hPtn hPtp
  have hpy := P_Y P n tn tp hP hn hPn htn htp hPtn hPtp
  have hcs : (c • (1 : A) + s • P) * (c • (1 : A) - s • P) = 1 := by
    have : (c • (1 : A) + s • P) * (c • (1 : A) - s • P) = (c ^ 2 + s ^ 2) • (1 : A) := by
      simp only [add_mul, mul_sub, smul_mul_assoc, mul_smul_comm, one_mul, mul_one]
      rw [hP]; module
    rw [this, h, one_smul]
  have hEY : (c • (1 : A) + s • P) * (tp * n) = (tp * n) * (c • (1 : A) - s • P) := by
    simp only [add_mul, mul_sub, smul_mul_assoc, mul_smul_comm, one_mul, mul_one]
    rw [hpy]; module
  exact unit_abstract _ _ _ _ σ hcs hz hy hyz hzy hEY

end motor

/-- the rotation-free branch (`phi == 0`): `B = t n` is null, the series is exactly `1 + B`, a unit rotor -/
theorem translation_branch (t n : A) (hn : n * n = 0) (htn : t * n = -(n * t)) (N : Nat) (hN : 2 ≤ N) :
    expTrunc N (t * n) = 1 + t * n ∧ (1 + t * n) * (1 - t * n) = 1 := by
  have hz : (t * n) * (t * n) = 0 := by
    have : (t * n) * (t * n) = t * (n * t) * n := by noncomm_ring
    rw [this, show n * t = -(t * n) by rw [htn]; simp, mul_neg, neg_mul, mul_assoc t (t * n) n, mul_assoc t n n, hn]; simp
  refine ⟨expTrunc_null _ hz N hN, ?_⟩
  have : (1 + t * n) * (1 - t * n) = 1 - (t * n) * (t * n) := by noncomm_ring
  rw [this, hz, sub_zero]

end GaExp
