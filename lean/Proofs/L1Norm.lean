import Proofs.Ring
import Proofs.SeriesP
import Mathlib.Algebra.Order.BigOperators.Ring.Finset
import Mathlib.Algebra.Order.AbsoluteValue.Basic
import Mathlib.Algebra.Order.Field.Basic
import Mathlib.Algebra.Field.GeomSum
import Mathlib.Data.Nat.Factorial.Basic
import Mathlib.Tactic.Linarith
import Mathlib.Tactic.Positivity
import Mathlib.Tactic.FieldSimp
import Mathlib.Tactic.NormNum
open Finset

/-! # The sum of the absolute coefficients is a submultiplicative norm on the model

`taylor_expansions.exp` scales its argument by `int(np.sum(np.abs(x.value)))` (fix 08bddc0, defect 11: the largest
coefficient does not bound any norm of the powers). This file proves why the sum does: for every dimension and every
signature with entries of absolute value ≤ 1 (the library's `{+1, −1, 0}`) the ℓ¹ norm of the coefficient vector satisfies
`‖A·B‖₁ ≤ ‖A‖₁‖B‖₁`, for every storage-independent canonical multivector. Consequences, all for arbitrary multivectors:
`‖X^k‖₁ ≤ ‖X‖₁^k`; any two truncations of the exponential series differ by at most the corresponding piece of the scalar
series at `‖X‖₁`; after the scaling the 15-term series the code sums is within `2/15!` of every longer truncation; and the
error of a truncation is propagated through the repeated squaring by `m·c^(m−1)`. -/

namespace L1
variable {n : Nat} {sig : Nat → ℚ}

/-- `np.sum(np.abs(x.value))` -/
def l1 (A : Cl n sig) : ℚ := ∑ a : Bm n, |A a|

theorem l1_nonneg (A : Cl n sig) : 0 ≤ l1 A := Finset.sum_nonneg (fun _ _ => abs_nonneg _)

theorem l1_eq_zero {A : Cl n sig} (h : l1 A = 0) : A = 0 := by
  funext a
  have := (Finset.sum_eq_zero_iff_of_nonneg (fun b _ => abs_nonneg (A b))).1 h a (Finset.mem_univ a)
  have h0 : A a = 0 := by simpa using this
  exact h0

theorem l1_zero : l1 (0 : Cl n sig) = 0 := by
  unfold l1; apply Finset.sum_eq_zero; intro a _; show |(0 : ℚ)| = 0; simp

theorem l1_add_le (A B : Cl n sig) : l1 (A + B) ≤ l1 A + l1 B := by
  unfold l1; rw [← Finset.sum_add_distrib]
  apply Finset.sum_le_sum; intro a _
  show |A a + B a| ≤ _
  exact abs_add_le _ _

theorem l1_neg (A : Cl n sig) : l1 (-A) = l1 A := by
  unfold l1; apply Finset.sum_congr rfl; intro a _; show |-(A a)| = _; exact abs_neg _

theorem l1_sub_le (A B : Cl n sig) : l1 (A - B) ≤ l1 A + l1 B := by
  rw [sub_eq_add_neg]; exact (l1_add_le A (-B)).trans (by rw [l1_neg])

theorem l1_smul (q : ℚ) (A : Cl n sig) : l1 (q • A) = |q| * l1 A := by
  unfold l1; rw [Finset.mul_sum]; apply Finset.sum_congr rfl; intro a _
  show |q * A a| = _; exact abs_mul _ _

theorem l1_sum_le {ι : Type} (t : Finset ι) (f : ι → Cl n sig) : l1 (∑ i ∈ t, f i) ≤ ∑ i ∈ t, l1 (f i) := by
  classical
  induction t using Finset.induction_on with
  | empty => simp [l1_zero]
  | insert i t hi ih =>
    rw [Finset.sum_insert hi, Finset.sum_insert hi]
    exact (l1_add_le _ _).trans (by linarith)

theorem l1_one : l1 (1 : Cl n sig) = 1 := by
  unfold l1
  rw [Finset.sum_eq_single (fzero : Bm n)]
  · show |(one n : Bm n → ℚ) fzero| = 1; simp [one]
  · intro b _ hb; show |(one n : Bm n → ℚ) b| = 0; simp [one, hb]
  · intro h; exact absurd (Finset.mem_univ _) h

/-- every structure constant of the table has absolute value ≤ 1 -/
theorem abs_s_le_one (hsig : ∀ i, |sig i| ≤ 1) (a b : Nat) : |s sig n a b| ≤ 1 := by
  unfold s sgn metric
  rw [abs_mul, abs_pow, abs_neg, abs_one, one_pow, one_mul, Finset.abs_prod]
  apply Finset.prod_le_one
  · intro i _; exact abs_nonneg _
  · intro i _; split
    · exact hsig i
    · simp

/-- **submultiplicativity**: `‖A·B‖₁ ≤ ‖A‖₁·‖B‖₁` -/
theorem l1_mul_le (hsig : ∀ i, |sig i| ≤ 1) (A B : Cl n sig) : l1 (A * B) ≤ l1 A * l1 B := by
  unfold l1
  calc ∑ c : Bm n, |(A * B) c|
      ≤ ∑ c : Bm n, ∑ a : Bm n, |A a| * |B (fxor a c)| := by
        apply Finset.sum_le_sum; intro c _
        show |gmul n sig A B c| ≤ _
        unfold gmul
        refine (Finset.abs_sum_le_sum_abs _ _).trans ?_
        apply Finset.sum_le_sum; intro a _
        rw [abs_mul, abs_mul]
        have h1 := abs_s_le_one (n := n) hsig a.val (fxor a c).val
        have h2 : 0 ≤ |A a| * |B (fxor a c)| := mul_nonneg (abs_nonneg _) (abs_nonneg _)
        calc |s sig n a.val (fxor a c).val| * |A a| * |B (fxor a c)|
            = |s sig n a.val (fxor a c).val| * (|A a| * |B (fxor a c)|) := by ring
          _ ≤ 1 * (|A a| * |B (fxor a c)|) := mul_le_mul_of_nonneg_right h1 h2
          _ = _ := one_mul _
    _ = ∑ a : Bm n, ∑ c : Bm n, |A a| * |B (fxor a c)| := Finset.sum_comm
    _ = ∑ a : Bm n, |A a| * ∑ c : Bm n, |B c| := by
        apply Finset.sum_congr rfl; intro a _
        rw [Finset.mul_sum]
        exact (fxorEquiv a).sum_comp (fun c => |A a| * |B c|)
    _ = (∑ a : Bm n, |A a|) * ∑ c : Bm n, |B c| := by rw [Finset.sum_mul]

theorem l1_pow_le (hsig : ∀ i, |sig i| ≤ 1) (X : Cl n sig) (k : Nat) : l1 (X ^ k) ≤ (l1 X) ^ k := by
  induction k with
  | zero => simp [l1_one]
  | succ k ih =>
    rw [pow_succ, pow_succ]
    exact (l1_mul_le hsig _ _).trans (mul_le_mul_of_nonneg_right ih (l1_nonneg X))

/-- the scalar series at `x` (what `expTrunc` is on the ℚ-algebra ℚ) -/
def sexp (N : Nat) (x : ℚ) : ℚ := ∑ k ∈ range N, x ^ k / (k.factorial : ℚ)

theorem sexp_eq (N : Nat) (x : ℚ) : sexp N x = SeriesP.expTrunc N x := by
  unfold sexp SeriesP.expTrunc; apply Finset.sum_congr rfl; intro k _
  rw [smul_eq_mul]; ring

/-- a truncation is bounded by the scalar series at the norm -/
theorem l1_expTrunc_le (hsig : ∀ i, |sig i| ≤ 1) (X : Cl n sig) (N : Nat) :
    l1 (SeriesP.expTrunc N X) ≤ sexp N (l1 X) := by
  unfold SeriesP.expTrunc sexp
  refine (l1_sum_le _ _).trans ?_
  apply Finset.sum_le_sum; intro k _
  rw [l1_smul, abs_of_nonneg (by positivity)]
  have := l1_pow_le hsig X k
  have hk : (0 : ℚ) ≤ 1 / (k.factorial : ℚ) := by positivity
  calc 1 / (k.factorial : ℚ) * l1 (X ^ k) ≤ 1 / (k.factorial : ℚ) * (l1 X) ^ k := mul_le_mul_of_nonneg_left this hk
    _ = _ := by ring

/-- **any two truncations of the exponential series of any multivector** differ, in the ℓ¹ norm, by at most the same
piece of the scalar exponential series at `‖X‖₁` -/
theorem expTrunc_sub_le (hsig : ∀ i, |sig i| ≤ 1) (X : Cl n sig) (N M : Nat) (h : N ≤ M) :
    l1 (SeriesP.expTrunc M X - SeriesP.expTrunc N X) ≤ sexp M (l1 X) - sexp N (l1 X) := by
  have e1 : SeriesP.expTrunc M X - SeriesP.expTrunc N X
      = ∑ k ∈ Ico N M, ((1 : ℚ) / (k.factorial : ℚ)) • X ^ k := by
    unfold SeriesP.expTrunc
    simp only [Finset.range_eq_Ico]
    rw [← Finset.sum_Ico_consecutive _ (Nat.zero_le N) h, add_sub_cancel_left]
  have e2 : sexp M (l1 X) - sexp N (l1 X) = ∑ k ∈ Ico N M, (l1 X) ^ k / (k.factorial : ℚ) := by
    unfold sexp
    simp only [Finset.range_eq_Ico]
    rw [← Finset.sum_Ico_consecutive _ (Nat.zero_le N) h, add_sub_cancel_left]
  rw [e1, e2]
  refine (l1_sum_le _ _).trans ?_
  apply Finset.sum_le_sum; intro k _
  rw [l1_smul, abs_of_nonneg (by positivity)]
  have := l1_pow_le hsig X k
  have hk : (0 : ℚ) ≤ 1 / (k.factorial : ℚ) := by positivity
  calc 1 / (k.factorial : ℚ) * l1 (X ^ k) ≤ 1 / (k.factorial : ℚ) * (l1 X) ^ k := mul_le_mul_of_nonneg_left this hk
    _ = _ := by ring

/-- the tail of the scalar series at a point of `[0, 1]`, uniformly in the upper end: `Σ_{N ≤ k < M} x^k/k! ≤ 2/N!` -/
theorem sexp_tail_le (x : ℚ) (hx0 : 0 ≤ x) (hx1 : x ≤ 1) (N M : Nat) (hN : 1 ≤ N) (h : N ≤ M) :
    sexp M x - sexp N x ≤ 2 / (N.factorial : ℚ) := by
  have e2 : sexp M x - sexp N x = ∑ k ∈ Ico N M, x ^ k / (k.factorial : ℚ) := by
    unfold sexp
    simp only [Finset.range_eq_Ico]
    rw [← Finset.sum_Ico_consecutive _ (Nat.zero_le N) h, add_sub_cancel_left]
  rw [e2, Finset.sum_Ico_eq_sum_range]
  have hNf : (0 : ℚ) < (N.factorial : ℚ) := by exact_mod_cast N.factorial_pos
  have step : ∀ i, x ^ (N + i) / ((N + i).factorial : ℚ) ≤ (1 / (N.factorial : ℚ)) * (1 / 2) ^ i := by
    intro i
    have hpow : x ^ (N + i) ≤ 1 := pow_le_one₀ hx0 hx1
    have hfac : (N.factorial : ℚ) * 2 ^ i ≤ ((N + i).factorial : ℚ) := by
      have h1 : N.factorial * (N + 1) ^ i ≤ (N + i).factorial := Nat.factorial_mul_pow_le_factorial
      have h2 : N.factorial * 2 ^ i ≤ N.factorial * (N + 1) ^ i :=
        Nat.mul_le_mul_left _ (Nat.pow_le_pow_left (by omega) i)
      exact_mod_cast h2.trans h1
    have hpos : (0 : ℚ) < (N.factorial : ℚ) * 2 ^ i := by positivity
    calc x ^ (N + i) / ((N + i).factorial : ℚ) ≤ 1 / ((N + i).factorial : ℚ) := by
          apply div_le_div_of_nonneg_right hpow; positivity
      _ ≤ 1 / ((N.factorial : ℚ) * 2 ^ i) := one_div_le_one_div_of_le hpos hfac
      _ = _ := by rw [one_div, one_div, one_div, mul_inv, inv_pow]
  refine (Finset.sum_le_sum (fun i _ => step i)).trans ?_
  rw [← Finset.mul_sum]
  have hg : ∑ i ∈ range (M - N), ((1 : ℚ) / 2) ^ i ≤ 2 := by
    have := geom_sum_eq (by norm_num : ((1 : ℚ) / 2) ≠ 1) (M - N)
    rw [this]
    have hp : (0 : ℚ) ≤ (1 / 2) ^ (M - N) := by positivity
    rw [div_le_iff_of_neg (by norm_num)]
    linarith
  calc 1 / (N.factorial : ℚ) * ∑ i ∈ range (M - N), ((1 : ℚ) / 2) ^ i ≤ 1 / (N.factorial : ℚ) * 2 :=
        mul_le_mul_of_nonneg_left hg (by positivity)
    _ = _ := by ring

/-- **after the scaling, the 15 terms the code sums are within `2/15!` (< 1.6·10⁻¹²) of every longer truncation**, for
every multivector whose sum of absolute coefficients is ≤ 1 — the quantity the repaired scaling loop bounds -/
theorem exp_15_terms_suffice (hsig : ∀ i, |sig i| ≤ 1) (Y : Cl n sig) (hY : l1 Y ≤ 1) (M : Nat) (hM : 15 ≤ M) :
    l1 (SeriesP.expTrunc M Y - SeriesP.expTrunc 15 Y) ≤ 2 / ((15 : ℕ).factorial : ℚ) :=
  (expTrunc_sub_le hsig Y 15 M hM).trans (sexp_tail_le (l1 Y) (l1_nonneg Y) hY 15 M (by norm_num) hM)

theorem two_div_fact15 : (2 : ℚ) / ((15 : ℕ).factorial : ℚ) < 16 / 10 ^ 13 := by
  norm_num [Nat.factorial]

/-- scaling by `2^j` divides the norm by `2^j`: with `2^j ≥ ‖X‖₁` the scaled argument has norm ≤ 1 -/
theorem scaled_le_one (X : Cl n sig) (j : Nat) (h : l1 X ≤ 2 ^ j) : l1 (((1 : ℚ) / 2 ^ j) • X) ≤ 1 := by
  rw [l1_smul, abs_of_nonneg (by positivity)]
  have hp : (0 : ℚ) < 2 ^ j := by positivity
  rw [one_div, inv_mul_le_iff₀ hp]; linarith

/-- **propagation through the squarings**: `‖E^m − F^m‖₁ ≤ m·c^(m−1)·‖E − F‖₁` when both norms are ≤ `c` -/
theorem pow_sub_pow_le (hsig : ∀ i, |sig i| ≤ 1) (E F : Cl n sig) (c : ℚ) (hE : l1 E ≤ c) (hF : l1 F ≤ c) (m : Nat) :
    l1 (E ^ m - F ^ m) ≤ m * c ^ (m - 1) * l1 (E - F) := by
  have hc : 0 ≤ c := (l1_nonneg E).trans hE
  induction m with
  | zero => simp [l1_zero]
  | succ m ih =>
    have e : E ^ (m + 1) - F ^ (m + 1) = E ^ m * (E - F) + (E ^ m - F ^ m) * F := by
      rw [pow_succ, pow_succ]; noncomm_ring
    rw [e]
    refine (l1_add_le _ _).trans ?_
    have h1 : l1 (E ^ m * (E - F)) ≤ c ^ m * l1 (E - F) :=
      (l1_mul_le hsig _ _).trans (mul_le_mul_of_nonneg_right
        ((l1_pow_le hsig E m).trans (pow_le_pow_left₀ (l1_nonneg E) hE m)) (l1_nonneg _))
    have h2 : l1 ((E ^ m - F ^ m) * F) ≤ (m * c ^ (m - 1) * l1 (E - F)) * c :=
      (l1_mul_le hsig _ _).trans (mul_le_mul ih hF (l1_nonneg F)
        (mul_nonneg (mul_nonneg (Nat.cast_nonneg m) (pow_nonneg hc _)) (l1_nonneg _)))
    have h3 : (m * c ^ (m - 1) * l1 (E - F)) * c ≤ m * c ^ m * l1 (E - F) := by
      rcases Nat.eq_zero_or_pos m with rfl | hm
      · simp
      · have : c ^ (m - 1) * c = c ^ m := by rw [← pow_succ, Nat.sub_add_cancel hm]
        have e3 : (m * c ^ (m - 1) * l1 (E - F)) * c = m * (c ^ (m - 1) * c) * l1 (E - F) := by ring
        rw [e3, this]
    have : ((m + 1 : ℕ) : ℚ) * c ^ (m + 1 - 1) * l1 (E - F) = c ^ m * l1 (E - F) + m * c ^ m * l1 (E - F) := by
      rw [Nat.add_sub_cancel]; push_cast; ring
    rw [this]; linarith

theorem sexp_mono_arg (N : Nat) (x y : ℚ) (hx : 0 ≤ x) (hxy : x ≤ y) : sexp N x ≤ sexp N y := by
  unfold sexp; apply Finset.sum_le_sum; intro k _
  apply div_le_div_of_nonneg_right (pow_le_pow_left₀ hx hxy k); positivity

/-- the scalar series at a point of `[0,1]` never exceeds 3 -/
theorem sexp_le_three (M : Nat) (x : ℚ) (hx0 : 0 ≤ x) (hx1 : x ≤ 1) : sexp M x ≤ 3 := by
  rcases Nat.lt_or_ge M 1 with h | h
  · have : M = 0 := by omega
    subst this; simp [sexp]
  · have := sexp_tail_le x hx0 hx1 1 M le_rfl h
    have h1 : sexp 1 x = 1 := by simp [sexp]
    rw [h1] at this; norm_num at this; linarith

/-- **the whole scheme on an arbitrary multivector**: scale `X` by `2^j ≥ ‖X‖₁`, sum `15` or `M ≥ 15` terms, square `j` times:
the two results differ by at most `2^j · 3^(2^j − 1) · 2/15!` in the ℓ¹ norm, whatever `M` is — the coded 15-term scheme is, uniformly,
that close to the scheme with any number of terms -/
theorem scheme_error (hsig : ∀ i, |sig i| ≤ 1) (X : Cl n sig) (j : Nat) (h : l1 X ≤ 2 ^ j) (M : Nat) (hM : 15 ≤ M) :
    l1 ((SeriesP.expTrunc M (((1 : ℚ) / 2 ^ j) • X)) ^ (2 ^ j) - (SeriesP.expTrunc 15 (((1 : ℚ) / 2 ^ j) • X)) ^ (2 ^ j))
      ≤ ((2 ^ j : ℕ) : ℚ) * 3 ^ (2 ^ j - 1) * (2 / ((15 : ℕ).factorial : ℚ)) := by
  set Y := ((1 : ℚ) / 2 ^ j) • X with hYdef
  have hY : l1 Y ≤ 1 := scaled_le_one X j h
  have hb : ∀ N, l1 (SeriesP.expTrunc N Y) ≤ 3 := fun N =>
    (l1_expTrunc_le hsig Y N).trans (sexp_le_three N (l1 Y) (l1_nonneg Y) hY)
  refine (pow_sub_pow_le hsig _ _ 3 (hb M) (hb 15) (2 ^ j)).trans ?_
  apply mul_le_mul_of_nonneg_left (exp_15_terms_suffice hsig Y hY M hM)
  positivity

/-- the witness against the old scaling: in Cl(1) with `e1² = 1`, `X = 1 + e1` -/
def Xw : Cl 1 (fun _ => (1 : ℚ)) := fun _ => 1

/-- **the largest coefficient is not submultiplicative**: every coefficient of `X = 1 + e1` has absolute value 1, yet the scalar coefficient of
`X·X` is 2 — a bound on the largest coefficient of the argument bounds nothing about its powers (defect 11) -/
theorem max_coeff_not_submultiplicative : (∀ c, |Xw c| ≤ 1) ∧ (Xw * Xw) fzero = 2 := by
  refine ⟨fun c => by simp [Xw], ?_⟩
  show gmul 1 (fun _ => (1 : ℚ)) Xw Xw fzero = 2
  simp +decide [gmul, Xw, fxor, fzero, s, swaps, metric, sgn, bit]

end L1
