import Proofs.ConfCoded
import Proofs.Classify

/-! C15: the half-sum forms `vdot / dotv / vwedge / wedgev` of `Proofs/Classify.lean` ARE the coded `|` and `^` on (vector, homogeneous) operands -/
namespace Cl
open Classify
variable {N : Nat} {sig : Nat → ℚ}

theorem two_half (S : Cl N sig) : (1/2 : ℚ) • S + (1/2 : ℚ) • S = S := half_twice S

/-- `v | X` (coded inner-product table) for a vector and a homogeneous `X` of grade `g ≥ 1` -/
theorem coded_vdot (g : Nat) (hg : 1 ≤ g) (v X : Cl N sig) (hv : IsHom N 1 v) (hX : IsHom N g X) :
    (asCl (mmul N sig Model.imtCheck v X) : Cl N sig) = vdot v X (sgn g : ℚ) := by
  apply cancel_two
  have h : (asCl (mmul N sig Model.imtCheck v X) : Cl N sig) + asCl (mmul N sig Model.imtCheck v X) = v * X - (sgn g : ℚ) • (X * v) :=
    two_inner_vector_hom N sig g hg v X hv hX
  rw [h]; unfold vdot; exact (two_half _).symm

theorem sgn_sq' (g : Nat) : (sgn g : ℚ) * sgn g = 1 := sgn_mul_self g

/-- `X | v` -/
theorem coded_dotv (g : Nat) (hg : 1 ≤ g) (v X : Cl N sig) (hv : IsHom N 1 v) (hX : IsHom N g X) :
    (asCl (mmul N sig Model.imtCheck X v) : Cl N sig) = dotv X v (sgn g : ℚ) := by
  have h1 : (asCl (mmul N sig Model.imtCheck X v) : Cl N sig) = (-(sgn g : ℚ)) • (asCl (mmul N sig Model.lcmtCheck v X) : Cl N sig) :=
    blade_inner_vector N sig g hg v X hv hX
  have h2 : (asCl (mmul N sig Model.imtCheck v X) : Cl N sig) = asCl (mmul N sig Model.lcmtCheck v X) :=
    vector_inner_blade_eq_lc N sig g hg v X hv hX
  rw [h1, ← h2, coded_vdot g hg v X hv hX]
  unfold vdot dotv
  have hs := sgn_sq' g
  rw [smul_smul, smul_sub, smul_smul]
  have : (-(sgn g : ℚ) * (1 / 2)) • (v * X) - (-(sgn g : ℚ) * (1 / 2) * sgn g) • (X * v)
      = (1 / 2 : ℚ) • (X * v - (sgn g : ℚ) • (v * X)) := by
    have e : -(sgn g : ℚ) * (1 / 2) * sgn g = -(1 / 2) := by linear_combination (-(1 / 2 : ℚ)) * hs
    rw [e]; module
  rw [← this]

/-- `v ∧ X` (coded outer product) -/
theorem coded_vwedge (g : Nat) (v X : Cl N sig) (hv : IsHom N 1 v) (hX : IsHom N g X) :
    (asCl (wedge N v X) : Cl N sig) = vwedge v X (sgn g : ℚ) := by
  apply cancel_two
  have h : (asCl (wedge N v X) : Cl N sig) + asCl (wedge N v X) = v * X + (sgn g : ℚ) • (X * v) := two_wedge_vector_hom N sig g v X hv hX
  rw [h]; unfold vwedge; exact (two_half _).symm

/-- `X ∧ v` -/
theorem coded_wedgev (g : Nat) (v X : Cl N sig) (hv : IsHom N 1 v) (hX : IsHom N g X) :
    (asCl (wedge N X v) : Cl N sig) = wedgev X v (sgn g : ℚ) := by
  have h1 : (asCl (wedge N X v) : Cl N sig) = (sgn g : ℚ) • (asCl (wedge N v X) : Cl N sig) := wedge_blade_vector N g v X hv hX
  rw [h1, coded_vwedge g v X hv hX]
  unfold vwedge wedgev
  have hs := sgn_sq' g
  rw [smul_smul, smul_add, smul_smul]
  have e : (sgn g : ℚ) * (1 / 2) * sgn g = 1 / 2 := by linear_combination (1 / 2 : ℚ) * hs
  rw [e, smul_add, smul_smul, add_comm]
  congr 2; ring

end Cl
