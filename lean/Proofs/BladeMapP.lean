import Mathlib.Algebra.BigOperators.Ring.Finset
import Mathlib.Algebra.BigOperators.Pi
import Mathlib.Algebra.Order.Ring.Abs
import Mathlib.Data.Fintype.BigOperators
import Mathlib.Tactic.Ring
open Finset

/-! C18: `BladeMap.__call__` as a map on coefficient vectors; element-wise lifts and folds of `MVArray`;
symmetry of the innermorphism test. -/
namespace BladeMapP

variable {R : Type} [CommRing R] {ι κ : Type} [DecidableEq ι] [DecidableEq κ] {k : Nat}

/-- the listed pairs: pair `p` relates the signed basis blade `σ p • E_(i p)` of the first algebra with
`τ p • F_(j p)` of the second (what `sta.bm` and the docstring use: distinct signed basis blades) -/
structure Pairs (R : Type) (ι κ : Type) (k : Nat) where
  i : Fin k → ι
  j : Fin k → κ
  σ : Fin k → R
  τ : Fin k → R

/-- `B += sum(A.value * from_obj.value) * to_obj` for every pair: direction first → second -/
def fwd (P : Pairs R ι κ k) (A : ι → R) : κ → R :=
  fun c => ∑ p : Fin k, (P.σ p * A (P.i p)) * (if c = P.j p then P.τ p else 0)
/-- direction second → first -/
def bwd (P : Pairs R ι κ k) (B : κ → R) : ι → R :=
  fun c => ∑ p : Fin k, (P.τ p * B (P.j p)) * (if c = P.i p then P.σ p else 0)

theorem fwd_add (P : Pairs R ι κ k) (A A' : ι → R) : fwd P (A + A') = fwd P A + fwd P A' := by
  funext c; simp only [fwd, Pi.add_apply, ← Finset.sum_add_distrib]
  refine Finset.sum_congr rfl (fun p _ => ?_); ring
theorem fwd_smul (P : Pairs R ι κ k) (q : R) (A : ι → R) : fwd P (q • A) = q • fwd P A := by
  funext c; simp only [fwd, Pi.smul_apply, smul_eq_mul, Finset.mul_sum]
  refine Finset.sum_congr rfl (fun p _ => ?_); ring

/-- each listed blade is mapped to its partner: `σ E_i ↦ τ F_j` -/
theorem fwd_listed (P : Pairs R ι κ k) (hi : Function.Injective P.i) (hσ : ∀ p, P.σ p * P.σ p = 1) (p0 : Fin k) :
    fwd P (fun c => if c = P.i p0 then P.σ p0 else 0) = fun c => if c = P.j p0 then P.τ p0 else 0 := by
  funext c
  simp only [fwd]
  rw [Finset.sum_eq_single p0]
  · simp only [if_true]; rw [hσ p0, one_mul]
  · intro p _ hp
    have : P.i p ≠ P.i p0 := fun h => hp (hi h)
    simp [this]
  · intro h; exact absurd (Finset.mem_univ _) h

/-- coefficient of the image at a listed destination blade -/
theorem fwd_at (P : Pairs R ι κ k) (hj : Function.Injective P.j) (A : ι → R) (p0 : Fin k) :
    fwd P A (P.j p0) = P.σ p0 * A (P.i p0) * P.τ p0 := by
  simp only [fwd]
  rw [Finset.sum_eq_single p0]
  · simp
  · intro p _ hp
    have : P.j p0 ≠ P.j p := fun h => hp (hj h).symm
    simp [this]
  · intro h; exact absurd (Finset.mem_univ _) h

/-- applying the map twice is the identity on the coefficients of listed blades, and kills everything else
(so it is the identity on the span of the listed blades) -/
theorem bwd_fwd (P : Pairs R ι κ k) (hi : Function.Injective P.i) (hj : Function.Injective P.j)
    (hσ : ∀ p, P.σ p * P.σ p = 1) (hτ : ∀ p, P.τ p * P.τ p = 1) (A : ι → R) (c : ι) :
    bwd P (fwd P A) c = if ∃ p, c = P.i p then A c else 0 := by
  simp only [bwd]
  by_cases h : ∃ p, c = P.i p
  · obtain ⟨p0, rfl⟩ := h
    rw [if_pos ⟨p0, rfl⟩, Finset.sum_eq_single p0]
    · rw [fwd_at P hj A p0]; simp only [if_true]
      calc P.τ p0 * (P.σ p0 * A (P.i p0) * P.τ p0) * P.σ p0
          = (P.τ p0 * P.τ p0) * (P.σ p0 * P.σ p0) * A (P.i p0) := by ring
        _ = A (P.i p0) := by rw [hσ, hτ]; ring
    · intro p _ hp
      have : P.i p0 ≠ P.i p := fun h => hp (hi h).symm
      simp [this]
    · intro h; exact absurd (Finset.mem_univ _) h
  · rw [if_neg h]
    apply Finset.sum_eq_zero
    intro p _
    have : c ≠ P.i p := fun hc => h ⟨p, hc⟩
    simp [this]

/-- `MVArray.sum/gp/op`: `out = self[0]; for k in self[1:]: out = out ∘ k` is a left fold -/
def foldLoop {α : Type} (f : α → α → α) : List α → Option α
  | [] => none                       -- `self[0]` raises IndexError on an empty array
  | x :: xs => some (xs.foldl f x)

theorem foldLoop_cons {α : Type} (f : α → α → α) (x : α) (xs : List α) : foldLoop f (x :: xs) = some (xs.foldl f x) := rfl

/-- the innermorphism test (repaired form `|b - a| < eps`) is symmetric -/
theorem innermorphic_symm {K : Type} [Ring K] [LinearOrder K] [IsOrderedRing K] (a b eps : K) :
    |b - a| < eps ↔ |a - b| < eps := by rw [abs_sub_comm]

end BladeMapP
