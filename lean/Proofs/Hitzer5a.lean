import Proofs.Hitzer4
open Finset

/-! C05, n = 5, step 1: `A = M * conj M` has no part of grade 1, 2 or 5 (16 components), every signature -/

variable {R : Type} [CommRing R]

theorem mconj5_1 (sig : Nat → R) (M : CMV 5 R) : gmul 5 sig M (cconj 5 M) ⟨1, by decide⟩ = 0 := by hitzer_eval

theorem mconj5_2 (sig : Nat → R) (M : CMV 5 R) : gmul 5 sig M (cconj 5 M) ⟨2, by decide⟩ = 0 := by hitzer_eval

theorem mconj5_4 (sig : Nat → R) (M : CMV 5 R) : gmul 5 sig M (cconj 5 M) ⟨4, by decide⟩ = 0 := by hitzer_eval

theorem mconj5_8 (sig : Nat → R) (M : CMV 5 R) : gmul 5 sig M (cconj 5 M) ⟨8, by decide⟩ = 0 := by hitzer_eval

theorem mconj5_16 (sig : Nat → R) (M : CMV 5 R) : gmul 5 sig M (cconj 5 M) ⟨16, by decide⟩ = 0 := by hitzer_eval

theorem mconj5_3 (sig : Nat → R) (M : CMV 5 R) : gmul 5 sig M (cconj 5 M) ⟨3, by decide⟩ = 0 := by hitzer_eval

theorem mconj5_5 (sig : Nat → R) (M : CMV 5 R) : gmul 5 sig M (cconj 5 M) ⟨5, by decide⟩ = 0 := by hitzer_eval

theorem mconj5_6 (sig : Nat → R) (M : CMV 5 R) : gmul 5 sig M (cconj 5 M) ⟨6, by decide⟩ = 0 := by hitzer_eval

theorem mconj5_9 (sig : Nat → R) (M : CMV 5 R) : gmul 5 sig M (cconj 5 M) ⟨9, by decide⟩ = 0 := by hitzer_eval

theorem mconj5_10 (sig : Nat → R) (M : CMV 5 R) : gmul 5 sig M (cconj 5 M) ⟨10, by decide⟩ = 0 := by hitzer_eval

theorem mconj5_12 (sig : Nat → R) (M : CMV 5 R) : gmul 5 sig M (cconj 5 M) ⟨12, by decide⟩ = 0 := by hitzer_eval

theorem mconj5_17 (sig : Nat → R) (M : CMV 5 R) : gmul 5 sig M (cconj 5 M) ⟨17, by decide⟩ = 0 := by hitzer_eval

theorem mconj5_18 (sig : Nat → R) (M : CMV 5 R) : gmul 5 sig M (cconj 5 M) ⟨18, by decide⟩ = 0 := by hitzer_eval

theorem mconj5_20 (sig : Nat → R) (M : CMV 5 R) : gmul 5 sig M (cconj 5 M) ⟨20, by decide⟩ = 0 := by hitzer_eval

theorem mconj5_24 (sig : Nat → R) (M : CMV 5 R) : gmul 5 sig M (cconj 5 M) ⟨24, by decide⟩ = 0 := by hitzer_eval

theorem mconj5_31 (sig : Nat → R) (M : CMV 5 R) : gmul 5 sig M (cconj 5 M) ⟨31, by decide⟩ = 0 := by hitzer_eval

