import Proofs.Rev
open Finset

theorem pc_xor (n a b : Nat) : pc n (a ^^^ b) + 2 * pc n (a &&& b) = pc n a + pc n b := by
  unfold pc
  rw [Finset.mul_sum, ← Finset.sum_add_distrib, ← Finset.sum_add_distrib]
  apply Finset.sum_congr rfl; intro i _
  rw [bit_and]; exact bit_xor a b i

theorem pc_and_comm (n a b : Nat) : pc n (a &&& b) = pc n (b &&& a) := by rw [Nat.and_comm]

theorem pc_and_le (n a b : Nat) : 2 * pc n (a &&& b) ≤ pc n a + pc n b := by
  have := pc_xor n a b; omega

/-- parity form of the blade-level reversion law -/
theorem rev_parity (n a b : Nat) :
    (swaps n a b + tri (pc n (a ^^^ b))) % 2 = (tri (pc n a) + tri (pc n b) + swaps n b a) % 2 := by
  have hx := pc_xor n a b
  have hs := swaps_add_swaps_comm n a b
  have hle := pc_and_le n a b
  set p := pc n a; set q := pc n b; set c := pc n (a &&& b)
  have e : pc n (a ^^^ b) = (p + q) - 2 * c := by omega
  rw [e]
  have h1 := tri_sub_two_mul_mod (p+q) c hle
  have h2 := tri_add p q
  -- swaps a b + swaps b a + c = p*q
  have : (swaps n a b + tri (p + q - 2*c)) % 2 = (swaps n a b + (tri (p+q) + c)) % 2 := by omega
  rw [this, h2]
  -- replace p*q by swaps a b + swaps b a + c
  rw [← hs]; omega

variable {R : Type} [CommRing R]

def revSign (k : Nat) : R := sgn (tri k)

theorem metric_and_comm (sig : Nat → R) (n a b : Nat) : metric sig n (a &&& b) = metric sig n (b &&& a) := by
  rw [Nat.and_comm]

/-- blade-level anti-automorphism: s(a,b)·r|a^b| = r|a|·r|b|·s(b,a) -/
theorem s_rev (sig : Nat → R) (n a b : Nat) :
    s sig n a b * revSign (pc n (a ^^^ b)) = revSign (pc n a) * revSign (pc n b) * s sig n b a := by
  unfold s revSign
  rw [metric_and_comm sig n b a]
  have h := rev_parity n a b
  have : (sgn (swaps n a b) : R) * sgn (tri (pc n (a ^^^ b))) = sgn (tri (pc n a)) * sgn (tri (pc n b)) * sgn (swaps n b a) := by
    rw [← sgn_add, ← sgn_add, ← sgn_add]; exact sgn_congr h
  calc sgn (swaps n a b) * metric sig n (a &&& b) * sgn (tri (pc n (a ^^^ b)))
      = (sgn (swaps n a b) * sgn (tri (pc n (a ^^^ b)))) * metric sig n (a &&& b) := by ring
    _ = _ := by rw [this]; ring

/-- grade involution is multiplicative on blades: parity of |a^b| -/
theorem gi_parity (n a b : Nat) : pc n (a ^^^ b) % 2 = (pc n a + pc n b) % 2 := by
  have := pc_xor n a b; omega
