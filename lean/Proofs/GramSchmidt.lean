import Proofs.Project
import Proofs.Recip

/-! # C09: a blade given by oblique spanning vectors is the geometric product of orthogonalised ones

`Tri vs bs`: `bs` arises from `vs` by a unitriangular change of basis (`v_j = b_j + a combination of the later b's` — Gram–Schmidt run
from the last vector backwards, matching the right-nested outer product `wprod`).  Then `v₁ ∧ … ∧ v_k = b₁ ∧ … ∧ b_k`, and for pairwise
orthogonal `b`'s that is their geometric product; so `Proofs/Project.lean` applies to the blade as the code builds it (`^`). -/

namespace GS
open Proj
variable {F : Type} [Field F] {n : Nat} {sig : Nat → F}

/-- `Σ c_i u_i` -/
def lin : List F → List (Cl n sig) → Cl n sig
  | c :: cs, u :: us => c • u + lin cs us
  | _, _ => 0

/-- a combination of vectors of the list wedges to zero with the list's outer product -/
theorem lin_wedge_wprod (bs : List (CMV n F)) (hb : ∀ v ∈ bs, IsHom n 1 v) (cs : List F) (us : List (Cl n sig)) (hu : ∀ u ∈ us, u ∈ bs) :
    wedge n (lin cs us : Cl n sig) (wprod n bs) = 0 := by
  induction us generalizing cs with
  | nil => cases cs <;> exact wedge_zero_left n _
  | cons u us ih =>
    cases cs with
    | nil => exact wedge_zero_left n _
    | cons c cs =>
      have h1 : wedge n (u : CMV n F) (wprod n bs) = 0 := wedge_mem_wprod n u bs hb (hu u (by simp))
      have h2 := ih cs (fun w hw => hu w (by simp [hw]))
      have e : wedge n (lin (c :: cs) (u :: us) : Cl n sig) (wprod n bs)
          = wedge n (c • (u : CMV n F)) (wprod n bs) + wedge n (lin cs us : Cl n sig) (wprod n bs) := wedge_add_left n _ _ _
      have e2 : wedge n (c • (u : CMV n F)) (wprod n bs) = c • wedge n (u : CMV n F) (wprod n bs) := wedge_smul_left n c _ _
      exact e.trans (by rw [e2, h1, h2]; simp)

/-- unitriangular relation between the spanning vectors and the orthogonalised ones (from the last vector backwards) -/
inductive Tri : List (Cl n sig) → List (Cl n sig) → Prop
  | nil : Tri [] []
  | cons (v b : Cl n sig) (vs bs : List (Cl n sig)) (cs : List F) (h : Tri vs bs) (hv : v = b + lin cs bs) : Tri (v :: vs) (b :: bs)

/-- the outer product does not change under the unitriangular change of basis -/
theorem wprod_tri (vs bs : List (Cl n sig)) (h : Tri vs bs) (hb : ∀ b ∈ bs, IsHom n 1 b) : wprod n vs = wprod n bs := by
  induction h with
  | nil => rfl
  | cons v b vs bs cs h hv ih =>
    have hb' : ∀ w ∈ bs, IsHom n 1 w := fun w hw => hb w (by simp [hw])
    simp only [wprod]
    rw [ih hb', hv]
    have e : wedge n (b + lin cs bs : Cl n sig) (wprod n bs)
        = wedge n (b : CMV n F) (wprod n bs) + wedge n (lin cs bs : Cl n sig) (wprod n bs) := wedge_add_left n _ _ _
    exact e.trans (by rw [lin_wedge_wprod bs hb' cs bs (fun u hu => hu)]; simp)

theorem comb_zero {A : Type} [Ring A] [Algebra F A] (bs : List A) : comb (fun _ => (0 : F)) bs = 0 := by
  induction bs with
  | nil => rfl
  | cons b P ih => simp [comb, ih]

/-- cancel the factor 2 (`2 ≠ 0` in the field) -/
theorem two_cancel (h2 : (2 : F) ≠ 0) (Y : Cl n sig) (h : Y + Y = 0) : Y = 0 := by
  have h' : (2 : F) • Y = 0 := by rw [two_smul]; exact h
  have := congrArg (fun t => (2 : F)⁻¹ • t) h'
  simpa [smul_smul, inv_mul_cancel₀ h2] using this

/-- for pairwise orthogonal vectors the outer product is the geometric product -/
theorem wprod_eq_prod (h2 : (2 : F) ≠ 0) (bs : List (Cl n sig)) (hb : ∀ b ∈ bs, IsHom n 1 b)
    (hp : bs.Pairwise (fun a b => a * b = -(b * a))) : (asCl (wprod n bs) : Cl n sig) = bs.prod := by
  induction bs with
  | nil => rfl
  | cons b P ih =>
    rw [List.pairwise_cons] at hp
    have hb1 : IsHom n 1 b := hb b (by simp)
    have hP : ∀ c ∈ P, IsHom n 1 c := fun c hc => hb c (by simp [hc])
    have ihP := ih hP hp.2
    -- b ⌋ (prod P) = 0
    have hx : ∀ c ∈ P, b * c + c * b = (fun _ : Cl n sig => (0 : F)) c • (1 : Cl n sig) := by
      intro c hc; rw [hp.1 c hc]; simp
    have hmp := mul_prod b (fun _ => (0 : F)) P hx
    rw [comb_zero, add_zero] at hmp
    have hl : b * P.prod - asCl (gi n P.prod) * b
        = asCl (mmul n sig Model.lcmtCheck b P.prod) + asCl (mmul n sig Model.lcmtCheck b P.prod) :=
      two_lc_vector n sig b P.prod hb1
    rw [gi_prod P hP, hmp, smul_mul_assoc, sub_self] at hl
    have hlc : (asCl (mmul n sig Model.lcmtCheck b P.prod) : Cl n sig) = 0 := two_cancel h2 _ hl.symm
    have hsplit : b * P.prod = asCl (mmul n sig Model.lcmtCheck b P.prod) + asCl (mmul n sig Model.omtCheck b P.prod) :=
      vector_mul_split n sig b P.prod hb1
    rw [hlc, zero_add] at hsplit
    have hw : (asCl (mmul n sig Model.omtCheck b P.prod) : Cl n sig) = asCl (wedge n b P.prod) := mmul_omt_eq_wedge n sig b P.prod
    rw [List.prod_cons, hsplit, hw]
    show (asCl (wedge n b (wprod n P)) : Cl n sig) = asCl (wedge n b P.prod)
    have : (wprod n P : CMV n F) = P.prod := ihP
    rw [this]

/-- **the blade as the code builds it**: `v₁ ∧ … ∧ v_k` (right-nested `^`) is the geometric product of the orthogonalised vectors -/
theorem blade_eq_prod (h2 : (2 : F) ≠ 0) (vs bs : List (Cl n sig)) (h : Tri vs bs) (hb : ∀ b ∈ bs, IsHom n 1 b)
    (hp : bs.Pairwise (fun a b => a * b = -(b * a))) : (asCl (wprod n vs) : Cl n sig) = bs.prod := by
  rw [← wprod_eq_prod h2 bs hb hp]
  exact wprod_tri vs bs h hb

end GS
