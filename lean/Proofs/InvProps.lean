import Proofs.Inv
import Proofs.Ring
import Proofs.Invol
import Mathlib.Algebra.Group.Action.Defs
import Mathlib.Algebra.Group.Basic
import Mathlib.Tactic.NoncommRing

/-! C05: inverses, division, powers — algebra-level facts in the ring `Cl n sig` -/

variable {R : Type} [CommRing R] {n : Nat} {sig : Nat → R}

namespace Cl

theorem left_inv_imp_right_inv' (X M : Cl n sig) (h : X * M = 1) : M * X = 1 :=
  _root_.left_inv_imp_right_inv n sig X M h

theorem left_inv_iff_right_inv (X M : Cl n sig) : X * M = 1 ↔ M * X = 1 :=
  ⟨left_inv_imp_right_inv' X M, left_inv_imp_right_inv' M X⟩

/-- uniqueness: any two one-sided inverses (from either side) coincide, so all methods that return an inverse agree -/
theorem inverse_unique (X Y M : Cl n sig) (hX : X * M = 1) (hY : Y * M = 1) : X = Y := by
  have hM : M * Y = 1 := left_inv_imp_right_inv' Y M hY
  calc X = X * (M * Y) := by rw [hM, mul_one]
    _ = (X * M) * Y := by rw [mul_assoc]
    _ = Y := by rw [hX, one_mul]

/-- last step of every closed-form method: if `M * N` is the scalar `d` and `d` is invertible, `N / d` is the two-sided inverse -/
theorem scaled_inverse (M N : Cl n sig) (d dinv : R) (h : M * N = d • (1 : Cl n sig)) (hd : d * dinv = 1) :
    M * (dinv • N) = 1 ∧ (dinv • N) * M = 1 := by
  have h1 : M * (dinv • N) = 1 := by
    rw [Cl.mul_smul', h, smul_smul, mul_comm, hd, one_smul]
  exact ⟨h1, left_inv_imp_right_inv' M (dinv • N) h1⟩

/-- `normalInv`: if `~M * M` is an invertible scalar `q` then `~M / q` is the two-sided inverse -/
theorem normalInv_correct (M Mrev : Cl n sig) (q qinv : R) (h : Mrev * M = q • (1 : Cl n sig)) (hq : q * qinv = 1) :
    (qinv • Mrev) * M = 1 ∧ M * (qinv • Mrev) = 1 := by
  have h1 : (qinv • Mrev) * M = 1 := by
    rw [Cl.smul_mul', h, smul_smul, mul_comm, hq, one_smul]
  exact ⟨h1, left_inv_imp_right_inv' (qinv • Mrev) M h1⟩

/-- a zero divisor has no inverse -/
theorem zero_divisor_not_invertible (M N : Cl n sig) (hMN : M * N = 0) (hN : N ≠ 0) : ¬ ∃ X : Cl n sig, X * M = 1 := by
  rintro ⟨X, hX⟩
  apply hN
  calc N = (X * M) * N := by rw [hX, one_mul]
    _ = X * (M * N) := by rw [mul_assoc]
    _ = 0 := by rw [hMN, mul_zero]

/-- the singular family of the property: any multiple of `1 + e` with `e*e = 1`, `e ≠ 1` -/
theorem one_add_e_singular (e : Cl n sig) (he : e * e = 1) (hne : e ≠ 1) (k : R) :
    ¬ ∃ X : Cl n sig, X * (k • (1 + e)) = 1 := by
  apply zero_divisor_not_invertible (k • (1 + e)) (1 - e)
  · rw [Cl.smul_mul']
    have : (1 + e) * (1 - e) = 0 := by
      calc (1 + e) * (1 - e) = 1 - e * e := by noncomm_ring
        _ = 0 := by rw [he, sub_self]
    rw [this, smul_zero]
  · intro h; apply hne; exact (sub_eq_zero.mp h).symm

/-- the loop of `__pow__` (`for i in range(1, n): newMV = newMV * self`) computes the n-fold product -/
theorem pow_loop (A : Cl n sig) (k : Nat) (hk : 1 ≤ k) :
    (List.range (k - 1)).foldl (fun acc _ => acc * A) A = A ^ k := by
  obtain ⟨m, rfl⟩ : ∃ m, k = m + 1 := ⟨k - 1, by omega⟩
  simp only [Nat.add_sub_cancel]
  induction m with
  | zero => simp
  | succ m ih =>
    rw [List.range_succ, List.foldl_append, ih (by omega)]
    simp [pow_succ]

/-- a fold that ignores the list elements only depends on the length -/
theorem foldl_ignore_len {α β γ : Type} (f : α → α) (l₁ : List β) (l₂ : List γ) (h : l₁.length = l₂.length) (a : α) :
    l₁.foldl (fun acc _ => f acc) a = l₂.foldl (fun acc _ => f acc) a := by
  induction l₁ generalizing l₂ a with
  | nil => cases l₂ with
    | nil => rfl
    | cons y ys => simp at h
  | cons x xs ih => cases l₂ with
    | nil => simp at h
    | cons y ys => simp only [List.foldl_cons]; exact ih ys (by simpa using h) (f a)

/-- the same loop written with `range(1, k)` -/
theorem pow_loop' (A : Cl n sig) (k : Nat) (hk : 1 ≤ k) :
    (List.range' 1 (k - 1)).foldl (fun acc _ => acc * A) A = A ^ k := by
  rw [← pow_loop A k hk]
  exact foldl_ignore_len (fun acc => acc * A) _ _ (by simp) A

/-- negative powers: the |k|-fold product of the inverse is the inverse of the |k|-fold product -/
theorem inv_pow (M X : Cl n sig) (h : X * M = 1) (k : Nat) : X ^ k * M ^ k = 1 := by
  have hc : M * X = 1 := left_inv_imp_right_inv' X M h
  induction k with
  | zero => simp
  | succ k ih =>
    calc X ^ (k + 1) * M ^ (k + 1) = X ^ k * (X * M) * M ^ k := by
          rw [pow_succ, pow_succ']; noncomm_ring
      _ = 1 := by rw [h, mul_one, ih]

end Cl
