import Proofs.Iso
import Proofs.ConfCoded
import Proofs.Recip
import Mathlib.LinearAlgebra.CliffordAlgebra.Contraction

/-! C02: the coded left contraction of a vector with any multivector is Mathlib's `contractLeft` (by the metric dual of the vector) -/
open Finset
variable {N : Nat} {sig : Nat → ℚ}

namespace Cl
open CliffordAlgebra

/-- the symmetric bilinear form of the diagonal quadratic form -/
def B (N : Nat) (sig : Nat → ℚ) (v w : Fin N → ℚ) : ℚ := ∑ i : Fin N, sig i.val * v i * w i

/-- `w ↦ B(v, w)` as a dual vector -/
def dualOf (N : Nat) (sig : Nat → ℚ) (v : Fin N → ℚ) : Module.Dual ℚ (Fin N → ℚ) where
  toFun w := B N sig v w
  map_add' w w' := by simp [B, mul_add, Finset.sum_add_distrib]
  map_smul' r w := by simp [B, Finset.mul_sum]; refine Finset.sum_congr rfl (fun i _ => by ring)

theorem polar_eq (v w : Fin N → ℚ) : Q N sig (v + w) - Q N sig v - Q N sig w = 2 * B N sig v w := by
  simp only [Q, QuadraticMap.weightedSumSquares_apply, Pi.add_apply, smul_eq_mul, B]
  rw [Finset.mul_sum, ← Finset.sum_sub_distrib, ← Finset.sum_sub_distrib]
  refine Finset.sum_congr rfl (fun i _ => by ring)

/-- `v w + w v = 2 B(v, w)` in the model -/
theorem vec_anticomm (v w : Fin N → ℚ) : (vec v : Cl N sig) * vec w + vec w * vec v = (2 * B N sig v w) • (1 : Cl N sig) := by
  have h := vec_mul_vec_comm (sig := sig) w v
  -- h : vec v * vec w = (2 * ((Q (w+v) - Q w - Q v)/2)) • 1 - vec w * vec v
  rw [h]
  have e : 2 * ((Q N sig (w + v) - Q N sig w - Q N sig v) / 2) = 2 * B N sig v w := by
    have := polar_eq (sig := sig) v w
    rw [add_comm w v]; linarith
  rw [e]; abel

/-- the coded left contraction by a vector is an antiderivation: `v ⌋ (w X) = B(v,w) X − w (v ⌋ X)` -/
theorem lc_antiderivation (v w : Fin N → ℚ) (X : Cl N sig) :
    (asCl (mmul N sig Model.lcmtCheck (vec v : Cl N sig) ((vec w * X : Cl N sig))) : Cl N sig)
      = B N sig v w • X - vec w * asCl (mmul N sig Model.lcmtCheck (vec v : Cl N sig) X) := by
  apply cancel_two
  have hv := vec_isHom (sig := sig) v
  have hw := vec_isHom (sig := sig) w
  have h1 : (vec v : Cl N sig) * (vec w * X) - asCl (gi N ((vec w * X : Cl N sig))) * vec v
      = asCl (mmul N sig Model.lcmtCheck (vec v : Cl N sig) ((vec w * X : Cl N sig))) + asCl (mmul N sig Model.lcmtCheck (vec v : Cl N sig) ((vec w * X : Cl N sig))) :=
    two_lc_vector N sig (vec v) ((vec w * X : Cl N sig)) hv
  have h2 : (vec v : Cl N sig) * X - asCl (gi N X) * vec v
      = asCl (mmul N sig Model.lcmtCheck (vec v : Cl N sig) X) + asCl (mmul N sig Model.lcmtCheck (vec v : Cl N sig) X) :=
    two_lc_vector N sig (vec v) X hv
  have hgw : (asCl (gi N (vec w : Cl N sig)) : Cl N sig) = -vec w := by
    have := gi_hom N 1 (vec w : Cl N sig) hw
    show gi N (vec w : Cl N sig) = -(vec w : Cl N sig)
    rw [this]; funext c; show (sgn 1 : ℚ) * (vec w : Cl N sig) c = -((vec w : Cl N sig) c); simp [sgn]
  have hg : (asCl (gi N ((vec w : Cl N sig) * X)) : Cl N sig) = -(vec w * asCl (gi N X)) := by
    have := gi_mul (vec w : Cl N sig) X
    rw [this, hgw, neg_mul]
  have hvw := vec_anticomm (sig := sig) v w
  rw [← h1, hg]
  have h2' : (asCl (mmul N sig Model.lcmtCheck (vec v : Cl N sig) X) : Cl N sig) + asCl (mmul N sig Model.lcmtCheck (vec v : Cl N sig) X)
      = vec v * X - asCl (gi N X) * vec v := h2.symm
  have : (B N sig v w • X - vec w * asCl (mmul N sig Model.lcmtCheck (vec v : Cl N sig) X))
      + (B N sig v w • X - vec w * asCl (mmul N sig Model.lcmtCheck (vec v : Cl N sig) X))
      = (2 * B N sig v w) • X - vec w * (asCl (mmul N sig Model.lcmtCheck (vec v : Cl N sig) X) + asCl (mmul N sig Model.lcmtCheck (vec v : Cl N sig) X)) := by
    rw [mul_add, two_mul, add_smul]; abel
  rw [this, h2']
  have hvw' : (vec v : Cl N sig) * vec w = (2 * B N sig v w) • (1 : Cl N sig) - vec w * vec v := by rw [← hvw]; abel
  rw [← mul_assoc, hvw', sub_mul, smul_mul_assoc, one_mul]
  noncomm_ring

theorem lc_scalar (v : Fin N → ℚ) (r : ℚ) :
    (asCl (mmul N sig Model.lcmtCheck (vec v : Cl N sig) ((algebraMap ℚ (Cl N sig) r : Cl N sig))) : Cl N sig) = 0 := by
  rw [Algebra.algebraMap_eq_smul_one]
  have h0 : IsHom N 0 (one N : CMV N ℚ) := by
    intro c hc; simp only [one]; rw [if_neg]; intro h; apply hc; rw [h]; simp [pc, fzero, bit]
  have hz := mmul_hom_zero N sig Model.lcmtCheck 1 0 (fun v => by simp [Model.lcmtCheck]) (vec v : Cl N sig) (one N) (vec_isHom v) h0
  have : mmul N sig Model.lcmtCheck (vec v : Cl N sig) ((r • (1 : Cl N sig) : Cl N sig)) = r • mmul N sig Model.lcmtCheck (vec v : Cl N sig) (one N) :=
    mmul_smul_right N sig Model.lcmtCheck r (vec v : Cl N sig) (one N)
  show mmul N sig Model.lcmtCheck (vec v : Cl N sig) ((r • (1 : Cl N sig) : Cl N sig)) = 0
  rw [this, hz, smul_zero]

theorem lc_add_right (v : Fin N → ℚ) (X Y : Cl N sig) :
    (asCl (mmul N sig Model.lcmtCheck (vec v : Cl N sig) ((X + Y : Cl N sig))) : Cl N sig)
      = asCl (mmul N sig Model.lcmtCheck (vec v : Cl N sig) X) + asCl (mmul N sig Model.lcmtCheck (vec v : Cl N sig) Y) := by
  show mmul N sig Model.lcmtCheck (vec v : Cl N sig) ((X + Y : Cl N sig)) = _
  funext c
  simp only [mmul]
  show _ = (mmul N sig Model.lcmtCheck (vec v : Cl N sig) X) c + (mmul N sig Model.lcmtCheck (vec v : Cl N sig) Y) c
  simp only [mmul, ← Finset.sum_add_distrib]
  refine Finset.sum_congr rfl (fun a _ => ?_)
  split
  · show _ * _ * (X (fxor a c) + Y (fxor a c)) = _; ring
  · simp

/-- **the coded left contraction by a vector is Mathlib's `contractLeft`** (by the metric dual `B(v, ·)` of the vector), under the isomorphism -/
theorem fromMathlib_contractLeft (v : Fin N → ℚ) (x : CliffordAlgebra (Q N sig)) :
    (fromMathlib (contractLeft (dualOf N sig v) x) : Cl N sig)
      = asCl (mmul N sig Model.lcmtCheck (vec v : Cl N sig) (fromMathlib x : Cl N sig)) := by
  induction x using CliffordAlgebra.left_induction with
  | algebraMap r =>
    rw [contractLeft_algebraMap, map_zero, AlgHom.commutes]
    exact (lc_scalar v r).symm
  | add x y hx hy =>
    rw [map_add, map_add, hx, hy, map_add]
    exact (lc_add_right v _ _).symm
  | ι_mul x m hx =>
    rw [contractLeft_ι_mul, map_sub, map_smul, map_mul, map_mul, fromMathlib_ι, hx]
    exact (lc_antiderivation v m (fromMathlib x)).symm

end Cl
