import Proofs.Rev2
open Finset

variable {R : Type} [CommRing R]

/-- **blade commutation law**: E_a E_b = (−1)^{|a||b| − |a∩b|} E_b E_a, at the level of the sign -/
theorem s_comm (sig : Nat → R) (n a b : Nat) :
    s sig n a b = sgn (pc n a * pc n b + pc n (a &&& b)) * s sig n b a := by
  unfold s
  rw [metric_and_comm sig n b a]
  have h := swaps_add_swaps_comm n a b
  have hp : (swaps n a b) % 2 = (pc n a * pc n b + pc n (a &&& b) + swaps n b a) % 2 := by omega
  have : (sgn (swaps n a b) : R) = sgn (pc n a * pc n b + pc n (a &&& b)) * sgn (swaps n b a) := by
    rw [← sgn_add]; exact sgn_congr hp
  rw [this]; ring

/-- a generator against a blade: e_i E_a = (−1)^{|a| − [i∈a]} E_a e_i (the fact behind
    v∧A = ½(vA + Â v) and v⌋A = ½(vA − Â v)) -/
theorem s_gen_comm (sig : Nat → R) (n a i : Nat) (hi : i < n) :
    s sig n (2^i) a = sgn (pc n a + bit a i) * s sig n a (2^i) := by
  rw [s_comm sig n (2^i) a]
  congr 1
  apply sgn_congr
  have h1 : pc n (2^i) = 1 := by
    unfold pc
    rw [Finset.sum_eq_single i]
    · simp [bit, Nat.testBit_two_pow]
    · intro j _ hj; simp [bit, Nat.testBit_two_pow, Ne.symm hj]
    · intro h; exact absurd (mem_range.mpr hi) h
  have h2 : pc n (2^i &&& a) = bit a i := by
    unfold pc
    rw [Finset.sum_eq_single i]
    · rw [bit_and]; simp [bit, Nat.testBit_two_pow]
    · intro j _ hj; rw [bit_and]; simp [bit, Nat.testBit_two_pow, Ne.symm hj]
    · intro h; exact absurd (mem_range.mpr hi) h
  rw [h1, h2]; omega
