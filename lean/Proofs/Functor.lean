import Proofs.Ext
import Proofs.Outer
import Proofs.Canon

/-! C11: the outermorphism of a linear map is the exterior-algebra functor `Λ(L)` (Mathlib's `CliffordAlgebra.map` for the zero forms) -/
open Finset
variable {R : Type} [CommRing R]

namespace Cl
open CliffordAlgebra

abbrev Z (n : Nat) : Nat → R := fun _ => (0 : R)

/-- images of the basis vectors under `L`, as grade-1 elements of the destination algebra -/
def toCMV {n : Nat} {sig : Nat → R} (A : Cl n sig) : CMV n R := A

def cols {m d : Nat} (L : (Fin m → R) →ₗ[R] (Fin d → R)) (i : Nat) : CMV d R :=
  if h : i < m then toCMV (vec (L (Pi.single ⟨i, h⟩ 1)) : Cl d (Z d)) else 0

theorem cols_hom {m d : Nat} (L : (Fin m → R) →ₗ[R] (Fin d → R)) (i : Nat) : IsHom d 1 (cols L i) := by
  unfold cols
  by_cases h : i < m
  · rw [dif_pos h]; exact vec_isHom' _
  · rw [dif_neg h]; intro c _; rfl

/-- a linear map as an isometry between the zero forms -/
def zeroIsometry {m d : Nat} (L : (Fin m → R) →ₗ[R] (Fin d → R)) : Q m (Z (R := R) m) →qᵢ Q d (Z (R := R) d) :=
  { L with map_app' := fun v => by rw [Q_zero, Q_zero]; rfl }

/-- the outermorphism as an algebra homomorphism of the zero-signature models (its product is the outer product) -/
def omapHom {m d : Nat} (L : (Fin m → R) →ₗ[R] (Fin d → R)) : Cl m (Z (R := R) m) →ₐ[R] Cl d (Z (R := R) d) where
  toFun A := omap d m (cols L) A
  map_one' := omap_one d m (cols L)
  map_mul' A B := by
    show omap d m (cols L) (gmul m (Z m) A B) = gmul d (Z d) (omap d m (cols L) A) (omap d m (cols L) B)
    have e1 : gmul m (Z m) (A : CMV m R) B = wedge m A B := (wedge_eq_gmul_zero (n := m) (A : CMV m R) B).symm
    have e2 : gmul d (Z d) (omap d m (cols L) A) (omap d m (cols L) B) = wedge d (omap d m (cols L) A) (omap d m (cols L) B) :=
      (wedge_eq_gmul_zero (n := d) _ _).symm
    exact (congrArg (omap d m (cols L)) e1).trans ((omap_wedge d m (cols L) (cols_hom L) A B).trans e2.symm)
  map_zero' := by
    show omap d m (cols L) (0 : CMV m R) = (0 : CMV d R)
    unfold omap; simp
  map_add' A B := omap_add d m (cols L) A B
  commutes' r := by
    show omap d m (cols L) (algebraMap R (Cl m (Z m)) r) = algebraMap R (Cl d (Z d)) r
    rw [Algebra.algebraMap_eq_smul_one, Algebra.algebraMap_eq_smul_one]
    have h1 := omap_smul d m (cols L) r (one m)
    rw [omap_one] at h1
    exact h1

theorem vec_single {n : Nat} {sig : Nat → R} (i : Fin n) : (vec (Pi.single i (1 : R)) : Cl n sig) = e i.val i.isLt := by
  classical
  unfold vec
  rw [Finset.sum_eq_single i]
  · simp
  · intro b _ hb; simp [hb]
  · intro h; exact absurd (Finset.mem_univ _) h

/-- on vectors the outermorphism is the linear map itself -/
theorem omapHom_vec {m d : Nat} (L : (Fin m → R) →ₗ[R] (Fin d → R)) (v : Fin m → R) :
    omapHom L (vec v : Cl m (Z (R := R) m)) = (vec (L v) : Cl d (Z (R := R) d)) := by
  have h : (omapHom L).toLinearMap.comp (vecLin (n := m) (sig := Z m)) = (vecLin (n := d) (sig := Z d)).comp L := by
    apply (Pi.basisFun R (Fin m)).ext
    intro i
    simp only [Pi.basisFun_apply, LinearMap.comp_apply, AlgHom.toLinearMap_apply]
    show omapHom L (vec (Pi.single i (1 : R)) : Cl m (Z (R := R) m)) = (vec (L (Pi.single i 1)) : Cl d (Z (R := R) d))
    rw [vec_single]
    show omap d m (cols L) (blade m ⟨2 ^ i.val, Nat.pow_lt_pow_right (by decide) i.isLt⟩) = _
    rw [omap_vector d m (cols L) i.val i.isLt]
    unfold cols; rw [dif_pos i.isLt]; rfl
  exact congrArg (fun f => f v) h

/-- **the outermorphism is the exterior-algebra functor**: under the isomorphisms of C01 (zero signature = exterior algebra), the coded
    outermorphism of the linear map `L` is Mathlib's `CliffordAlgebra.map L` (i.e. `ExteriorAlgebra.map L`, `Λ(L)`) -/
theorem fromMathlib_map {m d : Nat} (L : (Fin m → R) →ₗ[R] (Fin d → R)) (x : CliffordAlgebra (Q m (Z (R := R) m))) :
    fromMathlib (CliffordAlgebra.map (zeroIsometry L) x) = omapHom L (fromMathlib x) := by
  have h : (fromMathlib (n := d) (sig := Z d)).comp (CliffordAlgebra.map (zeroIsometry L)) = (omapHom L).comp (fromMathlib (n := m) (sig := Z m)) := by
    apply CliffordAlgebra.hom_ext
    apply LinearMap.ext
    intro v
    simp only [LinearMap.comp_apply, AlgHom.toLinearMap_apply, AlgHom.comp_apply, map_apply_ι, fromMathlib_ι]
    exact (omapHom_vec L v).symm
  exact congrArg (fun f => f x) h

end Cl
