import Proofs.Conf2
import Proofs.SeriesP

/-! C14: the operators and objects of `clifford.cga` from the defining relations (any ℚ-algebra, any base dimension / signature) -/
set_option linter.unusedSectionVars false
namespace Conf
variable {A : Type} [Ring A] [Algebra ℚ A]
variable {x ep en : A} {q : ℚ}

/-- `Dilation`: `exp(t E0) = cosh t + sinh t E0` has the form `a + b E0`; its reverse is `a - b E0` -/
def dil (a b : ℚ) (ep en : A) : A := a • (1 : A) + b • E0 ep en
def dilRev (a b : ℚ) (ep en : A) : A := a • (1 : A) - b • E0 ep en

theorem dil_base (r : Rel x ep en q) (a b : ℚ) : dil a b ep en * x * dilRev a b ep en = (a * a - b * b) • x := by
  unfold dil dilRev; rw [E0_eq r]; cga_nf r; module

theorem dil_einf (r : Rel x ep en q) (a b : ℚ) :
    dil a b ep en * einf ep en * dilRev a b ep en = ((a - b) * (a - b)) • einf ep en := by
  unfold dil dilRev einf; rw [E0_eq r]; cga_nf r; module

theorem dil_eo (r : Rel x ep en q) (a b : ℚ) :
    dil a b ep en * eo ep en * dilRev a b ep en = ((a + b) * (a + b)) • eo ep en := by
  unfold dil dilRev eo; rw [E0_eq r]; cga_nf r; module

theorem dil_unit (r : Rel x ep en q) (a b : ℚ) : dil a b ep en * dilRev a b ep en = (a * a - b * b) • (1 : A) := by
  unfold dil dilRev; rw [E0_eq r]; cga_nf r; module

end Conf

set_option linter.unusedSectionVars false
namespace Conf
variable {A : Type} [Ring A] [Algebra ℚ A]
variable {x ep en : A} {q : ℚ}

/-- scaling a base vector keeps the relations -/
theorem Rel.smul (r : Rel x ep en q) (k : ℚ) : Rel (k • x) ep en (k * k * q) where
  hx := by rw [smul_mul_assoc, mul_smul_comm, r.hx, smul_smul, smul_smul]
  hep := r.hep
  hen := r.hen
  h1 := by rw [smul_mul_assoc, mul_smul_comm, r.h1, smul_neg]
  h2 := by rw [smul_mul_assoc, mul_smul_comm, r.h2, smul_neg]
  h3 := r.h3

/-- `Dilation`: for `a² − b² = 1` (so `a + b = e^t`, `a − b = e^{−t}`) the versor `a + b E0` maps the point of `x` to
    `(a+b)²` times the point of `(a−b)² x` — i.e. the point of `s·x` with `s = (a−b)² = e^{−2t}` (`t = −ln(s)/2` in the code) -/
theorem dil_up (r : Rel x ep en q) (a b : ℚ) (h : (a + b) * (a - b) = 1) :
    dil a b ep en * up x ep en q * dilRev a b ep en
      = ((a + b) * (a + b)) • up (((a - b) * (a - b)) • x) ep en (((a - b) * (a - b)) * ((a - b) * (a - b)) * q) := by
  have e1 : dil a b ep en * up x ep en q * dilRev a b ep en
      = dil a b ep en * x * dilRev a b ep en + (q / 2) • (dil a b ep en * einf ep en * dilRev a b ep en)
        + dil a b ep en * eo ep en * dilRev a b ep en := by
    unfold up; simp only [mul_add, add_mul, mul_smul_comm, smul_mul_assoc]
  rw [e1, dil_base r, dil_einf r, dil_eo r]
  unfold up
  match_scalars
  · linear_combination (-((a + b) * (a - b))) * h
  · linear_combination (-(q / 2 * ((a - b) * (a - b)) * ((a + b) * (a - b) + 1))) * h
  · ring

theorem dil_is_unit (r : Rel x ep en q) (a b : ℚ) (h : (a + b) * (a - b) = 1) : dil a b ep en * dilRev a b ep en = 1 := by
  rw [dil_unit r]; have : a * a - b * b = 1 := by linear_combination h
  rw [this, one_smul]

end Conf

set_option linter.unusedSectionVars false
namespace Conf
variable {A : Type} [Ring A] [Algebra ℚ A]
variable {x ep en : A} {q : ℚ}

/-! ### Rotation: `exp(B)` for a base-space bivector -/

/-- a product of two base vectors commutes with the added basis vectors -/
theorem base_bivector_commutes {y : A} {qy : ℚ} (r : Rel x ep en q) (ry : Rel y ep en qy) :
    Commute (x * y) ep ∧ Commute (x * y) en := by
  constructor
  · show x * y * ep = ep * (x * y)
    rw [mul_assoc, ry.h1, mul_neg, ← mul_assoc, r.h1, neg_mul, neg_neg, mul_assoc]
  · show x * y * en = en * (x * y)
    rw [mul_assoc, ry.h2, mul_neg, ← mul_assoc, r.h2, neg_mul, neg_neg, mul_assoc]

/-- whatever commutes with `ep` and `en` commutes with `eo`, `einf` and `E0` -/
theorem commute_null_basis (R : A) (h1 : Commute R ep) (h2 : Commute R en) :
    Commute R (eo ep en) ∧ Commute R (einf ep en) := by
  unfold eo einf
  exact ⟨((h2.sub_right h1).smul_right _), h2.add_right h1⟩

/-- the coded exponential — the truncated series of the scaled argument, squared back `m` times — of anything that commutes
    with `Y` commutes with `Y` (so `rotation(B)` commutes with `eo` and `einf` for a base-space bivector `B`) -/
theorem exp_commutes (B Y : A) (h : Commute B Y) (c : ℚ) (N m : Nat) : Commute ((SeriesP.expTrunc N (c • B)) ^ m) Y := by
  apply Commute.pow_left
  unfold SeriesP.expTrunc
  apply Commute.sum_left; intro k _
  exact ((h.smul_left c).pow_left k).smul_left _

/-- a unit versor fixes what it commutes with: `R Y ~R = Y` -/
theorem versor_fixes (R Rrev Y : A) (h : Commute R Y) (hu : R * Rrev = 1) : R * Y * Rrev = Y := by
  rw [h.eq, mul_assoc, hu, mul_one]

/-- a unit versor is an isometry: it preserves the symmetric product (hence all inner products of vectors) -/
theorem versor_isometry (R Rrev u v : A) (hu : Rrev * R = 1) :
    (R * u * Rrev) * (R * v * Rrev) + (R * v * Rrev) * (R * u * Rrev) = R * (u * v + v * u) * Rrev := by
  have e (s t : A) : (R * s * Rrev) * (R * t * Rrev) = R * (s * t) * Rrev := by
    calc (R * s * Rrev) * (R * t * Rrev) = R * s * (Rrev * R) * t * Rrev := by simp only [mul_assoc]
      _ = R * (s * t) * Rrev := by rw [hu]; simp only [mul_assoc, mul_one]
  rw [e, e, mul_add, add_mul]

/-! ### Transversion: inversion – translation – inversion -/

theorem transversion_is_conjugation (T Trev X : A) :
    (ep * T * ep) * X * (ep * Trev * ep) = ep * (T * (ep * X * ep) * Trev) * ep := by
  simp only [mul_assoc]

theorem transversion_unit (T Trev : A) (hep : ep * ep = 1) (hT : T * Trev = 1) : (ep * T * ep) * (ep * Trev * ep) = 1 := by
  calc (ep * T * ep) * (ep * Trev * ep) = ep * T * (ep * ep) * Trev * ep := by simp only [mul_assoc]
    _ = ep * (T * Trev) * ep := by rw [hep]; simp only [mul_assoc, mul_one]
    _ = 1 := by rw [hT, mul_one, hep]

/-! ### Round from centre and radius: the dual sphere `σ = up(c) − ½ r² einf` -/

def dualSphere (x ep en : A) (q ρ : ℚ) : A := up x ep en q - ρ • einf ep en

/-- `σ² = 2ρ = r²` -/
theorem dualSphere_sq (r : Rel x ep en q) (ρ : ℚ) : dualSphere x ep en q ρ * dualSphere x ep en q ρ = (2 * ρ) • (1 : A) := by
  unfold dualSphere up eo einf; cga_nf r; module

/-- `σ · einf = −1`, so `σ / (−σ·einf) = σ`: the normalisation inside `Round.radius` removes any scale -/
theorem dualSphere_dot_einf (r : Rel x ep en q) (ρ : ℚ) :
    (1/2 : ℚ) • (dualSphere x ep en q ρ * einf ep en + einf ep en * dualSphere x ep en q ρ) = -1 := by
  unfold dualSphere up eo einf; cga_nf r; module

/-- `σ einf σ = −2 up(c)`: the sandwich of `einf` is the centre (as a scaled null vector; `down` removes the scale) -/
theorem dualSphere_center (r : Rel x ep en q) (ρ : ℚ) :
    dualSphere x ep en q ρ * einf ep en * dualSphere x ep en q ρ = (-2 : ℚ) • up x ep en q := by
  unfold dualSphere up eo einf; cga_nf r; module

/-- the same through the duality: for `mv = λ σ J` with a pseudoscalar `J` that commutes or anticommutes with all vectors
    (`J v = ε v J`, `ε² = 1`, `J² = j`), `mv einf mv = (−2 λ² ε j) up(c)` -/
theorem round_center (r : Rel x ep en q) (ρ lam ε j : ℚ) (J : A) (hε : ε * ε = 1)
    (hJs : J * dualSphere x ep en q ρ = ε • (dualSphere x ep en q ρ * J)) (hJe : J * einf ep en = ε • (einf ep en * J))
    (hJ : J * J = j • (1 : A)) :
    (lam • (dualSphere x ep en q ρ * J)) * einf ep en * (lam • (dualSphere x ep en q ρ * J))
      = (-2 * lam * lam * j) • up x ep en q := by
  set σ := dualSphere x ep en q ρ with hσ
  have e1 : (lam • (σ * J)) * einf ep en * (lam • (σ * J)) = (lam * lam) • (σ * (J * einf ep en) * (σ * J)) := by
    simp only [smul_mul_assoc, mul_smul_comm, smul_smul, mul_assoc]
  have e2 : σ * (ε • (einf ep en * J)) * (σ * J) = ε • (σ * einf ep en * (J * σ) * J) := by
    simp only [smul_mul_assoc, mul_smul_comm, mul_assoc]
  have e3 : σ * einf ep en * (ε • (σ * J)) * J = ε • (σ * einf ep en * σ * (J * J)) := by
    simp only [smul_mul_assoc, mul_smul_comm, mul_assoc]
  rw [e1, hJe, e2, hJs, e3, hJ, hσ, dualSphere_center r, smul_smul, smul_smul, mul_smul_comm, mul_one, smul_smul, smul_smul]
  congr 1
  linear_combination (-2 * lam * lam * j) * hε

/-- a point lies on the round exactly when its distance to the centre is the radius: `up(y)·σ = −½((x−y)² − r²)` -/
theorem point_on_round {y : A} {qy b : ℚ} (r : Rel x ep en q) (ry : Rel y ep en qy) (hxy : x * y + y * x = (2 * b) • (1 : A)) (ρ : ℚ) :
    (1/2 : ℚ) • (up y ep en qy * dualSphere x ep en q ρ + dualSphere x ep en q ρ * up y ep en qy)
      = (-(1/2 : ℚ) * ((q + qy - 2 * b) - 2 * ρ)) • (1 : A) := by
  have h1 := up_dot_up r ry hxy
  have h2 := up_dot_einf ry
  unfold dualSphere
  have : (1/2 : ℚ) • (up y ep en qy * (up x ep en q - ρ • einf ep en) + (up x ep en q - ρ • einf ep en) * up y ep en qy)
      = (1/2 : ℚ) • (up x ep en q * up y ep en qy + up y ep en qy * up x ep en q)
        - ρ • ((1/2 : ℚ) • (up y ep en qy * einf ep en + einf ep en * up y ep en qy)) := by
    simp only [mul_sub, sub_mul, mul_smul_comm, smul_mul_assoc]; module
  rw [this, h1, h2]; module

end Conf

/-! ### point pair → end points (`point_pair_to_end_points`), any ring -/
namespace PointPair
variable {A : Type} [Ring A] [Algebra ℚ A]

/-- two null vectors `P`, `Q` with `PQ + QP = 2γ` (`γ = P·Q`) -/
structure Null2 (P Q : A) (γ : ℚ) : Prop where
  hP : P * P = 0
  hQ : Q * Q = 0
  hQP : Q * P = (2 * γ) • (1 : A) - P * Q

variable {P Q : A} {γ : ℚ}

theorem Null2.hP' (h : Null2 P Q γ) (z : A) : P * (P * z) = 0 := by rw [← mul_assoc, h.hP, zero_mul]
theorem Null2.hQ' (h : Null2 P Q γ) (z : A) : Q * (Q * z) = 0 := by rw [← mul_assoc, h.hQ, zero_mul]
theorem Null2.hQP' (h : Null2 P Q γ) (z : A) : Q * (P * z) = (2 * γ) • z - P * (Q * z) := by
  rw [← mul_assoc, h.hQP, sub_mul, smul_mul_assoc, one_mul, mul_assoc]

/-- the point pair `T = P ∧ Q = ½(PQ − QP)` -/
def pp (P Q : A) : A := (1/2 : ℚ) • (P * Q - Q * P)

macro "pp_nf" h:term : tactic => `(tactic| (
  simp only [mul_add, add_mul, mul_sub, sub_mul, smul_mul_assoc, mul_smul_comm, smul_smul, mul_assoc, mul_one, one_mul,
    neg_mul, mul_neg, neg_neg, smul_neg, neg_smul, smul_add, smul_sub, mul_zero, zero_mul, smul_zero, sub_zero, zero_sub, add_zero, zero_add,
    ($h).hP, ($h).hQ, ($h).hQP, ($h).hP', ($h).hQ', ($h).hQP']))

/-- `T P = γ P`, `T Q = −γ Q`, `T² = γ²`: so with `β = √|T²| = −γ` (points at positive distance: `γ < 0`) the idempotents
    `½(1 ± T/β)` split the pair -/
theorem pp_mul_P (h : Null2 P Q γ) : pp P Q * P = γ • P := by unfold pp; pp_nf h; module
theorem pp_mul_Q (h : Null2 P Q γ) : pp P Q * Q = (-γ) • Q := by unfold pp; pp_nf h; module
theorem pp_sq (h : Null2 P Q γ) : pp P Q * pp P Q = (γ * γ) • (1 : A) := by unfold pp; pp_nf h; module

/-- `T | einf = ½(T einf − einf T) = Q − P` when both points are normalised (`P·einf = Q·einf = −1`) -/
theorem pp_dot_einf (h : Null2 P Q γ) (e : A) (hPe : e * P = (-2 : ℚ) • (1 : A) - P * e) (hQe : e * Q = (-2 : ℚ) • (1 : A) - Q * e) :
    (1/2 : ℚ) • (pp P Q * e - e * pp P Q) = Q - P := by
  have hPe' (z : A) : e * (P * z) = (-2 : ℚ) • z - P * (e * z) := by
    rw [← mul_assoc, hPe, sub_mul, smul_mul_assoc, one_mul, mul_assoc]
  have hQe' (z : A) : e * (Q * z) = (-2 : ℚ) • z - Q * (e * z) := by
    rw [← mul_assoc, hQe, sub_mul, smul_mul_assoc, one_mul, mul_assoc]
  unfold pp
  simp only [mul_add, add_mul, mul_sub, sub_mul, smul_mul_assoc, mul_smul_comm, smul_smul, mul_assoc, mul_one, one_mul,
    smul_sub, hPe, hQe, hPe', hQe']
  module

/-- **the end points come back**: with `F = T/β`, `β = −γ ≠ 0`: `½(1 + F)(Q − P) = Q` and `−½(1 − F)(Q − P) = P` -/
theorem end_points (h : Null2 P Q γ) (hγ : γ ≠ 0) :
    ((1/2 : ℚ) • ((-1/γ) • pp P Q) + (1/2 : ℚ) • (1 : A)) * (Q - P) = Q
    ∧ -(((-(1/2) : ℚ)) • ((-1/γ) • pp P Q) + (1/2 : ℚ) • (1 : A)) * (Q - P) = P := by
  have hg : (-1 / γ) * γ = -1 := div_mul_cancel₀ (-1) hγ
  have e2 : (1/2 : ℚ) * (-1/γ) * γ = -(1/2) := by rw [mul_assoc, hg]; norm_num
  have e1 : (1/2 : ℚ) * (-1/γ) * -γ = 1/2 := by rw [mul_neg, e2]; norm_num
  constructor
  · simp only [add_mul, smul_mul_assoc, mul_sub, pp_mul_P h, pp_mul_Q h, one_mul, smul_smul]
    rw [e1, e2]; module
  · simp only [neg_mul, add_mul, smul_mul_assoc, mul_sub, pp_mul_P h, pp_mul_Q h, one_mul, smul_smul]
    rw [e1, e2]; module

end PointPair
