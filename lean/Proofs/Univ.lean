import Proofs.Iso

/-! C01: the universal property of the Clifford algebra, stated for the model itself -/
variable {R : Type} [CommRing R] {n : Nat} {sig : Nat → R}

namespace Cl
open CliffordAlgebra

/-- **universal property**: every linear map `f` from `R^n` into an `R`-algebra with `f(v)² = Σ sig_i v_i²` extends to exactly one algebra
    homomorphism from the model that sends the model's vector `v` to `f v` -/
theorem universal_property {A : Type} [Ring A] [Algebra R A] (f : (Fin n → R) →ₗ[R] A)
    (hf : ∀ v, f v * f v = algebraMap R A (Q n sig v)) :
    ∃! F : Cl n sig →ₐ[R] A, ∀ v, F (vec v : Cl n sig) = f v := by
  let E := mathlibEquiv n sig
  have hE : ∀ v, E (ι (Q n sig) v) = (vec v : Cl n sig) := fun v => fromMathlib_ι v
  refine ⟨(CliffordAlgebra.lift (Q n sig) ⟨f, hf⟩).comp E.symm.toAlgHom, ?_, ?_⟩
  · intro v
    show (CliffordAlgebra.lift (Q n sig) ⟨f, hf⟩) (E.symm (vec v : Cl n sig)) = f v
    rw [← hE v, AlgEquiv.symm_apply_apply, CliffordAlgebra.lift_ι_apply]
  · intro G hG
    have h : G.comp E.toAlgHom = CliffordAlgebra.lift (Q n sig) ⟨f, hf⟩ := by
      apply CliffordAlgebra.hom_ext
      apply LinearMap.ext
      intro v
      simp only [LinearMap.comp_apply, AlgHom.toLinearMap_apply, AlgHom.comp_apply, CliffordAlgebra.lift_ι_apply]
      show G (E (ι (Q n sig) v)) = f v
      rw [hE v, hG v]
    ext x
    have := congrArg (fun H => H (E.symm x)) h
    simpa using this

end Cl
