import Proofs.Hitzer5a
open Finset

/-! C05, n = 5, steps 2 and 3 -/

variable {R : Type} [CommRing R]

theorem arev5_3 (sig : Nat → R) (A : CMV 5 R)
    (h1 : A ⟨1, by decide⟩ = 0)
    (h2 : A ⟨2, by decide⟩ = 0)
    (h4 : A ⟨4, by decide⟩ = 0)
    (h8 : A ⟨8, by decide⟩ = 0)
    (h16 : A ⟨16, by decide⟩ = 0)
    (h3 : A ⟨3, by decide⟩ = 0)
    (h5 : A ⟨5, by decide⟩ = 0)
    (h6 : A ⟨6, by decide⟩ = 0)
    (h9 : A ⟨9, by decide⟩ = 0)
    (h10 : A ⟨10, by decide⟩ = 0)
    (h12 : A ⟨12, by decide⟩ = 0)
    (h17 : A ⟨17, by decide⟩ = 0)
    (h18 : A ⟨18, by decide⟩ = 0)
    (h20 : A ⟨20, by decide⟩ = 0)
    (h24 : A ⟨24, by decide⟩ = 0)
    (h31 : A ⟨31, by decide⟩ = 0) :
    gmul 5 sig A (rev 5 A) ⟨3, by decide⟩ = 0 := by
  have k1 : A 1 = 0 := h1
  have k2 : A 2 = 0 := h2
  have k4 : A 4 = 0 := h4
  have k8 : A 8 = 0 := h8
  have k16 : A 16 = 0 := h16
  have k3 : A 3 = 0 := h3
  have k5 : A 5 = 0 := h5
  have k6 : A 6 = 0 := h6
  have k9 : A 9 = 0 := h9
  have k10 : A 10 = 0 := h10
  have k12 : A 12 = 0 := h12
  have k17 : A 17 = 0 := h17
  have k18 : A 18 = 0 := h18
  have k20 : A 20 = 0 := h20
  have k24 : A 24 = 0 := h24
  have k31 : A 31 = 0 := h31
  simp only [gmul, rev, Finset.sum_fin_eq_sum_range]
  simp +decide [Finset.sum_range_succ, fxor, s, swaps, metric, sgn, pc, bit, Finset.prod_range_succ, revSign, tri, k1, k2, k4, k8, k16, k3, k5, k6, k9, k10, k12, k17, k18, k20, k24, k31]
  try ring

theorem arev5_5 (sig : Nat → R) (A : CMV 5 R)
    (h1 : A ⟨1, by decide⟩ = 0)
    (h2 : A ⟨2, by decide⟩ = 0)
    (h4 : A ⟨4, by decide⟩ = 0)
    (h8 : A ⟨8, by decide⟩ = 0)
    (h16 : A ⟨16, by decide⟩ = 0)
    (h3 : A ⟨3, by decide⟩ = 0)
    (h5 : A ⟨5, by decide⟩ = 0)
    (h6 : A ⟨6, by decide⟩ = 0)
    (h9 : A ⟨9, by decide⟩ = 0)
    (h10 : A ⟨10, by decide⟩ = 0)
    (h12 : A ⟨12, by decide⟩ = 0)
    (h17 : A ⟨17, by decide⟩ = 0)
    (h18 : A ⟨18, by decide⟩ = 0)
    (h20 : A ⟨20, by decide⟩ = 0)
    (h24 : A ⟨24, by decide⟩ = 0)
    (h31 : A ⟨31, by decide⟩ = 0) :
    gmul 5 sig A (rev 5 A) ⟨5, by decide⟩ = 0 := by
  have k1 : A 1 = 0 := h1
  have k2 : A 2 = 0 := h2
  have k4 : A 4 = 0 := h4
  have k8 : A 8 = 0 := h8
  have k16 : A 16 = 0 := h16
  have k3 : A 3 = 0 := h3
  have k5 : A 5 = 0 := h5
  have k6 : A 6 = 0 := h6
  have k9 : A 9 = 0 := h9
  have k10 : A 10 = 0 := h10
  have k12 : A 12 = 0 := h12
  have k17 : A 17 = 0 := h17
  have k18 : A 18 = 0 := h18
  have k20 : A 20 = 0 := h20
  have k24 : A 24 = 0 := h24
  have k31 : A 31 = 0 := h31
  simp only [gmul, rev, Finset.sum_fin_eq_sum_range]
  simp +decide [Finset.sum_range_succ, fxor, s, swaps, metric, sgn, pc, bit, Finset.prod_range_succ, revSign, tri, k1, k2, k4, k8, k16, k3, k5, k6, k9, k10, k12, k17, k18, k20, k24, k31]
  try ring

theorem arev5_6 (sig : Nat → R) (A : CMV 5 R)
    (h1 : A ⟨1, by decide⟩ = 0)
    (h2 : A ⟨2, by decide⟩ = 0)
    (h4 : A ⟨4, by decide⟩ = 0)
    (h8 : A ⟨8, by decide⟩ = 0)
    (h16 : A ⟨16, by decide⟩ = 0)
    (h3 : A ⟨3, by decide⟩ = 0)
    (h5 : A ⟨5, by decide⟩ = 0)
    (h6 : A ⟨6, by decide⟩ = 0)
    (h9 : A ⟨9, by decide⟩ = 0)
    (h10 : A ⟨10, by decide⟩ = 0)
    (h12 : A ⟨12, by decide⟩ = 0)
    (h17 : A ⟨17, by decide⟩ = 0)
    (h18 : A ⟨18, by decide⟩ = 0)
    (h20 : A ⟨20, by decide⟩ = 0)
    (h24 : A ⟨24, by decide⟩ = 0)
    (h31 : A ⟨31, by decide⟩ = 0) :
    gmul 5 sig A (rev 5 A) ⟨6, by decide⟩ = 0 := by
  have k1 : A 1 = 0 := h1
  have k2 : A 2 = 0 := h2
  have k4 : A 4 = 0 := h4
  have k8 : A 8 = 0 := h8
  have k16 : A 16 = 0 := h16
  have k3 : A 3 = 0 := h3
  have k5 : A 5 = 0 := h5
  have k6 : A 6 = 0 := h6
  have k9 : A 9 = 0 := h9
  have k10 : A 10 = 0 := h10
  have k12 : A 12 = 0 := h12
  have k17 : A 17 = 0 := h17
  have k18 : A 18 = 0 := h18
  have k20 : A 20 = 0 := h20
  have k24 : A 24 = 0 := h24
  have k31 : A 31 = 0 := h31
  simp only [gmul, rev, Finset.sum_fin_eq_sum_range]
  simp +decide [Finset.sum_range_succ, fxor, s, swaps, metric, sgn, pc, bit, Finset.prod_range_succ, revSign, tri, k1, k2, k4, k8, k16, k3, k5, k6, k9, k10, k12, k17, k18, k20, k24, k31]
  try ring

theorem arev5_9 (sig : Nat → R) (A : CMV 5 R)
    (h1 : A ⟨1, by decide⟩ = 0)
    (h2 : A ⟨2, by decide⟩ = 0)
    (h4 : A ⟨4, by decide⟩ = 0)
    (h8 : A ⟨8, by decide⟩ = 0)
    (h16 : A ⟨16, by decide⟩ = 0)
    (h3 : A ⟨3, by decide⟩ = 0)
    (h5 : A ⟨5, by decide⟩ = 0)
    (h6 : A ⟨6, by decide⟩ = 0)
    (h9 : A ⟨9, by decide⟩ = 0)
    (h10 : A ⟨10, by decide⟩ = 0)
    (h12 : A ⟨12, by decide⟩ = 0)
    (h17 : A ⟨17, by decide⟩ = 0)
    (h18 : A ⟨18, by decide⟩ = 0)
    (h20 : A ⟨20, by decide⟩ = 0)
    (h24 : A ⟨24, by decide⟩ = 0)
    (h31 : A ⟨31, by decide⟩ = 0) :
    gmul 5 sig A (rev 5 A) ⟨9, by decide⟩ = 0 := by
  have k1 : A 1 = 0 := h1
  have k2 : A 2 = 0 := h2
  have k4 : A 4 = 0 := h4
  have k8 : A 8 = 0 := h8
  have k16 : A 16 = 0 := h16
  have k3 : A 3 = 0 := h3
  have k5 : A 5 = 0 := h5
  have k6 : A 6 = 0 := h6
  have k9 : A 9 = 0 := h9
  have k10 : A 10 = 0 := h10
  have k12 : A 12 = 0 := h12
  have k17 : A 17 = 0 := h17
  have k18 : A 18 = 0 := h18
  have k20 : A 20 = 0 := h20
  have k24 : A 24 = 0 := h24
  have k31 : A 31 = 0 := h31
  simp only [gmul, rev, Finset.sum_fin_eq_sum_range]
  simp +decide [Finset.sum_range_succ, fxor, s, swaps, metric, sgn, pc, bit, Finset.prod_range_succ, revSign, tri, k1, k2, k4, k8, k16, k3, k5, k6, k9, k10, k12, k17, k18, k20, k24, k31]
  try ring

theorem arev5_10 (sig : Nat → R) (A : CMV 5 R)
    (h1 : A ⟨1, by decide⟩ = 0)
    (h2 : A ⟨2, by decide⟩ = 0)
    (h4 : A ⟨4, by decide⟩ = 0)
    (h8 : A ⟨8, by decide⟩ = 0)
    (h16 : A ⟨16, by decide⟩ = 0)
    (h3 : A ⟨3, by decide⟩ = 0)
    (h5 : A ⟨5, by decide⟩ = 0)
    (h6 : A ⟨6, by decide⟩ = 0)
    (h9 : A ⟨9, by decide⟩ = 0)
    (h10 : A ⟨10, by decide⟩ = 0)
    (h12 : A ⟨12, by decide⟩ = 0)
    (h17 : A ⟨17, by decide⟩ = 0)
    (h18 : A ⟨18, by decide⟩ = 0)
    (h20 : A ⟨20, by decide⟩ = 0)
    (h24 : A ⟨24, by decide⟩ = 0)
    (h31 : A ⟨31, by decide⟩ = 0) :
    gmul 5 sig A (rev 5 A) ⟨10, by decide⟩ = 0 := by
  have k1 : A 1 = 0 := h1
  have k2 : A 2 = 0 := h2
  have k4 : A 4 = 0 := h4
  have k8 : A 8 = 0 := h8
  have k16 : A 16 = 0 := h16
  have k3 : A 3 = 0 := h3
  have k5 : A 5 = 0 := h5
  have k6 : A 6 = 0 := h6
  have k9 : A 9 = 0 := h9
  have k10 : A 10 = 0 := h10
  have k12 : A 12 = 0 := h12
  have k17 : A 17 = 0 := h17
  have k18 : A 18 = 0 := h18
  have k20 : A 20 = 0 := h20
  have k24 : A 24 = 0 := h24
  have k31 : A 31 = 0 := h31
  simp only [gmul, rev, Finset.sum_fin_eq_sum_range]
  simp +decide [Finset.sum_range_succ, fxor, s, swaps, metric, sgn, pc, bit, Finset.prod_range_succ, revSign, tri, k1, k2, k4, k8, k16, k3, k5, k6, k9, k10, k12, k17, k18, k20, k24, k31]
  try ring

theorem arev5_12 (sig : Nat → R) (A : CMV 5 R)
    (h1 : A ⟨1, by decide⟩ = 0)
    (h2 : A ⟨2, by decide⟩ = 0)
    (h4 : A ⟨4, by decide⟩ = 0)
    (h8 : A ⟨8, by decide⟩ = 0)
    (h16 : A ⟨16, by decide⟩ = 0)
    (h3 : A ⟨3, by decide⟩ = 0)
    (h5 : A ⟨5, by decide⟩ = 0)
    (h6 : A ⟨6, by decide⟩ = 0)
    (h9 : A ⟨9, by decide⟩ = 0)
    (h10 : A ⟨10, by decide⟩ = 0)
    (h12 : A ⟨12, by decide⟩ = 0)
    (h17 : A ⟨17, by decide⟩ = 0)
    (h18 : A ⟨18, by decide⟩ = 0)
    (h20 : A ⟨20, by decide⟩ = 0)
    (h24 : A ⟨24, by decide⟩ = 0)
    (h31 : A ⟨31, by decide⟩ = 0) :
    gmul 5 sig A (rev 5 A) ⟨12, by decide⟩ = 0 := by
  have k1 : A 1 = 0 := h1
  have k2 : A 2 = 0 := h2
  have k4 : A 4 = 0 := h4
  have k8 : A 8 = 0 := h8
  have k16 : A 16 = 0 := h16
  have k3 : A 3 = 0 := h3
  have k5 : A 5 = 0 := h5
  have k6 : A 6 = 0 := h6
  have k9 : A 9 = 0 := h9
  have k10 : A 10 = 0 := h10
  have k12 : A 12 = 0 := h12
  have k17 : A 17 = 0 := h17
  have k18 : A 18 = 0 := h18
  have k20 : A 20 = 0 := h20
  have k24 : A 24 = 0 := h24
  have k31 : A 31 = 0 := h31
  simp only [gmul, rev, Finset.sum_fin_eq_sum_range]
  simp +decide [Finset.sum_range_succ, fxor, s, swaps, metric, sgn, pc, bit, Finset.prod_range_succ, revSign, tri, k1, k2, k4, k8, k16, k3, k5, k6, k9, k10, k12, k17, k18, k20, k24, k31]
  try ring

theorem arev5_17 (sig : Nat → R) (A : CMV 5 R)
    (h1 : A ⟨1, by decide⟩ = 0)
    (h2 : A ⟨2, by decide⟩ = 0)
    (h4 : A ⟨4, by decide⟩ = 0)
    (h8 : A ⟨8, by decide⟩ = 0)
    (h16 : A ⟨16, by decide⟩ = 0)
    (h3 : A ⟨3, by decide⟩ = 0)
    (h5 : A ⟨5, by decide⟩ = 0)
    (h6 : A ⟨6, by decide⟩ = 0)
    (h9 : A ⟨9, by decide⟩ = 0)
    (h10 : A ⟨10, by decide⟩ = 0)
    (h12 : A ⟨12, by decide⟩ = 0)
    (h17 : A ⟨17, by decide⟩ = 0)
    (h18 : A ⟨18, by decide⟩ = 0)
    (h20 : A ⟨20, by decide⟩ = 0)
    (h24 : A ⟨24, by decide⟩ = 0)
    (h31 : A ⟨31, by decide⟩ = 0) :
    gmul 5 sig A (rev 5 A) ⟨17, by decide⟩ = 0 := by
  have k1 : A 1 = 0 := h1
  have k2 : A 2 = 0 := h2
  have k4 : A 4 = 0 := h4
  have k8 : A 8 = 0 := h8
  have k16 : A 16 = 0 := h16
  have k3 : A 3 = 0 := h3
  have k5 : A 5 = 0 := h5
  have k6 : A 6 = 0 := h6
  have k9 : A 9 = 0 := h9
  have k10 : A 10 = 0 := h10
  have k12 : A 12 = 0 := h12
  have k17 : A 17 = 0 := h17
  have k18 : A 18 = 0 := h18
  have k20 : A 20 = 0 := h20
  have k24 : A 24 = 0 := h24
  have k31 : A 31 = 0 := h31
  simp only [gmul, rev, Finset.sum_fin_eq_sum_range]
  simp +decide [Finset.sum_range_succ, fxor, s, swaps, metric, sgn, pc, bit, Finset.prod_range_succ, revSign, tri, k1, k2, k4, k8, k16, k3, k5, k6, k9, k10, k12, k17, k18, k20, k24, k31]
  try ring

theorem arev5_18 (sig : Nat → R) (A : CMV 5 R)
    (h1 : A ⟨1, by decide⟩ = 0)
    (h2 : A ⟨2, by decide⟩ = 0)
    (h4 : A ⟨4, by decide⟩ = 0)
    (h8 : A ⟨8, by decide⟩ = 0)
    (h16 : A ⟨16, by decide⟩ = 0)
    (h3 : A ⟨3, by decide⟩ = 0)
    (h5 : A ⟨5, by decide⟩ = 0)
    (h6 : A ⟨6, by decide⟩ = 0)
    (h9 : A ⟨9, by decide⟩ = 0)
    (h10 : A ⟨10, by decide⟩ = 0)
    (h12 : A ⟨12, by decide⟩ = 0)
    (h17 : A ⟨17, by decide⟩ = 0)
    (h18 : A ⟨18, by decide⟩ = 0)
    (h20 : A ⟨20, by decide⟩ = 0)
    (h24 : A ⟨24, by decide⟩ = 0)
    (h31 : A ⟨31, by decide⟩ = 0) :
    gmul 5 sig A (rev 5 A) ⟨18, by decide⟩ = 0 := by
  have k1 : A 1 = 0 := h1
  have k2 : A 2 = 0 := h2
  have k4 : A 4 = 0 := h4
  have k8 : A 8 = 0 := h8
  have k16 : A 16 = 0 := h16
  have k3 : A 3 = 0 := h3
  have k5 : A 5 = 0 := h5
  have k6 : A 6 = 0 := h6
  have k9 : A 9 = 0 := h9
  have k10 : A 10 = 0 := h10
  have k12 : A 12 = 0 := h12
  have k17 : A 17 = 0 := h17
  have k18 : A 18 = 0 := h18
  have k20 : A 20 = 0 := h20
  have k24 : A 24 = 0 := h24
  have k31 : A 31 = 0 := h31
  simp only [gmul, rev, Finset.sum_fin_eq_sum_range]
  simp +decide [Finset.sum_range_succ, fxor, s, swaps, metric, sgn, pc, bit, Finset.prod_range_succ, revSign, tri, k1, k2, k4, k8, k16, k3, k5, k6, k9, k10, k12, k17, k18, k20, k24, k31]
  try ring

theorem arev5_20 (sig : Nat → R) (A : CMV 5 R)
    (h1 : A ⟨1, by decide⟩ = 0)
    (h2 : A ⟨2, by decide⟩ = 0)
    (h4 : A ⟨4, by decide⟩ = 0)
    (h8 : A ⟨8, by decide⟩ = 0)
    (h16 : A ⟨16, by decide⟩ = 0)
    (h3 : A ⟨3, by decide⟩ = 0)
    (h5 : A ⟨5, by decide⟩ = 0)
    (h6 : A ⟨6, by decide⟩ = 0)
    (h9 : A ⟨9, by decide⟩ = 0)
    (h10 : A ⟨10, by decide⟩ = 0)
    (h12 : A ⟨12, by decide⟩ = 0)
    (h17 : A ⟨17, by decide⟩ = 0)
    (h18 : A ⟨18, by decide⟩ = 0)
    (h20 : A ⟨20, by decide⟩ = 0)
    (h24 : A ⟨24, by decide⟩ = 0)
    (h31 : A ⟨31, by decide⟩ = 0) :
    gmul 5 sig A (rev 5 A) ⟨20, by decide⟩ = 0 := by
  have k1 : A 1 = 0 := h1
  have k2 : A 2 = 0 := h2
  have k4 : A 4 = 0 := h4
  have k8 : A 8 = 0 := h8
  have k16 : A 16 = 0 := h16
  have k3 : A 3 = 0 := h3
  have k5 : A 5 = 0 := h5
  have k6 : A 6 = 0 := h6
  have k9 : A 9 = 0 := h9
  have k10 : A 10 = 0 := h10
  have k12 : A 12 = 0 := h12
  have k17 : A 17 = 0 := h17
  have k18 : A 18 = 0 := h18
  have k20 : A 20 = 0 := h20
  have k24 : A 24 = 0 := h24
  have k31 : A 31 = 0 := h31
  simp only [gmul, rev, Finset.sum_fin_eq_sum_range]
  simp +decide [Finset.sum_range_succ, fxor, s, swaps, metric, sgn, pc, bit, Finset.prod_range_succ, revSign, tri, k1, k2, k4, k8, k16, k3, k5, k6, k9, k10, k12, k17, k18, k20, k24, k31]
  try ring

theorem arev5_24 (sig : Nat → R) (A : CMV 5 R)
    (h1 : A ⟨1, by decide⟩ = 0)
    (h2 : A ⟨2, by decide⟩ = 0)
    (h4 : A ⟨4, by decide⟩ = 0)
    (h8 : A ⟨8, by decide⟩ = 0)
    (h16 : A ⟨16, by decide⟩ = 0)
    (h3 : A ⟨3, by decide⟩ = 0)
    (h5 : A ⟨5, by decide⟩ = 0)
    (h6 : A ⟨6, by decide⟩ = 0)
    (h9 : A ⟨9, by decide⟩ = 0)
    (h10 : A ⟨10, by decide⟩ = 0)
    (h12 : A ⟨12, by decide⟩ = 0)
    (h17 : A ⟨17, by decide⟩ = 0)
    (h18 : A ⟨18, by decide⟩ = 0)
    (h20 : A ⟨20, by decide⟩ = 0)
    (h24 : A ⟨24, by decide⟩ = 0)
    (h31 : A ⟨31, by decide⟩ = 0) :
    gmul 5 sig A (rev 5 A) ⟨24, by decide⟩ = 0 := by
  have k1 : A 1 = 0 := h1
  have k2 : A 2 = 0 := h2
  have k4 : A 4 = 0 := h4
  have k8 : A 8 = 0 := h8
  have k16 : A 16 = 0 := h16
  have k3 : A 3 = 0 := h3
  have k5 : A 5 = 0 := h5
  have k6 : A 6 = 0 := h6
  have k9 : A 9 = 0 := h9
  have k10 : A 10 = 0 := h10
  have k12 : A 12 = 0 := h12
  have k17 : A 17 = 0 := h17
  have k18 : A 18 = 0 := h18
  have k20 : A 20 = 0 := h20
  have k24 : A 24 = 0 := h24
  have k31 : A 31 = 0 := h31
  simp only [gmul, rev, Finset.sum_fin_eq_sum_range]
  simp +decide [Finset.sum_range_succ, fxor, s, swaps, metric, sgn, pc, bit, Finset.prod_range_succ, revSign, tri, k1, k2, k4, k8, k16, k3, k5, k6, k9, k10, k12, k17, k18, k20, k24, k31]
  try ring

theorem arev5_7 (sig : Nat → R) (A : CMV 5 R)
    (h1 : A ⟨1, by decide⟩ = 0)
    (h2 : A ⟨2, by decide⟩ = 0)
    (h4 : A ⟨4, by decide⟩ = 0)
    (h8 : A ⟨8, by decide⟩ = 0)
    (h16 : A ⟨16, by decide⟩ = 0)
    (h3 : A ⟨3, by decide⟩ = 0)
    (h5 : A ⟨5, by decide⟩ = 0)
    (h6 : A ⟨6, by decide⟩ = 0)
    (h9 : A ⟨9, by decide⟩ = 0)
    (h10 : A ⟨10, by decide⟩ = 0)
    (h12 : A ⟨12, by decide⟩ = 0)
    (h17 : A ⟨17, by decide⟩ = 0)
    (h18 : A ⟨18, by decide⟩ = 0)
    (h20 : A ⟨20, by decide⟩ = 0)
    (h24 : A ⟨24, by decide⟩ = 0)
    (h31 : A ⟨31, by decide⟩ = 0) :
    gmul 5 sig A (rev 5 A) ⟨7, by decide⟩ = 0 := by
  have k1 : A 1 = 0 := h1
  have k2 : A 2 = 0 := h2
  have k4 : A 4 = 0 := h4
  have k8 : A 8 = 0 := h8
  have k16 : A 16 = 0 := h16
  have k3 : A 3 = 0 := h3
  have k5 : A 5 = 0 := h5
  have k6 : A 6 = 0 := h6
  have k9 : A 9 = 0 := h9
  have k10 : A 10 = 0 := h10
  have k12 : A 12 = 0 := h12
  have k17 : A 17 = 0 := h17
  have k18 : A 18 = 0 := h18
  have k20 : A 20 = 0 := h20
  have k24 : A 24 = 0 := h24
  have k31 : A 31 = 0 := h31
  simp only [gmul, rev, Finset.sum_fin_eq_sum_range]
  simp +decide [Finset.sum_range_succ, fxor, s, swaps, metric, sgn, pc, bit, Finset.prod_range_succ, revSign, tri, k1, k2, k4, k8, k16, k3, k5, k6, k9, k10, k12, k17, k18, k20, k24, k31]
  try ring

theorem arev5_11 (sig : Nat → R) (A : CMV 5 R)
    (h1 : A ⟨1, by decide⟩ = 0)
    (h2 : A ⟨2, by decide⟩ = 0)
    (h4 : A ⟨4, by decide⟩ = 0)
    (h8 : A ⟨8, by decide⟩ = 0)
    (h16 : A ⟨16, by decide⟩ = 0)
    (h3 : A ⟨3, by decide⟩ = 0)
    (h5 : A ⟨5, by decide⟩ = 0)
    (h6 : A ⟨6, by decide⟩ = 0)
    (h9 : A ⟨9, by decide⟩ = 0)
    (h10 : A ⟨10, by decide⟩ = 0)
    (h12 : A ⟨12, by decide⟩ = 0)
    (h17 : A ⟨17, by decide⟩ = 0)
    (h18 : A ⟨18, by decide⟩ = 0)
    (h20 : A ⟨20, by decide⟩ = 0)
    (h24 : A ⟨24, by decide⟩ = 0)
    (h31 : A ⟨31, by decide⟩ = 0) :
    gmul 5 sig A (rev 5 A) ⟨11, by decide⟩ = 0 := by
  have k1 : A 1 = 0 := h1
  have k2 : A 2 = 0 := h2
  have k4 : A 4 = 0 := h4
  have k8 : A 8 = 0 := h8
  have k16 : A 16 = 0 := h16
  have k3 : A 3 = 0 := h3
  have k5 : A 5 = 0 := h5
  have k6 : A 6 = 0 := h6
  have k9 : A 9 = 0 := h9
  have k10 : A 10 = 0 := h10
  have k12 : A 12 = 0 := h12
  have k17 : A 17 = 0 := h17
  have k18 : A 18 = 0 := h18
  have k20 : A 20 = 0 := h20
  have k24 : A 24 = 0 := h24
  have k31 : A 31 = 0 := h31
  simp only [gmul, rev, Finset.sum_fin_eq_sum_range]
  simp +decide [Finset.sum_range_succ, fxor, s, swaps, metric, sgn, pc, bit, Finset.prod_range_succ, revSign, tri, k1, k2, k4, k8, k16, k3, k5, k6, k9, k10, k12, k17, k18, k20, k24, k31]
  try ring

theorem arev5_13 (sig : Nat → R) (A : CMV 5 R)
    (h1 : A ⟨1, by decide⟩ = 0)
    (h2 : A ⟨2, by decide⟩ = 0)
    (h4 : A ⟨4, by decide⟩ = 0)
    (h8 : A ⟨8, by decide⟩ = 0)
    (h16 : A ⟨16, by decide⟩ = 0)
    (h3 : A ⟨3, by decide⟩ = 0)
    (h5 : A ⟨5, by decide⟩ = 0)
    (h6 : A ⟨6, by decide⟩ = 0)
    (h9 : A ⟨9, by decide⟩ = 0)
    (h10 : A ⟨10, by decide⟩ = 0)
    (h12 : A ⟨12, by decide⟩ = 0)
    (h17 : A ⟨17, by decide⟩ = 0)
    (h18 : A ⟨18, by decide⟩ = 0)
    (h20 : A ⟨20, by decide⟩ = 0)
    (h24 : A ⟨24, by decide⟩ = 0)
    (h31 : A ⟨31, by decide⟩ = 0) :
    gmul 5 sig A (rev 5 A) ⟨13, by decide⟩ = 0 := by
  have k1 : A 1 = 0 := h1
  have k2 : A 2 = 0 := h2
  have k4 : A 4 = 0 := h4
  have k8 : A 8 = 0 := h8
  have k16 : A 16 = 0 := h16
  have k3 : A 3 = 0 := h3
  have k5 : A 5 = 0 := h5
  have k6 : A 6 = 0 := h6
  have k9 : A 9 = 0 := h9
  have k10 : A 10 = 0 := h10
  have k12 : A 12 = 0 := h12
  have k17 : A 17 = 0 := h17
  have k18 : A 18 = 0 := h18
  have k20 : A 20 = 0 := h20
  have k24 : A 24 = 0 := h24
  have k31 : A 31 = 0 := h31
  simp only [gmul, rev, Finset.sum_fin_eq_sum_range]
  simp +decide [Finset.sum_range_succ, fxor, s, swaps, metric, sgn, pc, bit, Finset.prod_range_succ, revSign, tri, k1, k2, k4, k8, k16, k3, k5, k6, k9, k10, k12, k17, k18, k20, k24, k31]
  try ring

theorem arev5_14 (sig : Nat → R) (A : CMV 5 R)
    (h1 : A ⟨1, by decide⟩ = 0)
    (h2 : A ⟨2, by decide⟩ = 0)
    (h4 : A ⟨4, by decide⟩ = 0)
    (h8 : A ⟨8, by decide⟩ = 0)
    (h16 : A ⟨16, by decide⟩ = 0)
    (h3 : A ⟨3, by decide⟩ = 0)
    (h5 : A ⟨5, by decide⟩ = 0)
    (h6 : A ⟨6, by decide⟩ = 0)
    (h9 : A ⟨9, by decide⟩ = 0)
    (h10 : A ⟨10, by decide⟩ = 0)
    (h12 : A ⟨12, by decide⟩ = 0)
    (h17 : A ⟨17, by decide⟩ = 0)
    (h18 : A ⟨18, by decide⟩ = 0)
    (h20 : A ⟨20, by decide⟩ = 0)
    (h24 : A ⟨24, by decide⟩ = 0)
    (h31 : A ⟨31, by decide⟩ = 0) :
    gmul 5 sig A (rev 5 A) ⟨14, by decide⟩ = 0 := by
  have k1 : A 1 = 0 := h1
  have k2 : A 2 = 0 := h2
  have k4 : A 4 = 0 := h4
  have k8 : A 8 = 0 := h8
  have k16 : A 16 = 0 := h16
  have k3 : A 3 = 0 := h3
  have k5 : A 5 = 0 := h5
  have k6 : A 6 = 0 := h6
  have k9 : A 9 = 0 := h9
  have k10 : A 10 = 0 := h10
  have k12 : A 12 = 0 := h12
  have k17 : A 17 = 0 := h17
  have k18 : A 18 = 0 := h18
  have k20 : A 20 = 0 := h20
  have k24 : A 24 = 0 := h24
  have k31 : A 31 = 0 := h31
  simp only [gmul, rev, Finset.sum_fin_eq_sum_range]
  simp +decide [Finset.sum_range_succ, fxor, s, swaps, metric, sgn, pc, bit, Finset.prod_range_succ, revSign, tri, k1, k2, k4, k8, k16, k3, k5, k6, k9, k10, k12, k17, k18, k20, k24, k31]
  try ring

theorem arev5_19 (sig : Nat → R) (A : CMV 5 R)
    (h1 : A ⟨1, by decide⟩ = 0)
    (h2 : A ⟨2, by decide⟩ = 0)
    (h4 : A ⟨4, by decide⟩ = 0)
    (h8 : A ⟨8, by decide⟩ = 0)
    (h16 : A ⟨16, by decide⟩ = 0)
    (h3 : A ⟨3, by decide⟩ = 0)
    (h5 : A ⟨5, by decide⟩ = 0)
    (h6 : A ⟨6, by decide⟩ = 0)
    (h9 : A ⟨9, by decide⟩ = 0)
    (h10 : A ⟨10, by decide⟩ = 0)
    (h12 : A ⟨12, by decide⟩ = 0)
    (h17 : A ⟨17, by decide⟩ = 0)
    (h18 : A ⟨18, by decide⟩ = 0)
    (h20 : A ⟨20, by decide⟩ = 0)
    (h24 : A ⟨24, by decide⟩ = 0)
    (h31 : A ⟨31, by decide⟩ = 0) :
    gmul 5 sig A (rev 5 A) ⟨19, by decide⟩ = 0 := by
  have k1 : A 1 = 0 := h1
  have k2 : A 2 = 0 := h2
  have k4 : A 4 = 0 := h4
  have k8 : A 8 = 0 := h8
  have k16 : A 16 = 0 := h16
  have k3 : A 3 = 0 := h3
  have k5 : A 5 = 0 := h5
  have k6 : A 6 = 0 := h6
  have k9 : A 9 = 0 := h9
  have k10 : A 10 = 0 := h10
  have k12 : A 12 = 0 := h12
  have k17 : A 17 = 0 := h17
  have k18 : A 18 = 0 := h18
  have k20 : A 20 = 0 := h20
  have k24 : A 24 = 0 := h24
  have k31 : A 31 = 0 := h31
  simp only [gmul, rev, Finset.sum_fin_eq_sum_range]
  simp +decide [Finset.sum_range_succ, fxor, s, swaps, metric, sgn, pc, bit, Finset.prod_range_succ, revSign, tri, k1, k2, k4, k8, k16, k3, k5, k6, k9, k10, k12, k17, k18, k20, k24, k31]
  try ring

theorem arev5_21 (sig : Nat → R) (A : CMV 5 R)
    (h1 : A ⟨1, by decide⟩ = 0)
    (h2 : A ⟨2, by decide⟩ = 0)
    (h4 : A ⟨4, by decide⟩ = 0)
    (h8 : A ⟨8, by decide⟩ = 0)
    (h16 : A ⟨16, by decide⟩ = 0)
    (h3 : A ⟨3, by decide⟩ = 0)
    (h5 : A ⟨5, by decide⟩ = 0)
    (h6 : A ⟨6, by decide⟩ = 0)
    (h9 : A ⟨9, by decide⟩ = 0)
    (h10 : A ⟨10, by decide⟩ = 0)
    (h12 : A ⟨12, by decide⟩ = 0)
    (h17 : A ⟨17, by decide⟩ = 0)
    (h18 : A ⟨18, by decide⟩ = 0)
    (h20 : A ⟨20, by decide⟩ = 0)
    (h24 : A ⟨24, by decide⟩ = 0)
    (h31 : A ⟨31, by decide⟩ = 0) :
    gmul 5 sig A (rev 5 A) ⟨21, by decide⟩ = 0 := by
  have k1 : A 1 = 0 := h1
  have k2 : A 2 = 0 := h2
  have k4 : A 4 = 0 := h4
  have k8 : A 8 = 0 := h8
  have k16 : A 16 = 0 := h16
  have k3 : A 3 = 0 := h3
  have k5 : A 5 = 0 := h5
  have k6 : A 6 = 0 := h6
  have k9 : A 9 = 0 := h9
  have k10 : A 10 = 0 := h10
  have k12 : A 12 = 0 := h12
  have k17 : A 17 = 0 := h17
  have k18 : A 18 = 0 := h18
  have k20 : A 20 = 0 := h20
  have k24 : A 24 = 0 := h24
  have k31 : A 31 = 0 := h31
  simp only [gmul, rev, Finset.sum_fin_eq_sum_range]
  simp +decide [Finset.sum_range_succ, fxor, s, swaps, metric, sgn, pc, bit, Finset.prod_range_succ, revSign, tri, k1, k2, k4, k8, k16, k3, k5, k6, k9, k10, k12, k17, k18, k20, k24, k31]
  try ring

theorem arev5_22 (sig : Nat → R) (A : CMV 5 R)
    (h1 : A ⟨1, by decide⟩ = 0)
    (h2 : A ⟨2, by decide⟩ = 0)
    (h4 : A ⟨4, by decide⟩ = 0)
    (h8 : A ⟨8, by decide⟩ = 0)
    (h16 : A ⟨16, by decide⟩ = 0)
    (h3 : A ⟨3, by decide⟩ = 0)
    (h5 : A ⟨5, by decide⟩ = 0)
    (h6 : A ⟨6, by decide⟩ = 0)
    (h9 : A ⟨9, by decide⟩ = 0)
    (h10 : A ⟨10, by decide⟩ = 0)
    (h12 : A ⟨12, by decide⟩ = 0)
    (h17 : A ⟨17, by decide⟩ = 0)
    (h18 : A ⟨18, by decide⟩ = 0)
    (h20 : A ⟨20, by decide⟩ = 0)
    (h24 : A ⟨24, by decide⟩ = 0)
    (h31 : A ⟨31, by decide⟩ = 0) :
    gmul 5 sig A (rev 5 A) ⟨22, by decide⟩ = 0 := by
  have k1 : A 1 = 0 := h1
  have k2 : A 2 = 0 := h2
  have k4 : A 4 = 0 := h4
  have k8 : A 8 = 0 := h8
  have k16 : A 16 = 0 := h16
  have k3 : A 3 = 0 := h3
  have k5 : A 5 = 0 := h5
  have k6 : A 6 = 0 := h6
  have k9 : A 9 = 0 := h9
  have k10 : A 10 = 0 := h10
  have k12 : A 12 = 0 := h12
  have k17 : A 17 = 0 := h17
  have k18 : A 18 = 0 := h18
  have k20 : A 20 = 0 := h20
  have k24 : A 24 = 0 := h24
  have k31 : A 31 = 0 := h31
  simp only [gmul, rev, Finset.sum_fin_eq_sum_range]
  simp +decide [Finset.sum_range_succ, fxor, s, swaps, metric, sgn, pc, bit, Finset.prod_range_succ, revSign, tri, k1, k2, k4, k8, k16, k3, k5, k6, k9, k10, k12, k17, k18, k20, k24, k31]
  try ring

theorem arev5_25 (sig : Nat → R) (A : CMV 5 R)
    (h1 : A ⟨1, by decide⟩ = 0)
    (h2 : A ⟨2, by decide⟩ = 0)
    (h4 : A ⟨4, by decide⟩ = 0)
    (h8 : A ⟨8, by decide⟩ = 0)
    (h16 : A ⟨16, by decide⟩ = 0)
    (h3 : A ⟨3, by decide⟩ = 0)
    (h5 : A ⟨5, by decide⟩ = 0)
    (h6 : A ⟨6, by decide⟩ = 0)
    (h9 : A ⟨9, by decide⟩ = 0)
    (h10 : A ⟨10, by decide⟩ = 0)
    (h12 : A ⟨12, by decide⟩ = 0)
    (h17 : A ⟨17, by decide⟩ = 0)
    (h18 : A ⟨18, by decide⟩ = 0)
    (h20 : A ⟨20, by decide⟩ = 0)
    (h24 : A ⟨24, by decide⟩ = 0)
    (h31 : A ⟨31, by decide⟩ = 0) :
    gmul 5 sig A (rev 5 A) ⟨25, by decide⟩ = 0 := by
  have k1 : A 1 = 0 := h1
  have k2 : A 2 = 0 := h2
  have k4 : A 4 = 0 := h4
  have k8 : A 8 = 0 := h8
  have k16 : A 16 = 0 := h16
  have k3 : A 3 = 0 := h3
  have k5 : A 5 = 0 := h5
  have k6 : A 6 = 0 := h6
  have k9 : A 9 = 0 := h9
  have k10 : A 10 = 0 := h10
  have k12 : A 12 = 0 := h12
  have k17 : A 17 = 0 := h17
  have k18 : A 18 = 0 := h18
  have k20 : A 20 = 0 := h20
  have k24 : A 24 = 0 := h24
  have k31 : A 31 = 0 := h31
  simp only [gmul, rev, Finset.sum_fin_eq_sum_range]
  simp +decide [Finset.sum_range_succ, fxor, s, swaps, metric, sgn, pc, bit, Finset.prod_range_succ, revSign, tri, k1, k2, k4, k8, k16, k3, k5, k6, k9, k10, k12, k17, k18, k20, k24, k31]
  try ring

theorem arev5_26 (sig : Nat → R) (A : CMV 5 R)
    (h1 : A ⟨1, by decide⟩ = 0)
    (h2 : A ⟨2, by decide⟩ = 0)
    (h4 : A ⟨4, by decide⟩ = 0)
    (h8 : A ⟨8, by decide⟩ = 0)
    (h16 : A ⟨16, by decide⟩ = 0)
    (h3 : A ⟨3, by decide⟩ = 0)
    (h5 : A ⟨5, by decide⟩ = 0)
    (h6 : A ⟨6, by decide⟩ = 0)
    (h9 : A ⟨9, by decide⟩ = 0)
    (h10 : A ⟨10, by decide⟩ = 0)
    (h12 : A ⟨12, by decide⟩ = 0)
    (h17 : A ⟨17, by decide⟩ = 0)
    (h18 : A ⟨18, by decide⟩ = 0)
    (h20 : A ⟨20, by decide⟩ = 0)
    (h24 : A ⟨24, by decide⟩ = 0)
    (h31 : A ⟨31, by decide⟩ = 0) :
    gmul 5 sig A (rev 5 A) ⟨26, by decide⟩ = 0 := by
  have k1 : A 1 = 0 := h1
  have k2 : A 2 = 0 := h2
  have k4 : A 4 = 0 := h4
  have k8 : A 8 = 0 := h8
  have k16 : A 16 = 0 := h16
  have k3 : A 3 = 0 := h3
  have k5 : A 5 = 0 := h5
  have k6 : A 6 = 0 := h6
  have k9 : A 9 = 0 := h9
  have k10 : A 10 = 0 := h10
  have k12 : A 12 = 0 := h12
  have k17 : A 17 = 0 := h17
  have k18 : A 18 = 0 := h18
  have k20 : A 20 = 0 := h20
  have k24 : A 24 = 0 := h24
  have k31 : A 31 = 0 := h31
  simp only [gmul, rev, Finset.sum_fin_eq_sum_range]
  simp +decide [Finset.sum_range_succ, fxor, s, swaps, metric, sgn, pc, bit, Finset.prod_range_succ, revSign, tri, k1, k2, k4, k8, k16, k3, k5, k6, k9, k10, k12, k17, k18, k20, k24, k31]
  try ring

theorem arev5_28 (sig : Nat → R) (A : CMV 5 R)
    (h1 : A ⟨1, by decide⟩ = 0)
    (h2 : A ⟨2, by decide⟩ = 0)
    (h4 : A ⟨4, by decide⟩ = 0)
    (h8 : A ⟨8, by decide⟩ = 0)
    (h16 : A ⟨16, by decide⟩ = 0)
    (h3 : A ⟨3, by decide⟩ = 0)
    (h5 : A ⟨5, by decide⟩ = 0)
    (h6 : A ⟨6, by decide⟩ = 0)
    (h9 : A ⟨9, by decide⟩ = 0)
    (h10 : A ⟨10, by decide⟩ = 0)
    (h12 : A ⟨12, by decide⟩ = 0)
    (h17 : A ⟨17, by decide⟩ = 0)
    (h18 : A ⟨18, by decide⟩ = 0)
    (h20 : A ⟨20, by decide⟩ = 0)
    (h24 : A ⟨24, by decide⟩ = 0)
    (h31 : A ⟨31, by decide⟩ = 0) :
    gmul 5 sig A (rev 5 A) ⟨28, by decide⟩ = 0 := by
  have k1 : A 1 = 0 := h1
  have k2 : A 2 = 0 := h2
  have k4 : A 4 = 0 := h4
  have k8 : A 8 = 0 := h8
  have k16 : A 16 = 0 := h16
  have k3 : A 3 = 0 := h3
  have k5 : A 5 = 0 := h5
  have k6 : A 6 = 0 := h6
  have k9 : A 9 = 0 := h9
  have k10 : A 10 = 0 := h10
  have k12 : A 12 = 0 := h12
  have k17 : A 17 = 0 := h17
  have k18 : A 18 = 0 := h18
  have k20 : A 20 = 0 := h20
  have k24 : A 24 = 0 := h24
  have k31 : A 31 = 0 := h31
  simp only [gmul, rev, Finset.sum_fin_eq_sum_range]
  simp +decide [Finset.sum_range_succ, fxor, s, swaps, metric, sgn, pc, bit, Finset.prod_range_succ, revSign, tri, k1, k2, k4, k8, k16, k3, k5, k6, k9, k10, k12, k17, k18, k20, k24, k31]
  try ring

theorem arev5_31 (sig : Nat → R) (A : CMV 5 R)
    (h1 : A ⟨1, by decide⟩ = 0)
    (h2 : A ⟨2, by decide⟩ = 0)
    (h4 : A ⟨4, by decide⟩ = 0)
    (h8 : A ⟨8, by decide⟩ = 0)
    (h16 : A ⟨16, by decide⟩ = 0)
    (h3 : A ⟨3, by decide⟩ = 0)
    (h5 : A ⟨5, by decide⟩ = 0)
    (h6 : A ⟨6, by decide⟩ = 0)
    (h9 : A ⟨9, by decide⟩ = 0)
    (h10 : A ⟨10, by decide⟩ = 0)
    (h12 : A ⟨12, by decide⟩ = 0)
    (h17 : A ⟨17, by decide⟩ = 0)
    (h18 : A ⟨18, by decide⟩ = 0)
    (h20 : A ⟨20, by decide⟩ = 0)
    (h24 : A ⟨24, by decide⟩ = 0)
    (h31 : A ⟨31, by decide⟩ = 0) :
    gmul 5 sig A (rev 5 A) ⟨31, by decide⟩ = 0 := by
  have k1 : A 1 = 0 := h1
  have k2 : A 2 = 0 := h2
  have k4 : A 4 = 0 := h4
  have k8 : A 8 = 0 := h8
  have k16 : A 16 = 0 := h16
  have k3 : A 3 = 0 := h3
  have k5 : A 5 = 0 := h5
  have k6 : A 6 = 0 := h6
  have k9 : A 9 = 0 := h9
  have k10 : A 10 = 0 := h10
  have k12 : A 12 = 0 := h12
  have k17 : A 17 = 0 := h17
  have k18 : A 18 = 0 := h18
  have k20 : A 20 = 0 := h20
  have k24 : A 24 = 0 := h24
  have k31 : A 31 = 0 := h31
  simp only [gmul, rev, Finset.sum_fin_eq_sum_range]
  simp +decide [Finset.sum_range_succ, fxor, s, swaps, metric, sgn, pc, bit, Finset.prod_range_succ, revSign, tri, k1, k2, k4, k8, k16, k3, k5, k6, k9, k10, k12, k17, k18, k20, k24, k31]
  try ring

/-- the second factor of the coded numerator for n = 5 -/
def fac5 (B : CMV 5 R) : CMV 5 R := B - (2 : R) • (gpart 5 1 B + gpart 5 4 B)

theorem sp5_1 (sig : Nat → R) (B : CMV 5 R)
    (h3 : B ⟨3, by decide⟩ = 0)
    (h5 : B ⟨5, by decide⟩ = 0)
    (h6 : B ⟨6, by decide⟩ = 0)
    (h9 : B ⟨9, by decide⟩ = 0)
    (h10 : B ⟨10, by decide⟩ = 0)
    (h12 : B ⟨12, by decide⟩ = 0)
    (h17 : B ⟨17, by decide⟩ = 0)
    (h18 : B ⟨18, by decide⟩ = 0)
    (h20 : B ⟨20, by decide⟩ = 0)
    (h24 : B ⟨24, by decide⟩ = 0)
    (h7 : B ⟨7, by decide⟩ = 0)
    (h11 : B ⟨11, by decide⟩ = 0)
    (h13 : B ⟨13, by decide⟩ = 0)
    (h14 : B ⟨14, by decide⟩ = 0)
    (h19 : B ⟨19, by decide⟩ = 0)
    (h21 : B ⟨21, by decide⟩ = 0)
    (h22 : B ⟨22, by decide⟩ = 0)
    (h25 : B ⟨25, by decide⟩ = 0)
    (h26 : B ⟨26, by decide⟩ = 0)
    (h28 : B ⟨28, by decide⟩ = 0)
    (h31 : B ⟨31, by decide⟩ = 0) :
    gmul 5 sig B (fac5 B) ⟨1, by decide⟩ = 0 := by
  have k3 : B 3 = 0 := h3
  have k5 : B 5 = 0 := h5
  have k6 : B 6 = 0 := h6
  have k9 : B 9 = 0 := h9
  have k10 : B 10 = 0 := h10
  have k12 : B 12 = 0 := h12
  have k17 : B 17 = 0 := h17
  have k18 : B 18 = 0 := h18
  have k20 : B 20 = 0 := h20
  have k24 : B 24 = 0 := h24
  have k7 : B 7 = 0 := h7
  have k11 : B 11 = 0 := h11
  have k13 : B 13 = 0 := h13
  have k14 : B 14 = 0 := h14
  have k19 : B 19 = 0 := h19
  have k21 : B 21 = 0 := h21
  have k22 : B 22 = 0 := h22
  have k25 : B 25 = 0 := h25
  have k26 : B 26 = 0 := h26
  have k28 : B 28 = 0 := h28
  have k31 : B 31 = 0 := h31
  simp only [gmul, fac5, gpart, Finset.sum_fin_eq_sum_range, Pi.sub_apply, Pi.add_apply, Pi.smul_apply, smul_eq_mul_R]
  simp +decide [Finset.sum_range_succ, fxor, s, swaps, metric, sgn, pc, bit, Finset.prod_range_succ, k3, k5, k6, k9, k10, k12, k17, k18, k20, k24, k7, k11, k13, k14, k19, k21, k22, k25, k26, k28, k31]
  try ring

theorem sp5_2 (sig : Nat → R) (B : CMV 5 R)
    (h3 : B ⟨3, by decide⟩ = 0)
    (h5 : B ⟨5, by decide⟩ = 0)
    (h6 : B ⟨6, by decide⟩ = 0)
    (h9 : B ⟨9, by decide⟩ = 0)
    (h10 : B ⟨10, by decide⟩ = 0)
    (h12 : B ⟨12, by decide⟩ = 0)
    (h17 : B ⟨17, by decide⟩ = 0)
    (h18 : B ⟨18, by decide⟩ = 0)
    (h20 : B ⟨20, by decide⟩ = 0)
    (h24 : B ⟨24, by decide⟩ = 0)
    (h7 : B ⟨7, by decide⟩ = 0)
    (h11 : B ⟨11, by decide⟩ = 0)
    (h13 : B ⟨13, by decide⟩ = 0)
    (h14 : B ⟨14, by decide⟩ = 0)
    (h19 : B ⟨19, by decide⟩ = 0)
    (h21 : B ⟨21, by decide⟩ = 0)
    (h22 : B ⟨22, by decide⟩ = 0)
    (h25 : B ⟨25, by decide⟩ = 0)
    (h26 : B ⟨26, by decide⟩ = 0)
    (h28 : B ⟨28, by decide⟩ = 0)
    (h31 : B ⟨31, by decide⟩ = 0) :
    gmul 5 sig B (fac5 B) ⟨2, by decide⟩ = 0 := by
  have k3 : B 3 = 0 := h3
  have k5 : B 5 = 0 := h5
  have k6 : B 6 = 0 := h6
  have k9 : B 9 = 0 := h9
  have k10 : B 10 = 0 := h10
  have k12 : B 12 = 0 := h12
  have k17 : B 17 = 0 := h17
  have k18 : B 18 = 0 := h18
  have k20 : B 20 = 0 := h20
  have k24 : B 24 = 0 := h24
  have k7 : B 7 = 0 := h7
  have k11 : B 11 = 0 := h11
  have k13 : B 13 = 0 := h13
  have k14 : B 14 = 0 := h14
  have k19 : B 19 = 0 := h19
  have k21 : B 21 = 0 := h21
  have k22 : B 22 = 0 := h22
  have k25 : B 25 = 0 := h25
  have k26 : B 26 = 0 := h26
  have k28 : B 28 = 0 := h28
  have k31 : B 31 = 0 := h31
  simp only [gmul, fac5, gpart, Finset.sum_fin_eq_sum_range, Pi.sub_apply, Pi.add_apply, Pi.smul_apply, smul_eq_mul_R]
  simp +decide [Finset.sum_range_succ, fxor, s, swaps, metric, sgn, pc, bit, Finset.prod_range_succ, k3, k5, k6, k9, k10, k12, k17, k18, k20, k24, k7, k11, k13, k14, k19, k21, k22, k25, k26, k28, k31]
  try ring

theorem sp5_3 (sig : Nat → R) (B : CMV 5 R)
    (h3 : B ⟨3, by decide⟩ = 0)
    (h5 : B ⟨5, by decide⟩ = 0)
    (h6 : B ⟨6, by decide⟩ = 0)
    (h9 : B ⟨9, by decide⟩ = 0)
    (h10 : B ⟨10, by decide⟩ = 0)
    (h12 : B ⟨12, by decide⟩ = 0)
    (h17 : B ⟨17, by decide⟩ = 0)
    (h18 : B ⟨18, by decide⟩ = 0)
    (h20 : B ⟨20, by decide⟩ = 0)
    (h24 : B ⟨24, by decide⟩ = 0)
    (h7 : B ⟨7, by decide⟩ = 0)
    (h11 : B ⟨11, by decide⟩ = 0)
    (h13 : B ⟨13, by decide⟩ = 0)
    (h14 : B ⟨14, by decide⟩ = 0)
    (h19 : B ⟨19, by decide⟩ = 0)
    (h21 : B ⟨21, by decide⟩ = 0)
    (h22 : B ⟨22, by decide⟩ = 0)
    (h25 : B ⟨25, by decide⟩ = 0)
    (h26 : B ⟨26, by decide⟩ = 0)
    (h28 : B ⟨28, by decide⟩ = 0)
    (h31 : B ⟨31, by decide⟩ = 0) :
    gmul 5 sig B (fac5 B) ⟨3, by decide⟩ = 0 := by
  have k3 : B 3 = 0 := h3
  have k5 : B 5 = 0 := h5
  have k6 : B 6 = 0 := h6
  have k9 : B 9 = 0 := h9
  have k10 : B 10 = 0 := h10
  have k12 : B 12 = 0 := h12
  have k17 : B 17 = 0 := h17
  have k18 : B 18 = 0 := h18
  have k20 : B 20 = 0 := h20
  have k24 : B 24 = 0 := h24
  have k7 : B 7 = 0 := h7
  have k11 : B 11 = 0 := h11
  have k13 : B 13 = 0 := h13
  have k14 : B 14 = 0 := h14
  have k19 : B 19 = 0 := h19
  have k21 : B 21 = 0 := h21
  have k22 : B 22 = 0 := h22
  have k25 : B 25 = 0 := h25
  have k26 : B 26 = 0 := h26
  have k28 : B 28 = 0 := h28
  have k31 : B 31 = 0 := h31
  simp only [gmul, fac5, gpart, Finset.sum_fin_eq_sum_range, Pi.sub_apply, Pi.add_apply, Pi.smul_apply, smul_eq_mul_R]
  simp +decide [Finset.sum_range_succ, fxor, s, swaps, metric, sgn, pc, bit, Finset.prod_range_succ, k3, k5, k6, k9, k10, k12, k17, k18, k20, k24, k7, k11, k13, k14, k19, k21, k22, k25, k26, k28, k31]
  try ring

theorem sp5_4 (sig : Nat → R) (B : CMV 5 R)
    (h3 : B ⟨3, by decide⟩ = 0)
    (h5 : B ⟨5, by decide⟩ = 0)
    (h6 : B ⟨6, by decide⟩ = 0)
    (h9 : B ⟨9, by decide⟩ = 0)
    (h10 : B ⟨10, by decide⟩ = 0)
    (h12 : B ⟨12, by decide⟩ = 0)
    (h17 : B ⟨17, by decide⟩ = 0)
    (h18 : B ⟨18, by decide⟩ = 0)
    (h20 : B ⟨20, by decide⟩ = 0)
    (h24 : B ⟨24, by decide⟩ = 0)
    (h7 : B ⟨7, by decide⟩ = 0)
    (h11 : B ⟨11, by decide⟩ = 0)
    (h13 : B ⟨13, by decide⟩ = 0)
    (h14 : B ⟨14, by decide⟩ = 0)
    (h19 : B ⟨19, by decide⟩ = 0)
    (h21 : B ⟨21, by decide⟩ = 0)
    (h22 : B ⟨22, by decide⟩ = 0)
    (h25 : B ⟨25, by decide⟩ = 0)
    (h26 : B ⟨26, by decide⟩ = 0)
    (h28 : B ⟨28, by decide⟩ = 0)
    (h31 : B ⟨31, by decide⟩ = 0) :
    gmul 5 sig B (fac5 B) ⟨4, by decide⟩ = 0 := by
  have k3 : B 3 = 0 := h3
  have k5 : B 5 = 0 := h5
  have k6 : B 6 = 0 := h6
  have k9 : B 9 = 0 := h9
  have k10 : B 10 = 0 := h10
  have k12 : B 12 = 0 := h12
  have k17 : B 17 = 0 := h17
  have k18 : B 18 = 0 := h18
  have k20 : B 20 = 0 := h20
  have k24 : B 24 = 0 := h24
  have k7 : B 7 = 0 := h7
  have k11 : B 11 = 0 := h11
  have k13 : B 13 = 0 := h13
  have k14 : B 14 = 0 := h14
  have k19 : B 19 = 0 := h19
  have k21 : B 21 = 0 := h21
  have k22 : B 22 = 0 := h22
  have k25 : B 25 = 0 := h25
  have k26 : B 26 = 0 := h26
  have k28 : B 28 = 0 := h28
  have k31 : B 31 = 0 := h31
  simp only [gmul, fac5, gpart, Finset.sum_fin_eq_sum_range, Pi.sub_apply, Pi.add_apply, Pi.smul_apply, smul_eq_mul_R]
  simp +decide [Finset.sum_range_succ, fxor, s, swaps, metric, sgn, pc, bit, Finset.prod_range_succ, k3, k5, k6, k9, k10, k12, k17, k18, k20, k24, k7, k11, k13, k14, k19, k21, k22, k25, k26, k28, k31]
  try ring

theorem sp5_5 (sig : Nat → R) (B : CMV 5 R)
    (h3 : B ⟨3, by decide⟩ = 0)
    (h5 : B ⟨5, by decide⟩ = 0)
    (h6 : B ⟨6, by decide⟩ = 0)
    (h9 : B ⟨9, by decide⟩ = 0)
    (h10 : B ⟨10, by decide⟩ = 0)
    (h12 : B ⟨12, by decide⟩ = 0)
    (h17 : B ⟨17, by decide⟩ = 0)
    (h18 : B ⟨18, by decide⟩ = 0)
    (h20 : B ⟨20, by decide⟩ = 0)
    (h24 : B ⟨24, by decide⟩ = 0)
    (h7 : B ⟨7, by decide⟩ = 0)
    (h11 : B ⟨11, by decide⟩ = 0)
    (h13 : B ⟨13, by decide⟩ = 0)
    (h14 : B ⟨14, by decide⟩ = 0)
    (h19 : B ⟨19, by decide⟩ = 0)
    (h21 : B ⟨21, by decide⟩ = 0)
    (h22 : B ⟨22, by decide⟩ = 0)
    (h25 : B ⟨25, by decide⟩ = 0)
    (h26 : B ⟨26, by decide⟩ = 0)
    (h28 : B ⟨28, by decide⟩ = 0)
    (h31 : B ⟨31, by decide⟩ = 0) :
    gmul 5 sig B (fac5 B) ⟨5, by decide⟩ = 0 := by
  have k3 : B 3 = 0 := h3
  have k5 : B 5 = 0 := h5
  have k6 : B 6 = 0 := h6
  have k9 : B 9 = 0 := h9
  have k10 : B 10 = 0 := h10
  have k12 : B 12 = 0 := h12
  have k17 : B 17 = 0 := h17
  have k18 : B 18 = 0 := h18
  have k20 : B 20 = 0 := h20
  have k24 : B 24 = 0 := h24
  have k7 : B 7 = 0 := h7
  have k11 : B 11 = 0 := h11
  have k13 : B 13 = 0 := h13
  have k14 : B 14 = 0 := h14
  have k19 : B 19 = 0 := h19
  have k21 : B 21 = 0 := h21
  have k22 : B 22 = 0 := h22
  have k25 : B 25 = 0 := h25
  have k26 : B 26 = 0 := h26
  have k28 : B 28 = 0 := h28
  have k31 : B 31 = 0 := h31
  simp only [gmul, fac5, gpart, Finset.sum_fin_eq_sum_range, Pi.sub_apply, Pi.add_apply, Pi.smul_apply, smul_eq_mul_R]
  simp +decide [Finset.sum_range_succ, fxor, s, swaps, metric, sgn, pc, bit, Finset.prod_range_succ, k3, k5, k6, k9, k10, k12, k17, k18, k20, k24, k7, k11, k13, k14, k19, k21, k22, k25, k26, k28, k31]
  try ring

theorem sp5_6 (sig : Nat → R) (B : CMV 5 R)
    (h3 : B ⟨3, by decide⟩ = 0)
    (h5 : B ⟨5, by decide⟩ = 0)
    (h6 : B ⟨6, by decide⟩ = 0)
    (h9 : B ⟨9, by decide⟩ = 0)
    (h10 : B ⟨10, by decide⟩ = 0)
    (h12 : B ⟨12, by decide⟩ = 0)
    (h17 : B ⟨17, by decide⟩ = 0)
    (h18 : B ⟨18, by decide⟩ = 0)
    (h20 : B ⟨20, by decide⟩ = 0)
    (h24 : B ⟨24, by decide⟩ = 0)
    (h7 : B ⟨7, by decide⟩ = 0)
    (h11 : B ⟨11, by decide⟩ = 0)
    (h13 : B ⟨13, by decide⟩ = 0)
    (h14 : B ⟨14, by decide⟩ = 0)
    (h19 : B ⟨19, by decide⟩ = 0)
    (h21 : B ⟨21, by decide⟩ = 0)
    (h22 : B ⟨22, by decide⟩ = 0)
    (h25 : B ⟨25, by decide⟩ = 0)
    (h26 : B ⟨26, by decide⟩ = 0)
    (h28 : B ⟨28, by decide⟩ = 0)
    (h31 : B ⟨31, by decide⟩ = 0) :
    gmul 5 sig B (fac5 B) ⟨6, by decide⟩ = 0 := by
  have k3 : B 3 = 0 := h3
  have k5 : B 5 = 0 := h5
  have k6 : B 6 = 0 := h6
  have k9 : B 9 = 0 := h9
  have k10 : B 10 = 0 := h10
  have k12 : B 12 = 0 := h12
  have k17 : B 17 = 0 := h17
  have k18 : B 18 = 0 := h18
  have k20 : B 20 = 0 := h20
  have k24 : B 24 = 0 := h24
  have k7 : B 7 = 0 := h7
  have k11 : B 11 = 0 := h11
  have k13 : B 13 = 0 := h13
  have k14 : B 14 = 0 := h14
  have k19 : B 19 = 0 := h19
  have k21 : B 21 = 0 := h21
  have k22 : B 22 = 0 := h22
  have k25 : B 25 = 0 := h25
  have k26 : B 26 = 0 := h26
  have k28 : B 28 = 0 := h28
  have k31 : B 31 = 0 := h31
  simp only [gmul, fac5, gpart, Finset.sum_fin_eq_sum_range, Pi.sub_apply, Pi.add_apply, Pi.smul_apply, smul_eq_mul_R]
  simp +decide [Finset.sum_range_succ, fxor, s, swaps, metric, sgn, pc, bit, Finset.prod_range_succ, k3, k5, k6, k9, k10, k12, k17, k18, k20, k24, k7, k11, k13, k14, k19, k21, k22, k25, k26, k28, k31]
  try ring

theorem sp5_7 (sig : Nat → R) (B : CMV 5 R)
    (h3 : B ⟨3, by decide⟩ = 0)
    (h5 : B ⟨5, by decide⟩ = 0)
    (h6 : B ⟨6, by decide⟩ = 0)
    (h9 : B ⟨9, by decide⟩ = 0)
    (h10 : B ⟨10, by decide⟩ = 0)
    (h12 : B ⟨12, by decide⟩ = 0)
    (h17 : B ⟨17, by decide⟩ = 0)
    (h18 : B ⟨18, by decide⟩ = 0)
    (h20 : B ⟨20, by decide⟩ = 0)
    (h24 : B ⟨24, by decide⟩ = 0)
    (h7 : B ⟨7, by decide⟩ = 0)
    (h11 : B ⟨11, by decide⟩ = 0)
    (h13 : B ⟨13, by decide⟩ = 0)
    (h14 : B ⟨14, by decide⟩ = 0)
    (h19 : B ⟨19, by decide⟩ = 0)
    (h21 : B ⟨21, by decide⟩ = 0)
    (h22 : B ⟨22, by decide⟩ = 0)
    (h25 : B ⟨25, by decide⟩ = 0)
    (h26 : B ⟨26, by decide⟩ = 0)
    (h28 : B ⟨28, by decide⟩ = 0)
    (h31 : B ⟨31, by decide⟩ = 0) :
    gmul 5 sig B (fac5 B) ⟨7, by decide⟩ = 0 := by
  have k3 : B 3 = 0 := h3
  have k5 : B 5 = 0 := h5
  have k6 : B 6 = 0 := h6
  have k9 : B 9 = 0 := h9
  have k10 : B 10 = 0 := h10
  have k12 : B 12 = 0 := h12
  have k17 : B 17 = 0 := h17
  have k18 : B 18 = 0 := h18
  have k20 : B 20 = 0 := h20
  have k24 : B 24 = 0 := h24
  have k7 : B 7 = 0 := h7
  have k11 : B 11 = 0 := h11
  have k13 : B 13 = 0 := h13
  have k14 : B 14 = 0 := h14
  have k19 : B 19 = 0 := h19
  have k21 : B 21 = 0 := h21
  have k22 : B 22 = 0 := h22
  have k25 : B 25 = 0 := h25
  have k26 : B 26 = 0 := h26
  have k28 : B 28 = 0 := h28
  have k31 : B 31 = 0 := h31
  simp only [gmul, fac5, gpart, Finset.sum_fin_eq_sum_range, Pi.sub_apply, Pi.add_apply, Pi.smul_apply, smul_eq_mul_R]
  simp +decide [Finset.sum_range_succ, fxor, s, swaps, metric, sgn, pc, bit, Finset.prod_range_succ, k3, k5, k6, k9, k10, k12, k17, k18, k20, k24, k7, k11, k13, k14, k19, k21, k22, k25, k26, k28, k31]
  try ring

theorem sp5_8 (sig : Nat → R) (B : CMV 5 R)
    (h3 : B ⟨3, by decide⟩ = 0)
    (h5 : B ⟨5, by decide⟩ = 0)
    (h6 : B ⟨6, by decide⟩ = 0)
    (h9 : B ⟨9, by decide⟩ = 0)
    (h10 : B ⟨10, by decide⟩ = 0)
    (h12 : B ⟨12, by decide⟩ = 0)
    (h17 : B ⟨17, by decide⟩ = 0)
    (h18 : B ⟨18, by decide⟩ = 0)
    (h20 : B ⟨20, by decide⟩ = 0)
    (h24 : B ⟨24, by decide⟩ = 0)
    (h7 : B ⟨7, by decide⟩ = 0)
    (h11 : B ⟨11, by decide⟩ = 0)
    (h13 : B ⟨13, by decide⟩ = 0)
    (h14 : B ⟨14, by decide⟩ = 0)
    (h19 : B ⟨19, by decide⟩ = 0)
    (h21 : B ⟨21, by decide⟩ = 0)
    (h22 : B ⟨22, by decide⟩ = 0)
    (h25 : B ⟨25, by decide⟩ = 0)
    (h26 : B ⟨26, by decide⟩ = 0)
    (h28 : B ⟨28, by decide⟩ = 0)
    (h31 : B ⟨31, by decide⟩ = 0) :
    gmul 5 sig B (fac5 B) ⟨8, by decide⟩ = 0 := by
  have k3 : B 3 = 0 := h3
  have k5 : B 5 = 0 := h5
  have k6 : B 6 = 0 := h6
  have k9 : B 9 = 0 := h9
  have k10 : B 10 = 0 := h10
  have k12 : B 12 = 0 := h12
  have k17 : B 17 = 0 := h17
  have k18 : B 18 = 0 := h18
  have k20 : B 20 = 0 := h20
  have k24 : B 24 = 0 := h24
  have k7 : B 7 = 0 := h7
  have k11 : B 11 = 0 := h11
  have k13 : B 13 = 0 := h13
  have k14 : B 14 = 0 := h14
  have k19 : B 19 = 0 := h19
  have k21 : B 21 = 0 := h21
  have k22 : B 22 = 0 := h22
  have k25 : B 25 = 0 := h25
  have k26 : B 26 = 0 := h26
  have k28 : B 28 = 0 := h28
  have k31 : B 31 = 0 := h31
  simp only [gmul, fac5, gpart, Finset.sum_fin_eq_sum_range, Pi.sub_apply, Pi.add_apply, Pi.smul_apply, smul_eq_mul_R]
  simp +decide [Finset.sum_range_succ, fxor, s, swaps, metric, sgn, pc, bit, Finset.prod_range_succ, k3, k5, k6, k9, k10, k12, k17, k18, k20, k24, k7, k11, k13, k14, k19, k21, k22, k25, k26, k28, k31]
  try ring

theorem sp5_9 (sig : Nat → R) (B : CMV 5 R)
    (h3 : B ⟨3, by decide⟩ = 0)
    (h5 : B ⟨5, by decide⟩ = 0)
    (h6 : B ⟨6, by decide⟩ = 0)
    (h9 : B ⟨9, by decide⟩ = 0)
    (h10 : B ⟨10, by decide⟩ = 0)
    (h12 : B ⟨12, by decide⟩ = 0)
    (h17 : B ⟨17, by decide⟩ = 0)
    (h18 : B ⟨18, by decide⟩ = 0)
    (h20 : B ⟨20, by decide⟩ = 0)
    (h24 : B ⟨24, by decide⟩ = 0)
    (h7 : B ⟨7, by decide⟩ = 0)
    (h11 : B ⟨11, by decide⟩ = 0)
    (h13 : B ⟨13, by decide⟩ = 0)
    (h14 : B ⟨14, by decide⟩ = 0)
    (h19 : B ⟨19, by decide⟩ = 0)
    (h21 : B ⟨21, by decide⟩ = 0)
    (h22 : B ⟨22, by decide⟩ = 0)
    (h25 : B ⟨25, by decide⟩ = 0)
    (h26 : B ⟨26, by decide⟩ = 0)
    (h28 : B ⟨28, by decide⟩ = 0)
    (h31 : B ⟨31, by decide⟩ = 0) :
    gmul 5 sig B (fac5 B) ⟨9, by decide⟩ = 0 := by
  have k3 : B 3 = 0 := h3
  have k5 : B 5 = 0 := h5
  have k6 : B 6 = 0 := h6
  have k9 : B 9 = 0 := h9
  have k10 : B 10 = 0 := h10
  have k12 : B 12 = 0 := h12
  have k17 : B 17 = 0 := h17
  have k18 : B 18 = 0 := h18
  have k20 : B 20 = 0 := h20
  have k24 : B 24 = 0 := h24
  have k7 : B 7 = 0 := h7
  have k11 : B 11 = 0 := h11
  have k13 : B 13 = 0 := h13
  have k14 : B 14 = 0 := h14
  have k19 : B 19 = 0 := h19
  have k21 : B 21 = 0 := h21
  have k22 : B 22 = 0 := h22
  have k25 : B 25 = 0 := h25
  have k26 : B 26 = 0 := h26
  have k28 : B 28 = 0 := h28
  have k31 : B 31 = 0 := h31
  simp only [gmul, fac5, gpart, Finset.sum_fin_eq_sum_range, Pi.sub_apply, Pi.add_apply, Pi.smul_apply, smul_eq_mul_R]
  simp +decide [Finset.sum_range_succ, fxor, s, swaps, metric, sgn, pc, bit, Finset.prod_range_succ, k3, k5, k6, k9, k10, k12, k17, k18, k20, k24, k7, k11, k13, k14, k19, k21, k22, k25, k26, k28, k31]
  try ring

theorem sp5_10 (sig : Nat → R) (B : CMV 5 R)
    (h3 : B ⟨3, by decide⟩ = 0)
    (h5 : B ⟨5, by decide⟩ = 0)
    (h6 : B ⟨6, by decide⟩ = 0)
    (h9 : B ⟨9, by decide⟩ = 0)
    (h10 : B ⟨10, by decide⟩ = 0)
    (h12 : B ⟨12, by decide⟩ = 0)
    (h17 : B ⟨17, by decide⟩ = 0)
    (h18 : B ⟨18, by decide⟩ = 0)
    (h20 : B ⟨20, by decide⟩ = 0)
    (h24 : B ⟨24, by decide⟩ = 0)
    (h7 : B ⟨7, by decide⟩ = 0)
    (h11 : B ⟨11, by decide⟩ = 0)
    (h13 : B ⟨13, by decide⟩ = 0)
    (h14 : B ⟨14, by decide⟩ = 0)
    (h19 : B ⟨19, by decide⟩ = 0)
    (h21 : B ⟨21, by decide⟩ = 0)
    (h22 : B ⟨22, by decide⟩ = 0)
    (h25 : B ⟨25, by decide⟩ = 0)
    (h26 : B ⟨26, by decide⟩ = 0)
    (h28 : B ⟨28, by decide⟩ = 0)
    (h31 : B ⟨31, by decide⟩ = 0) :
    gmul 5 sig B (fac5 B) ⟨10, by decide⟩ = 0 := by
  have k3 : B 3 = 0 := h3
  have k5 : B 5 = 0 := h5
  have k6 : B 6 = 0 := h6
  have k9 : B 9 = 0 := h9
  have k10 : B 10 = 0 := h10
  have k12 : B 12 = 0 := h12
  have k17 : B 17 = 0 := h17
  have k18 : B 18 = 0 := h18
  have k20 : B 20 = 0 := h20
  have k24 : B 24 = 0 := h24
  have k7 : B 7 = 0 := h7
  have k11 : B 11 = 0 := h11
  have k13 : B 13 = 0 := h13
  have k14 : B 14 = 0 := h14
  have k19 : B 19 = 0 := h19
  have k21 : B 21 = 0 := h21
  have k22 : B 22 = 0 := h22
  have k25 : B 25 = 0 := h25
  have k26 : B 26 = 0 := h26
  have k28 : B 28 = 0 := h28
  have k31 : B 31 = 0 := h31
  simp only [gmul, fac5, gpart, Finset.sum_fin_eq_sum_range, Pi.sub_apply, Pi.add_apply, Pi.smul_apply, smul_eq_mul_R]
  simp +decide [Finset.sum_range_succ, fxor, s, swaps, metric, sgn, pc, bit, Finset.prod_range_succ, k3, k5, k6, k9, k10, k12, k17, k18, k20, k24, k7, k11, k13, k14, k19, k21, k22, k25, k26, k28, k31]
  try ring

theorem sp5_11 (sig : Nat → R) (B : CMV 5 R)
    (h3 : B ⟨3, by decide⟩ = 0)
    (h5 : B ⟨5, by decide⟩ = 0)
    (h6 : B ⟨6, by decide⟩ = 0)
    (h9 : B ⟨9, by decide⟩ = 0)
    (h10 : B ⟨10, by decide⟩ = 0)
    (h12 : B ⟨12, by decide⟩ = 0)
    (h17 : B ⟨17, by decide⟩ = 0)
    (h18 : B ⟨18, by decide⟩ = 0)
    (h20 : B ⟨20, by decide⟩ = 0)
    (h24 : B ⟨24, by decide⟩ = 0)
    (h7 : B ⟨7, by decide⟩ = 0)
    (h11 : B ⟨11, by decide⟩ = 0)
    (h13 : B ⟨13, by decide⟩ = 0)
    (h14 : B ⟨14, by decide⟩ = 0)
    (h19 : B ⟨19, by decide⟩ = 0)
    (h21 : B ⟨21, by decide⟩ = 0)
    (h22 : B ⟨22, by decide⟩ = 0)
    (h25 : B ⟨25, by decide⟩ = 0)
    (h26 : B ⟨26, by decide⟩ = 0)
    (h28 : B ⟨28, by decide⟩ = 0)
    (h31 : B ⟨31, by decide⟩ = 0) :
    gmul 5 sig B (fac5 B) ⟨11, by decide⟩ = 0 := by
  have k3 : B 3 = 0 := h3
  have k5 : B 5 = 0 := h5
  have k6 : B 6 = 0 := h6
  have k9 : B 9 = 0 := h9
  have k10 : B 10 = 0 := h10
  have k12 : B 12 = 0 := h12
  have k17 : B 17 = 0 := h17
  have k18 : B 18 = 0 := h18
  have k20 : B 20 = 0 := h20
  have k24 : B 24 = 0 := h24
  have k7 : B 7 = 0 := h7
  have k11 : B 11 = 0 := h11
  have k13 : B 13 = 0 := h13
  have k14 : B 14 = 0 := h14
  have k19 : B 19 = 0 := h19
  have k21 : B 21 = 0 := h21
  have k22 : B 22 = 0 := h22
  have k25 : B 25 = 0 := h25
  have k26 : B 26 = 0 := h26
  have k28 : B 28 = 0 := h28
  have k31 : B 31 = 0 := h31
  simp only [gmul, fac5, gpart, Finset.sum_fin_eq_sum_range, Pi.sub_apply, Pi.add_apply, Pi.smul_apply, smul_eq_mul_R]
  simp +decide [Finset.sum_range_succ, fxor, s, swaps, metric, sgn, pc, bit, Finset.prod_range_succ, k3, k5, k6, k9, k10, k12, k17, k18, k20, k24, k7, k11, k13, k14, k19, k21, k22, k25, k26, k28, k31]
  try ring

theorem sp5_12 (sig : Nat → R) (B : CMV 5 R)
    (h3 : B ⟨3, by decide⟩ = 0)
    (h5 : B ⟨5, by decide⟩ = 0)
    (h6 : B ⟨6, by decide⟩ = 0)
    (h9 : B ⟨9, by decide⟩ = 0)
    (h10 : B ⟨10, by decide⟩ = 0)
    (h12 : B ⟨12, by decide⟩ = 0)
    (h17 : B ⟨17, by decide⟩ = 0)
    (h18 : B ⟨18, by decide⟩ = 0)
    (h20 : B ⟨20, by decide⟩ = 0)
    (h24 : B ⟨24, by decide⟩ = 0)
    (h7 : B ⟨7, by decide⟩ = 0)
    (h11 : B ⟨11, by decide⟩ = 0)
    (h13 : B ⟨13, by decide⟩ = 0)
    (h14 : B ⟨14, by decide⟩ = 0)
    (h19 : B ⟨19, by decide⟩ = 0)
    (h21 : B ⟨21, by decide⟩ = 0)
    (h22 : B ⟨22, by decide⟩ = 0)
    (h25 : B ⟨25, by decide⟩ = 0)
    (h26 : B ⟨26, by decide⟩ = 0)
    (h28 : B ⟨28, by decide⟩ = 0)
    (h31 : B ⟨31, by decide⟩ = 0) :
    gmul 5 sig B (fac5 B) ⟨12, by decide⟩ = 0 := by
  have k3 : B 3 = 0 := h3
  have k5 : B 5 = 0 := h5
  have k6 : B 6 = 0 := h6
  have k9 : B 9 = 0 := h9
  have k10 : B 10 = 0 := h10
  have k12 : B 12 = 0 := h12
  have k17 : B 17 = 0 := h17
  have k18 : B 18 = 0 := h18
  have k20 : B 20 = 0 := h20
  have k24 : B 24 = 0 := h24
  have k7 : B 7 = 0 := h7
  have k11 : B 11 = 0 := h11
  have k13 : B 13 = 0 := h13
  have k14 : B 14 = 0 := h14
  have k19 : B 19 = 0 := h19
  have k21 : B 21 = 0 := h21
  have k22 : B 22 = 0 := h22
  have k25 : B 25 = 0 := h25
  have k26 : B 26 = 0 := h26
  have k28 : B 28 = 0 := h28
  have k31 : B 31 = 0 := h31
  simp only [gmul, fac5, gpart, Finset.sum_fin_eq_sum_range, Pi.sub_apply, Pi.add_apply, Pi.smul_apply, smul_eq_mul_R]
  simp +decide [Finset.sum_range_succ, fxor, s, swaps, metric, sgn, pc, bit, Finset.prod_range_succ, k3, k5, k6, k9, k10, k12, k17, k18, k20, k24, k7, k11, k13, k14, k19, k21, k22, k25, k26, k28, k31]
  try ring

theorem sp5_13 (sig : Nat → R) (B : CMV 5 R)
    (h3 : B ⟨3, by decide⟩ = 0)
    (h5 : B ⟨5, by decide⟩ = 0)
    (h6 : B ⟨6, by decide⟩ = 0)
    (h9 : B ⟨9, by decide⟩ = 0)
    (h10 : B ⟨10, by decide⟩ = 0)
    (h12 : B ⟨12, by decide⟩ = 0)
    (h17 : B ⟨17, by decide⟩ = 0)
    (h18 : B ⟨18, by decide⟩ = 0)
    (h20 : B ⟨20, by decide⟩ = 0)
    (h24 : B ⟨24, by decide⟩ = 0)
    (h7 : B ⟨7, by decide⟩ = 0)
    (h11 : B ⟨11, by decide⟩ = 0)
    (h13 : B ⟨13, by decide⟩ = 0)
    (h14 : B ⟨14, by decide⟩ = 0)
    (h19 : B ⟨19, by decide⟩ = 0)
    (h21 : B ⟨21, by decide⟩ = 0)
    (h22 : B ⟨22, by decide⟩ = 0)
    (h25 : B ⟨25, by decide⟩ = 0)
    (h26 : B ⟨26, by decide⟩ = 0)
    (h28 : B ⟨28, by decide⟩ = 0)
    (h31 : B ⟨31, by decide⟩ = 0) :
    gmul 5 sig B (fac5 B) ⟨13, by decide⟩ = 0 := by
  have k3 : B 3 = 0 := h3
  have k5 : B 5 = 0 := h5
  have k6 : B 6 = 0 := h6
  have k9 : B 9 = 0 := h9
  have k10 : B 10 = 0 := h10
  have k12 : B 12 = 0 := h12
  have k17 : B 17 = 0 := h17
  have k18 : B 18 = 0 := h18
  have k20 : B 20 = 0 := h20
  have k24 : B 24 = 0 := h24
  have k7 : B 7 = 0 := h7
  have k11 : B 11 = 0 := h11
  have k13 : B 13 = 0 := h13
  have k14 : B 14 = 0 := h14
  have k19 : B 19 = 0 := h19
  have k21 : B 21 = 0 := h21
  have k22 : B 22 = 0 := h22
  have k25 : B 25 = 0 := h25
  have k26 : B 26 = 0 := h26
  have k28 : B 28 = 0 := h28
  have k31 : B 31 = 0 := h31
  simp only [gmul, fac5, gpart, Finset.sum_fin_eq_sum_range, Pi.sub_apply, Pi.add_apply, Pi.smul_apply, smul_eq_mul_R]
  simp +decide [Finset.sum_range_succ, fxor, s, swaps, metric, sgn, pc, bit, Finset.prod_range_succ, k3, k5, k6, k9, k10, k12, k17, k18, k20, k24, k7, k11, k13, k14, k19, k21, k22, k25, k26, k28, k31]
  try ring

theorem sp5_14 (sig : Nat → R) (B : CMV 5 R)
    (h3 : B ⟨3, by decide⟩ = 0)
    (h5 : B ⟨5, by decide⟩ = 0)
    (h6 : B ⟨6, by decide⟩ = 0)
    (h9 : B ⟨9, by decide⟩ = 0)
    (h10 : B ⟨10, by decide⟩ = 0)
    (h12 : B ⟨12, by decide⟩ = 0)
    (h17 : B ⟨17, by decide⟩ = 0)
    (h18 : B ⟨18, by decide⟩ = 0)
    (h20 : B ⟨20, by decide⟩ = 0)
    (h24 : B ⟨24, by decide⟩ = 0)
    (h7 : B ⟨7, by decide⟩ = 0)
    (h11 : B ⟨11, by decide⟩ = 0)
    (h13 : B ⟨13, by decide⟩ = 0)
    (h14 : B ⟨14, by decide⟩ = 0)
    (h19 : B ⟨19, by decide⟩ = 0)
    (h21 : B ⟨21, by decide⟩ = 0)
    (h22 : B ⟨22, by decide⟩ = 0)
    (h25 : B ⟨25, by decide⟩ = 0)
    (h26 : B ⟨26, by decide⟩ = 0)
    (h28 : B ⟨28, by decide⟩ = 0)
    (h31 : B ⟨31, by decide⟩ = 0) :
    gmul 5 sig B (fac5 B) ⟨14, by decide⟩ = 0 := by
  have k3 : B 3 = 0 := h3
  have k5 : B 5 = 0 := h5
  have k6 : B 6 = 0 := h6
  have k9 : B 9 = 0 := h9
  have k10 : B 10 = 0 := h10
  have k12 : B 12 = 0 := h12
  have k17 : B 17 = 0 := h17
  have k18 : B 18 = 0 := h18
  have k20 : B 20 = 0 := h20
  have k24 : B 24 = 0 := h24
  have k7 : B 7 = 0 := h7
  have k11 : B 11 = 0 := h11
  have k13 : B 13 = 0 := h13
  have k14 : B 14 = 0 := h14
  have k19 : B 19 = 0 := h19
  have k21 : B 21 = 0 := h21
  have k22 : B 22 = 0 := h22
  have k25 : B 25 = 0 := h25
  have k26 : B 26 = 0 := h26
  have k28 : B 28 = 0 := h28
  have k31 : B 31 = 0 := h31
  simp only [gmul, fac5, gpart, Finset.sum_fin_eq_sum_range, Pi.sub_apply, Pi.add_apply, Pi.smul_apply, smul_eq_mul_R]
  simp +decide [Finset.sum_range_succ, fxor, s, swaps, metric, sgn, pc, bit, Finset.prod_range_succ, k3, k5, k6, k9, k10, k12, k17, k18, k20, k24, k7, k11, k13, k14, k19, k21, k22, k25, k26, k28, k31]
  try ring

theorem sp5_15 (sig : Nat → R) (B : CMV 5 R)
    (h3 : B ⟨3, by decide⟩ = 0)
    (h5 : B ⟨5, by decide⟩ = 0)
    (h6 : B ⟨6, by decide⟩ = 0)
    (h9 : B ⟨9, by decide⟩ = 0)
    (h10 : B ⟨10, by decide⟩ = 0)
    (h12 : B ⟨12, by decide⟩ = 0)
    (h17 : B ⟨17, by decide⟩ = 0)
    (h18 : B ⟨18, by decide⟩ = 0)
    (h20 : B ⟨20, by decide⟩ = 0)
    (h24 : B ⟨24, by decide⟩ = 0)
    (h7 : B ⟨7, by decide⟩ = 0)
    (h11 : B ⟨11, by decide⟩ = 0)
    (h13 : B ⟨13, by decide⟩ = 0)
    (h14 : B ⟨14, by decide⟩ = 0)
    (h19 : B ⟨19, by decide⟩ = 0)
    (h21 : B ⟨21, by decide⟩ = 0)
    (h22 : B ⟨22, by decide⟩ = 0)
    (h25 : B ⟨25, by decide⟩ = 0)
    (h26 : B ⟨26, by decide⟩ = 0)
    (h28 : B ⟨28, by decide⟩ = 0)
    (h31 : B ⟨31, by decide⟩ = 0) :
    gmul 5 sig B (fac5 B) ⟨15, by decide⟩ = 0 := by
  have k3 : B 3 = 0 := h3
  have k5 : B 5 = 0 := h5
  have k6 : B 6 = 0 := h6
  have k9 : B 9 = 0 := h9
  have k10 : B 10 = 0 := h10
  have k12 : B 12 = 0 := h12
  have k17 : B 17 = 0 := h17
  have k18 : B 18 = 0 := h18
  have k20 : B 20 = 0 := h20
  have k24 : B 24 = 0 := h24
  have k7 : B 7 = 0 := h7
  have k11 : B 11 = 0 := h11
  have k13 : B 13 = 0 := h13
  have k14 : B 14 = 0 := h14
  have k19 : B 19 = 0 := h19
  have k21 : B 21 = 0 := h21
  have k22 : B 22 = 0 := h22
  have k25 : B 25 = 0 := h25
  have k26 : B 26 = 0 := h26
  have k28 : B 28 = 0 := h28
  have k31 : B 31 = 0 := h31
  simp only [gmul, fac5, gpart, Finset.sum_fin_eq_sum_range, Pi.sub_apply, Pi.add_apply, Pi.smul_apply, smul_eq_mul_R]
  simp +decide [Finset.sum_range_succ, fxor, s, swaps, metric, sgn, pc, bit, Finset.prod_range_succ, k3, k5, k6, k9, k10, k12, k17, k18, k20, k24, k7, k11, k13, k14, k19, k21, k22, k25, k26, k28, k31]
  try ring

theorem sp5_16 (sig : Nat → R) (B : CMV 5 R)
    (h3 : B ⟨3, by decide⟩ = 0)
    (h5 : B ⟨5, by decide⟩ = 0)
    (h6 : B ⟨6, by decide⟩ = 0)
    (h9 : B ⟨9, by decide⟩ = 0)
    (h10 : B ⟨10, by decide⟩ = 0)
    (h12 : B ⟨12, by decide⟩ = 0)
    (h17 : B ⟨17, by decide⟩ = 0)
    (h18 : B ⟨18, by decide⟩ = 0)
    (h20 : B ⟨20, by decide⟩ = 0)
    (h24 : B ⟨24, by decide⟩ = 0)
    (h7 : B ⟨7, by decide⟩ = 0)
    (h11 : B ⟨11, by decide⟩ = 0)
    (h13 : B ⟨13, by decide⟩ = 0)
    (h14 : B ⟨14, by decide⟩ = 0)
    (h19 : B ⟨19, by decide⟩ = 0)
    (h21 : B ⟨21, by decide⟩ = 0)
    (h22 : B ⟨22, by decide⟩ = 0)
    (h25 : B ⟨25, by decide⟩ = 0)
    (h26 : B ⟨26, by decide⟩ = 0)
    (h28 : B ⟨28, by decide⟩ = 0)
    (h31 : B ⟨31, by decide⟩ = 0) :
    gmul 5 sig B (fac5 B) ⟨16, by decide⟩ = 0 := by
  have k3 : B 3 = 0 := h3
  have k5 : B 5 = 0 := h5
  have k6 : B 6 = 0 := h6
  have k9 : B 9 = 0 := h9
  have k10 : B 10 = 0 := h10
  have k12 : B 12 = 0 := h12
  have k17 : B 17 = 0 := h17
  have k18 : B 18 = 0 := h18
  have k20 : B 20 = 0 := h20
  have k24 : B 24 = 0 := h24
  have k7 : B 7 = 0 := h7
  have k11 : B 11 = 0 := h11
  have k13 : B 13 = 0 := h13
  have k14 : B 14 = 0 := h14
  have k19 : B 19 = 0 := h19
  have k21 : B 21 = 0 := h21
  have k22 : B 22 = 0 := h22
  have k25 : B 25 = 0 := h25
  have k26 : B 26 = 0 := h26
  have k28 : B 28 = 0 := h28
  have k31 : B 31 = 0 := h31
  simp only [gmul, fac5, gpart, Finset.sum_fin_eq_sum_range, Pi.sub_apply, Pi.add_apply, Pi.smul_apply, smul_eq_mul_R]
  simp +decide [Finset.sum_range_succ, fxor, s, swaps, metric, sgn, pc, bit, Finset.prod_range_succ, k3, k5, k6, k9, k10, k12, k17, k18, k20, k24, k7, k11, k13, k14, k19, k21, k22, k25, k26, k28, k31]
  try ring

theorem sp5_17 (sig : Nat → R) (B : CMV 5 R)
    (h3 : B ⟨3, by decide⟩ = 0)
    (h5 : B ⟨5, by decide⟩ = 0)
    (h6 : B ⟨6, by decide⟩ = 0)
    (h9 : B ⟨9, by decide⟩ = 0)
    (h10 : B ⟨10, by decide⟩ = 0)
    (h12 : B ⟨12, by decide⟩ = 0)
    (h17 : B ⟨17, by decide⟩ = 0)
    (h18 : B ⟨18, by decide⟩ = 0)
    (h20 : B ⟨20, by decide⟩ = 0)
    (h24 : B ⟨24, by decide⟩ = 0)
    (h7 : B ⟨7, by decide⟩ = 0)
    (h11 : B ⟨11, by decide⟩ = 0)
    (h13 : B ⟨13, by decide⟩ = 0)
    (h14 : B ⟨14, by decide⟩ = 0)
    (h19 : B ⟨19, by decide⟩ = 0)
    (h21 : B ⟨21, by decide⟩ = 0)
    (h22 : B ⟨22, by decide⟩ = 0)
    (h25 : B ⟨25, by decide⟩ = 0)
    (h26 : B ⟨26, by decide⟩ = 0)
    (h28 : B ⟨28, by decide⟩ = 0)
    (h31 : B ⟨31, by decide⟩ = 0) :
    gmul 5 sig B (fac5 B) ⟨17, by decide⟩ = 0 := by
  have k3 : B 3 = 0 := h3
  have k5 : B 5 = 0 := h5
  have k6 : B 6 = 0 := h6
  have k9 : B 9 = 0 := h9
  have k10 : B 10 = 0 := h10
  have k12 : B 12 = 0 := h12
  have k17 : B 17 = 0 := h17
  have k18 : B 18 = 0 := h18
  have k20 : B 20 = 0 := h20
  have k24 : B 24 = 0 := h24
  have k7 : B 7 = 0 := h7
  have k11 : B 11 = 0 := h11
  have k13 : B 13 = 0 := h13
  have k14 : B 14 = 0 := h14
  have k19 : B 19 = 0 := h19
  have k21 : B 21 = 0 := h21
  have k22 : B 22 = 0 := h22
  have k25 : B 25 = 0 := h25
  have k26 : B 26 = 0 := h26
  have k28 : B 28 = 0 := h28
  have k31 : B 31 = 0 := h31
  simp only [gmul, fac5, gpart, Finset.sum_fin_eq_sum_range, Pi.sub_apply, Pi.add_apply, Pi.smul_apply, smul_eq_mul_R]
  simp +decide [Finset.sum_range_succ, fxor, s, swaps, metric, sgn, pc, bit, Finset.prod_range_succ, k3, k5, k6, k9, k10, k12, k17, k18, k20, k24, k7, k11, k13, k14, k19, k21, k22, k25, k26, k28, k31]
  try ring

theorem sp5_18 (sig : Nat → R) (B : CMV 5 R)
    (h3 : B ⟨3, by decide⟩ = 0)
    (h5 : B ⟨5, by decide⟩ = 0)
    (h6 : B ⟨6, by decide⟩ = 0)
    (h9 : B ⟨9, by decide⟩ = 0)
    (h10 : B ⟨10, by decide⟩ = 0)
    (h12 : B ⟨12, by decide⟩ = 0)
    (h17 : B ⟨17, by decide⟩ = 0)
    (h18 : B ⟨18, by decide⟩ = 0)
    (h20 : B ⟨20, by decide⟩ = 0)
    (h24 : B ⟨24, by decide⟩ = 0)
    (h7 : B ⟨7, by decide⟩ = 0)
    (h11 : B ⟨11, by decide⟩ = 0)
    (h13 : B ⟨13, by decide⟩ = 0)
    (h14 : B ⟨14, by decide⟩ = 0)
    (h19 : B ⟨19, by decide⟩ = 0)
    (h21 : B ⟨21, by decide⟩ = 0)
    (h22 : B ⟨22, by decide⟩ = 0)
    (h25 : B ⟨25, by decide⟩ = 0)
    (h26 : B ⟨26, by decide⟩ = 0)
    (h28 : B ⟨28, by decide⟩ = 0)
    (h31 : B ⟨31, by decide⟩ = 0) :
    gmul 5 sig B (fac5 B) ⟨18, by decide⟩ = 0 := by
  have k3 : B 3 = 0 := h3
  have k5 : B 5 = 0 := h5
  have k6 : B 6 = 0 := h6
  have k9 : B 9 = 0 := h9
  have k10 : B 10 = 0 := h10
  have k12 : B 12 = 0 := h12
  have k17 : B 17 = 0 := h17
  have k18 : B 18 = 0 := h18
  have k20 : B 20 = 0 := h20
  have k24 : B 24 = 0 := h24
  have k7 : B 7 = 0 := h7
  have k11 : B 11 = 0 := h11
  have k13 : B 13 = 0 := h13
  have k14 : B 14 = 0 := h14
  have k19 : B 19 = 0 := h19
  have k21 : B 21 = 0 := h21
  have k22 : B 22 = 0 := h22
  have k25 : B 25 = 0 := h25
  have k26 : B 26 = 0 := h26
  have k28 : B 28 = 0 := h28
  have k31 : B 31 = 0 := h31
  simp only [gmul, fac5, gpart, Finset.sum_fin_eq_sum_range, Pi.sub_apply, Pi.add_apply, Pi.smul_apply, smul_eq_mul_R]
  simp +decide [Finset.sum_range_succ, fxor, s, swaps, metric, sgn, pc, bit, Finset.prod_range_succ, k3, k5, k6, k9, k10, k12, k17, k18, k20, k24, k7, k11, k13, k14, k19, k21, k22, k25, k26, k28, k31]
  try ring

theorem sp5_19 (sig : Nat → R) (B : CMV 5 R)
    (h3 : B ⟨3, by decide⟩ = 0)
    (h5 : B ⟨5, by decide⟩ = 0)
    (h6 : B ⟨6, by decide⟩ = 0)
    (h9 : B ⟨9, by decide⟩ = 0)
    (h10 : B ⟨10, by decide⟩ = 0)
    (h12 : B ⟨12, by decide⟩ = 0)
    (h17 : B ⟨17, by decide⟩ = 0)
    (h18 : B ⟨18, by decide⟩ = 0)
    (h20 : B ⟨20, by decide⟩ = 0)
    (h24 : B ⟨24, by decide⟩ = 0)
    (h7 : B ⟨7, by decide⟩ = 0)
    (h11 : B ⟨11, by decide⟩ = 0)
    (h13 : B ⟨13, by decide⟩ = 0)
    (h14 : B ⟨14, by decide⟩ = 0)
    (h19 : B ⟨19, by decide⟩ = 0)
    (h21 : B ⟨21, by decide⟩ = 0)
    (h22 : B ⟨22, by decide⟩ = 0)
    (h25 : B ⟨25, by decide⟩ = 0)
    (h26 : B ⟨26, by decide⟩ = 0)
    (h28 : B ⟨28, by decide⟩ = 0)
    (h31 : B ⟨31, by decide⟩ = 0) :
    gmul 5 sig B (fac5 B) ⟨19, by decide⟩ = 0 := by
  have k3 : B 3 = 0 := h3
  have k5 : B 5 = 0 := h5
  have k6 : B 6 = 0 := h6
  have k9 : B 9 = 0 := h9
  have k10 : B 10 = 0 := h10
  have k12 : B 12 = 0 := h12
  have k17 : B 17 = 0 := h17
  have k18 : B 18 = 0 := h18
  have k20 : B 20 = 0 := h20
  have k24 : B 24 = 0 := h24
  have k7 : B 7 = 0 := h7
  have k11 : B 11 = 0 := h11
  have k13 : B 13 = 0 := h13
  have k14 : B 14 = 0 := h14
  have k19 : B 19 = 0 := h19
  have k21 : B 21 = 0 := h21
  have k22 : B 22 = 0 := h22
  have k25 : B 25 = 0 := h25
  have k26 : B 26 = 0 := h26
  have k28 : B 28 = 0 := h28
  have k31 : B 31 = 0 := h31
  simp only [gmul, fac5, gpart, Finset.sum_fin_eq_sum_range, Pi.sub_apply, Pi.add_apply, Pi.smul_apply, smul_eq_mul_R]
  simp +decide [Finset.sum_range_succ, fxor, s, swaps, metric, sgn, pc, bit, Finset.prod_range_succ, k3, k5, k6, k9, k10, k12, k17, k18, k20, k24, k7, k11, k13, k14, k19, k21, k22, k25, k26, k28, k31]
  try ring

theorem sp5_20 (sig : Nat → R) (B : CMV 5 R)
    (h3 : B ⟨3, by decide⟩ = 0)
    (h5 : B ⟨5, by decide⟩ = 0)
    (h6 : B ⟨6, by decide⟩ = 0)
    (h9 : B ⟨9, by decide⟩ = 0)
    (h10 : B ⟨10, by decide⟩ = 0)
    (h12 : B ⟨12, by decide⟩ = 0)
    (h17 : B ⟨17, by decide⟩ = 0)
    (h18 : B ⟨18, by decide⟩ = 0)
    (h20 : B ⟨20, by decide⟩ = 0)
    (h24 : B ⟨24, by decide⟩ = 0)
    (h7 : B ⟨7, by decide⟩ = 0)
    (h11 : B ⟨11, by decide⟩ = 0)
    (h13 : B ⟨13, by decide⟩ = 0)
    (h14 : B ⟨14, by decide⟩ = 0)
    (h19 : B ⟨19, by decide⟩ = 0)
    (h21 : B ⟨21, by decide⟩ = 0)
    (h22 : B ⟨22, by decide⟩ = 0)
    (h25 : B ⟨25, by decide⟩ = 0)
    (h26 : B ⟨26, by decide⟩ = 0)
    (h28 : B ⟨28, by decide⟩ = 0)
    (h31 : B ⟨31, by decide⟩ = 0) :
    gmul 5 sig B (fac5 B) ⟨20, by decide⟩ = 0 := by
  have k3 : B 3 = 0 := h3
  have k5 : B 5 = 0 := h5
  have k6 : B 6 = 0 := h6
  have k9 : B 9 = 0 := h9
  have k10 : B 10 = 0 := h10
  have k12 : B 12 = 0 := h12
  have k17 : B 17 = 0 := h17
  have k18 : B 18 = 0 := h18
  have k20 : B 20 = 0 := h20
  have k24 : B 24 = 0 := h24
  have k7 : B 7 = 0 := h7
  have k11 : B 11 = 0 := h11
  have k13 : B 13 = 0 := h13
  have k14 : B 14 = 0 := h14
  have k19 : B 19 = 0 := h19
  have k21 : B 21 = 0 := h21
  have k22 : B 22 = 0 := h22
  have k25 : B 25 = 0 := h25
  have k26 : B 26 = 0 := h26
  have k28 : B 28 = 0 := h28
  have k31 : B 31 = 0 := h31
  simp only [gmul, fac5, gpart, Finset.sum_fin_eq_sum_range, Pi.sub_apply, Pi.add_apply, Pi.smul_apply, smul_eq_mul_R]
  simp +decide [Finset.sum_range_succ, fxor, s, swaps, metric, sgn, pc, bit, Finset.prod_range_succ, k3, k5, k6, k9, k10, k12, k17, k18, k20, k24, k7, k11, k13, k14, k19, k21, k22, k25, k26, k28, k31]
  try ring

theorem sp5_21 (sig : Nat → R) (B : CMV 5 R)
    (h3 : B ⟨3, by decide⟩ = 0)
    (h5 : B ⟨5, by decide⟩ = 0)
    (h6 : B ⟨6, by decide⟩ = 0)
    (h9 : B ⟨9, by decide⟩ = 0)
    (h10 : B ⟨10, by decide⟩ = 0)
    (h12 : B ⟨12, by decide⟩ = 0)
    (h17 : B ⟨17, by decide⟩ = 0)
    (h18 : B ⟨18, by decide⟩ = 0)
    (h20 : B ⟨20, by decide⟩ = 0)
    (h24 : B ⟨24, by decide⟩ = 0)
    (h7 : B ⟨7, by decide⟩ = 0)
    (h11 : B ⟨11, by decide⟩ = 0)
    (h13 : B ⟨13, by decide⟩ = 0)
    (h14 : B ⟨14, by decide⟩ = 0)
    (h19 : B ⟨19, by decide⟩ = 0)
    (h21 : B ⟨21, by decide⟩ = 0)
    (h22 : B ⟨22, by decide⟩ = 0)
    (h25 : B ⟨25, by decide⟩ = 0)
    (h26 : B ⟨26, by decide⟩ = 0)
    (h28 : B ⟨28, by decide⟩ = 0)
    (h31 : B ⟨31, by decide⟩ = 0) :
    gmul 5 sig B (fac5 B) ⟨21, by decide⟩ = 0 := by
  have k3 : B 3 = 0 := h3
  have k5 : B 5 = 0 := h5
  have k6 : B 6 = 0 := h6
  have k9 : B 9 = 0 := h9
  have k10 : B 10 = 0 := h10
  have k12 : B 12 = 0 := h12
  have k17 : B 17 = 0 := h17
  have k18 : B 18 = 0 := h18
  have k20 : B 20 = 0 := h20
  have k24 : B 24 = 0 := h24
  have k7 : B 7 = 0 := h7
  have k11 : B 11 = 0 := h11
  have k13 : B 13 = 0 := h13
  have k14 : B 14 = 0 := h14
  have k19 : B 19 = 0 := h19
  have k21 : B 21 = 0 := h21
  have k22 : B 22 = 0 := h22
  have k25 : B 25 = 0 := h25
  have k26 : B 26 = 0 := h26
  have k28 : B 28 = 0 := h28
  have k31 : B 31 = 0 := h31
  simp only [gmul, fac5, gpart, Finset.sum_fin_eq_sum_range, Pi.sub_apply, Pi.add_apply, Pi.smul_apply, smul_eq_mul_R]
  simp +decide [Finset.sum_range_succ, fxor, s, swaps, metric, sgn, pc, bit, Finset.prod_range_succ, k3, k5, k6, k9, k10, k12, k17, k18, k20, k24, k7, k11, k13, k14, k19, k21, k22, k25, k26, k28, k31]
  try ring

theorem sp5_22 (sig : Nat → R) (B : CMV 5 R)
    (h3 : B ⟨3, by decide⟩ = 0)
    (h5 : B ⟨5, by decide⟩ = 0)
    (h6 : B ⟨6, by decide⟩ = 0)
    (h9 : B ⟨9, by decide⟩ = 0)
    (h10 : B ⟨10, by decide⟩ = 0)
    (h12 : B ⟨12, by decide⟩ = 0)
    (h17 : B ⟨17, by decide⟩ = 0)
    (h18 : B ⟨18, by decide⟩ = 0)
    (h20 : B ⟨20, by decide⟩ = 0)
    (h24 : B ⟨24, by decide⟩ = 0)
    (h7 : B ⟨7, by decide⟩ = 0)
    (h11 : B ⟨11, by decide⟩ = 0)
    (h13 : B ⟨13, by decide⟩ = 0)
    (h14 : B ⟨14, by decide⟩ = 0)
    (h19 : B ⟨19, by decide⟩ = 0)
    (h21 : B ⟨21, by decide⟩ = 0)
    (h22 : B ⟨22, by decide⟩ = 0)
    (h25 : B ⟨25, by decide⟩ = 0)
    (h26 : B ⟨26, by decide⟩ = 0)
    (h28 : B ⟨28, by decide⟩ = 0)
    (h31 : B ⟨31, by decide⟩ = 0) :
    gmul 5 sig B (fac5 B) ⟨22, by decide⟩ = 0 := by
  have k3 : B 3 = 0 := h3
  have k5 : B 5 = 0 := h5
  have k6 : B 6 = 0 := h6
  have k9 : B 9 = 0 := h9
  have k10 : B 10 = 0 := h10
  have k12 : B 12 = 0 := h12
  have k17 : B 17 = 0 := h17
  have k18 : B 18 = 0 := h18
  have k20 : B 20 = 0 := h20
  have k24 : B 24 = 0 := h24
  have k7 : B 7 = 0 := h7
  have k11 : B 11 = 0 := h11
  have k13 : B 13 = 0 := h13
  have k14 : B 14 = 0 := h14
  have k19 : B 19 = 0 := h19
  have k21 : B 21 = 0 := h21
  have k22 : B 22 = 0 := h22
  have k25 : B 25 = 0 := h25
  have k26 : B 26 = 0 := h26
  have k28 : B 28 = 0 := h28
  have k31 : B 31 = 0 := h31
  simp only [gmul, fac5, gpart, Finset.sum_fin_eq_sum_range, Pi.sub_apply, Pi.add_apply, Pi.smul_apply, smul_eq_mul_R]
  simp +decide [Finset.sum_range_succ, fxor, s, swaps, metric, sgn, pc, bit, Finset.prod_range_succ, k3, k5, k6, k9, k10, k12, k17, k18, k20, k24, k7, k11, k13, k14, k19, k21, k22, k25, k26, k28, k31]
  try ring

theorem sp5_23 (sig : Nat → R) (B : CMV 5 R)
    (h3 : B ⟨3, by decide⟩ = 0)
    (h5 : B ⟨5, by decide⟩ = 0)
    (h6 : B ⟨6, by decide⟩ = 0)
    (h9 : B ⟨9, by decide⟩ = 0)
    (h10 : B ⟨10, by decide⟩ = 0)
    (h12 : B ⟨12, by decide⟩ = 0)
    (h17 : B ⟨17, by decide⟩ = 0)
    (h18 : B ⟨18, by decide⟩ = 0)
    (h20 : B ⟨20, by decide⟩ = 0)
    (h24 : B ⟨24, by decide⟩ = 0)
    (h7 : B ⟨7, by decide⟩ = 0)
    (h11 : B ⟨11, by decide⟩ = 0)
    (h13 : B ⟨13, by decide⟩ = 0)
    (h14 : B ⟨14, by decide⟩ = 0)
    (h19 : B ⟨19, by decide⟩ = 0)
    (h21 : B ⟨21, by decide⟩ = 0)
    (h22 : B ⟨22, by decide⟩ = 0)
    (h25 : B ⟨25, by decide⟩ = 0)
    (h26 : B ⟨26, by decide⟩ = 0)
    (h28 : B ⟨28, by decide⟩ = 0)
    (h31 : B ⟨31, by decide⟩ = 0) :
    gmul 5 sig B (fac5 B) ⟨23, by decide⟩ = 0 := by
  have k3 : B 3 = 0 := h3
  have k5 : B 5 = 0 := h5
  have k6 : B 6 = 0 := h6
  have k9 : B 9 = 0 := h9
  have k10 : B 10 = 0 := h10
  have k12 : B 12 = 0 := h12
  have k17 : B 17 = 0 := h17
  have k18 : B 18 = 0 := h18
  have k20 : B 20 = 0 := h20
  have k24 : B 24 = 0 := h24
  have k7 : B 7 = 0 := h7
  have k11 : B 11 = 0 := h11
  have k13 : B 13 = 0 := h13
  have k14 : B 14 = 0 := h14
  have k19 : B 19 = 0 := h19
  have k21 : B 21 = 0 := h21
  have k22 : B 22 = 0 := h22
  have k25 : B 25 = 0 := h25
  have k26 : B 26 = 0 := h26
  have k28 : B 28 = 0 := h28
  have k31 : B 31 = 0 := h31
  simp only [gmul, fac5, gpart, Finset.sum_fin_eq_sum_range, Pi.sub_apply, Pi.add_apply, Pi.smul_apply, smul_eq_mul_R]
  simp +decide [Finset.sum_range_succ, fxor, s, swaps, metric, sgn, pc, bit, Finset.prod_range_succ, k3, k5, k6, k9, k10, k12, k17, k18, k20, k24, k7, k11, k13, k14, k19, k21, k22, k25, k26, k28, k31]
  try ring

theorem sp5_24 (sig : Nat → R) (B : CMV 5 R)
    (h3 : B ⟨3, by decide⟩ = 0)
    (h5 : B ⟨5, by decide⟩ = 0)
    (h6 : B ⟨6, by decide⟩ = 0)
    (h9 : B ⟨9, by decide⟩ = 0)
    (h10 : B ⟨10, by decide⟩ = 0)
    (h12 : B ⟨12, by decide⟩ = 0)
    (h17 : B ⟨17, by decide⟩ = 0)
    (h18 : B ⟨18, by decide⟩ = 0)
    (h20 : B ⟨20, by decide⟩ = 0)
    (h24 : B ⟨24, by decide⟩ = 0)
    (h7 : B ⟨7, by decide⟩ = 0)
    (h11 : B ⟨11, by decide⟩ = 0)
    (h13 : B ⟨13, by decide⟩ = 0)
    (h14 : B ⟨14, by decide⟩ = 0)
    (h19 : B ⟨19, by decide⟩ = 0)
    (h21 : B ⟨21, by decide⟩ = 0)
    (h22 : B ⟨22, by decide⟩ = 0)
    (h25 : B ⟨25, by decide⟩ = 0)
    (h26 : B ⟨26, by decide⟩ = 0)
    (h28 : B ⟨28, by decide⟩ = 0)
    (h31 : B ⟨31, by decide⟩ = 0) :
    gmul 5 sig B (fac5 B) ⟨24, by decide⟩ = 0 := by
  have k3 : B 3 = 0 := h3
  have k5 : B 5 = 0 := h5
  have k6 : B 6 = 0 := h6
  have k9 : B 9 = 0 := h9
  have k10 : B 10 = 0 := h10
  have k12 : B 12 = 0 := h12
  have k17 : B 17 = 0 := h17
  have k18 : B 18 = 0 := h18
  have k20 : B 20 = 0 := h20
  have k24 : B 24 = 0 := h24
  have k7 : B 7 = 0 := h7
  have k11 : B 11 = 0 := h11
  have k13 : B 13 = 0 := h13
  have k14 : B 14 = 0 := h14
  have k19 : B 19 = 0 := h19
  have k21 : B 21 = 0 := h21
  have k22 : B 22 = 0 := h22
  have k25 : B 25 = 0 := h25
  have k26 : B 26 = 0 := h26
  have k28 : B 28 = 0 := h28
  have k31 : B 31 = 0 := h31
  simp only [gmul, fac5, gpart, Finset.sum_fin_eq_sum_range, Pi.sub_apply, Pi.add_apply, Pi.smul_apply, smul_eq_mul_R]
  simp +decide [Finset.sum_range_succ, fxor, s, swaps, metric, sgn, pc, bit, Finset.prod_range_succ, k3, k5, k6, k9, k10, k12, k17, k18, k20, k24, k7, k11, k13, k14, k19, k21, k22, k25, k26, k28, k31]
  try ring

theorem sp5_25 (sig : Nat → R) (B : CMV 5 R)
    (h3 : B ⟨3, by decide⟩ = 0)
    (h5 : B ⟨5, by decide⟩ = 0)
    (h6 : B ⟨6, by decide⟩ = 0)
    (h9 : B ⟨9, by decide⟩ = 0)
    (h10 : B ⟨10, by decide⟩ = 0)
    (h12 : B ⟨12, by decide⟩ = 0)
    (h17 : B ⟨17, by decide⟩ = 0)
    (h18 : B ⟨18, by decide⟩ = 0)
    (h20 : B ⟨20, by decide⟩ = 0)
    (h24 : B ⟨24, by decide⟩ = 0)
    (h7 : B ⟨7, by decide⟩ = 0)
    (h11 : B ⟨11, by decide⟩ = 0)
    (h13 : B ⟨13, by decide⟩ = 0)
    (h14 : B ⟨14, by decide⟩ = 0)
    (h19 : B ⟨19, by decide⟩ = 0)
    (h21 : B ⟨21, by decide⟩ = 0)
    (h22 : B ⟨22, by decide⟩ = 0)
    (h25 : B ⟨25, by decide⟩ = 0)
    (h26 : B ⟨26, by decide⟩ = 0)
    (h28 : B ⟨28, by decide⟩ = 0)
    (h31 : B ⟨31, by decide⟩ = 0) :
    gmul 5 sig B (fac5 B) ⟨25, by decide⟩ = 0 := by
  have k3 : B 3 = 0 := h3
  have k5 : B 5 = 0 := h5
  have k6 : B 6 = 0 := h6
  have k9 : B 9 = 0 := h9
  have k10 : B 10 = 0 := h10
  have k12 : B 12 = 0 := h12
  have k17 : B 17 = 0 := h17
  have k18 : B 18 = 0 := h18
  have k20 : B 20 = 0 := h20
  have k24 : B 24 = 0 := h24
  have k7 : B 7 = 0 := h7
  have k11 : B 11 = 0 := h11
  have k13 : B 13 = 0 := h13
  have k14 : B 14 = 0 := h14
  have k19 : B 19 = 0 := h19
  have k21 : B 21 = 0 := h21
  have k22 : B 22 = 0 := h22
  have k25 : B 25 = 0 := h25
  have k26 : B 26 = 0 := h26
  have k28 : B 28 = 0 := h28
  have k31 : B 31 = 0 := h31
  simp only [gmul, fac5, gpart, Finset.sum_fin_eq_sum_range, Pi.sub_apply, Pi.add_apply, Pi.smul_apply, smul_eq_mul_R]
  simp +decide [Finset.sum_range_succ, fxor, s, swaps, metric, sgn, pc, bit, Finset.prod_range_succ, k3, k5, k6, k9, k10, k12, k17, k18, k20, k24, k7, k11, k13, k14, k19, k21, k22, k25, k26, k28, k31]
  try ring

theorem sp5_26 (sig : Nat → R) (B : CMV 5 R)
    (h3 : B ⟨3, by decide⟩ = 0)
    (h5 : B ⟨5, by decide⟩ = 0)
    (h6 : B ⟨6, by decide⟩ = 0)
    (h9 : B ⟨9, by decide⟩ = 0)
    (h10 : B ⟨10, by decide⟩ = 0)
    (h12 : B ⟨12, by decide⟩ = 0)
    (h17 : B ⟨17, by decide⟩ = 0)
    (h18 : B ⟨18, by decide⟩ = 0)
    (h20 : B ⟨20, by decide⟩ = 0)
    (h24 : B ⟨24, by decide⟩ = 0)
    (h7 : B ⟨7, by decide⟩ = 0)
    (h11 : B ⟨11, by decide⟩ = 0)
    (h13 : B ⟨13, by decide⟩ = 0)
    (h14 : B ⟨14, by decide⟩ = 0)
    (h19 : B ⟨19, by decide⟩ = 0)
    (h21 : B ⟨21, by decide⟩ = 0)
    (h22 : B ⟨22, by decide⟩ = 0)
    (h25 : B ⟨25, by decide⟩ = 0)
    (h26 : B ⟨26, by decide⟩ = 0)
    (h28 : B ⟨28, by decide⟩ = 0)
    (h31 : B ⟨31, by decide⟩ = 0) :
    gmul 5 sig B (fac5 B) ⟨26, by decide⟩ = 0 := by
  have k3 : B 3 = 0 := h3
  have k5 : B 5 = 0 := h5
  have k6 : B 6 = 0 := h6
  have k9 : B 9 = 0 := h9
  have k10 : B 10 = 0 := h10
  have k12 : B 12 = 0 := h12
  have k17 : B 17 = 0 := h17
  have k18 : B 18 = 0 := h18
  have k20 : B 20 = 0 := h20
  have k24 : B 24 = 0 := h24
  have k7 : B 7 = 0 := h7
  have k11 : B 11 = 0 := h11
  have k13 : B 13 = 0 := h13
  have k14 : B 14 = 0 := h14
  have k19 : B 19 = 0 := h19
  have k21 : B 21 = 0 := h21
  have k22 : B 22 = 0 := h22
  have k25 : B 25 = 0 := h25
  have k26 : B 26 = 0 := h26
  have k28 : B 28 = 0 := h28
  have k31 : B 31 = 0 := h31
  simp only [gmul, fac5, gpart, Finset.sum_fin_eq_sum_range, Pi.sub_apply, Pi.add_apply, Pi.smul_apply, smul_eq_mul_R]
  simp +decide [Finset.sum_range_succ, fxor, s, swaps, metric, sgn, pc, bit, Finset.prod_range_succ, k3, k5, k6, k9, k10, k12, k17, k18, k20, k24, k7, k11, k13, k14, k19, k21, k22, k25, k26, k28, k31]
  try ring

theorem sp5_27 (sig : Nat → R) (B : CMV 5 R)
    (h3 : B ⟨3, by decide⟩ = 0)
    (h5 : B ⟨5, by decide⟩ = 0)
    (h6 : B ⟨6, by decide⟩ = 0)
    (h9 : B ⟨9, by decide⟩ = 0)
    (h10 : B ⟨10, by decide⟩ = 0)
    (h12 : B ⟨12, by decide⟩ = 0)
    (h17 : B ⟨17, by decide⟩ = 0)
    (h18 : B ⟨18, by decide⟩ = 0)
    (h20 : B ⟨20, by decide⟩ = 0)
    (h24 : B ⟨24, by decide⟩ = 0)
    (h7 : B ⟨7, by decide⟩ = 0)
    (h11 : B ⟨11, by decide⟩ = 0)
    (h13 : B ⟨13, by decide⟩ = 0)
    (h14 : B ⟨14, by decide⟩ = 0)
    (h19 : B ⟨19, by decide⟩ = 0)
    (h21 : B ⟨21, by decide⟩ = 0)
    (h22 : B ⟨22, by decide⟩ = 0)
    (h25 : B ⟨25, by decide⟩ = 0)
    (h26 : B ⟨26, by decide⟩ = 0)
    (h28 : B ⟨28, by decide⟩ = 0)
    (h31 : B ⟨31, by decide⟩ = 0) :
    gmul 5 sig B (fac5 B) ⟨27, by decide⟩ = 0 := by
  have k3 : B 3 = 0 := h3
  have k5 : B 5 = 0 := h5
  have k6 : B 6 = 0 := h6
  have k9 : B 9 = 0 := h9
  have k10 : B 10 = 0 := h10
  have k12 : B 12 = 0 := h12
  have k17 : B 17 = 0 := h17
  have k18 : B 18 = 0 := h18
  have k20 : B 20 = 0 := h20
  have k24 : B 24 = 0 := h24
  have k7 : B 7 = 0 := h7
  have k11 : B 11 = 0 := h11
  have k13 : B 13 = 0 := h13
  have k14 : B 14 = 0 := h14
  have k19 : B 19 = 0 := h19
  have k21 : B 21 = 0 := h21
  have k22 : B 22 = 0 := h22
  have k25 : B 25 = 0 := h25
  have k26 : B 26 = 0 := h26
  have k28 : B 28 = 0 := h28
  have k31 : B 31 = 0 := h31
  simp only [gmul, fac5, gpart, Finset.sum_fin_eq_sum_range, Pi.sub_apply, Pi.add_apply, Pi.smul_apply, smul_eq_mul_R]
  simp +decide [Finset.sum_range_succ, fxor, s, swaps, metric, sgn, pc, bit, Finset.prod_range_succ, k3, k5, k6, k9, k10, k12, k17, k18, k20, k24, k7, k11, k13, k14, k19, k21, k22, k25, k26, k28, k31]
  try ring

theorem sp5_28 (sig : Nat → R) (B : CMV 5 R)
    (h3 : B ⟨3, by decide⟩ = 0)
    (h5 : B ⟨5, by decide⟩ = 0)
    (h6 : B ⟨6, by decide⟩ = 0)
    (h9 : B ⟨9, by decide⟩ = 0)
    (h10 : B ⟨10, by decide⟩ = 0)
    (h12 : B ⟨12, by decide⟩ = 0)
    (h17 : B ⟨17, by decide⟩ = 0)
    (h18 : B ⟨18, by decide⟩ = 0)
    (h20 : B ⟨20, by decide⟩ = 0)
    (h24 : B ⟨24, by decide⟩ = 0)
    (h7 : B ⟨7, by decide⟩ = 0)
    (h11 : B ⟨11, by decide⟩ = 0)
    (h13 : B ⟨13, by decide⟩ = 0)
    (h14 : B ⟨14, by decide⟩ = 0)
    (h19 : B ⟨19, by decide⟩ = 0)
    (h21 : B ⟨21, by decide⟩ = 0)
    (h22 : B ⟨22, by decide⟩ = 0)
    (h25 : B ⟨25, by decide⟩ = 0)
    (h26 : B ⟨26, by decide⟩ = 0)
    (h28 : B ⟨28, by decide⟩ = 0)
    (h31 : B ⟨31, by decide⟩ = 0) :
    gmul 5 sig B (fac5 B) ⟨28, by decide⟩ = 0 := by
  have k3 : B 3 = 0 := h3
  have k5 : B 5 = 0 := h5
  have k6 : B 6 = 0 := h6
  have k9 : B 9 = 0 := h9
  have k10 : B 10 = 0 := h10
  have k12 : B 12 = 0 := h12
  have k17 : B 17 = 0 := h17
  have k18 : B 18 = 0 := h18
  have k20 : B 20 = 0 := h20
  have k24 : B 24 = 0 := h24
  have k7 : B 7 = 0 := h7
  have k11 : B 11 = 0 := h11
  have k13 : B 13 = 0 := h13
  have k14 : B 14 = 0 := h14
  have k19 : B 19 = 0 := h19
  have k21 : B 21 = 0 := h21
  have k22 : B 22 = 0 := h22
  have k25 : B 25 = 0 := h25
  have k26 : B 26 = 0 := h26
  have k28 : B 28 = 0 := h28
  have k31 : B 31 = 0 := h31
  simp only [gmul, fac5, gpart, Finset.sum_fin_eq_sum_range, Pi.sub_apply, Pi.add_apply, Pi.smul_apply, smul_eq_mul_R]
  simp +decide [Finset.sum_range_succ, fxor, s, swaps, metric, sgn, pc, bit, Finset.prod_range_succ, k3, k5, k6, k9, k10, k12, k17, k18, k20, k24, k7, k11, k13, k14, k19, k21, k22, k25, k26, k28, k31]
  try ring

theorem sp5_29 (sig : Nat → R) (B : CMV 5 R)
    (h3 : B ⟨3, by decide⟩ = 0)
    (h5 : B ⟨5, by decide⟩ = 0)
    (h6 : B ⟨6, by decide⟩ = 0)
    (h9 : B ⟨9, by decide⟩ = 0)
    (h10 : B ⟨10, by decide⟩ = 0)
    (h12 : B ⟨12, by decide⟩ = 0)
    (h17 : B ⟨17, by decide⟩ = 0)
    (h18 : B ⟨18, by decide⟩ = 0)
    (h20 : B ⟨20, by decide⟩ = 0)
    (h24 : B ⟨24, by decide⟩ = 0)
    (h7 : B ⟨7, by decide⟩ = 0)
    (h11 : B ⟨11, by decide⟩ = 0)
    (h13 : B ⟨13, by decide⟩ = 0)
    (h14 : B ⟨14, by decide⟩ = 0)
    (h19 : B ⟨19, by decide⟩ = 0)
    (h21 : B ⟨21, by decide⟩ = 0)
    (h22 : B ⟨22, by decide⟩ = 0)
    (h25 : B ⟨25, by decide⟩ = 0)
    (h26 : B ⟨26, by decide⟩ = 0)
    (h28 : B ⟨28, by decide⟩ = 0)
    (h31 : B ⟨31, by decide⟩ = 0) :
    gmul 5 sig B (fac5 B) ⟨29, by decide⟩ = 0 := by
  have k3 : B 3 = 0 := h3
  have k5 : B 5 = 0 := h5
  have k6 : B 6 = 0 := h6
  have k9 : B 9 = 0 := h9
  have k10 : B 10 = 0 := h10
  have k12 : B 12 = 0 := h12
  have k17 : B 17 = 0 := h17
  have k18 : B 18 = 0 := h18
  have k20 : B 20 = 0 := h20
  have k24 : B 24 = 0 := h24
  have k7 : B 7 = 0 := h7
  have k11 : B 11 = 0 := h11
  have k13 : B 13 = 0 := h13
  have k14 : B 14 = 0 := h14
  have k19 : B 19 = 0 := h19
  have k21 : B 21 = 0 := h21
  have k22 : B 22 = 0 := h22
  have k25 : B 25 = 0 := h25
  have k26 : B 26 = 0 := h26
  have k28 : B 28 = 0 := h28
  have k31 : B 31 = 0 := h31
  simp only [gmul, fac5, gpart, Finset.sum_fin_eq_sum_range, Pi.sub_apply, Pi.add_apply, Pi.smul_apply, smul_eq_mul_R]
  simp +decide [Finset.sum_range_succ, fxor, s, swaps, metric, sgn, pc, bit, Finset.prod_range_succ, k3, k5, k6, k9, k10, k12, k17, k18, k20, k24, k7, k11, k13, k14, k19, k21, k22, k25, k26, k28, k31]
  try ring

theorem sp5_30 (sig : Nat → R) (B : CMV 5 R)
    (h3 : B ⟨3, by decide⟩ = 0)
    (h5 : B ⟨5, by decide⟩ = 0)
    (h6 : B ⟨6, by decide⟩ = 0)
    (h9 : B ⟨9, by decide⟩ = 0)
    (h10 : B ⟨10, by decide⟩ = 0)
    (h12 : B ⟨12, by decide⟩ = 0)
    (h17 : B ⟨17, by decide⟩ = 0)
    (h18 : B ⟨18, by decide⟩ = 0)
    (h20 : B ⟨20, by decide⟩ = 0)
    (h24 : B ⟨24, by decide⟩ = 0)
    (h7 : B ⟨7, by decide⟩ = 0)
    (h11 : B ⟨11, by decide⟩ = 0)
    (h13 : B ⟨13, by decide⟩ = 0)
    (h14 : B ⟨14, by decide⟩ = 0)
    (h19 : B ⟨19, by decide⟩ = 0)
    (h21 : B ⟨21, by decide⟩ = 0)
    (h22 : B ⟨22, by decide⟩ = 0)
    (h25 : B ⟨25, by decide⟩ = 0)
    (h26 : B ⟨26, by decide⟩ = 0)
    (h28 : B ⟨28, by decide⟩ = 0)
    (h31 : B ⟨31, by decide⟩ = 0) :
    gmul 5 sig B (fac5 B) ⟨30, by decide⟩ = 0 := by
  have k3 : B 3 = 0 := h3
  have k5 : B 5 = 0 := h5
  have k6 : B 6 = 0 := h6
  have k9 : B 9 = 0 := h9
  have k10 : B 10 = 0 := h10
  have k12 : B 12 = 0 := h12
  have k17 : B 17 = 0 := h17
  have k18 : B 18 = 0 := h18
  have k20 : B 20 = 0 := h20
  have k24 : B 24 = 0 := h24
  have k7 : B 7 = 0 := h7
  have k11 : B 11 = 0 := h11
  have k13 : B 13 = 0 := h13
  have k14 : B 14 = 0 := h14
  have k19 : B 19 = 0 := h19
  have k21 : B 21 = 0 := h21
  have k22 : B 22 = 0 := h22
  have k25 : B 25 = 0 := h25
  have k26 : B 26 = 0 := h26
  have k28 : B 28 = 0 := h28
  have k31 : B 31 = 0 := h31
  simp only [gmul, fac5, gpart, Finset.sum_fin_eq_sum_range, Pi.sub_apply, Pi.add_apply, Pi.smul_apply, smul_eq_mul_R]
  simp +decide [Finset.sum_range_succ, fxor, s, swaps, metric, sgn, pc, bit, Finset.prod_range_succ, k3, k5, k6, k9, k10, k12, k17, k18, k20, k24, k7, k11, k13, k14, k19, k21, k22, k25, k26, k28, k31]
  try ring

