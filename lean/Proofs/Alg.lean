import Proofs.Cocycle
import Proofs.Rev2
import Mathlib.Data.Fintype.BigOperators
open Finset

variable {R : Type} [CommRing R] (n : Nat) (sig : Nat → R)

abbrev Bm (n : Nat) := Fin (2^n)

def fxor {n} (a b : Bm n) : Bm n := ⟨a.val ^^^ b.val, Nat.xor_lt_two_pow a.isLt b.isLt⟩
@[simp] theorem fxor_val {n} (a b : Bm n) : (fxor a b).val = a.val ^^^ b.val := rfl
theorem fxor_cancel {n} (a b : Bm n) : fxor a (fxor a b) = b := by ext; simp [← Nat.xor_assoc]
theorem fxor_assoc {n} (a b c : Bm n) : fxor (fxor a b) c = fxor a (fxor b c) := by ext; simp [Nat.xor_assoc]
theorem fxor_comm {n} (a b : Bm n) : fxor a b = fxor b a := by ext; simp [Nat.xor_comm]
def fzero {n} : Bm n := ⟨0, Nat.two_pow_pos n⟩
@[simp] theorem fxor_zero {n} (a : Bm n) : fxor a fzero = a := by ext; simp [fzero]
@[simp] theorem zero_fxor {n} (a : Bm n) : fxor fzero a = a := by ext; simp [fzero]
@[simp] theorem fxor_self {n} (a : Bm n) : fxor a a = fzero := by ext; simp [fzero]

def fxorEquiv {n} (a : Bm n) : Bm n ≃ Bm n := ⟨fxor a, fxor a, fxor_cancel a, fxor_cancel a⟩

/-- canonical multivectors: coefficient per bitmap -/
abbrev CMV (n : Nat) (R : Type) := Bm n → R

/-- geometric product by the code's blade sign -/
def gmul (A B : CMV n R) : CMV n R := fun c => ∑ a, s sig n a.val (fxor a c).val * A a * B (fxor a c)

def one : CMV n R := fun c => if c = fzero then 1 else 0

theorem gmul_assoc (A B C : CMV n R) : gmul n sig (gmul n sig A B) C = gmul n sig A (gmul n sig B C) := by
  funext d
  simp only [gmul, Finset.sum_mul, Finset.mul_sum]
  rw [Finset.sum_comm]
  refine Finset.sum_congr rfl (fun a _ => ?_)
  rw [← (fxorEquiv a).sum_comp]
  refine Finset.sum_congr rfl (fun b _ => ?_)
  simp only [fxorEquiv, Equiv.coe_fn_mk]
  have h1 : fxor a (fxor a b) = b := fxor_cancel a b
  have h2 : fxor (fxor a b) d = fxor a (fxor b d) := fxor_assoc a b d
  have h3 : fxor b (fxor a d) = fxor a (fxor b d) := by
    rw [← fxor_assoc, fxor_comm b a, fxor_assoc]
  have hc := sign_cocycle sig n a.val b.val (fxor a (fxor b d)).val
  have h4 : b.val ^^^ (fxor a (fxor b d)).val = (fxor a d).val := by
    simp only [fxor_val]
    apply Nat.eq_of_testBit_eq; intro i
    simp only [Nat.testBit_xor]
    cases a.val.testBit i <;> cases b.val.testBit i <;> cases d.val.testBit i <;> rfl
  rw [h4] at hc
  rw [h1, h2, h3]
  have e1 : (fxor a b).val = a.val ^^^ b.val := rfl
  rw [e1]
  calc s sig n (a.val ^^^ b.val) (fxor a (fxor b d)).val * (s sig n a.val b.val * A a * B b) * C (fxor a (fxor b d))
      = (s sig n a.val b.val * s sig n (a.val ^^^ b.val) (fxor a (fxor b d)).val) * A a * B b * C (fxor a (fxor b d)) := by ring
    _ = (s sig n b.val (fxor a (fxor b d)).val * s sig n a.val (fxor a d).val) * A a * B b * C (fxor a (fxor b d)) := by rw [hc]
    _ = _ := by ring

theorem swaps_zero_left (n b : Nat) : swaps n 0 b = 0 := by
  unfold swaps; apply Finset.sum_eq_zero; intro i _; apply Finset.sum_eq_zero; intro j _; simp [bit]
theorem swaps_zero_right (n a : Nat) : swaps n a 0 = 0 := by
  unfold swaps; apply Finset.sum_eq_zero; intro i _; apply Finset.sum_eq_zero; intro j _; simp [bit]
theorem metric_zero : metric sig n 0 = 1 := by unfold metric; simp
theorem s_zero_left (b : Nat) : s sig n 0 b = 1 := by
  unfold s; rw [swaps_zero_left, Nat.zero_and, metric_zero]; simp [sgn]
theorem s_zero_right (a : Nat) : s sig n a 0 = 1 := by
  unfold s; rw [swaps_zero_right, Nat.and_zero, metric_zero]; simp [sgn]

theorem one_gmul (A : CMV n R) : gmul n sig (one n) A = A := by
  funext c
  simp only [gmul, one]
  rw [Finset.sum_eq_single (fzero : Bm n)]
  · have : (fzero : Bm n).val = 0 := rfl
    simp [this, s_zero_left]
  · intro b _ hb; simp [hb]
  · intro h; exact absurd (Finset.mem_univ _) h

theorem gmul_one (A : CMV n R) : gmul n sig A (one n) = A := by
  funext c
  simp only [gmul, one]
  rw [Finset.sum_eq_single c]
  · have : (fzero : Bm n).val = 0 := rfl
    simp [this, s_zero_right]
  · intro b _ hb
    have : fxor b c ≠ fzero := by
      intro h; apply hb
      have := congrArg (fxor b) h; rw [fxor_cancel, fxor_zero] at this; exact this.symm
    simp [this]
  · intro h; exact absurd (Finset.mem_univ _) h

/-- reversion -/
def rev (A : CMV n R) : CMV n R := fun c => revSign (pc n c.val) * A c

theorem rev_gmul (A B : CMV n R) : rev n (gmul n sig A B) = gmul n sig (rev n B) (rev n A) := by
  funext c
  simp only [rev, gmul, Finset.mul_sum]
  -- reindex the right side by b = a ^ c
  rw [← (fxorEquiv c).sum_comp]
  refine Finset.sum_congr rfl (fun a _ => ?_)
  simp only [fxorEquiv, Equiv.coe_fn_mk]
  have h1 : fxor (fxor c a) c = a := by rw [fxor_comm c a, fxor_assoc, fxor_self, fxor_zero]
  have h2 : fxor c a = fxor a c := fxor_comm c a
  rw [h1, h2]
  have hr := s_rev sig n (fxor a c).val a.val
  have e : (fxor a c).val ^^^ a.val = c.val := by
    simp only [fxor_val]
    apply Nat.eq_of_testBit_eq; intro i
    simp only [Nat.testBit_xor]
    cases a.val.testBit i <;> cases c.val.testBit i <;> rfl
  rw [e] at hr
  calc revSign (pc n c.val) * (s sig n (fxor a c).val a.val * A (fxor a c) * B a)
      = (s sig n (fxor a c).val a.val * revSign (pc n c.val)) * A (fxor a c) * B a := by ring
    _ = (revSign (pc n (fxor a c).val) * revSign (pc n a.val) * s sig n a.val (fxor a c).val) * A (fxor a c) * B a := by rw [hr]
    _ = _ := by ring
