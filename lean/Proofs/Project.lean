import Proofs.Fund
import Proofs.Blade
import Proofs.Recip
import Mathlib.Algebra.Algebra.Basic
import Mathlib.Algebra.BigOperators.Group.List.Basic
import Mathlib.Tactic.NoncommRing
import Mathlib.Tactic.Module
import Mathlib.Tactic.LinearCombination

/-! # `B.project(x) = (x ⌋ B) B⁻¹` for an orthogonally factorised blade (C09)

`B = b₁ b₂ ⋯ b_k` with pairwise anticommuting vectors of invertible square `q_i` (every non-null blade of a real
non-degenerate algebra is a scalar multiple of such a product: Gram–Schmidt in its subspace, which is NOT formalised
here).  For a vector `x` with `x b_i + b_i x = d_i` the projection is `Σ_i (d_i / 2 q_i) b_i`, the orthogonal
projection onto the span of the factors; it is idempotent, wedges to zero with `B`, and the remainder anticommutes with
every factor and has zero contraction with `B`.

Part 1 is ring theory in an arbitrary algebra over a field; part 2 instantiates it in the model `Cl n sig` with the
coded left-contraction table. -/

namespace Proj
open Model

section Abstract
variable {R : Type} [Field R] {A : Type} [Ring A] [Algebra R A]

/-- `Σ_i (−1)^i d(b_i) • Π_{j≠i} b_j`, in the form the induction produces -/
def comb (d : A → R) : List A → A
  | [] => 0
  | b :: P => d b • P.prod - b * comb d P

/-- moving `x` through a product of elements it "anticommutes with up to a scalar" -/
theorem mul_prod (x : A) (d : A → R) (bs : List A) (hx : ∀ b ∈ bs, x * b + b * x = d b • (1 : A)) :
    x * bs.prod = ((-1 : R) ^ bs.length) • (bs.prod * x) + comb d bs := by
  induction bs with
  | nil => simp [comb]
  | cons b P ih =>
    have hb : x * b = d b • (1 : A) - b * x := by rw [← hx b (by simp)]; abel
    have ih' := ih (fun c hc => hx c (by simp [hc]))
    rw [List.prod_cons, ← mul_assoc, hb, sub_mul, smul_mul_assoc, one_mul, mul_assoc, ih', mul_add, mul_smul_comm,
      List.length_cons, pow_succ, comb, mul_assoc]
    module

/-- the inverse of the product, factor by factor -/
def pinv (q : A → R) : List A → A
  | [] => 1
  | b :: P => pinv q P * ((q b)⁻¹ • b)

theorem prod_mul_pinv (q : A → R) (bs : List A) (hq : ∀ b ∈ bs, b * b = q b • (1 : A) ∧ q b ≠ 0) :
    bs.prod * pinv q bs = 1 := by
  induction bs with
  | nil => simp [pinv]
  | cons b P ih =>
    obtain ⟨hb, hne⟩ := hq b (by simp)
    have ih' := ih (fun c hc => hq c (by simp [hc]))
    calc (b :: P).prod * pinv q (b :: P) = b * (P.prod * pinv q P) * ((q b)⁻¹ • b) := by
          rw [List.prod_cons, pinv]; noncomm_ring
      _ = (q b)⁻¹ • (b * b) := by rw [ih', mul_one, mul_smul_comm]
      _ = 1 := by rw [hb, smul_smul, inv_mul_cancel₀ hne, one_smul]

theorem pinv_mul_prod (q : A → R) (bs : List A) (hq : ∀ b ∈ bs, b * b = q b • (1 : A) ∧ q b ≠ 0) :
    pinv q bs * bs.prod = 1 := by
  induction bs with
  | nil => simp [pinv]
  | cons b P ih =>
    obtain ⟨hb, hne⟩ := hq b (by simp)
    have ih' := ih (fun c hc => hq c (by simp [hc]))
    calc pinv q (b :: P) * (b :: P).prod = (q b)⁻¹ • (pinv q P * (b * b) * P.prod) := by
          rw [List.prod_cons, pinv]; simp only [mul_assoc, smul_mul_assoc, mul_smul_comm]
      _ = pinv q P * P.prod := by rw [hb, mul_smul_comm, smul_mul_assoc, smul_smul, inv_mul_cancel₀ hne, one_smul, mul_one]
      _ = 1 := ih'

/-- `Σ_i (d_i / q_i) b_i` -/
def proj (d q : A → R) : List A → A
  | [] => 0
  | b :: P => (d b / q b) • b + proj d q P

theorem anti_proj (d q : A → R) (b : A) (P : List A) (h : ∀ c ∈ P, b * c = -(c * b)) :
    b * proj d q P = -(proj d q P * b) := by
  induction P with
  | nil => simp [proj]
  | cons c P ih =>
    rw [proj, mul_add, add_mul, mul_smul_comm, smul_mul_assoc, h c (by simp), ih (fun e he => h e (by simp [he]))]
    module

theorem comb_mul_pinv (d q : A → R) (bs : List A) (hq : ∀ b ∈ bs, b * b = q b • (1 : A) ∧ q b ≠ 0)
    (hp : bs.Pairwise (fun a b => a * b = -(b * a))) : comb d bs * pinv q bs = proj d q bs := by
  induction bs with
  | nil => simp [comb, proj]
  | cons b P ih =>
    obtain ⟨hb, hne⟩ := hq b (by simp)
    have hq' : ∀ c ∈ P, c * c = q c • (1 : A) ∧ q c ≠ 0 := fun c hc => hq c (by simp [hc])
    rw [List.pairwise_cons] at hp
    have ih' := ih hq' hp.2
    have h1 := prod_mul_pinv q P hq'
    have ha := anti_proj d q b P hp.1
    calc comb d (b :: P) * pinv q (b :: P)
        = (d b * (q b)⁻¹) • ((P.prod * pinv q P) * b) - (q b)⁻¹ • (b * (comb d P * pinv q P) * b) := by
          rw [comb, pinv]; simp only [sub_mul, mul_assoc, smul_mul_assoc, mul_smul_comm]; module
      _ = (d b / q b) • b + (q b)⁻¹ • (proj d q P * (b * b)) := by
          rw [h1, one_mul, ih', ha, neg_mul, smul_neg, sub_neg_eq_add, mul_assoc, div_eq_mul_inv]
      _ = proj d q (b :: P) := by
          rw [hb, mul_smul_comm, mul_one, smul_smul, inv_mul_cancel₀ hne, one_smul, proj]

/-- the anticommutator of `Σ (d_i/q_i) b_i` with a factor is `2 d_i` -/
theorem proj_anticomm (d q : A → R) (bs : List A) (hq : ∀ b ∈ bs, b * b = q b • (1 : A) ∧ q b ≠ 0)
    (hp : bs.Pairwise (fun a b => a * b = -(b * a))) (c : A) (hc : c ∈ bs) :
    proj d q bs * c + c * proj d q bs = (2 * d c) • (1 : A) := by
  induction bs with
  | nil => simp at hc
  | cons b P ih =>
    obtain ⟨hb, hne⟩ := hq b (by simp)
    rw [List.pairwise_cons] at hp
    rcases List.mem_cons.mp hc with rfl | hcP
    · have ha := anti_proj d q c P hp.1
      rw [proj, add_mul, mul_add, smul_mul_assoc, mul_smul_comm, ha, hb, smul_smul, div_mul_cancel₀ _ hne]
      module
    · have ih' := ih (fun e he => hq e (by simp [he])) hp.2 hcP
      have hbc := hp.1 c hcP
      rw [proj, add_mul, mul_add, smul_mul_assoc, mul_smul_comm, hbc]
      linear_combination (norm := skip) ih'
      module

end Abstract

/-! ## part 2: in the model, with the coded left-contraction table -/
section InModel
variable {R : Type} [Field R] {n : Nat} {sig : Nat → R}

theorem gi_vector (b : Cl n sig) (hb : IsHom n 1 b) : (asCl (gi n b) : Cl n sig) = -b := by
  have := gi_hom n 1 b hb
  show gi n b = -b
  rw [this]; simp only [sgn, pow_one]; exact neg_one_smul R b

/-- grade involution of a product of `k` vectors is `(−1)^k` times it -/
theorem gi_prod (bs : List (Cl n sig)) (hb : ∀ b ∈ bs, IsHom n 1 b) :
    (asCl (gi n bs.prod) : Cl n sig) = ((-1 : R) ^ bs.length) • bs.prod := by
  induction bs with
  | nil =>
    simp only [List.prod_nil, List.length_nil, pow_zero, one_smul]
    exact gi_one' n
  | cons b P ih =>
    rw [List.prod_cons, gi_mul, gi_vector b (hb b (by simp)), ih (fun c hc => hb c (by simp [hc])), List.length_cons, pow_succ]
    simp only [neg_mul, mul_smul_comm, mul_neg, mul_one, neg_smul, smul_neg]

/-- a linear combination of vectors is a vector -/
theorem proj_hom (d q : Cl n sig → R) (bs : List (Cl n sig)) (hb : ∀ b ∈ bs, IsHom n 1 b) :
    IsHom n 1 (proj d q bs : Cl n sig) := by
  induction bs with
  | nil => intro c _; rfl
  | cons b P ih =>
    have h1 : IsHom n 1 ((d b / q b) • (b : CMV n R)) := by
      intro c hc; show (d b / q b) * b c = 0; rw [hb b (by simp) c hc, mul_zero]
    exact isHom_add n 1 _ _ h1 (ih (fun e he => hb e (by simp [he])))

/-- **`2 · project(x) = Σ_i (d_i / q_i) b_i`** where `project(x) = (x ⌋ B) B⁻¹` with the coded `lcmt` table,
    `B = b₁ ⋯ b_k` orthogonal invertible vectors, `d_i = x b_i + b_i x` -/
theorem two_project (x : Cl n sig) (hx : IsHom n 1 x) (bs : List (Cl n sig)) (hb : ∀ b ∈ bs, IsHom n 1 b)
    (d q : Cl n sig → R) (hq : ∀ b ∈ bs, b * b = q b • (1 : Cl n sig) ∧ q b ≠ 0)
    (hp : bs.Pairwise (fun a b => a * b = -(b * a))) (hd : ∀ b ∈ bs, x * b + b * x = d b • (1 : Cl n sig)) :
    (asCl (mmul n sig Model.lcmtCheck x bs.prod) + asCl (mmul n sig Model.lcmtCheck x bs.prod)) * pinv q bs = proj d q bs := by
  have hl : x * bs.prod - asCl (gi n bs.prod) * x
      = asCl (mmul n sig Model.lcmtCheck x bs.prod) + asCl (mmul n sig Model.lcmtCheck x bs.prod) :=
    two_lc_vector n sig x bs.prod hx
  rw [← hl, gi_prod bs hb, mul_prod x d bs hd, smul_mul_assoc, add_sub_cancel_left, comb_mul_pinv d q bs hq hp]

/-- the projection `y = ½ Σ (d_i/q_i) b_i` has the same anticommutators with the factors as `x` … -/
theorem half_proj_anticomm (h2 : (2 : R) ≠ 0) (bs : List (Cl n sig)) (d q : Cl n sig → R)
    (hq : ∀ b ∈ bs, b * b = q b • (1 : Cl n sig) ∧ q b ≠ 0) (hp : bs.Pairwise (fun a b => a * b = -(b * a)))
    (c : Cl n sig) (hc : c ∈ bs) :
    ((2 : R)⁻¹ • proj d q bs) * c + c * ((2 : R)⁻¹ • proj d q bs) = d c • (1 : Cl n sig) := by
  have h := proj_anticomm d q bs hq hp c hc
  rw [smul_mul_assoc, mul_smul_comm, ← smul_add, h, smul_smul, ← mul_assoc, inv_mul_cancel₀ h2, one_mul]

/-- … hence **`project` is idempotent**: `2·project(y) = 2·y` for `y = project(x)` -/
theorem project_idempotent (h2 : (2 : R) ≠ 0) (bs : List (Cl n sig)) (hb : ∀ b ∈ bs, IsHom n 1 b)
    (d q : Cl n sig → R) (hq : ∀ b ∈ bs, b * b = q b • (1 : Cl n sig) ∧ q b ≠ 0)
    (hp : bs.Pairwise (fun a b => a * b = -(b * a))) :
    (asCl (mmul n sig Model.lcmtCheck ((2 : R)⁻¹ • proj d q bs : Cl n sig) bs.prod)
      + asCl (mmul n sig Model.lcmtCheck ((2 : R)⁻¹ • proj d q bs : Cl n sig) bs.prod)) * pinv q bs = proj d q bs := by
  have hy : IsHom n 1 ((2 : R)⁻¹ • proj d q bs : Cl n sig) := by
    intro c hc
    have := proj_hom d q bs hb c hc
    have e : ((2 : R)⁻¹ • (proj d q bs : Cl n sig)) c = (2 : R)⁻¹ * (proj d q bs) c := rfl
    exact e.trans ((congrArg (fun t => (2 : R)⁻¹ * t) this).trans (mul_zero _))
  exact two_project _ hy bs hb d q hq hp (fun c hc => half_proj_anticomm h2 bs d q hq hp c hc)

/-- the remainder `x − project(x)` anticommutes with every factor of `B` (is orthogonal to the subspace of `B`) -/
theorem remainder_orthogonal (h2 : (2 : R) ≠ 0) (x : Cl n sig) (bs : List (Cl n sig)) (d q : Cl n sig → R)
    (hq : ∀ b ∈ bs, b * b = q b • (1 : Cl n sig) ∧ q b ≠ 0) (hp : bs.Pairwise (fun a b => a * b = -(b * a)))
    (hd : ∀ b ∈ bs, x * b + b * x = d b • (1 : Cl n sig)) (c : Cl n sig) (hc : c ∈ bs) :
    (x - (2 : R)⁻¹ • proj d q bs) * c + c * (x - (2 : R)⁻¹ • proj d q bs) = 0 := by
  have h := half_proj_anticomm h2 bs d q hq hp c hc
  have h' := hd c hc
  rw [sub_mul, mul_sub]
  linear_combination (norm := skip) h' - h
  abel

theorem cancel_two_right (h2 : (2 : R) ≠ 0) (W Binv B : Cl n sig) (hB : Binv * B = 1) (h : (W + W) * Binv = 0) : W = 0 := by
  have h' : (2 : R) • (W * Binv) = 0 := by rw [two_smul, ← add_mul]; exact h
  have h'' : W * Binv = 0 := by
    have := congrArg (fun t => (2 : R)⁻¹ • t) h'
    simpa [smul_smul, inv_mul_cancel₀ h2] using this
  calc W = W * (Binv * B) := by rw [hB, mul_one]
    _ = (W * Binv) * B := by rw [mul_assoc]
    _ = 0 := by rw [h'', zero_mul]

/-- **the projection lies in `B`**: `project(x) ∧ B = 0` (coded outer-product table) -/
theorem project_in_blade (h2 : (2 : R) ≠ 0) (bs : List (Cl n sig)) (hb : ∀ b ∈ bs, IsHom n 1 b)
    (d q : Cl n sig → R) (hq : ∀ b ∈ bs, b * b = q b • (1 : Cl n sig) ∧ q b ≠ 0)
    (hp : bs.Pairwise (fun a b => a * b = -(b * a))) :
    (asCl (mmul n sig Model.omtCheck ((2 : R)⁻¹ • proj d q bs : Cl n sig) bs.prod) : Cl n sig) = 0 := by
  have hy : IsHom n 1 ((2 : R)⁻¹ • proj d q bs : Cl n sig) := by
    intro c hc
    have := proj_hom d q bs hb c hc
    have e : ((2 : R)⁻¹ • (proj d q bs : Cl n sig)) c = (2 : R)⁻¹ * (proj d q bs) c := rfl
    exact e.trans ((congrArg (fun t => (2 : R)⁻¹ * t) this).trans (mul_zero _))
  have hs := projection_plus_rejection n sig _ bs.prod (pinv q bs) hy (prod_mul_pinv q bs hq)
  have hi := project_idempotent h2 bs hb d q hq hp
  have hyy : ((2 : R)⁻¹ • proj d q bs : Cl n sig) + (2 : R)⁻¹ • proj d q bs = proj d q bs := by
    rw [← two_smul R ((2 : R)⁻¹ • proj d q bs : Cl n sig), smul_smul, mul_inv_cancel₀ h2, one_smul]
  apply cancel_two_right h2 _ (pinv q bs) bs.prod (pinv_mul_prod q bs hq)
  have hs2 := congrArg (fun t => t + t) hs
  simp only [hyy] at hs2
  rw [add_mul]
  rw [add_mul] at hi
  linear_combination (norm := skip) -hs2 - hi
  abel

/-- **the remainder has no part in `B`**: `(x − project(x)) ⌋ B = 0` (coded left-contraction table) -/
theorem remainder_contraction (h2 : (2 : R) ≠ 0) (x : Cl n sig) (hx : IsHom n 1 x) (bs : List (Cl n sig)) (hb : ∀ b ∈ bs, IsHom n 1 b)
    (d q : Cl n sig → R) (hq : ∀ b ∈ bs, b * b = q b • (1 : Cl n sig) ∧ q b ≠ 0)
    (hp : bs.Pairwise (fun a b => a * b = -(b * a))) (hd : ∀ b ∈ bs, x * b + b * x = d b • (1 : Cl n sig)) :
    (asCl (mmul n sig Model.lcmtCheck (x + (-1 : R) • ((2 : R)⁻¹ • proj d q bs : Cl n sig)) bs.prod) : Cl n sig) = 0 := by
  have e : mmul n sig Model.lcmtCheck (x + (-1 : R) • ((2 : R)⁻¹ • proj d q bs : Cl n sig)) bs.prod
      = mmul n sig Model.lcmtCheck x bs.prod + (-1 : R) • mmul n sig Model.lcmtCheck ((2 : R)⁻¹ • proj d q bs : Cl n sig) bs.prod := by
    exact (mmul_add_left n sig Model.lcmtCheck x _ bs.prod).trans
      (congrArg (fun t => mmul n sig Model.lcmtCheck x bs.prod + t) (mmul_smul_left n sig Model.lcmtCheck (-1 : R) _ bs.prod))
  rw [e]
  apply cancel_two_right h2 _ (pinv q bs) bs.prod (pinv_mul_prod q bs hq)
  have h1 := two_project x hx bs hb d q hq hp hd
  have hi := project_idempotent h2 bs hb d q hq hp
  rw [add_mul] at h1 hi
  show ((asCl (mmul n sig Model.lcmtCheck x bs.prod) : Cl n sig)
      + (-1 : R) • (asCl (mmul n sig Model.lcmtCheck ((2 : R)⁻¹ • proj d q bs : Cl n sig) bs.prod) : Cl n sig)
      + ((asCl (mmul n sig Model.lcmtCheck x bs.prod) : Cl n sig)
      + (-1 : R) • (asCl (mmul n sig Model.lcmtCheck ((2 : R)⁻¹ • proj d q bs : Cl n sig) bs.prod) : Cl n sig))) * pinv q bs = 0
  simp only [add_mul, smul_mul_assoc]
  linear_combination (norm := skip) h1 - hi
  module

end InModel
end Proj
