import Proofs.GaExp
import Proofs.Quat
open Ship Quat
set_option linter.unusedSectionVars false

/-! the hypotheses of `Proofs/GaExp.lean` hold for *every* rotation–translation bivector of g3c: unit axis `a`, rotation plane
`P = a·e123`, `ninf = e4 + e5`, translation `t` split into `tn = (t·a) a` (what the code calls `t_nor`) and `tp = t − tn` -/

namespace GaExp

variable {A : Type} [Ring A] [Algebra ℚ A] {e : Fin 5 → A} {sig : Fin 5 → ℚ}

def Pl (e : Fin 5 → A) (a1 a2 a3 : ℚ) : A := vec3 e a1 a2 a3 * I3 e
def ninf (e : Fin 5 → A) : A := e 3 + e 4
def tnor (e : Fin 5 → A) (a1 a2 a3 t1 t2 t3 : ℚ) : A := (t1 * a1 + t2 * a2 + t3 * a3) • vec3 e a1 a2 a3
def tpar (e : Fin 5 → A) (a1 a2 a3 t1 t2 t3 : ℚ) : A := vec3 e t1 t2 t3 - tnor e a1 a2 a3 t1 t2 t3

section
variable (G : Gens e sig) (h0 : sig 0 = 1) (h1 : sig 1 = 1) (h2 : sig 2 = 1) (h3 : sig 3 = 1) (h4 : sig 4 = -1)
  (a1 a2 a3 t1 t2 t3 : ℚ) (ha : a1 ^ 2 + a2 ^ 2 + a3 ^ 2 = 1)
include G h0 h1 h2 h3 h4 ha

theorem Pl_sq : Pl e a1 a2 a3 * Pl e a1 a2 a3 = -1 := by
  have haA : (a1 ^ 2 + a2 ^ 2 + a3 ^ 2) • (1 : A) = (1 : ℚ) • (1 : A) := by rw [ha]
  simp only [Pl, vec3, I3]
  gens_nf G
  simp only [h0, h1, h2]
  linear_combination (norm := module) (-1 : ℚ) • haA

theorem ninf_sq : ninf e * ninf e = 0 := by
  simp only [ninf]
  gens_nf G
  simp only [h3, h4]
  module

theorem Pl_ninf : Pl e a1 a2 a3 * ninf e = ninf e * Pl e a1 a2 a3 := by
  simp only [Pl, ninf, vec3, I3]
  gens_nf G
  module

theorem tnor_ninf : tnor e a1 a2 a3 t1 t2 t3 * ninf e = -(ninf e * tnor e a1 a2 a3 t1 t2 t3) := by
  simp only [tnor, ninf, vec3]
  gens_nf G
  module

theorem tpar_ninf : tpar e a1 a2 a3 t1 t2 t3 * ninf e = -(ninf e * tpar e a1 a2 a3 t1 t2 t3) := by
  simp only [tpar, tnor, ninf, vec3]
  gens_nf G
  module

theorem Pl_tnor : Pl e a1 a2 a3 * tnor e a1 a2 a3 t1 t2 t3 = tnor e a1 a2 a3 t1 t2 t3 * Pl e a1 a2 a3 := by
  simp only [Pl, tnor, vec3, I3]
  gens_nf G
  simp only [h0, h1, h2]
  module

theorem Pl_tpar : Pl e a1 a2 a3 * tpar e a1 a2 a3 t1 t2 t3 = -(tpar e a1 a2 a3 t1 t2 t3 * Pl e a1 a2 a3) := by
  have haI : (a1 ^ 2 + a2 ^ 2 + a3 ^ 2) • (e 0 * (e 1 * e 2)) = (1 : ℚ) • (e 0 * (e 1 * e 2)) := by rw [ha]
  simp only [Pl, tpar, tnor, vec3, I3]
  gens_nf G
  simp only [h0, h1, h2]
  linear_combination (norm := module) (-2 * (t1 * a1 + t2 * a2 + t3 * a3) : ℚ) • haI

theorem Pl_ep : Pl e a1 a2 a3 * e 3 = e 3 * Pl e a1 a2 a3 := by
  simp only [Pl, vec3, I3]
  gens_nf G
  try module

theorem ninf_ep : ninf e * e 3 + e 3 * ninf e = (2 : ℚ) • (1 : A) := by
  simp only [ninf]
  gens_nf G
  simp only [h3]
  module

end

end GaExp
