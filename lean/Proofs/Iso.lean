import Proofs.Surj
import Mathlib.RingTheory.OrzechProperty
import Mathlib.RingTheory.FiniteType
import Mathlib.LinearAlgebra.CliffordAlgebra.Basic
import Mathlib.LinearAlgebra.Span.Basic

/-! # C01: Mathlib's Clifford algebra of the diagonal form is ISOMORPHIC to the model

`Proofs/Lift.lean` maps `CliffordAlgebra (Q n sig)` to the model by the universal property; `Proofs/Surj.lean` shows that map is onto.
Here: the `2^n` ordered products of the generators `ι(e_i)` span `CliffordAlgebra (Q n sig)` (their span contains `1` and is closed under left
multiplication by every `ι(e_i)`: a generator moves through an ordered product up to a sign, and squares to a scalar), so there is a
surjection `R^(2^n) → CliffordAlgebra`; composed with the surjection onto the model (`= R^(2^n)`) it is a surjective endomorphism of a finite
free module, hence injective (Orzech) — so the canonical map is injective.  Any commutative ring, any `n`, any diagonal signature
(degenerate ones and characteristic 2 included). -/

open Finset
variable {R : Type} [CommRing R] {n : Nat} {sig : Nat → R}

namespace Cl
open CliffordAlgebra

/-- the generators of Mathlib's Clifford algebra of the diagonal form (`1` beyond `n`, so that no bound is needed in the recursion) -/
noncomputable def gen (n : Nat) (sig : Nat → R) (i : Nat) : CliffordAlgebra (Q n sig) :=
  if h : i < n then ι (Q n sig) (Pi.single (⟨i, h⟩ : Fin n) (1 : R)) else 1

theorem Q_single (i : Fin n) : Q n sig (Pi.single i (1 : R)) = sig i.val := by
  classical
  simp only [Q, QuadraticMap.weightedSumSquares_apply, Pi.single_apply, smul_eq_mul]
  rw [Finset.sum_eq_single i]
  · simp
  · intro b _ hb; simp [hb]
  · intro h; exact absurd (Finset.mem_univ _) h

theorem Q_single_add (i j : Fin n) (h : i ≠ j) :
    Q n sig (Pi.single i (1 : R) + Pi.single j 1) = Q n sig (Pi.single i (1 : R)) + Q n sig (Pi.single j (1 : R)) := by
  classical
  rw [Q_single, Q_single]
  simp only [Q, QuadraticMap.weightedSumSquares_apply, Pi.add_apply, Pi.single_apply, smul_eq_mul]
  rw [← Finset.add_sum_erase _ _ (Finset.mem_univ i), ← Finset.add_sum_erase _ _ (Finset.mem_erase.mpr ⟨h.symm, Finset.mem_univ j⟩)]
  have hz : ∑ x ∈ (univ.erase i).erase j, sig x.val * (((if x = i then (1 : R) else 0) + if x = j then 1 else 0) * ((if x = i then 1 else 0) + if x = j then 1 else 0)) = 0 := by
    apply Finset.sum_eq_zero
    intro x hx
    have h1 : x ≠ j := (Finset.mem_erase.mp hx).1
    have h2 : x ≠ i := (Finset.mem_erase.mp (Finset.mem_erase.mp hx).2).1
    simp [h1, h2]
  rw [hz]
  simp [h, h.symm]

theorem gen_sq (i : Nat) (hi : i < n) : gen n sig i * gen n sig i = algebraMap R _ (sig i) := by
  unfold gen; rw [dif_pos hi, ι_sq_scalar, Q_single]

theorem gen_anti (i j : Nat) (hi : i < n) (hj : j < n) (h : i ≠ j) : gen n sig i * gen n sig j = -(gen n sig j * gen n sig i) := by
  unfold gen; rw [dif_pos hi, dif_pos hj]
  apply ι_mul_ι_comm_of_isOrtho
  rw [QuadraticMap.isOrtho_def]
  exact Q_single_add ⟨i, hi⟩ ⟨j, hj⟩ (fun e => h (congrArg Fin.val e))

/-- ordered product of the generators whose bits are set in `a`, among the first `t` -/
noncomputable def Pn (n : Nat) (sig : Nat → R) : Nat → Nat → CliffordAlgebra (Q n sig)
  | 0, _ => 1
  | t + 1, a => Pn n sig t a * (if a.testBit t then gen n sig t else 1)

theorem Pn_congr (t a b : Nat) (h : ∀ i, i < t → a.testBit i = b.testBit i) : Pn n sig t a = Pn n sig t b := by
  induction t with
  | zero => rfl
  | succ t ih =>
    simp only [Pn]
    rw [ih (fun i hi => h i (Nat.lt_succ_of_lt hi)), h t (Nat.lt_succ_self t)]

theorem Pn_zero (t : Nat) : Pn n sig t 0 = 1 := by
  induction t with
  | zero => rfl
  | succ t ih => simp [Pn, ih]

/-- the span of the ordered products on the first `t` generators -/
noncomputable def S (n : Nat) (sig : Nat → R) (t : Nat) : Submodule R (CliffordAlgebra (Q n sig)) :=
  Submodule.span R (Set.range (fun a : Nat => Pn n sig t a))

theorem Pn_mem (t a : Nat) : Pn n sig t a ∈ S n sig t := Submodule.subset_span ⟨a, rfl⟩

/-- `Pn t a` and `Pn t a * g_t` are ordered products on the first `t + 1` generators -/
theorem Pn_mem_succ (t a : Nat) : Pn n sig t a ∈ S n sig (t + 1) := by
  have h : Pn n sig (t + 1) (a % 2 ^ t) = Pn n sig t a := by
    simp only [Pn]
    have hb : (a % 2 ^ t).testBit t = false := by simp [Nat.testBit_mod_two_pow]
    rw [hb]; simp only [Bool.false_eq_true, if_false, mul_one]
    apply Pn_congr; intro i hi; simp [Nat.testBit_mod_two_pow, hi]
  rw [← h]; exact Pn_mem _ _

theorem Pn_mul_gen_mem_succ (t a : Nat) : Pn n sig t a * gen n sig t ∈ S n sig (t + 1) := by
  have h : Pn n sig (t + 1) (a % 2 ^ t ||| 2 ^ t) = Pn n sig t a * gen n sig t := by
    simp only [Pn]
    have hb : (a % 2 ^ t ||| 2 ^ t).testBit t = true := by simp [Nat.testBit_or, Nat.testBit_two_pow]
    rw [hb]; simp only [if_true]
    congr 1
    apply Pn_congr; intro i hi
    have : (2 ^ t).testBit i = false := by rw [Nat.testBit_two_pow]; simp; omega
    simp [Nat.testBit_or, Nat.testBit_mod_two_pow, hi, this]
  rw [← h]; exact Pn_mem _ _

theorem S_mono (t : Nat) : S n sig t ≤ S n sig (t + 1) := by
  apply Submodule.span_le.mpr
  rintro _ ⟨a, rfl⟩
  exact Pn_mem_succ t a

theorem S_mul_gen (t : Nat) (y : CliffordAlgebra (Q n sig)) (hy : y ∈ S n sig t) : y * gen n sig t ∈ S n sig (t + 1) := by
  refine Submodule.span_induction (p := fun y _ => y * gen n sig t ∈ S n sig (t + 1)) ?_ ?_ ?_ ?_ hy
  · rintro _ ⟨a, rfl⟩; exact Pn_mul_gen_mem_succ t a
  · simp
  · intro x y _ _ hx hy; rw [add_mul]; exact Submodule.add_mem _ hx hy
  · intro r x _ hx; rw [smul_mul_assoc]; exact Submodule.smul_mem _ r hx

/-- a generator above the first `t` commutes with an ordered product on them up to a sign -/
theorem gen_comm_Pn (i : Nat) (hi : i < n) (t : Nat) (ht : t ≤ i) (a : Nat) :
    ∃ ε : R, gen n sig i * Pn n sig t a = ε • (Pn n sig t a * gen n sig i) := by
  induction t with
  | zero => exact ⟨1, by simp [Pn]⟩
  | succ t ih =>
    obtain ⟨ε, hε⟩ := ih (Nat.le_of_succ_le ht)
    have hti : t ≠ i := by omega
    have htn : t < n := by omega
    simp only [Pn]
    by_cases hb : a.testBit t
    · simp only [hb, if_true]
      refine ⟨-ε, ?_⟩
      rw [← mul_assoc, hε, smul_mul_assoc, mul_assoc, gen_anti i t hi htn (Ne.symm hti), mul_neg, ← mul_assoc, neg_smul, smul_neg]
    · simp only [hb, Bool.false_eq_true, if_false, mul_one]
      exact ⟨ε, hε⟩

/-- the span on the first `t` generators is closed under left multiplication by each of them -/
theorem gen_mul_mem (t : Nat) (ht : t ≤ n) : ∀ i, i < t → ∀ x ∈ S n sig t, gen n sig i * x ∈ S n sig t := by
  induction t with
  | zero => intro i hi; omega
  | succ t ih =>
    intro i hi x hx
    have htn : t < n := ht
    refine Submodule.span_induction (p := fun x _ => gen n sig i * x ∈ S n sig (t + 1)) ?_ ?_ ?_ ?_ hx
    · rintro _ ⟨a, rfl⟩
      simp only [Pn]
      rcases Nat.lt_succ_iff_lt_or_eq.mp hi with hlt | heq
      · -- i < t: multiply inside the smaller span, then append the last factor
        have h1 := ih (Nat.le_of_succ_le ht) i hlt (Pn n sig t a) (Pn_mem t a)
        rw [← mul_assoc]
        by_cases hb : a.testBit t
        · simp only [hb, if_true]; exact S_mul_gen t _ h1
        · simp only [hb, Bool.false_eq_true, if_false, mul_one]; exact S_mono t h1
      · -- i = t: move the generator to the right end
        subst heq
        obtain ⟨ε, hε⟩ := gen_comm_Pn (sig := sig) i htn i (le_refl i) a
        rw [← mul_assoc, hε]
        by_cases hb : a.testBit i
        · simp only [hb, if_true]
          rw [smul_mul_assoc, mul_assoc, gen_sq i htn, ← Algebra.commutes, ← Algebra.smul_def]
          exact Submodule.smul_mem _ _ (Submodule.smul_mem _ _ (Pn_mem_succ i a))
        · simp only [hb, Bool.false_eq_true, if_false, mul_one]
          exact Submodule.smul_mem _ _ (Pn_mul_gen_mem_succ i a)
    · simp
    · intro x y _ _ hx hy; rw [mul_add]; exact Submodule.add_mem _ hx hy
    · intro r x _ hx; rw [mul_smul_comm]; exact Submodule.smul_mem _ r hx

theorem ι_eq_sum_gen (v : Fin n → R) : ι (Q n sig) v = ∑ i : Fin n, v i • gen n sig i.val := by
  classical
  have hv : v = ∑ i : Fin n, v i • (Pi.single i (1 : R) : Fin n → R) := by
    funext j; simp [Finset.sum_apply, Pi.single_apply]
  conv_lhs => rw [hv]
  rw [map_sum]
  refine Finset.sum_congr rfl (fun i _ => ?_)
  rw [map_smul]; unfold gen; rw [dif_pos i.isLt]

/-- **the `2^n` ordered products span Mathlib's Clifford algebra of the diagonal form** -/
theorem S_top : S n sig n = ⊤ := by
  rw [eq_top_iff]
  intro x _
  have key : ∀ x : CliffordAlgebra (Q n sig), ∀ s ∈ S n sig n, x * s ∈ S n sig n := by
    intro x
    induction x using CliffordAlgebra.induction with
    | algebraMap r => intro s hs; rw [← Algebra.smul_def]; exact Submodule.smul_mem _ r hs
    | ι v =>
      intro s hs
      rw [ι_eq_sum_gen, Finset.sum_mul]
      apply Submodule.sum_mem
      intro i _
      rw [smul_mul_assoc]
      exact Submodule.smul_mem _ _ (gen_mul_mem n (le_refl n) i.val i.isLt s hs)
    | mul a b ha hb => intro s hs; rw [mul_assoc]; exact ha _ (hb s hs)
    | add a b ha hb => intro s hs; rw [add_mul]; exact Submodule.add_mem _ (ha s hs) (hb s hs)
  have h1 : (1 : CliffordAlgebra (Q n sig)) ∈ S n sig n := by rw [← Pn_zero (sig := sig) n]; exact Pn_mem n 0
  simpa using key x 1 h1

/-- the coefficient map `(Bm n → R) → CliffordAlgebra`, `c ↦ Σ c_a • (ordered product a)` -/
noncomputable def coeffMap (n : Nat) (sig : Nat → R) : (Bm n → R) →ₗ[R] CliffordAlgebra (Q n sig) where
  toFun c := ∑ a : Bm n, c a • Pn n sig n a.val
  map_add' c d := by simp [add_smul, Finset.sum_add_distrib]
  map_smul' r c := by simp [mul_smul, Finset.smul_sum]

theorem coeffMap_surjective : Function.Surjective (coeffMap n sig) := by
  classical
  intro x
  have hx : x ∈ S n sig n := by rw [S_top]; trivial
  refine Submodule.span_induction (p := fun x _ => ∃ c, coeffMap n sig c = x) ?_ ?_ ?_ ?_ hx
  · rintro _ ⟨a, rfl⟩
    -- `Pn n a` only depends on the low `n` bits of `a`
    have hlt : a % 2 ^ n < 2 ^ n := Nat.mod_lt _ (Nat.two_pow_pos n)
    refine ⟨(Pi.single (⟨a % 2 ^ n, hlt⟩ : Bm n) (1 : R) : Bm n → R), ?_⟩
    show ∑ b : Bm n, (Pi.single (⟨a % 2 ^ n, hlt⟩ : Bm n) (1 : R) : Bm n → R) b • Pn n sig n b.val = Pn n sig n a
    rw [Finset.sum_eq_single (⟨a % 2 ^ n, hlt⟩ : Bm n)]
    · simp only [Pi.single_eq_same, one_smul]
      apply Pn_congr; intro i hi; simp [Nat.testBit_mod_two_pow, hi]
    · intro b _ hb; simp [Pi.single_apply, hb]
    · intro h; exact absurd (Finset.mem_univ _) h
  · exact ⟨0, map_zero _⟩
  · rintro x y _ _ ⟨c, rfl⟩ ⟨d, rfl⟩; exact ⟨c + d, map_add _ _ _⟩
  · rintro r x _ ⟨c, rfl⟩; exact ⟨r • c, map_smul _ _ _⟩

/-- the model as a plain function space (the identity map) -/
def toFun' (n : Nat) (sig : Nat → R) : Cl n sig →ₗ[R] (Bm n → R) where
  toFun A := A
  map_add' _ _ := rfl
  map_smul' _ _ := rfl

/-- **Mathlib's Clifford algebra of the diagonal form is isomorphic to the model**: the canonical map is injective (and onto) -/
theorem fromMathlib_injective : Function.Injective (fromMathlib (n := n) (sig := sig)) := by
  have hsurj : Function.Surjective ((toFun' n sig).comp ((fromMathlib (n := n) (sig := sig)).toLinearMap.comp (coeffMap n sig))) := by
    intro y
    obtain ⟨x, hx⟩ := fromMathlib_surjective (n := n) (sig := sig) (y : Cl n sig)
    obtain ⟨c, hc⟩ := coeffMap_surjective (n := n) (sig := sig) x
    exact ⟨c, by simp only [LinearMap.comp_apply, AlgHom.toLinearMap_apply, hc, hx]; rfl⟩
  have hinj := OrzechProperty.injective_of_surjective_endomorphism _ hsurj
  intro x y hxy
  obtain ⟨c, rfl⟩ := coeffMap_surjective (n := n) (sig := sig) x
  obtain ⟨d, rfl⟩ := coeffMap_surjective (n := n) (sig := sig) y
  have : c = d := hinj (by simp only [LinearMap.comp_apply, AlgHom.toLinearMap_apply, hxy])
  rw [this]

theorem fromMathlib_bijective : Function.Bijective (fromMathlib (n := n) (sig := sig)) :=
  ⟨fromMathlib_injective, fromMathlib_surjective⟩

/-- the algebra isomorphism -/
noncomputable def mathlibEquiv (n : Nat) (sig : Nat → R) : CliffordAlgebra (Q n sig) ≃ₐ[R] Cl n sig :=
  AlgEquiv.ofBijective fromMathlib fromMathlib_bijective

end Cl
