import Proofs.Spec
open Finset

variable {R : Type} [CommRing R]

theorem sum_mod_congr {ι} (s : Finset ι) (f g : ι → Nat) (h : ∀ i ∈ s, f i % 2 = g i % 2) :
    (∑ i ∈ s, f i) % 2 = (∑ i ∈ s, g i) % 2 := by
  rw [Finset.sum_nat_mod, Finset.sum_nat_mod s 2 g]
  congr 1; exact Finset.sum_congr rfl h

theorem swaps_xor_left (n x y z : Nat) :
    swaps n (x ^^^ y) z % 2 = (swaps n x z + swaps n y z) % 2 := by
  unfold swaps
  rw [← Finset.sum_add_distrib]
  apply sum_mod_congr; intro i _
  rw [← Finset.sum_add_distrib]
  apply sum_mod_congr; intro j _
  have := bit_xor_mod x y i
  rw [← add_mul, Nat.mul_mod, this, ← Nat.mul_mod]

theorem swaps_xor_right (n x y z : Nat) :
    swaps n x (y ^^^ z) % 2 = (swaps n x y + swaps n x z) % 2 := by
  unfold swaps
  rw [← Finset.sum_add_distrib]
  apply sum_mod_congr; intro i _
  rw [← Finset.sum_add_distrib]
  apply sum_mod_congr; intro j _
  have := bit_xor_mod y z j
  rw [← mul_add, Nat.mul_mod, this, ← Nat.mul_mod]




theorem metric_cocycle (sig : Nat → R) (n x y z : Nat) :
    metric sig n (x &&& y) * metric sig n ((x ^^^ y) &&& z)
      = metric sig n (y &&& z) * metric sig n (x &&& (y ^^^ z)) := by
  unfold metric
  rw [← Finset.prod_mul_distrib, ← Finset.prod_mul_distrib]
  apply Finset.prod_congr rfl; intro i _
  simp only [Nat.testBit_and, Nat.testBit_xor]
  cases x.testBit i <;> cases y.testBit i <;> cases z.testBit i <;> simp

theorem sign_cocycle (sig : Nat → R) (n x y z : Nat) :
    s sig n x y * s sig n (x ^^^ y) z = s sig n y z * s sig n x (y ^^^ z) := by
  unfold s
  have hL : (sgn (swaps n (x ^^^ y) z) : R) = sgn (swaps n x z) * sgn (swaps n y z) := by
    rw [← sgn_add]; exact sgn_congr (swaps_xor_left n x y z)
  have hR : (sgn (swaps n x (y ^^^ z)) : R) = sgn (swaps n x y) * sgn (swaps n x z) := by
    rw [← sgn_add]; exact sgn_congr (swaps_xor_right n x y z)
  have hm := metric_cocycle sig n x y z
  rw [hL, hR]
  calc sgn (swaps n x y) * metric sig n (x &&& y) * (sgn (swaps n x z) * sgn (swaps n y z) * metric sig n ((x ^^^ y) &&& z))
      = sgn (swaps n x y) * sgn (swaps n x z) * sgn (swaps n y z) * (metric sig n (x &&& y) * metric sig n ((x ^^^ y) &&& z)) := by ring
    _ = sgn (swaps n x y) * sgn (swaps n x z) * sgn (swaps n y z) * (metric sig n (y &&& z) * metric sig n (x &&& (y ^^^ z))) := by rw [hm]
    _ = _ := by ring
