import Proofs.KernelArr
import Mathlib.Algebra.BigOperators.Group.Finset.Basic

namespace KernelArr
open Model
variable {R : Type} [CommRing R]

/-- a `foldl` accumulating a sum over `List.range` is the list sum -/
theorem foldl_add_eq_sum (f : Nat → R) (l : List Nat) (init : R) :
    l.foldl (fun acc i => acc + f i) init = init + (l.map f).sum := by
  induction l generalizing init with
  | nil => simp
  | cons a l ih => simp only [List.foldl_cons, List.map_cons, List.sum_cons]; rw [ih]; ring

/-- the dot product of a row with `b` -/
def rowDot (row b : Array R) : R := ((List.range row.size).map fun i => row.getD i 0 * b.getD i 0).sum

theorem mulVec_getD (mat : Array (Array R)) (b : Array R) (j : Nat) (hj : j < mat.size) :
    (mulVec mat b).getD j 0 = rowDot (mat.getD j #[]) b := by
  unfold mulVec rowDot
  simp only [Array.getD_eq_getD_getElem?, Array.getElem?_map]
  have : mat[j]? = some mat[j] := Array.getElem?_eq_getElem hj
  rw [this]; simp only [Option.map_some, Option.getD_some]
  rw [foldl_add_eq_sum]; simp

theorem sum_range_ite (n m : Nat) (c : R) (g : Nat → R) (hm : m < n) :
    ((List.range n).map fun i => if m = i then c * g i else 0).sum = c * g m := by
  induction n with
  | zero => omega
  | succ n ih =>
    rw [List.range_succ, List.map_append, List.sum_append]
    by_cases h : m = n
    · subst h
      have : ((List.range m).map fun i => if m = i then c * g i else 0).sum = 0 := by
        apply List.sum_eq_zero; intro x hx
        obtain ⟨i, hi, rfl⟩ := List.mem_map.mp hx
        have := List.mem_range.mp hi
        rw [if_neg (by omega)]
      rw [this]; simp
    · rw [ih (by omega)]; simp [h]

/-- modifying one entry of a row changes the dot product by that entry's contribution -/
theorem rowDot_modify (row b : Array R) (m : Nat) (c : R) :
    rowDot (row.modify m (· + c)) b = rowDot row b + (if m < row.size then c * b.getD m 0 else 0) := by
  unfold rowDot
  simp only [Array.size_modify]
  have h1 : ∀ i ∈ List.range row.size, (row.modify m (· + c)).getD i 0 * b.getD i 0
      = row.getD i 0 * b.getD i 0 + (if m = i then c * b.getD i 0 else 0) := by
    intro i hi
    rw [getD_modify row m i _ (List.mem_range.mp hi)]
    split <;> ring
  rw [List.map_congr_left h1]
  have h2 : ((List.range row.size).map fun i => row.getD i 0 * b.getD i 0 + (if m = i then c * b.getD i 0 else 0)).sum
      = ((List.range row.size).map fun i => row.getD i 0 * b.getD i 0).sum
        + ((List.range row.size).map fun i => if m = i then c * b.getD i 0 else 0).sum := by
    induction (List.range row.size) with
    | nil => simp
    | cons a l ih => simp only [List.map_cons, List.sum_cons]; rw [ih]; ring
  rw [h2]
  by_cases hm : m < row.size
  · rw [sum_range_ite row.size m c (fun i => b.getD i 0) hm, if_pos hm]
  · rw [if_neg hm]
    have : ((List.range row.size).map fun i => if m = i then c * b.getD i 0 else 0).sum = 0 := by
      apply List.sum_eq_zero; intro x hx
      obtain ⟨i, hi, rfl⟩ := List.mem_map.mp hx
      have := List.mem_range.mp hi
      rw [if_neg (by omega)]
    rw [this]

theorem getD_modify' {α : Type} (xs : Array α) (i j : Nat) (f : α → α) (d : α) (hj : j < xs.size) :
    (xs.modify i f).getD j d = if i = j then f (xs.getD j d) else xs.getD j d := by
  simp only [Array.getD_eq_getD_getElem?, Array.getElem?_modify]
  by_cases h : i = j
  · subst h; simp [hj]
  · simp [h]

/-- row `j` of the accumulated matrix, dotted with `b` -/
theorem leftMat_fold_rowDot (dims : Nat) (es : List Entry) (x b : Array R) (j : Nat) :
    ∀ (init : Array (Array R)), j < init.size → (init.getD j #[]).size = dims →
    rowDot ((es.foldl (fun mat e => mat.modify e.l (fun row => row.modify e.m (· + (e.v : R) * x.getD e.k 0))) init).getD j #[]) b
      = rowDot (init.getD j #[]) b
        + (es.map fun e => if e.l = j ∧ e.m < dims then (e.v : R) * x.getD e.k 0 * b.getD e.m 0 else 0).sum := by
  induction es with
  | nil => intro init _ _; simp
  | cons e es ih =>
    intro init hj hsz
    simp only [List.foldl_cons, List.map_cons, List.sum_cons]
    have hstep : (init.modify e.l (fun row => row.modify e.m (· + (e.v : R) * x.getD e.k 0))).getD j #[]
        = if e.l = j then (init.getD j #[]).modify e.m (· + (e.v : R) * x.getD e.k 0) else init.getD j #[] :=
      getD_modify' init e.l j _ #[] hj
    have hsz' : ((init.modify e.l (fun row => row.modify e.m (· + (e.v : R) * x.getD e.k 0))).getD j #[]).size = dims := by
      rw [hstep]
      by_cases h : e.l = j
      · rw [if_pos h, Array.size_modify]; exact hsz
      · rw [if_neg h]; exact hsz
    rw [ih _ (by simpa using hj) hsz', hstep]
    by_cases h : e.l = j
    · simp only [h, if_true, true_and]
      rw [rowDot_modify, hsz]
      split <;> ring
    · simp only [h, if_false, false_and]; ring

/-- **`get_left_gmt_matrix(x) @ b = x * b`**: the matrix built by `_numba_val_get_left_mt_matrix` applied to `b` is the table
    contraction, when every entry's column index is inside the matrix -/
theorem leftMat_mulVec (dims : Nat) (es : List Entry) (x b : Array R) (j : Nat) (hj : j < dims) (hm : ∀ e ∈ es, e.m < dims) :
    (mulVec (leftMat dims es x) b).getD j 0 = contraction es x b j := by
  have hsize : (leftMat dims es x).size = dims := by
    unfold leftMat
    have : ∀ (init : Array (Array R)), (es.foldl (fun mat e => mat.modify e.l (fun row => row.modify e.m (· + (e.v : R) * x.getD e.k 0))) init).size = init.size := by
      induction es with
      | nil => intro init; rfl
      | cons e es ih => intro init; simp only [List.foldl_cons]; rw [ih (fun e' he' => hm e' (List.mem_cons_of_mem _ he'))]; simp
    rw [this]; simp
  rw [mulVec_getD _ _ _ (by rw [hsize]; exact hj)]
  unfold leftMat
  have h0 : ((Array.replicate dims (Array.replicate dims (0 : R))).getD j #[]) = Array.replicate dims 0 := by
    simp [Array.getD_eq_getD_getElem?, Array.getElem?_replicate, hj]
  rw [leftMat_fold_rowDot dims es x b j _ (by simpa using hj) (by rw [h0]; simp), h0]
  have hz : rowDot (Array.replicate dims (0 : R)) b = 0 := by
    unfold rowDot
    apply List.sum_eq_zero; intro y hy
    obtain ⟨i, hi, rfl⟩ := List.mem_map.mp hy
    simp only [Array.getD_eq_getD_getElem?, Array.getElem?_replicate]
    split <;> simp
  rw [hz, zero_add]
  unfold contraction
  congr 1
  apply List.map_congr_left
  intro e he
  by_cases h : e.l = j
  · simp only [h, true_and, if_true, hm e he]; ring
  · simp [h]

/-- the right matrix: `get_right_gmt_matrix(x) @ b = b * x` -/
theorem rightMat_mulVec (dims : Nat) (es : List Entry) (x b : Array R) (j : Nat) (hj : j < dims) (hk : ∀ e ∈ es, e.k < dims) :
    (mulVec (rightMat dims es x) b).getD j 0 = contraction es b x j := by
  unfold rightMat
  rw [leftMat_mulVec dims _ x b j hj (by
    intro e he; obtain ⟨e', he', rfl⟩ := List.mem_map.mp he; exact hk e' he')]
  unfold contraction
  rw [List.map_map]
  congr 1
  apply List.map_congr_left
  intro e _
  simp only [Function.comp]
  split <;> ring

end KernelArr
