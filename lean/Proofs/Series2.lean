import Proofs.SeriesP
import Mathlib.Tactic.Abel

/-! C16: the truncated hyperbolic / trigonometric series as coded (`X2n = X2n * X2`, coefficient `1/gamma(2n+1)` resp.
    `1/gamma(2n+2)`, alternating sign for cos / sin) and exact identities between the truncations -/
namespace SeriesP
open Finset
variable {A : Type} [Ring A] [Algebra ℚ A]

/-- `cosh(X, N)` / `cos(X, N)` as coded: `Σ_{n<N} σ^n X^{2n}/(2n)!` with `σ = 1` resp. `−1` -/
def evenTrunc (σ : ℚ) (N : Nat) (X : A) : A := ∑ n ∈ range N, (σ ^ n / ((2 * n).factorial : ℚ)) • X ^ (2 * n)
/-- `sinh(X, N)` / `sin(X, N)` as coded: `Σ_{n<N} σ^n X^{2n+1}/(2n+1)!` -/
def oddTrunc (σ : ℚ) (N : Nat) (X : A) : A := ∑ n ∈ range N, (σ ^ n / ((2 * n + 1).factorial : ℚ)) • X ^ (2 * n + 1)

/-- **`cosh_N(X) + sinh_N(X) = exp_{2N}(X)`, exactly, for every multivector**: the identity `exp = cosh + sinh` holds between
    the truncations (the 30-term `cosh`/`sinh` of the code add up to the 60-term exponential series) -/
theorem cosh_add_sinh (N : Nat) (X : A) : evenTrunc 1 N X + oddTrunc 1 N X = expTrunc (2 * N) X := by
  induction N with
  | zero => simp [evenTrunc, oddTrunc, expTrunc]
  | succ N ih =>
    have e : 2 * (N + 1) = 2 * N + 1 + 1 := by ring
    unfold evenTrunc oddTrunc expTrunc at *
    rw [Finset.sum_range_succ, Finset.sum_range_succ, e, Finset.sum_range_succ, Finset.sum_range_succ, ← ih]
    simp only [one_pow]
    abel

/-- parity: the even series ignores the sign of its argument, the odd series carries it -/
theorem evenTrunc_neg (σ : ℚ) (N : Nat) (X : A) : evenTrunc σ N (-X) = evenTrunc σ N X := by
  unfold evenTrunc
  refine Finset.sum_congr rfl (fun n _ => ?_)
  rw [Even.neg_pow ⟨n, by ring⟩]

theorem oddTrunc_neg (σ : ℚ) (N : Nat) (X : A) : oddTrunc σ N (-X) = - oddTrunc σ N X := by
  unfold oddTrunc
  rw [← Finset.sum_neg_distrib]
  refine Finset.sum_congr rfl (fun n _ => ?_)
  rw [Odd.neg_pow ⟨n, by ring⟩, smul_neg]

/-- on a blade with `B*B = s`: `cos/cosh_N(B) = (Σ σ^n s^n/(2n)!)·1`, `sin/sinh_N(B) = (Σ σ^n s^n/(2n+1)!)·B` -/
theorem evenTrunc_blade (σ : ℚ) (B : A) (s : ℚ) (h : B * B = s • (1 : A)) (N : Nat) :
    evenTrunc σ N B = (∑ n ∈ range N, σ ^ n / ((2 * n).factorial : ℚ) * s ^ n) • (1 : A) := by
  unfold evenTrunc
  rw [Finset.sum_smul]
  refine Finset.sum_congr rfl (fun n _ => ?_)
  rw [pow_even B s h n, smul_smul]

theorem oddTrunc_blade (σ : ℚ) (B : A) (s : ℚ) (h : B * B = s • (1 : A)) (N : Nat) :
    oddTrunc σ N B = (∑ n ∈ range N, σ ^ n / ((2 * n + 1).factorial : ℚ) * s ^ n) • B := by
  unfold oddTrunc
  rw [Finset.sum_smul]
  refine Finset.sum_congr rfl (fun n _ => ?_)
  rw [pow_odd B s h n, smul_smul]

omit [Algebra ℚ A] in
/-- the loop invariant of the coded series: after `n` passes `X2n = (X*X)^n = X^{2n}` -/
theorem sq_pow (X : A) (n : Nat) : (X * X) ^ n = X ^ (2 * n) := by rw [← pow_two, ← pow_mul]

end SeriesP
