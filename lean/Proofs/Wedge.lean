import Proofs.Alg
open Finset

variable {R : Type} [CommRing R] (n : Nat)

/-- generic sign-twisted product and its associativity from a cocycle identity -/
def tmul (w : Nat → Nat → R) (A B : CMV n R) : CMV n R :=
  fun c => ∑ a, w a.val (fxor a c).val * A a * B (fxor a c)

theorem tmul_assoc (w : Nat → Nat → R)
    (hw : ∀ x y z, w x y * w (x ^^^ y) z = w y z * w x (y ^^^ z))
    (A B C : CMV n R) : tmul n w (tmul n w A B) C = tmul n w A (tmul n w B C) := by
  funext d
  simp only [tmul, Finset.sum_mul, Finset.mul_sum]
  rw [Finset.sum_comm]
  refine Finset.sum_congr rfl (fun a _ => ?_)
  rw [← (fxorEquiv a).sum_comp]
  refine Finset.sum_congr rfl (fun b _ => ?_)
  simp only [fxorEquiv, Equiv.coe_fn_mk]
  have h1 : fxor a (fxor a b) = b := fxor_cancel a b
  have h2 : fxor (fxor a b) d = fxor a (fxor b d) := fxor_assoc a b d
  have h3 : fxor b (fxor a d) = fxor a (fxor b d) := by
    rw [← fxor_assoc, fxor_comm b a, fxor_assoc]
  have hc := hw a.val b.val (fxor a (fxor b d)).val
  have h4 : b.val ^^^ (fxor a (fxor b d)).val = (fxor a d).val := by
    simp only [fxor_val]
    apply Nat.eq_of_testBit_eq; intro i
    simp only [Nat.testBit_xor]
    cases a.val.testBit i <;> cases b.val.testBit i <;> cases d.val.testBit i <;> rfl
  rw [h4] at hc
  rw [h1, h2, h3]
  have e1 : (fxor a b).val = a.val ^^^ b.val := rfl
  rw [e1]
  calc w (a.val ^^^ b.val) (fxor a (fxor b d)).val * (w a.val b.val * A a * B b) * C (fxor a (fxor b d))
      = (w a.val b.val * w (a.val ^^^ b.val) (fxor a (fxor b d)).val) * A a * B b * C (fxor a (fxor b d)) := by ring
    _ = (w b.val (fxor a (fxor b d)).val * w a.val (fxor a d).val) * A a * B b * C (fxor a (fxor b d)) := by rw [hc]
    _ = _ := by ring

/-- outer-product sign: Euclidean reordering sign when the blades are disjoint, else 0 (no metric) -/
def wsign (a b : Nat) : R := if a &&& b = 0 then sgn (swaps n a b) else 0

theorem and_eq_zero_iff (a b : Nat) : a &&& b = 0 ↔ ∀ i, ¬ (a.testBit i = true ∧ b.testBit i = true) := by
  constructor
  · intro h i ⟨ha, hb⟩
    have := congrArg (fun x => x.testBit i) h
    simp [Nat.testBit_and, ha, hb] at this
  · intro h
    apply Nat.eq_of_testBit_eq; intro i
    have := h i
    simp only [Nat.testBit_and, Nat.zero_testBit]
    cases ha : a.testBit i <;> cases hb : b.testBit i <;> simp_all

theorem disjoint_cocycle (x y z : Nat) :
    (x &&& y = 0 ∧ (x ^^^ y) &&& z = 0) ↔ (y &&& z = 0 ∧ x &&& (y ^^^ z) = 0) := by
  simp only [and_eq_zero_iff, Nat.testBit_xor]
  constructor
  · rintro ⟨h1, h2⟩
    refine ⟨fun i => ?_, fun i => ?_⟩ <;>
    · have a := h1 i; have b := h2 i
      cases hx : x.testBit i <;> cases hy : y.testBit i <;> cases hz : z.testBit i <;> simp_all
  · rintro ⟨h1, h2⟩
    refine ⟨fun i => ?_, fun i => ?_⟩ <;>
    · have a := h1 i; have b := h2 i
      cases hx : x.testBit i <;> cases hy : y.testBit i <;> cases hz : z.testBit i <;> simp_all

theorem wsign_cocycle (x y z : Nat) :
    (wsign n x y : R) * wsign n (x ^^^ y) z = wsign n y z * wsign n x (y ^^^ z) := by
  unfold wsign
  by_cases hL : x &&& y = 0 ∧ (x ^^^ y) &&& z = 0
  · have hR := (disjoint_cocycle x y z).mp hL
    rw [if_pos hL.1, if_pos hL.2, if_pos hR.1, if_pos hR.2]
    have h1 : (sgn (swaps n (x ^^^ y) z) : R) = sgn (swaps n x z) * sgn (swaps n y z) := by
      rw [← sgn_add]; exact sgn_congr (swaps_xor_left n x y z)
    have h2 : (sgn (swaps n x (y ^^^ z)) : R) = sgn (swaps n x y) * sgn (swaps n x z) := by
      rw [← sgn_add]; exact sgn_congr (swaps_xor_right n x y z)
    rw [h1, h2]; ring
  · have hR : ¬ (y &&& z = 0 ∧ x &&& (y ^^^ z) = 0) := fun h => hL ((disjoint_cocycle x y z).mpr h)
    have l0 : (if x &&& y = 0 then (sgn (swaps n x y) : R) else 0) * (if (x ^^^ y) &&& z = 0 then sgn (swaps n (x ^^^ y) z) else 0) = 0 := by
      by_cases a : x &&& y = 0
      · have : ¬ ((x ^^^ y) &&& z = 0) := fun b => hL ⟨a, b⟩
        simp [this]
      · simp [a]
    have r0 : (if y &&& z = 0 then (sgn (swaps n y z) : R) else 0) * (if x &&& (y ^^^ z) = 0 then sgn (swaps n x (y ^^^ z)) else 0) = 0 := by
      by_cases a : y &&& z = 0
      · have : ¬ (x &&& (y ^^^ z) = 0) := fun b => hR ⟨a, b⟩
        simp [this]
      · simp [a]
    rw [l0, r0]

/-- the outer product and its associativity, for every n; no signature appears anywhere -/
def wedge (A B : CMV n R) : CMV n R := tmul n (wsign n) A B

theorem wedge_assoc (A B C : CMV n R) : wedge n (wedge n A B) C = wedge n A (wedge n B C) :=
  tmul_assoc n (wsign n) (wsign_cocycle n) A B C

/-- on disjoint blades the geometric sign equals the outer sign (metric factor is an empty product) -/
theorem s_eq_wsign_of_disjoint (sig : Nat → R) (a b : Nat) (h : a &&& b = 0) : s sig n a b = wsign n a b := by
  unfold s wsign; rw [h, metric_zero, if_pos rfl, mul_one]

/-- grade of the product blade is |a|+|b| exactly when the blades are disjoint -/
theorem pc_xor_eq_add_iff (a b : Nat) (ha : a < 2^n) (hb : b < 2^n) :
    pc n (a ^^^ b) = pc n a + pc n b ↔ a &&& b = 0 := by
  have hx := pc_xor n a b
  constructor
  · intro h
    have h0 : pc n (a &&& b) = 0 := by omega
    apply Nat.eq_of_testBit_eq; intro i
    rw [Nat.zero_testBit]
    by_cases hi : i < n
    · unfold pc at h0
      have := (Finset.sum_eq_zero_iff.mp h0) i (mem_range.mpr hi)
      unfold bit at this
      by_cases ht : (a &&& b).testBit i
      · simp [ht] at this
      · simpa using ht
    · have : a &&& b < 2^i := lt_of_le_of_lt Nat.and_le_left (lt_of_lt_of_le ha (Nat.pow_le_pow_right (by decide) (by omega)))
      exact Nat.testBit_lt_two_pow this
  · intro h; rw [h] at hx
    have : pc n 0 = 0 := by unfold pc; apply Finset.sum_eq_zero; intro i _; simp [bit]
    omega
