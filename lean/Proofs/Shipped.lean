import Proofs.Ring
import Mathlib.Tactic.NoncommRing
import Mathlib.Tactic.LinearCombination
import Mathlib.Algebra.Algebra.Rat
import Mathlib.Algebra.Algebra.Basic
import Mathlib.Tactic.Module

/-! # The other shipped models (gac, dpga, dg3c): up/down round trips from the generator relations (C08)

`Gens e sig`: `n` pairwise anticommuting elements of a ℚ-algebra with scalar squares `sig i` — the defining relations of the
Clifford algebra of the diagonal form; the model `Cl n sig` satisfies them with `e i = Cl.e i` (`model_gens`).  `gens_nf`
normal-orders products of generators (ascending index); the generated theorems of `translate/shipped2lean.py` are proved
from these relations alone, so they hold in every such algebra. -/

namespace Ship
variable {A : Type} [Ring A] [Algebra ℚ A]

structure Gens {n : Nat} (e : Fin n → A) (sig : Fin n → ℚ) : Prop where
  sq : ∀ i, e i * e i = sig i • (1 : A)
  anti : ∀ i j, i ≠ j → e i * e j = -(e j * e i)

section
variable {n : Nat} {e : Fin n → A} {sig : Fin n → ℚ}
theorem Gens.sq' (G : Gens e sig) (i : Fin n) (z : A) : e i * (e i * z) = sig i • z := by
  rw [← mul_assoc, G.sq, smul_mul_assoc, one_mul]
theorem Gens.swap (G : Gens e sig) (i j : Fin n) (h : j < i) : e i * e j = -(e j * e i) := G.anti i j (ne_of_gt h)
theorem Gens.swap' (G : Gens e sig) (i j : Fin n) (h : j < i) (z : A) : e i * (e j * z) = -(e j * (e i * z)) := by
  rw [← mul_assoc, G.swap i j h, neg_mul, mul_assoc]
end

/-- expand bilinearly and normal-order every product of generators (ascending index), using `sq` and `anti` -/
macro "gens_nf" G:term : tactic => `(tactic| (
  simp (disch := decide) only [mul_add, add_mul, mul_sub, sub_mul, smul_mul_assoc, mul_smul_comm, smul_smul, mul_assoc, mul_one, one_mul,
    neg_mul, mul_neg, neg_neg, smul_neg, neg_smul, smul_add, smul_sub,
    ($G).sq, ($G).sq', ($G).swap, ($G).swap']))

/-- the model satisfies the relations (any `n`, any signature over ℚ) -/
theorem model_gens (n : Nat) (sig : Nat → ℚ) :
    Gens (A := Cl n sig) (fun i : Fin n => Cl.e i.val i.isLt) (fun i => sig i.val) where
  sq i := Cl.e_sq i.val i.isLt
  anti i j h := Cl.e_anticomm i.val j.val i.isLt j.isLt (fun hv => h (Fin.ext hv))

/-! ### `(P1 ∧ P2) | c` for vectors: the half-sum forms the translator writes -/

/-- with `c` anticommuting with `P1` and `P2 c + c P2 = β`: `½(D c − c D) = (β/2) P1` for `D = ½(P1 P2 − P2 P1)` -/
theorem wedge_inner_vector (P1 P2 c : A) (β : ℚ) (hA : P1 * c = -(c * P1)) (hB : P2 * c + c * P2 = β • (1 : A)) :
    (1/2 : ℚ) • (((1/2 : ℚ) • (P1 * P2 + (-1 : ℚ) • (P2 * P1))) * c - (1 : ℚ) • (c * ((1/2 : ℚ) • (P1 * P2 + (-1 : ℚ) • (P2 * P1)))))
      = (β / 2) • P1 := by
  have hB' : P2 * c = β • (1 : A) - c * P2 := by rw [← hB]; abel
  have e1 : P1 * P2 * c = c * (P1 * P2) + β • P1 := by
    rw [mul_assoc, hB', mul_sub, mul_smul_comm, mul_one, ← mul_assoc, hA, neg_mul, mul_assoc]; abel
  have e2 : P2 * P1 * c = c * (P2 * P1) - β • P1 := by
    rw [mul_assoc, hA, mul_neg, ← mul_assoc, hB', sub_mul, smul_mul_assoc, one_mul, mul_assoc]; abel
  simp only [smul_mul_assoc, mul_smul_comm, add_mul, mul_add, one_smul, e1, e2]
  module

end Ship

/-! ### the coefficient functionals of the model: `[()]` (scalar slot) and the slot of a basis vector -/
namespace Ship

/-- `M[()]` in the model -/
def scModel {n : Nat} {sig : Nat → ℚ} (M : Cl n sig) : ℚ := M fzero

theorem scModel_smul_one {n : Nat} {sig : Nat → ℚ} (q : ℚ) : scModel (q • (1 : Cl n sig)) = q := by
  show q * (one n : CMV n ℚ) fzero = q
  simp [one]

/-- the coefficient of the basis vector `e_i` in the model, as a linear functional -/
def coModel {n : Nat} {sig : Nat → ℚ} (i : Fin n) : Cl n sig →ₗ[ℚ] ℚ where
  toFun M := M ⟨2 ^ i.val, Nat.pow_lt_pow_right (by decide) i.isLt⟩
  map_add' _ _ := rfl
  map_smul' _ _ := rfl

theorem coModel_e {n : Nat} {sig : Nat → ℚ} (i j : Fin n) :
    coModel (sig := sig) i (Cl.e j.val j.isLt) = if i = j then 1 else 0 := by
  show (blade n ⟨2 ^ j.val, _⟩ : CMV n ℚ) ⟨2 ^ i.val, _⟩ = _
  unfold blade
  by_cases h : i = j
  · subst h; simp
  · have : (⟨2 ^ i.val, Nat.pow_lt_pow_right (by decide) i.isLt⟩ : Bm n) ≠ ⟨2 ^ j.val, Nat.pow_lt_pow_right (by decide) j.isLt⟩ := by
      intro e
      have := congrArg Fin.val e
      exact h (Fin.ext (Nat.pow_right_injective (le_refl 2) this))
    simp [this, h]

end Ship
