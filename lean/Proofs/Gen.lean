import Proofs.Alg
open Finset

variable {R : Type} [CommRing R] (n : Nat) (sig : Nat → R)

/-- basis blade with bitmap `a` -/
def blade (a : Bm n) : CMV n R := fun c => if c = a then 1 else 0

theorem gmul_blade_blade (a b : Bm n) :
    gmul n sig (blade n a) (blade n b) = fun c => if c = fxor a b then s sig n a.val b.val else 0 := by
  funext c
  simp only [gmul, blade]
  rw [Finset.sum_eq_single a]
  · by_cases h : c = fxor a b
    · subst h; simp [fxor_cancel]
    · have : fxor a c ≠ b := by
        intro hb; apply h; rw [← hb, fxor_cancel]
      simp [h, this]
  · intro x _ hx; simp [hx]
  · intro h; exact absurd (Finset.mem_univ _) h

/-- bit of a power of two -/
theorem bit_two_pow (i j : Nat) : bit (2^i) j = if j = i then 1 else 0 := by
  unfold bit; rw [Nat.testBit_two_pow]; by_cases h : i = j <;> simp [h, eq_comm]

/-- swaps with a single generator on the right: number of bits of `a` above `t` -/
theorem swaps_single_right (a t : Nat) (ht : t < n) :
    swaps n a (2^t) = ∑ i ∈ Ico (t+1) n, bit a i := by
  unfold swaps
  rw [Finset.range_eq_Ico, ← Finset.sum_Ico_consecutive _ (Nat.zero_le (t+1)) (by omega : t+1 ≤ n)]
  have h0 : ∑ i ∈ Ico 0 (t+1), ∑ j ∈ range i, bit a i * bit (2^t) j = 0 := by
    apply Finset.sum_eq_zero; intro i hi; apply Finset.sum_eq_zero; intro j hj
    have : j ≠ t := by have := (mem_Ico.mp hi).2; have := mem_range.mp hj; omega
    simp [bit_two_pow, this]
  rw [h0, Nat.zero_add]
  apply Finset.sum_congr rfl; intro i hi
  have hti : t < i := by have := (mem_Ico.mp hi).1; omega
  rw [Finset.sum_eq_single t]
  · simp [bit_two_pow]
  · intro j _ hj; simp [bit_two_pow, hj]
  · intro h; exact absurd (mem_range.mpr hti) h

/-- swaps with a single generator on the left: number of bits of `b` below `t` -/
theorem swaps_single_left (b t : Nat) (ht : t < n) :
    swaps n (2^t) b = ∑ j ∈ range t, bit b j := by
  unfold swaps
  rw [Finset.sum_eq_single t]
  · simp [bit_two_pow]
  · intro i _ hi; apply Finset.sum_eq_zero; intro j _; simp [bit_two_pow, hi]
  · intro h; exact absurd (mem_range.mpr ht) h

theorem metric_single (t : Nat) (ht : t < n) : metric sig n (2^t) = sig t := by
  unfold metric
  rw [Finset.prod_eq_single t]
  · simp [Nat.testBit_two_pow]
  · intro i _ hi; simp [Nat.testBit_two_pow, Ne.symm hi]
  · intro h; exact absurd (mem_range.mpr ht) h

/-- e_t * e_t = sig t  (as a sign/metric statement) -/
theorem s_gen_sq (t : Nat) (ht : t < n) : s sig n (2^t) (2^t) = sig t := by
  unfold s
  rw [swaps_single_left n (2^t) t ht, Nat.and_self, metric_single n sig t ht]
  have : ∑ j ∈ range t, bit (2^t) j = 0 := by
    apply Finset.sum_eq_zero; intro j hj
    have : j ≠ t := by have := mem_range.mp hj; omega
    simp [bit_two_pow, this]
  rw [this]; simp [sgn]

theorem two_pow_and_two_pow {i j : Nat} (h : i ≠ j) : 2^i &&& 2^j = 0 := by
  apply Nat.eq_of_testBit_eq; intro k
  simp only [Nat.testBit_and, Nat.testBit_two_pow, Nat.zero_testBit]
  by_cases h1 : i = k <;> by_cases h2 : j = k <;> simp [h1, h2]
  omega

/-- distinct generators anticommute: s(e_i,e_j) = - s(e_j,e_i) -/
theorem s_gen_anticomm (i j : Nat) (hi : i < n) (hj : j < n) (h : i ≠ j) :
    s sig n (2^i) (2^j) = - s sig n (2^j) (2^i) := by
  unfold s
  rw [two_pow_and_two_pow h, two_pow_and_two_pow (Ne.symm h), metric_zero,
      swaps_single_left n (2^j) i hi, swaps_single_left n (2^i) j hj]
  rcases Nat.lt_or_gt_of_ne h with hlt | hgt
  · -- i < j : no bit of 2^j below i; one bit of 2^i below j
    have a0 : ∑ k ∈ range i, bit (2^j) k = 0 := by
      apply Finset.sum_eq_zero; intro k hk
      have : k ≠ j := by have := mem_range.mp hk; omega
      simp [bit_two_pow, this]
    have a1 : ∑ k ∈ range j, bit (2^i) k = 1 := by
      rw [Finset.sum_eq_single i]
      · simp [bit_two_pow]
      · intro k _ hk; simp [bit_two_pow, hk]
      · intro hh; exact absurd (mem_range.mpr hlt) hh
    rw [a0, a1]; simp [sgn]
  · have a0 : ∑ k ∈ range j, bit (2^i) k = 0 := by
      apply Finset.sum_eq_zero; intro k hk
      have : k ≠ i := by have := mem_range.mp hk; omega
      simp [bit_two_pow, this]
    have a1 : ∑ k ∈ range i, bit (2^j) k = 1 := by
      rw [Finset.sum_eq_single j]
      · simp [bit_two_pow]
      · intro k _ hk; simp [bit_two_pow, hk]
      · intro hh; exact absurd (mem_range.mpr hgt) hh
    rw [a0, a1]; simp [sgn]

/-- appending the top generator: a blade times a generator above all its bits has sign +1 -/
theorem s_append_top (a t : Nat) (ht : t < n) (ha : a < 2^t) : s sig n a (2^t) = 1 := by
  unfold s
  rw [swaps_single_right n a t ht]
  have h0 : ∑ i ∈ Ico (t+1) n, bit a i = 0 := by
    apply Finset.sum_eq_zero; intro i hi
    exact bit_zero_of_lt ha (by have := (mem_Ico.mp hi).1; omega)
  have hand : a &&& 2^t = 0 := by
    apply Nat.eq_of_testBit_eq; intro k
    simp only [Nat.testBit_and, Nat.testBit_two_pow, Nat.zero_testBit]
    by_cases hk : t = k
    · subst hk; simp [Nat.testBit_lt_two_pow ha]
    · simp [hk]
  rw [h0, hand, metric_zero]; simp [sgn]
