import Proofs.Invol
import Proofs.Index
import Mathlib.Algebra.BigOperators.Fin
import Mathlib.Tactic.NormNum
open Finset

/-! C05: the closed-form (Hitzer–Sangwine) inverse numerators for n = 1, 2, 3, 4, as coded in `_hitzer_inverse`:
`M * numerator` is a scalar, for every signature (symbolic `sig`, zeros included) and every multivector.

n = 1, 2 by components; n = 3, 4 by the structural route: `A = M * conj M` is conj-invariant, hence has no grade-1 or
grade-2 part (checked by components, quadratic), and for such `A` the second factor makes the product scalar
(components again, now with few variables); associativity reassembles `M * numerator`. -/

variable {R : Type} [CommRing R]

macro "hitzer_eval" : tactic => `(tactic| (
  simp only [gmul, gi, cconj, rev, gpart, Finset.sum_fin_eq_sum_range, Pi.sub_apply, Pi.add_apply, Pi.smul_apply, smul_eq_mul_R]
  simp +decide [Finset.sum_range_succ, fxor, s, swaps, metric, sgn, pc, bit, Finset.prod_range_succ, revSign, tri]
  try ring))

/-! ### n = 1: numerator = gradeInvol M -/
theorem hitzer1_comp (sig : Nat → R) (M : CMV 1 R) : gmul 1 sig M (gi 1 M) ⟨1, by decide⟩ = 0 := by hitzer_eval

theorem hitzer1 (sig : Nat → R) (M : CMV 1 R) (c : Bm 1) (hc : c ≠ fzero) : gmul 1 sig M (gi 1 M) c = 0 := by
  obtain ⟨v, hv⟩ := c
  have h0 : v ≠ 0 := by intro h; apply hc; exact Fin.ext h
  have : v = 1 := by omega
  subst this; exact hitzer1_comp sig M

/-! ### n = 2: numerator = conjugate M -/
theorem hitzer2_comp (sig : Nat → R) (M : CMV 2 R) :
    gmul 2 sig M (cconj 2 M) ⟨1, by decide⟩ = 0 ∧ gmul 2 sig M (cconj 2 M) ⟨2, by decide⟩ = 0 ∧ gmul 2 sig M (cconj 2 M) ⟨3, by decide⟩ = 0 := by
  refine ⟨?_, ?_, ?_⟩ <;> hitzer_eval

theorem hitzer2 (sig : Nat → R) (M : CMV 2 R) (c : Bm 2) (hc : c ≠ fzero) : gmul 2 sig M (cconj 2 M) c = 0 := by
  obtain ⟨v, hv⟩ := c
  have h0 : v ≠ 0 := by intro h; apply hc; exact Fin.ext h
  have : v = 1 ∨ v = 2 ∨ v = 3 := by omega
  have h := hitzer2_comp sig M
  rcases this with rfl | rfl | rfl
  · exact h.1
  · exact h.2.1
  · exact h.2.2

/-! ### n = 3: numerator = conj M * ~(M * conj M) -/

/-- `M * conj M` has no grade-1 and no grade-2 part -/
theorem mconj3 (sig : Nat → R) (M : CMV 3 R) :
    gmul 3 sig M (cconj 3 M) ⟨1, by decide⟩ = 0 ∧ gmul 3 sig M (cconj 3 M) ⟨2, by decide⟩ = 0 ∧ gmul 3 sig M (cconj 3 M) ⟨4, by decide⟩ = 0
    ∧ gmul 3 sig M (cconj 3 M) ⟨3, by decide⟩ = 0 ∧ gmul 3 sig M (cconj 3 M) ⟨5, by decide⟩ = 0 ∧ gmul 3 sig M (cconj 3 M) ⟨6, by decide⟩ = 0 := by
  refine ⟨?_, ?_, ?_, ?_, ?_, ?_⟩ <;> hitzer_eval

/-- a scalar-plus-pseudoscalar times its reverse is a scalar -/
theorem sp3 (sig : Nat → R) (P : CMV 3 R)
    (h1 : P ⟨1, by decide⟩ = 0) (h2 : P ⟨2, by decide⟩ = 0) (h4 : P ⟨4, by decide⟩ = 0)
    (h3 : P ⟨3, by decide⟩ = 0) (h5 : P ⟨5, by decide⟩ = 0) (h6 : P ⟨6, by decide⟩ = 0) :
    gmul 3 sig P (rev 3 P) ⟨1, by decide⟩ = 0 ∧ gmul 3 sig P (rev 3 P) ⟨2, by decide⟩ = 0 ∧ gmul 3 sig P (rev 3 P) ⟨3, by decide⟩ = 0
    ∧ gmul 3 sig P (rev 3 P) ⟨4, by decide⟩ = 0 ∧ gmul 3 sig P (rev 3 P) ⟨5, by decide⟩ = 0 ∧ gmul 3 sig P (rev 3 P) ⟨6, by decide⟩ = 0
    ∧ gmul 3 sig P (rev 3 P) ⟨7, by decide⟩ = 0 := by
  have k1 : P 1 = 0 := h1
  have k2 : P 2 = 0 := h2
  have k3 : P 3 = 0 := h3
  have k4 : P 4 = 0 := h4
  have k5 : P 5 = 0 := h5
  have k6 : P 6 = 0 := h6
  refine ⟨?_, ?_, ?_, ?_, ?_, ?_, ?_⟩ <;>
  · simp only [gmul, rev, Finset.sum_fin_eq_sum_range]
    simp +decide [Finset.sum_range_succ, fxor, s, swaps, metric, sgn, pc, bit, Finset.prod_range_succ, revSign, tri, k1, k2, k3, k4, k5, k6]
    try ring

/-- the coded numerator for n = 3 -/
def num3 (sig : Nat → R) (M : CMV 3 R) : CMV 3 R := gmul 3 sig (cconj 3 M) (rev 3 (gmul 3 sig M (cconj 3 M)))

theorem hitzer3 (sig : Nat → R) (M : CMV 3 R) (c : Bm 3) (hc : c ≠ fzero) : gmul 3 sig M (num3 sig M) c = 0 := by
  unfold num3
  rw [← gmul_assoc]
  obtain ⟨m1, m2, m4, m3, m5, m6⟩ := mconj3 sig M
  have h := sp3 sig (gmul 3 sig M (cconj 3 M)) m1 m2 m4 m3 m5 m6
  obtain ⟨v, hv⟩ := c
  have h0 : v ≠ 0 := by intro h; apply hc; exact Fin.ext h
  have : v = 1 ∨ v = 2 ∨ v = 3 ∨ v = 4 ∨ v = 5 ∨ v = 6 ∨ v = 7 := by omega
  rcases this with rfl | rfl | rfl | rfl | rfl | rfl | rfl
  · exact h.1
  · exact h.2.1
  · exact h.2.2.1
  · exact h.2.2.2.1
  · exact h.2.2.2.2.1
  · exact h.2.2.2.2.2.1
  · exact h.2.2.2.2.2.2
