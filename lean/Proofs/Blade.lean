import Proofs.Graded
import Proofs.Ring
import Proofs.InvProps
import Proofs.Outer

/-! C09: a vector times anything splits into left contraction plus outer product -/

variable {R : Type} [CommRing R] (n : Nat) (sig : Nat → R)

theorem pc_and_le_left (a b : Nat) : pc n (a &&& b) ≤ pc n a := by
  unfold pc
  apply Finset.sum_le_sum
  intro i _
  rw [bit_and]
  have := bit_le_one b i
  calc bit a i * bit b i ≤ bit a i * 1 := Nat.mul_le_mul_left _ this
    _ = bit a i := Nat.mul_one _

/-- for a vector `x` and *any* multivector `B`: `x * B = x ⌋ B + x ∧ B` (the tables `lcmt` and `omt` as coded) -/
theorem vector_mul_split (x B : CMV n R) (hx : IsHom n 1 x) :
    gmul n sig x B = mmul n sig Model.lcmtCheck x B + mmul n sig Model.omtCheck x B := by
  funext c
  simp only [gmul, mmul, Pi.add_apply, ← Finset.sum_add_distrib]
  refine Finset.sum_congr rfl (fun a _ => ?_)
  by_cases ha : pc n a.val = 1
  · have hx' := pc_xor n a.val (fxor a c).val
    have hc : a.val ^^^ (fxor a c).val = c.val := by
      simp only [fxor_val]
      apply Nat.eq_of_testBit_eq; intro i
      simp only [Nat.testBit_xor]
      cases a.val.testBit i <;> cases c.val.testBit i <;> rfl
    rw [hc, ha] at hx'
    have hle := pc_and_le_left n a.val (fxor a c).val
    rw [ha] at hle
    rw [ha]
    -- pc c = pc b + 1 (disjoint) or pc b - 1 (shared bit)
    rcases Nat.eq_zero_or_pos (pc n (a.val &&& (fxor a c).val)) with h0 | hpos
    · have hpc : pc n c.val = 1 + pc n (fxor a c).val := by omega
      have h1 : Model.omtCheck (pc n c.val : Nat) (1 : Nat) (pc n (fxor a c).val : Nat) = true := by
        simp only [Model.omtCheck, beq_iff_eq]; omega
      have h2 : Model.lcmtCheck (pc n c.val : Nat) (1 : Nat) (pc n (fxor a c).val : Nat) = false := by
        simp only [Model.lcmtCheck, beq_eq_false_iff_ne, ne_eq]; omega
      rw [h1, h2]; simp
    · have hpc : pc n c.val + 1 = pc n (fxor a c).val := by omega
      have h1 : Model.omtCheck (pc n c.val : Nat) (1 : Nat) (pc n (fxor a c).val : Nat) = false := by
        simp only [Model.omtCheck, beq_eq_false_iff_ne, ne_eq]; omega
      have h2 : Model.lcmtCheck (pc n c.val : Nat) (1 : Nat) (pc n (fxor a c).val : Nat) = true := by
        simp only [Model.lcmtCheck, beq_iff_eq]; omega
      rw [h1, h2]; simp
  · rw [hx a ha]; simp

/-- view a canonical multivector as an element of the ring `Cl n sig` (definitionally the same function) -/
def asCl {n : Nat} {sig : Nat → R} (A : CMV n R) : Cl n sig := A

/-- hence, for an invertible `B` (`B * Binv = 1`): `x = (x ⌋ B) B⁻¹ + (x ∧ B) B⁻¹` — projection plus rejection -/
theorem projection_plus_rejection (x B Binv : Cl n sig) (hx : IsHom n 1 x) (hB : B * Binv = 1) :
    x = asCl (mmul n sig Model.lcmtCheck x B) * Binv + asCl (mmul n sig Model.omtCheck x B) * Binv := by
  have h := vector_mul_split n sig x B hx
  have h' : x * B = asCl (mmul n sig Model.lcmtCheck x B) + asCl (mmul n sig Model.omtCheck x B) := h
  calc x = x * (B * Binv) := by rw [hB, mul_one]
    _ = (x * B) * Binv := by rw [mul_assoc]
    _ = _ := by rw [h', add_mul]

/-! ### vectors: `a | b = ½ (ab + ba)` and `a ∧ b = ½ (ab − ba)` (what the abstract conformal identities of C08 use) -/

theorem gmul_scalar_part_symm (a b : CMV n R) : gmul n sig a b fzero = gmul n sig b a fzero := by
  simp only [gmul, fxor_zero]
  refine Finset.sum_congr rfl (fun x _ => ?_)
  ring

/-- on vectors the inner-product table and the left-contraction table agree, and are symmetric -/
theorem vector_inner_eq_lc (a b : CMV n R) (ha : IsHom n 1 a) (hb : IsHom n 1 b) :
    mmul n sig Model.imtCheck a b = mmul n sig Model.lcmtCheck a b := by
  rw [mmul_hom n sig Model.imtCheck 1 1 0 (fun v => by rw [imtCheck_iff v 1 1 (by decide) (by decide)]; simp) a b ha hb,
    mmul_hom n sig Model.lcmtCheck 1 1 0 (fun v => by rw [lcmtCheck_iff_of_le v 1 1 (le_refl 1)]) a b ha hb]

theorem vector_inner_symm (a b : CMV n R) (ha : IsHom n 1 a) (hb : IsHom n 1 b) :
    mmul n sig Model.imtCheck a b = mmul n sig Model.imtCheck b a := by
  rw [mmul_hom n sig Model.imtCheck 1 1 0 (fun v => by rw [imtCheck_iff v 1 1 (by decide) (by decide)]; simp) a b ha hb,
    mmul_hom n sig Model.imtCheck 1 1 0 (fun v => by rw [imtCheck_iff v 1 1 (by decide) (by decide)]; simp) b a hb ha]
  funext c
  simp only [gpart]
  split
  · rename_i hc
    -- grade 0 means c = 0
    have : c = fzero := by
      apply Fin.ext
      have hz : ∀ i, i < n → c.val.testBit i = false := by
        intro i hi
        unfold pc at hc
        have := (Finset.sum_eq_zero_iff.mp hc) i (Finset.mem_range.mpr hi)
        unfold bit at this
        by_cases ht : c.val.testBit i
        · simp [ht] at this
        · simpa using ht
      apply Nat.eq_of_testBit_eq; intro i
      show c.val.testBit i = (0 : Nat).testBit i
      rw [Nat.zero_testBit]
      by_cases hi : i < n
      · exact hz i hi
      · have : c.val < 2 ^ i := lt_of_lt_of_le c.isLt (Nat.pow_le_pow_right (by decide) (by omega))
        exact Nat.testBit_lt_two_pow this
    subst this
    exact gmul_scalar_part_symm n sig a b
  · rfl

/-- `2 (a | b) = ab + ba` for vectors, with the coded inner-product table -/
theorem two_vector_inner (a b : CMV n R) (ha : IsHom n 1 a) (hb : IsHom n 1 b) :
    mmul n sig Model.imtCheck a b + mmul n sig Model.imtCheck a b = gmul n sig a b + gmul n sig b a := by
  have h1 := vector_mul_split n sig a b ha
  have h2 := vector_mul_split n sig b a hb
  rw [h1, h2, mmul_omt_eq_wedge, mmul_omt_eq_wedge, wedge_vector_anticomm n b a hb ha,
    ← vector_inner_eq_lc n sig a b ha hb, ← vector_inner_eq_lc n sig b a hb ha, vector_inner_symm n sig b a hb ha]
  abel

/-- `2 (a ∧ b) = ab − ba` for vectors -/
theorem two_vector_wedge (a b : CMV n R) (ha : IsHom n 1 a) (hb : IsHom n 1 b) :
    wedge n a b + wedge n a b = gmul n sig a b - gmul n sig b a := by
  have h1 := vector_mul_split n sig a b ha
  have h2 := vector_mul_split n sig b a hb
  rw [h1, h2, mmul_omt_eq_wedge, mmul_omt_eq_wedge, wedge_vector_anticomm n b a hb ha,
    ← vector_inner_eq_lc n sig a b ha hb, ← vector_inner_eq_lc n sig b a hb ha, vector_inner_symm n sig b a hb ha]
  abel
