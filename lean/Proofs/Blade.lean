import Proofs.Graded
import Proofs.Ring
import Proofs.InvProps

/-! C09: a vector times anything splits into left contraction plus outer product -/

variable {R : Type} [CommRing R] (n : Nat) (sig : Nat → R)

theorem pc_and_le_left (a b : Nat) : pc n (a &&& b) ≤ pc n a := by
  unfold pc
  apply Finset.sum_le_sum
  intro i _
  rw [bit_and]
  have := bit_le_one b i
  calc bit a i * bit b i ≤ bit a i * 1 := Nat.mul_le_mul_left _ this
    _ = bit a i := Nat.mul_one _

/-- for a vector `x` and *any* multivector `B`: `x * B = x ⌋ B + x ∧ B` (the tables `lcmt` and `omt` as coded) -/
theorem vector_mul_split (x B : CMV n R) (hx : IsHom n 1 x) :
    gmul n sig x B = mmul n sig Model.lcmtCheck x B + mmul n sig Model.omtCheck x B := by
  funext c
  simp only [gmul, mmul, Pi.add_apply, ← Finset.sum_add_distrib]
  refine Finset.sum_congr rfl (fun a _ => ?_)
  by_cases ha : pc n a.val = 1
  · have hx' := pc_xor n a.val (fxor a c).val
    have hc : a.val ^^^ (fxor a c).val = c.val := by
      simp only [fxor_val]
      apply Nat.eq_of_testBit_eq; intro i
      simp only [Nat.testBit_xor]
      cases a.val.testBit i <;> cases c.val.testBit i <;> rfl
    rw [hc, ha] at hx'
    have hle := pc_and_le_left n a.val (fxor a c).val
    rw [ha] at hle
    rw [ha]
    -- pc c = pc b + 1 (disjoint) or pc b - 1 (shared bit)
    rcases Nat.eq_zero_or_pos (pc n (a.val &&& (fxor a c).val)) with h0 | hpos
    · have hpc : pc n c.val = 1 + pc n (fxor a c).val := by omega
      have h1 : Model.omtCheck (pc n c.val : Nat) (1 : Nat) (pc n (fxor a c).val : Nat) = true := by
        simp only [Model.omtCheck, beq_iff_eq]; omega
      have h2 : Model.lcmtCheck (pc n c.val : Nat) (1 : Nat) (pc n (fxor a c).val : Nat) = false := by
        simp only [Model.lcmtCheck, beq_eq_false_iff_ne, ne_eq]; omega
      rw [h1, h2]; simp
    · have hpc : pc n c.val + 1 = pc n (fxor a c).val := by omega
      have h1 : Model.omtCheck (pc n c.val : Nat) (1 : Nat) (pc n (fxor a c).val : Nat) = false := by
        simp only [Model.omtCheck, beq_eq_false_iff_ne, ne_eq]; omega
      have h2 : Model.lcmtCheck (pc n c.val : Nat) (1 : Nat) (pc n (fxor a c).val : Nat) = true := by
        simp only [Model.lcmtCheck, beq_iff_eq]; omega
      rw [h1, h2]; simp
  · rw [hx a ha]; simp

/-- view a canonical multivector as an element of the ring `Cl n sig` (definitionally the same function) -/
def asCl {n : Nat} {sig : Nat → R} (A : CMV n R) : Cl n sig := A

/-- hence, for an invertible `B` (`B * Binv = 1`): `x = (x ⌋ B) B⁻¹ + (x ∧ B) B⁻¹` — projection plus rejection -/
theorem projection_plus_rejection (x B Binv : Cl n sig) (hx : IsHom n 1 x) (hB : B * Binv = 1) :
    x = asCl (mmul n sig Model.lcmtCheck x B) * Binv + asCl (mmul n sig Model.omtCheck x B) * Binv := by
  have h := vector_mul_split n sig x B hx
  have h' : x * B = asCl (mmul n sig Model.lcmtCheck x B) + asCl (mmul n sig Model.omtCheck x B) := h
  calc x = x * (B * Binv) := by rw [hB, mul_one]
    _ = (x * B) * Binv := by rw [mul_assoc]
    _ = _ := by rw [h', add_mul]
