import Proofs.ConfModel
import Proofs.Blade
import Proofs.Fund
import Proofs.Compl
import Proofs.Index

/-! # C08 composite theorems: the conformal identities with the *coded* `|` and `^` tables, in the model of a conformalised layout

`Proofs/Conf.lean` proves the identities in any ℚ-algebra with `a·b` written `½(ab+ba)`; `Proofs/ConfModel.lean` shows the
model of a conformalised layout satisfies the relations; `Proofs/Blade.lean`, `Proofs/Fund.lean` show the coded `imt` / `omt`
tables give those half-sums on vectors.  Here the three are joined: the statements are about `mmul … imtCheck` / `wedge`
applied to `up(x)`, `eo`, `einf`, `E0` of the model. -/

namespace Cl
open Conf
variable {N : Nat} {sig : Nat → ℚ}

/-- the two added basis vectors of the conformalised layout -/
abbrev EP (sig : Nat → ℚ) (n : Nat) (hN : N = n + 2) : Cl N sig := e n (by omega)
abbrev EN (sig : Nat → ℚ) (n : Nat) (hN : N = n + 2) : Cl N sig := e (n + 1) (by omega)
/-- `einf`, `eo`, `E0`, `up(x)` of the conformalised layout, as elements of the model ring (so that `*` is the geometric product) -/
abbrev einfC (sig : Nat → ℚ) (n : Nat) (hN : N = n + 2) : Cl N sig := einf (EP sig n hN) (EN sig n hN)
abbrev eoC (sig : Nat → ℚ) (n : Nat) (hN : N = n + 2) : Cl N sig := eo (EP sig n hN) (EN sig n hN)
abbrev E0C (sig : Nat → ℚ) (n : Nat) (hN : N = n + 2) : Cl N sig := E0 (EP sig n hN) (EN sig n hN)
abbrev upC (sig : Nat → ℚ) (n : Nat) (hN : N = n + 2) (v : Fin N → ℚ) (q : ℚ) : Cl N sig := up (vec v) (EP sig n hN) (EN sig n hN) q

theorem isHom_smul' (g : Nat) (q : ℚ) (A : CMV N ℚ) (hA : IsHom N g A) : IsHom N g (q • A) := by
  intro c hc; show q * A c = 0; rw [hA c hc, mul_zero]

theorem isHom_sub' (g : Nat) (A B : CMV N ℚ) (hA : IsHom N g A) (hB : IsHom N g B) : IsHom N g (A - B) := by
  intro c hc; show A c - B c = 0; rw [hA c hc, hB c hc, sub_zero]

theorem e_isHom (k : Nat) (hk : k < N) : IsHom N 1 (e k hk : Cl N sig) := by
  have := blade_hom (R := ℚ) N ⟨2 ^ k, Nat.pow_lt_pow_right (by decide) hk⟩
  rwa [pc_two_pow N k hk] at this

theorem vec_isHom (v : Fin N → ℚ) : IsHom N 1 (vec v : Cl N sig) := by
  intro c hc
  unfold vec
  have : (∑ i : Fin N, v i • (e i.val i.isLt : Cl N sig)) c = ∑ i : Fin N, (v i • (e i.val i.isLt : Cl N sig)) c :=
    Finset.sum_apply c Finset.univ (fun i => v i • (e i.val i.isLt : Cl N sig))
  rw [this]
  refine Finset.sum_eq_zero (fun j _ => ?_)
  have h := e_isHom (sig := sig) j.val j.isLt c hc
  show v j * (e j.val j.isLt : Cl N sig) c = 0
  rw [h, mul_zero]

section
variable (n : Nat) (hN : N = n + 2)

theorem einf_isHom : IsHom N 1 (einfC sig n hN) :=
  isHom_add N 1 _ _ (e_isHom _ _) (e_isHom _ _)

theorem eo_isHom : IsHom N 1 (eoC sig n hN) :=
  isHom_smul' 1 _ _ (isHom_sub' 1 _ _ (e_isHom _ _) (e_isHom _ _))

theorem up_isHom (v : Fin N → ℚ) (q : ℚ) : IsHom N 1 (upC sig n hN v q) :=
  isHom_add N 1 _ _ (isHom_add N 1 _ _ (vec_isHom v) (isHom_smul' 1 _ _ (einf_isHom n hN))) (eo_isHom n hN)
end

/-- cancel the factor 2 (coefficients in ℚ) -/
theorem cancel_two (A B : Cl N sig) (h : A + A = B + B) : A = B := by
  funext c
  have := congrFun h c
  have h2 : A c + A c = B c + B c := this
  linarith

/-- `2•(½•S) = S` -/
theorem half_twice (S : Cl N sig) : (1/2 : ℚ) • S + (1/2 : ℚ) • S = S := by
  rw [← add_smul]; norm_num

/-- the coded inner product of two vectors, from the half-sum value -/
theorem coded_inner_of_half (a b T : Cl N sig) (ha : IsHom N 1 a) (hb : IsHom N 1 b) (h : (1/2 : ℚ) • (a * b + b * a) = T) :
    (asCl (mmul N sig Model.imtCheck a b) : Cl N sig) = T := by
  apply cancel_two
  have h2 : (asCl (mmul N sig Model.imtCheck a b) : Cl N sig) + asCl (mmul N sig Model.imtCheck a b) = a * b + b * a :=
    two_vector_inner N sig a b ha hb
  rw [h2, ← h, half_twice]

section
variable (n : Nat) (hN : N = n + 2)

/-- **`eo | einf = −1`** with the coded table -/
theorem coded_eo_dot_einf (h1 : sig n = 1) (h2 : sig (n + 1) = -1) :
    (asCl (mmul N sig Model.imtCheck (eoC sig n hN) (einfC sig n hN)) : Cl N sig) = -1 :=
  coded_inner_of_half _ _ _ (eo_isHom n hN) (einf_isHom n hN)
    (eo_dot_einf (conformal_rel n hN h1 h2 (fun _ => 0) (fun _ _ => rfl)))

/-- **`up(x) | einf = −1`** with the coded table -/
theorem coded_up_dot_einf (h1 : sig n = 1) (h2 : sig (n + 1) = -1) (v : Fin N → ℚ) (hv : ∀ i : Fin N, n ≤ i.val → v i = 0) :
    (asCl (mmul N sig Model.imtCheck (upC sig n hN v (Q N sig v))
      (einfC sig n hN)) : Cl N sig) = -1 :=
  coded_inner_of_half _ _ _ (up_isHom n hN v _) (einf_isHom n hN) (up_dot_einf (conformal_rel n hN h1 h2 v hv))

/-- **`up(x) | up(y) = −(x−y)²/2`** with the coded table (`2b = Q(v+w) − Q v − Q w`, so `Q v + Q w − 2b = Q(v − w)` is `(x−y)²`) -/
theorem coded_distance (h1 : sig n = 1) (h2 : sig (n + 1) = -1) (v w : Fin N → ℚ) (hv : ∀ i : Fin N, n ≤ i.val → v i = 0) (hw : ∀ i : Fin N, n ≤ i.val → w i = 0) :
    (asCl (mmul N sig Model.imtCheck (upC sig n hN v (Q N sig v))
      (upC sig n hN w (Q N sig w))) : Cl N sig)
      = (-(1/2 : ℚ) * (Q N sig v + Q N sig w - 2 * ((Q N sig (v + w) - Q N sig v - Q N sig w) / 2))) • (1 : Cl N sig) := by
  have hxy : (vec v : Cl N sig) * vec w + vec w * vec v = (2 * ((Q N sig (v + w) - Q N sig v - Q N sig w) / 2)) • (1 : Cl N sig) := by
    rw [vec_mul_vec_comm v w]; abel
  exact coded_inner_of_half _ _ _ (up_isHom n hN v _) (up_isHom n hN w _)
    (up_dot_up (conformal_rel n hN h1 h2 v hv) (conformal_rel n hN h1 h2 w hw) hxy)

/-- **`homo`**: the divisor `−((s·X) | einf)` with the coded table is `s` -/
theorem coded_homo_scale (h1 : sig n = 1) (h2 : sig (n + 1) = -1) (v : Fin N → ℚ) (hv : ∀ i : Fin N, n ≤ i.val → v i = 0) (s : ℚ) :
    -(asCl (mmul N sig Model.imtCheck (s • upC sig n hN v (Q N sig v))
      (einfC sig n hN)) : Cl N sig) = s • (1 : Cl N sig) := by
  have hS : IsHom N 1 (s • upC sig n hN v (Q N sig v) : Cl N sig) :=
    isHom_smul' 1 s _ (up_isHom n hN v _)
  have := homo_scale (conformal_rel n hN h1 h2 v hv) s
  have hc := coded_inner_of_half _ _ _ hS (einf_isHom (sig := sig) n hN) rfl
  exact (congrArg (fun t => -t) hc).trans this

/-- `E0 = einf ∧ eo` with the coded outer product, hence a bivector -/
theorem E0_eq_wedge : (E0C sig n hN)
    = asCl (wedge N (einfC sig n hN) (eoC sig n hN)) := by
  apply cancel_two
  have hw : (asCl (wedge N (einfC sig n hN) (eoC sig n hN)) : Cl N sig)
      + asCl (wedge N (einfC sig n hN) (eoC sig n hN))
      = einfC sig n hN * eoC sig n hN
        - eoC sig n hN * einfC sig n hN :=
    two_vector_wedge N sig _ _ (einf_isHom n hN) (eo_isHom n hN)
  rw [hw]; exact half_twice _

theorem E0_isHom : IsHom N 2 (E0C sig n hN) := by
  have h := wedge_hom N 1 1 _ _ (einf_isHom (sig := sig) n hN) (eo_isHom (sig := sig) n hN)
  intro c hc
  have e := congrFun (E0_eq_wedge (sig := sig) n hN) c
  rw [e]; exact h c hc

/-- **`down(up(x)) = (up(x) ∧ E0) * E0 = x`** with the coded outer product -/
theorem coded_down_up (h1 : sig n = 1) (h2 : sig (n + 1) = -1) (v : Fin N → ℚ) (hv : ∀ i : Fin N, n ≤ i.val → v i = 0) :
    (asCl (wedge N (upC sig n hN v (Q N sig v)) (E0C sig n hN)) : Cl N sig)
      * E0C sig n hN = vec v := by
  have hW : (asCl (wedge N (upC sig n hN v (Q N sig v)) (E0C sig n hN)) : Cl N sig)
      = (1/2 : ℚ) • (upC sig n hN v (Q N sig v) * E0C sig n hN
        + E0C sig n hN * upC sig n hN v (Q N sig v)) := by
    apply cancel_two
    have h := two_wedge_vector_hom N sig 2 _ _ (up_isHom (sig := sig) n hN v (Q N sig v)) (E0_isHom (sig := sig) n hN)
    have hs : (sgn 2 : ℚ) = 1 := by simp [sgn]
    rw [hs, one_smul] at h
    rw [half_twice]
    exact h
  rw [hW]
  exact down_up (conformal_rel n hN h1 h2 v hv)

end
end Cl
