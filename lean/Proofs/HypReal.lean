import Mathlib.Analysis.Complex.Trigonometric
import Mathlib.Tactic.Positivity
import Mathlib.Tactic.Linarith
import Mathlib.Tactic.NormNum
open Finset

/-! C16, scalar clause for `cosh` / `sinh`: the unscaled `N`-term series of `taylor_expansions.cosh/sinh` on a real scalar -/
namespace HypReal

noncomputable def coshTrunc (N : ℕ) (c : ℝ) : ℝ := ∑ k ∈ range N, c ^ (2 * k) / ((2 * k).factorial : ℝ)
noncomputable def sinhTrunc (N : ℕ) (c : ℝ) : ℝ := ∑ k ∈ range N, c ^ (2 * k + 1) / ((2 * k + 1).factorial : ℝ)

/-- the `2N`-term exponential series splits into the even and the odd truncation -/
theorem exp_series_split (c : ℝ) (N : ℕ) :
    ∑ m ∈ range (2 * N), c ^ m / (m.factorial : ℝ) = coshTrunc N c + sinhTrunc N c := by
  induction N with
  | zero => simp [coshTrunc, sinhTrunc]
  | succ N ih =>
    rw [show 2 * (N + 1) = 2 * N + 1 + 1 by ring, sum_range_succ, sum_range_succ, ih]
    unfold coshTrunc sinhTrunc
    rw [sum_range_succ, sum_range_succ]
    ring

theorem coshTrunc_neg (N : ℕ) (c : ℝ) : coshTrunc N (-c) = coshTrunc N c := by
  unfold coshTrunc
  apply sum_congr rfl; intro k _
  rw [Even.neg_pow (even_two_mul k)]

theorem sinhTrunc_neg (N : ℕ) (c : ℝ) : sinhTrunc N (-c) = -sinhTrunc N c := by
  unfold sinhTrunc
  rw [← sum_neg_distrib]
  apply sum_congr rfl; intro k _
  rw [Odd.neg_pow (odd_two_mul_add_one k)]; ring

/-- real form of Mathlib's remainder bound -/
theorem exp_close (c : ℝ) (n : ℕ) (h : |c| / (n.succ : ℝ) ≤ 1 / 2) :
    |Real.exp c - ∑ m ∈ range n, c ^ m / (m.factorial : ℝ)| ≤ |c| ^ n / (n.factorial : ℝ) * 2 := by
  have hn : ‖(c : ℂ)‖ = |c| := by simp
  have hb := Complex.exp_bound' (x := (c : ℂ)) (n := n) (by rw [hn]; exact h)
  rw [hn] at hb
  have : Complex.exp (c : ℂ) - ∑ m ∈ range n, (c : ℂ) ^ m / (m.factorial : ℂ)
      = ((Real.exp c - ∑ m ∈ range n, c ^ m / (m.factorial : ℝ) : ℝ) : ℂ) := by
    push_cast; rfl
  rw [this, Complex.norm_real, Real.norm_eq_abs] at hb
  exact hb

/-- **`cosh` and `sinh` on a real scalar**: within `2|c|^{2N}/(2N)!` of the real functions for `|c| ≤ N + 1/2` -/
theorem cosh_sinh_close (c : ℝ) (N : ℕ) (h : |c| / ((2 * N : ℕ).succ : ℝ) ≤ 1 / 2) :
    |Real.cosh c - coshTrunc N c| ≤ |c| ^ (2 * N) / ((2 * N).factorial : ℝ) * 2
    ∧ |Real.sinh c - sinhTrunc N c| ≤ |c| ^ (2 * N) / ((2 * N).factorial : ℝ) * 2 := by
  have h1 := exp_close c (2 * N) h
  have h2 := exp_close (-c) (2 * N) (by rw [abs_neg]; exact h)
  rw [exp_series_split] at h1
  have hs : ∑ m ∈ range (2 * N), (-c) ^ m / (m.factorial : ℝ) = coshTrunc N c - sinhTrunc N c := by
    rw [exp_series_split, coshTrunc_neg, sinhTrunc_neg]; ring
  rw [hs, abs_neg] at h2
  set β := |c| ^ (2 * N) / ((2 * N).factorial : ℝ) * 2
  constructor
  · have : Real.cosh c - coshTrunc N c
        = ((Real.exp c - (coshTrunc N c + sinhTrunc N c)) + (Real.exp (-c) - (coshTrunc N c - sinhTrunc N c))) / 2 := by
      rw [Real.cosh_eq]; ring
    rw [this, abs_div, abs_two]
    have := abs_add_le (Real.exp c - (coshTrunc N c + sinhTrunc N c)) (Real.exp (-c) - (coshTrunc N c - sinhTrunc N c))
    rw [div_le_iff₀ (by norm_num : (0 : ℝ) < 2)]
    linarith
  · have : Real.sinh c - sinhTrunc N c
        = ((Real.exp c - (coshTrunc N c + sinhTrunc N c)) - (Real.exp (-c) - (coshTrunc N c - sinhTrunc N c))) / 2 := by
      rw [Real.sinh_eq]; ring
    rw [this, abs_div, abs_two]
    have := abs_sub (Real.exp c - (coshTrunc N c + sinhTrunc N c)) (Real.exp (-c) - (coshTrunc N c - sinhTrunc N c))
    rw [div_le_iff₀ (by norm_num : (0 : ℝ) < 2)]
    linarith

/-- with the code's `max_order = 30` and `|c| ≤ 8`: absolute error at most `10⁻¹²` -/
theorem cosh_sinh_within_tolerance (c : ℝ) (hc : |c| ≤ 8) :
    |Real.cosh c - coshTrunc 30 c| ≤ 1 / 1000000000000 ∧ |Real.sinh c - sinhTrunc 30 c| ≤ 1 / 1000000000000 := by
  have h : |c| / ((2 * 30 : ℕ).succ : ℝ) ≤ 1 / 2 := by
    have : ((2 * 30 : ℕ).succ : ℝ) = 61 := by norm_num
    rw [this]; linarith
  have hb : |c| ^ (2 * 30) / ((2 * 30).factorial : ℝ) * 2 ≤ 1 / 1000000000000 := by
    have h1 : |c| ^ (2 * 30) ≤ 8 ^ (2 * 30) := pow_le_pow_left₀ (abs_nonneg c) hc _
    have hf : (((2 * 30).factorial : ℕ) : ℝ) = 8320987112741390144276341183223364380754172606361245952449277696409600000000000000 := by
      norm_num [Nat.factorial]
    rw [hf]
    have h2 : |c| ^ (2 * 30) / (8320987112741390144276341183223364380754172606361245952449277696409600000000000000 : ℝ) * 2
        ≤ 8 ^ (2 * 30) / (8320987112741390144276341183223364380754172606361245952449277696409600000000000000 : ℝ) * 2 := by
      apply mul_le_mul_of_nonneg_right _ (by norm_num)
      apply div_le_div_of_nonneg_right h1 (by norm_num)
    refine le_trans h2 ?_
    norm_num
  obtain ⟨h1, h2⟩ := cosh_sinh_close c 30 h
  exact ⟨le_trans h1 hb, le_trans h2 hb⟩

end HypReal
