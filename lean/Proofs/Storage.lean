import Proofs.Bridge
import Proofs.Alg
import Proofs.Graded
import Model.Kernel
import Mathlib.Algebra.BigOperators.Group.List.Basic
import Mathlib.Algebra.BigOperators.Fin
import Mathlib.Logic.Equiv.Defs
open Finset Model

/-! Storage-level bridge: the *executable* table built by `constructGmt` (what `_numba_construct_gmt` builds),
contracted with two value arrays in any storage order, is the canonical product `gmul` conjugated by the order.

`σ : Equiv.Perm (Bm n)` is the storage order: `index_to_bitmap[i] = σ i`, `bitmap_to_index[c] = σ⁻¹ c`
(the documented contract of `BasisBladeOrder`: the two arrays are mutually inverse bijections). -/

variable {R : Type} [CommRing R]

theorem list_range_map_sum (N : Nat) (g : Nat → R) : ((List.range N).map g).sum = ∑ i ∈ Finset.range N, g i := by
  induction N with
  | zero => simp
  | succ N ih => rw [List.range_succ, List.map_append, List.sum_append, ih, Finset.sum_range_succ]; simp

theorem list_sum_flatMap {α : Type} (l : List α) (f : α → List R) : (l.flatMap f).sum = (l.map fun x => (f x).sum).sum := by
  induction l with
  | nil => simp
  | cons x xs ih => simp [List.flatMap_cons, List.sum_append, ih]

/-- the contraction of the executable geometric table as a double sum over storage indices -/
theorem contraction_constructGmt (sig : Nat → Int) (i2b b2i : Nat → Nat) (N : Nat) (a b : Array R) (j : Nat) :
    contraction (constructGmt sig i2b b2i N) a b j
      = ∑ i ∈ Finset.range N, ∑ k ∈ Finset.range N,
          if b2i (i2b i ^^^ i2b k) = j then a.getD i 0 * ((bladeSign sig (i2b i) (i2b k) : Int) : R) * b.getD k 0 else 0 := by
  unfold contraction constructGmt
  rw [List.map_flatMap, list_sum_flatMap, list_range_map_sum]
  refine Finset.sum_congr rfl (fun i _ => ?_)
  rw [List.map_map, list_range_map_sum]
  refine Finset.sum_congr rfl (fun k _ => ?_)
  simp [gmtElement]

/-- **storage-level bridge** -/
theorem storage_bridge (n : Nat) (sig : Nat → Int) (σ : Equiv.Perm (Bm n)) (i2b b2i : Nat → Nat)
    (h1 : ∀ i : Bm n, i2b i.val = (σ i).val) (h2 : ∀ c : Bm n, b2i c.val = (σ.symm c).val)
    (a b : Array R) (j : Bm n) :
    contraction (constructGmt sig i2b b2i (2 ^ n)) a b j.val
      = gmul n (fun i => ((sig i : Int) : R)) (fun c => a.getD (b2i c.val) 0) (fun c => b.getD (b2i c.val) 0) (σ j) := by
  rw [contraction_constructGmt]
  -- both sides as sums over `Bm n`
  rw [Finset.sum_range (fun i => ∑ k ∈ Finset.range (2 ^ n),
        if b2i (i2b i ^^^ i2b k) = j.val then a.getD i 0 * ((bladeSign sig (i2b i) (i2b k) : Int) : R) * b.getD k 0 else 0)]
  simp only [gmul]
  rw [← Equiv.sum_comp σ (fun x => s (fun i => ((sig i : Int) : R)) n x.val (fxor x (σ j)).val * a.getD (b2i x.val) 0 * b.getD (b2i (fxor x (σ j)).val) 0)]
  refine Finset.sum_congr rfl (fun i _ => ?_)
  rw [Finset.sum_range (fun k => if b2i (i2b i.val ^^^ i2b k) = j.val then a.getD i.val 0 * ((bladeSign sig (i2b i.val) (i2b k) : Int) : R) * b.getD k 0 else 0)]
  -- the only storage index `k` with `σ i ^ σ k = σ j`
  let kstar : Bm n := σ.symm (fxor (σ i) (σ j))
  have hk : σ kstar = fxor (σ i) (σ j) := by simp [kstar]
  rw [Finset.sum_eq_single kstar]
  · -- the surviving term
    have hx : i2b i.val ^^^ i2b kstar.val = (σ j).val := by
      rw [h1 i, h1 kstar, hk]
      simp only [fxor_val]
      apply Nat.eq_of_testBit_eq; intro t
      simp only [Nat.testBit_xor]
      cases (σ i).val.testBit t <;> cases (σ j).val.testBit t <;> rfl
    have hcond : b2i (i2b i.val ^^^ i2b kstar.val) = j.val := by
      rw [hx, h2 (σ j)]; simp
    rw [if_pos hcond]
    have hs : ((bladeSign sig (i2b i.val) (i2b kstar.val) : Int) : R)
        = s (fun t => ((sig t : Int) : R)) n (σ i).val (fxor (σ i) (σ j)).val := by
      rw [h1 i, h1 kstar, hk]
      exact bladeSign_eq_s sig n _ _ (σ i).isLt (fxor (σ i) (σ j)).isLt
    have hbi : b2i (σ i).val = i.val := by rw [h2 (σ i)]; simp
    have hbk : b2i (fxor (σ i) (σ j)).val = kstar.val := by rw [h2]
    rw [hs, hbi, hbk]; ring
  · intro k _ hne
    rw [if_neg]
    intro hcond
    apply hne
    -- `b2i (σ i ^ σ k) = j` forces `σ k = σ i ^ σ j`
    have hxk : i2b i.val ^^^ i2b k.val = (fxor (σ i) (σ k)).val := by rw [h1 i, h1 k]; rfl
    rw [hxk, h2] at hcond
    have hj : σ.symm (fxor (σ i) (σ k)) = j := Fin.ext hcond
    have : fxor (σ i) (σ k) = σ j := by rw [← hj]; simp
    have hk2 : σ k = fxor (σ i) (σ j) := by rw [← this, fxor_cancel]
    apply σ.injective; rw [hk2, hk]
  · intro h; exact absurd (Finset.mem_univ _) h

/-- the same for any grade-masked table: `construct_graded_mt` filters the entries by the predicate on the storage
grades, and the contraction of the filtered list is the masked sum -/
theorem contraction_filter (p : Entry → Bool) (es : List Entry) (a b : Array R) (j : Nat) :
    contraction (es.filter p) a b j
      = (es.map fun e => if p e then (if e.l = j then a.getD e.k 0 * (e.v : R) * b.getD e.m 0 else 0) else 0).sum := by
  unfold contraction
  induction es with
  | nil => simp
  | cons e es ih =>
    by_cases h : p e = true
    · rw [List.filter_cons_of_pos h]
      simp only [List.map_cons, List.sum_cons, ih, h, if_true]
    · rw [List.filter_cons_of_neg h]
      simp only [List.map_cons, List.sum_cons, ih, h]
      simp

/-- the masked table (`construct_graded_mt`) as a double sum over storage indices -/
theorem contraction_gradedMt (grade : Nat → Nat) (chk : Int → Int → Int → Bool) (sig : Nat → Int) (i2b b2i : Nat → Nat) (N : Nat)
    (a b : Array R) (j : Nat) :
    contraction (gradedMt grade chk (constructGmt sig i2b b2i N)) a b j
      = ∑ i ∈ Finset.range N, ∑ k ∈ Finset.range N,
          if chk (grade (b2i (i2b i ^^^ i2b k))) (grade i) (grade k) then
            (if b2i (i2b i ^^^ i2b k) = j then a.getD i 0 * ((bladeSign sig (i2b i) (i2b k) : Int) : R) * b.getD k 0 else 0)
          else 0 := by
  unfold gradedMt
  rw [contraction_filter]
  unfold constructGmt
  rw [List.map_flatMap, list_sum_flatMap, list_range_map_sum]
  refine Finset.sum_congr rfl (fun i _ => ?_)
  rw [List.map_map, list_range_map_sum]
  refine Finset.sum_congr rfl (fun k _ => ?_)
  simp [gmtElement]

/-- **storage-level bridge for the graded tables**: the contraction of the executable `omt` / `imt` / `lcmt`
(`chk` = the code's predicate, `grade i = popcount(index_to_bitmap[i])`) is the masked canonical product `mmul` -/
theorem storage_bridge_graded (n : Nat) (sig : Nat → Int) (σ : Equiv.Perm (Bm n)) (i2b b2i grade : Nat → Nat)
    (chk : Int → Int → Int → Bool)
    (h1 : ∀ i : Bm n, i2b i.val = (σ i).val) (h2 : ∀ c : Bm n, b2i c.val = (σ.symm c).val)
    (hg : ∀ i : Bm n, grade i.val = pc n (σ i).val)
    (a b : Array R) (j : Bm n) :
    contraction (gradedMt grade chk (constructGmt sig i2b b2i (2 ^ n))) a b j.val
      = mmul n (fun i => ((sig i : Int) : R)) chk (fun c => a.getD (b2i c.val) 0) (fun c => b.getD (b2i c.val) 0) (σ j) := by
  rw [contraction_gradedMt]
  rw [Finset.sum_range (fun i => ∑ k ∈ Finset.range (2 ^ n),
        if chk (grade (b2i (i2b i ^^^ i2b k))) (grade i) (grade k) then
          (if b2i (i2b i ^^^ i2b k) = j.val then a.getD i 0 * ((bladeSign sig (i2b i) (i2b k) : Int) : R) * b.getD k 0 else 0)
        else 0)]
  simp only [mmul]
  rw [← Equiv.sum_comp σ (fun x =>
        if chk (pc n (σ j).val : Nat) (pc n x.val : Nat) (pc n (fxor x (σ j)).val : Nat) then
          s (fun i => ((sig i : Int) : R)) n x.val (fxor x (σ j)).val * a.getD (b2i x.val) 0 * b.getD (b2i (fxor x (σ j)).val) 0
        else 0)]
  refine Finset.sum_congr rfl (fun i _ => ?_)
  rw [Finset.sum_range (fun k =>
        if chk (grade (b2i (i2b i.val ^^^ i2b k))) (grade i.val) (grade k) then
          (if b2i (i2b i.val ^^^ i2b k) = j.val then a.getD i.val 0 * ((bladeSign sig (i2b i.val) (i2b k) : Int) : R) * b.getD k 0 else 0)
        else 0)]
  let kstar : Bm n := σ.symm (fxor (σ i) (σ j))
  have hk : σ kstar = fxor (σ i) (σ j) := by simp [kstar]
  rw [Finset.sum_eq_single kstar]
  · have hx : i2b i.val ^^^ i2b kstar.val = (σ j).val := by
      rw [h1 i, h1 kstar, hk]
      simp only [fxor_val]
      apply Nat.eq_of_testBit_eq; intro t
      simp only [Nat.testBit_xor]
      cases (σ i).val.testBit t <;> cases (σ j).val.testBit t <;> rfl
    have hcond : b2i (i2b i.val ^^^ i2b kstar.val) = j.val := by
      rw [hx, h2 (σ j)]; simp
    have hs : ((bladeSign sig (i2b i.val) (i2b kstar.val) : Int) : R)
        = s (fun t => ((sig t : Int) : R)) n (σ i).val (fxor (σ i) (σ j)).val := by
      rw [h1 i, h1 kstar, hk]
      exact bladeSign_eq_s sig n _ _ (σ i).isLt (fxor (σ i) (σ j)).isLt
    have hbi : b2i (σ i).val = i.val := by rw [h2 (σ i)]; simp
    have hbk : b2i (fxor (σ i) (σ j)).val = kstar.val := by rw [h2]
    have hgl : grade (b2i (i2b i.val ^^^ i2b kstar.val)) = pc n (σ j).val := by rw [hcond, hg j]
    have hgk : grade kstar.val = pc n (fxor (σ i) (σ j)).val := by rw [hg kstar, hk]
    rw [hgl, hg i, hgk, if_pos hcond, hs, hbi, hbk]
    split <;> ring
  · intro k _ hne
    have : ¬ b2i (i2b i.val ^^^ i2b k.val) = j.val := by
      intro hcond
      apply hne
      have hxk : i2b i.val ^^^ i2b k.val = (fxor (σ i) (σ k)).val := by rw [h1 i, h1 k]; rfl
      rw [hxk, h2] at hcond
      have hj : σ.symm (fxor (σ i) (σ k)) = j := Fin.ext hcond
      have h3 : fxor (σ i) (σ k) = σ j := by rw [← hj]; simp
      have hk2 : σ k = fxor (σ i) (σ j) := by rw [← h3, fxor_cancel]
      apply σ.injective; rw [hk2, hk]
    rw [if_neg this]; simp
  · intro h; exact absurd (Finset.mem_univ _) h
