import Proofs.Fund
import Proofs.WedgeList
import Proofs.Ring

/-! C18: the reciprocal frame `a^k = (−1)^k (a_1 ∧ … ǎ_k … ∧ a_m) E⁻¹` satisfies `a_i ⌋ a^k = δ_ik`
    (any dimension and signature, any commutative ring in which 2 is invertible, any vectors with invertible volume element). -/

variable {R : Type} [CommRing R] (n : Nat) (sig : Nat → R)

/-- right-nested outer product of a list of vectors -/
def wprod : List (CMV n R) → CMV n R
  | [] => one n
  | v :: vs => wedge n v (wprod vs)

theorem foldl_wedge_eq (X : CMV n R) (vs : List (CMV n R)) : vs.foldl (wedge n) X = wedge n X (wprod n vs) := by
  induction vs generalizing X with
  | nil => simp [wprod, wedge_one]
  | cons v vs ih => simp only [List.foldl_cons, wprod]; rw [ih, wedge_assoc]

/-- `reduce(op, p :: ps)` is the right-nested product -/
theorem wedgeList_eq_wprod (p : CMV n R) (ps : List (CMV n R)) : wedgeList n p ps = wprod n (p :: ps) := by
  unfold wedgeList; rw [foldl_wedge_eq]; rfl

theorem wprod_hom (vs : List (CMV n R)) (h : ∀ v ∈ vs, IsHom n 1 v) : IsHom n vs.length (wprod n vs) := by
  induction vs with
  | nil => intro c hc; simp only [wprod, one]; rw [if_neg]; intro h0; apply hc; rw [h0]; simp [pc, fzero, bit]
  | cons v vs ih =>
    have := wedge_hom n 1 vs.length v (wprod n vs) (h v (by simp)) (ih (fun w hw => h w (List.mem_cons_of_mem _ hw)))
    simp only [wprod, List.length_cons]; rw [Nat.add_comm]; exact this

/-- moving a vector into position `|pre|`: `x ∧ (pre ∧ post) = (−1)^{|pre|} (pre ∧ x ∧ post)` -/
theorem wedge_insert (x : CMV n R) (hx : IsHom n 1 x) (pre post : List (CMV n R)) (hpre : ∀ v ∈ pre, IsHom n 1 v) :
    wedge n x (wprod n (pre ++ post)) = (sgn pre.length : R) • wprod n (pre ++ x :: post) := by
  induction pre with
  | nil => simp [wprod, sgn]
  | cons p pre ih =>
    have hp : IsHom n 1 p := hpre p (by simp)
    simp only [List.cons_append, wprod, List.length_cons]
    rw [← wedge_assoc, wedge_vector_anticomm n x p hx hp, wedge_neg_left, wedge_assoc,
      ih (fun v hv => hpre v (List.mem_cons_of_mem _ hv)), wedge_smul_right]
    rw [sgn_add]; simp only [sgn, pow_one]
    funext c; simp only [Pi.neg_apply, Pi.smul_apply, smul_eq_mul_R]; ring

/-- a vector of the list kills the product from the left -/
theorem wedge_mem_wprod (x : CMV n R) (vs : List (CMV n R)) (h : ∀ v ∈ vs, IsHom n 1 v) (hx : x ∈ vs) :
    wedge n x (wprod n vs) = 0 := by
  obtain ⟨pre, post, rfl⟩ := List.append_of_mem hx
  have hxv : IsHom n 1 x := h x hx
  have := wedge_insert n x hxv pre (x :: post) (fun v hv => h v (List.mem_append_left _ hv))
  rw [this]
  have h2 : wprod n (pre ++ x :: x :: post) = 0 := by
    clear this
    induction pre with
    | nil => simp only [List.nil_append, wprod]; rw [← wedge_assoc, wedge_self_vector n x hxv, wedge_zero_left]
    | cons p pre ih =>
      simp only [List.cons_append, wprod]
      rw [ih (fun v hv => h v (by simp at hv ⊢; tauto)) (by simp), wedge_zero_right]
  rw [h2, smul_zero]

/-! ### duality: `x ⌋ (B E⁻¹) = (x ∧ B) E⁻¹` when `x ∧ E = 0` -/

theorem gi_one' : gi n (one n : CMV n R) = one n := by
  funext c; simp only [gi, one]; split
  · rename_i h; rw [h]; simp [pc, fzero, bit, sgn]
  · simp

section
variable {n} {sig}

/-- `x E = −Ê x` for a vector inside the blade (`x ∧ E = 0`) -/
theorem vector_mul_blade_of_wedge_zero (x E : Cl n sig) (hx : IsHom n 1 x) (hxE : wedge n x E = 0) :
    x * E = -(asCl (gi n E) * x) := by
  have h1 : x * E = asCl (mmul n sig Model.lcmtCheck x E) + asCl (mmul n sig Model.omtCheck x E) := vector_mul_split n sig x E hx
  have h2 : asCl (gi n E) * x = asCl (mmul n sig Model.omtCheck x E) - asCl (mmul n sig Model.lcmtCheck x E) := gi_mul_vector n sig x E hx
  have h3 : asCl (mmul n sig Model.omtCheck x E) = (0 : Cl n sig) := by
    have := mmul_omt_eq_wedge n sig x E; rw [hxE] at this; exact this
  rw [h1, h2, h3]; simp

theorem gi_mul (A B : Cl n sig) : (asCl (gi n (A * B)) : Cl n sig) = asCl (gi n A) * asCl (gi n B) := gi_gmul n sig A B

/-- `Ê⁻¹ x = −x E⁻¹` -/
theorem gi_inv_mul_vector (x E Einv : Cl n sig) (hx : IsHom n 1 x) (hxE : wedge n x E = 0) (h1 : E * Einv = 1) (h2 : Einv * E = 1) :
    asCl (gi n Einv) * x = -(x * Einv) := by
  have hg : (asCl (gi n Einv) : Cl n sig) * asCl (gi n E) = 1 := by
    rw [← gi_mul, h2]; exact gi_one' n
  calc asCl (gi n Einv) * x = asCl (gi n Einv) * (x * (E * Einv)) := by rw [h1, mul_one]
    _ = asCl (gi n Einv) * ((x * E) * Einv) := by rw [mul_assoc]
    _ = -((asCl (gi n Einv) * asCl (gi n E)) * x * Einv) := by
        rw [vector_mul_blade_of_wedge_zero x E hx hxE]; simp only [neg_mul, mul_neg, mul_assoc]
    _ = -(x * Einv) := by rw [hg, one_mul]

/-- **duality**: `2 (x ⌋ (B E⁻¹)) = 2 (x ∧ B) E⁻¹` for a vector `x` inside the invertible blade `E`, any multivector `B` -/
theorem two_lc_dual (x E Einv B : Cl n sig) (hx : IsHom n 1 x) (hxE : wedge n x E = 0) (h1 : E * Einv = 1) (h2 : Einv * E = 1) :
    asCl (mmul n sig Model.lcmtCheck x (B * Einv)) + asCl (mmul n sig Model.lcmtCheck x (B * Einv))
      = (asCl (wedge n x B) + asCl (wedge n x B)) * Einv := by
  have hl : x * (B * Einv) - asCl (gi n (B * Einv)) * x
      = asCl (mmul n sig Model.lcmtCheck x (B * Einv)) + asCl (mmul n sig Model.lcmtCheck x (B * Einv)) :=
    two_lc_vector n sig x (B * Einv) hx
  have hw : x * B + asCl (gi n B) * x = asCl (wedge n x B) + asCl (wedge n x B) := by
    have := two_wedge_vector n sig x B hx
    have e : mmul n sig Model.omtCheck x B = wedge n x B := mmul_omt_eq_wedge n sig x B
    rw [e] at this; exact this
  rw [← hl, ← hw, gi_mul, mul_assoc (asCl (gi n B)), gi_inv_mul_vector x E Einv hx hxE h1 h2]
  simp only [mul_neg, sub_neg_eq_add, add_mul, mul_assoc]

end

section
variable {n} {sig}

theorem half_double (half : R) (hhalf : 2 * half = 1) (L : Cl n sig) : L = half • (L + L) := by
  have : half • (L + L) = (2 * half) • L := by rw [smul_add, ← add_smul]; congr 1; ring
  rw [this, hhalf, one_smul]

theorem lc_smul_right (c : R) (x Y : Cl n sig) :
    (asCl (mmul n sig Model.lcmtCheck x (c • Y)) : Cl n sig) = c • (asCl (mmul n sig Model.lcmtCheck x Y) : Cl n sig) :=
  mmul_smul_right n sig Model.lcmtCheck c x Y

/-- **reciprocal frame**: with `E = a_1 ∧ … ∧ a_m` invertible and `a^k = (−1)^k (a_1 ∧ … ǎ_k … ∧ a_m) E⁻¹`
    (`Frame.inv`; `k = |pre|`, zero-based): `a_k ⌋ a^k = 1` and `a_i ⌋ a^k = 0` for every other vector of the frame -/
theorem reciprocal_frame (half : R) (hhalf : 2 * half = 1) (pre post : List (CMV n R)) (a : CMV n R)
    (hvec : ∀ v ∈ pre ++ a :: post, IsHom n 1 v) (Einv : Cl n sig)
    (h1 : (asCl (wprod n (pre ++ a :: post)) : Cl n sig) * Einv = 1) (h2 : Einv * asCl (wprod n (pre ++ a :: post)) = 1) :
    (asCl (mmul n sig Model.lcmtCheck a ((sgn pre.length : R) • ((asCl (wprod n (pre ++ post)) : Cl n sig) * Einv))) : Cl n sig) = 1
    ∧ ∀ x ∈ pre ++ post,
        (asCl (mmul n sig Model.lcmtCheck x ((sgn pre.length : R) • ((asCl (wprod n (pre ++ post)) : Cl n sig) * Einv))) : Cl n sig) = 0 := by
  have ha : IsHom n 1 a := hvec a (by simp)
  have hpre : ∀ v ∈ pre, IsHom n 1 v := fun v hv => hvec v (List.mem_append_left _ hv)
  have hmem : ∀ x ∈ pre ++ post, x ∈ pre ++ a :: post := by
    intro x hx
    rcases List.mem_append.mp hx with h | h
    · exact List.mem_append_left _ h
    · exact List.mem_append_right _ (List.mem_cons_of_mem _ h)
  constructor
  · have hxE : wedge n (asCl a : Cl n sig) (asCl (wprod n (pre ++ a :: post)) : Cl n sig) = 0 := wedge_mem_wprod n a _ hvec (by simp)
    have hd := two_lc_dual (sig := sig) (asCl a) (asCl (wprod n (pre ++ a :: post))) Einv (asCl (wprod n (pre ++ post))) ha hxE h1 h2
    have e : (asCl (wedge n (asCl a : Cl n sig) (asCl (wprod n (pre ++ post)) : Cl n sig)) : Cl n sig)
        = (sgn pre.length : R) • (asCl (wprod n (pre ++ a :: post)) : Cl n sig) := wedge_insert n a ha pre post hpre
    rw [e, ← add_smul, smul_mul_assoc, h1] at hd
    have hL := half_double half hhalf (asCl (mmul n sig Model.lcmtCheck (asCl a : Cl n sig) ((asCl (wprod n (pre ++ post)) : Cl n sig) * Einv)) : Cl n sig)
    rw [hd] at hL
    have hs := lc_smul_right (sig := sig) (sgn pre.length : R) (asCl a) ((asCl (wprod n (pre ++ post)) : Cl n sig) * Einv)
    have goal : (asCl (mmul n sig Model.lcmtCheck (asCl a : Cl n sig) ((sgn pre.length : R) • ((asCl (wprod n (pre ++ post)) : Cl n sig) * Einv))) : Cl n sig) = 1 := by
      rw [hs, hL, smul_smul, smul_smul]
      have hsq := sgn_mul_self (R := R) pre.length
      have : (sgn pre.length : R) * half * (sgn pre.length + sgn pre.length) = 1 := by
        calc (sgn pre.length : R) * half * (sgn pre.length + sgn pre.length)
            = (2 * half) * (sgn pre.length * sgn pre.length) := by ring
          _ = 1 := by rw [hhalf, hsq, one_mul]
      rw [this, one_smul]
    exact goal
  · intro x hx
    have hxv : IsHom n 1 x := hvec x (hmem x hx)
    have hxE : wedge n (asCl x : Cl n sig) (asCl (wprod n (pre ++ a :: post)) : Cl n sig) = 0 := wedge_mem_wprod n x _ hvec (hmem x hx)
    have hd := two_lc_dual (sig := sig) (asCl x) (asCl (wprod n (pre ++ a :: post))) Einv (asCl (wprod n (pre ++ post))) hxv hxE h1 h2
    have e : (asCl (wedge n (asCl x : Cl n sig) (asCl (wprod n (pre ++ post)) : Cl n sig)) : Cl n sig) = 0 :=
      wedge_mem_wprod n x _ (fun v hv => hvec v (hmem v hv)) hx
    rw [e, add_zero, zero_mul] at hd
    have hL := half_double half hhalf (asCl (mmul n sig Model.lcmtCheck (asCl x : Cl n sig) ((asCl (wprod n (pre ++ post)) : Cl n sig) * Einv)) : Cl n sig)
    rw [hd, smul_zero] at hL
    have hs := lc_smul_right (sig := sig) (sgn pre.length : R) (asCl x) ((asCl (wprod n (pre ++ post)) : Cl n sig) * Einv)
    have goal : (asCl (mmul n sig Model.lcmtCheck (asCl x : Cl n sig) ((sgn pre.length : R) • ((asCl (wprod n (pre ++ post)) : Cl n sig) * Einv))) : Cl n sig) = 0 := by
      rw [hs, hL, smul_zero]
    exact goal

end

/-- the scalar component of the coded inner product `x | Y` of a vector with any multivector is that of `x ⌋ Y`
    (what `float(a_i | a^j)` reads) -/
theorem inner_scalar_part_eq_lc (x Y : CMV n R) (hx : IsHom n 1 x) :
    mmul n sig Model.imtCheck x Y fzero = mmul n sig Model.lcmtCheck x Y fzero := by
  simp only [mmul]
  refine Finset.sum_congr rfl (fun a _ => ?_)
  by_cases ha : pc n a.val = 1
  · have h0 : pc n (fzero : Bm n).val = 0 := by simp [pc, fzero, bit]
    have hf : fxor a fzero = a := by ext; simp [fzero]
    rw [hf, ha, h0]
    have e1 : Model.imtCheck ((0 : Nat) : Int) ((1 : Nat) : Int) ((1 : Nat) : Int) = true := by decide
    have e2 : Model.lcmtCheck ((0 : Nat) : Int) ((1 : Nat) : Int) ((1 : Nat) : Int) = true := by decide
    rw [e1, e2]
  · rw [hx a ha]; simp
