import Proofs.Iso
import Proofs.Fund
import Proofs.SigmaForm
import Proofs.Recip
import Mathlib.LinearAlgebra.CliffordAlgebra.Conjugation

/-! C04: the model's grade involution and reversion are Mathlib's canonical `involute` and `reverse`, transported along the isomorphism -/
open Finset
variable {R : Type} [CommRing R] {n : Nat} {sig : Nat → R}

namespace Cl
open CliffordAlgebra

theorem vec_isHom' (v : Fin n → R) : IsHom n 1 (vec v : Cl n sig) := by
  intro c hc
  unfold vec
  have : (∑ i : Fin n, v i • (e i.val i.isLt : Cl n sig)) c = ∑ i : Fin n, (v i • (e i.val i.isLt : Cl n sig)) c :=
    Finset.sum_apply c Finset.univ (fun i => v i • (e i.val i.isLt : Cl n sig))
  rw [this]
  refine Finset.sum_eq_zero (fun j _ => ?_)
  have hb := blade_hom (R := R) n ⟨2 ^ j.val, Nat.pow_lt_pow_right (by decide) j.isLt⟩
  rw [pc_two_pow n j.val j.isLt] at hb
  show v j * (blade n _ : CMV n R) c = 0
  rw [hb c hc, mul_zero]

theorem rev_add' (A B : CMV n R) : rev n (A + B) = rev n A + rev n B := by
  funext c; simp [rev, mul_add]

/-- grade involution as an algebra endomorphism of the model -/
def giHom (n : Nat) (sig : Nat → R) : Cl n sig →ₐ[R] Cl n sig where
  toFun A := gi n A
  map_one' := gi_one' n
  map_mul' A B := gi_gmul n sig A B
  map_zero' := by funext c; show sgn (pc n c.val) * ((0 : CMV n R) c) = (0 : CMV n R) c; simp
  map_add' A B := by funext c; show _ * (A c + B c) = _ * A c + _ * B c; ring
  commutes' r := by
    show gi n (algebraMap R (Cl n sig) r) = algebraMap R (Cl n sig) r
    rw [Algebra.algebraMap_eq_smul_one]
    funext c
    show sgn (pc n c.val) * (r * (one n : CMV n R) c) = r * (one n : CMV n R) c
    by_cases hc : c = fzero
    · subst hc; simp [one, pc, fzero, bit, sgn]
    · simp [one, hc]

/-- **grade involution = Mathlib's `involute`** under the isomorphism -/
theorem fromMathlib_involute (x : CliffordAlgebra (Q n sig)) :
    fromMathlib (involute x) = (gi n (fromMathlib x : Cl n sig) : Cl n sig) := by
  have h : (fromMathlib (n := n) (sig := sig)).comp involute = (giHom n sig).comp fromMathlib := by
    apply CliffordAlgebra.hom_ext
    apply LinearMap.ext
    intro v
    simp only [LinearMap.comp_apply, AlgHom.toLinearMap_apply, AlgHom.comp_apply, involute_ι, map_neg, fromMathlib_ι]
    show -(vec v : Cl n sig) = gi n (vec v : Cl n sig)
    rw [gi_hom n 1 _ (vec_isHom' v)]
    funext c
    show -((vec v : Cl n sig) c) = (sgn 1 : R) * (vec v : Cl n sig) c
    simp [sgn]
  exact congrArg (fun f => f x) h

/-- **reversion = Mathlib's `reverse`** under the isomorphism -/
theorem fromMathlib_reverse (x : CliffordAlgebra (Q n sig)) :
    fromMathlib (reverse x) = (rev n (fromMathlib x : Cl n sig) : Cl n sig) := by
  induction x using CliffordAlgebra.induction with
  | algebraMap r =>
    rw [reverse.commutes, AlgHom.commutes, Algebra.algebraMap_eq_smul_one]
    funext c
    show r * (one n : CMV n R) c = revSign (pc n c.val) * (r * (one n : CMV n R) c)
    by_cases hc : c = fzero
    · subst hc; simp [one, pc, fzero, bit, revSign, tri, sgn]
    · simp [one, hc]
  | ι v =>
    rw [reverse_ι, fromMathlib_ι, rev_hom n 1 _ (vec_isHom' v)]
    have : (revSign 1 : R) = 1 := by simp [revSign, tri, sgn]
    funext c
    show (vec v : Cl n sig) c = (revSign 1 : R) * (vec v : Cl n sig) c
    rw [this, one_mul]
  | mul a b ha hb =>
    rw [reverse.map_mul, map_mul, map_mul, ha, hb]
    exact (rev_gmul n sig _ _).symm
  | add a b ha hb =>
    rw [map_add, map_add, ha, hb, map_add]
    funext c
    exact (congrFun (rev_add' (fromMathlib a : Cl n sig) (fromMathlib b : Cl n sig)) c).symm

end Cl
