import Proofs.Spec
open Finset Model

theorem popcount_spec (n : Nat) : ∀ x, x < 2^n → popcount x = ∑ i ∈ range n, bit x i := by
  induction n with
  | zero => intro x hx; have : x = 0 := by simpa using hx
            subst this; simp [popcount]
  | succ n ih =>
    intro x hx
    rw [popcount]
    split
    · next h => subst h; simp [bit]
    · next h =>
      have hx2 : x / 2 < 2^n := by
        rw [Nat.div_lt_iff_lt_mul (by decide)]; rw [pow_succ] at hx; exact hx
      rw [ih _ hx2, Finset.sum_range_succ']
      have : ∀ i, bit (x/2) i = bit x (i+1) := by
        intro i; simp [bit, Nat.testBit_div_two]
      simp only [this]
      have h0 : bit x 0 = x % 2 := by
        simp [bit, Nat.testBit_zero]; rcases Nat.mod_two_eq_zero_or_one x with h | h <;> simp [h]
      omega

/-- the accumulating loop adds one popcount per shift -/
theorem swapsLoop_eq (n : Nat) : ∀ (m a b acc : Nat), a < 2^m → b < 2^n →
    swapsLoop a b acc = acc + ∑ k ∈ range m, popcount ((a >>> k) &&& b) := by
  intro m
  induction m with
  | zero =>
    intro a b acc ha _
    have : a = 0 := by simpa using ha
    subst this; rw [swapsLoop]; simp
  | succ m ih =>
    intro a b acc ha hb
    rw [swapsLoop]
    split
    · next h => subst h; simp [popcount]
    · next h =>
      have ha2 : a >>> 1 < 2^m := by
        rw [Nat.shiftRight_eq_div_pow]; simp
        rw [Nat.div_lt_iff_lt_mul (by decide)]; rw [pow_succ] at ha; exact ha
      rw [ih (a >>> 1) b _ ha2 hb, Finset.sum_range_succ']
      simp only [← Nat.shiftRight_add, Nat.shiftRight_zero]
      have : ∀ k, 1 + k = k + 1 := fun k => Nat.add_comm 1 k
      simp only [this]
      omega


theorem reorderSwaps_spec (n a b : Nat) (ha : a < 2^n) (hb : b < 2^n) :
    reorderSwaps a b = swaps n a b := by
  unfold reorderSwaps
  have ha1 : a >>> 1 < 2^n := lt_of_le_of_lt (Nat.shiftRight_le a 1) ha
  rw [swapsLoop_eq n n (a >>> 1) b 0 ha1 hb]
  simp only [Nat.zero_add, ← Nat.shiftRight_add]
  -- each popcount as a sum of bits
  have hp : ∀ k, popcount ((a >>> (1 + k)) &&& b) = ∑ j ∈ range n, bit a (1 + k + j) * bit b j := by
    intro k
    have hlt : (a >>> (1+k)) &&& b < 2^n := lt_of_le_of_lt Nat.and_le_right hb
    rw [popcount_spec n _ hlt]
    apply Finset.sum_congr rfl; intro j _
    rw [bit_and, bit_shr]
  simp only [hp]
  unfold swaps
  -- right side: swap the order of summation
  have hR : ∑ i ∈ range n, ∑ j ∈ range i, bit a i * bit b j
      = ∑ j ∈ range n, ∑ i ∈ Ico (j+1) n, bit a i * bit b j := by
    apply Finset.sum_comm'
    intro i j; simp only [mem_range, mem_Ico]; omega
  rw [hR, Finset.sum_comm]
  apply Finset.sum_congr rfl; intro j hj
  have hj' : j < n := mem_range.mp hj
  -- left inner sum as a sum over an interval, then drop the part above n
  have h1 : ∑ k ∈ range n, bit a (1 + k + j) * bit b j = ∑ i ∈ Ico (j+1) (n + (j+1)), bit a i * bit b j := by
    rw [Finset.sum_Ico_eq_sum_range]
    have : n + (j+1) - (j+1) = n := by omega
    rw [this]
    apply Finset.sum_congr rfl; intro k _
    have : 1 + k + j = j + 1 + k := by omega
    rw [this]
  rw [h1, ← Finset.sum_Ico_consecutive _ (show j+1 ≤ n by omega) (show n ≤ n + (j+1) by omega)]
  have h0 : ∑ i ∈ Ico n (n + (j+1)), bit a i * bit b j = 0 := by
    apply Finset.sum_eq_zero; intro i hi
    have : n ≤ i := (mem_Ico.mp hi).1
    rw [bit_zero_of_lt ha this, Nat.zero_mul]
  rw [h0, Nat.add_zero]
