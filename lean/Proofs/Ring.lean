import Proofs.Gen
import Mathlib.Algebra.Algebra.Defs
import Mathlib.Algebra.Module.Pi
import Mathlib.Algebra.BigOperators.Pi
import Mathlib.Tactic.NoncommRing
open Finset

/-! the model as a bona fide `Ring` and `R`-algebra, so Mathlib's ring tactics and
    `CliffordAlgebra.lift` apply to it -/

variable {R : Type} [CommRing R]

/-- type synonym carrying the signature; additive structure is pointwise, product is `gmul` -/
def Cl (n : Nat) (_sig : Nat → R) : Type := Bm n → R

namespace Cl
variable {n : Nat} {sig : Nat → R}

instance : AddCommGroup (Cl n sig) := inferInstanceAs (AddCommGroup (Bm n → R))
instance : Module R (Cl n sig) := inferInstanceAs (Module R (Bm n → R))
instance : Mul (Cl n sig) := ⟨fun A B => gmul n sig A B⟩
instance : One (Cl n sig) := ⟨one n⟩

theorem mul_def (A B : Cl n sig) : A * B = gmul n sig A B := rfl
theorem one_def : (1 : Cl n sig) = one n := rfl

theorem left_distrib' (A B C : Cl n sig) : A * (B + C) = A * B + A * C := by
  funext c
  show gmul n sig A (B + C) c = gmul n sig A B c + gmul n sig A C c
  simp only [gmul, ← Finset.sum_add_distrib]
  apply Finset.sum_congr rfl; intro a _
  show _ * A a * (B (fxor a c) + C (fxor a c)) = _
  ring

theorem right_distrib' (A B C : Cl n sig) : (A + B) * C = A * C + B * C := by
  funext c
  show gmul n sig (A + B) C c = gmul n sig A C c + gmul n sig B C c
  simp only [gmul, ← Finset.sum_add_distrib]
  apply Finset.sum_congr rfl; intro a _
  show _ * (A a + B a) * C (fxor a c) = _
  ring

theorem zero_mul' (A : Cl n sig) : (0 : Cl n sig) * A = 0 := by
  funext c
  show gmul n sig (0 : Bm n → R) A c = 0
  simp [gmul]

theorem mul_zero' (A : Cl n sig) : A * (0 : Cl n sig) = 0 := by
  funext c
  show gmul n sig A (0 : Bm n → R) c = 0
  simp [gmul]

instance : Ring (Cl n sig) :=
  { (inferInstance : AddCommGroup (Cl n sig)) with
    mul := (· * ·)
    one := 1
    mul_assoc := fun A B C => gmul_assoc n sig A B C
    one_mul := fun A => one_gmul n sig A
    mul_one := fun A => gmul_one n sig A
    left_distrib := left_distrib'
    right_distrib := right_distrib'
    zero_mul := zero_mul'
    mul_zero := mul_zero' }

theorem smul_mul' (r : R) (A B : Cl n sig) : (r • A) * B = r • (A * B) := by
  funext c
  show gmul n sig (r • A) B c = r * gmul n sig A B c
  simp only [gmul, Finset.mul_sum]
  apply Finset.sum_congr rfl; intro a _
  show _ * (r * A a) * B (fxor a c) = _
  ring

theorem mul_smul' (r : R) (A B : Cl n sig) : A * (r • B) = r • (A * B) := by
  funext c
  show gmul n sig A (r • B) c = r * gmul n sig A B c
  simp only [gmul, Finset.mul_sum]
  apply Finset.sum_congr rfl; intro a _
  show _ * A a * (r * B (fxor a c)) = _
  ring

instance : Algebra R (Cl n sig) :=
  Algebra.ofModule (fun r A B => smul_mul' r A B) (fun r A B => mul_smul' r A B)

/-- the generators -/
def e (i : Nat) (hi : i < n) : Cl n sig := blade n ⟨2^i, Nat.pow_lt_pow_right (by decide) hi⟩

theorem e_sq (i : Nat) (hi : i < n) : (e i hi : Cl n sig) * e i hi = sig i • (1 : Cl n sig) := by
  funext c
  show gmul n sig (blade n _) (blade n _) c = sig i * (one n : Bm n → R) c
  rw [gmul_blade_blade]
  have hx : fxor (⟨2^i, Nat.pow_lt_pow_right (by decide) hi⟩ : Bm n) ⟨2^i, Nat.pow_lt_pow_right (by decide) hi⟩ = fzero := fxor_self _
  simp only [hx, one, s_gen_sq n sig i hi]
  by_cases h : c = fzero <;> simp [h]

theorem e_anticomm (i j : Nat) (hi : i < n) (hj : j < n) (h : i ≠ j) :
    (e i hi : Cl n sig) * e j hj = - (e j hj * e i hi) := by
  funext c
  show gmul n sig (blade n _) (blade n _) c = - gmul n sig (blade n _) (blade n _) c
  rw [gmul_blade_blade, gmul_blade_blade, fxor_comm (⟨2^j, _⟩ : Bm n) ⟨2^i, _⟩]
  simp only [s_gen_anticomm n sig i j hi hj h]
  split <;> simp

/-- a sample of what the `Ring` instance buys: ring-tactic reasoning inside the model -/
example (A B : Cl n sig) : (A + B) * (A + B) = A * A + A * B + B * A + B * B := by noncomm_ring

end Cl
