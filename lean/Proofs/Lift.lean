import Proofs.Ring
import Mathlib.LinearAlgebra.CliffordAlgebra.Basic
import Mathlib.LinearAlgebra.QuadraticForm.Basic
open Finset

/-! C01 stretch: Mathlib's `CliffordAlgebra` of the diagonal form maps into the model by the
    universal property, so every identity of *the* Clifford algebra holds in the model -/

variable {R : Type} [CommRing R] {n : Nat} {sig : Nat → R}

namespace Cl

/-- the diagonal quadratic form Σ sig_i v_i² on `Fin n → R` -/
noncomputable def Q (n : Nat) (sig : Nat → R) : QuadraticForm R (Fin n → R) :=
  QuadraticMap.weightedSumSquares R (fun i : Fin n => sig i.val)

/-- the vector with coordinates `v` -/
def vec (v : Fin n → R) : Cl n sig := ∑ i : Fin n, v i • e i.val i.isLt

def vecLin : (Fin n → R) →ₗ[R] Cl n sig where
  toFun := vec
  map_add' v w := by simp [vec, add_smul, Finset.sum_add_distrib]
  map_smul' r v := by simp [vec, mul_smul, Finset.smul_sum]

/-- **v*v = Q(v)** for every vector, every n, every signature, every commutative ring (char 2 included) -/
theorem vec_sq (v : Fin n → R) : (vec v : Cl n sig) * vec v = algebraMap R (Cl n sig) (Q n sig v) := by
  classical
  unfold vec
  rw [Finset.sum_mul_sum, ← Finset.sum_product', ← Finset.diag_union_offDiag,
      Finset.sum_union (Finset.disjoint_diag_offDiag _), Finset.sum_diag]
  have hoff : ∑ p ∈ (univ : Finset (Fin n)).offDiag,
      (v p.1 • (e p.1.val p.1.isLt : Cl n sig)) * (v p.2 • e p.2.val p.2.isLt) = 0 := by
    apply Finset.sum_involution (fun p _ => (p.2, p.1))
    · intro p hp
      have hne : p.1.val ≠ p.2.val := fun h => (mem_offDiag.mp hp).2.2 (Fin.ext h)
      rw [smul_mul_smul_comm, smul_mul_smul_comm, e_anticomm p.1.val p.2.val p.1.isLt p.2.isLt hne,
          mul_comm (v p.2) (v p.1)]
      simp
    · intro p hp _ heq
      have h1 : p.2 = p.1 := congrArg Prod.fst heq
      exact (mem_offDiag.mp hp).2.2 h1.symm
    · intro p hp
      have := mem_offDiag.mp hp
      exact mem_offDiag.mpr ⟨this.2.1, this.1, fun h => this.2.2 h.symm⟩
    · intro p _; rfl
  rw [hoff, add_zero]
  have hdiag : ∀ i : Fin n, (v i • (e i.val i.isLt : Cl n sig)) * (v i • e i.val i.isLt)
      = (sig i.val * (v i * v i)) • (1 : Cl n sig) := by
    intro i; rw [smul_mul_smul_comm, e_sq, smul_smul]; congr 1; ring
  simp only [hdiag]
  rw [← Finset.sum_smul, Algebra.algebraMap_eq_smul_one]
  congr 1
  simp [Q, QuadraticMap.weightedSumSquares_apply]

/-- the canonical algebra map from Mathlib's Clifford algebra of `Q` to the model -/
noncomputable def fromMathlib : CliffordAlgebra (Q n sig) →ₐ[R] Cl n sig :=
  CliffordAlgebra.lift (Q n sig) ⟨vecLin, vec_sq⟩

theorem fromMathlib_ι (v : Fin n → R) : fromMathlib (CliffordAlgebra.ι (Q n sig) v) = (vec v : Cl n sig) :=
  CliffordAlgebra.lift_ι_apply _ _ v

end Cl
