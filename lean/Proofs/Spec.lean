import Model.Bits
import Mathlib.Algebra.BigOperators.Ring.Finset
import Mathlib.Algebra.BigOperators.Intervals
import Mathlib.Algebra.Ring.Parity
import Mathlib.Tactic.Ring
import Mathlib.Tactic.Linarith
open Finset Model

/-! shared spec-level definitions -/

def bit (x i : Nat) : Nat := if x.testBit i then 1 else 0

theorem bit_le_one (x i) : bit x i ≤ 1 := by unfold bit; split <;> simp
theorem bit_mul_self (x i) : bit x i * bit x i = bit x i := by unfold bit; split <;> simp
theorem bit_and (x y i) : bit (x &&& y) i = bit x i * bit y i := by
  simp [bit, Nat.testBit_and]; cases x.testBit i <;> cases y.testBit i <;> simp
theorem bit_xor_mod (x y i) : bit (x ^^^ y) i % 2 = (bit x i + bit y i) % 2 := by
  simp [bit, Nat.testBit_xor]; cases x.testBit i <;> cases y.testBit i <;> simp
theorem bit_xor (x y i) : bit (x ^^^ y) i + 2 * (bit x i * bit y i) = bit x i + bit y i := by
  simp [bit, Nat.testBit_xor]; cases x.testBit i <;> cases y.testBit i <;> simp
theorem bit_shr (x k i) : bit (x >>> k) i = bit x (k + i) := by
  simp [bit, Nat.testBit_shiftRight]
theorem bit_zero_of_lt {x n i : Nat} (hx : x < 2^n) (hi : n ≤ i) : bit x i = 0 := by
  have : x < 2^i := lt_of_lt_of_le hx (Nat.pow_le_pow_right (by decide) hi)
  simp [bit, Nat.testBit_lt_two_pow this]

/-- popcount below 2^n as a sum of bits -/
def pc (n x : Nat) : Nat := ∑ i ∈ range n, bit x i

def swaps (n a b : Nat) : Nat := ∑ i ∈ range n, ∑ j ∈ range i, bit a i * bit b j

def sgn {R : Type} [CommRing R] (k : Nat) : R := (-1) ^ k
theorem sgn_congr {R : Type} [CommRing R] {a b : Nat} (h : a % 2 = b % 2) : (sgn a : R) = sgn b := by
  unfold sgn; rw [neg_one_pow_eq_pow_mod_two, h, ← neg_one_pow_eq_pow_mod_two]
theorem sgn_add {R : Type} [CommRing R] (a b : Nat) : (sgn (a+b) : R) = sgn a * sgn b := by unfold sgn; rw [pow_add]
theorem sgn_mul_self {R : Type} [CommRing R] (a : Nat) : (sgn a : R) * sgn a = 1 := by
  rw [← sgn_add]; unfold sgn; rw [← two_mul, pow_mul]; simp

def metric {R : Type} [CommRing R] (sig : Nat → R) (n m : Nat) : R := ∏ i ∈ range n, if m.testBit i then sig i else 1

def s {R : Type} [CommRing R] (sig : Nat → R) (n a b : Nat) : R := sgn (swaps n a b) * metric sig n (a &&& b)
