import Proofs.SeriesP
import Proofs.TrigReal
import Mathlib.Data.Rat.BigOperators
open Finset SeriesP

/-! C16, blade clause: for `B·B = −t²` the `2N`-term exponential series is `C·1 + S·B` with rational `C`, `S` whose real values are within the
Mathlib remainder bound of `cos t` and `sin t / t` — the closed form `cos t + B sin(t)/t` of the property, for the unscaled series. -/
namespace BladeReal

/-- the even / odd coefficient sums of `exp_on_blade` at `s = −t²`, re-indexed -/
theorem even_sum (t : ℚ) (N : ℕ) :
    (∑ k ∈ range (2 * N), if k % 2 = 0 then (1 : ℚ) / (k.factorial : ℚ) * (-(t ^ 2)) ^ (k / 2) else 0)
      = ∑ j ∈ range N, (-1) ^ j * t ^ (2 * j) / ((2 * j).factorial : ℚ) := by
  induction N with
  | zero => simp
  | succ N ih =>
    rw [show 2 * (N + 1) = 2 * N + 1 + 1 by ring, sum_range_succ, sum_range_succ, ih, sum_range_succ]
    have h1 : (2 * N) % 2 = 0 := by omega
    have h2 : (2 * N + 1) % 2 ≠ 0 := by omega
    have h3 : (2 * N) / 2 = N := by omega
    rw [if_pos h1, if_neg h2, h3, add_zero]
    congr 1
    rw [neg_pow, ← pow_mul]; ring

theorem odd_sum (t : ℚ) (N : ℕ) :
    (∑ k ∈ range (2 * N), if k % 2 = 0 then 0 else (1 : ℚ) / (k.factorial : ℚ) * (-(t ^ 2)) ^ (k / 2))
      = ∑ j ∈ range N, (-1) ^ j * t ^ (2 * j) / ((2 * j + 1).factorial : ℚ) := by
  induction N with
  | zero => simp
  | succ N ih =>
    rw [show 2 * (N + 1) = 2 * N + 1 + 1 by ring, sum_range_succ, sum_range_succ, ih, sum_range_succ]
    have h1 : (2 * N) % 2 = 0 := by omega
    have h2 : (2 * N + 1) % 2 ≠ 0 := by omega
    have h3 : (2 * N + 1) / 2 = N := by omega
    rw [if_pos h1, if_neg h2, h3, add_zero]
    congr 1
    rw [neg_pow, ← pow_mul]; ring

variable {A : Type} [Ring A] [Algebra ℚ A]

/-- **`exp` on a blade with negative square against `cos t + B·sin(t)/t`**: for `B·B = −t²` (rational `t`) the `2N`-term series is `C·1 + S·B` with
    `C = Σ_{j<N} (−1)^j t^{2j}/(2j)!`, `S = Σ_{j<N} (−1)^j t^{2j}/(2j+1)!`, and over the reals `|cos t − C| ≤ β`, `|sin t − t·S| ≤ β`,
    `β = 2|t|^{2N}/(2N)!`, whenever `|t| ≤ N + 1/2` -/
theorem exp_on_blade_close (B : A) (t : ℚ) (h : B * B = (-(t ^ 2)) • (1 : A)) (N : ℕ) (ht : |(t : ℝ)| / ((2 * N : ℕ).succ : ℝ) ≤ 1 / 2) :
    expTrunc (2 * N) B = (∑ j ∈ range N, (-1) ^ j * t ^ (2 * j) / ((2 * j).factorial : ℚ)) • (1 : A)
        + (∑ j ∈ range N, (-1) ^ j * t ^ (2 * j) / ((2 * j + 1).factorial : ℚ)) • B
    ∧ |Real.cos (t : ℝ) - ((∑ j ∈ range N, (-1) ^ j * t ^ (2 * j) / ((2 * j).factorial : ℚ) : ℚ) : ℝ)| ≤ |(t : ℝ)| ^ (2 * N) / ((2 * N).factorial : ℝ) * 2
    ∧ |Real.sin (t : ℝ) - (t : ℝ) * ((∑ j ∈ range N, (-1) ^ j * t ^ (2 * j) / ((2 * j + 1).factorial : ℚ) : ℚ) : ℝ)| ≤ |(t : ℝ)| ^ (2 * N) / ((2 * N).factorial : ℝ) * 2 := by
  refine ⟨?_, ?_, ?_⟩
  · rw [expTrunc_blade B _ h (2 * N), even_sum, odd_sum]
  · have := (TrigReal.cos_sin_close (t : ℝ) N ht).1
    have hc : ((∑ j ∈ range N, (-1) ^ j * t ^ (2 * j) / ((2 * j).factorial : ℚ) : ℚ) : ℝ) = TrigReal.cosTrunc N (t : ℝ) := by
      unfold TrigReal.cosTrunc
      rw [Rat.cast_sum]
      apply sum_congr rfl; intro j _
      push_cast; ring
    rw [hc]; exact this
  · have := (TrigReal.cos_sin_close (t : ℝ) N ht).2
    have hs : (t : ℝ) * ((∑ j ∈ range N, (-1) ^ j * t ^ (2 * j) / ((2 * j + 1).factorial : ℚ) : ℚ) : ℝ) = TrigReal.sinTrunc N (t : ℝ) := by
      unfold TrigReal.sinTrunc
      rw [Rat.cast_sum, mul_sum]
      apply sum_congr rfl; intro j _
      push_cast; ring
    rw [hs]; exact this

end BladeReal
