import Proofs.Alg
import Mathlib.Data.Matrix.Mul
import Mathlib.LinearAlgebra.Matrix.SemiringInverse
open Finset Matrix

/-! C05 spike: in the model algebra over any commutative ring, a left inverse is a right inverse -/

variable {R : Type} [CommRing R] (n : Nat) (sig : Nat → R)

/-- the left-multiplication matrix (what `val_get_left_mt_matrix` builds) in canonical indexing -/
def Lmat (A : CMV n R) : Matrix (Bm n) (Bm n) R :=
  fun c b => s sig n (fxor c b).val b.val * A (fxor c b)

theorem gmul_eq_mulVec (A B : CMV n R) : gmul n sig A B = (Lmat n sig A).mulVec B := by
  funext c
  simp only [gmul, Matrix.mulVec, dotProduct, Lmat]
  rw [← (fxorEquiv c).sum_comp]
  refine Finset.sum_congr rfl (fun a _ => ?_)
  simp only [fxorEquiv, Equiv.coe_fn_mk]
  have h1 : fxor (fxor c a) c = a := by rw [fxor_comm c a, fxor_assoc, fxor_self, fxor_zero]
  have h2 : fxor c (fxor c a) = a := fxor_cancel c a
  rw [h1]

theorem Lmat_mul (A B : CMV n R) : Lmat n sig (gmul n sig A B) = Lmat n sig A * Lmat n sig B := by
  -- two matrices that act equally on every vector are equal
  have key : ∀ C : CMV n R, (Lmat n sig (gmul n sig A B)).mulVec C = (Lmat n sig A * Lmat n sig B).mulVec C := by
    intro C
    rw [← gmul_eq_mulVec, gmul_assoc, gmul_eq_mulVec n sig A, gmul_eq_mulVec n sig B, Matrix.mulVec_mulVec]
  ext i j
  have := congrFun (key (fun k => if k = j then 1 else 0)) i
  simpa [Matrix.mulVec, dotProduct] using this

theorem Lmat_one : Lmat n sig (one n) = 1 := by
  have key : ∀ C : CMV n R, (Lmat n sig (one n)).mulVec C = (1 : Matrix (Bm n) (Bm n) R).mulVec C := by
    intro C; rw [← gmul_eq_mulVec, one_gmul, Matrix.one_mulVec]
  ext i j
  have := congrFun (key (fun k => if k = j then 1 else 0)) i
  simpa [Matrix.mulVec, dotProduct] using this

/-- **left inverse ⇒ right inverse** (hence inverses are unique and all inverse methods agree) -/
theorem left_inv_imp_right_inv (X M : CMV n R) (h : gmul n sig X M = one n) : gmul n sig M X = one n := by
  have hL : Lmat n sig X * Lmat n sig M = 1 := by rw [← Lmat_mul, h, Lmat_one]
  have hR : Lmat n sig M * Lmat n sig X = 1 := mul_eq_one_comm.mp hL
  calc gmul n sig M X = gmul n sig M (gmul n sig X (one n)) := by rw [gmul_one]
    _ = (Lmat n sig M).mulVec ((Lmat n sig X).mulVec (one n)) := by rw [gmul_eq_mulVec n sig M, gmul_eq_mulVec n sig X]
    _ = (Lmat n sig M * Lmat n sig X).mulVec (one n) := by rw [Matrix.mulVec_mulVec]
    _ = one n := by rw [hR, Matrix.one_mulVec]

theorem gmul_inv_unique (X Y M : CMV n R) (hX : gmul n sig X M = one n) (hY : gmul n sig M Y = one n) : X = Y := by
  calc X = gmul n sig X (one n) := (gmul_one n sig X).symm
    _ = gmul n sig X (gmul n sig M Y) := by rw [hY]
    _ = gmul n sig (gmul n sig X M) Y := (gmul_assoc n sig X M Y).symm
    _ = Y := by rw [hX, one_gmul]
