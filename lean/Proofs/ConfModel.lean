import Proofs.Conf2
import Proofs.Lift

/-! C08: the model algebra of a conformalised layout satisfies the relations used in `Proofs/Conf.lean`.
`N = n + 2` generators, the two added ones with squares `+1`, `-1` (`added_sig = [1, -1]`), base vectors have
zero coordinates on them. -/

namespace Cl
open Finset

variable {N : Nat} {sig : Nat → ℚ}

theorem vec_mul_e_anticomm (v : Fin N → ℚ) (k : Nat) (hk : k < N) (hv : ∀ i : Fin N, i.val = k → v i = 0) :
    (vec v : Cl N sig) * e k hk = -(e k hk * vec v) := by
  unfold vec
  rw [Finset.sum_mul, Finset.mul_sum, ← Finset.sum_neg_distrib]
  refine Finset.sum_congr rfl (fun i _ => ?_)
  by_cases hi : i.val = k
  · rw [hv i hi]; simp
  · rw [smul_mul_assoc, mul_smul_comm, e_anticomm i.val k i.isLt hk hi, smul_neg]

/-- the relations hold in the model of every conformalised layout, for every base vector -/
theorem conformal_rel (n : Nat) (hN : N = n + 2) (h1 : sig n = 1) (h2 : sig (n + 1) = -1)
    (v : Fin N → ℚ) (hv : ∀ i : Fin N, n ≤ i.val → v i = 0) :
    Conf.Rel (vec v : Cl N sig) (e n (by omega)) (e (n + 1) (by omega)) (Q N sig v) where
  hx := by rw [vec_sq, Algebra.algebraMap_eq_smul_one]
  hep := by rw [e_sq, h1, one_smul]
  hen := by rw [e_sq, h2, neg_smul, one_smul]
  h1 := vec_mul_e_anticomm v n (by omega) (fun i hi => hv i (by omega))
  h2 := vec_mul_e_anticomm v (n + 1) (by omega) (fun i hi => hv i (by omega))
  h3 := e_anticomm n (n + 1) (by omega) (by omega) (by omega)

end Cl

namespace Cl
open Finset
variable {N : Nat} {sig : Nat → ℚ}

theorem vec_add (v w : Fin N → ℚ) : (vec (v + w) : Cl N sig) = vec v + vec w := (vecLin (n := N) (sig := sig)).map_add v w

/-- two base vectors: `w v = (Q(v+w) - Q v - Q w) - v w` -/
theorem vec_mul_vec_comm (v w : Fin N → ℚ) :
    (vec w : Cl N sig) * vec v = (2 * ((Q N sig (v + w) - Q N sig v - Q N sig w) / 2)) • (1 : Cl N sig) - vec v * vec w := by
  have h := vec_sq (sig := sig) (v + w)
  rw [vec_add, Algebra.algebraMap_eq_smul_one] at h
  have hv := vec_sq (sig := sig) v
  have hw := vec_sq (sig := sig) w
  rw [Algebra.algebraMap_eq_smul_one] at hv hw
  have e : (vec v + vec w : Cl N sig) * (vec v + vec w) = vec v * vec v + vec w * vec w + (vec v * vec w + vec w * vec v) := by
    noncomm_ring
  rw [e, hv, hw] at h
  have h2 : (vec v : Cl N sig) * vec w + vec w * vec v = (Q N sig (v + w) - Q N sig v - Q N sig w) • (1 : Cl N sig) := by
    have : (vec v : Cl N sig) * vec w + vec w * vec v
        = (Q N sig (v + w)) • (1 : Cl N sig) - ((Q N sig v) • (1 : Cl N sig) + (Q N sig w) • (1 : Cl N sig)) := by
      rw [← h]; abel
    rw [this]; module
  have h3 : (vec w : Cl N sig) * vec v = (Q N sig (v + w) - Q N sig v - Q N sig w) • (1 : Cl N sig) - vec v * vec w := by
    rw [← h2]; abel
  rw [h3]; congr 2; ring

/-- the two-vector relations hold in the model of every conformalised layout -/
theorem conformal_rel2 (n : Nat) (hN : N = n + 2) (h1 : sig n = 1) (h2 : sig (n + 1) = -1)
    (v w : Fin N → ℚ) (hv : ∀ i : Fin N, n ≤ i.val → v i = 0) (hw : ∀ i : Fin N, n ≤ i.val → w i = 0) :
    Conf.Rel2 (vec v : Cl N sig) (vec w) (e n (by omega)) (e (n + 1) (by omega)) (Q N sig v) (Q N sig w)
      ((Q N sig (v + w) - Q N sig v - Q N sig w) / 2) where
  rx := conformal_rel n hN h1 h2 v hv
  ra := conformal_rel n hN h1 h2 w hw
  hax := vec_mul_vec_comm v w

end Cl
