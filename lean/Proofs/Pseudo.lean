import Proofs.Comm
import Proofs.Graded
import Proofs.Invol
import Proofs.Det

/-! # Pseudovectors square to scalars (C13)

In `n` dimensions a homogeneous element of grade `n − 1` has a scalar square: for `c ≠ 0` the terms of `(q q)_c` cancel in pairs
`(a, a ⊕ c)`, because two distinct blades of grade `n − 1` share `n − 2` basis vectors and therefore anticommute
(`s_comm`: the commutation sign is `(−1)^{(n−1)² + (n−2)} = −1`).  In g3c (`n = 5`) this is the 4-vector part `q` of
`σ = C ~C = s + q` in `rotor_between_objects`. -/

open Finset
variable {R : Type} [CommRing R] (n : Nat) (sig : Nat → R)

theorem pc_add_le (a b : Nat) : pc n a + pc n b ≤ n + pc n (a &&& b) := by
  unfold pc
  have h : ∀ i ∈ range n, bit a i + bit b i ≤ 1 + bit (a &&& b) i := by
    intro i _
    rw [bit_and]
    have ha := bit_le_one a i
    have hb := bit_le_one b i
    rcases Nat.lt_or_ge (bit a i) 1 with h0 | h1
    · have : bit a i = 0 := by omega
      rw [this]; omega
    · have : bit a i = 1 := by omega
      rw [this]; omega
  calc ∑ i ∈ range n, bit a i + ∑ i ∈ range n, bit b i = ∑ i ∈ range n, (bit a i + bit b i) := by rw [Finset.sum_add_distrib]
    _ ≤ ∑ i ∈ range n, (1 + bit (a &&& b) i) := Finset.sum_le_sum h
    _ = n + ∑ i ∈ range n, bit (a &&& b) i := by rw [Finset.sum_add_distrib]; simp

theorem sgn_pseudo (m : Nat) (hm : 1 ≤ m) : (sgn (m * m + (m - 1)) : R) = -1 := by
  apply sgn_odd
  have he : Even (m * (m + 1)) := Nat.even_mul_succ_self m
  obtain ⟨k, hk⟩ := he
  have : m * m + (m - 1) + 1 = m * (m + 1) := by
    have : m - 1 + 1 = m := by omega
    rw [Nat.mul_add, Nat.mul_one]; omega
  omega

/-- off the scalar slot, the square of a pseudovector vanishes -/
theorem pseudovector_sq_off (q : CMV n R) (hq : IsHom n (n - 1) q) (c : Bm n) (hc : c ≠ fzero) : gmul n sig q q c = 0 := by
  unfold gmul
  apply Finset.sum_involution (fun a _ => fxor a c)
  · intro a _
    by_cases ha : pc n a.val = n - 1
    · by_cases hb : pc n (fxor a c).val = n - 1
      · -- both of grade n-1: the two terms cancel
        have hx := pc_xor n a.val (fxor a c).val
        rw [xor_fxor_val] at hx
        have hle := pc_add_le n a.val (fxor a c).val
        have hcpos : 1 ≤ pc n c.val := by
          rcases Nat.eq_zero_or_pos (pc n c.val) with h0 | hp
          · exfalso; apply hc; ext; exact DetW.pc_eq_zero c.val c.isLt h0
          · exact hp
        have hn : 2 ≤ n := by
          by_contra hlt
          have : n - 1 = 0 := by omega
          rw [this] at ha hb
          have ha0 : a.val = 0 := DetW.pc_eq_zero a.val a.isLt ha
          have hb0 : (fxor a c).val = 0 := DetW.pc_eq_zero _ (fxor a c).isLt hb
          apply hc; ext
          have := xor_fxor_val a c
          rw [ha0, hb0] at this
          simpa [fzero] using this.symm
        have hand : pc n (a.val &&& (fxor a c).val) = n - 2 := by omega
        have hs := s_comm sig n a.val (fxor a c).val
        rw [ha, hb, hand] at hs
        have hm : n - 2 = (n - 1) - 1 := by omega
        rw [hm, sgn_pseudo (n - 1) (by omega)] at hs
        rw [fxor_fxor_right, hs]
        ring
      · rw [hq (fxor a c) hb]; simp [fxor_fxor_right]
    · rw [hq a ha]; simp [fxor_fxor_right, hq a ha]
  · intro a _ _ heq
    apply hc
    have : fxor a (fxor a c) = fxor a a := by rw [heq]
    rw [← fxor_assoc, fxor_self] at this
    ext
    have h2 := congrArg Fin.val this
    simp only [fxor, fzero, Nat.zero_xor] at h2
    exact h2
  · intro a _; exact Finset.mem_univ _
  · intro a _; exact fxor_fxor_right a c

/-- **a pseudovector squares to a scalar** -/
theorem pseudovector_sq (q : CMV n R) (hq : IsHom n (n - 1) q) : gmul n sig q q = (gmul n sig q q fzero) • one n := by
  funext c
  by_cases hc : c = fzero
  · subst hc; simp [one]
  · rw [pseudovector_sq_off n sig q hq c hc]; simp [one, hc]
