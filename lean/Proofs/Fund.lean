import Proofs.Blade
import Proofs.Comm
import Proofs.Invol
import Proofs.Index
open Finset

/-! the fundamental identity for a vector against any multivector, with the tables as coded:
    `B̂ x = x ∧ B − x ⌋ B`; with `x B = x ⌋ B + x ∧ B` this gives `2 x∧B = xB + B̂x` and `2 x⌋B = xB − B̂x` -/

variable {R : Type} [CommRing R] (n : Nat) (sig : Nat → R)

/-- a bitmap below `2^n` with exactly one set bit is a power of two -/
theorem eq_two_pow_of_pc_one (a : Nat) (ha : a < 2 ^ n) (h : pc n a = 1) : ∃ i, i < n ∧ a = 2 ^ i := by
  unfold pc at h
  have hex : ∃ i ∈ range n, bit a i ≠ 0 := by
    by_contra hc
    push Not at hc
    rw [Finset.sum_eq_zero hc] at h; exact absurd h (by decide)
  obtain ⟨i, hi, hbi⟩ := hex
  have hi' := mem_range.mp hi
  refine ⟨i, hi', ?_⟩
  have hb1 : bit a i = 1 := by have := bit_le_one a i; omega
  have hrest : ∀ j ∈ range n, j ≠ i → bit a j = 0 := by
    intro j hj hne
    by_contra hcj
    have hj1 : bit a j = 1 := by have := bit_le_one a j; omega
    have : bit a i + bit a j ≤ ∑ k ∈ range n, bit a k := by
      have hsub : ({i, j} : Finset Nat) ⊆ range n := by
        intro k hk; rcases Finset.mem_insert.mp hk with rfl | hk
        · exact hi
        · rw [Finset.mem_singleton.mp hk]; exact hj
      calc bit a i + bit a j = ∑ k ∈ ({i, j} : Finset Nat), bit a k := by
            rw [Finset.sum_pair (Ne.symm hne)]
        _ ≤ ∑ k ∈ range n, bit a k := Finset.sum_le_sum_of_subset hsub
    omega
  apply Nat.eq_of_testBit_eq; intro j
  rw [Nat.testBit_two_pow]
  by_cases hji : i = j
  · subst hji; simp only [decide_true]
    unfold bit at hb1; by_contra hc; simp [hc] at hb1
  · simp only [hji, decide_false]
    by_cases hjn : j < n
    · have := hrest j (mem_range.mpr hjn) (Ne.symm hji)
      unfold bit at this; by_contra hc; simp at hc; simp [hc] at this
    · exact Nat.testBit_lt_two_pow (lt_of_lt_of_le ha (Nat.pow_le_pow_right (by decide) (Nat.le_of_not_lt hjn)))

theorem pc_two_pow_and (a i : Nat) (hi : i < n) : pc n (2^i &&& a) = bit a i := by
  unfold pc
  rw [Finset.sum_eq_single i]
  · rw [bit_and]; simp [bit, Nat.testBit_two_pow]
  · intro j _ hj; rw [bit_and]; simp [bit, Nat.testBit_two_pow, Ne.symm hj]
  · intro h; exact absurd (mem_range.mpr hi) h

/-- sign of a blade against a generator on its right, with the grade involution: `ŝ(a, e_i) = (−1)^{[i∈a]} s(e_i, a)` -/
theorem s_right_gen (a i : Nat) (hi : i < n) :
    s sig n a (2^i) * sgn (pc n a) = sgn (bit a i) * s sig n (2^i) a := by
  rw [s_gen_comm sig n a i hi]
  have h1 : (sgn (bit a i) : R) * (sgn (pc n a + bit a i) * s sig n a (2 ^ i))
      = (sgn (bit a i) * sgn (bit a i)) * sgn (pc n a) * s sig n a (2^i) := by rw [sgn_add]; ring
  rw [h1, sgn_mul_self]; ring

/-- **`B̂ x = x ∧ B − x ⌋ B`** for a vector `x` and any multivector `B`, with the outer and left-contraction tables as coded -/
theorem gi_mul_vector (x B : CMV n R) (hx : IsHom n 1 x) :
    gmul n sig (gi n B) x = mmul n sig Model.omtCheck x B - mmul n sig Model.lcmtCheck x B := by
  funext c
  simp only [gmul, mmul, gi, Pi.sub_apply, ← Finset.sum_sub_distrib]
  rw [← (fxorEquiv c).sum_comp (fun a' : Bm n =>
      (if Model.omtCheck (pc n c.val : Nat) (pc n a'.val : Nat) (pc n (fxor a' c).val : Nat) then
        s sig n a'.val (fxor a' c).val * x a' * B (fxor a' c) else 0)
      - (if Model.lcmtCheck (pc n c.val : Nat) (pc n a'.val : Nat) (pc n (fxor a' c).val : Nat) then
        s sig n a'.val (fxor a' c).val * x a' * B (fxor a' c) else 0))]
  refine Finset.sum_congr rfl (fun a _ => ?_)
  simp only [fxorEquiv, Equiv.coe_fn_mk]
  have hback : fxor (fxor c a) c = a := by rw [fxor_comm c a]; exact fxor_fxor_right a c
  have hca : fxor a c = fxor c a := fxor_comm a c
  simp only [hback, hca]
  by_cases h1 : pc n (fxor c a).val = 1
  · obtain ⟨i, hi, hai⟩ := eq_two_pow_of_pc_one n (fxor c a).val (fxor c a).isLt h1
    have hcval : c.val = a.val ^^^ 2 ^ i := by
      have : (fxor c a).val = c.val ^^^ a.val := rfl
      rw [this] at hai
      apply Nat.eq_of_testBit_eq; intro j
      have := congrArg (fun z => z.testBit j) hai
      simp only [Nat.testBit_xor] at this ⊢
      cases hc : c.val.testBit j <;> cases ha : a.val.testBit j <;> simp [hc, ha] at this ⊢ <;> simp [this]
    have hx' := pc_xor n (2^i) a.val
    rw [pc_two_pow_and n a.val i hi, pc_two_pow n i hi] at hx'
    have hcc : pc n c.val = pc n (2^i ^^^ a.val) := by rw [hcval, Nat.xor_comm]
    rw [hai, pc_two_pow n i hi, hcc]
    have hsr := s_right_gen n sig a.val i hi
    have hb := bit_le_one a.val i
    rcases Nat.eq_zero_or_pos (bit a.val i) with h0 | hpos
    · have hpc : pc n (2^i ^^^ a.val) = 1 + pc n a.val := by omega
      have ho : Model.omtCheck (pc n (2^i ^^^ a.val) : Nat) (1 : Nat) (pc n a.val : Nat) = true := by
        simp only [Model.omtCheck, beq_iff_eq]; omega
      have hl : Model.lcmtCheck (pc n (2^i ^^^ a.val) : Nat) (1 : Nat) (pc n a.val : Nat) = false := by
        simp only [Model.lcmtCheck, beq_eq_false_iff_ne, ne_eq]; omega
      rw [ho, hl]; simp only [if_true, Bool.false_eq_true, if_false, sub_zero]
      rw [h0] at hsr
      have : s sig n a.val (2^i) * (sgn (pc n a.val) * B a) * x (fxor c a)
          = (s sig n a.val (2^i) * sgn (pc n a.val)) * B a * x (fxor c a) := by ring
      rw [this, hsr]; simp only [sgn, pow_zero, one_mul]; ring
    · have h1b : bit a.val i = 1 := by omega
      have hpc : pc n (2^i ^^^ a.val) + 1 = pc n a.val := by omega
      have ho : Model.omtCheck (pc n (2^i ^^^ a.val) : Nat) (1 : Nat) (pc n a.val : Nat) = false := by
        simp only [Model.omtCheck, beq_eq_false_iff_ne, ne_eq]; omega
      have hl : Model.lcmtCheck (pc n (2^i ^^^ a.val) : Nat) (1 : Nat) (pc n a.val : Nat) = true := by
        simp only [Model.lcmtCheck, beq_iff_eq]; omega
      rw [ho, hl]; simp only [if_true, Bool.false_eq_true, if_false, zero_sub]
      rw [h1b] at hsr
      have : s sig n a.val (2^i) * (sgn (pc n a.val) * B a) * x (fxor c a)
          = (s sig n a.val (2^i) * sgn (pc n a.val)) * B a * x (fxor c a) := by ring
      rw [this, hsr]; simp only [sgn, pow_one]; ring
  · rw [hx (fxor c a) h1]; simp

/-- `2 (x ∧ B) = x B + B̂ x` -/
theorem two_wedge_vector (x B : CMV n R) (hx : IsHom n 1 x) :
    gmul n sig x B + gmul n sig (gi n B) x = mmul n sig Model.omtCheck x B + mmul n sig Model.omtCheck x B := by
  rw [vector_mul_split n sig x B hx, gi_mul_vector n sig x B hx]; abel

/-- `2 (x ⌋ B) = x B − B̂ x` -/
theorem two_lc_vector (x B : CMV n R) (hx : IsHom n 1 x) :
    gmul n sig x B - gmul n sig (gi n B) x = mmul n sig Model.lcmtCheck x B + mmul n sig Model.lcmtCheck x B := by
  rw [vector_mul_split n sig x B hx, gi_mul_vector n sig x B hx]; abel

/-! ### homogeneous `B`: the coded `|`, `^` of a vector against a `g`-blade in terms of the geometric product -/

theorem gi_hom (g : Nat) (B : CMV n R) (hB : IsHom n g B) : gi n B = (sgn g : R) • B := by
  funext c; simp only [gi, Pi.smul_apply, smul_eq_mul_R]
  by_cases h : pc n c.val = g
  · rw [h]
  · rw [hB c h]; simp

/-- the coded inner product `x | B` of a vector with a blade of grade `g ≥ 1` is the left contraction -/
theorem vector_inner_blade_eq_lc (g : Nat) (hg : 1 ≤ g) (x B : CMV n R) (hx : IsHom n 1 x) (hB : IsHom n g B) :
    mmul n sig Model.imtCheck x B = mmul n sig Model.lcmtCheck x B := by
  rw [mmul_hom n sig Model.imtCheck 1 g (g - 1)
      (fun v => by rw [imtCheck_iff v 1 g (by decide) (by omega)]; simp [hg]) x B hx hB,
    mmul_hom n sig Model.lcmtCheck 1 g (g - 1) (fun v => by rw [lcmtCheck_iff_of_le v 1 g hg]) x B hx hB]

/-- `2 (x ∧ B) = x B + (−1)^g B x` -/
theorem two_wedge_vector_hom (g : Nat) (x B : CMV n R) (hx : IsHom n 1 x) (hB : IsHom n g B) :
    wedge n x B + wedge n x B = gmul n sig x B + (sgn g : R) • gmul n sig B x := by
  have h := two_wedge_vector n sig x B hx
  rw [gi_hom n g B hB, mmul_omt_eq_wedge] at h
  rw [← h]; congr 1
  funext c; simp only [gmul, Pi.smul_apply, smul_eq_mul_R, Finset.mul_sum]
  refine Finset.sum_congr rfl (fun a _ => ?_); ring

/-- `2 (x | B) = x B − (−1)^g B x` for a blade of grade `g ≥ 1` (the coded inner product) -/
theorem two_inner_vector_hom (g : Nat) (hg : 1 ≤ g) (x B : CMV n R) (hx : IsHom n 1 x) (hB : IsHom n g B) :
    mmul n sig Model.imtCheck x B + mmul n sig Model.imtCheck x B = gmul n sig x B - (sgn g : R) • gmul n sig B x := by
  have h := two_lc_vector n sig x B hx
  rw [gi_hom n g B hB] at h
  rw [vector_inner_blade_eq_lc n sig g hg x B hx hB, ← h]; congr 1
  funext c; simp only [gmul, Pi.smul_apply, smul_eq_mul_R, Finset.mul_sum]
  refine Finset.sum_congr rfl (fun a _ => ?_); ring

theorem gpart_of_hom (g : Nat) (A : CMV n R) (hA : IsHom n g A) : gpart n g A = A := by
  funext c; simp only [gpart]; split
  · rfl
  · rename_i h; exact (hA c h).symm

theorem gpart_of_hom_ne (g h : Nat) (hne : h ≠ g) (A : CMV n R) (hA : IsHom n h A) : gpart n g A = 0 := by
  funext c; simp only [gpart]; split
  · rename_i hc; exact hA c (by rw [hc]; exact Ne.symm hne)
  · rfl

theorem gpart_smul (g : Nat) (q : R) (A : CMV n R) : gpart n g (q • A) = q • gpart n g A := by
  funext c; simp only [gpart, Pi.smul_apply]; split <;> simp

theorem gpart_sub (g : Nat) (A B : CMV n R) : gpart n g (A - B) = gpart n g A - gpart n g B := by
  funext c; simp only [gpart, Pi.sub_apply]; split <;> simp

/-- `B x = (−1)^g (x ∧ B − x ⌋ B)` for homogeneous `B` -/
theorem blade_mul_vector (g : Nat) (x B : CMV n R) (hx : IsHom n 1 x) (hB : IsHom n g B) :
    gmul n sig B x = (sgn g : R) • (wedge n x B - mmul n sig Model.lcmtCheck x B) := by
  have h := gi_mul_vector n sig x B hx
  rw [gi_hom n g B hB, mmul_omt_eq_wedge] at h
  rw [← h]
  funext c; simp only [gmul, Pi.smul_apply, smul_eq_mul_R, Finset.mul_sum]
  refine Finset.sum_congr rfl (fun a _ => ?_)
  have := sgn_mul_self (R := R) g
  calc s sig n a.val (fxor a c).val * B a * x (fxor a c)
      = (sgn g * sgn g) * (s sig n a.val (fxor a c).val * B a * x (fxor a c)) := by rw [this, one_mul]
    _ = _ := by ring

/-- the coded inner product with the vector on the right: `B | x = (−1)^{g+1} x ⌋ B` (`g ≥ 1`), hence
    `2 (B | x) = B x − (−1)^g x B` -/
theorem blade_inner_vector (g : Nat) (hg : 1 ≤ g) (x B : CMV n R) (hx : IsHom n 1 x) (hB : IsHom n g B) :
    mmul n sig Model.imtCheck B x = (-(sgn g : R)) • mmul n sig Model.lcmtCheck x B := by
  rw [mmul_hom n sig Model.imtCheck g 1 (g - 1)
      (fun v => by rw [imtCheck_iff v g 1 (by omega) (by decide)]; split <;> omega) B x hB hx,
    blade_mul_vector n sig g x B hx hB, gpart_smul, gpart_sub,
    gpart_of_hom_ne n (g - 1) (1 + g) (by omega) _ (wedge_hom n 1 g x B hx hB)]
  have hl : IsHom n (g - 1) (mmul n sig Model.lcmtCheck x B) := by
    rw [mmul_hom n sig Model.lcmtCheck 1 g (g - 1) (fun v => by rw [lcmtCheck_iff_of_le v 1 g hg]) x B hx hB]
    exact gpart_hom n _ _
  rw [gpart_of_hom n (g - 1) _ hl]
  funext c; simp only [Pi.smul_apply, Pi.sub_apply, Pi.zero_apply, smul_eq_mul_R]; ring

/-- the outer product with the vector on the right: `B ∧ x = (−1)^g (x ∧ B)` -/
theorem wedge_blade_vector (g : Nat) (x B : CMV n R) (hx : IsHom n 1 x) (hB : IsHom n g B) :
    wedge n B x = (sgn g : R) • wedge n x B := by
  have sig : Nat → R := fun _ => 1
  rw [← mmul_omt_eq_wedge n sig B x,
    mmul_hom n sig Model.omtCheck g 1 (g + 1) (fun v => omtCheck_iff v g 1) B x hB hx,
    blade_mul_vector n sig g x B hx hB, gpart_smul, gpart_sub]
  have hl : IsHom n (g - 1) (mmul n sig Model.lcmtCheck x B) := by
    by_cases hg : 1 ≤ g
    · rw [mmul_hom n sig Model.lcmtCheck 1 g (g - 1) (fun v => by rw [lcmtCheck_iff_of_le v 1 g hg]) x B hx hB]
      exact gpart_hom n _ _
    · have h0 : g = 0 := by omega
      subst h0
      have : mmul n sig Model.lcmtCheck x B = 0 := by
        funext c; simp only [mmul, Pi.zero_apply]
        refine Finset.sum_eq_zero (fun a _ => ?_)
        by_cases ha : pc n a.val = 1
        · by_cases hb : pc n (fxor a c).val = 0
          · rw [ha, hb, lcmtCheck_of_gt (pc n c.val) 1 0 (by decide)]; simp
          · rw [hB (fxor a c) hb]; simp
        · rw [hx a ha]; simp
      rw [this]; intro c _; rfl
  have hw := wedge_hom n 1 g x B hx hB
  rw [gpart_of_hom n (g + 1) _ (by rw [Nat.add_comm]; exact hw), gpart_of_hom_ne n (g + 1) (g - 1) (by omega) _ hl, sub_zero]
