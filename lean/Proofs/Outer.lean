import Proofs.Compl
import Proofs.Index
import Mathlib.Algebra.BigOperators.GroupWithZero.Action
import Mathlib.Algebra.Module.BigOperators
open Finset

/-! C11: the outermorphism built by `_make_outermorphism`.

`f i` is the image of the `i`-th source basis vector (a column of the vector matrix, as a destination vector);
`Fprod f t a` is the ordered wedge `f(i1) ∧ … ∧ f(ik)` over the set bits `i1 < … < ik < t` of `a`, built by the same
left fold as the code (`out = 1; for v in set_bit_indices(bitmap): out = out ∧ f(e_v)`). -/

variable {R : Type} [CommRing R] (d : Nat)

/-! ### more wedge algebra -/

theorem wedge_add_left (A A' B : CMV d R) : wedge d (A + A') B = wedge d A B + wedge d A' B := by
  rw [← mmul_omt_eq_wedge d (fun _ => (1 : R)), ← mmul_omt_eq_wedge d (fun _ => (1 : R)), ← mmul_omt_eq_wedge d (fun _ => (1 : R))]
  exact mmul_add_left d _ _ A A' B
theorem wedge_add_right (A B B' : CMV d R) : wedge d A (B + B') = wedge d A B + wedge d A B' := by
  rw [← mmul_omt_eq_wedge d (fun _ => (1 : R)), ← mmul_omt_eq_wedge d (fun _ => (1 : R)), ← mmul_omt_eq_wedge d (fun _ => (1 : R))]
  exact mmul_add_right d _ _ A B B'
theorem wedge_zero_left (B : CMV d R) : wedge d 0 B = 0 := by
  funext c; simp [wedge, tmul]
theorem wedge_zero_right (A : CMV d R) : wedge d A 0 = 0 := by
  funext c; simp [wedge, tmul]
theorem wedge_neg_right (A B : CMV d R) : wedge d A (-B) = - wedge d A B := by
  have := wedge_smul_right d (-1 : R) A B
  simpa using this
theorem wedge_sum_left {ι : Type} (S : Finset ι) (g : ι → CMV d R) (B : CMV d R) :
    wedge d (∑ a ∈ S, g a) B = ∑ a ∈ S, wedge d (g a) B := by
  classical
  induction S using Finset.induction_on with
  | empty => simp [wedge_zero_left]
  | insert x S hx ih => rw [Finset.sum_insert hx, Finset.sum_insert hx, wedge_add_left, ih]
theorem wedge_sum_right {ι : Type} (S : Finset ι) (A : CMV d R) (g : ι → CMV d R) :
    wedge d A (∑ a ∈ S, g a) = ∑ a ∈ S, wedge d A (g a) := by
  classical
  induction S using Finset.induction_on with
  | empty => simp [wedge_zero_right]
  | insert x S hx ih => rw [Finset.sum_insert hx, Finset.sum_insert hx, wedge_add_right, ih]

theorem isHom_add (r : Nat) (A B : CMV d R) (hA : IsHom d r A) (hB : IsHom d r B) : IsHom d r (A + B) := by
  intro c hc; simp [hA c hc, hB c hc]

/-- vectors anticommute under the wedge -/
theorem wedge_vector_anticomm (v w : CMV d R) (hv : IsHom d 1 v) (hw : IsHom d 1 w) : wedge d v w = - wedge d w v := by
  have h := wedge_self_vector d (v + w) (isHom_add d 1 v w hv hw)
  rw [wedge_add_left, wedge_add_right, wedge_add_right, wedge_self_vector d v hv, wedge_self_vector d w hw] at h
  have : wedge d v w + wedge d w v = 0 := by simpa using h
  exact eq_neg_of_add_eq_zero_left this

/-! ### the ordered wedge of images -/

def Fprod (f : Nat → CMV d R) : Nat → Nat → CMV d R
  | 0, _ => one d
  | t + 1, a => if a.testBit t then wedge d (Fprod f t a) (f t) else Fprod f t a

theorem pc_succ (t a : Nat) : pc (t + 1) a = pc t a + bit a t := by
  unfold pc; rw [Finset.sum_range_succ]

theorem swaps_succ (t a b : Nat) : swaps (t + 1) a b = swaps t a b + bit a t * pc t b := by
  unfold swaps pc; rw [Finset.sum_range_succ, Finset.mul_sum]

/-- moving a vector across an ordered wedge of `k` vectors costs `(-1)^k` -/
theorem wedge_vector_Fprod (f : Nat → CMV d R) (hf : ∀ i, IsHom d 1 (f i)) (v : CMV d R) (hv : IsHom d 1 v) :
    ∀ t a, wedge d v (Fprod d f t a) = (sgn (pc t a) : R) • wedge d (Fprod d f t a) v := by
  intro t
  induction t with
  | zero => intro a; simp [Fprod, wedge_one, one_wedge, pc, sgn]
  | succ t ih =>
    intro a
    rw [pc_succ]
    by_cases h : a.testBit t
    · have hb : bit a t = 1 := by simp [bit, h]
      simp only [Fprod, h, if_true, hb]
      rw [← wedge_assoc, ih a, wedge_smul_left, wedge_assoc, wedge_vector_anticomm d v (f t) hv (hf t), wedge_neg_right,
        ← wedge_assoc, sgn_add]
      simp [sgn, smul_neg, mul_neg]
    · have hb : bit a t = 0 := by simp [bit, h]
      simp only [Fprod, h, hb, add_zero]
      exact ih a

/-- disjointness of the low `t` bits -/
def disj (t a b : Nat) : Prop := ∀ i, i < t → ¬ (a.testBit i = true ∧ b.testBit i = true)
instance (t a b : Nat) : Decidable (disj t a b) := by unfold disj; exact Nat.decidableBallLT _ _

/-- the sign the wedge of two ordered products picks up -/
def wlow (t a b : Nat) : R := if disj t a b then sgn (swaps t a b) else 0

theorem disj_succ (t a b : Nat) : disj (t + 1) a b ↔ disj t a b ∧ ¬ (a.testBit t = true ∧ b.testBit t = true) := by
  unfold disj
  constructor
  · intro h; exact ⟨fun i hi => h i (Nat.lt_succ_of_lt hi), h t (Nat.lt_succ_self t)⟩
  · intro ⟨h1, h2⟩ i hi
    rcases Nat.lt_succ_iff_lt_or_eq.mp hi with hlt | heq
    · exact h1 i hlt
    · subst heq; exact h2

/-- **the core of the outermorphism law**, on ordered products -/
theorem wedge_Fprod_Fprod (f : Nat → CMV d R) (hf : ∀ i, IsHom d 1 (f i)) :
    ∀ t a b, wedge d (Fprod d f t a) (Fprod d f t b) = (wlow t a b : R) • Fprod d f t (a ^^^ b) := by
  intro t
  induction t with
  | zero => intro a b; simp [Fprod, wedge_one, wlow, disj, swaps, sgn]
  | succ t ih =>
    intro a b
    have hx : (a ^^^ b).testBit t = (a.testBit t ^^ b.testBit t) := Nat.testBit_xor a b t
    cases hA : a.testBit t <;> cases hB : b.testBit t
    · -- neither
      have hbit : bit a t = 0 := by simp [bit, hA]
      have hxt : (a ^^^ b).testBit t = false := by rw [hx, hA, hB]; rfl
      simp only [Fprod, hA, hB, hxt, Bool.false_eq_true, if_false]
      rw [ih a b]
      congr 1
      unfold wlow
      have hd : disj (t + 1) a b ↔ disj t a b := by rw [disj_succ]; simp [hA]
      by_cases hdt : disj t a b
      · rw [if_pos hdt, if_pos (hd.mpr hdt), swaps_succ, hbit, zero_mul, add_zero]
      · rw [if_neg hdt, if_neg (fun h => hdt (hd.mp h))]
    · -- only `b`
      have hbit : bit a t = 0 := by simp [bit, hA]
      have hxt : (a ^^^ b).testBit t = true := by rw [hx, hA, hB]; rfl
      simp only [Fprod, hA, hB, hxt, Bool.false_eq_true, if_false, if_true]
      rw [← wedge_assoc, ih a b, wedge_smul_left]
      congr 1
      unfold wlow
      have hd : disj (t + 1) a b ↔ disj t a b := by rw [disj_succ]; simp [hA]
      by_cases hdt : disj t a b
      · rw [if_pos hdt, if_pos (hd.mpr hdt), swaps_succ, hbit, zero_mul, add_zero]
      · rw [if_neg hdt, if_neg (fun h => hdt (hd.mp h))]
    · -- only `a`
      have hbit : bit a t = 1 := by simp [bit, hA]
      have hxt : (a ^^^ b).testBit t = true := by rw [hx, hA, hB]; rfl
      simp only [Fprod, hA, hB, hxt, Bool.false_eq_true, if_false, if_true]
      rw [wedge_assoc, wedge_vector_Fprod d f hf (f t) (hf t) t b, wedge_smul_right, ← wedge_assoc, ih a b, wedge_smul_left, smul_smul]
      congr 1
      unfold wlow
      have hd : disj (t + 1) a b ↔ disj t a b := by rw [disj_succ]; simp [hB]
      by_cases hdt : disj t a b
      · rw [if_pos hdt, if_pos (hd.mpr hdt), swaps_succ, hbit, one_mul, sgn_add, mul_comm]
      · rw [if_neg hdt, if_neg (fun h => hdt (hd.mp h)), mul_zero]
    · -- both contain `f t`: the repeated factor kills the product
      have hnd : ¬ disj (t + 1) a b := by rw [disj_succ]; intro h; exact h.2 ⟨hA, hB⟩
      simp only [Fprod, hA, hB, if_true, wlow, if_neg hnd, zero_smul]
      rw [wedge_assoc, ← wedge_assoc d (f t), wedge_vector_Fprod d f hf (f t) (hf t) t b, wedge_smul_left, wedge_assoc,
        wedge_self_vector d (f t) (hf t), wedge_zero_right, smul_zero, wedge_zero_right]

/-- for bitmaps below `2^m` the low-bit sign is the wedge sign of the source algebra -/
theorem wlow_eq_wsign (m a b : Nat) (ha : a < 2 ^ m) (hb : b < 2 ^ m) : (wlow m a b : R) = wsign m a b := by
  unfold wlow wsign
  have : disj m a b ↔ a &&& b = 0 := by
    rw [and_eq_zero_iff]
    unfold disj
    constructor
    · intro h i hab
      by_cases hi : i < m
      · exact h i hi hab
      · have : a < 2 ^ i := lt_of_lt_of_le ha (Nat.pow_le_pow_right (by decide) (by omega))
        rw [Nat.testBit_lt_two_pow this] at hab; exact absurd hab.1 (by simp)
    · intro h i _; exact h i
  by_cases h : disj m a b
  · rw [if_pos h, if_pos (this.mp h)]
  · rw [if_neg h, if_neg (fun h' => h (this.mpr h'))]

/-! ### the outermorphism on multivectors -/

/-- `OutermorphismMatrix.__call__`: the linear extension `A ↦ Σ_a A_a · F(a)` (column `a` of the full matrix is `F(a)`) -/
def omap (m : Nat) (f : Nat → CMV d R) (A : CMV m R) : CMV d R := ∑ a : Bm m, A a • Fprod d f m a.val

theorem omap_add (m : Nat) (f : Nat → CMV d R) (A B : CMV m R) : omap d m f (A + B) = omap d m f A + omap d m f B := by
  unfold omap; simp only [Pi.add_apply, add_smul, Finset.sum_add_distrib]
theorem omap_smul (m : Nat) (f : Nat → CMV d R) (q : R) (A : CMV m R) : omap d m f (q • A) = q • omap d m f A := by
  unfold omap; simp only [Pi.smul_apply, smul_eq_mul_R, Finset.smul_sum, smul_smul]

theorem omap_blade (m : Nat) (f : Nat → CMV d R) (a : Bm m) : omap d m f (blade m a) = Fprod d f m a.val := by
  unfold omap
  rw [Finset.sum_eq_single a]
  · simp [blade]
  · intro b _ hb; simp [blade, hb]
  · intro h; exact absurd (Finset.mem_univ _) h

/-- **`f(A ∧ B) = f(A) ∧ f(B)`** -/
theorem omap_wedge (m : Nat) (f : Nat → CMV d R) (hf : ∀ i, IsHom d 1 (f i)) (A B : CMV m R) :
    omap d m f (wedge m A B) = wedge d (omap d m f A) (omap d m f B) := by
  -- right side: expand both sums and use the ordered-product law
  have hR : wedge d (omap d m f A) (omap d m f B)
      = ∑ a : Bm m, ∑ b : Bm m, (A a * B b * wsign m a.val b.val) • Fprod d f m (fxor a b).val := by
    unfold omap
    rw [wedge_sum_left]
    refine Finset.sum_congr rfl (fun a _ => ?_)
    rw [wedge_sum_right]
    refine Finset.sum_congr rfl (fun b _ => ?_)
    rw [wedge_smul_left, wedge_smul_right, wedge_Fprod_Fprod d f hf m a.val b.val, wlow_eq_wsign m a.val b.val a.isLt b.isLt,
      smul_smul, smul_smul]
    congr 1 <;> ring
  rw [hR]
  -- left side: `wedge m A B c = Σ_a wsign(a, a^c) A_a B_(a^c)`; reindex `b = a ^ c`
  unfold omap
  simp only [wedge, tmul, Finset.sum_smul]
  rw [Finset.sum_comm]
  refine Finset.sum_congr rfl (fun a _ => ?_)
  rw [← (fxorEquiv a).sum_comp]
  refine Finset.sum_congr rfl (fun b _ => ?_)
  simp only [fxorEquiv, Equiv.coe_fn_mk, fxor_cancel]
  congr 1; ring

/-- `f(1) = 1` -/
theorem Fprod_zero (f : Nat → CMV d R) : ∀ t, Fprod d f t 0 = one d := by
  intro t; induction t with
  | zero => rfl
  | succ t ih => simp [Fprod, ih]

theorem omap_one (m : Nat) (f : Nat → CMV d R) : omap d m f (one m) = one d := by
  have : (one m : CMV m R) = blade m fzero := (blade_zero_eq_one m).symm
  rw [this, omap_blade]; exact Fprod_zero d f m

/-- the vector with bitmap `2^i` goes to `f i` -/
theorem Fprod_single (f : Nat → CMV d R) (i : Nat) : ∀ t, i < t → Fprod d f t (2 ^ i) = f i := by
  intro t
  induction t with
  | zero => intro h; omega
  | succ t ih =>
    intro h
    by_cases hit : i = t
    · subst hit
      have h0 : ∀ s, s ≤ i → Fprod d f s (2 ^ i) = one d := by
        intro s; induction s with
        | zero => intro _; rfl
        | succ s ihs =>
          intro hs
          have : (2 ^ i).testBit s = false := by rw [Nat.testBit_two_pow]; simp; omega
          simp [Fprod, this, ihs (by omega)]
      simp [Fprod, Nat.testBit_two_pow_self, h0 i (le_refl i), one_wedge]
    · have : (2 ^ i).testBit t = false := by rw [Nat.testBit_two_pow]; simp [hit]
      simp [Fprod, this, ih (by omega)]

theorem omap_vector (m : Nat) (f : Nat → CMV d R) (i : Nat) (hi : i < m) :
    omap d m f (blade m ⟨2 ^ i, Nat.pow_lt_pow_right (by decide) hi⟩) = f i := by
  rw [omap_blade]; exact Fprod_single d f i m hi

/-- grade preservation -/
theorem Fprod_hom (f : Nat → CMV d R) (hf : ∀ i, IsHom d 1 (f i)) : ∀ t a, IsHom d (pc t a) (Fprod d f t a) := by
  intro t
  induction t with
  | zero =>
    intro a c hc
    simp only [Fprod, one]
    rw [if_neg]; intro h; subst h; apply hc
    simp [pc, fzero, bit]
  | succ t ih =>
    intro a
    rw [pc_succ]
    by_cases h : a.testBit t
    · have hb : bit a t = 1 := by simp [bit, h]
      simp only [Fprod, h, if_true, hb]
      exact wedge_hom d (pc t a) 1 _ _ (ih a) (hf t)
    · have hb : bit a t = 0 := by simp [bit, h]
      simp only [Fprod, h, hb, add_zero]
      exact ih a

/-! ### composition -/

theorem omap_zero (m : Nat) (f : Nat → CMV d R) : omap d m f (0 : CMV m R) = 0 := by
  unfold omap; simp

theorem omap_sum {ι : Type} (m : Nat) (f : Nat → CMV d R) (S : Finset ι) (h : ι → CMV m R) :
    omap d m f (∑ a ∈ S, h a) = ∑ a ∈ S, omap d m f (h a) := by
  classical
  induction S using Finset.induction_on with
  | empty => simp [omap_zero]
  | insert x S hx ih => rw [Finset.sum_insert hx, Finset.sum_insert hx, omap_add, ih]

/-- an outermorphism maps ordered products of vectors to ordered products of their images -/
theorem omap_Fprod (m e : Nat) (f : Nat → CMV m R) (g : Nat → CMV e R) (hg : ∀ i, IsHom e 1 (g i)) :
    ∀ t a, omap e m g (Fprod m f t a) = Fprod e (fun i => omap e m g (f i)) t a := by
  intro t
  induction t with
  | zero => intro a; simp only [Fprod]; exact omap_one e m g
  | succ t ih =>
    intro a
    cases h : a.testBit t
    · simp only [Fprod, h, Bool.false_eq_true, if_false]; exact ih a
    · simp only [Fprod, h, if_true]
      rw [omap_wedge e m g hg, ih a]

/-- **composition**: applying the outermorphism of `g` after that of `f` is the outermorphism of the composed vector map
`i ↦ g(f(e_i))` (whose matrix is the product of the two vector matrices) -/
theorem omap_comp (k m e : Nat) (f : Nat → CMV m R) (g : Nat → CMV e R) (hg : ∀ i, IsHom e 1 (g i)) (A : CMV k R) :
    omap e m g (omap m k f A) = omap e k (fun i => omap e m g (f i)) A := by
  unfold omap
  have := omap_sum e m g (Finset.univ : Finset (Bm k)) (fun a => A a • Fprod m f k a.val)
  unfold omap at this
  rw [this]
  refine Finset.sum_congr rfl (fun a _ => ?_)
  have h2 := omap_smul e m g (A a) (Fprod m f k a.val)
  unfold omap at h2
  rw [h2]
  congr 1
  exact omap_Fprod m e f g hg k a.val
