import Proofs.ConfModel

/-! # C13 — rotor recovery in g3c: the algebraic core

`rotor_between_objects(X1, X2)` is a normalisation `k` of `C = 1 + γ X2 X1` (γ = X1² = ±1).  The theorem below is the
reason `R X1 ~R = ±X2`; PARTIAL: existence and choice of the root/normalisation (Dorst–Valkenburg square root, the
special-position branches), `motor_between_rounds`, the roots, logarithm/exponential pairs and interpolation are decided
by evaluation on the implementation over exactly representable objects in general and special position. -/

namespace C13
open Conf

variable {A : Type} [Ring A] [Algebra ℚ A]

/-- `C X1 = X2 C` for `C = 1 + γ X2 X1`, `X1² = X2² = γ`, `γ² = 1` -/
theorem intertwining (X1 X2 : A) (γ : ℚ) (hγ : γ * γ = 1) (h1 : X1 * X1 = γ • (1 : A)) (h2 : X2 * X2 = γ • (1 : A)) :
    (1 + γ • (X2 * X1)) * X1 = X2 * (1 + γ • (X2 * X1)) := Intertwine.rotor_between_intertwines X1 X2 γ hγ h1 h2

/-- hence if `R = k C` has a two-sided inverse `Rinv` then `R X1 R⁻¹ = X2` -/
theorem rotor_carries (X1 X2 k Rinv : A) (γ : ℚ) (hγ : γ * γ = 1) (h1 : X1 * X1 = γ • (1 : A)) (h2 : X2 * X2 = γ • (1 : A))
    (hk : k * X2 = X2 * k) (hinv : (k * (1 + γ • (X2 * X1))) * Rinv = 1) :
    (k * (1 + γ • (X2 * X1))) * X1 * Rinv = X2 := by
  have hC := intertwining X1 X2 γ hγ h1 h2
  calc (k * (1 + γ • (X2 * X1))) * X1 * Rinv = k * ((1 + γ • (X2 * X1)) * X1) * Rinv := by simp only [mul_assoc]
    _ = k * (X2 * (1 + γ • (X2 * X1))) * Rinv := by rw [hC]
    _ = X2 * ((k * (1 + γ • (X2 * X1))) * Rinv) := by rw [← mul_assoc k X2, hk]; simp only [mul_assoc]
    _ = X2 := by rw [hinv, mul_one]

/-- a translation motor fixes `einf` -/
theorem translation_fixes_einf {x a ep en : A} {qx qa b : ℚ} (r : Rel2 x a ep en qx qa b) :
    transl a ep en * einf ep en * translRev a ep en = einf ep en := transl_fixes_einf r

end C13
