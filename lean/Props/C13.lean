import Proofs.ConfModel
import Proofs.Polar
import Proofs.SigmaForm
import Proofs.GaLog
import Proofs.GaExpModel

/-! # C13 — rotor recovery in g3c: the algebraic core

`rotor_between_objects(X1, X2)` is a normalisation of `C = 1 + γ X2 X1` (γ = X1² = ±1) by the Dorst–Valkenburg polar
decomposition: `σ = C ~C = s + q` (scalar plus a 4-vector with scalar square `t`), `n = ‖σ‖` (`n² = s² − t`), and the code
multiplies by `k̄ = (s+n) − q` and normalises.  With the square roots as parameters constrained by their defining equations
the theorems below give: `R ~R = 1` and `R X1 ~R = X2` in the positive-root branch; `R ~R = ε`, `R X1 ~R = ε X2` (`ε = ±1`)
when `σ` is a scalar (the 'infinite roots' branch); `positive_root(σ)² = σ`; and `square_roots_of_rotor(R)² = R`.
PARTIAL: that `σ` has the form `s + q` with `q²` scalar for the objects of g3c, the choice between the branches in floating
point, `motor_between_rounds`, logarithm/exponential pairs and interpolation are decided by evaluation on the implementation
over exactly representable objects in general and special position. -/

namespace C13
open Conf

variable {A : Type} [Ring A] [Algebra ℚ A]

/-- `C X1 = X2 C` for `C = 1 + γ X2 X1`, `X1² = X2² = γ`, `γ² = 1` -/
theorem intertwining (X1 X2 : A) (γ : ℚ) (hγ : γ * γ = 1) (h1 : X1 * X1 = γ • (1 : A)) (h2 : X2 * X2 = γ • (1 : A)) :
    (1 + γ • (X2 * X1)) * X1 = X2 * (1 + γ • (X2 * X1)) := Intertwine.rotor_between_intertwines X1 X2 γ hγ h1 h2

/-- hence if `R = k C` has a two-sided inverse `Rinv` then `R X1 R⁻¹ = X2` -/
theorem rotor_carries (X1 X2 k Rinv : A) (γ : ℚ) (hγ : γ * γ = 1) (h1 : X1 * X1 = γ • (1 : A)) (h2 : X2 * X2 = γ • (1 : A))
    (hk : k * X2 = X2 * k) (hinv : (k * (1 + γ • (X2 * X1))) * Rinv = 1) :
    (k * (1 + γ • (X2 * X1))) * X1 * Rinv = X2 := by
  have hC := intertwining X1 X2 γ hγ h1 h2
  calc (k * (1 + γ • (X2 * X1))) * X1 * Rinv = k * ((1 + γ • (X2 * X1)) * X1) * Rinv := by simp only [mul_assoc]
    _ = k * (X2 * (1 + γ • (X2 * X1))) * Rinv := by rw [hC]
    _ = X2 * ((k * (1 + γ • (X2 * X1))) * Rinv) := by rw [← mul_assoc k X2, hk]; simp only [mul_assoc]
    _ = X2 := by rw [hinv, mul_one]

/-- a translation motor fixes `einf` -/
theorem translation_fixes_einf {x a ep en : A} {qx qa b : ℚ} (r : Rel2 x a ep en qx qa b) :
    transl a ep en * einf ep en * translRev a ep en = einf ep en := transl_fixes_einf r

/-- **positive-root branch**: `R = κ k̄ C` is a unit versor carrying `X1` to `X2` -/
theorem rotor_between_objects_positive_root (X1 X2 q : A) (γ s t n κ : ℚ) (hγ : γ * γ = 1) (h1 : X1 * X1 = γ • (1 : A))
    (h2 : X2 * X2 = γ • (1 : A)) (hσ : (1 + γ • (X2 * X1)) * (1 + γ • (X1 * X2)) = s • (1 : A) + q) (hq : q * q = t • (1 : A))
    (hn : n * n = s * s - t) (hκ : κ * κ * (2 * (s + n) * (n * n)) = 1) :
    (κ • (((s + n) • (1 : A) - q) * (1 + γ • (X2 * X1)))) * (κ • ((1 + γ • (X1 * X2)) * ((s + n) • (1 : A) - q))) = 1
    ∧ (κ • (((s + n) • (1 : A) - q) * (1 + γ • (X2 * X1)))) * X1 * (κ • ((1 + γ • (X1 * X2)) * ((s + n) • (1 : A) - q))) = X2 :=
  Polar.polar_rotor_between X1 X2 q γ s t n κ hγ h1 h2 hσ hq hn hκ

/-- **scalar `σ`** (`k = 1`, `R = C.normal()`; negative `σ` is the case of coplanar disjoint / nested opposite rounds):
    `R ~R = ε`, `R X1 ~R = ε X2` with `ε = κ² s = ±1` -/
theorem rotor_between_objects_scalar_sigma (X1 X2 : A) (γ s κ ε : ℚ) (hγ : γ * γ = 1) (h1 : X1 * X1 = γ • (1 : A))
    (h2 : X2 * X2 = γ • (1 : A)) (hσ : (1 + γ • (X2 * X1)) * (1 + γ • (X1 * X2)) = s • (1 : A)) (hκ : κ * κ * s = ε) :
    (κ • (1 + γ • (X2 * X1))) * (κ • (1 + γ • (X1 * X2))) = ε • (1 : A)
    ∧ (κ • (1 + γ • (X2 * X1))) * X1 * (κ • (1 + γ • (X1 * X2))) = ε • X2 :=
  Polar.scalar_sigma_rotor X1 X2 _ _ s κ ε hσ (Intertwine.rotor_between_intertwines X1 X2 γ hγ h1 h2) hκ

/-- `positive_root(σ)² = σ` -/
theorem positive_root_squares (q : A) (s t n dinv : ℚ) (hq : q * q = t • (1 : A)) (hn : n * n = s * s - t)
    (hd : dinv * dinv * (2 * (s + n)) = 1) :
    (dinv • ((s • (1 : A) + q) + n • (1 : A))) * (dinv • ((s • (1 : A) + q) + n • (1 : A))) = s • (1 : A) + q :=
  Polar.positive_root_sq q s t n dinv hq hn hd

/-- **`square_roots_of_rotor(R)[0]² = R`** for a unit rotor `R` -/
theorem square_root_of_rotor (R Rrev q : A) (s t n κ : ℚ) (hR : R * Rrev = 1) (hR' : Rrev * R = 1)
    (hσ : (1 + R) * (1 + Rrev) = s • (1 : A) + q) (hq : q * q = t • (1 : A))
    (hn : n * n = s * s - t) (hκ : κ * κ * (2 * (s + n) * (n * n)) = 1) :
    (κ • (((s + n) • (1 : A) - q) * (1 + R))) * (κ • (((s + n) • (1 : A) - q) * (1 + R))) = R :=
  Polar.sqrt_rotor R Rrev q s t n κ hR hR' hσ hq hn hκ


/-! ### g3c: the hypotheses of the positive-root branch hold for every pair of same-grade blades of Cl(4,1)

`σ = C ~C` is its scalar part plus its grade-4 part, and the grade-4 part (a pseudovector of the 5-dimensional algebra) squares to a
scalar — for any signature `sig` on five generators, any grade `g`, any `X1`, `X2` homogeneous of grade `g` with `X1² = X2² = γ = ±1`. -/
section G3c
variable {sig : Nat → ℚ}

theorem sigma_is_scalar_plus_pseudovector (g : Nat) (γ : ℚ) (hγ : γ * γ = 1) (X1 X2 : Cl 5 sig) (h1 : IsHom 5 g X1) (h2 : IsHom 5 g X2)
    (hs1 : X1 * X1 = γ • (1 : Cl 5 sig)) (hs2 : X2 * X2 = γ • (1 : Cl 5 sig)) :
    let σ : Cl 5 sig := (1 + γ • (X2 * X1)) * (1 + γ • (X1 * X2))
    let q : Cl 5 sig := asCl (gpart 5 4 σ)
    σ = (σ fzero) • (1 : Cl 5 sig) + q ∧ IsHom 5 4 q ∧ q * q = ((q * q) fzero) • (1 : Cl 5 sig) :=
  sigma_form (fun r hr => by linarith) g γ hγ X1 X2 h1 h2 hs1 hs2

/-- `~(X1 X2) = X2 X1`, so `1 + γ X1 X2` is the reverse of `C = 1 + γ X2 X1` -/
theorem reverse_of_C (g : Nat) (X1 X2 : CMV 5 ℚ) (h1 : IsHom 5 g X1) (h2 : IsHom 5 g X2) :
    rev 5 (gmul 5 sig X2 X1) = gmul 5 sig X1 X2 := rev_same_grade_product g X2 X1 h2 h1

/-- **the positive-root branch for g3c objects, without structural hypotheses on `σ`**: with `s = ⟨σ⟩₀`, `t = ⟨q²⟩₀`, `n² = s² − t`,
    `κ²·2(s+n)n² = 1`, the rotor `R = κ (s + n − q) C` is a unit versor carrying `X1` to `X2` -/
theorem rotor_between_objects_g3c (g : Nat) (γ : ℚ) (hγ : γ * γ = 1) (X1 X2 : Cl 5 sig) (h1 : IsHom 5 g X1) (h2 : IsHom 5 g X2)
    (hs1 : X1 * X1 = γ • (1 : Cl 5 sig)) (hs2 : X2 * X2 = γ • (1 : Cl 5 sig)) (n κ : ℚ) :
    let σ : Cl 5 sig := (1 + γ • (X2 * X1)) * (1 + γ • (X1 * X2))
    let q : Cl 5 sig := asCl (gpart 5 4 σ)
    let s : ℚ := σ fzero
    let t : ℚ := (q * q) fzero
    n * n = s * s - t → κ * κ * (2 * (s + n) * (n * n)) = 1 →
    (κ • (((s + n) • (1 : Cl 5 sig) - q) * (1 + γ • (X2 * X1)))) * (κ • ((1 + γ • (X1 * X2)) * ((s + n) • (1 : Cl 5 sig) - q))) = 1
    ∧ (κ • (((s + n) • (1 : Cl 5 sig) - q) * (1 + γ • (X2 * X1)))) * X1 * (κ • ((1 + γ • (X1 * X2)) * ((s + n) • (1 : Cl 5 sig) - q))) = X2 := by
  intro σ q s t hn hκ
  obtain ⟨hσ, _, hq⟩ := sigma_is_scalar_plus_pseudovector g γ hγ X1 X2 h1 h2 hs1 hs2
  exact rotor_between_objects_positive_root X1 X2 q γ s t n κ hγ hs1 hs2 hσ hq hn hκ

end G3c

/-- non-vacuity: the constraints on the parameters are satisfiable with `t ≠ 0` (`s = 5/4`, `t = 9/16`, `n = 1`, `μ = 9/2`, `κ = √2/3`
    is irrational, so the instance below uses `s = 17/8`, `t = 225/64`, `n = 1`: `μ = 2·(25/8)·1 = 25/4`, `κ = 2/5`) -/
example : ((1 : ℚ) * 1 = (17/8) * (17/8) - 225/64) ∧ ((2/5 : ℚ) * (2/5) * (2 * (17/8 + 1) * (1 * 1)) = 1) := by norm_num

/-! ### `ga_log` undoes `ga_exp` (rotation–translation rotors of g3c) -/
section GaLogSec
open Ship Quat GaExp

variable {A : Type} [Ring A] [Algebra ℚ A] {e : Fin 5 → A} {sig : Fin 5 → ℚ}

/-- **`ga_log(ga_exp(B)) = B`, algebraic skeleton (partial)**: for every rotation–translation bivector of g3c
    (`B = φP + (tn + tp)·ninf`, unit axis, `P = a·e123`, `ep = e4`), feeding the grade parts of the closed form
    `R = (c + sP)(1 + tn ninf) + σ tp ninf` — `R₂ = sP + c·tn ninf + σ·tp ninf`, `R₄ = s·P tn ninf`, and `⟨phiP R₂⟩₂ = φσ·P tp ninf` —
    into the formulas of `extractRotorComponents` (`phiP = ((R₂ ninf)|ep)/sinc`, `t_normal_n = −phiP R₄/(φ² sinc)`,
    `t_perpendicular_n = −phiP⟨phiP R₂⟩₂/(φ² sinc)`) returns `B`, whenever `φ ≠ 0`, `σ ≠ 0`, `s = σφ` (`sin φ = sinc φ · φ`).
    PARTIAL: that those three elements are the grade parts the code reads with `R(2)`, `R(4)`, `(…)(2)` (`P tn ninf` is a 4-vector,
    `P tp ninf` a bivector) and that `arccos(R[()])` returns `φ` are evaluated on the implementation, not proved. -/
theorem ga_log_inverts_ga_exp_partial (G : Gens e sig) (h0 : sig 0 = 1) (h1 : sig 1 = 1) (h2 : sig 2 = 1) (h3 : sig 3 = 1) (h4 : sig 4 = -1)
    (a1 a2 a3 t1 t2 t3 φ c s σ : ℚ) (ha : a1 ^ 2 + a2 ^ 2 + a3 ^ 2 = 1) (hφ : φ ≠ 0) (hσ : σ ≠ 0) (hs : s = σ * φ) :
    let P := Pl e a1 a2 a3; let n := ninf e; let tn := tnor e a1 a2 a3 t1 t2 t3; let tp := tpar e a1 a2 a3 t1 t2 t3
    (1 / σ) • ((1/2 : ℚ) • (((s • P + c • (tn * n) + σ • (tp * n)) * n) * e 3 + e 3 * ((s • P + c • (tn * n) + σ • (tp * n)) * n)))
      + (-(1 / (φ ^ 2 * σ))) • ((φ • P) * (s • (P * (tn * n))))
      + (-(1 / (φ ^ 2 * σ))) • ((φ • P) * ((φ * σ) • (P * (tp * n))))
      = φ • P + vec3 e t1 t2 t3 * n := by
  intro P n tn tp
  have ht : vec3 e t1 t2 t3 = tn + tp := by simp only [tn, tp, tpar]; abel
  rw [ht]
  exact GaLog.log_of_closed_form P n tn tp (e 3) φ c s σ (Pl_sq G h0 h1 h2 h3 h4 a1 a2 a3 ha) (ninf_sq G h0 h1 h2 h3 h4 a1 a2 a3 ha)
    (Pl_ninf G h0 h1 h2 h3 h4 a1 a2 a3 ha) (tnor_ninf G h0 h1 h2 h3 h4 a1 a2 a3 t1 t2 t3 ha) (tpar_ninf G h0 h1 h2 h3 h4 a1 a2 a3 t1 t2 t3 ha)
    (Pl_tnor G h0 h1 h2 h3 h4 a1 a2 a3 t1 t2 t3 ha) (Pl_tpar G h0 h1 h2 h3 h4 a1 a2 a3 t1 t2 t3 ha)
    (Pl_ep G h0 h1 h2 h3 h4 a1 a2 a3 ha) (ninf_ep G h0 h1 h2 h3 h4 a1 a2 a3 ha) hφ hσ hs

end GaLogSec

end C13
