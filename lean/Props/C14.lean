import Proofs.ConfModel
import Proofs.CgaObj
import Proofs.WedgeList

/-! # C14 — CGA object layer

Operators from the defining relations of the conformal model (any ℚ-algebra: every base dimension and signature at once),
objects through points in the canonical model (any commutative ring, any dimension).

PARTIAL: the exponentials enter as `a + b E0` with `a² − b² = 1` (dilation; that the truncated series of `exp(t E0)` is close to
`cosh t + sinh t E0` is C16 + libm) and as "any polynomial in B" (rotation); `R ~R = 1` for the rotation rotor is analytic and
evaluated on the implementation; `dim` and the class bookkeeping of `__call__` are evaluated on the implementation. -/

namespace C14
open Conf

variable {A : Type} [Ring A] [Algebra ℚ A] {x a ep en : A} {qx qa b : ℚ}

/-- `translation(a)` is a unit rotor -/
theorem translation_unit (r : Rel2 x a ep en qx qa b) : transl a ep en * translRev a ep en = 1 := transl_unit r
/-- it maps the point of `x` to the point of `x + a` -/
theorem translation_moves_point (r : Rel2 x a ep en qx qa b) :
    transl a ep en * up x ep en qx * translRev a ep en = up (x + a) ep en (qx + qa + 2 * b) := transl_moves_point r
/-- and fixes `einf` (flats stay flats) -/
theorem translation_fixes_einf (r : Rel2 x a ep en qx qa b) :
    transl a ep en * einf ep en * translRev a ep en = einf ep en := transl_fixes_einf r
/-- an operator applied to an object acts by the versor product, and versor products compose -/
theorem versor_product_composes (R1 R2 R1r R2r M : A) : R2 * (R1 * M * R1r) * R2r = (R2 * R1) * M * (R1r * R2r) :=
  Intertwine.apply_rotor_compose R1 R2 R1r R2r M

/-! ## dilation -/

/-- `dilation(s)`: the versor `a + b E0` (`a² − b² = 1`; in the code `a = cosh t`, `b = sinh t`, `t = −ln(s)/2`) is a unit rotor … -/
theorem dilation_unit (r : Rel x ep en qx) (a' b' : ℚ) (h : (a' + b') * (a' - b') = 1) : dil a' b' ep en * dilRev a' b' ep en = 1 :=
  dil_is_unit r a' b' h
/-- … that maps the point of `x` to (a multiple of) the point of `s·x`, `s = (a − b)²` -/
theorem dilation_scales_point (r : Rel x ep en qx) (a' b' : ℚ) (h : (a' + b') * (a' - b') = 1) :
    dil a' b' ep en * up x ep en qx * dilRev a' b' ep en
      = ((a' + b') * (a' + b')) • up (((a' - b') * (a' - b')) • x) ep en (((a' - b') * (a' - b')) * ((a' - b') * (a' - b')) * qx) :=
  dil_up r a' b' h
/-- non-vacuity: `s = 1/4` is `a = 5/4`, `b = 3/4` -/
example : ((5/4 : ℚ) + 3/4) * (5/4 - 3/4) = 1 ∧ ((5/4 : ℚ) - 3/4) * (5/4 - 3/4) = 1/4 := by norm_num

/-! ## rotation -/

/-- a base-space bivector commutes with the two added basis vectors -/
theorem base_bivector_commutes_with_added {y : A} {qy : ℚ} (r : Rel x ep en qx) (ry : Rel y ep en qy) :
    Commute (x * y) ep ∧ Commute (x * y) en := base_bivector_commutes r ry
/-- `rotation(B)` — the coded exponential: truncated series of the scaled argument, squared back — commutes with whatever `B`
    commutes with … -/
theorem rotation_commutes (B Y : A) (h : Commute B Y) (c : ℚ) (N m : Nat) : Commute ((SeriesP.expTrunc N (c • B)) ^ m) Y :=
  exp_commutes B Y h c N m
/-- … in particular with `eo` and `einf` once it commutes with `ep`, `en` … -/
theorem commutes_with_eo_einf (R : A) (h1 : Commute R ep) (h2 : Commute R en) : Commute R (eo ep en) ∧ Commute R (einf ep en) :=
  commute_null_basis R h1 h2
/-- … and a unit versor fixes what it commutes with: `R eo ~R = eo`, `R einf ~R = einf` -/
theorem unit_versor_fixes (R Rrev Y : A) (h : Commute R Y) (hu : R * Rrev = 1) : R * Y * Rrev = Y := versor_fixes R Rrev Y h hu
/-- a unit versor is an isometry (it preserves `uv + vu = 2 u·v`) -/
theorem unit_versor_isometry (R Rrev u v : A) (hu : Rrev * R = 1) :
    (R * u * Rrev) * (R * v * Rrev) + (R * v * Rrev) * (R * u * Rrev) = R * (u * v + v * u) * Rrev := versor_isometry R Rrev u v hu

/-! ## transversion -/

/-- `transversion(a) = ep T ep` acts as inversion – translation – inversion -/
theorem transversion_is_inversion_translation_inversion (T Trev X : A) :
    (ep * T * ep) * X * (ep * Trev * ep) = ep * (T * (ep * X * ep) * Trev) * ep := transversion_is_conjugation T Trev X
theorem transversion_is_unit (T Trev : A) (hep : ep * ep = 1) (hT : T * Trev = 1) : (ep * T * ep) * (ep * Trev * ep) = 1 :=
  transversion_unit T Trev hep hT

/-! ## round from centre and radius -/

/-- the dual sphere `σ = up(c) − ½r² einf` squares to `r²` (`ρ = r²/2`) … -/
theorem round_radius (r : Rel x ep en qx) (ρ : ℚ) : dualSphere x ep en qx ρ * dualSphere x ep en qx ρ = (2 * ρ) • (1 : A) := dualSphere_sq r ρ
/-- … has `σ·einf = −1` (the normalisation in `Round.radius`) … -/
theorem round_normalisation (r : Rel x ep en qx) (ρ : ℚ) :
    (1/2 : ℚ) • (dualSphere x ep en qx ρ * einf ep en + einf ep en * dualSphere x ep en qx ρ) = -1 := dualSphere_dot_einf r ρ
/-- … and `mv einf mv` is a multiple of the centre's null vector, also through the duality `mv = λ σ J` -/
theorem round_centre (r : Rel x ep en qx) (ρ lam ε j : ℚ) (J : A) (hε : ε * ε = 1)
    (hJs : J * dualSphere x ep en qx ρ = ε • (dualSphere x ep en qx ρ * J)) (hJe : J * einf ep en = ε • (einf ep en * J))
    (hJ : J * J = j • (1 : A)) :
    (lam • (dualSphere x ep en qx ρ * J)) * einf ep en * (lam • (dualSphere x ep en qx ρ * J)) = (-2 * lam * lam * j) • up x ep en qx :=
  Conf.round_center r ρ lam ε j J hε hJs hJe hJ
/-- a point is on the round iff its squared distance to the centre is `r²` -/
theorem round_contains_iff_distance {y : A} {qy b' : ℚ} (r : Rel x ep en qx) (ry : Rel y ep en qy)
    (hxy : x * y + y * x = (2 * b') • (1 : A)) (ρ : ℚ) :
    (1/2 : ℚ) • (up y ep en qy * dualSphere x ep en qx ρ + dualSphere x ep en qx ρ * up y ep en qy)
      = (-(1/2 : ℚ) * ((qx + qy - 2 * b') - 2 * ρ)) • (1 : A) := point_on_round r ry hxy ρ

end C14

/-! ## rounds and flats through points (canonical model: any commutative ring, any dimension) -/
namespace C14
variable {R : Type} [CommRing R] (d : Nat)

/-- `round(p1..pk)` / `flat(p1..pk)` = `reduce(op, points [+ einf])`, normalised: its outer product with every defining
    vector (for flats also `einf`, which is in the list) vanishes -/
theorem object_contains_defining_points (c : R) (p : CMV d R) (ps : List (CMV d R)) (hp : IsHom d 1 p) (hps : ∀ v ∈ ps, IsHom d 1 v)
    (w : CMV d R) (hw : w = p ∨ w ∈ ps) : wedge d (c • wedgeList d p ps) w = 0 := wedgeList_contains_smul d c p ps hp hps w hw
/-- it is a blade of grade `k` (number of vectors wedged): `k` for rounds, `k + 1` for flats (the points and `einf`) -/
theorem object_grade (p : CMV d R) (ps : List (CMV d R)) (hp : IsHom d 1 p) (hps : ∀ v ∈ ps, IsHom d 1 v) :
    IsHom d (ps.length + 1) (wedgeList d p ps) := wedgeList_grade d p ps hp hps

end C14
