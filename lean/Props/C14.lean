import Proofs.ConfModel

/-! # C14 — CGA object layer: the translation operator (algebraic core)

PARTIAL: dilation/rotation/transversion (exponentials), rounds and flats through points, `dim`, and operator application
are decided by evaluation on the implementation for CGA(2), CGA(3), CGA(4). -/

namespace C14
open Conf

variable {A : Type} [Ring A] [Algebra ℚ A] {x a ep en : A} {qx qa b : ℚ}

/-- `translation(a)` is a unit rotor -/
theorem translation_unit (r : Rel2 x a ep en qx qa b) : transl a ep en * translRev a ep en = 1 := transl_unit r
/-- it maps the point of `x` to the point of `x + a` -/
theorem translation_moves_point (r : Rel2 x a ep en qx qa b) :
    transl a ep en * up x ep en qx * translRev a ep en = up (x + a) ep en (qx + qa + 2 * b) := transl_moves_point r
/-- and fixes `einf` (flats stay flats) -/
theorem translation_fixes_einf (r : Rel2 x a ep en qx qa b) :
    transl a ep en * einf ep en * translRev a ep en = einf ep en := transl_fixes_einf r
/-- an operator applied to an object acts by the versor product, and versor products compose -/
theorem versor_product_composes (R1 R2 R1r R2r M : A) : R2 * (R1 * M * R1r) * R2r = (R2 * R1) * M * (R1r * R2r) :=
  Intertwine.apply_rotor_compose R1 R2 R1r R2r M

end C14
