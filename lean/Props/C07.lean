import Proofs.Index

/-! # C07 — blade names, tuple/blade indexing and grade projection are mutually consistent -/

namespace C07
open Finset Model

/-- `M[(i1..ik)]`: for a duplicate-free tuple of known ids (given by their positions) the loop of
`tuple_as_sign_and_bitmap` returns the sign of the sorting permutation — `(-1)^(number of inversions)` —
and the bitmap with exactly those bits -/
theorem tuple_sign_is_sorting_parity (n : Nat) (ps : List Nat) (hp : ∀ p ∈ ps, p < n) (hnd : ps.Nodup) :
    ∃ out, Model.tupleLoop ps 1 0 = some ((-1 : Int) ^ invCount ∅ ps, out) ∧ IsBitmapOf out ps.toFinset :=
  tuple_sign_spec n ps hp hnd

/-- a repeated id raises `ValueError` -/
theorem tuple_repeated_id_error (ps : List Nat) (h : ¬ ps.Nodup) : Model.tupleLoop ps 1 0 = none :=
  tuple_dup_error ps h

variable {R : Type} [CommRing R] (n : Nat)

/-- write-then-read through a tuple key with sign `ε = ±1`: `M[t] = x; M[t]` gives `x`, other coefficients untouched -/
theorem setitem_getitem (A : CMV n R) (c : Bm n) (ε x : R) (hε : ε * ε = 1) :
    ε * (Function.update A c (ε * x)) c = x ∧ ∀ d, d ≠ c → (Function.update A c (ε * x)) d = A d := by
  refine ⟨?_, fun d hd => Function.update_of_ne hd _ _⟩
  rw [Function.update_self, ← mul_assoc, hε, one_mul]

/-- `M(g)` keeps exactly the grade-`g` coefficients -/
theorem call_keeps_grade (g : Nat) (A : CMV n R) (c : Bm n) :
    gpart n g A c = if pc n c.val = g then A c else 0 := gpart_apply n g A c
/-- `M(g) = 0` for `g` beyond the dimension -/
theorem call_beyond_dimension (g : Nat) (hg : n < g) (A : CMV n R) : gpart n g A = 0 := gpart_zero_of_gt n g hg A
/-- the projections over all grades sum to `M` -/
theorem projections_sum (A : CMV n R) : ∑ g ∈ range (n + 1), gpart n g A = A := sum_gpart n A
/-- projections are orthogonal idempotents -/
theorem projection_idempotent (g h : Nat) (A : CMV n R) :
    gpart n g (gpart n h A) = if g = h then gpart n g A else 0 := gpart_gpart n g h A
theorem projection_additive (g : Nat) (A B : CMV n R) : gpart n g (A + B) = gpart n g A + gpart n g B := gpart_add n g A B

/-- `metric = diag(signature)`: `(e_i | e_j)[()]` -/
theorem metric_is_diag_sig (sig : Nat → R) (i j : Nat) (hi : i < n) (hj : j < n) :
    mmul n sig imtCheck (Cl.e i hi : Cl n sig) (Cl.e j hj : Cl n sig) fzero = if i = j then sig i else 0 :=
  metric_entry n sig i j hi hj

/-- non-vacuity: the tuple (2, 0, 1) of positions is duplicate-free with 2 inversions; (1, 0, 1) is rejected -/
example : (∃ out, Model.tupleLoop [2, 0, 1] 1 0 = some ((-1 : Int) ^ 2, out) ∧ IsBitmapOf out {2, 0, 1})
    ∧ Model.tupleLoop [1, 0, 1] 1 0 = none := by
  refine ⟨?_, tuple_dup_error _ (by decide)⟩
  have h := tuple_sign_spec 3 [2, 0, 1] (by decide) (by decide)
  have e : invCount ∅ [2, 0, 1] = 2 := by decide
  rw [e] at h
  simpa using h

end C07
