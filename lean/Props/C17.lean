import Model.Store

/-! # C17 — operations are pure and deterministic; seeded randomness is reproducible

The store model (`Model/Store.lean`): arrays with identities; catalogue operations allocate a fresh result and
read their operands; the documented mutators write into their target only.  The harness replays random
histories on the implementation (byte snapshots of every operand, layout constant and module constant, and
`np.shares_memory` on every result) and compares, step by step, *which* arrays changed and *whether* the
result is fresh with this model. -/

namespace C17
open Store

/-- no operator, product, involution, inverse, projection, transformation or tool function changes an existing array -/
theorem pure_op_preserves (h : Heap) (args : List Addr) (a : Addr) (ha : a < h.length) :
    (step h (.pure args)).1.getD a 0 = h.getD a 0 := step_pure_preserves h args a ha

/-- results never share memory with operands or constants: the result lives at a fresh address -/
theorem pure_op_fresh (h : Heap) (args : List Addr) :
    (step h (.pure args)).2 = h.length ∧ ∀ a, a < h.length → a ≠ (step h (.pure args)).2 := step_pure_fresh h args

/-- only the documented mutators modify a multivector, and only their target -/
theorem mutator_touches_target_only (h : Heap) (t a : Addr) (hne : a ≠ t) :
    (step h (.mutate t)).1.getD a 0 = h.getD a 0 := step_mutate_other h t a hne

/-- over every history (any length): an array that is never a mutator target keeps its contents -/
theorem history_preserves (ops : List Op) (h : Heap) (a : Addr) (ha : a < h.length) (hnt : a ∉ targets ops) :
    (run h ops).getD a 0 = h.getD a 0 := run_preserves ops h a ha hnt

/-- generators: the same generator state gives the same output … -/
theorem rng_reproducible (k n : Nat) (g g' : Rng) (h : g = g') : drawMany k n g = drawMany k n g' := draw_reproducible k n g g' h
/-- … and a request for several samples is the same as that many single requests in sequence -/
theorem rng_many_is_sequential (k n : Nat) (g : Rng) :
    drawMany k (n + 1) g = ((drawOne k g).1 :: (drawMany k n (drawOne k g).2).1, (drawMany k n (drawOne k g).2).2) := drawMany_succ k n g
theorem rng_consumption (k n : Nat) (g : Rng) : (drawMany k n g).2.pos = g.pos + n * k := drawMany_pos k n g

/-- non-vacuity: a history with two mutations; array 1 is never targeted -/
example : (run [0, 0, 0] [.pure [0, 1], .mutate 2, .pure [3, 3], .mutate 0]).getD 1 0 = 0 :=
  history_preserves _ _ 1 (by decide) (by decide)

end C17
