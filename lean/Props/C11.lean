import Proofs.Linear
import Proofs.Ring
import Model.Transform

/-! # C11 — linear transformations: function/rotor matrices, adjoint, composition

`LinearMatrix` is a matrix acting on coefficient vectors by left multiplication (`matrix @ mv.value`).
The outermorphism construction `_make_outermorphism` is modelled executably in `Model/Transform.lean`
and compared with the implementation; its algebraic laws (`f(A∧B) = f(A)∧f(B)`, composition, `f(I) = det m · I`)
are not yet theorems (see PENDING in the evidence). -/

namespace C11
open Matrix

variable {R : Type} [CommRing R] {m n k : Type} [Fintype m] [Fintype n] [Fintype k] [DecidableEq n] [DecidableEq m]

/-- `adjoint`: `⟨f(a), b⟩ = ⟨a, adj(b)⟩` for the coefficient dot product -/
theorem adjoint_dot (M : Matrix m n R) (a : n → R) (b : m → R) : (M *ᵥ a) ⬝ᵥ b = a ⬝ᵥ (Mᵀ *ᵥ b) := Linear.adjoint_dot M a b

/-- composition is the product matrix -/
theorem compose (M2 : Matrix k m R) (M1 : Matrix m n R) (a : n → R) : (M2 * M1) *ᵥ a = M2 *ᵥ (M1 *ᵥ a) := Linear.compose M2 M1 a

/-- `from_function(g, src, dst)` (images as columns) agrees with `g` on every basis blade of `src`, any sizes -/
theorem from_function_on_blades (g : (n → R) → (m → R)) (c : n) :
    (Matrix.of fun r c' => g (Pi.single c' 1) r) *ᵥ (Pi.single c 1) = g (Pi.single c 1) := Linear.from_function_on_blades g c

/-- and is the linear map itself when `g` is linear -/
theorem from_function_linear (g : (n → R) →ₗ[R] (m → R)) (a : n → R) : (LinearMap.toMatrix' g) *ᵥ a = g a :=
  Linear.from_function_linear g a

theorem apply_add (M : Matrix m n R) (a b : n → R) : M *ᵥ (a + b) = M *ᵥ a + M *ᵥ b := Linear.apply_add M a b
theorem apply_smul (M : Matrix m n R) (q : R) (a : n → R) : M *ᵥ (q • a) = q • (M *ᵥ a) := Linear.apply_smul M q a

/-- `from_rotor(R)`: the generating function `x ↦ R x ~R / (R~R)` is linear (so `from_function` reproduces it exactly) -/
theorem from_rotor_linear {N : Nat} {sig : Nat → R} (Rt Rrev : Cl N sig) (dinv : R) (x y : Cl N sig) (q : R) :
    dinv • (Rt * (x + y) * Rrev) = dinv • (Rt * x * Rrev) + dinv • (Rt * y * Rrev)
    ∧ dinv • (Rt * (q • x) * Rrev) = q • (dinv • (Rt * x * Rrev)) := by
  constructor
  · rw [mul_add, add_mul, smul_add]
  · rw [Cl.mul_smul', Cl.smul_mul', smul_comm]

/-- non-vacuity: a 2×2 example of the adjoint identity over ℤ -/
example : (!![1, 2; 3, 4] *ᵥ ![1, 0]) ⬝ᵥ ![0, 1] = ![1, 0] ⬝ᵥ ((!![1, 2; 3, 4] : Matrix (Fin 2) (Fin 2) ℤ)ᵀ *ᵥ ![0, 1]) :=
  adjoint_dot _ _ _

end C11
