import Proofs.Functor
import Proofs.Linear
import Proofs.Outer
import Proofs.Ring
import Model.Transform
import Proofs.Det
import Proofs.OutExec

/-! # C11 — linear transformations: function/rotor matrices, adjoint, composition

`LinearMatrix` is a matrix acting on coefficient vectors by left multiplication (`matrix @ mv.value`).
The outermorphism: `f i` is the image of the `i`-th source basis vector, `Fprod d f t a` the ordered wedge of the images
of the set bits of `a` (the same left fold as `_make_outermorphism`), `omap d m f` its linear extension — what
`OutermorphismMatrix.__call__` computes.  `f(I) = det(m)·I` is `outer_pseudoscalar` (the implementation). -/

namespace C11
open Matrix

variable {R : Type} [CommRing R] {m n k : Type} [Fintype m] [Fintype n] [Fintype k] [DecidableEq n] [DecidableEq m]

/-- `adjoint`: `⟨f(a), b⟩ = ⟨a, adj(b)⟩` for the coefficient dot product -/
theorem adjoint_dot (M : Matrix m n R) (a : n → R) (b : m → R) : (M *ᵥ a) ⬝ᵥ b = a ⬝ᵥ (Mᵀ *ᵥ b) := Linear.adjoint_dot M a b

/-- composition is the product matrix -/
theorem compose (M2 : Matrix k m R) (M1 : Matrix m n R) (a : n → R) : (M2 * M1) *ᵥ a = M2 *ᵥ (M1 *ᵥ a) := Linear.compose M2 M1 a

/-- `from_function(g, src, dst)` (images as columns) agrees with `g` on every basis blade of `src`, any sizes -/
theorem from_function_on_blades (g : (n → R) → (m → R)) (c : n) :
    (Matrix.of fun r c' => g (Pi.single c' 1) r) *ᵥ (Pi.single c 1) = g (Pi.single c 1) := Linear.from_function_on_blades g c

/-- and is the linear map itself when `g` is linear -/
theorem from_function_linear (g : (n → R) →ₗ[R] (m → R)) (a : n → R) : (LinearMap.toMatrix' g) *ᵥ a = g a :=
  Linear.from_function_linear g a

theorem apply_add (M : Matrix m n R) (a b : n → R) : M *ᵥ (a + b) = M *ᵥ a + M *ᵥ b := Linear.apply_add M a b
theorem apply_smul (M : Matrix m n R) (q : R) (a : n → R) : M *ᵥ (q • a) = q • (M *ᵥ a) := Linear.apply_smul M q a

/-- `from_rotor(R)`: the generating function `x ↦ R x ~R / (R~R)` is linear (so `from_function` reproduces it exactly) -/
theorem from_rotor_linear {N : Nat} {sig : Nat → R} (Rt Rrev : Cl N sig) (dinv : R) (x y : Cl N sig) (q : R) :
    dinv • (Rt * (x + y) * Rrev) = dinv • (Rt * x * Rrev) + dinv • (Rt * y * Rrev)
    ∧ dinv • (Rt * (q • x) * Rrev) = q • (dinv • (Rt * x * Rrev)) := by
  constructor
  · rw [mul_add, add_mul, smul_add]
  · rw [Cl.mul_smul', Cl.smul_mul', smul_comm]

/-! ### outermorphism laws (any commutative ring, any source / destination dimensions) -/

variable (d : Nat)

/-- `f(A ∧ B) = f(A) ∧ f(B)` for all multivectors -/
theorem outer_wedge (m' : Nat) (f : Nat → CMV d R) (hf : ∀ i, IsHom d 1 (f i)) (A B : CMV m' R) :
    omap d m' f (wedge m' A B) = wedge d (omap d m' f A) (omap d m' f B) := omap_wedge d m' f hf A B
/-- `f(1) = 1` -/
theorem outer_one (m' : Nat) (f : Nat → CMV d R) : omap d m' f (one m') = one d := omap_one d m' f
/-- the `i`-th basis vector goes to the `i`-th column of the vector matrix -/
theorem outer_vector (m' : Nat) (f : Nat → CMV d R) (i : Nat) (hi : i < m') :
    omap d m' f (blade m' ⟨2 ^ i, Nat.pow_lt_pow_right (by decide) hi⟩) = f i := omap_vector d m' f i hi
/-- linear -/
theorem outer_add (m' : Nat) (f : Nat → CMV d R) (A B : CMV m' R) : omap d m' f (A + B) = omap d m' f A + omap d m' f B := omap_add d m' f A B
theorem outer_smul (m' : Nat) (f : Nat → CMV d R) (q : R) (A : CMV m' R) : omap d m' f (q • A) = q • omap d m' f A := omap_smul d m' f q A
/-- grade preserving: the image of a basis blade of grade `g` is homogeneous of grade `g` -/
theorem outer_grade (f : Nat → CMV d R) (hf : ∀ i, IsHom d 1 (f i)) (t a : Nat) : IsHom d (pc t a) (Fprod d f t a) := Fprod_hom d f hf t a
/-- composition: `f_g ∘ f_f` is the outermorphism of the composed vector map (matrix product `m2 @ m1`) -/
theorem outer_compose (k' m' e : Nat) (f : Nat → CMV m' R) (g : Nat → CMV e R) (hg : ∀ i, IsHom e 1 (g i)) (A : CMV k' R) :
    omap e m' g (omap m' k' f A) = omap e k' (fun i => omap e m' g (f i)) A := omap_comp k' m' e f g hg A

/-- **`f(I) = det(m)·I`**: the outermorphism of the vector map whose `i`-th image has coordinates `v i` (column `i` of the
    matrix) sends the pseudoscalar to `det • I` — the ordered outer product of `d` vectors in `d` dimensions is an alternating
    multilinear form, hence its value on the basis (1) times the determinant -/
theorem outer_pseudoscalar {d : Nat} (v : Fin d → (Fin d → R)) :
    omap d d (fun i => if h : i < d then DetW.vec (v ⟨i, h⟩) else 0) (blade d (full d)) = (Matrix.of v).det • blade d (full d) :=
  DetW.omap_pseudoscalar v

/-- **the executable `_make_outermorphism` computes this outermorphism** (`Proofs/OutExec.lean`): the two passes of the code
    (fill the vector columns; for every other source blade fold `dst_omt_func` over `set_bit_indices`) give, in canonical
    coordinates of the destination, column `i` = `omap f (E_{σs i})`, for any storage orders of the two layouts -/
theorem executable_outermorphism_is_omap (Cs Cd : Model.Ctx) (M : Array (Array Rat)) (ms d : Nat) (σs : Equiv.Perm (Bm ms)) (σd : Equiv.Perm (Bm d))
    (hsdims : Cs.L.dims = ms) (hsga : Cs.dims = 2 ^ ms)
    (hs1 : ∀ i : Bm ms, Cs.L.i2bF i.val = (σs i).val) (hs2 : ∀ c : Bm ms, Cs.L.b2iF c.val = (σs.symm c).val)
    (hsg : ∀ i : Bm ms, Cs.L.gradeF i.val = pc ms (σs i).val)
    (hddims : Cd.dims = 2 ^ d) (homt : Cd.omt = Cd.L.omt)
    (hd1 : ∀ i : Bm d, Cd.L.i2bF i.val = (σd i).val) (hd2 : ∀ c : Bm d, Cd.L.b2iF c.val = (σd.symm c).val)
    (hdg : ∀ i : Bm d, Cd.L.gradeF i.val = pc d (σd i).val) (i : Bm ms) :
    OutExec.canon Cd d ((Model.makeOutermorphism Cs Cd M).getD i.val Cd.zero)
      = omap d ms (fun vs => OutExec.canon Cd d (OutExec.vecCol Cd M vs)) (blade ms (σs i)) :=
  OutExec.executable_outermorphism Cs Cd M ms d σs σd hsdims hsga hs1 hs2 hsg hddims homt hd1 hd2 hdg i

/-- non-vacuity: a 2×2 example of the adjoint identity over ℤ -/
example : (!![1, 2; 3, 4] *ᵥ ![1, 0]) ⬝ᵥ ![0, 1] = ![1, 0] ⬝ᵥ ((!![1, 2; 3, 4] : Matrix (Fin 2) (Fin 2) ℤ)ᵀ *ᵥ ![0, 1]) :=
  adjoint_dot _ _ _


/-! ### the canonical definition: the outermorphism is the exterior-algebra functor

With the zero signature the model is Mathlib's exterior algebra of `R^n` (C01, C02).  For a linear map `L : R^m → R^d`, `Cl.omapHom L` is the
coded outermorphism (`omap` with the images of the basis vectors as columns; it is an algebra homomorphism for the outer product), and it
equals `CliffordAlgebra.map L` — Mathlib's `Λ(L)`, defined by the universal property — under the two isomorphisms. -/
section Functor
variable {R : Type} [CommRing R]

theorem outermorphism_on_vectors {m d : Nat} (L : (Fin m → R) →ₗ[R] (Fin d → R)) (v : Fin m → R) :
    Cl.omapHom L (Cl.vec v : Cl m (Cl.Z (R := R) m)) = (Cl.vec (L v) : Cl d (Cl.Z (R := R) d)) := Cl.omapHom_vec L v

theorem outermorphism_is_exterior_functor {m d : Nat} (L : (Fin m → R) →ₗ[R] (Fin d → R)) (x : CliffordAlgebra (Cl.Q m (Cl.Z (R := R) m))) :
    Cl.fromMathlib (CliffordAlgebra.map (Cl.zeroIsometry L) x) = Cl.omapHom L (Cl.fromMathlib x) := Cl.fromMathlib_map L x

end Functor

end C11
