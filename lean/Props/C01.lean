import Proofs.Refine
import Proofs.Bridge
import Proofs.Cocycle
import Proofs.Alg
import Proofs.Gen
import Proofs.Ring
import Proofs.Lift
import Model.Table
import Proofs.Storage
import Proofs.KernelArr

/-! # C01 — the geometric product realises the Clifford algebra of the declared signature

Property theorems only (helpers live in `Proofs/`).  `R` is any commutative ring, `n` any
dimension, `sig : ℕ → R` any signature (zeros and entries other than ±1 included).
The chain is: code-shaped loops (`Model.reorderSwaps`, `Model.metricLoop`, `Model.bladeSign`)
= spec-level sign `s` → 2-cocycle → the sign-twisted xor-convolution `gmul` is a unital
associative `R`-algebra satisfying the defining relations of the Clifford algebra. -/

namespace C01
open Finset Model

variable {R : Type} [CommRing R]

/-- the `while a != 0` loop of `canonical_reordering_sign_euclidean` counts the pairs `(i, j)`,
`j < i`, with bit `i` of `a` and bit `j` of `b` set -/
theorem reorderSwaps_spec (n a b : Nat) (ha : a < 2^n) (hb : b < 2^n) :
    reorderSwaps a b = ∑ i ∈ range n, ∑ j ∈ range i, bit a i * bit b j :=
  _root_.reorderSwaps_spec n a b ha hb

/-- the `while bitmap != 0` loop of `canonical_reordering_sign` multiplies the accumulator by
`sig i` for every set bit `i` -/
theorem metricLoop_spec (sig : Nat → Int) (n m : Nat) (acc : Int) (hm : m < 2^n) :
    metricLoop sig m 0 acc = acc * ∏ k ∈ range n, (if m.testBit k then sig k else 1) := by
  have := _root_.metricLoop_spec sig n m 0 acc hm
  simpa using this

/-- the executable blade sign (what `gmt_element` returns) is the spec-level sign, in any ring -/
theorem bladeSign_eq_spec (sig : Nat → Int) (n a b : Nat) (ha : a < 2^n) (hb : b < 2^n) :
    ((bladeSign sig a b : Int) : R) = s (fun i => ((sig i : Int) : R)) n a b :=
  bladeSign_eq_s sig n a b ha hb

/-- 2-cocycle identity of the blade sign: the heart of associativity -/
theorem sign_cocycle (sig : Nat → R) (n x y z : Nat) :
    s sig n x y * s sig n (x ^^^ y) z = s sig n y z * s sig n x (y ^^^ z) :=
  _root_.sign_cocycle sig n x y z

theorem gmul_assoc (n : Nat) (sig : Nat → R) (A B C : CMV n R) :
    gmul n sig (gmul n sig A B) C = gmul n sig A (gmul n sig B C) := _root_.gmul_assoc n sig A B C

theorem one_gmul (n : Nat) (sig : Nat → R) (A : CMV n R) : gmul n sig (one n) A = A := _root_.one_gmul n sig A
theorem gmul_one (n : Nat) (sig : Nat → R) (A : CMV n R) : gmul n sig A (one n) = A := _root_.gmul_one n sig A

theorem left_distrib {n : Nat} {sig : Nat → R} (A B C : Cl n sig) : A * (B + C) = A * B + A * C := Cl.left_distrib' A B C
theorem right_distrib {n : Nat} {sig : Nat → R} (A B C : Cl n sig) : (A + B) * C = A * C + B * C := Cl.right_distrib' A B C
theorem smul_mul {n : Nat} {sig : Nat → R} (r : R) (A B : Cl n sig) : (r • A) * B = r • (A * B) := Cl.smul_mul' r A B
theorem mul_smul {n : Nat} {sig : Nat → R} (r : R) (A B : Cl n sig) : A * (r • B) = r • (A * B) := Cl.mul_smul' r A B

/-- `e_i * e_i = sig i` -/
theorem basis_sq {n : Nat} {sig : Nat → R} (i : Nat) (hi : i < n) :
    (Cl.e i hi : Cl n sig) * Cl.e i hi = sig i • (1 : Cl n sig) := Cl.e_sq i hi

/-- distinct basis vectors anticommute -/
theorem basis_anticomm {n : Nat} {sig : Nat → R} (i j : Nat) (hi : i < n) (hj : j < n) (h : i ≠ j) :
    (Cl.e i hi : Cl n sig) * Cl.e j hj = - (Cl.e j hj * Cl.e i hi) := Cl.e_anticomm i j hi hj h

/-- appending a generator above all bits of a blade: `E_a * e_t = E_{a ∪ {t}}` with sign `+1`;
by induction the blade with bitmap `a` is the ordered (ascending) product of its basis vectors -/
theorem blade_append_generator (n : Nat) (sig : Nat → R) (a t : Nat) (ht : t < n) (ha : a < 2^t) :
    gmul n sig (blade n ⟨a, lt_trans ha (Nat.pow_lt_pow_right (by decide) ht)⟩) (blade n ⟨2^t, Nat.pow_lt_pow_right (by decide) ht⟩)
      = blade n (fxor ⟨a, lt_trans ha (Nat.pow_lt_pow_right (by decide) ht)⟩ ⟨2^t, Nat.pow_lt_pow_right (by decide) ht⟩) := by
  rw [gmul_blade_blade]
  funext c
  simp only [blade, s_append_top n sig a t ht ha]

/-- `v * v = Σ sig_i v_i²` for every vector, every `n`, every signature, every commutative ring -/
theorem vector_sq {n : Nat} {sig : Nat → R} (v : Fin n → R) :
    (Cl.vec v : Cl n sig) * Cl.vec v = algebraMap R (Cl n sig) (Cl.Q n sig v) := Cl.vec_sq v

/-- the model is a quotient-compatible image of Mathlib's `CliffordAlgebra` of the diagonal form:
the universal map sends `ι v` to the model's vector -/
theorem fromMathlib_ι {n : Nat} {sig : Nat → R} (v : Fin n → R) :
    Cl.fromMathlib (CliffordAlgebra.ι (Cl.Q n sig) v) = (Cl.vec v : Cl n sig) := Cl.fromMathlib_ι v

/-- `Layout._from_Cl(p, q, r)` builds `[0]*r + [+1]*p + [-1]*q` -/
theorem sigOfCl_spec (p q r : Nat) :
    sigOfCl p q r = List.replicate r 0 ++ List.replicate p 1 ++ List.replicate q (-1) := rfl

/-- **storage level**: for any storage order `σ` (`index_to_bitmap = σ`, `bitmap_to_index = σ⁻¹`) the contraction of the
*executable* table built by `constructGmt` (the model of `_numba_construct_gmt`, compared entry by entry with
`Layout.gmt` on every run) with two value arrays is the canonical product conjugated by the order:
`(a * b)[j] = gmul A B (σ j)` with `A c = a[σ⁻¹ c]` -/
theorem table_contraction_is_canonical_product (n : Nat) (sig : Nat → Int) (σ : Equiv.Perm (Bm n)) (i2b b2i : Nat → Nat)
    (h1 : ∀ i : Bm n, i2b i.val = (σ i).val) (h2 : ∀ c : Bm n, b2i c.val = (σ.symm c).val) (a b : Array R) (j : Bm n) :
    contraction (constructGmt sig i2b b2i (2 ^ n)) a b j.val
      = gmul n (fun i => ((sig i : Int) : R)) (fun c => a.getD (b2i c.val) 0) (fun c => b.getD (b2i c.val) 0) (σ j) :=
  storage_bridge n sig σ i2b b2i h1 h2 a b j

/-- … and so is what the executable kernel (`Model.multSparse`, the model of `layout.gmt_func`) returns -/
theorem executable_product_is_canonical [DecidableEq R] (n : Nat) (sig : Nat → Int) (σ : Equiv.Perm (Bm n)) (i2b b2i : Nat → Nat)
    (h1 : ∀ i : Bm n, i2b i.val = (σ i).val) (h2 : ∀ c : Bm n, b2i c.val = (σ.symm c).val) (a b : Array R) (j : Bm n) :
    (multSparse (2 ^ n) (constructGmt sig i2b b2i (2 ^ n)) a b).getD j.val 0
      = gmul n (fun i => ((sig i : Int) : R)) (fun c => a.getD (b2i c.val) 0) (fun c => b.getD (b2i c.val) 0) (σ j) := by
  rw [KernelArr.multSparse_eq_contraction _ _ a b j.val j.isLt]
  exact storage_bridge n sig σ i2b b2i h1 h2 a b j

/-- non-vacuity: a concrete instance of the bounds used above -/
example : (5 : Nat) < 2^3 ∧ (3 : Nat) < 2^3 ∧ reorderSwaps 5 3 = 2 := by
  refine ⟨by decide, by decide, ?_⟩
  rw [_root_.reorderSwaps_spec 3 5 3 (by decide) (by decide)]; decide

end C01
