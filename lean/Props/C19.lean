import Proofs.TextProps

/-! # C19 — text forms round-trip: str → parse

Token level: `Text.printToks` is `MultiVector.__str__` as a token list (sign handling, scalar vs `(c^name)` form,
`'0'`), `Text.step`/`Text.run`/`Text.runPos` is the `if/elif` chain of `parse_multivector` token for token
(including the parenthesis skip that does not update `last_t`).  Characters ↔ tokens (`re.Scanner`, number
formatting, `float()`) are compared with the real tokenizer by the correspondence check. -/

namespace C19
open Text

/-- `parse(str(M)) = M` for every list of integer terms (any length, any blade indices, any scalar index) -/
theorem parse_print_roundtrip (sidx : Nat) (ts : List Term) :
    ∃ st, run sidx {} (printToks ts ++ [.end_]) = some st ∧ st.out = denote sidx ts (fun _ => 0) :=
  Text.parse_print sidx ts

/-- the result does not depend on the order of the terms -/
theorem term_order_irrelevant (sidx : Nat) {ts ts' : List Term} (h : ts.Perm ts') :
    denote sidx ts (fun _ => 0) = denote sidx ts' (fun _ => 0) := TextProps.denote_perm sidx h _

/-- whitespace (and parentheses) never change the parser state -/
theorem whitespace_irrelevant (sidx : Nat) (st : St) :
    step sidx st .space = some st ∧ step sidx st .lparen = some st ∧ step sidx st .rparen = some st := Text.space_skip sidx st

/-- floats: printing with `p` decimals moves a coefficient by at most half a unit of the print precision -/
theorem printed_within_half_unit {K : Type} [Field K] [LinearOrder K] [IsStrictOrderedRing K]
    (q : K) (p : Nat) (k : K) (hk : |k - q * 10 ^ p| ≤ 1 / 2) : |k / 10 ^ p - q| ≤ 1 / (2 * 10 ^ p) :=
  TextProps.round_within_half_unit q p k hk

/-- malformed strings reach the SyntaxError branch, at the offending token -/
theorem two_coefficients_in_a_row (sidx : Nat) (st : St) (h : st.last = some .coeff) (d : Int) :
    step sidx st (.coeff d) = none := Text.coeff_after_coeff sidx st h d
theorem dangling_sign (sidx : Nat) (st : St) (h : st.last = some .sign) : step sidx st .end_ = none := Text.end_after_sign sidx st h
theorem dangling_wedge (sidx : Nat) (st : St) (h : st.last = some .wedge) : step sidx st .end_ = none := Text.end_after_wedge sidx st h
theorem unknown_blade (sidx : Nat) (st : St) : step sidx st .unrecognized = none := Text.unrecognized_error sidx st
theorem error_position (sidx : Nat) (pre : List Tok) (bad : Tok) (rest : List Tok) (st0 st : St) (pos : Nat)
    (hpre : run sidx st0 pre = some st) (hbad : step sidx st bad = none) :
    runPos sidx pos st0 (pre ++ bad :: rest) = .error (pos + pre.length) := Text.runPos_error_at sidx pre bad rest st0 st pos hpre hbad

/-- non-vacuity: `"3 - (5^e2)"` parses to `3 - 5 e2`; `"3 4"` fails at token 2 (the second coefficient) -/
example : (runPos 0 0 {} [.coeff 3, .space, .sign (-1), .space, .lparen, .coeff 5, .wedge, .blade 2, .rparen, .end_]).toOption.map
    (fun s => [s.out 0, s.out 1, s.out 2]) = some [3, 0, -5] := by decide
example : runPos 0 0 {} [.coeff 3, .space, .coeff 4, .end_] = .error 2 :=
  error_position 0 [.coeff 3, .space] (.coeff 4) [.end_] {} { coeff := 3, last := some .coeff } 0 (by simp [run, step])
    (two_coefficients_in_a_row 0 _ rfl 4)

/-- **the loop of `MultiVector.__str__`, statement for statement** (`Text.strLoop`: separator tuples chosen by `if s:`, the
`continue` on a zero coefficient, sign / separator selection, scalar vs `(c^name)` form, `'0'` for the empty string; tied to the
source by `TieA.printer_str_eq`) prints exactly `printToks` of the non-zero entries in storage order … -/
theorem str_loop_is_printToks (es : List Entry) : strLoop es = printToks (printedTerms es) := Text.strLoop_eq_printToks es

/-- … hence parsing what the coded loop prints returns the accumulation of the non-zero entries, for every entry list -/
theorem parse_str_loop_roundtrip (sidx : Nat) (es : List Entry) :
    ∃ st, run sidx {} (strLoop es ++ [.end_]) = some st ∧ st.out = denote sidx (printedTerms es) (fun _ => 0) := by
  rw [Text.strLoop_eq_printToks]; exact Text.parse_print sidx _

/-- non-vacuity: `3 - (2^e1)` on a layout whose slot 0 is the scalar -/
example : strLoop [⟨0, 0, 3⟩, ⟨1, 1, -2⟩, ⟨1, 2, 0⟩] = [.coeff 3, .space, .sign (-1), .space, .lparen, .coeff 2, .wedge, .blade 1, .rparen] := by decide

/-- **line and column of the `SyntaxError`** (`_match_line_offset`, loop as coded; tied to the source by `TieA.parser_line_offset_eq`): a match at
column `c` (from 0; the end-of-line position `c = len` included) of the line following the lines `pre` is reported as line `|pre| + 1`, column `c + 1`,
for any number of lines of any lengths -/
theorem error_line_and_column (pre : List Nat) (len : Nat) (post : List Nat) (c : Nat) (hc : c ≤ len) :
    lineOffset 1 (lineStart pre + (c : Int)) (pre ++ len :: post) = some (1 + pre.length, (c : Int) + 1) :=
  Text.lineOffset_spec 1 pre len post c hc

/-- non-vacuity: offset 9 in "ab\ncdef\nxyz" (line lengths 2, 4, 3) is line 3, column 2 -/
example : lineOffset 1 9 [2, 4, 3] = some (3, 2) := by decide

end C19
