import Proofs.Blade
import Proofs.Fund
import Props.C05

/-! # C09 — blade subspace operations: the algebraic core

PARTIAL: idempotence/containment/orthogonality of `project`, the grade formulas of `join`/`meet`, `factorise` and
`basis` reassembly are decided by evaluation on the implementation (integer spanning vectors); the theorems below are the
identities those operations rest on. -/

namespace C09
open Model

variable {R : Type} [CommRing R] (n : Nat) (sig : Nat → R)

/-- for a vector `x` and any multivector `B`: `x * B = x ⌋ B + x ∧ B` (with the coded `lcmt` / `omt` tables) -/
theorem vector_product_split (x B : CMV n R) (hx : IsHom n 1 x) :
    gmul n sig x B = mmul n sig lcmtCheck x B + mmul n sig omtCheck x B := vector_mul_split n sig x B hx

/-- the companion identity with the grade involution: `B̂ x = x ∧ B − x ⌋ B` (any multivector `B`) -/
theorem involuted_product_split (x B : CMV n R) (hx : IsHom n 1 x) :
    gmul n sig (gi n B) x = mmul n sig omtCheck x B - mmul n sig lcmtCheck x B := gi_mul_vector n sig x B hx

/-- hence for a `g`-blade (any homogeneous `B`): `2 (x ∧ B) = x B + (−1)^g B x` … -/
theorem vector_blade_wedge (g : Nat) (x B : CMV n R) (hx : IsHom n 1 x) (hB : IsHom n g B) :
    wedge n x B + wedge n x B = gmul n sig x B + (sgn g : R) • gmul n sig B x := two_wedge_vector_hom n sig g x B hx hB
/-- … `2 (x | B) = x B − (−1)^g B x` with the coded inner-product table (`g ≥ 1`) … -/
theorem vector_blade_inner (g : Nat) (hg : 1 ≤ g) (x B : CMV n R) (hx : IsHom n 1 x) (hB : IsHom n g B) :
    mmul n sig imtCheck x B + mmul n sig imtCheck x B = gmul n sig x B - (sgn g : R) • gmul n sig B x :=
  two_inner_vector_hom n sig g hg x B hx hB
/-- … and with the vector on the right `B | x = (−1)^{g+1} (x ⌋ B)` -/
theorem blade_vector_inner (g : Nat) (hg : 1 ≤ g) (x B : CMV n R) (hx : IsHom n 1 x) (hB : IsHom n g B) :
    mmul n sig imtCheck B x = (-(sgn g : R)) • mmul n sig lcmtCheck x B := blade_inner_vector n sig g hg x B hx hB

/-- for invertible `B`: `x = (x ⌋ B) B⁻¹ + (x ∧ B) B⁻¹`: `project(x)` and its remainder sum to `x` -/
theorem project_plus_remainder (x B Binv : Cl n sig) (hx : IsHom n 1 x) (hB : B * Binv = 1) :
    x = asCl (mmul n sig lcmtCheck x B) * Binv + asCl (mmul n sig omtCheck x B) * Binv :=
  projection_plus_rejection n sig x B Binv hx hB

/-- `1 + v` for a unit vector `v` (`v*v = 1`, `v ≠ 1`) is a zero divisor, so it has no inverse: not a versor, not a blade -/
theorem one_plus_unit_vector_not_versor {n : Nat} {sig : Nat → R} (v : Cl n sig) (hv : v * v = 1) (hne : v ≠ 1) :
    ¬ ∃ X : Cl n sig, X * (1 + v) = 1 := by
  have := C05.one_add_e_singular v hv hne (1 : R)
  simpa using this

end C09
