import Proofs.Blade
import Props.C05

/-! # C09 — blade subspace operations: the algebraic core

PARTIAL: idempotence/containment/orthogonality of `project`, the grade formulas of `join`/`meet`, `factorise` and
`basis` reassembly are decided by evaluation on the implementation (integer spanning vectors); the theorems below are the
identities those operations rest on. -/

namespace C09
open Model

variable {R : Type} [CommRing R] (n : Nat) (sig : Nat → R)

/-- for a vector `x` and any multivector `B`: `x * B = x ⌋ B + x ∧ B` (with the coded `lcmt` / `omt` tables) -/
theorem vector_product_split (x B : CMV n R) (hx : IsHom n 1 x) :
    gmul n sig x B = mmul n sig lcmtCheck x B + mmul n sig omtCheck x B := vector_mul_split n sig x B hx

/-- for invertible `B`: `x = (x ⌋ B) B⁻¹ + (x ∧ B) B⁻¹`: `project(x)` and its remainder sum to `x` -/
theorem project_plus_remainder (x B Binv : Cl n sig) (hx : IsHom n 1 x) (hB : B * Binv = 1) :
    x = asCl (mmul n sig lcmtCheck x B) * Binv + asCl (mmul n sig omtCheck x B) * Binv :=
  projection_plus_rejection n sig x B Binv hx hB

/-- `1 + v` for a unit vector `v` (`v*v = 1`, `v ≠ 1`) is a zero divisor, so it has no inverse: not a versor, not a blade -/
theorem one_plus_unit_vector_not_versor {n : Nat} {sig : Nat → R} (v : Cl n sig) (hv : v * v = 1) (hne : v ≠ 1) :
    ¬ ∃ X : Cl n sig, X * (1 + v) = 1 := by
  have := C05.one_add_e_singular v hv hne (1 : R)
  simpa using this

end C09
