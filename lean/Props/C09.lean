import Proofs.Blade
import Proofs.Fund
import Proofs.Project
import Proofs.GramSchmidt
import Proofs.Index
import Props.C05

/-! # C09 — blade subspace operations: the algebraic core

`project`: for a blade given as a product of pairwise orthogonal invertible vectors (`B = b₁ ⋯ b_k`; every non-null blade of
a real non-degenerate algebra is a scalar multiple of one — Gram–Schmidt, not formalised — and `project` does not depend on
the scale), `(x ⌋ B) B⁻¹` with the coded table is the orthogonal projection `Σ (x·b_i / b_i²) b_i`; it is idempotent, lies
in `B`, and the remainder is orthogonal to `B` (`project_*` below).

PARTIAL: that reduction for oblique spanning vectors, the grade formulas of `join`/`meet`, `factorise` and `basis` reassembly
are decided by evaluation on the implementation (integer spanning vectors); the other theorems below are the identities
those operations rest on. -/

namespace C09
open Model

variable {R : Type} [CommRing R] (n : Nat) (sig : Nat → R)

/-- for a vector `x` and any multivector `B`: `x * B = x ⌋ B + x ∧ B` (with the coded `lcmt` / `omt` tables) -/
theorem vector_product_split (x B : CMV n R) (hx : IsHom n 1 x) :
    gmul n sig x B = mmul n sig lcmtCheck x B + mmul n sig omtCheck x B := vector_mul_split n sig x B hx

/-- the companion identity with the grade involution: `B̂ x = x ∧ B − x ⌋ B` (any multivector `B`) -/
theorem involuted_product_split (x B : CMV n R) (hx : IsHom n 1 x) :
    gmul n sig (gi n B) x = mmul n sig omtCheck x B - mmul n sig lcmtCheck x B := gi_mul_vector n sig x B hx

/-- hence for a `g`-blade (any homogeneous `B`): `2 (x ∧ B) = x B + (−1)^g B x` … -/
theorem vector_blade_wedge (g : Nat) (x B : CMV n R) (hx : IsHom n 1 x) (hB : IsHom n g B) :
    wedge n x B + wedge n x B = gmul n sig x B + (sgn g : R) • gmul n sig B x := two_wedge_vector_hom n sig g x B hx hB
/-- … `2 (x | B) = x B − (−1)^g B x` with the coded inner-product table (`g ≥ 1`) … -/
theorem vector_blade_inner (g : Nat) (hg : 1 ≤ g) (x B : CMV n R) (hx : IsHom n 1 x) (hB : IsHom n g B) :
    mmul n sig imtCheck x B + mmul n sig imtCheck x B = gmul n sig x B - (sgn g : R) • gmul n sig B x :=
  two_inner_vector_hom n sig g hg x B hx hB
/-- … and with the vector on the right `B | x = (−1)^{g+1} (x ⌋ B)` -/
theorem blade_vector_inner (g : Nat) (hg : 1 ≤ g) (x B : CMV n R) (hx : IsHom n 1 x) (hB : IsHom n g B) :
    mmul n sig imtCheck B x = (-(sgn g : R)) • mmul n sig lcmtCheck x B := blade_inner_vector n sig g hg x B hx hB

/-- for invertible `B`: `x = (x ⌋ B) B⁻¹ + (x ∧ B) B⁻¹`: `project(x)` and its remainder sum to `x` -/
theorem project_plus_remainder (x B Binv : Cl n sig) (hx : IsHom n 1 x) (hB : B * Binv = 1) :
    x = asCl (mmul n sig lcmtCheck x B) * Binv + asCl (mmul n sig omtCheck x B) * Binv :=
  projection_plus_rejection n sig x B Binv hx hB

/-- `1 + v` for a unit vector `v` (`v*v = 1`, `v ≠ 1`) is a zero divisor, so it has no inverse: not a versor, not a blade -/
theorem one_plus_unit_vector_not_versor {n : Nat} {sig : Nat → R} (v : Cl n sig) (hv : v * v = 1) (hne : v ≠ 1) :
    ¬ ∃ X : Cl n sig, X * (1 + v) = 1 := by
  have := C05.one_add_e_singular v hv hne (1 : R)
  simpa using this


/-! ### `B.project(x)` for an orthogonally factorised blade -/
section Project
variable {F : Type} [Field F] {n : Nat} {sig : Nat → F}
open Proj

/-- hypotheses shared by the `project_*` theorems: `bs` are pairwise anticommuting vectors with invertible squares `q b`,
    `x` is a vector with anticommutators `x b + b x = d b` -/
structure OrthoBlade (bs : List (Cl n sig)) (q : Cl n sig → F) : Prop where
  vec : ∀ b ∈ bs, IsHom n 1 b
  sq : ∀ b ∈ bs, b * b = q b • (1 : Cl n sig) ∧ q b ≠ 0
  orth : bs.Pairwise (fun a b => a * b = -(b * a))

/-- the product of the inverse factors is the two-sided inverse of `B` (what `B.inv()` returns, by uniqueness of inverses) -/
theorem project_blade_inverse (bs : List (Cl n sig)) (q : Cl n sig → F) (h : OrthoBlade bs q) :
    bs.prod * pinv q bs = 1 ∧ pinv q bs * bs.prod = 1 := ⟨prod_mul_pinv q bs h.sq, pinv_mul_prod q bs h.sq⟩

/-- **`2·B.project(x) = Σ_i (d_i / q_i) b_i`**: the orthogonal projection onto the span of the factors -/
theorem project_formula (x : Cl n sig) (hx : IsHom n 1 x) (bs : List (Cl n sig)) (d q : Cl n sig → F) (h : OrthoBlade bs q)
    (hd : ∀ b ∈ bs, x * b + b * x = d b • (1 : Cl n sig)) :
    (asCl (mmul n sig lcmtCheck x bs.prod) + asCl (mmul n sig lcmtCheck x bs.prod)) * pinv q bs = proj d q bs :=
  two_project x hx bs h.vec d q h.sq h.orth hd

/-- **idempotent**: projecting `y = project(x) = ½ Σ (d_i/q_i) b_i` again returns `y` (`2·project(y) = 2·y`) -/
theorem project_idempotent (h2 : (2 : F) ≠ 0) (bs : List (Cl n sig)) (d q : Cl n sig → F) (h : OrthoBlade bs q) :
    (asCl (mmul n sig lcmtCheck ((2 : F)⁻¹ • proj d q bs : Cl n sig) bs.prod)
      + asCl (mmul n sig lcmtCheck ((2 : F)⁻¹ • proj d q bs : Cl n sig) bs.prod)) * pinv q bs = proj d q bs :=
  Proj.project_idempotent h2 bs h.vec d q h.sq h.orth

/-- **lies in `B`**: `project(x) ∧ B = 0` -/
theorem project_lies_in_blade (h2 : (2 : F) ≠ 0) (bs : List (Cl n sig)) (d q : Cl n sig → F) (h : OrthoBlade bs q) :
    wedge n ((2 : F)⁻¹ • proj d q bs : Cl n sig) bs.prod = 0 := by
  have := project_in_blade h2 bs h.vec d q h.sq h.orth
  exact (mmul_omt_eq_wedge n sig _ _).symm.trans this

/-- **the remainder is orthogonal to `B`**: `x − project(x)` anticommutes with every factor, and `(x − project(x)) ⌋ B = 0` -/
theorem project_remainder_orthogonal (h2 : (2 : F) ≠ 0) (x : Cl n sig) (hx : IsHom n 1 x) (bs : List (Cl n sig))
    (d q : Cl n sig → F) (h : OrthoBlade bs q) (hd : ∀ b ∈ bs, x * b + b * x = d b • (1 : Cl n sig)) :
    (∀ c ∈ bs, (x - (2 : F)⁻¹ • proj d q bs) * c + c * (x - (2 : F)⁻¹ • proj d q bs) = 0)
    ∧ (asCl (mmul n sig lcmtCheck (x + (-1 : F) • ((2 : F)⁻¹ • proj d q bs : Cl n sig)) bs.prod) : Cl n sig) = 0 :=
  ⟨fun c hc => remainder_orthogonal h2 x bs d q h.sq h.orth hd c hc,
   remainder_contraction h2 x hx bs h.vec d q h.sq h.orth hd⟩


/-! ### … and for a blade given by OBLIQUE spanning vectors, `B = v₁ ∧ … ∧ v_k` as the code builds it

`GS.Tri vs bs`: the `b`'s arise from the `v`'s by a unitriangular change of basis (Gram–Schmidt from the last vector backwards).  Then
`v₁ ∧ … ∧ v_k = b₁ ⋯ b_k` (`blade_is_product`) and the `project_*` theorems hold for `B = wprod vs`.  What remains a hypothesis is
that such orthogonal non-null `b`'s exist (true for every non-null blade of a real non-degenerate algebra, possibly after reordering
the vectors; the harness runs the exact recursion on every case). -/

theorem blade_is_product (h2 : (2 : F) ≠ 0) (vs bs : List (Cl n sig)) (q : Cl n sig → F) (ht : GS.Tri vs bs) (h : OrthoBlade bs q) :
    (asCl (wprod n vs) : Cl n sig) = bs.prod := GS.blade_eq_prod h2 vs bs ht h.vec h.orth

theorem project_formula_oblique (h2 : (2 : F) ≠ 0) (x : Cl n sig) (hx : IsHom n 1 x) (vs bs : List (Cl n sig)) (d q : Cl n sig → F)
    (ht : GS.Tri vs bs) (h : OrthoBlade bs q) (hd : ∀ b ∈ bs, x * b + b * x = d b • (1 : Cl n sig)) :
    (asCl (mmul n sig lcmtCheck x (asCl (wprod n vs) : Cl n sig)) + asCl (mmul n sig lcmtCheck x (asCl (wprod n vs) : Cl n sig))) * pinv q bs
      = proj d q bs := by
  rw [blade_is_product h2 vs bs q ht h]; exact project_formula x hx bs d q h hd

theorem project_idempotent_oblique (h2 : (2 : F) ≠ 0) (vs bs : List (Cl n sig)) (d q : Cl n sig → F) (ht : GS.Tri vs bs) (h : OrthoBlade bs q) :
    (asCl (mmul n sig lcmtCheck ((2 : F)⁻¹ • proj d q bs : Cl n sig) (asCl (wprod n vs) : Cl n sig))
      + asCl (mmul n sig lcmtCheck ((2 : F)⁻¹ • proj d q bs : Cl n sig) (asCl (wprod n vs) : Cl n sig))) * pinv q bs = proj d q bs := by
  rw [blade_is_product h2 vs bs q ht h]; exact project_idempotent h2 bs d q h

theorem project_lies_in_blade_oblique (h2 : (2 : F) ≠ 0) (vs bs : List (Cl n sig)) (d q : Cl n sig → F) (ht : GS.Tri vs bs) (h : OrthoBlade bs q) :
    wedge n ((2 : F)⁻¹ • proj d q bs : Cl n sig) (asCl (wprod n vs) : Cl n sig) = 0 := by
  rw [blade_is_product h2 vs bs q ht h]; exact project_lies_in_blade h2 bs d q h

theorem project_remainder_oblique (h2 : (2 : F) ≠ 0) (x : Cl n sig) (hx : IsHom n 1 x) (vs bs : List (Cl n sig)) (d q : Cl n sig → F)
    (ht : GS.Tri vs bs) (h : OrthoBlade bs q) (hd : ∀ b ∈ bs, x * b + b * x = d b • (1 : Cl n sig)) :
    (asCl (mmul n sig lcmtCheck (x + (-1 : F) • ((2 : F)⁻¹ • proj d q bs : Cl n sig)) (asCl (wprod n vs) : Cl n sig)) : Cl n sig) = 0 := by
  rw [blade_is_product h2 vs bs q ht h]; exact (project_remainder_orthogonal h2 x hx bs d q h hd).2

/-- non-vacuity of the triangular relation: in Cl(1,−1), `[e₁ + e₂, e₂]` orthogonalises (from the last vector backwards) to `[e₁, e₂]` -/
example : GS.Tri (n := 2) (sig := fun i => if i = 0 then (1 : ℚ) else -1)
    [Cl.e 0 (by decide) + Cl.e 1 (by decide), Cl.e 1 (by decide)] [Cl.e 0 (by decide), Cl.e 1 (by decide)] :=
  GS.Tri.cons _ _ _ _ [1] (GS.Tri.cons _ _ [] [] [] GS.Tri.nil (by simp [GS.lin])) (by simp [GS.lin])

/-- non-vacuity: `e₁, e₂` of Cl(1,−1) over ℚ form such a factorisation (a negative-norm factor included), with
    `q b` the scalar part of `b²` -/
example : OrthoBlade (n := 2) (sig := fun i => if i = 0 then (1 : ℚ) else -1)
    [Cl.e 0 (by decide), Cl.e 1 (by decide)] (fun b => (b * b) fzero) := by
  have hs : ∀ (i : Nat) (hi : i < 2), ((Cl.e i hi : Cl 2 (fun i => if i = 0 then (1 : ℚ) else -1)) * Cl.e i hi)
      = (if i = 0 then (1 : ℚ) else -1) • (1 : Cl 2 _) := fun i hi => Cl.e_sq i hi
  have h1 : ((1 : Cl 2 (fun i => if i = 0 then (1 : ℚ) else -1)) fzero) = 1 := by
    show (one 2 : CMV 2 ℚ) fzero = 1
    simp [one]
  refine ⟨?_, ?_, ?_⟩
  · intro b hb
    simp only [List.mem_cons, List.not_mem_nil, or_false] at hb
    rcases hb with rfl | rfl
    · have := blade_hom (R := ℚ) 2 ⟨2 ^ 0, by decide⟩; rwa [pc_two_pow 2 0 (by decide)] at this
    · have := blade_hom (R := ℚ) 2 ⟨2 ^ 1, by decide⟩; rwa [pc_two_pow 2 1 (by decide)] at this
  · intro b hb
    simp only [List.mem_cons, List.not_mem_nil, or_false] at hb
    rcases hb with rfl | rfl
    · rw [hs 0 (by decide)]
      have e : (((if (0 : Nat) = 0 then (1 : ℚ) else -1) • (1 : Cl 2 (fun i => if i = 0 then (1 : ℚ) else -1))) fzero) = 1 := by
        show (if (0 : Nat) = 0 then (1 : ℚ) else -1) * (1 : Cl 2 _) fzero = 1
        rw [h1]; simp
      rw [e]; simp
    · rw [hs 1 (by decide)]
      have e : (((if (1 : Nat) = 0 then (1 : ℚ) else -1) • (1 : Cl 2 (fun i => if i = 0 then (1 : ℚ) else -1))) fzero) = -1 := by
        show (if (1 : Nat) = 0 then (1 : ℚ) else -1) * (1 : Cl 2 _) fzero = -1
        rw [h1]; simp
      rw [e]; simp
  · simp only [List.pairwise_cons, List.mem_cons, List.not_mem_nil, or_false, forall_eq, IsEmpty.forall_iff, implies_true,
      List.Pairwise.nil, and_true]
    exact Cl.e_anticomm 0 1 (by decide) (by decide) (by decide)

end Project

end C09
