import Proofs.Compl
import Model.Shortlex
import Model.Table
import Proofs.Mirror
import Proofs.CompSigns

/-! # C06 — complements, dual and the vee (regressive) product

Canonical form: `rcomp`/`lcomp` send `E_b` to `±E_{~b}` with the sign of the *outer* product
(`wsign`, which contains no signature), `vee A B = lcomp (rcomp A ∧ rcomp B)` as coded in `vee_func`.
Any `n`, any commutative ring; no signature appears in the complement / vee statements, so they hold in
every metric including degenerate ones. -/

namespace C06
open Finset Model

variable {R : Type} [CommRing R] (n : Nat)

/-- `itertools.combinations` order: the k-subsets in reverse order, components swapped, are the
(n-k)-subsets in order — so in the shortlex storage order index `2^n-1-i` holds the complementary blade -/
theorem shortlex_reverse_complement {α : Type} (l : List α) (k : Nat) (hk : k ≤ l.length) :
    (Shortlex.combsC l k).reverse.map Prod.swap = Shortlex.combsC l (l.length - k) :=
  Shortlex.combsC_reverse_swap l k hk

/-- the executable `shortlexOrder` has the complement at the mirrored index (finite instance: every n ≤ 8,
checked by kernel evaluation; the law for all n is the list-level theorem above) -/
def slCompOK (n : Nat) : Bool :=
  let o := shortlexOrder n
  (List.range (2^n)).all fun i => o.getD (2^n-1-i) 0 == ((2^n-1) ^^^ o.getD i 0)
theorem shortlexOrder_mirror_upto8 : (List.range 9).all slCompOK = true := by decide +kernel

/-- **the executable default blade order (`Model.shortlexOrder`, compared with `_ShortLexBasisBladeOrder` on every run) has the
    complementary blade at the mirrored position, for every n**: reversing it and complementing every bitmap gives it back … -/
theorem shortlexOrder_mirror_all (n : Nat) : (shortlexOrder n).reverse.map ((2 ^ n - 1) ^^^ ·) = shortlexOrder n :=
  Mirror.shortlexOrder_mirror n
/-- … index form, as `_gen_complement_func` uses it (`omt[n, -1, dims-1-n]`, `Xval[dims-1-i]`) -/
theorem shortlexOrder_mirror_index (n i : Nat) (hi : i < (shortlexOrder n).length) :
    (shortlexOrder n)[i] = (2 ^ n - 1) ^^^ (shortlexOrder n)[(shortlexOrder n).length - 1 - i]'(by omega) :=
  Mirror.shortlexOrder_mirror_index n i hi

/-- `b ∧ rc(b) = I` for every basis blade, in every metric -/
theorem blade_wedge_rc (b : Bm n) : wedge n (blade n b : CMV n R) (rcomp n (blade n b)) = blade n (full n) :=
  blade_wedge_rcomp n b
/-- `lc(b) ∧ b = I` -/
theorem lc_wedge_blade (b : Bm n) : wedge n (lcomp n (blade n b : CMV n R)) (blade n b) = blade n (full n) :=
  lcomp_wedge_blade n b

theorem rc_linear_add (A B : CMV n R) : rcomp n (A + B) = rcomp n A + rcomp n B := rcomp_add n A B
theorem rc_linear_smul (q : R) (A : CMV n R) : rcomp n (q • A) = q • rcomp n A := rcomp_smul n q A
theorem lc_linear_add (A B : CMV n R) : lcomp n (A + B) = lcomp n A + lcomp n B := lcomp_add n A B
theorem lc_linear_smul (q : R) (A : CMV n R) : lcomp n (q • A) = q • lcomp n A := lcomp_smul n q A

/-- mutually inverse -/
theorem lc_rc (A : CMV n R) : lcomp n (rcomp n A) = A := lcomp_rcomp n A
theorem rc_lc (A : CMV n R) : rcomp n (lcomp n A) = A := rcomp_lcomp n A

/-- non-degenerate: `I*I` is the scalar the code reads from `gmt[-1,0,-1]`, and when it is invertible the
element `Iinv` the code builds is the two-sided inverse of `I`, so `dual M = M * I⁻¹` -/
theorem pseudoscalar_sq (sig : Nat → R) :
    gmul n sig (blade n (full n)) (blade n (full n)) = s sig n (full n).val (full n).val • one n := full_sq n sig
theorem dual_uses_inverse_of_I (sig : Nat → R) (uinv : R) (h : s sig n (full n).val (full n).val * uinv = 1) :
    gmul n sig (blade n (full n)) (uinv • blade n (full n)) = one n
    ∧ gmul n sig (uinv • blade n (full n)) (blade n (full n)) = one n := dual_Iinv n sig uinv h

/-- `rc(A ∨ B) = rc A ∧ rc B` (the defining equation) -/
theorem rc_vee (A B : CMV n R) : rcomp n (vee n A B) = wedge n (rcomp n A) (rcomp n B) := rcomp_vee n A B
/-- vee is associative -/
theorem vee_assoc (A B C : CMV n R) : vee n (vee n A B) C = vee n A (vee n B C) := _root_.vee_assoc n A B C
/-- the pseudoscalar is its identity -/
theorem vee_I_right (A : CMV n R) : vee n A (blade n (full n)) = A := vee_full_right n A
theorem vee_I_left (A : CMV n R) : vee n (blade n (full n)) A = A := vee_full_left n A
/-- vee maps grades `(r, s)` to `r + s - n` (and to 0 below) -/
theorem vee_grade (r t : Nat) (hr : r ≤ n) (ht : t ≤ n) (hrt : n ≤ r + t) (A B : CMV n R)
    (hA : IsHom n r A) (hB : IsHom n t B) : IsHom n (r + t - n) (vee n A B) := vee_hom n r t hr ht hrt A B hA hB
theorem vee_grade_zero (r t : Nat) (hr : r ≤ n) (ht : t ≤ n) (hrt : r + t < n) (A B : CMV n R)
    (hA : IsHom n r A) (hB : IsHom n t B) : vee n A B = 0 := vee_zero_of_lt n r t hr ht hrt A B hA hB
/-- complements map grade `r` to `n - r` -/
theorem rc_grade (r : Nat) (A : CMV n R) (hA : IsHom n r A) : IsHom n (n - r) (rcomp n A) := rcomp_hom n r A hA

/-- non-vacuity: the unit scalar is homogeneous of grade 0 -/
example : IsHom 2 0 (one 2 : CMV 2 ℤ) := by
  intro c hc
  simp only [one]
  split
  · rename_i h; subst h; exact absurd (by simp [pc, fzero, bit]) hc
  · rfl

end C06

/-! ## storage level: the sign lists of `_gen_complement_func` -/
namespace C06
open Model CompSigns

variable (n : Nat) (sig : Nat → Int) (σ : Equiv.Perm (Bm n)) (i2b b2i : Nat → Nat)

/-- an entry of the executable outer-product table is the outer product of the two stored blades, read at the stored result blade -/
theorem omt_table_entry (h1 : ∀ i : Bm n, i2b i.val = (σ i).val) (h2 : ∀ c : Bm n, b2i c.val = (σ.symm c).val) (k j m : Bm n) :
    Ctx.tableAt (gradedMt (fun i => popcount (i2b i)) omtCheck (constructGmt sig i2b b2i (2 ^ n))) k.val j.val m.val
      = if σ j = fxor (σ k) (σ m) then (wsign n (σ k).val (σ m).val : Int) else 0 := omt_entry n sig σ i2b b2i h1 h2 k j m

/-- for a storage order with the scalar first and the mirror property (the default order: `shortlexOrder_mirror_all`), the
    sign `(-1)**(omt[k, -1, dims-1-k] < 0.001)` is the outer-product sign of the blade with its complement … -/
theorem complement_sign_lists (h1 : ∀ i : Bm n, i2b i.val = (σ i).val) (h2 : ∀ c : Bm n, b2i c.val = (σ.symm c).val)
    (hmir : ∀ i : Bm n, σ (mir n i) = cmpl n (σ i)) (h0 : σ fzero = fzero) (k : Bm n) :
    (if Ctx.tableAt (gradedMt (fun i => popcount (i2b i)) omtCheck (constructGmt sig i2b b2i (2 ^ n))) k.val (2 ^ n - 1) (2 ^ n - 1 - k.val) < 1
        then (-1 : Int) else 1) = wsign n (σ k).val (cmpl n (σ k)).val
    ∧ (if Ctx.tableAt (gradedMt (fun i => popcount (i2b i)) omtCheck (constructGmt sig i2b b2i (2 ^ n))) (2 ^ n - 1 - k.val) (2 ^ n - 1) k.val < 1
        then (-1 : Int) else 1) = wsign n (cmpl n (σ k)).val (σ k).val :=
  ⟨left_sign n sig σ i2b b2i h1 h2 hmir h0 k, right_sign n sig σ i2b b2i h1 h2 hmir h0 k⟩

/-- … and `comp_func` (`Y[i] = X[dims-1-i] * signs[i]`) is the canonical left / right complement conjugated by the storage order -/
theorem complement_functions {R : Type} [CommRing R] (h1 : ∀ i : Bm n, i2b i.val = (σ i).val) (h2 : ∀ c : Bm n, b2i c.val = (σ.symm c).val)
    (hmir : ∀ i : Bm n, σ (mir n i) = cmpl n (σ i)) (h0 : σ fzero = fzero) (a : Array R) (i : Bm n) :
    a.getD (2 ^ n - 1 - i.val) 0 * (((wsign n (σ i).val (cmpl n (σ i)).val : Int)) : R) = lcomp n (fun c : Bm n => a.getD (b2i c.val) 0) (σ i)
    ∧ a.getD (2 ^ n - 1 - i.val) 0 * (((wsign n (cmpl n (σ i)).val (σ i).val : Int)) : R) = rcomp n (fun c : Bm n => a.getD (b2i c.val) 0) (σ i) :=
  ⟨left_comp_entry n σ i2b b2i h1 h2 hmir h0 a i, right_comp_entry n σ i2b b2i h1 h2 hmir h0 a i⟩

end C06
