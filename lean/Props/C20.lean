import Model.Tensor

/-! # C20 — file I/O round-trips: .ga (HDF5), JSON and MVArray.save/load

Tensors are `(shape, index ↦ value)`; `.T` reverses all axes; the file record is what both formats store.
h5py / `json` storing what they are given (dtype, order) are parameters, exercised by the correspondence check. -/

namespace C20
open TensorIO

theorem transpose_involutive {α} (t : Tensor α) : t.T.T = t := T_T t

/-- reading a file written with any (compression, transpose) flags returns the array (same orientation),
metric and names, and no support for dense data — for every shape, zero-sized axes included -/
theorem read_write_roundtrip {α μ ν} (c t : Bool) (a : Tensor α) (m : μ) (nm : ν) :
    read (write c t a m nm) = (a, m, nm, none) := read_write c t a m nm

theorem compression_flag_irrelevant {α μ ν} (t : Bool) (a : Tensor α) (m : μ) (nm : ν) :
    read (write true t a m nm) = read (write false t a m nm) := compression_irrelevant t a m nm

/-- JSON (`tolist()` then `np.array`): the shape comes back when no axis is empty … -/
theorem json_shape_roundtrip {α} (shape : List Nat) (h : ∀ d ∈ shape, d ≠ 0) (get : List Nat → α) :
    shapeOf (toNested shape get) = shape := shapeOf_toNested shape h get
/-- … and the elements come back in row-major order -/
theorem json_elements_roundtrip {α} (shape : List Nat) (get : List Nat → α) :
    flat (toNested shape get) = (indices shape).map get := flat_toNested shape get
/-- the excluded case is real: an empty `(0, 8)` array is read back with shape `(0,)` (known finding) -/
theorem json_empty_array_loses_shape {α} (get : List Nat → α) : shapeOf (toNested [0, 8] get) = [0] :=
  json_empty_counterexample get

/-- loading into a layout of different signature raises `ValueError` -/
theorem load_signature_mismatch (m sig : List Int) (h : m ≠ sig) : loadCheck m sig = .error "ValueError" := loadCheck_mismatch m sig h
theorem load_signature_match (sig : List Int) : loadCheck sig sig = .ok () := loadCheck_match sig

/-- non-vacuity: a 2×3 tensor -/
example : (({ shape := [2, 3], get := fun idx => idx.sum } : Tensor Nat).T).shape = [3, 2] := rfl

end C20
