import Proofs.InvProps

/-! # C05 — inverses, division and integer powers are true two-sided algebra inverses / powers

`Cl n sig` is the model algebra as a Mathlib `Ring`/`Algebra R` (any `n`, commutative ring `R`, signature). -/

namespace C05

variable {R : Type} [CommRing R] {n : Nat} {sig : Nat → R}

/-- a left inverse is a right inverse and vice versa (matrices over a commutative ring are Dedekind-finite) -/
theorem left_inv_iff_right_inv (X M : Cl n sig) : X * M = 1 ↔ M * X = 1 := Cl.left_inv_iff_right_inv X M

/-- hence every method that returns an inverse returns the same element -/
theorem all_methods_agree (X Y M : Cl n sig) (hX : X * M = 1) (hY : Y * M = 1) : X = Y := Cl.inverse_unique X Y M hX hY

/-- `normalInv`: correct whenever `~M*M` is an invertible scalar -/
theorem normalInv_correct (M Mrev : Cl n sig) (q qinv : R) (h : Mrev * M = q • (1 : Cl n sig)) (hq : q * qinv = 1) :
    (qinv • Mrev) * M = 1 ∧ M * (qinv • Mrev) = 1 := Cl.normalInv_correct M Mrev q qinv h hq

/-- closed-form (Hitzer) and Shirokov inverses, final step: **if** `M * numerator` is the scalar `d` (what the code
reads as `(operand * numerator).value[0]`, resp. the last `U_k`) and `d` is invertible, the returned
`numerator / d` is the two-sided inverse.  PARTIAL: that `M * numerator` *is* scalar for the n = 0..5 formulas
(resp. for the Faddeev–LeVerrier recursion) is not proved here; it is exercised against the exact rational
oracle by the correspondence check. -/
theorem hitzer_partial (M num : Cl n sig) (d dinv : R) (h : M * num = d • (1 : Cl n sig)) (hd : d * dinv = 1) :
    M * (dinv • num) = 1 ∧ (dinv • num) * M = 1 := Cl.scaled_inverse M num d dinv h hd
theorem shirokov_partial (M adjU : Cl n sig) (d dinv : R) (h : M * adjU = d • (1 : Cl n sig)) (hd : d * dinv = 1) :
    M * (dinv • adjU) = 1 ∧ (dinv • adjU) * M = 1 := Cl.scaled_inverse M adjU d dinv h hd

/-- a zero divisor has no inverse … -/
theorem zero_divisor_not_invertible (M N : Cl n sig) (hMN : M * N = 0) (hN : N ≠ 0) : ¬ ∃ X : Cl n sig, X * M = 1 :=
  Cl.zero_divisor_not_invertible M N hMN hN
/-- … in particular every multiple of `1 + e` with `e*e = 1` (`e ≠ 1`) is singular -/
theorem one_add_e_singular (e : Cl n sig) (he : e * e = 1) (hne : e ≠ 1) (k : R) :
    ¬ ∃ X : Cl n sig, X * (k • (1 + e)) = 1 := Cl.one_add_e_singular e he hne k

/-- `M ** k` for `k ≥ 1`: the loop computes the k-fold product; `M ** 0 = 1` is the `other == 0` branch -/
theorem pow_loop (A : Cl n sig) (k : Nat) (hk : 1 ≤ k) :
    (List.range (k - 1)).foldl (fun acc _ => acc * A) A = A ^ k := Cl.pow_loop A k hk
/-- negative exponents: `(M⁻¹)^k` is the inverse of `M^k` -/
theorem neg_pow (M X : Cl n sig) (h : X * M = 1) (k : Nat) : X ^ k * M ^ k = 1 := Cl.inv_pow M X h k

/-- non-vacuity: in Cl(1) with `e₀² = 1`, `e₀` is its own inverse, and `1 + e₀` is singular -/
example : ∃ e : Cl 1 (fun _ => (1 : ℤ)), e * e = 1 := ⟨Cl.e 0 (by decide), by rw [Cl.e_sq]; exact one_smul _ _⟩

end C05
