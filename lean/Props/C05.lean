import Proofs.InvProps
import Proofs.Hitzer5
import Proofs.Blade
import Proofs.LaInv
import Proofs.Shirokov

/-! # C05 — inverses, division and integer powers are true two-sided algebra inverses / powers

`Cl n sig` is the model algebra as a Mathlib `Ring`/`Algebra R` (any `n`, commutative ring `R`, signature). -/

namespace C05

variable {R : Type} [CommRing R] {n : Nat} {sig : Nat → R}

/-- a left inverse is a right inverse and vice versa (matrices over a commutative ring are Dedekind-finite) -/
theorem left_inv_iff_right_inv (X M : Cl n sig) : X * M = 1 ↔ M * X = 1 := Cl.left_inv_iff_right_inv X M

/-- hence every method that returns an inverse returns the same element -/
theorem all_methods_agree (X Y M : Cl n sig) (hX : X * M = 1) (hY : Y * M = 1) : X = Y := Cl.inverse_unique X Y M hX hY

/-- `normalInv`: correct whenever `~M*M` is an invertible scalar -/
theorem normalInv_correct (M Mrev : Cl n sig) (q qinv : R) (h : Mrev * M = q • (1 : Cl n sig)) (hq : q * qinv = 1) :
    (qinv • Mrev) * M = 1 ∧ M * (qinv • Mrev) = 1 := Cl.normalInv_correct M Mrev q qinv h hq

/-- closed-form (Hitzer) and Shirokov inverses, final step: **if** `M * numerator` is the scalar `d` (what the code
reads as `(operand * numerator).value[0]`, resp. the last `U_k`) and `d` is invertible, the returned
`numerator / d` is the two-sided inverse.  PARTIAL: that `M * numerator` *is* scalar for the n = 0..5 formulas
(resp. for the Faddeev–LeVerrier recursion) is not proved here; it is exercised against the exact rational
oracle by the correspondence check. -/
theorem hitzer_partial (M num : Cl n sig) (d dinv : R) (h : M * num = d • (1 : Cl n sig)) (hd : d * dinv = 1) :
    M * (dinv • num) = 1 ∧ (dinv • num) * M = 1 := Cl.scaled_inverse M num d dinv h hd
theorem shirokov_partial (M adjU : Cl n sig) (d dinv : R) (h : M * adjU = d • (1 : Cl n sig)) (hd : d * dinv = 1) :
    M * (dinv • adjU) = 1 ∧ (dinv • adjU) * M = 1 := Cl.scaled_inverse M adjU d dinv h hd

/-! ### the closed-form numerators as coded, n = 1..4: `M * numerator` is a scalar — for every multivector and every
signature (symbolic, zeros included).  Together with `hitzer_partial` (whose premise this discharges) the value returned
by `_hitzer_inverse` is the two-sided inverse whenever the denominator is invertible, and the `ValueError` branch is taken
exactly when the scalar `M * numerator` is 0.  (n = 0: the numerator is `1`.) -/

theorem hitzer_scalar_n1 (sig : Nat → R) (M : CMV 1 R) (c : Bm 1) (hc : c ≠ fzero) : gmul 1 sig M (gi 1 M) c = 0 := hitzer1 sig M c hc
theorem hitzer_scalar_n2 (sig : Nat → R) (M : CMV 2 R) (c : Bm 2) (hc : c ≠ fzero) : gmul 2 sig M (cconj 2 M) c = 0 := hitzer2 sig M c hc
/-- n = 3: `numerator = conj M * ~(M * conj M)` -/
theorem hitzer_scalar_n3 (sig : Nat → R) (M : CMV 3 R) (c : Bm 3) (hc : c ≠ fzero) : gmul 3 sig M (num3 sig M) c = 0 := hitzer3 sig M c hc
/-- n = 4: `numerator = conj M * (A - 2 A(3,4))`, `A = M * conj M` -/
theorem hitzer_scalar_n4 (sig : Nat → R) (M : CMV 4 R) (c : Bm 4) (hc : c ≠ fzero) : gmul 4 sig M (num4 sig M) c = 0 := hitzer4 sig M c hc

/-- n = 5 (g3c and every other 5-dimensional algebra): `combo = conj M * ~(M conj M)`, `B = M * combo`,
`numerator = combo * (B - 2 B(1,4))` -/
theorem hitzer_scalar_n5 (sig : Nat → R) (M : CMV 5 R) (c : Bm 5) (hc : c ≠ fzero) : gmul 5 sig M (num5 sig M) c = 0 := hitzer5 sig M c hc

/-- a multivector whose non-scalar components vanish is its scalar component times 1 -/
theorem scalar_of_components (n : Nat) (X : CMV n R) (h : ∀ c, c ≠ fzero → X c = 0) : X = (X fzero) • one n := by
  funext c
  by_cases hc : c = fzero
  · subst hc; simp [one, smul_eq_mul_R]
  · rw [h c hc]; simp [one, hc, smul_eq_mul_R]

/-- **closed-form inverse, full statement** (n = 1..5 through the `hitzer_scalar_n*` theorems): if the denominator
`d = (M * numerator)[scalar]` is invertible, `numerator / d` is the two-sided inverse of `M` -/
theorem closed_form_correct (n : Nat) (sig : Nat → R) (M num : Cl n sig) (hs : ∀ c, c ≠ fzero → (M * num) c = 0)
    (dinv : R) (hd : (M * num) fzero * dinv = 1) : M * (dinv • num) = 1 ∧ (dinv • num) * M = 1 :=
  Cl.scaled_inverse M num ((M * num) fzero) dinv (scalar_of_components n (M * num) hs) hd

theorem hitzer_correct_n5 (sig : Nat → R) (M : Cl 5 sig) (dinv : R) (hd : (M * (asCl (num5 sig M) : Cl 5 sig)) fzero * dinv = 1) :
    M * (dinv • (asCl (num5 sig M) : Cl 5 sig)) = 1 ∧ (dinv • (asCl (num5 sig M) : Cl 5 sig)) * M = 1 :=
  closed_form_correct 5 sig M ((asCl (num5 sig M) : Cl 5 sig)) (fun c hc => hitzer5 sig M c hc) dinv hd
theorem hitzer_correct_n4 (sig : Nat → R) (M : Cl 4 sig) (dinv : R) (hd : (M * (asCl (num4 sig M) : Cl 4 sig)) fzero * dinv = 1) :
    M * (dinv • (asCl (num4 sig M) : Cl 4 sig)) = 1 ∧ (dinv • (asCl (num4 sig M) : Cl 4 sig)) * M = 1 :=
  closed_form_correct 4 sig M ((asCl (num4 sig M) : Cl 4 sig)) (fun c hc => hitzer4 sig M c hc) dinv hd
theorem hitzer_correct_n3 (sig : Nat → R) (M : Cl 3 sig) (dinv : R) (hd : (M * (asCl (num3 sig M) : Cl 3 sig)) fzero * dinv = 1) :
    M * (dinv • (asCl (num3 sig M) : Cl 3 sig)) = 1 ∧ (dinv • (asCl (num3 sig M) : Cl 3 sig)) * M = 1 :=
  closed_form_correct 3 sig M ((asCl (num3 sig M) : Cl 3 sig)) (fun c hc => hitzer3 sig M c hc) dinv hd
/-- and when the denominator is 0 in a domain-like sense (`M * numerator = 0` with `numerator ≠ 0`), `M` is a zero divisor: no inverse exists -/
theorem hitzer_singular (n : Nat) (sig : Nat → R) (M num : Cl n sig) (hs : ∀ c, c ≠ fzero → (M * num) c = 0)
    (hd : (M * num) fzero = 0) (hnum : num ≠ 0) : ¬ ∃ X : Cl n sig, X * M = 1 := by
  apply Cl.zero_divisor_not_invertible M num _ hnum
  rw [scalar_of_components n (M * num) hs, hd, zero_smul]
  rfl

/-- a zero divisor has no inverse … -/
theorem zero_divisor_not_invertible (M N : Cl n sig) (hMN : M * N = 0) (hN : N ≠ 0) : ¬ ∃ X : Cl n sig, X * M = 1 :=
  Cl.zero_divisor_not_invertible M N hMN hN
/-- … in particular every multiple of `1 + e` with `e*e = 1` (`e ≠ 1`) is singular -/
theorem one_add_e_singular (e : Cl n sig) (he : e * e = 1) (hne : e ≠ 1) (k : R) :
    ¬ ∃ X : Cl n sig, X * (k • (1 + e)) = 1 := Cl.one_add_e_singular e he hne k

/-- `M ** k` for `k ≥ 1`: the loop computes the k-fold product; `M ** 0 = 1` is the `other == 0` branch -/
theorem pow_loop (A : Cl n sig) (k : Nat) (hk : 1 ≤ k) :
    (List.range (k - 1)).foldl (fun acc _ => acc * A) A = A ^ k := Cl.pow_loop A k hk
/-- negative exponents: `(M⁻¹)^k` is the inverse of `M^k` -/
theorem neg_pow (M X : Cl n sig) (h : X * M = 1) (k : Nat) : X ^ k * M ^ k = 1 := Cl.inv_pow M X h k

/-- non-vacuity: in Cl(1) with `e₀² = 1`, `e₀` is its own inverse, and `1 + e₀` is singular -/
example : ∃ e : Cl 1 (fun _ => (1 : ℤ)), e * e = 1 := ⟨Cl.e 0 (by decide), by rw [Cl.e_sq]; exact one_smul _ _⟩

/-- **`leftLaInv` / `Layout.inv_func`** (the method `inv()` falls back to beyond 5 dimensions): the code builds
    `intermed = get_left_gmt_matrix(M)` from the executable table (`constructGmt`, any storage order `σ`) and solves
    `intermed @ x = e_scalar` (`identity[bitmap_to_index[0]] = 1`). *Any* solution of that system is the two-sided inverse of `M`
    (`np.linalg.solve` / `cond` are parameters: floating-point LAPACK) … -/
theorem leftLaInv_solution_is_inverse (n : Nat) (sig : Nat → Int) (σ : Equiv.Perm (Bm n)) (i2b b2i : Nat → Nat)
    (h1 : ∀ i : Bm n, i2b i.val = (σ i).val) (h2 : ∀ c : Bm n, b2i c.val = (σ.symm c).val)
    (M x : Array R)
    (hsol : ∀ j, j < 2 ^ n → (Model.mulVec (Model.leftMat (2 ^ n) (Model.constructGmt sig i2b b2i (2 ^ n)) M) x).getD j 0 = if j = b2i 0 then 1 else 0) :
    LaInv.ofArr n sig b2i M * LaInv.ofArr n sig b2i x = 1 ∧ LaInv.ofArr n sig b2i x * LaInv.ofArr n sig b2i M = 1 :=
  LaInv.solve_two_sided n sig σ i2b b2i h1 h2 M x hsol

/-- … and conversely the inverse solves it: the system is solvable exactly when `M` is invertible (a singular `M` gives a singular
    matrix, which is what the conditioning test refuses) -/
theorem leftLaInv_inverse_solves_system (n : Nat) (sig : Nat → Int) (σ : Equiv.Perm (Bm n)) (i2b b2i : Nat → Nat)
    (h1 : ∀ i : Bm n, i2b i.val = (σ i).val) (h2 : ∀ c : Bm n, b2i c.val = (σ.symm c).val)
    (M x : Array R) (hinv : LaInv.ofArr n sig b2i M * LaInv.ofArr n sig b2i x = 1) :
    ∀ j, j < 2 ^ n → (Model.mulVec (Model.leftMat (2 ^ n) (Model.constructGmt sig i2b b2i (2 ^ n)) M) x).getD j 0 = if j = b2i 0 then 1 else 0 :=
  LaInv.inverse_solves n sig σ i2b b2i h1 h2 M x hinv

/-- non-vacuity: in Cl(1) with `e1² = 1`, default order, `M = 2` (stored `#[2, 0]`) and `x = #[1/2, 0]` over ℚ solve the system -/
example : ∀ j, j < 2 ^ 1 → (Model.mulVec (Model.leftMat (2 ^ 1) (Model.constructGmt (fun _ => 1) id id (2 ^ 1)) (#[2, 0] : Array ℚ)) #[1/2, 0]).getD j 0
    = if j = (id 0 : Nat) then 1 else 0 := by
  intro j hj
  have : j = 0 ∨ j = 1 := by omega
  rcases this with rfl | rfl <;> decide +kernel

/-! ### the Shirokov recursion as coded (`_shirokov_inverse`), dimensions 1, 2, 3: after the loop `Uk` is a scalar, for every
multivector and every signature (symbolic, zeros included), over any field of characteristic 0 (the divisions `N/k`). Hence the value
returned, `adjU / Uk[0]`, is the two-sided inverse whenever `Uk[0]` is invertible, and the `ValueError` branch (`Uk[0] == 0`) is taken only
for zero divisors. Dimensions ≥ 4 remain `shirokov_partial` (the expanded quartic / octic does not elaborate within the heartbeat limit). -/
section Shirokov
variable {K : Type} [Field K] [CharZero K]

theorem shirokov_scalar_n1 (sig : Nat → K) (U : CMV 1 K) (c : Bm 1) (hc : c ≠ fzero) : (shLoop 1 sig U (2 ^ ((1 + 1) / 2))).1 c = 0 := shirokov1 sig U c hc
theorem shirokov_scalar_n2 (sig : Nat → K) (U : CMV 2 K) (c : Bm 2) (hc : c ≠ fzero) : (shLoop 2 sig U (2 ^ ((2 + 1) / 2))).1 c = 0 := shirokov2 sig U c hc
theorem shirokov_scalar_n3 (sig : Nat → K) (U : CMV 3 K) (c : Bm 3) (hc : c ≠ fzero) : (shLoop 3 sig U (2 ^ ((3 + 1) / 2))).1 c = 0 := shirokov3 sig U c hc

theorem shirokov_correct_n1 (sig : Nat → K) (M : Cl 1 sig) (dinv : K) (hd : (shLoop 1 sig M 2).1 fzero * dinv = 1) :
    M * (dinv • (asCl (shLoop 1 sig M 2).2 : Cl 1 sig)) = 1 ∧ (dinv • (asCl (shLoop 1 sig M 2).2 : Cl 1 sig)) * M = 1 :=
  closed_form_correct 1 sig M (asCl (shLoop 1 sig M 2).2) (fun c hc => shirokov1 sig M c hc) dinv hd
theorem shirokov_correct_n2 (sig : Nat → K) (M : Cl 2 sig) (dinv : K) (hd : (shLoop 2 sig M 2).1 fzero * dinv = 1) :
    M * (dinv • (asCl (shLoop 2 sig M 2).2 : Cl 2 sig)) = 1 ∧ (dinv • (asCl (shLoop 2 sig M 2).2 : Cl 2 sig)) * M = 1 :=
  closed_form_correct 2 sig M (asCl (shLoop 2 sig M 2).2) (fun c hc => shirokov2 sig M c hc) dinv hd
theorem shirokov_correct_n3 (sig : Nat → K) (M : Cl 3 sig) (dinv : K) (hd : (shLoop 3 sig M 4).1 fzero * dinv = 1) :
    M * (dinv • (asCl (shLoop 3 sig M 4).2 : Cl 3 sig)) = 1 ∧ (dinv • (asCl (shLoop 3 sig M 4).2 : Cl 3 sig)) * M = 1 :=
  closed_form_correct 3 sig M (asCl (shLoop 3 sig M 4).2) (fun c hc => shirokov3 sig M c hc) dinv hd
/-- the `ValueError` branch: `Uk[0] = 0` with `adjU ≠ 0` means `M` is a zero divisor -/
theorem shirokov_singular_n3 (sig : Nat → K) (M : Cl 3 sig) (hd : (shLoop 3 sig M 4).1 fzero = 0)
    (hnum : (asCl (shLoop 3 sig M 4).2 : Cl 3 sig) ≠ 0) : ¬ ∃ X : Cl 3 sig, X * M = 1 :=
  hitzer_singular 3 sig M (asCl (shLoop 3 sig M 4).2) (fun c hc => shirokov3 sig M c hc) hd hnum
/-- non-vacuity: in Cl(1) with `e² = 1`, `M = 2`: the loop ends with `Uk = −4`, `adjU = −2`, so the result is `1/2` -/
example : (shLoop 1 (fun _ => (1 : ℚ)) (fun c => if c = fzero then 2 else 0) 2).1 fzero = -4 := by
  simp +decide [shLoop, shStep, List.range', gmul, one, Finset.sum_fin_eq_sum_range, Finset.sum_range_succ, fxor, fzero, s, swaps, metric, sgn, bit,
    Finset.prod_range_succ]
  norm_num
end Shirokov

end C05
