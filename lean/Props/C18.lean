import Proofs.BladeMapP
import Proofs.Recip

/-! # C18 — MVArray, Frame and BladeMap behave as element-wise / linear lifts

`BladeMap.__call__` on coefficient vectors: `P : Pairs R ι κ k` lists `k` pairs of signed basis blades
(`σ p • E_(i p)` ↔ `τ p • F_(j p)`, `σ, τ = ±1`, the `i p` distinct and the `j p` distinct — the situation of
`sta.bm` and of the class docstring). -/

namespace C18
open BladeMapP

variable {R : Type} [CommRing R] {ι κ : Type} [DecidableEq ι] [DecidableEq κ] {k : Nat}

theorem blademap_additive (P : Pairs R ι κ k) (A A' : ι → R) : fwd P (A + A') = fwd P A + fwd P A' := fwd_add P A A'
theorem blademap_homogeneous (P : Pairs R ι κ k) (q : R) (A : ι → R) : fwd P (q • A) = q • fwd P A := fwd_smul P q A

/-- each listed blade goes to its partner -/
theorem blademap_listed (P : Pairs R ι κ k) (hi : Function.Injective P.i) (hσ : ∀ p, P.σ p * P.σ p = 1) (p0 : Fin k) :
    fwd P (fun c => if c = P.i p0 then P.σ p0 else 0) = fun c => if c = P.j p0 then P.τ p0 else 0 := fwd_listed P hi hσ p0

/-- applied twice it is the identity on the span of the listed blades (and a projection onto it in general) -/
theorem blademap_twice (P : Pairs R ι κ k) (hi : Function.Injective P.i) (hj : Function.Injective P.j)
    (hσ : ∀ p, P.σ p * P.σ p = 1) (hτ : ∀ p, P.τ p * P.τ p = 1) (A : ι → R) (c : ι) :
    bwd P (fwd P A) c = if ∃ p, c = P.i p then A c else 0 := bwd_fwd P hi hj hσ hτ A c

/-- `MVArray.sum/gp/op` are left folds starting from the first element -/
theorem mvarray_fold {α : Type} (f : α → α → α) (x : α) (xs : List α) : foldLoop f (x :: xs) = some (xs.foldl f x) := rfl

/-- `is_innermorphic_to` (absolute difference against eps) is symmetric in the two frames -/
theorem innermorphic_symmetric {K : Type} [Ring K] [LinearOrder K] [IsOrderedRing K] (a b eps : K) :
    |b - a| < eps ↔ |a - b| < eps := innermorphic_symm a b eps

/-- non-vacuity: one pair `E_0 ↔ -F_1` over ℤ -/
def exPairs : Pairs ℤ (Fin 2) (Fin 2) 1 := ⟨fun _ => 0, fun _ => 1, fun _ => 1, fun _ => -1⟩
example : bwd exPairs (fwd exPairs (fun c => if c = 0 then 5 else 7)) 0 = 5 := by
  rw [blademap_twice exPairs (fun a b _ => Subsingleton.elim a b) (fun a b _ => Subsingleton.elim a b) (by intro p; rfl) (by intro p; rfl)]
  simp [exPairs]

end C18

/-! ## reciprocal frame (canonical model: any dimension and signature, any commutative ring in which 2 is invertible) -/
namespace C18
variable {R : Type} [CommRing R] {n : Nat} {sig : Nat → R}

/-- `Frame.En = reduce(op, vectors)` is the right-nested outer product the theorem is stated with -/
theorem frame_volume_element (p : CMV n R) (ps : List (CMV n R)) : wedgeList n p ps = wprod n (p :: ps) := wedgeList_eq_wprod n p ps

/-- **`Frame.inv`**: for vectors `a_1 … a_m` with invertible volume element `E`, the `k`-th reciprocal vector
    `a^k = (−1)^k (a_1 ∧ … ǎ_k … ∧ a_m) E⁻¹` (`k = |pre|`) satisfies `a_k ⌋ a^k = 1` and `a_i ⌋ a^k = 0` for `i ≠ k` -/
theorem reciprocal_frame (half : R) (hhalf : 2 * half = 1) (pre post : List (CMV n R)) (a : CMV n R)
    (hvec : ∀ v ∈ pre ++ a :: post, IsHom n 1 v) (Einv : Cl n sig)
    (h1 : (asCl (wprod n (pre ++ a :: post)) : Cl n sig) * Einv = 1) (h2 : Einv * asCl (wprod n (pre ++ a :: post)) = 1) :
    (asCl (mmul n sig Model.lcmtCheck a ((sgn pre.length : R) • ((asCl (wprod n (pre ++ post)) : Cl n sig) * Einv))) : Cl n sig) = 1
    ∧ ∀ x ∈ pre ++ post,
        (asCl (mmul n sig Model.lcmtCheck x ((sgn pre.length : R) • ((asCl (wprod n (pre ++ post)) : Cl n sig) * Einv))) : Cl n sig) = 0 :=
  _root_.reciprocal_frame half hhalf pre post a hvec Einv h1 h2

/-- the scalar read by `float(a_i | a^j)` — the grade-0 component of the coded inner product — is that of the contraction -/
theorem inner_scalar_is_contraction_scalar (x Y : CMV n R) (hx : IsHom n 1 x) :
    mmul n sig Model.imtCheck x Y fzero = mmul n sig Model.lcmtCheck x Y fzero := inner_scalar_part_eq_lc n sig x Y hx

end C18
