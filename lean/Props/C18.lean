import Proofs.BladeMapP

/-! # C18 — MVArray, Frame and BladeMap behave as element-wise / linear lifts

`BladeMap.__call__` on coefficient vectors: `P : Pairs R ι κ k` lists `k` pairs of signed basis blades
(`σ p • E_(i p)` ↔ `τ p • F_(j p)`, `σ, τ = ±1`, the `i p` distinct and the `j p` distinct — the situation of
`sta.bm` and of the class docstring). -/

namespace C18
open BladeMapP

variable {R : Type} [CommRing R] {ι κ : Type} [DecidableEq ι] [DecidableEq κ] {k : Nat}

theorem blademap_additive (P : Pairs R ι κ k) (A A' : ι → R) : fwd P (A + A') = fwd P A + fwd P A' := fwd_add P A A'
theorem blademap_homogeneous (P : Pairs R ι κ k) (q : R) (A : ι → R) : fwd P (q • A) = q • fwd P A := fwd_smul P q A

/-- each listed blade goes to its partner -/
theorem blademap_listed (P : Pairs R ι κ k) (hi : Function.Injective P.i) (hσ : ∀ p, P.σ p * P.σ p = 1) (p0 : Fin k) :
    fwd P (fun c => if c = P.i p0 then P.σ p0 else 0) = fun c => if c = P.j p0 then P.τ p0 else 0 := fwd_listed P hi hσ p0

/-- applied twice it is the identity on the span of the listed blades (and a projection onto it in general) -/
theorem blademap_twice (P : Pairs R ι κ k) (hi : Function.Injective P.i) (hj : Function.Injective P.j)
    (hσ : ∀ p, P.σ p * P.σ p = 1) (hτ : ∀ p, P.τ p * P.τ p = 1) (A : ι → R) (c : ι) :
    bwd P (fwd P A) c = if ∃ p, c = P.i p then A c else 0 := bwd_fwd P hi hj hσ hτ A c

/-- `MVArray.sum/gp/op` are left folds starting from the first element -/
theorem mvarray_fold {α : Type} (f : α → α → α) (x : α) (xs : List α) : foldLoop f (x :: xs) = some (xs.foldl f x) := rfl

/-- `is_innermorphic_to` (absolute difference against eps) is symmetric in the two frames -/
theorem innermorphic_symmetric {K : Type} [Ring K] [LinearOrder K] [IsOrderedRing K] (a b eps : K) :
    |b - a| < eps ↔ |a - b| < eps := innermorphic_symm a b eps

/-- non-vacuity: one pair `E_0 ↔ -F_1` over ℤ -/
def exPairs : Pairs ℤ (Fin 2) (Fin 2) 1 := ⟨fun _ => 0, fun _ => 1, fun _ => 1, fun _ => -1⟩
example : bwd exPairs (fwd exPairs (fun c => if c = 0 then 5 else 7)) 0 = 5 := by
  rw [blademap_twice exPairs (fun a b _ => Subsingleton.elim a b) (fun a b _ => Subsingleton.elim a b) (by intro p; rfl) (by intro p; rfl)]
  simp [exPairs]

end C18
