import Proofs.Join15
import Proofs.ConfModel
import Proofs.Classify
import Proofs.Fund
import Proofs.DualC

/-! # C15 — classify() and Blade.mv

The formulas of `classify` (GA4CS table 14.1) and of `Direction.mv`, `Flat.mv`, `Round.mv`, from the defining relations: a
direction blade `E` of grade `k` in base space (anti)commutes with the added basis vectors (`ε = (−1)^k`) and squares to a
scalar.  Products of a vector with a homogeneous element are written by the half-sum formulas, which are theorems about the
coded tables (`coded_*` below).  At the origin the tests and the recovered direction / location / radius are identities; a
translation is a unit versor that fixes `einf`, hence commutes with every test, leaves the direction element `E einf`
invariant, and carries the location `eo + ρ einf` to `up(p) + ρ einf`, whose `down` is `p`.

`DualFlat`: the dual of anything containing `einf` is orthogonal to `einf` (canonical model, duality lemma), and `X * I`
undoes the dual.

PARTIAL: the `== 0` tests in floating point, the grade bookkeeping / class aliases and the error branches are decided by
evaluation on the implementation. -/

namespace C15
open Conf

variable {A : Type} [Ring A] [Algebra ℚ A] {x a ep en : A} {qx qa b : ℚ}

/-- `T_p eo ~T_p = up(p)`: translating the origin gives the point at `p` -/
theorem translate_origin (r : Rel2 x a ep en qx qa b) :
    transl a ep en * eo ep en * translRev a ep en = up a ep en qa := transl_origin r
/-- `T_p` fixes `einf` -/
theorem translate_fixes_einf (r : Rel2 x a ep en qx qa b) :
    transl a ep en * einf ep en * translRev a ep en = einf ep en := transl_fixes_einf r
/-- `T_p ~T_p = 1` -/
theorem translate_unit (r : Rel2 x a ep en qx qa b) : transl a ep en * translRev a ep en = 1 := transl_unit r

/-! ## the classification formulas -/
open Classify

variable {E : A} {ε e2 : ℚ}

/-- `Direction(E).mv = E ∧ einf = E einf` -/
theorem direction_mv (r : BRel E ep en ε e2) (hε : ε * ε = 1) : wedgev E (einf ep en) ε = E * einf ep en := Classify.direction_mv r hε
/-- a direction passes both tests of the table (`−einf|X = 0`, `einf∧X = 0`) … -/
theorem direction_is_classified (r : BRel E ep en ε e2) (hε : ε * ε = 1) :
    vdot (-(einf ep en)) (E * einf ep en) (-ε) = 0 ∧ vwedge (einf ep en) (E * einf ep en) (-ε) = 0 := direction_tests r hε
/-- … and its direction `X | −eo` is `E` -/
theorem direction_is_recovered (r : BRel E ep en ε e2) (hε : ε * ε = 1) :
    dotv (E * einf ep en) (-(eo ep en)) (-ε) = E := direction_recovered r hε
/-- `Flat(E, 0).mv = eo ∧ E ∧ einf`: `y = −einf|X = E einf` (non-zero, so not a direction), `einf∧X = 0` (so a flat),
    `eo∧X = 0` (the location `(eo|X) X⁻¹` is the origin); its direction `y | −eo = E` by `direction_is_recovered` -/
theorem flat_is_classified (r : BRel E ep en ε e2) (hε : ε * ε = 1) :
    vdot (-(einf ep en)) (flat0 E ep en ε) ε = E * einf ep en
    ∧ vwedge (einf ep en) (flat0 E ep en ε) ε = 0
    ∧ vwedge (eo ep en) (flat0 E ep en ε) ε = 0 := flat_tests r hε
/-- `Round(E, 0, r).mv = (eo + ρ einf) ∧ E = (eo + ρ einf) E`, `ρ = r²/2` -/
theorem round_mv (r : BRel E ep en ε e2) (hε : ε * ε = 1) (ρ : ℚ) : round0 E ep en ε ρ = (eo ep en + ρ • einf ep en) * E :=
  Classify.round_mv r hε ρ
/-- `y = −einf|X = E` (direction `(y∧einf)|−eo = E`; location `X y⁻¹ = eo + ρ einf`) and `X·X̂ = 2ρ E²` with `y² = E²`:
    `radius² = 2ρ = r²` — real, imaginary (`ρ < 0`) or a tangent (`ρ = 0`) -/
theorem round_is_classified (r : BRel E ep en ε e2) (hε : ε * ε = 1) (ρ : ℚ) :
    vdot (-(einf ep en)) (round0 E ep en ε ρ) (-ε) = E
    ∧ round0 E ep en ε ρ * ((-ε) • round0 E ep en ε ρ) = (2 * ρ * e2) • (1 : A) := round_tests r hε ρ

/-- non-vacuity: every base vector of the model of a conformalised layout is a grade-1 direction (`ε = −1`) -/
theorem vectors_are_directions {x : A} {qx' : ℚ} (r : Rel x ep en qx') : BRel x ep en (-1) qx' := BRel.of_vector r

/-! ## translation covariance -/

theorem translation_commutes_with_inner (T Tr v X : A) (σ : ℚ) (h : Tr * T = 1) :
    vdot (T * v * Tr) (T * X * Tr) σ = T * vdot v X σ * Tr := sandwich_vdot T Tr v X σ h
theorem translation_commutes_with_outer (T Tr v X : A) (σ : ℚ) (h : Tr * T = 1) :
    vwedge (T * v * Tr) (T * X * Tr) σ = T * vwedge v X σ * Tr := sandwich_vwedge T Tr v X σ h
theorem translation_fixes_scalars (T Tr : A) (c : ℚ) (h : T * Tr = 1) : T * (c • (1 : A)) * Tr = c • (1 : A) := sandwich_scalar T Tr c h
/-- the direction element is the same at every location -/
theorem direction_element_invariant (E a e : A) (ε : ℚ) (hee : e * e = 0) (hea : e * a = -(a * e)) (heE : e * E = ε • (E * e)) :
    (1 + (1/2 : ℚ) • (e * a)) * (E * e) * (1 + (1/2 : ℚ) • (a * e)) = E * e := direction_translation_invariant E a e ε hee hea heE
/-- the location of a translated round is the translation vector -/
theorem round_location_recovered {p : A} {qp : ℚ} (r : Rel p ep en qp) (ρ : ℚ) :
    transl p ep en * (eo ep en + ρ • einf ep en) * translRev p ep en = up p ep en qp + ρ • einf ep en
    ∧ (1/2 : ℚ) • ((up p ep en qp + ρ • einf ep en) * einf ep en + einf ep en * (up p ep en qp + ρ • einf ep en)) = -1
    ∧ ((1/2 : ℚ) • ((up p ep en qp + ρ • einf ep en) * E0 ep en + E0 ep en * (up p ep en qp + ρ • einf ep en))) * E0 ep en = p :=
  round_location r ρ

end C15

/-! ## the half-sum formulas are the coded tables (canonical model, any commutative ring, any dimension and signature) -/
namespace C15
variable {R : Type} [CommRing R] (n : Nat) (sig : Nat → R)

theorem coded_vector_inner_blade (g : Nat) (hg : 1 ≤ g) (x B : CMV n R) (hx : IsHom n 1 x) (hB : IsHom n g B) :
    mmul n sig Model.imtCheck x B + mmul n sig Model.imtCheck x B = gmul n sig x B - (sgn g : R) • gmul n sig B x :=
  two_inner_vector_hom n sig g hg x B hx hB
theorem coded_blade_inner_vector (g : Nat) (hg : 1 ≤ g) (x B : CMV n R) (hx : IsHom n 1 x) (hB : IsHom n g B) :
    mmul n sig Model.imtCheck B x = (-(sgn g : R)) • mmul n sig Model.lcmtCheck x B := blade_inner_vector n sig g hg x B hx hB
theorem coded_vector_wedge_blade (g : Nat) (x B : CMV n R) (hx : IsHom n 1 x) (hB : IsHom n g B) :
    wedge n x B + wedge n x B = gmul n sig x B + (sgn g : R) • gmul n sig B x := two_wedge_vector_hom n sig g x B hx hB
theorem coded_blade_wedge_vector (g : Nat) (x B : CMV n R) (hx : IsHom n 1 x) (hB : IsHom n g B) :
    wedge n B x = (sgn g : R) • wedge n x B := wedge_blade_vector n g x B hx hB

/-- **DualFlat**: for the pseudoscalar `I` (any invertible top-grade element), every vector `x` and any `F` with `x ∧ F = 0`,
    the dual `F I⁻¹` is orthogonal to `x`: `x ⌋ (F I⁻¹) = 0` — with `x = einf` this is the test `−einf | X == 0` that sends the
    dual of a flat (`einf ∧ F = 0`) to the `DualFlat` branch of `classify`; undualising (`X * I`) gives `F` back -/
theorem dualflat_is_orthogonal_to_einf {n : Nat} {sig : Nat → R} (half : R) (hhalf : 2 * half = 1) (x I Iinv F : Cl n sig)
    (hx : IsHom n 1 x) (hI : IsHom n n I) (h1 : I * Iinv = 1) (h2 : Iinv * I = 1) (hF : wedge n x F = 0) :
    (asCl (mmul n sig Model.lcmtCheck x (F * Iinv)) : Cl n sig) = 0 :=
  lc_dual_of_wedge_zero half hhalf x I Iinv F hx hI h1 h2 hF
theorem dualflat_undual {n : Nat} {sig : Nat → R} (I Iinv F : Cl n sig) (h2 : Iinv * I = 1) : (F * Iinv) * I = F := by
  rw [mul_assoc, h2, mul_one]


/-! ### the join, in Lean: the half-sum forms ARE the coded `|` and `^`

`Classify.vdot / dotv / vwedge / wedgev` (the forms in which every classification identity above is stated) equal the coded inner / outer
products of a vector with a homogeneous element of grade `g` (σ = (−1)^g), in the model `Cl N sig` over ℚ, for every `N` and signature.
With these four equalities each identity above is a statement about `Layout.imt_func` / `omt_func` as soon as its operands are
homogeneous — which is `classify`'s own precondition. -/
section Join
variable {N : Nat} {sig : Nat → ℚ}

theorem coded_inner_is_vdot (g : Nat) (hg : 1 ≤ g) (v X : Cl N sig) (hv : IsHom N 1 v) (hX : IsHom N g X) :
    (asCl (mmul N sig Model.imtCheck v X) : Cl N sig) = Classify.vdot v X (sgn g : ℚ) := Cl.coded_vdot g hg v X hv hX
theorem coded_inner_is_dotv (g : Nat) (hg : 1 ≤ g) (v X : Cl N sig) (hv : IsHom N 1 v) (hX : IsHom N g X) :
    (asCl (mmul N sig Model.imtCheck X v) : Cl N sig) = Classify.dotv X v (sgn g : ℚ) := Cl.coded_dotv g hg v X hv hX
theorem coded_outer_is_vwedge (g : Nat) (v X : Cl N sig) (hv : IsHom N 1 v) (hX : IsHom N g X) :
    (asCl (wedge N v X) : Cl N sig) = Classify.vwedge v X (sgn g : ℚ) := Cl.coded_vwedge g v X hv hX
theorem coded_outer_is_wedgev (g : Nat) (v X : Cl N sig) (hv : IsHom N 1 v) (hX : IsHom N g X) :
    (asCl (wedge N X v) : Cl N sig) = Classify.wedgev X v (sgn g : ℚ) := Cl.coded_wedgev g v X hv hX

end Join

end C15
