import Proofs.ConfModel

/-! # C15 — classify() and Blade.mv: the translation versor used by `_translate` (algebraic core)

PARTIAL: the decision table of `classify`, the four `mv` properties and the recovered direction/location/radius are
decided by evaluation on the implementation (integer directions, dyadic locations and radii, base dimension 2..4). -/

namespace C15
open Conf

variable {A : Type} [Ring A] [Algebra ℚ A] {x a ep en : A} {qx qa b : ℚ}

/-- `T_p eo ~T_p = up(p)`: translating the origin gives the point at `p` -/
theorem translate_origin (r : Rel2 x a ep en qx qa b) :
    transl a ep en * eo ep en * translRev a ep en = up a ep en qa := transl_origin r
/-- `T_p` fixes `einf` -/
theorem translate_fixes_einf (r : Rel2 x a ep en qx qa b) :
    transl a ep en * einf ep en * translRev a ep en = einf ep en := transl_fixes_einf r
/-- `T_p ~T_p = 1` -/
theorem translate_unit (r : Rel2 x a ep en qx qa b) : transl a ep en * translRev a ep en = 1 := transl_unit r

end C15
