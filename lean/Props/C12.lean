import Proofs.ConfModel
import Proofs.KernelArr
import Proofs.CgaObj
import Proofs.Quat
import Proofs.GaExpModel

/-! # C12 — g3c fast kernels equal their definitions; primitives are exact (algebraic core)

From the defining relations alone (any ℚ-algebra: every base dimension and signature, so in particular g3c):
`fast_up = up`, `down(up(x)) = x` (so `fast_down` inverts `fast_up`), the translation rotor is a unit rotor that
moves `up(x)` to `up(x+a)`, `euc_dist² = (a-b)²`, rotor application composes, and the grade-filtered kernel behind
`fast_dual` is the unrestricted product on a homogeneous left operand.
The primitives that involve `sqrt` / `cosh` / `cos` are proved with the transcendental value as a parameter constrained by
its algebraic law (`a² − b² = 1`, `c² + s² = 1`, `β = −γ`): dilation and rotation rotors, `point_pair_to_end_points`,
sphere centre and radius.
PARTIAL: that libm's values satisfy those laws to rounding, quaternion/matrix conversions, projections, the cost and
parameterisation kernels and the explicit rotor extractors are decided by evaluation on the implementation. -/

namespace C12
open Conf

variable {A : Type} [Ring A] [Algebra ℚ A] {x a ep en : A} {qx qa b : ℚ}

/-- `fast_up(x) = x - no + 0.5*(x*x)*ninf` (with `no = -eo`, `ninf = einf`) is `up(x)` -/
theorem fast_up_is_up (r : Rel x ep en qx) :
    x - (-(eo ep en)) + (1/2 : ℚ) • ((x * x) * einf ep en) = up x ep en qx := fast_up_eq_up r

/-- `fast_down(fast_up(x)) = x` -/
theorem fast_down_inverts_up (r : Rel x ep en qx) :
    ((1/2 : ℚ) • (up x ep en qx * E0 ep en + E0 ep en * up x ep en qx)) * E0 ep en = x := down_up r

/-- `generate_translation_rotor(a) = 1 + ninf*a/2` is a unit rotor … -/
theorem translation_rotor_unit (r : Rel2 x a ep en qx qa b) : transl a ep en * translRev a ep en = 1 := transl_unit r
/-- … that moves the point of `x` to the point of `x + a` -/
theorem translation_rotor_moves (r : Rel2 x a ep en qx qa b) :
    transl a ep en * up x ep en qx * translRev a ep en = up (x + a) ep en (qx + qa + 2 * b) := transl_moves_point r

/-- `euc_dist(up a, up b)² = (a - b)²` (`euc_dist = sqrt(-2 X·Y)`) -/
theorem euc_dist_sq {y : A} {qy b' : ℚ} (r : Rel x ep en qx) (ry : Rel y ep en qy) (hxy : x * y + y * x = (2 * b') • (1 : A)) :
    (-2 : ℚ) • ((1/2 : ℚ) • (up x ep en qx * up y ep en qy + up y ep en qy * up x ep en qx)) = (x - y) * (x - y) := dist_sq r ry hxy

/-- `apply_rotor(M, R) = R*M*~R` composes -/
theorem apply_rotor_compose (R1 R2 R1r R2r M : A) : R2 * (R1 * M * R1r) * R2r = (R2 * R1) * M * (R1r * R2r) :=
  Intertwine.apply_rotor_compose R1 R2 R1r R2r M

/-- `rotor_between_planes` / `1 + X2 X1`: the intertwining identity `C X1 = X2 C` for `X1² = X2² = γ = ±1` -/
theorem one_plus_X2X1_intertwines (X1 X2 : A) (γ : ℚ) (hγ : γ * γ = 1) (h1 : X1 * X1 = γ • (1 : A)) (h2 : X2 * X2 = γ • (1 : A)) :
    (1 + γ • (X2 * X1)) * X1 = X2 * (1 + γ • (X2 * X1)) := Intertwine.rotor_between_intertwines X1 X2 γ hγ h1 h2

/-- `fast_dual`: the kernel generated with `grades_a = [5]` contracts the table with the left operand projected onto
grade 5; `I5` is homogeneous of grade 5, so the projection changes nothing -/
theorem fast_dual_kernel {R : Type} [CommRing R] (grade : Nat → Nat) (ga gb : List Nat) (es : List Model.Entry) (i5 m : Array R) (j : Nat) :
    Model.contraction (Model.gradeFilter grade ga gb es) i5 m j
      = Model.contraction es (KernelArr.projGrades grade ga i5) (KernelArr.projGrades grade gb m) j :=
  KernelArr.contraction_gradeFilter grade ga gb es i5 m j

/-- the relations hold in the model of g3c (and of every conformalised layout) for any two base vectors -/
theorem model_relations {N : Nat} {sig : Nat → ℚ} (n : Nat) (hN : N = n + 2) (h1 : sig n = 1) (h2 : sig (n + 1) = -1)
    (v w : Fin N → ℚ) (hv : ∀ i : Fin N, n ≤ i.val → v i = 0) (hw : ∀ i : Fin N, n ≤ i.val → w i = 0) :
    Rel2 (Cl.vec v : Cl N sig) (Cl.vec w) (Cl.e n (by omega)) (Cl.e (n + 1) (by omega)) (Cl.Q N sig v) (Cl.Q N sig w)
      ((Cl.Q N sig (v + w) - Cl.Q N sig v - Cl.Q N sig w) / 2) := Cl.conformal_rel2 n hN h1 h2 v w hv hw

/-! ## primitives with a transcendental parameter -/

/-- `generate_dilation_rotor(k) = cosh(γ/2) + sinh(γ/2)·(ninf∧no)` with `ninf∧no = −E0`: the versor `a − b·E0`, `a² − b² = 1`,
    is a unit rotor mapping the point of `x` to a multiple of the point of `(a+b)²·x` (`= e^γ x = k·x`) -/
theorem dilation_rotor (r : Rel x ep en qx) (a' b' : ℚ) (h : (a' + -b') * (a' - -b') = 1) :
    dil a' (-b') ep en * dilRev a' (-b') ep en = 1 ∧
    dil a' (-b') ep en * up x ep en qx * dilRev a' (-b') ep en
      = ((a' + -b') * (a' + -b')) • up (((a' - -b') * (a' - -b')) • x) ep en (((a' - -b') * (a' - -b')) * ((a' - -b') * (a' - -b')) * qx) :=
  ⟨dil_is_unit r a' (-b') h, dil_up r a' (-b') h⟩

/-- `generate_rotation_rotor(θ, m, n) = cos(θ/2) − sin(θ/2)·B` for the unit bivector `B` of the plane (`B² = −1`): a unit rotor -/
theorem rotation_rotor_unit (B : A) (c s : ℚ) (hB : B * B = -1) (hcs : c * c + s * s = 1) :
    (c • (1 : A) - s • B) * (c • (1 : A) + s • B) = 1 := by
  have : (c • (1 : A) - s • B) * (c • (1 : A) + s • B) = (c * c) • (1 : A) - (s * s) • (B * B) := by
    simp only [mul_add, sub_mul, smul_mul_assoc, mul_smul_comm, one_mul, mul_one, smul_smul, smul_sub, smul_add]
    rw [mul_comm s c]; abel
  rw [this, hB, smul_neg, sub_neg_eq_add, ← add_smul, hcs, one_smul]

/-- … that turns a vector `m` of the plane (`B m = −m B`) by `θ`: `R m ~R = cos θ·m − sin θ·B m` (`cos θ = c² − s²`, `sin θ = 2cs`) -/
theorem rotation_rotor_turns (B m : A) (c s : ℚ) (hB : B * B = -1) (hm : B * m = -(m * B)) :
    (c • (1 : A) - s • B) * m * (c • (1 : A) + s • B) = (c * c - s * s) • m - (2 * c * s) • (B * m) := by
  have hmB : m * B = -(B * m) := by rw [hm, neg_neg]
  have hBmB : B * m * B = m := by rw [mul_assoc, hmB, mul_neg, ← mul_assoc, hB, neg_mul, one_mul, neg_neg]
  simp only [mul_add, sub_mul, smul_mul_assoc, mul_smul_comm, one_mul, mul_one, smul_smul, smul_sub, smul_add, hmB, hBmB, smul_neg]
  module

/-- … and leaves alone what commutes with `B` (the axis, `eo`, `einf`) -/
theorem rotation_rotor_fixes (B Y : A) (c s : ℚ) (hB : B * B = -1) (hcs : c * c + s * s = 1) (hY : Commute B Y) :
    (c • (1 : A) - s • B) * Y * (c • (1 : A) + s • B) = Y :=
  versor_fixes _ _ Y (((Commute.one_left Y).smul_left c).sub_left (hY.smul_left s)) (rotation_rotor_unit B c s hB hcs)

/-- `point_pair_to_end_points(P∧Q)`: for null `P`, `Q` with `P·Q = γ ≠ 0`, `T = P∧Q` satisfies `T² = γ²`, and with
    `β = −γ` (`= √|T²|` for points at positive distance), `F = T/β`: `½(1+F)(Q−P) = Q`, `−½(1−F)(Q−P) = P`;
    `T|einf = Q − P` for normalised points -/
theorem point_pair_square {P Q : A} {γ : ℚ} (h : PointPair.Null2 P Q γ) : PointPair.pp P Q * PointPair.pp P Q = (γ * γ) • (1 : A) :=
  PointPair.pp_sq h
theorem point_pair_end_points {P Q : A} {γ : ℚ} (h : PointPair.Null2 P Q γ) (hγ : γ ≠ 0) :
    ((1/2 : ℚ) • ((-1/γ) • PointPair.pp P Q) + (1/2 : ℚ) • (1 : A)) * (Q - P) = Q
    ∧ -(((-(1/2) : ℚ)) • ((-1/γ) • PointPair.pp P Q) + (1/2 : ℚ) • (1 : A)) * (Q - P) = P := PointPair.end_points h hγ
theorem point_pair_dot_einf {P Q : A} {γ : ℚ} (h : PointPair.Null2 P Q γ) (e : A)
    (hPe : e * P = (-2 : ℚ) • (1 : A) - P * e) (hQe : e * Q = (-2 : ℚ) • (1 : A) - Q * e) :
    (1/2 : ℚ) • (PointPair.pp P Q * e - e * PointPair.pp P Q) = Q - P := PointPair.pp_dot_einf h e hPe hQe

/-- `get_center_from_sphere(S) = S·ninf·S`, `get_radius_from_sphere`: for the dual sphere `σ = up(c) − ½ρ²·einf`
    (and `S = λ σ J` through the duality) -/
theorem sphere_centre (r : Rel x ep en qx) (ρ lam ε j : ℚ) (J : A) (hε : ε * ε = 1)
    (hJs : J * dualSphere x ep en qx ρ = ε • (dualSphere x ep en qx ρ * J)) (hJe : J * einf ep en = ε • (einf ep en * J))
    (hJ : J * J = j • (1 : A)) :
    (lam • (dualSphere x ep en qx ρ * J)) * einf ep en * (lam • (dualSphere x ep en qx ρ * J)) = (-2 * lam * lam * j) • up x ep en qx :=
  Conf.round_center r ρ lam ε j J hε hJs hJe hJ
theorem sphere_radius (r : Rel x ep en qx) (ρ : ℚ) :
    dualSphere x ep en qx ρ * dualSphere x ep en qx ρ = (2 * ρ) • (1 : A)
    ∧ (1/2 : ℚ) • (dualSphere x ep en qx ρ * einf ep en + einf ep en * dualSphere x ep en qx ρ) = -1 :=
  ⟨dualSphere_sq r ρ, dualSphere_dot_einf r ρ⟩


/-! ### g3 conversions (clifford/tools/g3): quaternion ↔ rotation matrix ↔ rotor -/
section Conversions
open Quat Ship

/-- `quaternion_to_matrix(q)` is orthogonal for a unit quaternion: `M Mᵀ = I + 4(|q|²−1)(|u|² I − u uᵀ)` (any field) -/
theorem quaternion_matrix_rows {K : Type} [Field K] (w x y z : K) (i j : Fin 3) :
    mat w x y z i 0 * mat w x y z j 0 + mat w x y z i 1 * mat w x y z j 1 + mat w x y z i 2 * mat w x y z j 2
      = (if i = j then 1 else 0) + 4 * (w^2 + x^2 + y^2 + z^2 - 1) *
          ((if i = j then x^2 + y^2 + z^2 else 0) - ![x, y, z] i * ![x, y, z] j) := mat_rows w x y z i j

/-- **round trip** over ℝ with the real square root and the code's branch selection: for every unit quaternion
    `rotation_matrix_to_quaternion(quaternion_to_matrix(q)) = q` or `= −q` -/
theorem matrix_quaternion_round_trip (w x y z : ℝ) (hq : w^2 + x^2 + y^2 + z^2 = 1) :
    m2q (mat w x y z) = (w, x, y, z) ∨ m2q (mat w x y z) = (-w, -x, -y, -z) := m2q_mat w x y z hq

variable {e : Fin 5 → A} {sig : Fin 5 → ℚ}

/-- the rotor of a quaternion acts on vectors as the quaternion's matrix does: `R v ~R = M(q) v + (|q|² − 1) v` -/
theorem rotor_acts_as_matrix (G : Gens e sig) (h0 : sig 0 = 1) (h1 : sig 1 = 1) (h2 : sig 2 = 1) (w x y z a b c : ℚ) :
    toRotor e w x y z * vec3 e a b c * toRotorRev e w x y z
      = vec3 e (mat w x y z 0 0 * a + mat w x y z 0 1 * b + mat w x y z 0 2 * c)
               (mat w x y z 1 0 * a + mat w x y z 1 1 * b + mat w x y z 1 2 * c)
               (mat w x y z 2 0 * a + mat w x y z 2 1 * b + mat w x y z 2 2 * c)
        + (w^2 + x^2 + y^2 + z^2 - 1) • vec3 e a b c := Quat.rotor_acts_as_matrix G h0 h1 h2 w x y z a b c

/-- `R ~R = |q|²`: unit quaternions give unit rotors -/
theorem quaternion_rotor_norm (G : Gens e sig) (h0 : sig 0 = 1) (h1 : sig 1 = 1) (h2 : sig 2 = 1) (w x y z : ℚ) :
    toRotor e w x y z * toRotorRev e w x y z = (w^2 + x^2 + y^2 + z^2) • (1 : A) := rotor_norm G h0 h1 h2 w x y z

/-- `rotor_to_quaternion(quaternion_to_rotor(q)) = q`: `e123 R = w e123 + (x e1 + y e2 + z e3)`, whose vector coefficients are read -/
theorem rotor_quaternion_round_trip (G : Gens e sig) (h0 : sig 0 = 1) (h1 : sig 1 = 1) (h2 : sig 2 = 1) (w x y z : ℚ) :
    I3 e * toRotor e w x y z = w • I3 e + vec3 e x y z := rotor_to_quaternion_inverts G h0 h1 h2 w x y z

/-- non-vacuity: g3c's model algebra has such generators -/
example : Gens (A := Cl 5 (fun i => ([1, 1, 1, 1, -1] : List ℚ).getD i 0)) (fun i : Fin 5 => Cl.e i.val i.isLt)
    (fun i => ([1, 1, 1, 1, -1] : List ℚ).getD i.val 0) := model_gens 5 _

end Conversions

/-! ### `ga_exp` / `val_exp` / `TR_biv_params_to_rotor` (clifford/tools/g3c/rotor_parameterisation.py) against the series exponential -/
section GaExpSec
open Ship Quat GaExp SeriesP

variable {e : Fin 5 → A} {sig : Fin 5 → ℚ}

/-- **`ga_exp` equals the series exponential of the same bivector, truncation by truncation.** For *every* rotation–translation
    bivector of g3c — unit axis `a`, plane `P = a·e123`, angle `φ`, translation `t = tn + tp` with `tn = (t·a) a` (the code's
    `t_nor`) — the `(N+1)`-term series of `B = φ P + t·ninf` is
    `C + (S φ) P + S·(tp ninf) + (C' + (S' φ) P)·(tn ninf)`, where `C, S` (`C', S'`) are the `N+1` (`N`)-term polynomials of `cos φ`
    and `sin φ / φ`: term for term the coded closed form `coef + coef·(t_nor ninf) + sinc(φ)·(t_par ninf)`, `coef = cos φ + sin φ·P`.
    (That the polynomials converge to libm's `cos`, `sin`, `sinc` is the analytic remainder: evaluation.) -/
theorem ga_exp_is_series_exponential (G : Gens e sig) (h0 : sig 0 = 1) (h1 : sig 1 = 1) (h2 : sig 2 = 1) (h3 : sig 3 = 1) (h4 : sig 4 = -1)
    (a1 a2 a3 t1 t2 t3 φ : ℚ) (ha : a1 ^ 2 + a2 ^ 2 + a3 ^ 2 = 1) (N : Nat) :
    expTrunc (N + 1) (φ • Pl e a1 a2 a3 + vec3 e t1 t2 t3 * ninf e)
      = (Cn (N + 1) (-(φ ^ 2))) • (1 : A) + (Sn (N + 1) (-(φ ^ 2)) * φ) • Pl e a1 a2 a3
          + (Sn (N + 1) (-(φ ^ 2))) • (tpar e a1 a2 a3 t1 t2 t3 * ninf e)
        + ((Cn N (-(φ ^ 2))) • (1 : A) + (Sn N (-(φ ^ 2)) * φ) • Pl e a1 a2 a3) * (tnor e a1 a2 a3 t1 t2 t3 * ninf e) := by
  have ht : vec3 e t1 t2 t3 = tnor e a1 a2 a3 t1 t2 t3 + tpar e a1 a2 a3 t1 t2 t3 := by simp only [tpar]; abel
  rw [ht]
  exact series_closed_form _ _ _ _ φ (Pl_sq G h0 h1 h2 h3 h4 a1 a2 a3 ha) (ninf_sq G h0 h1 h2 h3 h4 a1 a2 a3 ha)
    (Pl_ninf G h0 h1 h2 h3 h4 a1 a2 a3 ha) (tnor_ninf G h0 h1 h2 h3 h4 a1 a2 a3 t1 t2 t3 ha) (tpar_ninf G h0 h1 h2 h3 h4 a1 a2 a3 t1 t2 t3 ha)
    (Pl_tnor G h0 h1 h2 h3 h4 a1 a2 a3 t1 t2 t3 ha) (Pl_tpar G h0 h1 h2 h3 h4 a1 a2 a3 t1 t2 t3 ha) N

/-- the coded closed form is a unit rotor for any `c² + s² = 1` (and any value `σ` in the place of `sinc φ`):
    `R ~R = 1` with `~R = (1 − tn ninf)(c − s P) − σ (tp ninf)` -/
theorem ga_exp_unit_rotor (G : Gens e sig) (h0 : sig 0 = 1) (h1 : sig 1 = 1) (h2 : sig 2 = 1) (h3 : sig 3 = 1) (h4 : sig 4 = -1)
    (a1 a2 a3 t1 t2 t3 c s σ : ℚ) (ha : a1 ^ 2 + a2 ^ 2 + a3 ^ 2 = 1) (hcs : c ^ 2 + s ^ 2 = 1) :
    ((c • (1 : A) + s • Pl e a1 a2 a3) * (1 + tnor e a1 a2 a3 t1 t2 t3 * ninf e) + σ • (tpar e a1 a2 a3 t1 t2 t3 * ninf e))
      * ((1 - tnor e a1 a2 a3 t1 t2 t3 * ninf e) * (c • (1 : A) - s • Pl e a1 a2 a3) - σ • (tpar e a1 a2 a3 t1 t2 t3 * ninf e)) = 1 :=
  closed_form_unit _ _ _ _ (Pl_sq G h0 h1 h2 h3 h4 a1 a2 a3 ha) (ninf_sq G h0 h1 h2 h3 h4 a1 a2 a3 ha)
    (Pl_ninf G h0 h1 h2 h3 h4 a1 a2 a3 ha) (tnor_ninf G h0 h1 h2 h3 h4 a1 a2 a3 t1 t2 t3 ha) (tpar_ninf G h0 h1 h2 h3 h4 a1 a2 a3 t1 t2 t3 ha)
    (Pl_tnor G h0 h1 h2 h3 h4 a1 a2 a3 t1 t2 t3 ha) (Pl_tpar G h0 h1 h2 h3 h4 a1 a2 a3 t1 t2 t3 ha) c s σ hcs

/-- the rotation-free branch of `val_exp` (`phi == 0`, repaired in `fix:` 4db2137): `B = t·ninf` is null, its series is exactly
    `1 + B`, a unit rotor -/
theorem ga_exp_translation_branch (G : Gens e sig) (h3 : sig 3 = 1) (h4 : sig 4 = -1) (t1 t2 t3 : ℚ) (N : Nat) (hN : 2 ≤ N) :
    expTrunc N (vec3 e t1 t2 t3 * ninf e) = 1 + vec3 e t1 t2 t3 * ninf e
    ∧ (1 + vec3 e t1 t2 t3 * ninf e) * (1 - vec3 e t1 t2 t3 * ninf e) = 1 := by
  refine translation_branch _ _ ?_ ?_ N hN
  · simp only [ninf]; gens_nf G; simp only [h3, h4]; module
  · simp only [ninf, vec3]; gens_nf G; module

end GaExpSec

end C12
