import Proofs.ConfModel
import Proofs.KernelArr

/-! # C12 — g3c fast kernels equal their definitions; primitives are exact (algebraic core)

From the defining relations alone (any ℚ-algebra: every base dimension and signature, so in particular g3c):
`fast_up = up`, `down(up(x)) = x` (so `fast_down` inverts `fast_up`), the translation rotor is a unit rotor that
moves `up(x)` to `up(x+a)`, `euc_dist² = (a-b)²`, rotor application composes, and the grade-filtered kernel behind
`fast_dual` is the unrestricted product on a homogeneous left operand.
PARTIAL: everything that needs `sqrt`, trigonometric/hyperbolic functions or branch analysis (dilation and rotation
rotors, `point_pair_to_end_points`, sphere centre/radius, quaternion/matrix conversions, projections, the cost and
parameterisation kernels, explicit rotor extractors) is decided by evaluation on the implementation. -/

namespace C12
open Conf

variable {A : Type} [Ring A] [Algebra ℚ A] {x a ep en : A} {qx qa b : ℚ}

/-- `fast_up(x) = x - no + 0.5*(x*x)*ninf` (with `no = -eo`, `ninf = einf`) is `up(x)` -/
theorem fast_up_is_up (r : Rel x ep en qx) :
    x - (-(eo ep en)) + (1/2 : ℚ) • ((x * x) * einf ep en) = up x ep en qx := fast_up_eq_up r

/-- `fast_down(fast_up(x)) = x` -/
theorem fast_down_inverts_up (r : Rel x ep en qx) :
    ((1/2 : ℚ) • (up x ep en qx * E0 ep en + E0 ep en * up x ep en qx)) * E0 ep en = x := down_up r

/-- `generate_translation_rotor(a) = 1 + ninf*a/2` is a unit rotor … -/
theorem translation_rotor_unit (r : Rel2 x a ep en qx qa b) : transl a ep en * translRev a ep en = 1 := transl_unit r
/-- … that moves the point of `x` to the point of `x + a` -/
theorem translation_rotor_moves (r : Rel2 x a ep en qx qa b) :
    transl a ep en * up x ep en qx * translRev a ep en = up (x + a) ep en (qx + qa + 2 * b) := transl_moves_point r

/-- `euc_dist(up a, up b)² = (a - b)²` (`euc_dist = sqrt(-2 X·Y)`) -/
theorem euc_dist_sq {y : A} {qy b' : ℚ} (r : Rel x ep en qx) (ry : Rel y ep en qy) (hxy : x * y + y * x = (2 * b') • (1 : A)) :
    (-2 : ℚ) • ((1/2 : ℚ) • (up x ep en qx * up y ep en qy + up y ep en qy * up x ep en qx)) = (x - y) * (x - y) := dist_sq r ry hxy

/-- `apply_rotor(M, R) = R*M*~R` composes -/
theorem apply_rotor_compose (R1 R2 R1r R2r M : A) : R2 * (R1 * M * R1r) * R2r = (R2 * R1) * M * (R1r * R2r) :=
  Intertwine.apply_rotor_compose R1 R2 R1r R2r M

/-- `rotor_between_planes` / `1 + X2 X1`: the intertwining identity `C X1 = X2 C` for `X1² = X2² = γ = ±1` -/
theorem one_plus_X2X1_intertwines (X1 X2 : A) (γ : ℚ) (hγ : γ * γ = 1) (h1 : X1 * X1 = γ • (1 : A)) (h2 : X2 * X2 = γ • (1 : A)) :
    (1 + γ • (X2 * X1)) * X1 = X2 * (1 + γ • (X2 * X1)) := Intertwine.rotor_between_intertwines X1 X2 γ hγ h1 h2

/-- `fast_dual`: the kernel generated with `grades_a = [5]` contracts the table with the left operand projected onto
grade 5; `I5` is homogeneous of grade 5, so the projection changes nothing -/
theorem fast_dual_kernel {R : Type} [CommRing R] (grade : Nat → Nat) (ga gb : List Nat) (es : List Model.Entry) (i5 m : Array R) (j : Nat) :
    Model.contraction (Model.gradeFilter grade ga gb es) i5 m j
      = Model.contraction es (KernelArr.projGrades grade ga i5) (KernelArr.projGrades grade gb m) j :=
  KernelArr.contraction_gradeFilter grade ga gb es i5 m j

/-- the relations hold in the model of g3c (and of every conformalised layout) for any two base vectors -/
theorem model_relations {N : Nat} {sig : Nat → ℚ} (n : Nat) (hN : N = n + 2) (h1 : sig n = 1) (h2 : sig (n + 1) = -1)
    (v w : Fin N → ℚ) (hv : ∀ i : Fin N, n ≤ i.val → v i = 0) (hw : ∀ i : Fin N, n ≤ i.val → w i = 0) :
    Rel2 (Cl.vec v : Cl N sig) (Cl.vec w) (Cl.e n (by omega)) (Cl.e (n + 1) (by omega)) (Cl.Q N sig v) (Cl.Q N sig w)
      ((Cl.Q N sig (v + w) - Cl.Q N sig v - Cl.Q N sig w) / 2) := Cl.conformal_rel2 n hN h1 h2 v w hv hw

end C12
