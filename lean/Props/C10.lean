import Proofs.NumbaEq

/-! # C10 — jitted multivector code and the JIT-disabled build agree with the interpreter

`Model/Numba.lean` holds the overload bodies of `clifford/numba/_multivector.py` (what `@numba.njit` user code
executes); the theorems state that each equals the interpreter-path operation of `Model/MV.lean` on value arrays of
the layout's length.  That numba's typing/lowering implements those bodies is exercised by the correspondence
(one jitted wrapper per catalogue entry), not proved. -/

namespace C10
open Model Model.Ctx

variable (C : Ctx)

theorem add_scalar (a : MV) (q : Rat) (ha : a.size = C.dims) (hs : C.scalarIdx < C.dims) (i : Nat) (hi : i < C.dims) :
    (C.jAddScalar a q).getD i 0 = (C.add a (C.ofScalar q)).getD i 0 := NumbaEq.jAddScalar_eq C a q ha hs i hi
theorem sub_scalar (a : MV) (q : Rat) (ha : a.size = C.dims) (hs : C.scalarIdx < C.dims) (i : Nat) (hi : i < C.dims) :
    (C.jSubScalar a q).getD i 0 = (C.sub a (C.ofScalar q)).getD i 0 := NumbaEq.jSubScalar_eq C a q ha hs i hi
theorem mul_scalar (a : MV) (q : Rat) (ha : a.size = C.dims) (i : Nat) (hi : i < C.dims) :
    (C.jMulScalar a q).getD i 0 = (C.smul q a).getD i 0 := NumbaEq.jMulScalar_eq C a q ha i hi
theorem or_scalar (a : MV) (q : Rat) (i : Nat) : (C.jOrScalar a q).getD i 0 = 0 := NumbaEq.jOrScalar_zero C a q i
theorem pow_zero (a : MV) (ha : a.size = C.dims) (hs : C.scalarIdx < C.dims) (i : Nat) (hi : i < C.dims) :
    (C.jPow a 0).getD i 0 = (C.one).getD i 0 := NumbaEq.jPow_zero C a ha hs i hi
theorem pow_pos (a : MV) (n : Nat) (hn : n ≠ 0) : C.jPow a n = C.powNat a n := NumbaEq.jPow_pos C a n hn
theorem call_single_grade (g : Nat) (a : MV) (ha : a.size = C.dims) (i : Nat) (hi : i < C.dims) :
    (C.jCall [g] a).getD i 0 = (C.gradeProj g a).getD i 0 := NumbaEq.jCall_single C g a ha i hi
theorem call_two_distinct_grades (g h : Nat) (hgh : g ≠ h) (a : MV) (ha : a.size = C.dims) (i : Nat) (hi : i < C.dims) :
    (C.jCall [g, h] a).getD i 0 = (C.gradeProj g a).getD i 0 + (C.gradeProj h a).getD i 0 := NumbaEq.jCall_pair C g h hgh a ha i hi
theorem mag2_same (a : MV) : C.jMag2 a = C.mag2 a := rfl

/-- `NUMBA_DISABLE_JIT=1`: the pure-Python `count_set_bits` loop equals the population count -/
theorem count_set_bits_fallback (x : Nat) : countSetBitsLoop x = popcount x := NumbaEq.countSetBitsLoop_eq_popcount x

end C10
