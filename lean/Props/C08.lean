import Proofs.ConfModel
import Proofs.Blade
import Proofs.Fund
import Proofs.ConfCoded

/-! # C08 — conformal point embeddings satisfy the model identities

`Conf.Rel x ep en q` collects the defining relations between a base vector `x` (`x² = q`) and the added pair
(`ep² = 1`, `en² = -1`, everything anticommutes).  The identities are derived from the relations alone, in any
ℚ-algebra — hence for every base dimension and every base signature at once — and `model_satisfies_relations`
shows the relations hold in the model algebra of every conformalised layout.  For vectors `a·b = ½(ab+ba)`;
for a vector `v` and the bivector `E0`, `v∧E0 = ½(v E0 + E0 v)`. -/

namespace C08
open Conf

variable {A : Type} [Ring A] [Algebra ℚ A] {x ep en : A} {q : ℚ}

theorem eo_is_null (r : Rel x ep en q) : eo ep en * eo ep en = 0 := eo_null r
theorem einf_is_null (r : Rel x ep en q) : einf ep en * einf ep en = 0 := einf_null r
theorem eo_dot_einf_eq (r : Rel x ep en q) :
    (1/2 : ℚ) • (eo ep en * einf ep en + einf ep en * eo ep en) = -1 := eo_dot_einf r
theorem E0_squares_to_one (r : Rel x ep en q) : E0 ep en * E0 ep en = 1 := E0_sq r
/-- `X = up(x)` is null -/
theorem up_is_null (r : Rel x ep en q) : up x ep en q * up x ep en q = 0 := up_null r
/-- `X · einf = -1` -/
theorem up_dot_einf_eq (r : Rel x ep en q) :
    (1/2 : ℚ) • (up x ep en q * einf ep en + einf ep en * up x ep en q) = -1 := up_dot_einf r
/-- `up(x) · up(y) = -(x - y)²/2` -/
theorem distance_identity {y : A} {qy b : ℚ} (r : Rel x ep en q) (ry : Rel y ep en qy)
    (hxy : x * y + y * x = (2 * b) • (1 : A)) :
    (1/2 : ℚ) • (up x ep en q * up y ep en qy + up y ep en qy * up x ep en q) = (-(1/2 : ℚ) * (q + qy - 2 * b)) • (1 : A)
    ∧ (x - y) * (x - y) = (q + qy - 2 * b) • (1 : A) := ⟨up_dot_up r ry hxy, sub_sq_base r ry hxy⟩
/-- `homo` removes any scale `s`: the divisor `-(sX)·einf` is `s` -/
theorem homo_removes_scale (r : Rel x ep en q) (s : ℚ) :
    -((1/2 : ℚ) • ((s • up x ep en q) * einf ep en + einf ep en * (s • up x ep en q))) = s • (1 : A) := homo_scale r s
/-- `down(up(x)) = x` -/
theorem down_up_id (r : Rel x ep en q) :
    ((1/2 : ℚ) • (up x ep en q * E0 ep en + E0 ep en * up x ep en q)) * E0 ep en = x := down_up r

/-- the relations hold in the model algebra of a conformalised layout (`added_sig = [1, -1]`), for every base
vector (zero coordinates on the two added generators), any base dimension `n` and base signature -/
theorem model_satisfies_relations {N : Nat} {sig : Nat → ℚ} (n : Nat) (hN : N = n + 2) (h1 : sig n = 1) (h2 : sig (n + 1) = -1)
    (v : Fin N → ℚ) (hv : ∀ i : Fin N, n ≤ i.val → v i = 0) :
    Rel (Cl.vec v : Cl N sig) (Cl.e n (by omega)) (Cl.e (n + 1) (by omega)) (Cl.Q N sig v) :=
  Cl.conformal_rel n hN h1 h2 v hv

/-- the link between the abstract identities above and the coded tables: on vectors the inner-product table gives
`2 (a | b) = ab + ba` and the outer-product table `2 (a ∧ b) = ab − ba` (any `n`, commutative ring, signature) -/
theorem inner_is_half_anticommutator {R : Type} [CommRing R] (n : Nat) (sig : Nat → R) (a b : CMV n R) (ha : IsHom n 1 a) (hb : IsHom n 1 b) :
    mmul n sig Model.imtCheck a b + mmul n sig Model.imtCheck a b = gmul n sig a b + gmul n sig b a := two_vector_inner n sig a b ha hb
theorem wedge_is_half_commutator {R : Type} [CommRing R] (n : Nat) (sig : Nat → R) (a b : CMV n R) (ha : IsHom n 1 a) (hb : IsHom n 1 b) :
    wedge n a b + wedge n a b = gmul n sig a b - gmul n sig b a := two_vector_wedge n sig a b ha hb

/-- … and for a vector against a bivector (`v ∧ E0` in `down`): `2 (v ∧ B) = vB + Bv` -/
theorem vector_wedge_bivector {R : Type} [CommRing R] (n : Nat) (sig : Nat → R) (v B : CMV n R) (hv : IsHom n 1 v) (hB : IsHom n 2 B) :
    wedge n v B + wedge n v B = gmul n sig v B + gmul n sig B v := by
  have h := two_wedge_vector_hom n sig 2 v B hv hB
  have h2 : (sgn 2 : R) = 1 := by simp [sgn]
  rw [h2, one_smul] at h; exact h


/-! ### composite statements: the identities with the CODED `|` and `^` tables, in the model of a conformalised layout

`N = n + 2` generators, `sig n = 1`, `sig (n+1) = −1` (the two added vectors), a base vector has zero coordinates on them.
`Cl.upC … v q = vec v + (q/2)·einf + eo` with `q = Q(v) = v·v`; `mmul N sig imtCheck` is the product behind `Layout.imt_func`
(`|`), `wedge N` the one behind `omt_func` (`^`). -/
section Coded
open Cl
variable {N : Nat} {sig : Nat → ℚ} (n : Nat) (hN : N = n + 2) (h1 : sig n = 1) (h2 : sig (n + 1) = -1)
include h1 h2

theorem coded_eo_dot_einf :
    (asCl (mmul N sig Model.imtCheck (eoC sig n hN) (einfC sig n hN)) : Cl N sig) = -1 := Cl.coded_eo_dot_einf n hN h1 h2

theorem coded_up_dot_einf (v : Fin N → ℚ) (hv : ∀ i : Fin N, n ≤ i.val → v i = 0) :
    (asCl (mmul N sig Model.imtCheck (upC sig n hN v (Q N sig v)) (einfC sig n hN)) : Cl N sig) = -1 :=
  Cl.coded_up_dot_einf n hN h1 h2 v hv

/-- `up(x) | up(y) = −½ (Q v + Q w − 2 b)` with `2b = Q(v+w) − Q v − Q w`, i.e. `−(x−y)²/2` -/
theorem coded_distance (v w : Fin N → ℚ) (hv : ∀ i : Fin N, n ≤ i.val → v i = 0) (hw : ∀ i : Fin N, n ≤ i.val → w i = 0) :
    (asCl (mmul N sig Model.imtCheck (upC sig n hN v (Q N sig v)) (upC sig n hN w (Q N sig w))) : Cl N sig)
      = (-(1/2 : ℚ) * (Q N sig v + Q N sig w - 2 * ((Q N sig (v + w) - Q N sig v - Q N sig w) / 2))) • (1 : Cl N sig) :=
  Cl.coded_distance n hN h1 h2 v w hv hw

/-- `homo`: the divisor `−((s·X) | einf)` is `s` -/
theorem coded_homo_scale (v : Fin N → ℚ) (hv : ∀ i : Fin N, n ≤ i.val → v i = 0) (s : ℚ) :
    -(asCl (mmul N sig Model.imtCheck (s • upC sig n hN v (Q N sig v)) (einfC sig n hN)) : Cl N sig) = s • (1 : Cl N sig) :=
  Cl.coded_homo_scale n hN h1 h2 v hv s

omit h1 h2 in
/-- `E0 = einf ∧ eo` with the coded outer product -/
theorem coded_E0 : E0C sig n hN = asCl (wedge N (einfC sig n hN) (eoC sig n hN)) := Cl.E0_eq_wedge n hN

/-- `down(up(x)) = (up(x) ∧ E0) * E0 = x` with the coded outer product -/
theorem coded_down_up (v : Fin N → ℚ) (hv : ∀ i : Fin N, n ≤ i.val → v i = 0) :
    (asCl (wedge N (upC sig n hN v (Q N sig v)) (E0C sig n hN)) : Cl N sig) * E0C sig n hN = vec v :=
  Cl.coded_down_up n hN h1 h2 v hv

end Coded

/-- non-vacuity: Cl(1,0) conformalised (N = 3, sig = (1, 1, -1)), the base vector 3·e₀ -/
example : ∃ q : ℚ, Rel (Cl.vec (fun i : Fin 3 => if i.val = 0 then (3 : ℚ) else 0) : Cl 3 (fun i => if i = 2 then (-1 : ℚ) else 1))
    (Cl.e 1 (by omega)) (Cl.e 2 (by omega)) q :=
  ⟨_, Cl.conformal_rel 1 rfl (by simp) (by simp) _ (fun i hi => by
    have h0 : i.val ≠ 0 := by omega
    simp [h0])⟩

end C08
