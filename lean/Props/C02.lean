import Proofs.Contract
import Proofs.Ext
import Proofs.Graded
import Model.Table
import Proofs.Storage
import Proofs.KernelArr
import Proofs.Refine

/-! # C02 — outer, inner and left-contraction products are the right grade parts of A*B

`mmul n sig chk` is the product defined by the geometric table masked with the code's predicate
`chk(grade result, grade left, grade right)` (what `construct_graded_mt` builds); `gpart n g` is the
grade-`g` part; `IsHom n r A` says `A` is homogeneous of grade `r`. Any `n`, any commutative ring,
any signature. -/

namespace C02
open Finset Model

variable {R : Type} [CommRing R] (n : Nat) (sig : Nat → R)

/-- `A ^ B` is the grade `r+s` part of `A*B` -/
theorem outer_is_grade_sum (r t : Nat) (A B : CMV n R) (hA : IsHom n r A) (hB : IsHom n t B) :
    mmul n sig omtCheck A B = gpart n (r + t) (gmul n sig A B) :=
  mmul_hom n sig omtCheck r t (r + t) (fun v => omtCheck_iff v r t) A B hA hB

/-- `A | B` is the grade `|r-s|` part when both grades are non-zero -/
theorem inner_is_grade_absdiff (r t : Nat) (hr : r ≠ 0) (ht : t ≠ 0) (A B : CMV n R)
    (hA : IsHom n r A) (hB : IsHom n t B) :
    mmul n sig imtCheck A B = gpart n (if r ≤ t then t - r else r - t) (gmul n sig A B) :=
  mmul_hom n sig imtCheck r t _ (fun v => imtCheck_iff v r t hr ht) A B hA hB

/-- `A | B = 0` when the left operand is a scalar -/
theorem inner_scalar_left (t : Nat) (A B : CMV n R) (hA : IsHom n 0 A) (hB : IsHom n t B) :
    mmul n sig imtCheck A B = 0 :=
  mmul_hom_zero n sig imtCheck 0 t (fun v => imtCheck_scalar_left v t) A B hA hB

/-- `A | B = 0` when the right operand is a scalar -/
theorem inner_scalar_right (r : Nat) (A B : CMV n R) (hA : IsHom n r A) (hB : IsHom n 0 B) :
    mmul n sig imtCheck A B = 0 :=
  mmul_hom_zero n sig imtCheck r 0 (fun v => imtCheck_scalar_right v r) A B hA hB

/-- `A << B` is the grade `s-r` part when `r ≤ s` -/
theorem lc_is_grade_diff (r t : Nat) (h : r ≤ t) (A B : CMV n R) (hA : IsHom n r A) (hB : IsHom n t B) :
    mmul n sig lcmtCheck A B = gpart n (t - r) (gmul n sig A B) :=
  mmul_hom n sig lcmtCheck r t (t - r) (fun v => lcmtCheck_iff_of_le v r t h) A B hA hB

/-- `A << B = 0` when `r > s` -/
theorem lc_zero_of_gt (r t : Nat) (h : t < r) (A B : CMV n R) (hA : IsHom n r A) (hB : IsHom n t B) :
    mmul n sig lcmtCheck A B = 0 :=
  mmul_hom_zero n sig lcmtCheck r t (fun v => lcmtCheck_of_gt v r t h) A B hA hB

/-- all three extend bilinearly (any predicate) -/
theorem add_left (chk : Int → Int → Int → Bool) (A A' B : CMV n R) :
    mmul n sig chk (A + A') B = mmul n sig chk A B + mmul n sig chk A' B := mmul_add_left n sig chk A A' B
theorem add_right (chk : Int → Int → Int → Bool) (A B B' : CMV n R) :
    mmul n sig chk A (B + B') = mmul n sig chk A B + mmul n sig chk A B' := mmul_add_right n sig chk A B B'
theorem smul_left (chk : Int → Int → Int → Bool) (q : R) (A B : CMV n R) :
    mmul n sig chk (q • A) B = q • mmul n sig chk A B := mmul_smul_left n sig chk q A B
theorem smul_right (chk : Int → Int → Int → Bool) (q : R) (A B : CMV n R) :
    mmul n sig chk A (q • B) = q • mmul n sig chk A B := mmul_smul_right n sig chk q A B

/-- the outer product does not depend on the signature -/
theorem outer_signature_independent (sig' : Nat → R) (A B : CMV n R) :
    mmul n sig omtCheck A B = mmul n sig' omtCheck A B := by
  rw [mmul_omt_eq_wedge, mmul_omt_eq_wedge]

/-- the outer product is associative -/
theorem outer_assoc (A B C : CMV n R) :
    mmul n sig omtCheck (mmul n sig omtCheck A B) C = mmul n sig omtCheck A (mmul n sig omtCheck B C) := by
  simp only [mmul_omt_eq_wedge]; exact wedge_assoc n A B C

/-- the outer product is alternating on vectors -/
theorem outer_alternating (v : CMV n R) (hv : IsHom n 1 v) : mmul n sig omtCheck v v = 0 := by
  rw [mmul_omt_eq_wedge]; exact wedge_self_vector n v hv

/-- `|a ^ b| + 2|a & b| = |a| + |b|`: the grade bookkeeping behind all three predicates -/
theorem grade_xor (a b : Nat) : pc n (a ^^^ b) + 2 * pc n (a &&& b) = pc n a + pc n b := pc_xor n a b

/-- the executable `gradedMt` keeps exactly the entries the predicate admits (mask of the table) -/
theorem gradedMt_mem (grade : Nat → Nat) (chk : Int → Int → Int → Bool) (es : List Entry) (e : Entry) :
    e ∈ gradedMt grade chk es ↔ e ∈ es ∧ chk (grade e.l) (grade e.k) (grade e.m) = true := by
  simp [gradedMt, List.mem_filter]

/-- **storage level**: the contraction of the *executable* masked table (`gradedMt`, the model of
`construct_graded_mt`; `grade i = count_set_bits(index_to_bitmap[i])`) is the masked canonical product `mmul`
conjugated by the storage order — for `omt`, `imt` and `lcmt` alike (`chk` is the code's predicate) -/
theorem graded_table_contraction_is_mmul (n : Nat) (sig : Nat → Int) (σ : Equiv.Perm (Bm n)) (i2b b2i : Nat → Nat)
    (chk : Int → Int → Int → Bool)
    (h1 : ∀ i : Bm n, i2b i.val = (σ i).val) (h2 : ∀ c : Bm n, b2i c.val = (σ.symm c).val) (a b : Array R) (j : Bm n) :
    contraction (gradedMt (fun i => popcount (i2b i)) chk (constructGmt sig i2b b2i (2 ^ n))) a b j.val
      = mmul n (fun i => ((sig i : Int) : R)) chk (fun c => a.getD (b2i c.val) 0) (fun c => b.getD (b2i c.val) 0) (σ j) := by
  apply storage_bridge_graded n sig σ i2b b2i (fun i => popcount (i2b i)) chk h1 h2 _ a b j
  intro i
  show popcount (i2b i.val) = pc n (σ i).val
  rw [h1 i, popcount_spec n _ (σ i).isLt]; rfl

/-- non-vacuity: a homogeneous grade-1 element exists in every dimension ≥ 1 and the predicates fire -/
example : omtCheck 3 1 2 = true ∧ imtCheck 1 1 2 = true ∧ lcmtCheck 1 1 2 = true ∧ lcmtCheck 1 2 1 = false
    ∧ imtCheck 2 0 2 = false := by decide


/-! ### the canonical definition of the outer product: the exterior algebra

The coded outer product does not depend on the signature: it is the geometric product of the zero-signature model, and that model is
(C01) isomorphic to Mathlib's Clifford algebra of the zero quadratic form on `R^n` — which is how Mathlib *defines* the exterior algebra
`ExteriorAlgebra R (Fin n → R)` (`Cl.Q_zero : Q n 0 = 0`). So `^` is the exterior product. -/
section Exterior
variable {R : Type} [CommRing R] {n : Nat}

theorem outer_is_zero_signature_product (A B : CMV n R) : wedge n A B = gmul n (fun _ => (0 : R)) A B := wedge_eq_gmul_zero A B

theorem zero_signature_form_is_zero : Cl.Q n (fun _ => (0 : R)) = 0 := Cl.Q_zero

theorem outer_is_exterior_product (x y : CliffordAlgebra (Cl.Q n (fun _ => (0 : R)))) :
    (Cl.fromMathlib (x * y) : Cl n (fun _ => (0 : R)))
      = wedge n (Cl.fromMathlib x : Cl n (fun _ => (0 : R))) (Cl.fromMathlib y : Cl n (fun _ => (0 : R))) :=
  Cl.wedge_is_exterior_product x y

end Exterior


/-! ### the canonical definition of the left contraction by a vector

Mathlib's `CliffordAlgebra.contractLeft d` (for a dual vector `d`) is the antiderivation with `d ⌋ (ι a · b) = d(a) b − ι a · (d ⌋ b)`.  With
`d = B(v, ·)`, the metric dual of the vector `v` (`B` the bilinear form of `Σ sig_i x_i²`), it is the coded `v << X` (`lcmt` table), under the
isomorphism of C01 (coefficients in ℚ). -/
section Contraction
variable {N : Nat} {sig : Nat → ℚ}

/-- the coded left contraction by a vector is an antiderivation: `v ⌋ (w X) = B(v, w) X − w (v ⌋ X)` -/
theorem left_contraction_antiderivation (v w : Fin N → ℚ) (X : Cl N sig) :
    (asCl (mmul N sig lcmtCheck (Cl.vec v : Cl N sig) ((Cl.vec w * X : Cl N sig))) : Cl N sig)
      = Cl.B N sig v w • X - Cl.vec w * asCl (mmul N sig lcmtCheck (Cl.vec v : Cl N sig) X) := Cl.lc_antiderivation v w X

theorem left_contraction_is_mathlib_contractLeft (v : Fin N → ℚ) (x : CliffordAlgebra (Cl.Q N sig)) :
    (Cl.fromMathlib (CliffordAlgebra.contractLeft (Cl.dualOf N sig v) x) : Cl N sig)
      = asCl (mmul N sig lcmtCheck (Cl.vec v : Cl N sig) (Cl.fromMathlib x : Cl N sig)) := Cl.fromMathlib_contractLeft v x

end Contraction

end C02
