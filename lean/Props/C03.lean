import Proofs.KernelArr
import Proofs.LeftMat
import Proofs.Ring
import Proofs.Graded
import Proofs.Compl
import Model.Dispatch

/-! # C03 — generated product kernels and operators compute exactly the published tables

The kernel theorems are about the *executable* definitions in `Model/Kernel.lean` (the ones the driver runs and
the correspondence compares with `Layout.*_func`), for any commutative ring of coefficients and any COO
entry list (any order, duplicates allowed). -/

namespace C03
open Model

variable {R : Type} [CommRing R]

/-- `_get_mult_function`: `output[l] += value[k]*mt*other[m]` over the entries = the table contraction -/
theorem dense_kernel_is_contraction (dims : Nat) (es : List Entry) (a b : Array R) (j : Nat) (hj : j < dims) :
    (multDense dims es a b).getD j 0 = contraction es a b j := KernelArr.multDense_eq_contraction dims es a b j hj

/-- `_get_mult_function_runtime_sparse`: skipping entries whose operands are zero changes nothing
(finite coefficients: `0 * x = 0`) — every pattern of zero coefficients -/
theorem sparse_kernel_is_contraction [DecidableEq R] (dims : Nat) (es : List Entry) (a b : Array R) (j : Nat) (hj : j < dims) :
    (multSparse dims es a b).getD j 0 = contraction es a b j := KernelArr.multSparse_eq_contraction dims es a b j hj

theorem kernel_output_size (dims : Nat) (es : List Entry) (a b : Array R) : (multDense dims es a b).size = dims :=
  KernelArr.size_multDense dims es a b

/-- `get_left_gmt_matrix(x) @ b` is the table contraction of `x` and `b` (so `= (x*b).value`), for any entry list whose column
    indices are inside the matrix; likewise `get_right_gmt_matrix(x) @ b = (b*x).value` -/
theorem left_matrix_is_contraction (dims : Nat) (es : List Entry) (x b : Array R) (j : Nat) (hj : j < dims) (hm : ∀ e ∈ es, e.m < dims) :
    (mulVec (leftMat dims es x) b).getD j 0 = contraction es x b j := KernelArr.leftMat_mulVec dims es x b j hj hm
theorem right_matrix_is_contraction (dims : Nat) (es : List Entry) (x b : Array R) (j : Nat) (hj : j < dims) (hk : ∀ e ∈ es, e.k < dims) :
    (mulVec (rightMat dims es x) b).getD j 0 = contraction es b x j := KernelArr.rightMat_mulVec dims es x b j hj hk

/-- the order of the COO entries is irrelevant -/
theorem contraction_entry_order {es es' : List Entry} (h : es.Perm es') (a b : Array R) (j : Nat) :
    contraction es a b j = contraction es' a b j := KernelArr.contraction_perm h a b j

/-- grade-restricted variants: the masked table contracts the operands projected onto the requested grades -/
theorem grade_filtered_kernel (grade : Nat → Nat) (ga gb : List Nat) (es : List Entry) (a b : Array R) (j : Nat) :
    contraction (gradeFilter grade ga gb es) a b j
      = contraction es (KernelArr.projGrades grade ga a) (KernelArr.projGrades grade gb b) j :=
  KernelArr.contraction_gradeFilter grade ga gb es a b j

/-- `get_mult_function` (both branches) -/
theorem get_mult_function_spec [DecidableEq R] (dims : Nat) (grade : Nat → Nat) (es : List Entry)
    (ga gb : Option (List Nat)) (a b : Array R) (j : Nat) (hj : j < dims) :
    (getMultFunction dims grade es ga gb a b).getD j 0 =
      match ga, gb with
      | some ga, some gb => contraction es (KernelArr.projGrades grade ga a) (KernelArr.projGrades grade gb b) j
      | _, _ => contraction es a b j := KernelArr.getMultFunction_spec dims grade es ga gb a b j hj

/-- a scalar operand behaves as the grade-0 multivector of that value: `(q·1) * A = q • A = A * (q·1)` -/
theorem scalar_operand_gp {n : Nat} {sig : Nat → R} (q : R) (A : Cl n sig) :
    (q • (1 : Cl n sig)) * A = q • A ∧ A * (q • (1 : Cl n sig)) = q • A := by
  constructor
  · rw [Cl.smul_mul', one_mul]
  · rw [Cl.mul_smul', mul_one]

/-- … and for the outer product (`q ^ A = q*A`), while `q | A = 0` is `C02.inner_scalar_left/right` -/
theorem scalar_operand_op (n : Nat) (q : R) (A : CMV n R) :
    wedge n (q • one n) A = q • A ∧ wedge n A (q • one n) = q • A := by
  constructor
  · rw [wedge_smul_left, one_wedge]
  · rw [wedge_smul_right, wedge_one]

/-- dtype kinds: equal kinds stay, mixed operands give the larger kind, never a narrower one -/
theorem promote_same (k : Kind) : promote k k = k := by cases k <;> rfl
theorem promote_ge (a b : Kind) : a.rank ≤ (promote a b).rank ∧ b.rank ≤ (promote a b).rank := by
  cases a <;> cases b <;> decide
theorem promote_is_one_of (a b : Kind) : promote a b = a ∨ promote a b = b := by
  cases a <;> cases b <;> decide

/-- non-vacuity -/
example : contraction [⟨0, 1, 0, 2⟩, ⟨0, 1, 0, 3⟩] #[(5 : Int)] #[7] 1 = 5 * 2 * 7 + 5 * 3 * 7 := by decide

end C03
