import Proofs.Canon
import Proofs.Invol
import Proofs.Storage2

/-! # C04 — reversion, grade involution, conjugation and the norm follow their grade laws

Canonical multivectors `CMV n R` (coefficient per bitmap), any `n`, any commutative ring, any signature. -/

namespace C04
open Finset

variable {R : Type} [CommRing R] (n : Nat) (sig : Nat → R)

/-- the sign vector of `adjoint_func` (`np.power(-1, g*(g-1)//2)`) is `(-1)^(g(g-1)/2)`, for every grade -/
theorem rev_exponent_as_coded (g : Nat) : ((Model.Ctx.negOnePow (g * (g - 1) / 2) : Int) : R) = revSign g := revSign_code g
/-- the sign vector of `_grade_invol` (`np.power(-1, g)`) -/
theorem gi_exponent_as_coded (g : Nat) : ((Model.Ctx.negOnePow g : Int) : R) = sgn g := negOnePow_cast g
/-- 4-periodicity of the reversion sign (grades ≥ 4) -/
theorem rev_sign_periodic (k : Nat) : (revSign (k + 4) : R) = revSign k := revSign_add_four k
theorem rev_sign_values : (revSign 0 : R) = 1 ∧ (revSign 1 : R) = 1 ∧ (revSign 2 : R) = -1 ∧ (revSign 3 : R) = -1 := revSign_values

/-- `~M` multiplies the grade-`k` part by `(-1)^(k(k-1)/2)` -/
theorem rev_on_grade (k : Nat) (A : CMV n R) : rev n (gpart n k A) = (revSign k : R) • gpart n k A := rev_gpart n k A
/-- `gradeInvol` multiplies the grade-`k` part by `(-1)^k` -/
theorem gi_on_grade (k : Nat) (A : CMV n R) : gi n (gpart n k A) = (sgn k : R) • gpart n k A := gi_gpart n k A
/-- `conjugate` multiplies it by the product of the two -/
theorem conj_on_grade (k : Nat) (A : CMV n R) :
    cconj n (gpart n k A) = ((sgn k : R) * revSign k) • gpart n k A := cconj_gpart n k A

theorem rev_involutive (A : CMV n R) : rev n (rev n A) = A := rev_rev n A
theorem gi_involutive (A : CMV n R) : gi n (gi n A) = A := gi_gi n A
theorem conj_involutive (A : CMV n R) : cconj n (cconj n A) = A := cconj_cconj n A

/-- `~(AB) = ~B ~A` -/
theorem rev_antiautomorphism (A B : CMV n R) : rev n (gmul n sig A B) = gmul n sig (rev n B) (rev n A) := rev_gmul n sig A B
/-- `conj(AB) = conj B · conj A` -/
theorem conj_antiautomorphism (A B : CMV n R) :
    cconj n (gmul n sig A B) = gmul n sig (cconj n B) (cconj n A) := cconj_gmul n sig A B
/-- `gradeInvol` preserves products -/
theorem gi_automorphism (A B : CMV n R) : gi n (gmul n sig A B) = gmul n sig (gi n A) (gi n B) := gi_gmul n sig A B

/-- even and odd sum to `M` and are the `+`/`-` parts under `gradeInvol` -/
theorem even_add_odd (A : CMV n R) : evenPart n A + oddPart n A = A := _root_.even_add_odd n A
theorem gi_even (A : CMV n R) : gi n (evenPart n A) = evenPart n A := gi_evenPart n A
theorem gi_odd (A : CMV n R) : gi n (oddPart n A) = - oddPart n A := gi_oddPart n A
/-- the coded forms `.5*(M ± M.gradeInvol())` are those parts (any ring where 2 is invertible) -/
theorem even_as_coded (half : R) (h : 2 * half = 1) (A : CMV n R) : half • (A + gi n A) = evenPart n A := half_add_gi n half h A
theorem odd_as_coded (half : R) (h : 2 * half = 1) (A : CMV n R) : half • (A - gi n A) = oddPart n A := half_sub_gi n half h A

/-- `mag2` is the scalar part of `~M*M`, with its explicit diagonal form -/
theorem mag2_diagonal (A : CMV n R) :
    mag2 n sig A = ∑ a : Bm n, revSign (pc n a.val) * s sig n a.val a.val * (A a * A a) := mag2_formula n sig A

/-- `normal()`: for `mag2 M ≠ 0`, `M / sqrt|mag2 M|` is a positive multiple of `M` with `mag2 = ±1`
(`r` is the value `abs(M)` returns: positive with `r² = |mag2 M|`) -/
theorem normal_spec {K : Type} [Field K] [LinearOrder K] [IsStrictOrderedRing K] (sigK : Nat → K)
    (A : CMV n K) (r : K) (hr : 0 < r) (hrr : r * r = |mag2 n sigK A|) (hne : mag2 n sigK A ≠ 0) :
    0 < r⁻¹ ∧ (mag2 n sigK (r⁻¹ • A) = 1 ∨ mag2 n sigK (r⁻¹ • A) = -1) := normal_mag2 n sigK A r hr hrr hne

/-- non-vacuity of `normal_spec`: over ℚ, the scalar `2` in Cl(0) has mag2 = 4, r = 2 -/
example : ∃ (A : CMV 0 ℚ) (r : ℚ), 0 < r ∧ r * r = |mag2 0 (fun _ => (1:ℚ)) A| ∧ mag2 0 (fun _ => (1:ℚ)) A ≠ 0 := by
  have h : mag2 0 (fun _ => (1:ℚ)) (fun _ => (2:ℚ)) = 4 := by
    rw [mag2_formula]
    simp [revSign, tri, sgn, s, swaps, metric, pc]
    norm_num
  exact ⟨fun _ => 2, 2, by norm_num, by rw [h]; norm_num, by rw [h]; norm_num⟩

end C04

/-! ## storage level: the executable involutions and `M(g)` index their sign vector / mask by storage position through the
    grade array; for any storage order `σ` they are the canonical maps conjugated by `σ` -/
namespace C04
variable {R : Type} [CommRing R] (n : Nat)

theorem reversion_in_storage_order (σ : Equiv.Perm (Bm n)) (b2i grade : Nat → Nat)
    (h2 : ∀ c : Bm n, b2i c.val = (σ.symm c).val) (hg : ∀ i : Bm n, grade i.val = pc n (σ i).val) (a : Array R) (i : Bm n) :
    ((Model.Ctx.negOnePow (grade i.val * (grade i.val - 1) / 2) : Int) : R) * a.getD i.val 0
      = rev n (fun c : Bm n => a.getD (b2i c.val) 0) (σ i) := Storage2.storage_rev n σ b2i grade h2 hg a i
theorem grade_involution_in_storage_order (σ : Equiv.Perm (Bm n)) (b2i grade : Nat → Nat)
    (h2 : ∀ c : Bm n, b2i c.val = (σ.symm c).val) (hg : ∀ i : Bm n, grade i.val = pc n (σ i).val) (a : Array R) (i : Bm n) :
    ((Model.Ctx.negOnePow (grade i.val) : Int) : R) * a.getD i.val 0 = gi n (fun c : Bm n => a.getD (b2i c.val) 0) (σ i) :=
  Storage2.storage_gi n σ b2i grade h2 hg a i
theorem grade_projection_in_storage_order (σ : Equiv.Perm (Bm n)) (b2i grade : Nat → Nat)
    (h2 : ∀ c : Bm n, b2i c.val = (σ.symm c).val) (hg : ∀ i : Bm n, grade i.val = pc n (σ i).val) (g : Nat) (a : Array R) (i : Bm n) :
    (if grade i.val = g then a.getD i.val 0 else 0) = gpart n g (fun c : Bm n => a.getD (b2i c.val) 0) (σ i) :=
  Storage2.storage_gradeProj n σ b2i grade h2 hg g a i


/-! ### the canonical definitions: under the isomorphism of the model with Mathlib's `CliffordAlgebra` (C01), the coded grade involution and
reversion are Mathlib's `involute` (the algebra automorphism with `ι v ↦ −ι v`) and `reverse` (the anti-automorphism fixing `ι v`) -/
section Canonical
variable {R : Type} [CommRing R] {n : Nat} {sig : Nat → R}

theorem grade_involution_is_mathlib_involute (x : CliffordAlgebra (Cl.Q n sig)) :
    Cl.fromMathlib (CliffordAlgebra.involute x) = (gi n (Cl.fromMathlib x : Cl n sig) : Cl n sig) := Cl.fromMathlib_involute x

theorem reversion_is_mathlib_reverse (x : CliffordAlgebra (Cl.Q n sig)) :
    Cl.fromMathlib (CliffordAlgebra.reverse x) = (rev n (Cl.fromMathlib x : Cl n sig) : Cl n sig) := Cl.fromMathlib_reverse x

/-- hence Clifford conjugation (`conjugate()` = reversion of the grade involution) is `reverse ∘ involute` -/
theorem conjugation_is_mathlib (x : CliffordAlgebra (Cl.Q n sig)) :
    Cl.fromMathlib (CliffordAlgebra.reverse (CliffordAlgebra.involute x)) = (rev n (gi n (Cl.fromMathlib x : Cl n sig)) : Cl n sig) := by
  rw [reversion_is_mathlib_reverse, grade_involution_is_mathlib_involute]

end Canonical

end C04
