import Proofs.SeriesP
import Proofs.Series2
import Proofs.ExpReal
import Proofs.TrigReal
import Proofs.HypReal
import Proofs.BladeReal
import Proofs.L1Norm

/-! # C16 — series functions on blades with scalar square, scalars, and the scaling-and-squaring structure

Any ℚ-algebra `A` (so: every dimension and signature). `expTrunc N X = Σ_{k<N} X^k/k!` is what the loop of
`taylor_expansions.exp` accumulates (N = max_order = 15) on the scaled argument before the repeated squarings.
The closeness of the N-term polynomials to the real functions is proved **on scalars** (`exp` with its scaling and squaring, `cos`, `sin`, `cosh`, `sinh`:
Mathlib's remainder bounds for the complex exponential series); on blades it is the same scalar statement for the polynomials `C_N(s)`, `S_N(s)` of
`exp_on_blade`; for general multivectors it is analytic and compared with the exact series / libm by the correspondence check (relative 1e-6), not proved. -/

namespace C16
open SeriesP Finset

variable {A : Type} [Ring A] [Algebra ℚ A]

theorem blade_even_powers (B : A) (s : ℚ) (h : B * B = s • (1 : A)) (j : Nat) : B ^ (2 * j) = (s ^ j) • (1 : A) := pow_even B s h j
theorem blade_odd_powers (B : A) (s : ℚ) (h : B * B = s • (1 : A)) (j : Nat) : B ^ (2 * j + 1) = (s ^ j) • B := pow_odd B s h j

/-- `exp_N(B) = C_N(s)·1 + S_N(s)·B` for `B*B = s` (with `s = -t²`, `+t²`, `0` giving the three closed forms, the
real functions replaced by their N-term polynomials) -/
theorem exp_on_blade (B : A) (s : ℚ) (h : B * B = s • (1 : A)) (N : Nat) :
    expTrunc N B =
      (∑ k ∈ range N, if k % 2 = 0 then (1 : ℚ) / (k.factorial : ℚ) * s ^ (k / 2) else 0) • (1 : A)
      + (∑ k ∈ range N, if k % 2 = 0 then 0 else (1 : ℚ) / (k.factorial : ℚ) * s ^ (k / 2)) • B := expTrunc_blade B s h N

/-- null blade: exactly `1 + B` -/
theorem exp_on_null_blade (B : A) (h : B * B = 0) (N : Nat) (hN : 2 ≤ N) : expTrunc N B = 1 + B := expTrunc_null B h N hN

/-- scalars stay scalars -/
theorem exp_on_scalar (c : ℚ) (N : Nat) :
    expTrunc N (c • (1 : A)) = (∑ k ∈ range N, (1 : ℚ) / (k.factorial : ℚ) * c ^ k) • (1 : A) := expTrunc_scalar c N

/-- undoing the scaling by `2^j`: `j` squarings give the `2^j`-th power -/
theorem squaring_undoes_scaling (E : A) (j : Nat) : (fun r => r * r)^[j] E = E ^ (2 ^ j) := sq_iter E j

/-- commuting arguments have commuting (truncated) exponentials -/
theorem exp_commute (X Y : A) (h : Commute X Y) (N M : Nat) : Commute (expTrunc N X) (expTrunc M Y) := expTrunc_comm X Y h N M

/-- **`exp = cosh + sinh` between the truncations, for every multivector**: `evenTrunc 1 N` / `oddTrunc 1 N` are the coded
    `cosh(X, N)` / `sinh(X, N)` (`X2n = X2n·X2`, coefficients `1/gamma(2n+1)`, `1/gamma(2n+2)`), and their sum is the
    `2N`-term exponential series — so the library's `cosh(M) + sinh(M)` (N = 30) is the 60-term series of `M`, exactly -/
theorem cosh_plus_sinh_is_exp (N : Nat) (X : A) : evenTrunc 1 N X + oddTrunc 1 N X = expTrunc (2 * N) X := cosh_add_sinh N X
/-- the loop invariant behind those definitions: after `n` passes `X2n = (X·X)^n = X^{2n}` -/
theorem series_loop_invariant (X : A) (n : Nat) : (X * X) ^ n = X ^ (2 * n) := sq_pow X n
/-- parity of the trigonometric / hyperbolic truncations (`σ = −1` / `+1`) -/
theorem even_series_parity (σ : ℚ) (N : Nat) (X : A) : evenTrunc σ N (-X) = evenTrunc σ N X := evenTrunc_neg σ N X
theorem odd_series_parity (σ : ℚ) (N : Nat) (X : A) : oddTrunc σ N (-X) = - oddTrunc σ N X := oddTrunc_neg σ N X
/-- on a blade with `B·B = s`: `cos/cosh_N(B)` is a scalar polynomial in `s`, `sin/sinh_N(B)` a scalar polynomial times `B` -/
theorem cos_cosh_on_blade (σ : ℚ) (B : A) (s : ℚ) (h : B * B = s • (1 : A)) (N : Nat) :
    evenTrunc σ N B = (∑ n ∈ range N, σ ^ n / ((2 * n).factorial : ℚ) * s ^ n) • (1 : A) := evenTrunc_blade σ B s h N
theorem sin_sinh_on_blade (σ : ℚ) (B : A) (s : ℚ) (h : B * B = s • (1 : A)) (N : Nat) :
    oddTrunc σ N B = (∑ n ∈ range N, σ ^ n / ((2 * n + 1).factorial : ℚ) * s ^ n) • B := oddTrunc_blade σ B s h N

/-- non-vacuity: in ℚ itself, `B = 2`, `s = 4` -/
example : ((2 : ℚ) * 2 = (4 : ℚ) • (1 : ℚ)) := by norm_num

/-! ### scalars: the coded functions against the real functions (analytic, Mathlib's series remainder bounds) -/

/-- **`exp` on a scalar is the real exponential within the stated tolerance**: for a rational scalar `c` the scheme of `taylor_expansions.exp` —
    scale by `2^j` so that `|c|/2^j ≤ 1`, the 15-term series (`exp_on_scalar`: the rational `Σ_{k<15} (c/2^j)^k/k!`), `j ≤ 18` squarings
    (`squaring_undoes_scaling`; so `|c| ≤ 262144`) — gives a rational number within relative `10⁻⁶` of `Real.exp c`. (General form with explicit
    remainder: `ExpReal.scaled_squared`. The early `break` of the loop drops terms below `eps = 10⁻¹²`, and binary64 rounding, are evaluated.) -/
theorem exp_on_scalar_matches_real_exp (c : ℚ) (j : Nat) (hj : j ≤ 18) (hy : |c / 2 ^ j| ≤ 1) :
    |(((∑ k ∈ range 15, (1 : ℚ) / (k.factorial : ℚ) * (c / 2 ^ j) ^ k) ^ (2 ^ j) : ℚ) : ℝ) - Real.exp (c : ℝ)|
      ≤ (1 / 1000000) * Real.exp (c : ℝ) := by
  have hy' : |(c : ℝ) / 2 ^ j| ≤ 1 := by
    have := (Rat.cast_le (K := ℝ)).mpr hy
    simpa using this
  have h := ExpReal.exp_scalar_within_tolerance (c : ℝ) j hj hy'
  have hs : (((∑ k ∈ range 15, (1 : ℚ) / (k.factorial : ℚ) * (c / 2 ^ j) ^ k) ^ (2 ^ j) : ℚ) : ℝ)
      = ExpReal.series 15 ((c : ℝ) / 2 ^ j) ^ (2 ^ j) := by
    unfold ExpReal.series
    push_cast
    congr 1
    apply Finset.sum_congr rfl
    intro k _
    ring
  rw [hs]
  exact h

/-- **`cos` and `sin` on a scalar**: the unscaled 30-term series of the code (`max_order = 30`: `Σ_{k<30} (−1)^k c^{2k}/(2k)!`,
    `Σ_{k<30} (−1)^k c^{2k+1}/(2k+1)!`) are within `10⁻¹²` of `Real.cos c`, `Real.sin c` for every real `|c| ≤ 8` (general form with the remainder
    `2|c|^{2N}/(2N)!` for `|c| ≤ N + 1/2`: `TrigReal.cos_sin_close`) -/
theorem cos_sin_on_scalar_match_real (c : ℝ) (hc : |c| ≤ 8) :
    |Real.cos c - TrigReal.cosTrunc 30 c| ≤ 1 / 1000000000000 ∧ |Real.sin c - TrigReal.sinTrunc 30 c| ≤ 1 / 1000000000000 :=
  TrigReal.cos_sin_within_tolerance c hc

/-- **`cosh` and `sinh` on a scalar**: the unscaled 30-term series (`Σ_{k<30} c^{2k}/(2k)!`, `Σ_{k<30} c^{2k+1}/(2k+1)!`) are within `10⁻¹²` of
    `Real.cosh c`, `Real.sinh c` for every real `|c| ≤ 8` (general form: `HypReal.cosh_sinh_close`, from the two exponential series at `±c`) -/
theorem cosh_sinh_on_scalar_match_real (c : ℝ) (hc : |c| ≤ 8) :
    |Real.cosh c - HypReal.coshTrunc 30 c| ≤ 1 / 1000000000000 ∧ |Real.sinh c - HypReal.sinhTrunc 30 c| ≤ 1 / 1000000000000 :=
  HypReal.cosh_sinh_within_tolerance c hc

/-- **`exp` on a blade with negative square against the closed form `cos t + B·sin(t)/t`** (unscaled `2N`-term series, rational `t`, `B·B = −t²`):
    `exp_{2N}(B) = C·1 + S·B` with `C = Σ_{j<N} (−1)^j t^{2j}/(2j)!`, `S = Σ_{j<N} (−1)^j t^{2j}/(2j+1)!`, and over the reals `|cos t − C| ≤ β`,
    `|sin t − t·S| ≤ β`, `β = 2|t|^{2N}/(2N)!`, whenever `|t| ≤ N + 1/2` -/
theorem exp_on_blade_matches_closed_form (B : A) (t : ℚ) (h : B * B = (-(t ^ 2)) • (1 : A)) (N : ℕ) (ht : |(t : ℝ)| / ((2 * N : ℕ).succ : ℝ) ≤ 1 / 2) :
    expTrunc (2 * N) B = (∑ j ∈ range N, (-1) ^ j * t ^ (2 * j) / ((2 * j).factorial : ℚ)) • (1 : A)
        + (∑ j ∈ range N, (-1) ^ j * t ^ (2 * j) / ((2 * j + 1).factorial : ℚ)) • B
    ∧ |Real.cos (t : ℝ) - ((∑ j ∈ range N, (-1) ^ j * t ^ (2 * j) / ((2 * j).factorial : ℚ) : ℚ) : ℝ)| ≤ |(t : ℝ)| ^ (2 * N) / ((2 * N).factorial : ℝ) * 2
    ∧ |Real.sin (t : ℝ) - (t : ℝ) * ((∑ j ∈ range N, (-1) ^ j * t ^ (2 * j) / ((2 * j + 1).factorial : ℚ) : ℚ) : ℝ)| ≤ |(t : ℝ)| ^ (2 * N) / ((2 * N).factorial : ℝ) * 2 :=
  BladeReal.exp_on_blade_close B t h N ht

/-! ### General multivectors: the norm behind the scaling of `exp` (model `Cl n sig` over ℚ, every `n`, every signature with `|sig i| ≤ 1`) -/

/-- **`np.sum(np.abs(x.value))` is submultiplicative**: `‖A·B‖₁ ≤ ‖A‖₁·‖B‖₁` for all multivectors — the reason the repaired `exp` may
scale by it (the largest coefficient, used before fix 08bddc0, is not) -/
theorem l1_submultiplicative {n : Nat} {sig : Nat → ℚ} (hsig : ∀ i, |sig i| ≤ 1) (X Y : Cl n sig) :
    L1.l1 (X * Y) ≤ L1.l1 X * L1.l1 Y := L1.l1_mul_le hsig X Y
theorem l1_is_a_norm {n : Nat} {sig : Nat → ℚ} (X Y : Cl n sig) (q : ℚ) :
    (L1.l1 X = 0 → X = 0) ∧ L1.l1 (X + Y) ≤ L1.l1 X + L1.l1 Y ∧ L1.l1 (q • X) = |q| * L1.l1 X ∧ L1.l1 (1 : Cl n sig) = 1 :=
  ⟨L1.l1_eq_zero, L1.l1_add_le X Y, L1.l1_smul q X, L1.l1_one⟩

/-- … while the largest coefficient (the quantity `exp` scaled by before fix 08bddc0) is not: `X = 1 + e1` in Cl(1) has coefficients of absolute value 1 and
`X·X` has the scalar coefficient 2 -/
theorem max_coefficient_is_not_submultiplicative : (∀ c, |L1.Xw c| ≤ 1) ∧ (L1.Xw * L1.Xw) fzero = 2 := L1.max_coeff_not_submultiplicative

/-- **the truncations of the exponential series of any multivector form a Cauchy sequence with the scalar series' modulus**:
`‖exp_M(X) − exp_N(X)‖₁ ≤ Σ_{N ≤ k < M} ‖X‖₁^k/k!` -/
theorem exp_truncations_cauchy {n : Nat} {sig : Nat → ℚ} (hsig : ∀ i, |sig i| ≤ 1) (X : Cl n sig) (N M : Nat) (h : N ≤ M) :
    L1.l1 (expTrunc M X - expTrunc N X) ≤ L1.sexp M (L1.l1 X) - L1.sexp N (L1.l1 X) := L1.expTrunc_sub_le hsig X N M h

/-- **15 terms suffice after the scaling**: for `‖Y‖₁ ≤ 1` every longer truncation is within `2/15! < 1.6·10⁻¹²` of the coded one -/
theorem exp_15_terms_suffice_general {n : Nat} {sig : Nat → ℚ} (hsig : ∀ i, |sig i| ≤ 1) (Y : Cl n sig) (hY : L1.l1 Y ≤ 1)
    (M : Nat) (hM : 15 ≤ M) : L1.l1 (expTrunc M Y - expTrunc 15 Y) ≤ 16 / 10 ^ 13 :=
  (L1.exp_15_terms_suffice hsig Y hY M hM).trans (le_of_lt L1.two_div_fact15)

/-- **the coded scheme on a general multivector** (scale by `2^j ≥ ‖X‖₁`, 15 terms, `j` squarings) against the same scheme with any
number `M ≥ 15` of terms: `≤ 2^j·3^(2^j−1)·2/15!` in the ℓ¹ norm, uniformly in `M`. (The limit `M → ∞` — the exponential itself —
is not formalised for multivectors: partial.) -/
theorem exp_scheme_general_partial {n : Nat} {sig : Nat → ℚ} (hsig : ∀ i, |sig i| ≤ 1) (X : Cl n sig) (j : Nat) (h : L1.l1 X ≤ 2 ^ j)
    (M : Nat) (hM : 15 ≤ M) :
    L1.l1 ((expTrunc M (((1 : ℚ) / 2 ^ j) • X)) ^ (2 ^ j) - (expTrunc 15 (((1 : ℚ) / 2 ^ j) • X)) ^ (2 ^ j))
      ≤ ((2 ^ j : ℕ) : ℚ) * 3 ^ (2 ^ j - 1) * (2 / ((15 : ℕ).factorial : ℚ)) := L1.scheme_error hsig X j h M hM

/-- non-vacuity: the Euclidean, Minkowski and degenerate signatures all satisfy `|sig i| ≤ 1` -/
example : (∀ i : ℕ, |((fun _ => 1 : ℕ → ℚ)) i| ≤ 1) ∧ (∀ i : ℕ, |((fun i => if i = 0 then -1 else if i = 1 then 0 else 1 : ℕ → ℚ)) i| ≤ 1) := by
  refine ⟨fun i => by simp, fun i => ?_⟩
  by_cases h0 : i = 0 <;> by_cases h1 : i = 1 <;> simp [h0, h1]

end C16
