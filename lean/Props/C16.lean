import Proofs.SeriesP

/-! # C16 — series functions on blades with scalar square, scalars, and the scaling-and-squaring structure

Any ℚ-algebra `A` (so: every dimension and signature). `expTrunc N X = Σ_{k<N} X^k/k!` is what the loop of
`taylor_expansions.exp` accumulates (N = max_order = 15) on the scaled argument before the repeated squarings.
The closeness of the N-term polynomials to cos/sin/cosh/sinh/exp on the stated ranges is analytic and is
compared with libm by the correspondence check (relative 1e-6), not proved. -/

namespace C16
open SeriesP Finset

variable {A : Type} [Ring A] [Algebra ℚ A]

theorem blade_even_powers (B : A) (s : ℚ) (h : B * B = s • (1 : A)) (j : Nat) : B ^ (2 * j) = (s ^ j) • (1 : A) := pow_even B s h j
theorem blade_odd_powers (B : A) (s : ℚ) (h : B * B = s • (1 : A)) (j : Nat) : B ^ (2 * j + 1) = (s ^ j) • B := pow_odd B s h j

/-- `exp_N(B) = C_N(s)·1 + S_N(s)·B` for `B*B = s` (with `s = -t²`, `+t²`, `0` giving the three closed forms, the
real functions replaced by their N-term polynomials) -/
theorem exp_on_blade (B : A) (s : ℚ) (h : B * B = s • (1 : A)) (N : Nat) :
    expTrunc N B =
      (∑ k ∈ range N, if k % 2 = 0 then (1 : ℚ) / (k.factorial : ℚ) * s ^ (k / 2) else 0) • (1 : A)
      + (∑ k ∈ range N, if k % 2 = 0 then 0 else (1 : ℚ) / (k.factorial : ℚ) * s ^ (k / 2)) • B := expTrunc_blade B s h N

/-- null blade: exactly `1 + B` -/
theorem exp_on_null_blade (B : A) (h : B * B = 0) (N : Nat) (hN : 2 ≤ N) : expTrunc N B = 1 + B := expTrunc_null B h N hN

/-- scalars stay scalars -/
theorem exp_on_scalar (c : ℚ) (N : Nat) :
    expTrunc N (c • (1 : A)) = (∑ k ∈ range N, (1 : ℚ) / (k.factorial : ℚ) * c ^ k) • (1 : A) := expTrunc_scalar c N

/-- undoing the scaling by `2^j`: `j` squarings give the `2^j`-th power -/
theorem squaring_undoes_scaling (E : A) (j : Nat) : (fun r => r * r)^[j] E = E ^ (2 ^ j) := sq_iter E j

/-- commuting arguments have commuting (truncated) exponentials -/
theorem exp_commute (X Y : A) (h : Commute X Y) (N M : Nat) : Commute (expTrunc N X) (expTrunc M Y) := expTrunc_comm X Y h N M

/-- non-vacuity: in ℚ itself, `B = 2`, `s = 4` -/
example : ((2 : ℚ) * 2 = (4 : ℚ) • (1 : ℚ)) := by norm_num

end C16
