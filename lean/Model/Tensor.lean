/-! C20 spike (core Lean only): N-d transpose, file record round trip, JSON nesting and its empty-array defect -/
namespace TensorIO

structure Tensor (α : Type) where
  shape : List Nat
  get : List Nat → α

/-- numpy `.T`: reverse all axes -/
def Tensor.T {α} (t : Tensor α) : Tensor α := { shape := t.shape.reverse, get := fun idx => t.get idx.reverse }

theorem T_T {α} (t : Tensor α) : t.T.T = t := by
  cases t; simp [Tensor.T]

/-- what both file formats store -/
structure FileRec (α μ ν : Type) where
  data : Tensor α
  transpose : Bool
  sparse : Bool
  support : List Nat
  metric : μ
  names : ν

/-- `write_ga_file` / `write_json_file` (dense path; `compression` selects only the HDF5 filter) -/
def write {α μ ν} (_compression transpose : Bool) (a : Tensor α) (m : μ) (nm : ν) : FileRec α μ ν :=
  { data := if transpose then a.T else a, transpose := transpose, sparse := false, support := [], metric := m, names := nm }

def read {α μ ν} (f : FileRec α μ ν) : Tensor α × μ × ν × Option (List Nat) :=
  (if f.transpose then f.data.T else f.data, f.metric, f.names, if f.sparse then some f.support else none)

/-- **round trip** for every shape (zero-sized axes included) and all four flag combinations -/
theorem read_write {α μ ν} (c t : Bool) (a : Tensor α) (m : μ) (nm : ν) :
    read (write c t a m nm) = (a, m, nm, none) := by
  cases t <;> simp [read, write, T_T]

theorem compression_irrelevant {α μ ν} (t : Bool) (a : Tensor α) (m : μ) (nm : ν) :
    read (write true t a m nm) = read (write false t a m nm) := by
  simp [read_write]

/-! JSON: `tolist()` then `np.array(...)` -/
inductive Nested (α : Type) where
  | leaf : α → Nested α
  | node : List (Nested α) → Nested α

def toNested {α} : (shape : List Nat) → (List Nat → α) → Nested α
  | [], get => .leaf (get [])
  | d :: ds, get => .node ((List.range d).map (fun i => toNested ds (fun idx => get (i :: idx))))

/-- the shape `np.array` infers from a (rectangular) nested list -/
def shapeOf {α} : Nested α → List Nat
  | .leaf _ => []
  | .node [] => [0]
  | .node (c :: cs) => (cs.length + 1) :: shapeOf c

theorem shapeOf_toNested {α} (shape : List Nat) (h : ∀ d ∈ shape, d ≠ 0) (get : List Nat → α) :
    shapeOf (toNested shape get) = shape := by
  induction shape generalizing get with
  | nil => simp [toNested, shapeOf]
  | cons d ds ih =>
    have hd : d ≠ 0 := h d (by simp)
    obtain ⟨d', rfl⟩ : ∃ d', d = d' + 1 := ⟨d - 1, by omega⟩
    have hds : ∀ e ∈ ds, e ≠ 0 := fun e he => h e (by simp [he])
    simp only [toNested]
    rw [List.range_succ_eq_map]
    simp only [List.map_cons, shapeOf, List.length_map, List.length_range]
    rw [ih hds]

/-- row-major flattening of the nested list (what `json.dump` writes, element by element) -/
def flat {α} : Nested α → List α
  | .leaf a => [a]
  | .node cs => (cs.map flat).flatten

/-- all multi-indices of a shape in row-major (C) order -/
def indices : List Nat → List (List Nat)
  | [] => [[]]
  | d :: ds => (List.range d).flatMap fun i => (indices ds).map (i :: ·)

/-- the nested list holds exactly the elements of the array in row-major order -/
theorem flat_toNested {α} (shape : List Nat) (get : List Nat → α) :
    flat (toNested shape get) = (indices shape).map get := by
  induction shape generalizing get with
  | nil => simp [toNested, flat, indices]
  | cons d ds ih =>
    simp only [toNested, flat, indices, List.map_map, List.map_flatMap]
    rw [List.flatMap_def]
    congr 1
    apply List.map_congr_left
    intro i _
    simp only [Function.comp_apply, ih]
    rfl

/-- `Layout.load_ga_file`: the diagonal of the stored metric must equal the layout's signature -/
def loadCheck (metricDiag sig : List Int) : Except String Unit :=
  if metricDiag = sig then .ok () else .error "ValueError"

theorem loadCheck_mismatch (m sig : List Int) (h : m ≠ sig) : loadCheck m sig = .error "ValueError" := by
  simp [loadCheck, h]
theorem loadCheck_match (sig : List Int) : loadCheck sig sig = .ok () := by simp [loadCheck]

/-- the excluded case is real: a `(0, 8)` array comes back with shape `(0,)` -/
theorem json_empty_counterexample {α} (get : List Nat → α) :
    shapeOf (toNested [0, 8] get) = [0] := by
  simp [toNested, shapeOf]

end TensorIO
