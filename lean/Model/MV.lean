import Model.Kernel

/-! Multivector-level operations in *storage form* (`value` arrays), as coded in
`_layout.py` / `_multivector.py`.  Coefficients are exact rationals. Core Lean only. -/
namespace Model

abbrev MV := Array Rat

/-- a layout with its tables built once (what the `_cached_property`s hold) -/
structure Ctx where
  L : Layout
  gmt : List Entry
  omt : List Entry
  imt : List Entry
  lcmt : List Entry

def mkCtx (sig : List Int) (order : List Nat) : Ctx :=
  let L := mkLayout sig order
  let g := L.gmt
  { L := L, gmt := g, omt := gradedMt L.gradeF omtCheck g, imt := gradedMt L.gradeF imtCheck g,
    lcmt := gradedMt L.gradeF lcmtCheck g }

namespace Ctx
variable (C : Ctx)

def dims : Nat := C.L.gaDims
def zero : MV := Array.replicate C.dims 0
def grade (i : Nat) : Nat := C.L.gradeF i

/-- default `gmt_func/omt_func/imt_func/lcmt_func`: the runtime-sparse kernel on the full table -/
def gp (a b : MV) : MV := multSparse C.dims C.gmt a b
def op (a b : MV) : MV := multSparse C.dims C.omt a b
def ip (a b : MV) : MV := multSparse C.dims C.imt a b
def lc (a b : MV) : MV := multSparse C.dims C.lcmt a b

def add (a b : MV) : MV := (Array.range C.dims).map fun i => a.getD i 0 + b.getD i 0
def sub (a b : MV) : MV := (Array.range C.dims).map fun i => a.getD i 0 - b.getD i 0
def neg (a : MV) : MV := (Array.range C.dims).map fun i => - a.getD i 0
def smul (q : Rat) (a : MV) : MV := (Array.range C.dims).map fun i => q * a.getD i 0

/-- index of the scalar blade: `bitmap_to_index[0]` -/
def scalarIdx : Nat := C.L.b2iF 0
/-- `_checkOther(coerce=True)` for a number: zero vector with `[()] = q` -/
def ofScalar (q : Rat) : MV := C.zero.setIfInBounds C.scalarIdx q
def one : MV := C.ofScalar 1
/-- `_basis_blade(i)` -/
def basisBlade (i : Nat) : MV := C.zero.setIfInBounds i 1

/-- `(-1)^k` as an integer power, the way `np.power(-1, k)` evaluates it -/
def negOnePow (k : Nat) : Int := if k % 2 = 0 then 1 else -1

/-- `adjoint_func`: `signs = np.power(-1, grades*(grades-1)//2)`; `signs * value` -/
def revSigns : Array Int := C.L.grades.map fun g => negOnePow (g * (g - 1) / 2)
def rev (a : MV) : MV := (Array.range C.dims).map fun i => ((C.revSigns.getD i 0 : Int) : Rat) * a.getD i 0
/-- `_grade_invol`: `signs = np.power(-1, grades)` -/
def giSigns : Array Int := C.L.grades.map negOnePow
def gradeInvol (a : MV) : MV := (Array.range C.dims).map fun i => ((C.giSigns.getD i 0 : Int) : Rat) * a.getD i 0
/-- `conjugate`: `(~self).gradeInvol()` -/
def conj (a : MV) : MV := C.gradeInvol (C.rev a)

/-- `M(g)`: `np.multiply(grade_mask(g), value)` -/
def gradeProj (g : Nat) (a : MV) : MV :=
  (Array.range C.dims).map fun i => if C.grade i = g then a.getD i 0 else 0
/-- `M(g1, .., gk)`: `sum([self(k) for k in …])` — repeated grades add -/
def gradeProjs (gs : List Nat) (a : MV) : MV := gs.foldl (fun acc g => C.add acc (C.gradeProj g a)) C.zero

/-- `grades()` with `eps`: grades carrying a coefficient with `|c| > eps` (sorted, deduplicated) -/
def gradesOf (eps : Rat) (a : MV) : List Nat :=
  (List.range (C.L.dims + 1)).filter fun g =>
    (List.range C.dims).any fun i => C.grade i == g && decide ((a.getD i 0).abs > eps)

/-- dense lookup of a table entry value `mt[k, l, m]` (sums duplicates as `sparse.COO` would) -/
def tableAt (es : List Entry) (k l m : Nat) : Int :=
  (es.filter fun e => e.k == k && e.l == l && e.m == m).foldl (fun acc e => acc + e.v) 0

/-- `_gen_complement_func(omt)`: `signlist[n] = (-1)**(omt[n, -1, dims-1-n] < 0.001)` -/
def leftCompSigns : Array Int :=
  (Array.range C.dims).map fun n => if tableAt C.omt n (C.dims - 1) (C.dims - 1 - n) < 1 then -1 else 1
/-- the same with `omt.T`: `omt.T[n, -1, dims-1-n] = omt[dims-1-n, -1, n]` -/
def rightCompSigns : Array Int :=
  (Array.range C.dims).map fun n => if tableAt C.omt (C.dims - 1 - n) (C.dims - 1) n < 1 then -1 else 1
/-- `comp_func`: `Yval[i] = Xval[dims-1-i] * s` -/
def compWith (signs : Array Int) (a : MV) : MV :=
  (Array.range C.dims).map fun i => a.getD (C.dims - 1 - i) 0 * ((signs.getD i 0 : Int) : Rat)
def leftComp (a : MV) : MV := C.compWith C.leftCompSigns a
def rightComp (a : MV) : MV := C.compWith C.rightCompSigns a

/-- `vee_func`: `lc_func(omt_func(rc_func(a), rc_func(b)))` -/
def vee (a b : MV) : MV := C.leftComp (C.op (C.rightComp a) (C.rightComp b))

def degenerate : Bool := C.L.sig.any (· == 0)
/-- `dual_func`: right complement if `0 in sig`; else `gmt_func(X, Iinv)` with `Iinv[-1] = 1 / gmt[-1, 0, -1]` -/
def dual (a : MV) : MV :=
  if C.degenerate then C.rightComp a
  else
    let ii := tableAt C.gmt (C.dims - 1) 0 (C.dims - 1)
    C.gp a (C.zero.setIfInBounds (C.dims - 1) (1 / (ii : Rat)))

/-- `mag2`: `gmt_func(adjoint_func(value), value)[0]` (index 0, as coded) -/
def mag2 (a : MV) : Rat := (C.gp (C.rev a) a).getD 0 0

/-- `x * x * … ` : `__pow__` for a non-negative integer exponent (`range(1, n)` loop) -/
def powNat (a : MV) (n : Nat) : MV :=
  if n = 0 then C.one else (List.range (n - 1)).foldl (fun acc _ => C.gp acc a) a

def isZero (a : MV) : Bool := a.all (· == 0)
def eqMV (a b : MV) : Bool := (List.range C.dims).all fun i => a.getD i 0 == b.getD i 0

end Ctx

/-! ### exact linear algebra (oracle for inverses): Gauss–Jordan over ℚ -/

/-- solve `A x = b` for square `A` (list of rows) exactly; `none` if singular -/
def gaussSolve (n : Nat) (A : Array (Array Rat)) (b : Array Rat) : Option (Array Rat) := Id.run do
  let mut M : Array (Array Rat) := (Array.range n).map fun i => (A.getD i #[]).push (b.getD i 0)
  for col in [0:n] do
    -- find pivot
    let mut piv := n
    for r in [col:n] do
      if piv == n && (M.getD r #[]).getD col 0 != 0 then piv := r
    if piv == n then return none
    let rowP := M.getD piv #[]
    let rowC := M.getD col #[]
    M := (M.setIfInBounds piv rowC).setIfInBounds col rowP
    let p := rowP.getD col 0
    let rowN := rowP.map (· / p)
    M := M.setIfInBounds col rowN
    for r in [0:n] do
      if r != col then
        let f := (M.getD r #[]).getD col 0
        if f != 0 then
          let rr := M.getD r #[]
          M := M.setIfInBounds r ((Array.range (n+1)).map fun c => rr.getD c 0 - f * rowN.getD c 0)
  return some ((Array.range n).map fun i => (M.getD i #[]).getD n 0)

namespace Ctx
variable (C : Ctx)
/-- the exact left inverse: solve `X * M = 1`, i.e. `rightMat(M) x = 1` -/
def leftInvExact (a : MV) : Option MV := gaussSolve C.dims (rightMat C.dims C.gmt a) C.one
/-- the exact right inverse: solve `M * X = 1`, i.e. `leftMat(M) x = 1` (what `leftLaInv` solves) -/
def rightInvExact (a : MV) : Option MV := gaussSolve C.dims (leftMat C.dims C.gmt a) C.one
end Ctx

end Model
