import Model.MV

/-! Inverses, division and powers as coded in `_layout.py` / `_multivector.py` (exact rationals).
Errors are values: `"ValueError"`, `"NotImplementedError"`. Core Lean only. -/
namespace Model
namespace Ctx
variable (C : Ctx)

def sdiv (a : MV) (q : Rat) : MV := (Array.range C.dims).map fun i => a.getD i 0 / q

/-- `isScalar()`: every non-scalar coefficient has `|c| < eps` -/
def isScalar (eps : Rat) (a : MV) : Bool :=
  (List.range C.dims).all fun i => i == C.scalarIdx || decide ((a.getD i 0).abs < eps)

/-- the numerator of `_hitzer_inverse` for `dims = 0..5` (`none`: NotImplementedError) -/
def hitzerNumerator (a : MV) : Option MV :=
  match C.L.dims with
  | 0 => some (C.add C.one (C.smul 0 a))                      -- `1 + 0*operand`
  | 1 => some (C.gradeInvol a)
  | 2 => some (C.conj a)
  | 3 =>
      let mc := C.conj a
      let mm := C.gp a mc
      some (C.gp mc (C.rev mm))
  | 4 =>
      let mc := C.conj a
      let mm := C.gp a mc
      some (C.gp mc (C.sub mm (C.smul 2 (C.gradeProjs [3, 4] mm))))
  | 5 =>
      let mc := C.conj a
      let mm := C.gp a mc
      let combo := C.gp mc (C.rev mm)
      let mcombo := C.gp a combo
      some (C.gp combo (C.sub mcombo (C.smul 2 (C.gradeProjs [1, 4] mcombo))))
  | _ => none

/-- `_hitzer_inverse`: `numerator / (operand * numerator).value[0]`, `ValueError` when the denominator is 0 -/
def hitzerInverse (a : MV) : Except String MV :=
  match C.hitzerNumerator a with
  | none => .error "NotImplementedError"
  | some num =>
    let den := (C.gp a num).getD 0 0
    if den == 0 then .error "ValueError" else .ok (C.sdiv num den)

/-- `_shirokov_inverse`: `N = 2^((n+1)//2)`; `for k in 1..N-1: Ck = (N/k)*Uk[0]; adjU = Uk - Ck; Uk = U*adjU` -/
def shirokovInverse (a : MV) : Except String MV :=
  let n := C.L.dims
  let N : Nat := 2 ^ ((n + 1) / 2)
  let step := fun (st : MV × MV) (k : Nat) =>
    let uk := st.1
    let ck : Rat := ((N : Rat) / (k : Rat)) * uk.getD 0 0
    let adjU := C.sub uk (C.ofScalar ck)
    (C.gp a adjU, adjU)
  let fin := (List.range' 1 (N - 1)).foldl step (a, C.zero)
  if N ≤ 1 then .error "UnboundLocalError"      -- n = 0: the loop body never runs, `adjU` is unbound
  else if fin.1.getD 0 0 == 0 then .error "ValueError" else .ok (C.sdiv fin.2 (fin.1.getD 0 0))

/-- `leftLaInv` with an exact solver: `solve(L_M, 1)`; exactly singular ⇒ `ValueError` -/
def laInverse (a : MV) : Except String MV :=
  match C.rightInvExact a with
  | some x => .ok x
  | none => .error "ValueError"

/-- `_pick_inv(fallback)`: `fallback = some true` is `inv()`, `some false` is `normalInv()`, `none` is `normalInv(check=False)` -/
def pickInv (eps : Rat) (fallback : Option Bool) (a : MV) : Except String MV :=
  let madj := C.rev a
  let mm := C.gp madj a
  if fallback.isSome && !C.isScalar eps mm then
    if fallback == some true then
      match C.hitzerInverse a with
      | .error "NotImplementedError" => C.laInverse a
      | r => r
    else .error "ValueError"
  else
    let sc := mm.getD C.scalarIdx 0
    if fallback.isSome && !(decide (sc.abs > eps)) then .error "ValueError"
    else if sc == 0 then .error "ZeroDivision" else .ok (C.sdiv madj sc)

/-- `__pow__` for an integer exponent, as repaired: negative exponents use the inverse -/
def powInt (eps : Rat) (a : MV) (k : Int) : Except String MV :=
  if k ≥ 0 then .ok (C.powNat a k.toNat)
  else do
    let x ← C.pickInv eps (some true) a
    pure (C.powNat x (-k).toNat)

end Ctx
end Model
