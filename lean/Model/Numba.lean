import Model.Inverse

/-! The overload bodies of `clifford/numba/_multivector.py` as a second set of definitions (what jitted user code
runs), next to the interpreter-path operations of `Model/MV.lean`.  Exact rationals; core Lean only. -/
namespace Model
namespace Ctx
variable (C : Ctx)

/-- `ga_add(mv, number)`: `op = a.value.astype(ret_type); op[scalar_index] += b` -/
def jAddScalar (a : MV) (q : Rat) : MV := a.modify C.scalarIdx (· + q)
/-- `ga_sub(mv, number)`: `op[scalar_index] -= b` -/
def jSubScalar (a : MV) (q : Rat) : MV := a.modify C.scalarIdx (· - q)
/-- `ga_sub(number, mv)`: `op = -b.value; op[scalar_index] += a` -/
def jRSubScalar (q : Rat) (a : MV) : MV := (C.neg a).modify C.scalarIdx (· + q)
/-- `ga_mul / ga_xor (mv, number)`: `a.value * b` -/
def jMulScalar (a : MV) (q : Rat) : MV := let _ := C; a.map (· * q)
/-- `ga_or(mv, number)`: `np.zeros_like(a.value)` -/
def jOrScalar (a : MV) (_q : Rat) : MV := let _ := C; a.map fun _ => 0
/-- `ga_pow`: `if b == 0: return 1 + 0*a`, else the `range(1, b)` loop on value arrays -/
def jPow (a : MV) (n : Nat) : MV :=
  if n = 0 then C.jAddScalar (C.jMulScalar a 0) 1 else (List.range (n - 1)).foldl (fun acc _ => C.gp acc a) a
/-- `ga_call` with literal or runtime grades: `mv = zeros_like; mv.value[inds] = self.value[inds]`, `inds` the OR of the masks -/
def jCall (gs : List Nat) (a : MV) : MV :=
  (Array.range a.size).map fun i => if gs.contains (C.grade i) then a.getD i 0 else 0
/-- the `mag2` overload: `(~self * self).value[0]` -/
def jMag2 (a : MV) : Rat := (C.gp (C.rev a) a).getD 0 0

end Ctx

/-- the overloads of `clifford/numba/_multivector.py` that re-use a Python method body or delegate to a layout function
(`kind of overload, attribute / method name, what it returns`), sorted: jitted `mv.normal()`, `abs(mv)`, `mv.even` … run the very
Python bodies the interpreter runs (numba compiles them), `mag2` is `(~self * self).value[0]`, `gradeInvol` and the inverses call
the layout's own functions.  `translate/numba2lean.py` reads the same table from the current source. -/
def numbaReuseTable : List (String × String × String) :=
  [("overload", "abs", "MultiVector.__abs__"),
   ("overload_attribute", "even", "MultiVector.even.fget"),
   ("overload_attribute", "odd", "MultiVector.odd.fget"),
   ("overload_method", "anticommutator", "MultiVector.anticommutator"),
   ("overload_method", "commutator", "MultiVector.commutator"),
   ("overload_method", "conjugate", "MultiVector.conjugate"),
   ("overload_method", "gradeInvol", "layout._grade_invol(self)"),
   ("overload_method", "hitzer_inverse", "layout._hitzer_inverse(self)"),
   ("overload_method", "leftLaInv", "self.layout.MultiVector(layout.inv_func(self.value))"),
   ("overload_method", "mag2", "(~self * self).value[0]"),
   ("overload_method", "normal", "MultiVector.normal"),
   ("overload_method", "shirokov_inverse", "layout._shirokov_inverse(self)")]

end Model
