import Model.Bits
import Model.Shortlex

/-! Table construction, modelled on `clifford/_layout.py` and `clifford/_layout_helpers.py`
(core Lean only; executable).  Loop for loop:

* `gmtElement`            ↔ `gmt_element`
* `constructGmt`          ↔ `_numba_construct_gmt` (entries in the code's `i*n+j` order)
* `imtCheck/omtCheck/lcmtCheck` ↔ `imt_check/omt_check/lcmt_check`
* `gradedMt`              ↔ `_numba_construct_graded_mt` (a mask over the entry list)
* `shortlexOrder`         ↔ `_ShortLexBasisBladeOrder.__init__` (`_powerset` of `[1<<i]`, OR-reduced)
* `sigOfCl`               ↔ `Layout._from_Cl`
-/
namespace Model

/-- one COO entry of a rank-3 table: `M[k, l, m] = v` -/
structure Entry where
  k : Nat
  l : Nat
  m : Nat
  v : Int
deriving Repr, DecidableEq, Inhabited

/-- `gmt_element(bitmap_a, bitmap_b, sig_array)` -/
def gmtElement (sig : Nat → Int) (a b : Nat) : Nat × Int := (a ^^^ b, bladeSign sig a b)

/-- `_numba_construct_gmt`: for i, for j: entry `(i, bitmap_to_index[bitmap_v], j, mul)` at `i*n+j` -/
def constructGmt (sig : Nat → Int) (i2b : Nat → Nat) (b2i : Nat → Nat) (n : Nat) : List Entry :=
  (List.range n).flatMap fun i => (List.range n).map fun j =>
    let r := gmtElement sig (i2b i) (i2b j)
    { k := i, l := b2i r.1, m := j, v := r.2 }

/-- `imt_check(grade_v, grade_i, grade_j)` (integers, `abs` of the difference) -/
def imtCheck (gv gi gj : Int) : Bool := (gv == (gi - gj).natAbs) && (gi != 0) && (gj != 0)
/-- `omt_check` -/
def omtCheck (gv gi gj : Int) : Bool := gv == gi + gj
/-- `lcmt_check` -/
def lcmtCheck (gv gi gj : Int) : Bool := gv == gj - gi

/-- `_numba_construct_graded_mt`: `mask[ind] = check(grade_l, grade_k, grade_m)` -/
def gradedMt (grade : Nat → Nat) (check : Int → Int → Int → Bool) (es : List Entry) : List Entry :=
  es.filter fun e => check (grade e.l) (grade e.k) (grade e.m)

/-- OR-reduce of a tuple of single-bit bitmaps (`functools.reduce(operator.or_, t, 0)`) -/
def orReduce (t : List Nat) : Nat := t.foldl (· ||| ·) 0

/-- `_powerset([1 << i for i in range(n)])`, each tuple OR-reduced: the default storage order -/
def shortlexOrder (n : Nat) : List Nat :=
  (List.range (n+1)).flatMap fun r => (Shortlex.combs ((List.range n).map (1 <<< ·)) r).map orReduce

/-- `Layout._from_Cl`: `[0]*r + [+1]*p + [-1]*q` -/
def sigOfCl (p q r : Nat) : List Int := List.replicate r 0 ++ List.replicate p 1 ++ List.replicate q (-1)

/-- `set_bit_indices(x)` in ascending order (fuel = bit length is enough; `x` itself always is) -/
def setBitIndicesAux : Nat → Nat → Nat → List Nat
  | 0, _, _ => []
  | fuel+1, x, n => if x = 0 then [] else
      (if x % 2 = 1 then [n] else []) ++ setBitIndicesAux fuel (x / 2) (n+1)
def setBitIndices (x : Nat) : List Nat := setBitIndicesAux (x+1) x 0

/-- `count_set_bits` of the DISABLE_JIT build: count the items yielded by `set_bit_indices` -/
def countSetBitsLoop (x : Nat) : Nat := (setBitIndices x).length

/-- `BasisVectorIds.tuple_as_sign_and_bitmap` with ids already resolved to positions
    (`none` = the `ValueError` for a repeated id) -/
def tupleLoop : List Nat → Int → Nat → Option (Int × Nat)
  | [], s, bm => some (s, bm)
  | p :: ps, s, bm =>
      let b := 1 <<< p
      if b &&& bm ≠ 0 then none
      else tupleLoop ps (s * signE bm b) (bm ^^^ b)

/-- A storage layout as the kernels see it. `b2i` is `bitmap_to_index` (missing bitmaps map to `i2b.size`). -/
structure Layout where
  sig : Array Int
  i2b : Array Nat
  b2i : Array Nat
  grades : Array Nat
deriving Repr

def Layout.dims (L : Layout) : Nat := L.sig.size
def Layout.gaDims (L : Layout) : Nat := L.i2b.size
def Layout.sigF (L : Layout) : Nat → Int := fun i => L.sig.getD i 0
def Layout.i2bF (L : Layout) : Nat → Nat := fun i => L.i2b.getD i 0
def Layout.b2iF (L : Layout) : Nat → Nat := fun b => L.b2i.getD b L.i2b.size
def Layout.gradeF (L : Layout) : Nat → Nat := fun i => L.grades.getD i 0

/-- `BasisBladeOrder.__init__`: index_to_bitmap, grades by popcount, bitmap_to_index of size OR-reduce+1 -/
def mkLayout (sig : List Int) (order : List Nat) : Layout :=
  let i2b := order.toArray
  let largest := order.foldl (· ||| ·) 0 + 1
  let b2i := (List.range order.length).foldl
    (fun (acc : Array Nat) i => acc.setIfInBounds (i2b.getD i 0) i) (Array.replicate largest order.length)
  { sig := sig.toArray, i2b := i2b, b2i := b2i, grades := i2b.map popcount }

def Layout.gmt (L : Layout) : List Entry := constructGmt L.sigF L.i2bF L.b2iF L.gaDims
def Layout.omt (L : Layout) : List Entry := gradedMt L.gradeF omtCheck L.gmt
def Layout.imt (L : Layout) : List Entry := gradedMt L.gradeF imtCheck L.gmt
def Layout.lcmt (L : Layout) : List Entry := gradedMt L.gradeF lcmtCheck L.gmt

end Model
