/-! C19 spike (core Lean only): token-level printer and the parser's state machine; round trip on integers -/
namespace Text

inductive Tok where
  | space | lparen | rparen
  | sign (s : Int)
  | coeff (q : Int)        -- integer coefficients in this spike (rationals in the real model)
  | wedge
  | blade (idx : Nat)
  | unrecognized
  | end_
deriving Repr, DecidableEq

inductive Kind | sign | coeff | blade | wedge deriving DecidableEq, Repr

structure St where
  sign : Int := 0          -- only read after being set
  coeff : Int := 0
  last : Option Kind := none
  out : Nat → Int := fun _ => 0

def bump (f : Nat → Int) (i : Nat) (c : Int) : Nat → Int := fun j => if j = i then f j + c else f j

/-- one step of `parse_multivector`'s if/elif chain; `none` = SyntaxError. `sidx` = index of the scalar. -/
def step (sidx : Nat) (st : St) : Tok → Option St
  | .space => some st
  | .lparen => some st                      -- "continue": last_t is not updated
  | .rparen => some st
  | .sign d =>
      match st.last with
      | none => some { st with sign := d, last := some .sign }
      | some .blade => some { st with sign := d, last := some .sign }
      | some .sign => some { st with sign := st.sign * d, last := some .sign }
      | some .coeff => some { st with out := bump st.out sidx st.coeff, sign := d, last := some .sign }
      | some .wedge => none
  | .coeff d =>
      match st.last with
      | some .sign => some { st with coeff := st.sign * d, last := some .coeff }
      | none => some { st with coeff := d, last := some .coeff }
      | _ => none
  | .blade i =>
      match st.last with
      | some .wedge => some { st with out := bump st.out i st.coeff, last := some .blade }
      | some .sign => some { st with out := bump st.out i st.sign, last := some .blade }
      | none => some { st with out := bump st.out i 1, last := some .blade }
      | _ => none
  | .wedge =>
      match st.last with
      | some .coeff => some { st with last := some .wedge }
      | _ => none
  | .end_ =>
      match st.last with
      | some .coeff => some { st with out := bump st.out sidx st.coeff, last := none }
      | some .blade => some st
      | _ => none
  | .unrecognized => none

def run (sidx : Nat) : St → List Tok → Option St
  | st, [] => some st
  | st, t :: ts => match step sidx st t with | none => none | some st' => run sidx st' ts

/-- the parser with the position (token index) of the offending token, as `_parse_error(m, …)` reports it -/
def runPos (sidx : Nat) : Nat → St → List Tok → Except Nat St
  | _, st, [] => .ok st
  | pos, st, t :: ts => match step sidx st t with | none => .error pos | some st' => runPos sidx (pos + 1) st' ts

theorem runPos_ok_iff (sidx : Nat) (pos : Nat) (st : St) (ts : List Tok) (st' : St) :
    runPos sidx pos st ts = .ok st' ↔ run sidx st ts = some st' := by
  induction ts generalizing pos st with
  | nil => simp [runPos, run]
  | cons t ts ih =>
    simp only [runPos, run]
    cases h : step sidx st t with
    | none => simp
    | some s1 => simpa using ih (pos + 1) s1

/-- malformed patterns: two coefficients in a row -/
theorem coeff_after_coeff (sidx : Nat) (st : St) (h : st.last = some .coeff) (d : Int) : step sidx st (.coeff d) = none := by
  simp [step, h]
/-- a blade name directly after a coefficient (missing `^`) or after another blade -/
theorem blade_after_coeff (sidx : Nat) (st : St) (h : st.last = some .coeff) (i : Nat) : step sidx st (.blade i) = none := by
  simp [step, h]
theorem blade_after_blade (sidx : Nat) (st : St) (h : st.last = some .blade) (i : Nat) : step sidx st (.blade i) = none := by
  simp [step, h]
/-- dangling operator: the string ends after a sign or a wedge -/
theorem end_after_sign (sidx : Nat) (st : St) (h : st.last = some .sign) : step sidx st .end_ = none := by
  simp [step, h]
theorem end_after_wedge (sidx : Nat) (st : St) (h : st.last = some .wedge) : step sidx st .end_ = none := by
  simp [step, h]
/-- an unknown blade name reaches the tokenizer's `unrecognized` rule: always a SyntaxError -/
theorem unrecognized_error (sidx : Nat) (st : St) : step sidx st .unrecognized = none := rfl
/-- whitespace and parentheses never change the parser state -/
theorem space_skip (sidx : Nat) (st : St) : step sidx st .space = some st ∧ step sidx st .lparen = some st ∧ step sidx st .rparen = some st :=
  ⟨rfl, rfl, rfl⟩

/-- the error position is the index of the first token the state machine rejects -/
theorem runPos_error_at (sidx : Nat) (pre : List Tok) (bad : Tok) (rest : List Tok) (st0 st : St) (pos : Nat)
    (hpre : run sidx st0 pre = some st) (hbad : step sidx st bad = none) :
    runPos sidx pos st0 (pre ++ bad :: rest) = .error (pos + pre.length) := by
  induction pre generalizing st0 pos with
  | nil =>
    simp only [run, Option.some.injEq] at hpre
    subst hpre
    simp [runPos, hbad]
  | cons t ts ih =>
    simp only [run] at hpre
    cases h : step sidx st0 t with
    | none => simp [h] at hpre
    | some s1 =>
      simp only [h] at hpre
      simp only [List.cons_append, runPos, h]
      rw [ih s1 (pos + 1) hpre]
      simp only [List.length_cons]
      congr 1; omega

/-- a printed term: storage index, whether it is the scalar (grade 0), non-zero integer coefficient -/
structure Term where
  idx : Nat
  isScalar : Bool
  c : Int

def body (t : Term) : List Tok :=
  if t.isScalar then [.coeff t.c.natAbs] else [.lparen, .coeff t.c.natAbs, .wedge, .blade t.idx, .rparen]

def tokFirst (t : Term) : List Tok := (if t.c < 0 then [.sign (-1)] else []) ++ body t
def tokNext (t : Term) : List Tok := [.space, .sign (if t.c < 0 then -1 else 1), .space] ++ body t

/-- `__str__` at token level (terms already filtered to non-zero coefficients, in storage order) -/
def printToks : List Term → List Tok
  | [] => [.coeff 0]
  | t :: ts => tokFirst t ++ (ts.map tokNext).flatten

/-- expected accumulation -/
def denote (sidx : Nat) (ts : List Term) (acc : Nat → Int) : Nat → Int :=
  ts.foldl (fun f t => bump f (if t.isScalar then sidx else t.idx) t.c) acc

theorem natAbs_signed (c : Int) : (if c < 0 then (-1 : Int) else 1) * (c.natAbs : Int) = c := by
  split
  · next h => omega
  · next h => omega

/-- state after a complete term: either a finished blade or a pending scalar coefficient -/
def After (sidx : Nat) (f : Nat → Int) (st : St) : Prop :=
  (st.last = some .blade ∧ st.out = f) ∨ (st.last = some .coeff ∧ bump st.out sidx st.coeff = f)

theorem run_append (sidx : Nat) (st : St) (xs ys : List Tok) :
    run sidx st (xs ++ ys) = (run sidx st xs).bind (fun st' => run sidx st' ys) := by
  induction xs generalizing st with
  | nil => simp [run]
  | cons x xs ih =>
    simp only [List.cons_append, run]
    cases h : step sidx st x with
    | none => simp
    | some st' => simpa using ih st'

/-- parsing one more printed term from an `After` state -/
theorem run_tokNext (sidx : Nat) (f : Nat → Int) (st : St) (h : After sidx f st) (t : Term) :
    ∃ st', run sidx st (tokNext t) = some st' ∧ After sidx (bump f (if t.isScalar then sidx else t.idx) t.c) st' := by
  have hs := natAbs_signed t.c
  rcases h with ⟨hl, ho⟩ | ⟨hl, ho⟩
  · by_cases hb : t.isScalar = true
    · refine ⟨{ st with sign := (if t.c < 0 then -1 else 1), coeff := (if t.c < 0 then -1 else 1) * (t.c.natAbs : Int), last := some .coeff }, ?_, ?_⟩
      · simp [tokNext, body, hb, run, step, hl]
      · right; simp [hb, ho, hs]
    · refine ⟨{ st with sign := (if t.c < 0 then -1 else 1), out := bump st.out t.idx ((if t.c < 0 then -1 else 1) * (t.c.natAbs : Int)), coeff := (if t.c < 0 then -1 else 1) * (t.c.natAbs : Int), last := some .blade }, ?_, ?_⟩
      · simp [tokNext, body, hb, run, step, hl]
      · left; simp [hb, ho, hs]
  · by_cases hb : t.isScalar = true
    · refine ⟨{ st with out := bump st.out sidx st.coeff, sign := (if t.c < 0 then -1 else 1), coeff := (if t.c < 0 then -1 else 1) * (t.c.natAbs : Int), last := some .coeff }, ?_, ?_⟩
      · simp [tokNext, body, hb, run, step, hl]
      · right; simp [hb, ho, hs]
    · refine ⟨{ st with out := bump (bump st.out sidx st.coeff) t.idx ((if t.c < 0 then -1 else 1) * (t.c.natAbs : Int)), sign := (if t.c < 0 then -1 else 1), coeff := (if t.c < 0 then -1 else 1) * (t.c.natAbs : Int), last := some .blade }, ?_, ?_⟩
      · simp [tokNext, body, hb, run, step, hl]
      · left; simp [hb, ho, hs]

theorem run_rest (sidx : Nat) (ts : List Term) :
    ∀ (f : Nat → Int) (st : St), After sidx f st →
    ∃ st', run sidx st ((ts.map tokNext).flatten) = some st' ∧ After sidx (denote sidx ts f) st' := by
  induction ts with
  | nil => intro f st h; exact ⟨st, by simp [run], by simpa [denote] using h⟩
  | cons t ts ih =>
    intro f st h
    obtain ⟨st1, h1, a1⟩ := run_tokNext sidx f st h t
    obtain ⟨st2, h2, a2⟩ := ih _ st1 a1
    refine ⟨st2, ?_, ?_⟩
    · simp only [List.map_cons, List.flatten_cons, run_append, h1]; simpa using h2
    · simpa [denote] using a2

theorem run_end (sidx : Nat) (f : Nat → Int) (st : St) (h : After sidx f st) :
    ∃ st', run sidx st [.end_] = some st' ∧ st'.out = f := by
  rcases h with ⟨hl, ho⟩ | ⟨hl, ho⟩
  · exact ⟨st, by simp [run, step, hl], ho⟩
  · exact ⟨{ st with out := bump st.out sidx st.coeff, last := none }, by simp [run, step, hl], by simp [ho]⟩

theorem run_tokFirst (sidx : Nat) (t : Term) :
    ∃ st', run sidx {} (tokFirst t) = some st' ∧ After sidx (bump (fun _ => 0) (if t.isScalar then sidx else t.idx) t.c) st' := by
  have hs := natAbs_signed t.c
  by_cases hneg : t.c < 0 <;> by_cases hb : t.isScalar = true
  · refine ⟨{ sign := -1, coeff := -1 * (t.c.natAbs : Int), last := some .coeff }, by simp [tokFirst, body, hneg, hb, run, step], ?_⟩
    right; simp [hneg] at hs; simp [hb, hs]
  · refine ⟨{ sign := -1, coeff := -1 * (t.c.natAbs : Int), out := bump (fun _ => 0) t.idx (-1 * (t.c.natAbs : Int)), last := some .blade }, by simp [tokFirst, body, hneg, hb, run, step], ?_⟩
    left; simp [hneg] at hs; simp [hb, hs]
  · refine ⟨{ coeff := (t.c.natAbs : Int), last := some .coeff }, by simp [tokFirst, body, hneg, hb, run, step], ?_⟩
    right; simp [hneg] at hs; simp [hb, hs]
  · refine ⟨{ coeff := (t.c.natAbs : Int), out := bump (fun _ => 0) t.idx (t.c.natAbs : Int), last := some .blade }, by simp [tokFirst, body, hneg, hb, run, step], ?_⟩
    left; simp [hneg] at hs; simp [hb, hs]

/-- **round trip**: parsing the printed token stream of any list of integer terms returns their accumulation -/
theorem parse_print (sidx : Nat) (ts : List Term) :
    ∃ st, run sidx {} (printToks ts ++ [.end_]) = some st ∧ st.out = denote sidx ts (fun _ => 0) := by
  cases ts with
  | nil => exact ⟨{ coeff := 0, out := bump (fun _ => 0) sidx 0, last := none }, by simp [printToks, run, step], by funext j; simp [denote, bump]⟩
  | cons t ts =>
    obtain ⟨s1, h1, a1⟩ := run_tokFirst sidx t
    obtain ⟨s2, h2, a2⟩ := run_rest sidx ts _ s1 a1
    obtain ⟨s3, h3, a3⟩ := run_end sidx _ s2 a2
    refine ⟨s3, ?_, ?_⟩
    · simp only [printToks, List.append_assoc, run_append, h1]; simp [h2, h3]
    · simpa [denote] using a3

/-! ### `MultiVector.__str__`, loop for loop (integer coefficients: `abs(coeff) < eps` is `coeff = 0`, no rounding) -/

/-- one `(grade, name, coeff)` triple of the `zip` the loop runs over; the name is represented by the storage index -/
structure Entry where
  grade : Nat
  idx : Nat
  c : Int

/-- the loop body: the string built so far is a token list; `continue` leaves it unchanged -/
def strStep (s : List Tok) (e : Entry) : List Tok :=
  let seps : List Tok × List Tok :=
    if s ≠ [] then ([.space, .sign 1, .space], [.space, .sign (-1), .space]) else ([], [.sign (-1)])
  if e.c = 0 then s
  else
    let sep := if e.c < 0 then seps.2 else seps.1
    let sign : Int := if e.c < 0 then -1 else 1
    let absCoeff := sign * e.c
    if e.grade = 0 then s ++ sep ++ [.coeff absCoeff]
    else s ++ sep ++ [.lparen, .coeff absCoeff, .wedge, .blade e.idx, .rparen]

/-- the last lines: `return s if s else '0'` -/
def strFinal (s : List Tok) : List Tok := if s ≠ [] then s else [.coeff 0]

def strLoop (es : List Entry) : List Tok := strFinal (es.foldl strStep [])

def Entry.toTerm (e : Entry) : Term := ⟨e.idx, e.grade == 0, e.c⟩
/-- the terms `__str__` prints: the entries with a non-zero coefficient, in storage order -/
def printedTerms (es : List Entry) : List Term := (es.filter (fun e => e.c != 0)).map Entry.toTerm

theorem signed_eq_natAbs (c : Int) : (if c < 0 then (-1 : Int) else 1) * c = (c.natAbs : Int) := by
  split
  · next h => omega
  · next h => omega

theorem strStep_nonempty (s : List Tok) (e : Entry) (hs : s ≠ []) (hc : e.c ≠ 0) :
    strStep s e = s ++ tokNext e.toTerm := by
  simp only [strStep, hs, hc, ne_eq, not_false_eq_true, if_true, if_false, tokNext, body, Entry.toTerm, signed_eq_natAbs]
  by_cases hneg : e.c < 0 <;> by_cases hg : e.grade = 0 <;> simp [hneg, hg]

theorem strStep_empty (e : Entry) (hc : e.c ≠ 0) : strStep [] e = tokFirst e.toTerm := by
  simp only [strStep, hc, ne_eq, not_true_eq_false, if_false, tokFirst, body, Entry.toTerm, signed_eq_natAbs]
  by_cases hneg : e.c < 0 <;> by_cases hg : e.grade = 0 <;> simp [hneg, hg]

theorem strStep_zero (s : List Tok) (e : Entry) (hc : e.c = 0) : strStep s e = s := by simp [strStep, hc]

theorem tokNext_ne_nil (t : Term) : tokNext t ≠ [] := by simp [tokNext]
theorem tokFirst_ne_nil (t : Term) : tokFirst t ≠ [] := by
  unfold tokFirst body; split <;> split <;> simp

theorem foldl_strStep_nonempty (es : List Entry) (s : List Tok) (hs : s ≠ []) :
    es.foldl strStep s = s ++ ((printedTerms es).map tokNext).flatten := by
  induction es generalizing s with
  | nil => simp [printedTerms]
  | cons e es ih =>
    by_cases hc : e.c = 0
    · simp only [List.foldl_cons, strStep_zero s e hc]
      rw [ih s hs]; simp [printedTerms, hc]
    · simp only [List.foldl_cons, strStep_nonempty s e hs hc]
      rw [ih _ (by simp [hs])]
      simp [printedTerms, hc, List.append_assoc]

/-- **the loop of `__str__` prints exactly `printToks` of the non-zero terms in storage order** — the token stream
`parse_print_roundtrip` is about -/
theorem strLoop_eq_printToks (es : List Entry) : strLoop es = printToks (printedTerms es) := by
  unfold strLoop
  induction es with
  | nil => simp [strFinal, printedTerms, printToks]
  | cons e es ih =>
    by_cases hc : e.c = 0
    · simp only [List.foldl_cons, strStep_zero [] e hc]
      rw [ih]; simp [printedTerms, hc]
    · simp only [List.foldl_cons, strStep_empty e hc]
      rw [foldl_strStep_nonempty es _ (tokFirst_ne_nil _)]
      have : printedTerms (e :: es) = e.toTerm :: printedTerms es := by simp [printedTerms, hc]
      rw [this]
      simp [strFinal, printToks, tokFirst_ne_nil]

/-! ### `_match_line_offset`: where the `SyntaxError` points (line number and column, both from 1) -/

/-- the loop `for line_i, line in enumerate(lines, 1): new_pos = pos - len(line) - 1; if new_pos < 0: return line_i, pos + 1, line; pos = new_pos`
over the lengths of the lines; `none` is the unreachable `assert False` -/
def lineOffset (lineI : Nat) (pos : Int) : List Nat → Option (Nat × Int)
  | [] => none
  | len :: rest =>
    let newPos : Int := pos - (len : Int) - 1
    if newPos < 0 then some (lineI, pos + 1) else lineOffset (lineI + 1) newPos rest

/-- characters before line `k` (each line with its newline) -/
def lineStart : List Nat → Int
  | [] => 0
  | l :: t => (l : Int) + 1 + lineStart t

theorem lineStart_nonneg (pre : List Nat) : 0 ≤ lineStart pre := by
  induction pre with
  | nil => simp [lineStart]
  | cons l t ih => simp only [lineStart]; omega

/-- **the reported position is the right one**: a match at column `c` (from 0, `c ≤ len`, so the end-of-line position included) of the line
that follows the lines `pre` is reported as line `|pre| + 1`, column `c + 1` — for any number of lines of any lengths -/
theorem lineOffset_spec (i : Nat) (pre : List Nat) (len : Nat) (post : List Nat) (c : Nat) (hc : c ≤ len) :
    lineOffset i (lineStart pre + (c : Int)) (pre ++ len :: post) = some (i + pre.length, (c : Int) + 1) := by
  induction pre generalizing i with
  | nil =>
    have h : (lineStart [] + (c : Int)) - (len : Int) - 1 < 0 := by simp only [lineStart]; omega
    have e0 : lineStart [] + (c : Int) + 1 = (c : Int) + 1 := by simp only [lineStart]; omega
    simp only [List.nil_append, lineOffset, if_pos h, List.length_nil, Nat.add_zero, e0]
  | cons l pre ih =>
    have e : lineStart (l :: pre) + (c : Int) - (l : Int) - 1 = lineStart pre + (c : Int) := by
      simp only [lineStart]; omega
    have hn : ¬ (lineStart (l :: pre) + (c : Int) - (l : Int) - 1 < 0) := by
      rw [e]
      have := lineStart_nonneg pre
      omega
    have hn' : ¬ (lineStart pre + (c : Int) < 0) := by rw [← e]; exact hn
    simp only [List.cons_append, lineOffset, e, if_neg hn']
    rw [ih (i + 1)]
    have el : i + 1 + pre.length = i + (l :: pre).length := by simp only [List.length_cons]; omega
    rw [el]

/-- the lexicon of `_tokenize`: (pattern as written in the source, token kind, payload expression), in the order `re.Scanner` tries them -/
def lexicon : List (String × String × String) :=
  [("'\\\\s+'", "space", "None"),
   ("'\\\\('", "(", "None"),
   ("'\\\\)'", ")", "None"),
   ("'[+-]'", "sign", "1 if t == '+' else -1"),
   ("_unsigned_float_pattern", "coeff", "float(t)"),
   ("'\\\\^'", "wedge", "None"),
   ("'\\\\b(?:{})\\\\b'.format('|'.join((re.escape(name) for name in layout.names if name)))", "blade", "blade_name_index_map[t]"),
   ("'.'", "unrecognized", "None")]

/-- `_unsigned_float_pattern` -/
def unsignedFloatPattern : String := "(?:\\d+(?:\\.\\d*)?|\\.\\d+)(?:[eE][-+]?\\d+)?"

end Text
