import Model.Inverse

/-! `clifford/taylor_expansions.py` as coded, in exact rationals (so "the N-term polynomial" is computed exactly and
the binary64 run of the real code can be compared with it). Core Lean only. -/
namespace Model
namespace Ctx
variable (C : Ctx)

def fact : Nat → Nat
  | 0 => 1
  | n + 1 => (n + 1) * fact n

/-- `int(np.sum(np.abs(x.value)))` (the sum of the absolute coefficients bounds the norm of the operand) -/
def sumAbsFloor (a : MV) : Nat := (a.foldl (fun m q => m + q.abs) (0 : Rat)).floor.toNat

/-- the scaling loop of `exp`: `if max_val > 1: max_val <<= 1; while max_val: max_val >>= 1; scale <<= 1` -/
def expScale (maxVal : Nat) : Nat :=
  let mv := if maxVal > 1 then maxVal <<< 1 else maxVal
  let rec go (fuel m sc : Nat) : Nat :=
    match fuel with
    | 0 => sc
    | fuel + 1 => if m = 0 then sc else go fuel (m >>> 1) (sc <<< 1)
  go (mv + 1) mv 1

/-- `exp(x, max_order)` -/
def expSeries (eps : Rat) (maxOrder : Nat) (x : MV) : MV :=
  let result0 := C.add C.one (C.smul 0 x)
  if maxOrder = 0 then result0 else
  let scale := expScale (sumAbsFloor x)
  let scaled := C.smul (1 / (scale : Rat)) x
  let st := (List.range' 1 (maxOrder - 1)).foldl (fun (st : MV × MV × Bool) (i : Nat) =>
    let (res, tmp, stop) := st
    if stop then st
    else if tmp.any (fun q => decide (q.abs > eps)) then
      let tmp' := C.smul (1 / ((i : Nat) : Rat)) (C.gp tmp scaled)
      (C.add res tmp', tmp', false)
    else (res, tmp, true)) (result0, result0, false)
  -- undo scaling: `while scale > 1: result = result*result; scale >>= 1`
  let rec sq (fuel sc : Nat) (r : MV) : MV :=
    match fuel with
    | 0 => r
    | fuel + 1 => if sc > 1 then sq fuel (sc >>> 1) (C.gp r r) else r
  sq (scale + 1) scale st.1

/-- `sin / sinh`: `op = +X; X2np1 = X; for n in 1..N-1: X2np1 *= X2; op += (±1)^n / gamma(2n+2) * X2np1` -/
def oddSeries (alt : Bool) (maxOrder : Nat) (x : MV) : MV :=
  let x2 := C.gp x x
  ((List.range' 1 (maxOrder - 1)).foldl (fun (st : MV × MV) (n : Nat) =>
    let p := C.gp st.2 x2
    let c : Rat := (if alt && n % 2 = 1 then -1 else 1) / ((fact (2 * n + 1) : Nat) : Rat)
    (C.add st.1 (C.smul c p), p)) (x, x)).1

/-- `cos / cosh`: `op = 1 + 0*X; X2n = 1 + 0*X; for n in 1..N-1: X2n *= X2; op += (±1)^n / gamma(2n+1) * X2n` -/
def evenSeries (alt : Bool) (maxOrder : Nat) (x : MV) : MV :=
  let x2 := C.gp x x
  let one0 := C.add C.one (C.smul 0 x)
  ((List.range' 1 (maxOrder - 1)).foldl (fun (st : MV × MV) (n : Nat) =>
    let p := C.gp st.2 x2
    let c : Rat := (if alt && n % 2 = 1 then -1 else 1) / ((fact (2 * n) : Nat) : Rat)
    (C.add st.1 (C.smul c p), p)) (one0, one0)).1

end Ctx
end Model
