/-! Operand classes and dtype kinds of the binary operators (`_checkOther`, numpy promotion by kind).
Core Lean only. -/
namespace Model

/-- numpy dtype kinds the properties speak about, ordered `int < float < complex` -/
inductive Kind | int | float | complex
deriving DecidableEq, Repr

def Kind.rank : Kind → Nat
  | .int => 0 | .float => 1 | .complex => 2

/-- result kind of a binary operation on two coefficient arrays / scalars: the larger kind -/
def promote (a b : Kind) : Kind := if a.rank ≤ b.rank then b else a

def Kind.ofString : String → Option Kind
  | "i" => some .int | "f" => some .float | "c" => some .complex | _ => none
def Kind.toString : Kind → String
  | .int => "i" | .float => "f" | .complex => "c"

/-- **The binary operators of `MultiVector`, as a table** (`method, kernel, operand order, what a plain number as the other operand does`),
sorted.  `scale`: the number multiplies the coefficient array (`q * A`, `q ^ A`: the grade-0 multivector of that value, `C03.scalar_operand_gp/op`);
`zero`: the result is the zero multivector (`q | A`, `C02.inner_scalar_left/right`); `coerce`: `_checkOther` turns the number into the grade-0
multivector first (`+`, `-`, `lc` / `<<`); `mv-only`: no scalar branch (`vee`, `&`).  `other,self` marks the reflected methods (`__rmul__` …), which pass
the operands to the kernel in the written order.  `translate/methods2lean.py` reads the same table from the frames of the methods in the current
source (`_checkOther` call, multivector branch, ndarray branch, scalar branch, `_newMV`): an added shortcut or early return makes it refuse. -/
def operatorTable : List (String × String × String × String) :=
  [("__add__", "array", "self+other", "coerce"), ("__and__", "alias", "vee", "mv-only"), ("__lshift__", "alias", "lc", "coerce"),
   ("__mul__", "gmt_func", "self,other", "scale"), ("__or__", "imt_func", "self,other", "zero"), ("__radd__", "alias", "__add__", "coerce"),
   ("__rmul__", "gmt_func", "other,self", "scale"), ("__ror__", "imt_func", "other,self", "zero"), ("__rsub__", "array", "other-self", "coerce"),
   ("__rxor__", "omt_func", "other,self", "scale"), ("__sub__", "array", "self-other", "coerce"), ("__xor__", "omt_func", "self,other", "scale"),
   ("lc", "lcmt_func", "self,other", "coerce"), ("vee", "vee_func", "self,other", "mv-only")]

end Model
