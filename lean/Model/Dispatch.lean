/-! Operand classes and dtype kinds of the binary operators (`_checkOther`, numpy promotion by kind).
Core Lean only. -/
namespace Model

/-- numpy dtype kinds the properties speak about, ordered `int < float < complex` -/
inductive Kind | int | float | complex
deriving DecidableEq, Repr

def Kind.rank : Kind → Nat
  | .int => 0 | .float => 1 | .complex => 2

/-- result kind of a binary operation on two coefficient arrays / scalars: the larger kind -/
def promote (a b : Kind) : Kind := if a.rank ≤ b.rank then b else a

def Kind.ofString : String → Option Kind
  | "i" => some .int | "f" => some .float | "c" => some .complex | _ => none
def Kind.toString : Kind → String
  | .int => "i" | .float => "f" | .complex => "c"

end Model
