-- spike: code-shaped kernels (core Lean only)
namespace Model

/-- `count_set_bits` (DISABLE_JIT fallback / popcnt) -/
def popcount (x : Nat) : Nat :=
  if h : x = 0 then 0 else x % 2 + popcount (x / 2)
decreasing_by omega

/-- `canonical_reordering_sign_euclidean`'s accumulated `sum_value`:
    a = bitmap_a >> 1; while a != 0: sum += popcount(a & b); a >>= 1 -/
def swapsLoop (a b : Nat) (acc : Nat) : Nat :=
  if h : a = 0 then acc else swapsLoop (a >>> 1) b (acc + popcount (a &&& b))
decreasing_by simp [Nat.shiftRight_eq_div_pow]; omega

def reorderSwaps (a b : Nat) : Nat := swapsLoop (a >>> 1) b 0

def signE (a b : Nat) : Int := if reorderSwaps a b &&& 1 = 0 then 1 else -1

/-- the metric loop of `canonical_reordering_sign` -/
def metricLoop (sig : Nat → Int) (bitmap i : Nat) (acc : Int) : Int :=
  if h : bitmap = 0 then acc
  else metricLoop sig (bitmap >>> 1) (i+1) (if bitmap &&& 1 ≠ 0 then acc * sig i else acc)
decreasing_by simp [Nat.shiftRight_eq_div_pow]; omega

def bladeSign (sig : Nat → Int) (a b : Nat) : Int := metricLoop sig (a &&& b) 0 (signE a b)

end Model

