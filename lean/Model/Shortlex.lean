/-! C06 spike (core Lean only): `itertools.combinations` order and the reverse-complement law -/
namespace Shortlex

variable {α : Type}

/-- k-subsets of `l` in `itertools.combinations` (lexicographic) order, each with its complement in `l` -/
def combsC : List α → Nat → List (List α × List α)
  | l, 0 => [([], l)]
  | [], _+1 => []
  | x :: xs, k+1 =>
      (combsC xs k).map (fun p => (x :: p.1, p.2)) ++ (combsC xs (k+1)).map (fun p => (p.1, x :: p.2))

/-- plain combinations, as the library enumerates them -/
def combs : List α → Nat → List (List α)
  | _, 0 => [[]]
  | [], _+1 => []
  | x :: xs, k+1 => (combs xs k).map (x :: ·) ++ combs xs (k+1)

theorem combsC_fst (l : List α) (k : Nat) : (combsC l k).map Prod.fst = combs l k := by
  induction l generalizing k with
  | nil => cases k <;> simp [combsC, combs]
  | cons x xs ih =>
    cases k with
    | zero => simp [combsC, combs]
    | succ k => simp [combsC, combs, List.map_append, ← ih, Function.comp_def]

theorem combsC_gt (l : List α) (k : Nat) (h : l.length < k) : combsC l k = [] := by
  induction l generalizing k with
  | nil => cases k with
    | zero => simp at h
    | succ k => simp [combsC]
  | cons x xs ih =>
    cases k with
    | zero => simp at h
    | succ k =>
      simp only [List.length_cons] at h
      simp [combsC, ih k (by omega), ih (k+1) (by omega)]

theorem combsC_full (l : List α) : combsC l l.length = [(l, [])] := by
  induction l with
  | nil => simp [combsC]
  | cons x xs ih => simp [combsC, ih, combsC_gt xs (xs.length + 1) (by omega)]

/-- **reverse-complement law**: the k-subsets in reverse order, with the two components
swapped, are the (|l|−k)-subsets in order. -/
theorem combsC_reverse_swap (l : List α) : ∀ k, k ≤ l.length →
    (combsC l k).reverse.map Prod.swap = combsC l (l.length - k) := by
  induction l with
  | nil =>
    intro k hk
    have : k = 0 := by simpa using hk
    subst this; simp [combsC]
  | cons x xs ih =>
    intro k hk
    simp only [List.length_cons] at hk ⊢
    cases k with
    | zero =>
      simp only [Nat.sub_zero]
      rw [show combsC (x :: xs) 0 = [([], x :: xs)] from by simp [combsC]]
      simp [combsC, combsC_full, combsC_gt xs (xs.length + 1) (by omega)]
    | succ j =>
      have hj : j ≤ xs.length := by omega
      rw [show xs.length + 1 - (j + 1) = xs.length - j from by omega]
      rcases Nat.eq_or_lt_of_le hj with heq | hlt
      · -- j = |xs| : only one subset, the whole list
        subst heq
        simp [combsC, combsC_full, combsC_gt xs (xs.length + 1) (by omega)]
      · -- j < |xs|
        obtain ⟨m', hm'⟩ : ∃ m', xs.length - j = m' + 1 := ⟨xs.length - j - 1, by omega⟩
        have ih1 := ih (j+1) (by omega)
        have ih2 := ih j hj
        rw [show xs.length - (j+1) = m' from by omega] at ih1
        rw [hm'] at ih2 ⊢
        simp only [combsC, List.reverse_append, List.map_append]
        rw [← ih1, ← ih2]
        simp only [← List.map_reverse, List.map_map]
        rfl

end Shortlex
