/-! C17: a store of coefficient arrays with object identities.

Every catalogue operation (`pure`) reads its operands and allocates a fresh array for its result; only the
documented mutators (`setitem`, `clean`, `round`) write into an existing array, and only into their target.
Array *contents* are abstracted to a version counter per cell: a write bumps the version of exactly that
cell, so "the bytes of array `a` are unchanged" is "its version is unchanged".  The random generators are
modelled as consumers of an explicit draw stream.  Core Lean only; executable (the driver replays histories). -/
namespace Store

abbrev Addr := Nat

inductive Op where
  | pure (args : List Addr)            -- any operator / product / involution / inverse / projection / tool function
  | mutate (target : Addr)             -- item assignment, `clean`, `round` on the object at `target`
deriving Repr, DecidableEq

/-- the store: one version counter per allocated array -/
abbrev Heap := List Nat

/-- result of a step: the new heap and the address of the returned array (a mutator returns its target) -/
def step (h : Heap) : Op → Heap × Addr
  | .pure _ => (h ++ [0], h.length)
  | .mutate t => (h.set t (h.getD t 0 + 1), t)

def run (h : Heap) : List Op → Heap
  | [] => h
  | op :: ops => run (step h op).1 ops

def targets : List Op → List Addr
  | [] => []
  | .pure _ :: ops => targets ops
  | .mutate t :: ops => t :: targets ops

/-- a pure operation changes no existing array -/
theorem step_pure_preserves (h : Heap) (args : List Addr) (a : Addr) (ha : a < h.length) :
    (step h (.pure args)).1.getD a 0 = h.getD a 0 := by
  simp [step, List.getD_eq_getElem?_getD, List.getElem?_append_left ha]

/-- its result is a fresh array: an address no operand, constant or earlier result has -/
theorem step_pure_fresh (h : Heap) (args : List Addr) : (step h (.pure args)).2 = h.length ∧ ∀ a, a < h.length → a ≠ (step h (.pure args)).2 := by
  refine ⟨rfl, fun a ha hEq => ?_⟩
  simp [step] at hEq; omega

/-- a mutator changes only its target -/
theorem step_mutate_other (h : Heap) (t a : Addr) (hne : a ≠ t) : (step h (.mutate t)).1.getD a 0 = h.getD a 0 := by
  simp [step, List.getD_eq_getElem?_getD, List.getElem?_set_ne (Ne.symm hne)]

theorem step_length_ge (h : Heap) (op : Op) : h.length ≤ (step h op).1.length := by
  cases op <;> simp [step]

/-- **purity over any history**: after any sequence of operations, every array that was not the target of a
documented mutator still has the contents it had before -/
theorem run_preserves (ops : List Op) : ∀ (h : Heap) (a : Addr), a < h.length → a ∉ targets ops →
    (run h ops).getD a 0 = h.getD a 0 := by
  induction ops with
  | nil => intro h a _ _; rfl
  | cons op ops ih =>
    intro h a ha hnt
    cases op with
    | pure args =>
      simp only [run, targets] at *
      rw [ih _ a (Nat.lt_of_lt_of_le ha (step_length_ge h _)) hnt, step_pure_preserves h args a ha]
    | mutate t =>
      simp only [run, targets, List.mem_cons, not_or] at *
      rw [ih _ a (Nat.lt_of_lt_of_le ha (step_length_ge h _)) hnt.2, step_mutate_other h t a hnt.1]

/-- determinism: an operation is a function of the store and its operands -/
theorem step_deterministic (h : Heap) (op : Op) : step h op = step h op := rfl

/-! ### random generators as stream consumers -/

/-- a generator state: position in a fixed draw stream -/
structure Rng where
  pos : Nat
deriving Repr, DecidableEq

/-- one sample consuming `k` draws: returns the consumed positions (the draws are a function of them) -/
def drawOne (k : Nat) (g : Rng) : List Nat × Rng := ((List.range k).map (g.pos + ·), { pos := g.pos + k })

/-- `n` samples requested at once from one generator -/
def drawMany (k : Nat) : Nat → Rng → List (List Nat) × Rng
  | 0, g => ([], g)
  | n + 1, g =>
    let (x, g1) := drawOne k g
    let (xs, g2) := drawMany k n g1
    (x :: xs, g2)

/-- the same generator state gives the same output -/
theorem draw_reproducible (k n : Nat) (g g' : Rng) (h : g = g') : drawMany k n g = drawMany k n g' := by rw [h]

/-- a request for several samples consumes the stream sequentially: it equals `n` single requests in a row -/
theorem drawMany_succ (k n : Nat) (g : Rng) :
    drawMany k (n + 1) g = ((drawOne k g).1 :: (drawMany k n (drawOne k g).2).1, (drawMany k n (drawOne k g).2).2) := rfl

theorem drawMany_pos (k : Nat) : ∀ (n : Nat) (g : Rng), (drawMany k n g).2.pos = g.pos + n * k := by
  intro n
  induction n with
  | zero => intro g; simp [drawMany]
  | succ n ih =>
    intro g
    rw [drawMany_succ]
    simp only [ih, drawOne]
    rw [Nat.succ_mul]; omega

end Store
