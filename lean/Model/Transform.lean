import Model.MV

/-! `clifford/transformations.py`: `_make_outermorphism`, `LinearMatrix.__call__/adjoint/from_function`,
`between_basis_vectors` — executable model over exact rationals. Matrices are arrays of *columns*
(column `i` is the image of source blade `i`, a multivector of the destination layout). Core Lean only. -/
namespace Model

/-- `_make_outermorphism(t_vector, src_order, dst_order, dst_omt_func)`; `m[v_dst][v_src]` -/
def makeOutermorphism (Cs Cd : Ctx) (m : Array (Array Rat)) : Array MV :=
  let nSrc := Cs.L.dims
  let nDst := Cd.L.dims
  -- fill the vectors
  let vecCol (vs : Nat) : MV :=
    (List.range nDst).foldl (fun col vd => col.setIfInBounds (Cd.L.b2iF (1 <<< vd)) ((m.getD vd #[]).getD vs 0)) Cd.zero
  let cols0 : Array MV := (List.range nSrc).foldl
    (fun cols vs => cols.setIfInBounds (Cs.L.b2iF (1 <<< vs)) (vecCol vs)) (Array.replicate Cs.dims Cd.zero)
  -- fill in the rest: f(e1^...^en) = f(e1)^...^f(en), in `set_bit_indices` order
  (List.range Cs.dims).foldl (fun cols i =>
    if Cs.L.gradeF i == 1 then cols
    else
      let out0 := Cd.zero.setIfInBounds (Cd.L.b2iF 0) 1
      let out := (setBitIndices (Cs.L.i2bF i)).foldl (fun out vs => Cd.op out (cols.getD (Cs.L.b2iF (1 <<< vs)) Cd.zero)) out0
      cols.setIfInBounds i out) cols0

/-- `LinearMatrix.__call__`: `matrix @ mv.value` with the matrix given by columns -/
def applyCols (dimsDst : Nat) (cols : Array MV) (x : MV) : MV :=
  (Array.range dimsDst).map fun r => (List.range cols.size).foldl (fun acc c => acc + (cols.getD c #[]).getD r 0 * x.getD c 0) 0

/-- `LinearMatrix.adjoint`: the transposed matrix, again by columns (`dimsDst` = number of rows of the original) -/
def transposeCols (dimsDst : Nat) (cols : Array MV) : Array MV :=
  (Array.range dimsDst).map fun r => (Array.range cols.size).map fun c => (cols.getD c #[]).getD r 0

/-- `between_basis_vectors`: the 0/1 vector matrix from index pairs `(src_index, dst_index)` -/
def basisVectorMatrix (nDst nSrc : Nat) (pairs : List (Nat × Nat)) : Array (Array Rat) :=
  pairs.foldl (fun m p => m.modify p.2 (fun row => row.setIfInBounds p.1 1)) (Array.replicate nDst (Array.replicate nSrc 0))

end Model

namespace Model
/-- `BladeMap.__call__` on value arrays: for every pair `(from_obj, to_obj)`: `B += sum(A.value * from_obj.value) * to_obj` -/
def bladeMapApply (dimsTo : Nat) (pairs : List (MV × MV)) (A : MV) : MV :=
  pairs.foldl (fun B p =>
    let dot : Rat := (List.range A.size).foldl (fun acc i => acc + A.getD i 0 * p.1.getD i 0) 0
    (Array.range dimsTo).map fun r => B.getD r 0 + dot * p.2.getD r 0) (Array.replicate dimsTo 0)
end Model
