import Model.Inverse

/-! `ConformalLayout` constants and `up / homo / down` as coded in `clifford/_conformal_layout.py`,
over a `Ctx` whose last two basis vectors are the added pair (exact rationals). Core Lean only. -/
namespace Model
namespace Ctx
variable (C : Ctx)

/-- `basis_vectors_lst[k]`: the blade with bitmap `1 <<< k` -/
def basisVector (k : Nat) : MV := C.basisBlade (C.L.b2iF (1 <<< k))

def cEp : MV := C.basisVector (C.L.dims - 2)
def cEn : MV := C.basisVector (C.L.dims - 1)
/-- `eo = .5 ^ (en - ep)` — a Python float on the left of `^` multiplies -/
def cEo : MV := C.smul (1/2) (C.sub C.cEn C.cEp)
/-- `einf = en + ep` -/
def cEinf : MV := C.add C.cEn C.cEp
/-- `E0 = einf ^ eo` -/
def cE0 : MV := C.op C.cEinf C.cEo
/-- `I_base = pseudoScalar * E0` -/
def cIbase : MV := C.gp (C.basisBlade (C.dims - 1)) C.cE0

/-- `up(x) = x + (.5 ^ ((x**2) * einf)) + eo` -/
def cUp (x : MV) : MV := C.add (C.add x (C.smul (1/2) (C.gp (C.powNat x 2) C.cEinf))) C.cEo

/-- `homo(x) = x / (-x | einf)[()]` (`ZeroDivisionError` is numpy's inf/nan; reported as an error here) -/
def cHomo (x : MV) : Except String MV :=
  let d := (C.ip (C.neg x) C.cEinf).getD C.scalarIdx 0
  if d == 0 then .error "ZeroDivision" else .ok (C.sdiv x d)

/-- `down(x) = (homo(x) ^ E0) * E0` -/
def cDown (x : MV) : Except String MV := do
  let h ← C.cHomo x
  pure (C.gp (C.op h C.cE0) C.cE0)

end Ctx
end Model
