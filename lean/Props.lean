import Props.C01
import Props.C02
