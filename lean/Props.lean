import Proofs
