import Props.C01
import Props.C02
import Props.C04
import Props.C06
import Props.C07
import Props.C03
import Props.C05
import Props.C19
