import Model.Bits
import Model.Text
import Model.Shortlex
import Model.Tensor
