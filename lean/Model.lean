import Model.Bits
import Model.Shortlex
import Model.Table
import Model.Kernel
import Model.MV
import Model.Text
import Model.Tensor
import Model.Dispatch
