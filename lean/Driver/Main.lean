import Model
def main : IO Unit := IO.println "cliffdrv"
