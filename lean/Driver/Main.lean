import Model
import Std.Data.HashMap

/-! `cliffdrv`: line-protocol driver for the executable model (core Lean only, compiled).
One request per line, one reply per line. See DESIGN.md Appendix C. -/
open Model

namespace Drv

def fnv64 (s : String) : UInt64 :=
  s.toUTF8.foldl (fun h b => (h ^^^ b.toUInt64) * 1099511628211) 14695981039346656037

def parseRat (s : String) : Option Rat :=
  match s.splitOn "/" with
  | [p] => p.toInt?.map fun i => (i : Rat)
  | [p, q] => do
      let pi ← p.toInt?
      let qi ← q.toNat?
      if qi = 0 then none else some (mkRat pi qi)
  | _ => none

def parseList {α} (f : String → Option α) (s : String) : Option (List α) :=
  if s == "" || s == "-" then some [] else (s.splitOn ",").mapM f

def parseMV (s : String) : Option MV := (parseList parseRat s).map List.toArray
def parseNats (s : String) : Option (List Nat) := parseList String.toNat? s
def parseInts (s : String) : Option (List Int) := parseList String.toInt? s
def parseOptNats (s : String) : Option (Option (List Nat)) :=
  if s == "None" then some none else (parseNats s).map some

def showRat (q : Rat) : String := if q.den = 1 then toString q.num else s!"{q.num}/{q.den}"
def showMV (a : MV) : String := ",".intercalate (a.toList.map showRat)
def showNats (l : List Nat) : String := ",".intercalate (l.map toString)
def showInts (l : List Int) : String := ",".intercalate (l.map toString)

def entryLt (a b : Entry) : Bool :=
  a.k < b.k || (a.k == b.k && (a.l < b.l || (a.l == b.l && a.m < b.m)))

/-- canonical text of a table: non-zero entries sorted by (k,l,m) -/
def tableText (es : List Entry) : Nat × String :=
  let nz := (es.filter (·.v != 0)).toArray.qsort entryLt
  (nz.size, ";".intercalate (nz.toList.map fun e => s!"{e.k},{e.l},{e.m},{e.v}"))

def pickTable (C : Ctx) : String → Option (List Entry)
  | "gmt" => some C.gmt | "omt" => some C.omt | "imt" => some C.imt | "lcmt" => some C.lcmt | _ => none

def showTok : Text.Tok → String
  | .space => "sp" | .lparen => "(" | .rparen => ")" | .sign s => s!"s{s}" | .coeff q => s!"c{q}"
  | .wedge => "w" | .blade i => s!"b{i}" | .unrecognized => "u" | .end_ => "e"

def parseTok (t : String) : Option Text.Tok :=
  if t == "sp" then some .space else if t == "(" then some .lparen else if t == ")" then some .rparen
  else if t == "w" then some .wedge else if t == "u" then some .unrecognized else if t == "e" then some .end_
  else if t.startsWith "s" then (t.drop 1).toString.toInt?.map .sign
  else if t.startsWith "c" then (t.drop 1).toString.toInt?.map .coeff
  else if t.startsWith "b" then (t.drop 1).toString.toNat?.map .blade
  else none

def parseTerm (t : String) : Option Text.Term :=
  match t.splitOn ":" with
  | [i, sc, c] => do
      let i ← i.toNat?
      let c ← c.toInt?
      some { idx := i, isScalar := sc == "1", c := c }
  | _ => none

def parseStoreOp (t : String) : Option Store.Op :=
  match t.splitOn ":" with
  | ["p", args] => (parseNats args).map Store.Op.pure
  | ["m", tgt] => tgt.toNat?.map Store.Op.mutate
  | _ => none

/-- replay a history: per step `result-address:changed-addresses` -/
def histReplay (n0 : Nat) (ops : List Store.Op) : String :=
  let rec go (h : Store.Heap) (ops : List Store.Op) (acc : List String) : List String :=
    match ops with
    | [] => acc.reverse
    | op :: rest =>
      let (h', r) := Store.step h op
      let changed := (List.range h.length).filter fun a => h'.getD a 0 != h.getD a 0
      go h' rest (s!"{r}:{showNats changed}" :: acc)
  ";".intercalate (go (List.replicate n0 0) ops [])

abbrev St := Std.HashMap String Ctx

def showMat (m : Array (Array Rat)) : String := ";".intercalate (m.toList.map showMV)

def showExc (r : Except String MV) : String :=
  match r with
  | .ok x => showMV x
  | .error e => s!"err {e}"

def opMV (C : Ctx) (name : String) (args : List String) : Option String := do
  match name, args with
  | "gp", [a, b] => some (showMV (C.gp (← parseMV a) (← parseMV b)))
  | "op", [a, b] => some (showMV (C.op (← parseMV a) (← parseMV b)))
  | "ip", [a, b] => some (showMV (C.ip (← parseMV a) (← parseMV b)))
  | "lc", [a, b] => some (showMV (C.lc (← parseMV a) (← parseMV b)))
  | "add", [a, b] => some (showMV (C.add (← parseMV a) (← parseMV b)))
  | "sub", [a, b] => some (showMV (C.sub (← parseMV a) (← parseMV b)))
  | "vee", [a, b] => some (showMV (C.vee (← parseMV a) (← parseMV b)))
  | "neg", [a] => some (showMV (C.neg (← parseMV a)))
  | "rev", [a] => some (showMV (C.rev (← parseMV a)))
  | "gi", [a] => some (showMV (C.gradeInvol (← parseMV a)))
  | "conj", [a] => some (showMV (C.conj (← parseMV a)))
  | "lcomp", [a] => some (showMV (C.leftComp (← parseMV a)))
  | "rcomp", [a] => some (showMV (C.rightComp (← parseMV a)))
  | "dual", [a] => some (showMV (C.dual (← parseMV a)))
  | "mag2", [a] => some (showRat (C.mag2 (← parseMV a)))
  | "smul", [q, a] => some (showMV (C.smul (← parseRat q) (← parseMV a)))
  | "ofscalar", [q] => some (showMV (C.ofScalar (← parseRat q)))
  | "proj", [gs, a] => some (showMV (C.gradeProjs (← parseNats gs) (← parseMV a)))
  | "grades", [eps, a] => some (showNats (C.gradesOf (← parseRat eps) (← parseMV a)))
  | "pow", [n, a] => some (showMV (C.powNat (← parseMV a) (← n.toNat?)))
  | "linv", [a] => match C.leftInvExact (← parseMV a) with
      | some x => some (showMV x) | none => some "singular"
  | "rinv", [a] => match C.rightInvExact (← parseMV a) with
      | some x => some (showMV x) | none => some "singular"
  | "hitzer", [a] => some (showExc (C.hitzerInverse (← parseMV a)))
  | "shirokov", [a] => some (showExc (C.shirokovInverse (← parseMV a)))
  | "lainv", [a] => some (showExc (C.laInverse (← parseMV a)))
  | "inv", [eps, a] => some (showExc (C.pickInv (← parseRat eps) (some true) (← parseMV a)))
  | "normalinv", [eps, a] => some (showExc (C.pickInv (← parseRat eps) (some false) (← parseMV a)))
  | "normalinv_nocheck", [eps, a] => some (showExc (C.pickInv (← parseRat eps) none (← parseMV a)))
  | "powint", [eps, k, a] => some (showExc (C.powInt (← parseRat eps) (← parseMV a) (← k.toInt?)))
  | "hitzernum", [a] => match C.hitzerNumerator (← parseMV a) with
      | some x => some (showMV x) | none => some "err NotImplementedError"
  | "cconst", [] => some (";".intercalate ([C.cEp, C.cEn, C.cEo, C.cEinf, C.cE0, C.cIbase].map showMV))
  | "cup", [a] => some (showMV (C.cUp (← parseMV a)))
  | "chomo", [a] => some (showExc (C.cHomo (← parseMV a)))
  | "cdown", [a] => some (showExc (C.cDown (← parseMV a)))
  | "jadds", [a, q] => some (showMV (C.jAddScalar (← parseMV a) (← parseRat q)))
  | "jsubs", [a, q] => some (showMV (C.jSubScalar (← parseMV a) (← parseRat q)))
  | "jrsubs", [q, a] => some (showMV (C.jRSubScalar (← parseRat q) (← parseMV a)))
  | "jmuls", [a, q] => some (showMV (C.jMulScalar (← parseMV a) (← parseRat q)))
  | "jors", [a, q] => some (showMV (C.jOrScalar (← parseMV a) (← parseRat q)))
  | "jpow", [n, a] => some (showMV (C.jPow (← parseMV a) (← n.toNat?)))
  | "jcall", [gs, a] => some (showMV (C.jCall (← parseNats gs) (← parseMV a)))
  | "sdiv", [a, q] => some (showMV (C.sdiv (← parseMV a) (← parseRat q)))
  | "exp", [eps, n, a] => some (showMV (C.expSeries (← parseRat eps) (← n.toNat?) (← parseMV a)))
  | "sin", [n, a] => some (showMV (C.oddSeries true (← n.toNat?) (← parseMV a)))
  | "sinh", [n, a] => some (showMV (C.oddSeries false (← n.toNat?) (← parseMV a)))
  | "cos", [n, a] => some (showMV (C.evenSeries true (← n.toNat?) (← parseMV a)))
  | "cosh", [n, a] => some (showMV (C.evenSeries false (← n.toNat?) (← parseMV a)))
  | "expscale", [a] => some (toString (Ctx.expScale (Ctx.sumAbsFloor (← parseMV a))))
  | "revsigns", [] => some (showInts C.revSigns.toList)
  | "gisigns", [] => some (showInts C.giSigns.toList)
  | "lcompsigns", [] => some (showInts C.leftCompSigns.toList)
  | "rcompsigns", [] => some (showInts C.rightCompSigns.toList)
  | _, _ => none

def handle (st : St) (line : String) : St × String :=
  let toks := (line.splitOn " ").filter (· != "")
  match toks with
  | ["LAYOUT", name, sig, order] =>
      match parseInts sig with
      | none => (st, "err parse")
      | some sg =>
        let ord : Option (List Nat) := if order == "shortlex" then some (shortlexOrder sg.length) else parseNats order
        match ord with
        | none => (st, "err parse")
        | some o =>
          if o.eraseDups.length ≠ o.length then (st, "err ValueError")
          else (st.insert name (mkCtx sg o), "ok")
  | ["ORDER", name] =>
      match st[name]? with
      | some C => (st, s!"{showNats C.L.i2b.toList} {showNats C.L.grades.toList} {showNats C.L.b2i.toList}")
      | none => (st, "err nolayout")
  | ["TABLE", name, which] =>
      match st[name]? with
      | some C => match pickTable C which with
        | some es => let (n, t) := tableText es; (st, s!"{n} {fnv64 t}")
        | none => (st, "err table")
      | none => (st, "err nolayout")
  | ["TABLEFULL", name, which] =>
      match st[name]? with
      | some C => match pickTable C which with
        | some es => let (n, t) := tableText es; (st, s!"{n} {t}")
        | none => (st, "err table")
      | none => (st, "err nolayout")
  | ["SIGN", a, b, sig] =>
      match a.toNat?, b.toNat?, parseInts sig with
      | some a, some b, some sg =>
        let r := gmtElement (fun i => sg.getD i 0) a b
        (st, s!"{r.1} {r.2}")
      | _, _, _ => (st, "err parse")
  | ["SIGNE", a, b] =>
      match a.toNat?, b.toNat? with
      | some a, some b => (st, s!"{signE a b}")
      | _, _ => (st, "err parse")
  | ["POP", x] =>
      match x.toNat? with
      | some x => (st, s!"{popcount x} {countSetBitsLoop x} {showNats (setBitIndices x)}")
      | none => (st, "err parse")
  | ["TUPLE", ps] =>
      match parseNats ps with
      | some ps => match tupleLoop ps 1 0 with
        | some (s, bm) => (st, s!"{s} {bm}")
        | none => (st, "err ValueError")
      | none => (st, "err parse")
  | ["TOKS", terms] =>
      let ts : Option (List Text.Term) := if terms == "-" then some [] else (terms.splitOn ";").mapM parseTerm
      match ts with
      | some ts => (st, ",".intercalate ((Text.printToks ts ++ [Text.Tok.end_]).map showTok))
      | none => (st, "err parse")
  | ["PARSE", sidx, dims, toks] =>
      match sidx.toNat?, dims.toNat?, (toks.splitOn ",").mapM parseTok with
      | some sidx, some dims, some ts =>
        match Text.runPos sidx 0 {} ts with
        | .ok s => (st, "ok " ++ showInts ((List.range dims).map s.out))
        | .error p => (st, s!"err {p}")
      | _, _, _ => (st, "err parse")
  | ["IOW", t, shape] =>
      match parseNats shape with
      | some sh =>
        let a : TensorIO.Tensor Nat := { shape := sh, get := fun _ => 0 }
        let r := TensorIO.write (μ := Unit) (ν := Unit) true (t == "1") a () ()
        let back := (TensorIO.read r).1
        (st, s!"{showNats r.data.shape} {r.transpose} {r.sparse} {showNats r.support} {showNats back.shape}")
      | none => (st, "err parse")
  | ["JSONSHAPE", shape] =>
      match parseNats shape with
      | some sh => (st, showNats (TensorIO.shapeOf (TensorIO.toNested sh (fun _ => (0 : Nat)))))
      | none => (st, "err parse")
  | ["LOADCHECK", m, sg] =>
      match parseInts m, parseInts sg with
      | some m, some sg => (st, match TensorIO.loadCheck m sg with | .ok _ => "ok" | .error e => s!"err {e}")
      | _, _ => (st, "err parse")
  | ["OUTER", src, dst, mat] =>
      match st[src]?, st[dst]?, ((mat.splitOn ";").mapM parseMV) with
      | some Cs, some Cd, some rows =>
        let cols := makeOutermorphism Cs Cd rows.toArray
        (st, showMat cols)
      | _, _, _ => (st, "err parse")
  | ["OUTERAPPLY", src, dst, mat, x] =>
      match st[src]?, st[dst]?, ((mat.splitOn ";").mapM parseMV), parseMV x with
      | some Cs, some Cd, some rows, some x =>
        let cols := makeOutermorphism Cs Cd rows.toArray
        (st, showMV (applyCols Cd.dims cols x) ++ " | " ++ showMV (applyCols Cs.dims (transposeCols Cd.dims cols) x))
      | _, _, _, _ => (st, "err parse")
  | ["BMAP", dimsTo, froms, tos, a] =>
      match dimsTo.toNat?, (froms.splitOn ";").mapM parseMV, (tos.splitOn ";").mapM parseMV, parseMV a with
      | some d, some fs, some ts, some a => (st, showMV (bladeMapApply d (fs.zip ts) a))
      | _, _, _, _ => (st, "err parse")
  | ["HIST", n0, ops] =>
      match n0.toNat?, (ops.splitOn ";").mapM parseStoreOp with
      | some n0, some ops => (st, histReplay n0 ops)
      | _, _ => (st, "err parse")
  | ["DRAWS", k, n, pos] =>
      match k.toNat?, n.toNat?, pos.toNat? with
      | some k, some n, some pos =>
        let r := Store.drawMany k n { pos := pos }
        (st, ";".intercalate (r.1.map showNats) ++ s!" {r.2.pos}")
      | _, _, _ => (st, "err parse")
  | ["KIND", a, b] =>
      match Kind.ofString a, Kind.ofString b with
      | some a, some b => (st, (promote a b).toString)
      | _, _ => (st, "err parse")
  | ["SHORTLEX", n] =>
      match n.toNat? with
      | some n => (st, showNats (shortlexOrder n))
      | none => (st, "err parse")
  | ["SIGCL", p, q, r] =>
      match p.toNat?, q.toNat?, r.toNat? with
      | some p, some q, some r => (st, showInts (sigOfCl p q r))
      | _, _, _ => (st, "err parse")
  | ["K", name, which, shape, a, b] =>
      match st[name]?, parseMV a, parseMV b with
      | some C, some a, some b => match pickTable C which with
        | some es =>
          if shape == "dense" then (st, showMV (multDense C.dims es a b))
          else if shape == "sparse" then (st, showMV (multSparse C.dims es a b))
          else if shape == "contraction" then (st, showMV ((Array.range C.dims).map (contraction es a b)))
          else (st, "err shape")
        | none => (st, "err table")
      | _, _, _ => (st, "err parse")
  | ["KG", name, which, ga, gb, a, b] =>
      match st[name]?, parseOptNats ga, parseOptNats gb, parseMV a, parseMV b with
      | some C, some ga, some gb, some a, some b => match pickTable C which with
        | some es => (st, showMV (getMultFunction C.dims C.L.gradeF es ga gb a b))
        | none => (st, "err table")
      | _, _, _, _, _ => (st, "err parse")
  | ["LMAT", name, x] =>
      match st[name]?, parseMV x with
      | some C, some x => (st, showMat (leftMat C.dims C.gmt x))
      | _, _ => (st, "err parse")
  | ["RMAT", name, x] =>
      match st[name]?, parseMV x with
      | some C, some x => (st, showMat (rightMat C.dims C.gmt x))
      | _, _ => (st, "err parse")
  | "OP" :: name :: op :: args =>
      match st[name]? with
      | some C => match opMV C op args with
        | some r => (st, r)
        | none => (st, "err op")
      | none => (st, "err nolayout")
  | [] => (st, "")
  | _ => (st, "err unknown")

partial def loop (h : IO.FS.Stream) (out : IO.FS.Stream) (st : St) : IO Unit := do
  let line ← h.getLine
  if line.isEmpty then return ()
  let l := ((line.splitOn "\n").headD "")
  let (st', r) := handle st l
  out.putStrLn r
  loop h out st'

end Drv

def main : IO Unit := do
  let stdin ← IO.getStdin
  let stdout ← IO.getStdout
  Drv.loop stdin stdout {}
  stdout.flush
