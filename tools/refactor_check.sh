#!/bin/sh
# usage: refactor_check.sh <name> <patch> <prop> [more props...]
# applies a BEHAVIOUR-PRESERVING refactoring of /repo in a scratch worktree and runs the quick checks against it (VERIF_REPO
# override; /repo itself is not touched): every check must exit 0 (NOTE lines about translator ties are allowed).
# Appends to /verif/refactors/<name>/result.txt
name=$1; patch=$2; shift 2
wt=/tmp/seedwt/ref_$name
mkdir -p /tmp/seedwt /verif/refactors/$name
git -C /repo worktree remove --force $wt 2>/dev/null
git -C /repo worktree add -q --detach $wt HEAD || exit 2
(cd $wt && git apply $patch) || { echo "patch does not apply" >> /verif/refactors/$name/result.txt; git -C /repo worktree remove --force $wt; exit 1; }
for prop in "$@"; do
  out=$(cd /verif && VERIF_REPO=$wt VERIF_EVIDENCE_DIR=/tmp/seedwt/ev_ref_$name ./verif check $prop --tier quick 2>&1; echo "exit=$?")
  echo "== $prop" >> /verif/refactors/$name/result.txt
  echo "$out" | grep -E "VIOLATION|CHECK-BROKEN|NOTE|obligations|^exit=" | grep -v KNOWN-FINDING | cut -c1-240 >> /verif/refactors/$name/result.txt
done
git -C /repo worktree remove --force $wt
rm -rf /tmp/seedwt/ev_ref_$name
