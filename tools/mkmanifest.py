#!/usr/bin/env python3
"""Regenerates MANIFEST.json from the per-property metadata below (kept in one place so it stays valid)."""
import json, sys
from pathlib import Path
V = Path(__file__).resolve().parent.parent

NOTE_COMMON = ("Trusted: Lean 4.33 kernel; axioms propext/Classical.choice/Quot.sound only (audited each run, no native_decide); "
               "the hand-written model (lean/Model) and translator (translate/py2lean.py) are tied to /repo by a correspondence "
               "check on sampled inputs each run; CPython/numpy/numba/sparse/h5py/libm/binary64 rounding are modelled, not verified.")

CHECKS = {
 'C01': dict(text="Machine-checked Lean 4 proofs, for every n, every commutative ring and every signature (zeros included): the code-shaped sign loops equal their spec, the blade sign is a 2-cocycle, hence the product built from the code's sign algorithm is a unital associative bilinear algebra in which e_i^2=sig_i, distinct generators anticommute, a blade is the ordered product of its generators and v*v=Q(v); Mathlib's CliffordAlgebra maps onto it. Tied to /repo by comparing entire multiplication tables, order arrays and bit kernels of the real library with the executable model (both JIT configurations), plus model-free predicates on the real code.",
             technique="Lean 4 proof (cocycle induction over bitmaps) + table/kernel correspondence with the executable model",
             design="§6 C01"),
 'C02': dict(text="Machine-checked Lean 4 proofs for every n, commutative ring and signature: the product defined by the geometric table masked with the code's grade predicate equals the grade r+s / |r-s| (0 for scalar operands) / s-r (0 when r>s) part of A*B on homogeneous operands, is bilinear, and the outer product equals a signature-free wedge that is associative and alternating on vectors. Tied to /repo by comparing the entire omt/imt/lcmt tables and the operators ^ | << lc with the executable model (both JIT configurations) and by evaluating the grade-part predicates on the real operators for every grade pair.",
             technique="Lean 4 proof (popcount/xor grade identity, masked-table product) + table/operator correspondence with the executable model",
             design="§6 C02"),
 'C04': dict(text="Machine-checked Lean 4 proofs for every n, commutative ring and signature: the coded exponents g(g-1)//2 and g give the reversion / grade-involution signs for every grade (4-periodicity proved); ~, gradeInvol, conjugate are involutions; ~ and conjugate reverse products, gradeInvol preserves them; even/odd (as coded .5*(M±gradeInvol M)) are the ± parts and sum to M; mag2 is the scalar part of ~M*M with its diagonal formula; over an ordered field normal() is a positive multiple of M with mag2 = ±1 whenever mag2 != 0. Tied to /repo by comparing the library's sign vectors and ~/gradeInvol/conjugate/mag2 with the executable model and by evaluating every law exactly on integer data with the real operators (both JIT configurations).",
             technique="Lean 4 proof (reversion-sign parity, anti-automorphism via the blade commutation law) + operator correspondence with the executable model",
             design="§6 C04"),
 'C06': dict(text="Machine-checked Lean 4 proofs for every n and commutative ring, with no signature in the statements: b^rc(b)=I and lc(b)^b=I for every basis blade, complements linear and mutually inverse, grade r -> n-r; vee defined as coded (lc(rc A ^ rc B)) satisfies rc(A&B)=rc A^rc B, is associative, has I as identity and maps grades (r,s) to r+s-n; I*I is the scalar table entry the code reads and Iinv is the two-sided inverse of I when that entry is invertible; the combinations-order reverse-complement law (all n, list level) and its executable instance n<=8. Tied to /repo by comparing the complement sign lists and complement/dual/vee results with the executable model, and by evaluating each law on the real operators for all signatures (degenerate included), both JIT configurations.",
             technique="Lean 4 proof (signature-free wedge sign, complement bitmaps) + correspondence with the executable model",
             design="§6 C06"),
 'C07': dict(text="Machine-checked Lean 4 proofs: for every duplicate-free tuple of id positions the loop of tuple_as_sign_and_bitmap (with the code-shaped swap-count loop) returns (-1)^(number of inversions), i.e. the sign of the sorting permutation, and the union bitmap; any repeated id takes the ValueError branch; write-then-read through a signed key; M(g) keeps exactly grade g, is 0 beyond the dimension, projections are orthogonal idempotents summing to M; (e_i|e_j)[()] = diag(sig). Tied to /repo by comparing tuple_as_sign_and_bitmap, M(g..) and grades() with the executable model, and by evaluating names/blades/basis_vectors_lst/blades_of_grade/scalar/metric, M[(ids)] for every permutation of id subsets, M[blade], error branches and the projection laws on the real library for default and custom ids/orders/names/firstIdx.",
             technique="Lean 4 proof (inversion-count induction over the tuple loop; grade-projection algebra) + correspondence with the executable model",
             design="§6 C07"),
 'C03': dict(text="Machine-checked Lean 4 proofs about the executable kernel definitions (arrays with in-place accumulation, as the driver runs them), for any commutative coefficient ring and any COO entry list in any order with duplicates: the dense kernel and the runtime-sparse (zero-skipping) kernel both equal the table contraction, the grade-filtered table contracts the operands projected onto the requested grades, get_mult_function's branch choice preserves this, a scalar operand acts as the grade-0 multivector, and dtype kinds promote by max. Tied to /repo by running every generated kernel (4 tables x default/grade-filtered, left/right matrices) and every operator x operand-class pair of the real library on dense/sparse/single/zero patterns in int/float/complex dtypes against an exact contraction of the published table and against the executable model, both JIT configurations.",
             technique="Lean 4 proof (fold lemma over the COO list, on the executable array kernels) + kernel/operator correspondence with the executable model",
             design="§6 C03"),
 'C05': dict(text="Machine-checked Lean 4 proofs in the model algebra over any commutative ring, any n and signature: X*M=1 iff M*X=1 (Dedekind-finiteness of matrices), hence inverses are unique and all methods that return an inverse agree; normalInv is the two-sided inverse when ~M*M is an invertible scalar; a zero divisor (in particular every multiple of 1+e with e*e=1) has no inverse; the __pow__ loop is the k-fold product and (M^-1)^k inverts M^k. PARTIAL: for the closed-form (n<=5) and Shirokov methods only the final step (numerator/denominator is the inverse if M*numerator is that scalar) is a theorem; the executable models of both algorithms are compared with an exact Gauss-Jordan inverse (certified by the model product) on every input. Tied to /repo by running inv/normalInv/hitzer_inverse/shirokov_inverse/leftLaInv, /, s/M and ** of the real library on versors, blades, dense, near-scalar and scaled inputs for all signature classes against the exact rational inverse (both sides, conditioning-scaled tolerance), and the singular families for the ValueError contract; both JIT configurations.",
             technique="Lean 4 proof (left-inverse = right-inverse via matrix embedding; partial for closed forms) + exact-rational oracle correspondence",
             design="§6 C05"),
 'C19': dict(text="Machine-checked Lean 4 proofs about a token-level model of __str__ and of parse_multivector's state machine (the if/elif chain token for token, with error positions): parse(print(terms)) returns exactly the accumulated coefficients for every list of integer terms of any length, blade indices and scalar index; the result is independent of term order; whitespace/parentheses never change the state; each malformed pattern named in the property (two coefficients in a row, dangling sign/wedge, unknown blade) reaches the SyntaxError branch at the offending token; printing with p decimals moves a coefficient by at most half a unit of the print precision. Tied to /repo by comparing the real tokenizer's token stream of str(M) and the real parse results and SyntaxError offsets with the model, and by running str->parse (ints exactly, floats to half a unit for precisions 1..12, sub-eps dropped, whitespace and order variants), MultiVector(layout, string=...), and eval(repr(M)) with pretty-printing off (layout, dtype, coefficients) for default/custom/prefix names and predefined layouts.",
             technique="Lean 4 proof (induction over the printed term list against the parser state machine) + tokenizer/parser correspondence",
             design="§6 C19"),
 'C20': dict(text="Machine-checked Lean 4 proofs about a tensor/record model of both file formats: .T is an involution; read(write flags a metric names) = (a, metric, names, no support) for every shape (zero-sized axes included) and all four (compression, transpose) combinations; the compression flag never enters the read path; for JSON the nested list has the array's elements in row-major order and its inferred shape is the array's shape when no axis is empty, with a proved counterexample for an empty axis (the known finding); a signature mismatch on load is a ValueError. Tied to /repo by writing and reading real .ga (h5py) and JSON files for shapes with 0..3 leading axes incl. empty, int/float dtypes, degenerate signatures, all flag combinations, comparing what is stored (shape, flags) with the model's record and what is read back with what was written; MVArray.save -> load_ga_file equality and the mismatch error.",
             technique="Lean 4 proof (axis-reversal involution, record round trip, nested-list induction) + file-record correspondence",
             design="§6 C20"),
 'C08': dict(text="Machine-checked Lean 4 proofs from the defining relations alone, in any Q-algebra (so for every base dimension and every base signature at once): eo and einf are null, eo.einf=-1, E0*E0=1, up(x) is null, up(x).einf=-1, up(x).up(y) = -(x-y)^2/2, homo removes any scale s, and down(up(x))=x; plus a theorem that the model algebra of every conformalised layout (added signature [+1,-1]) satisfies those relations for every base vector. PARTIAL: gac/dpga/dg3c round trips have no theorem. Tied to /repo by comparing ConformalLayout's constants and up/down with the executable model for every (p,q) with p+q<=4 (<=6 thorough), by evaluating each identity on the real operators with integer/dyadic base vectors over 2^-10..2^20 and dyadic scales (exactly, or against the exact rational value), and by the down(up(x))=x round trips and exported blades/signatures of the shipped modules.",
             technique="Lean 4 proof (rewrite to normal-ordered monomials from the generator relations, closed by `module`) + correspondence with the executable conformal model",
             design="§6 C08"),
 'C11': dict(text="Machine-checked Lean 4 proofs (Mathlib matrices over any commutative ring, any source/destination sizes): LinearMatrix application is linear, adjoint satisfies <f(a),b> = <a,adj(b)> for the coefficient dot product, composition is the product matrix, from_function (images as columns) agrees with g on every basis blade and equals g when g is linear, the from_rotor generating function is linear. PARTIAL: the outermorphism laws (f(A^B)=f(A)^f(B), grade preservation, composition, f(I)=det(m)I) are not theorems yet: _make_outermorphism is modelled executably and the full matrix is compared with the implementation, and the laws are evaluated exactly on the implementation. Tied to /repo by comparing OutermorphismMatrix's full matrix with the model for integer matrices of every shape between layouts of dimension 0..4 (different signatures, custom orders), and evaluating the laws, from_function/from_rotor/adjoint, the wrong-layout and wrong-shape errors, and between_basis_vectors on the real code.",
             technique="Lean 4 proof (matrix algebra for the LinearMatrix layer; partial) + correspondence with the executable outermorphism model",
             design="§6 C11"),
 'C18': dict(text="Machine-checked Lean 4 proofs over any commutative ring and any pair of algebras: BladeMap on coefficient vectors (pairs of distinct signed basis blades) is additive and homogeneous, maps every listed blade to its partner, and applied twice is the identity on the span of the listed blades (a projection onto it in general); MVArray.sum/gp/op are left folds from the first element; the innermorphism test on absolute differences is symmetric. PARTIAL: the reciprocal-frame identity a_i|a^j=delta_ij has no theorem; MVArray's element-wise lifts are numpy broadcasting (definitional in the model). Tied to /repo by evaluating, on arrays of shape up to 3-D, every operator for array/array, array/single (either side) and numeric-array/multivector (either side) against the element-by-element results, value/from_value_array, the folds, A(g)/dual/normal mapping, Frame.En/inv/is_innermorphic_to on integer frames in non-degenerate signatures, and BladeMap (sta.bm, sta.split, random signed pairings) against the executable model.",
             technique="Lean 4 proof (finite-sum algebra of the blade pairing; partial) + element-wise evaluation and correspondence with the executable BladeMap model",
             design="§6 C18"),
 'C17': dict(text="Machine-checked Lean 4 proofs about a store model (arrays with identities; catalogue operations read operands and allocate a fresh result; only setitem/clean/round write, and only into their target): a pure operation changes no existing array and returns fresh memory; a mutator touches its target only; by induction over any history of any length, every array that is never a mutator target keeps its contents; generators are functions of the stream state, and an n-sample request equals n sequential single requests consuming n*k draws. PARTIAL: that each real operation belongs to the class the model assigns is established by replay, not proof; settings non-interference is checked on the implementation. Tied to /repo by replaying random histories (50 / 200 steps) of ~70 catalogue operations and the three mutators over shared operands, earlier results, ConformalLayout constants, multiplication-table arrays and tools.g3c module constants in four layouts, with byte snapshots of every pooled array, np.shares_memory on every result, double evaluation, re-evaluation under changed eps/pretty/precision, step-by-step comparison with the store model, and same-state reproducibility / sequential-consumption checks for every function that accepts rng (both JIT configurations).",
             technique="Lean 4 proof (invariant by induction over the operation history of a store model) + history replay against the implementation",
             design="§6 C17"),
}

def main():
    checks = []
    for pid, c in sorted(CHECKS.items()):
        checks.append(dict(
            property_id=pid,
            quick_cmd=f"./verif check {pid} --tier quick",
            thorough_cmd=f"./verif check {pid} --tier thorough",
            evidence_file=f"evidence/{pid}.json",
            replay_cmd_template=f"./verif replay {pid} --replay {{path}}",
            engine="lean4-proof+correspondence",
            level_claimed=dict(category="proof", text=c['text'], design_ref=c['design']),
            level_note=c.get('note', NOTE_COMMON),
            technique=c['technique'],
        ))
    props = [json.loads(l)['id'] for l in open(V/'properties.jsonl')]
    na = [dict(property_id=p, reason=NA.get(p, "check not built yet in this session (work in progress; will be claimed once its model, theorems and correspondence exist)")) for p in props if p not in CHECKS]
    m = dict(
        version=1,
        setup_cmd="./verif build",
        hooks=dict(guard="CLIFFORD_VERIF", enable="no source hooks are needed: the harness sets CLIFFORD_VERIF=1 for its worker processes but nothing in /repo reads it; everything observed is reachable through public API and module attributes",
                   baseline_off_cmd="cd /repo && /venv/bin/python -m pytest -ra -q -p no:cacheprovider --timeout=900 --continue-on-collection-errors",
                   source_commits=[], add_only=True),
        engines=[dict(name="lean4-proof+correspondence", path="lean/ harness/ translate/", serves_properties=sorted(CHECKS),
                      kind_free_text="Lean 4 theorems about an executable model (lake project lean/), tied to /repo by a translator (translate/py2lean.py, regenerated every run) and a line-protocol correspondence check (harness/, compiled driver cliffdrv)")],
        checks=checks,
        notes="See DESIGN.md. Exit 2 / CHECK-BROKEN means the check itself failed (crash or timeout), never a violation.",
        not_applicable=na,
    )
    (V/'MANIFEST.json').write_text(json.dumps(m, indent=1) + "\n")
    print(f"{len(checks)} checks, {len(na)} not claimed")

NA = {}
if __name__ == '__main__':
    main()
