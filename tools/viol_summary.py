#!/usr/bin/env python3
"""usage: viol_summary.py <PROP> <job> [seed] [jit]  -- run one worker job directly and summarise distinct violations/disagreements"""
import subprocess, json, os, sys, tempfile, collections
prop, job = sys.argv[1], sys.argv[2]
seed = sys.argv[3] if len(sys.argv) > 3 else '0'
jit = len(sys.argv) > 4
env = dict(os.environ, PYTHONPATH='/repo:/verif', NUMBA_CACHE_DIR=tempfile.mkdtemp(), VERIF_REPO='/repo')
if not jit:
    env['NUMBA_DISABLE_JIT'] = '1'
out = tempfile.mktemp()
p = subprocess.run(['/venv/bin/python', '-m', 'harness.worker', prop, job, 'quick', seed, out], cwd='/', env=env, capture_output=True, text=True)
if p.returncode:
    print(p.stderr[-3000:]); sys.exit(1)
r = json.load(open(out))
for kind in ('violations', 'disagreements'):
    c = collections.Counter()
    ex = {}
    for v in r[kind]:
        site = {k: v2 for k, v2 in v['site'].items() if k not in ('order',)}
        key = (v['what'][:100], json.dumps(site, sort_keys=True)[:200])
        c[key] += 1
        ex.setdefault(key, v)
    print(kind, sum(c.values()))
    for k, n in c.most_common(25):
        print('  ', n, k)
print('evaluations', r['evaluations'])
