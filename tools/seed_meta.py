#!/usr/bin/env python3
"""writes seeded/<id>/meta.json from the table below plus the logs (confirm.txt, detect.txt) found next to it"""
import json, os, re, sys
ROOT = os.path.join(os.path.dirname(os.path.abspath(__file__)), '..', 'seeded')
NEEDS = {
 'C03_7': "a layout whose signature has an entry of magnitude other than 0 or 1 (Layout([2, 1, -3])): products through the runtime-sparse kernels",
 'C05_7': "inv() / division / hitzer_inverse of an exactly singular multivector whose coefficients are not all equal and whose largest is not a power of two (5 + 3e1 + 4e2, (1+e1)(1+3e2)), dims <= 5",
 'C09_7': "factorise() on a layout whose basis-vector ids are not 1..n (firstIdx = 0, string ids), blade skipping an id",
 'C10_7': "number - multivector inside an njit function on unsigned storage or on signed storage holding the minimum of the dtype",
 'C12_7': "object_set_cost_matrix(objs, objs) with the same list object, generic type, a set mixing real and imaginary rounds or holding an unnormalised object",
 'C13_7': "C*~C with a grade-4 part and 0 < scalar + norm < 1e-6: roots of screw rotors within 1.4e-3 rad of a full turn; rounds just outside a coplanar-disjoint position",
 'C14_7': "rotation(B) for a simple base bivector of unit magnitude (e12, (3e12+4e13)/5)",
 'C16_7': "exp of an even argument without scalar part that has a non-null grade-4 component (four or more generators)",
 'C19_7': "str -> parse on a layout with blade names that have a non-word character in their interior ('v:x', default names of a negative first id 'e-1')",
 'C20_7': "write_ga_file(sparse=False, support=False) — what MVArray.save passes — then read_ga_file: support reported for dense data",
 'C13_5': "rotor_between_objects / rotor_between_lines on two lines of exactly opposite direction displaced sideways (null-C branch, gamma > 0)",
 'C13_6': "interpolate_rotors between two poses that differ in scale (TR to TRS); in compiled mode the NaN it produces makes exp() loop forever",
 'C15_5': "classify() of a Round with non-zero radius whose direction blade is not a unit blade (2, -3*e1, e1+e2, 2*e12)",
 'C15_6': "Round(E, p, rho).mv with an imaginary radius",
 'C16_5': "exp on a layout whose blade order does not store the scalar first, operand with a coefficient on the first stored blade",
 'C16_6': "tan / tanh in an algebra with three or more generators on an argument mixing odd and even grades or a non-simple bivector",
 'C18_5': "Frame.En or Frame.inv used once, then a frame derived through numpy (slice, reversal, arithmetic, item assignment)",
 'C18_6': "MVArray.op() on a 1-D array with more elements than the algebra has dimensions, elements not all vectors",
 'C09_5': "factorise() of a multiple of a single basis blade with a negative coefficient (e2^e1, -2.5*e134)",
 'C09_6': "(1+v).isVersor() with v a basis vector squaring to -1 (any signature with a negative direction)",
 'C10_5': "jitted grade selection on a layout whose blade order does not store each grade contiguously (bitmap order, n >= 3)",
 'C10_6': "one MultiVector object passed to jitted code, its .value re-pointed to a strided view of the same dtype, passed again",
 'C11_5': "between_basis_vectors(A, B) without mapping, then the same call on layouts of equal signatures and other basis-vector ids",
 'C11_6': "a matrix-backed transformation applied to a multivector of a layout with the same dimension and another signature",
 'C12_5': "val_rotor_between_objects_explicit on two spheres that do not intersect (disjoint same orientation / nested opposite orientation)",
 'C12_6': "object_cost_function(..., symmetric=True) on spheres or planes (grade-4 objects square to -1)",
 'C14_5': "flat(p1..pk) with the points given partly as base vectors and partly as null vectors",
 'C14_6': "an operator object (rotation, translation, dilation, transversion) called on einf or a + t*einf",
 'C17_5': "ga_exp / val_exp on a rotation-free (pure translation) bivector kept in a variable",
 'C17_6': "layout.pseudoScalar / mv.pseudoScalar / mv.invPS() requested, written into with item assignment, requested again",
 'C19_5': "parse on layout A, then on layout B of the same signature with other names or another blade order, in one process",
 'C19_6': "eval(repr(M)) with pretty-printing off on an anonymous layout with ordered_integers(n, first_index=k), k >= 2",
 'C20_5': "write_ga_file with a basis-name list whose lexicographically largest name is not the longest (e.g. 'e9' and 'e10', ['x', 'y', 'einf'])",
 'C20_6': "MVArray.save, then the array modified through a view / in place / through an element, then MVArray.save again",
 'C02_5': "the python operator `A | B` with an operand whose non-scalar coefficients are all below eps (1e-12), e.g. (2^-45 A) | (2^45 B)",
 'C02_6': "`A << B` / `A.lc(B)` on mixed-grade operands where the highest grade of A exceeds that of B",
 'C01_5': "a layout whose storage order (custom BasisBladeOrder / legacy bladeTupList) does not store the scalar first",
 'C01_6': "the deprecated Layout(sig, bladeTupList) constructor with a tuple that is an odd permutation of ascending order, e.g. (2, 1)",
 'C03_5': "a grade-restricted kernel and operands of a dtype narrower than the native integer (int32; float32 / complex64 without the JIT)",
 'C03_6': "`M << s` / `M.lc(s)` with a non-integral float scalar on the right of an integer-dtype multivector with a scalar part",
 'C04_5': "normal() of a multivector with |M| < 1e-12 whose coefficient of largest modulus is negative",
 'C04_6': "even / odd in an even-dimensional algebra on a multivector with a pseudoscalar component",
 'C05_5': "inv() / division / negative power of a non-versor in a degenerate algebra with 6-8 basis vectors of which at most 5 are non-null",
 'C05_6': "two layouts of equal signature and different blade order; leftLaInv (inv() for n >= 6) on the second after the first",
 'C06_5': "left complement (or vee) in odd dimension on an odd-grade operand",
 'C06_6': "dual(J) with J a proper sub-blade and M not contained in J",
 'C07_5': "an unknown basis-vector id in the window first_index-n .. first_index-1 (e.g. 0 or -1 in Cl(3))",
 'C07_6': "custom basis-vector ids that are not ascending and a default-named blade of grade >= 2",
 'C08_5': "dg3c.down(dg3c.up(x)) at the origin (or |x| < 1e-8)",
 'C08_6': "up() of a non-zero null base vector (mixed-signature base) or of a vector with 1e-12 <= |x| < 1e-6",
 'C01_1': "a default-order layout of signature S used first, then a layout with the same S and a different blade order (two steps, one process)",
 'C01_2': "float or complex operands with coefficients of magnitude <= 1e-12 (e.g. products scaled by 2^-45)",
 'C01_3': "a signature with two or more zeros (two different null basis vectors multiplied)",
 'C01_4': "a signature passed as an integer ndarray which the caller modifies afterwards (before or after the first product)",
 'C02_3': "two layouts with the same signature and different blade storage orders, both using a graded product in one process",
 'C02_4': "left contraction with a left operand of higher grade than the right one, sharing a basis vector (r > s >= 1)",
 'C03_3': "two layouts of equal signature and different storage order whose kernels are generated in one process",
 'C03_4': "grade selection given as a set / frozenset container in the grade-restricted kernels",
 'C04_3': "a degenerate signature without negative entries (e.g. Cl(3,0,1)) and a component on a blade containing the null vector",
 'C04_4': "dimension >= 9 and a component on a blade containing e9 or a higher basis vector",
 'C05_3': "a well-conditioned, non-versor multivector in <= 5 dimensions with coefficients below ~3e-3",
 'C05_4': "an integer-dtype multivector raised to a negative power",
 'C06_3': "a custom-order layout whose complement is used first, then a default-order layout of the same dimension",
 'C06_4': "a degenerate signature given explicitly whose first entry is non-zero (e.g. [1, 1, 1, 0])",
 'C07_3': "a custom blade order whose grade-1 blades are not stored in id order, with a mixed or degenerate signature",
 'C07_4': "indexing M[blade] with a key blade of negative weight (-e12, e2*e1, ~e12)",
 'C08_3': "conformalisation of a base algebra with at least one negative basis vector",
 'C08_4': "a conformal point with weight 0 < |s| <= 1e-6 passed to homo / down",
 'C10_3': "a jitted power with an exponent that has three or more 1-bits (7, 11, 13, 14, 15, ...)",
 'C10_4': "two distinct layouts alive in one process with the same numbers of +, -, 0 entries but another arrangement / blade order / names, used in jitted code",
 'C11_3': "an integer square matrix of dimension >= 4 whose floating-point determinant lands just short of the integer",
 'C11_4': "adjoint of a map between algebras with negative or zero signature entries, on blades of negative or zero square",
 'C17_3': "astype(<same dtype>, copy=False), then a documented mutator on the result",
 'C17_4': "one list of blade pairs reused for several BladeMap objects, and a multivector with a scalar part",
 'C19_3': "a custom blade order that does not store the scalar first, and a multivector with a non-zero scalar part",
 'C19_4': "a malformed string whose offending token is on the third line or later",
 'C20_3': "load_ga_file / from_value_array on one layout, then on another layout of the same signature and a different blade order",
 'C20_4': "transpose=True with a coefficient dtype other than float64 (int64 above 2**53, int32, float32)",
 'C09_3': "a signature with a negative direction and a blade (or a partial product met while walking the basis vectors) with negative B*~B",
 'C09_4': "meet of blades with grade(A) + grade(B) >= n whose spans do not fill the space (shared factors beyond general position)",
 'C12_3': "a non-zero rotation(+translation) bivector whose coefficients cancel exactly, e.g. theta*(e23 - e12)",
 'C12_4': "a pseudoscalar component on the input of a dual / a meet of complementary-grade objects",
 'C13_4': "interpolation fraction 0 with a relative rotor on which ga_log is singular (equal poses, same attitude)",
 'C14_3': "a round whose radius / dual has been read BEFORE an operator is applied or from_center_radius is called (two cooperating sites)",
 'C14_4': "the origin written as the zero base vector (0*e1) as centre or as a defining point",
 'C15_3': "a Round with |rho|*|E| <= 1e-4 (e.g. unit direction, rho = 2**-14)",
 'C15_4': "any Round with an imaginary radius (the real part of the recovered radius)",
 'C16_3': "two layouts with the same signature and ids but another blade order (or other names) used in one process by the jitted series",
 'C16_4': "an argument whose square has a zero scalar part without being zero (e1 + e23 in Cl(3))",
 'C18_3': "a BladeMap in which a listed blade carries a minus sign, applied from the signed side",
 'C18_4': "frames whose inner products differ by more than eps but less than 1e-5 relative",
 'C15_1': "a DualFlat in conformalised Cl(4) (pseudoscalar squares to +1)",
 'C15_2': "Tangent(E, p) with grade(E) >= 1 and a location with a component inside the direction",
 'C16_1': "mixed signature and a non-blade argument whose reverse-norm nearly cancels with coefficients above ~3",
 'C16_2': "dimension >= 5 and a dense multivector whose coefficients mostly share a sign (within the <= 1.5 range)",
 'C17_1': "exponent exactly 1 or 1.0, then a documented mutator on the result",
 'C17_2': "two layouts with equal signature and different grade positions used in one process, and > 128 other projections in between",
 'C18_1': "a frame in a mixed signature with En*~En < 0",
 'C18_2': "MVArray.sum on elements of different coefficient dtypes with the narrowest first",
 'C02_1': "a custom BasisBladeOrder with more than one grade in non-increasing positions (grades array stored as uint8) and a product of grades r < s",
 'C02_2': "left contraction `A << s` with a plain Python/numpy number on the right",
 'C03_1': "a layout whose storage order does not start with the scalar, and a multivector-with-scalar operation",
 'C03_2': "operands with non-zero coefficients below eps (1e-12) in the sparse-pattern kernels",
 'C04_1': "a storage order that is not sorted by grade",
 'C04_2': "complex dtype coefficients in mag2 / abs / normal",
 'C05_1': "a single-grade multivector that is not a blade (k-vector with k >= 2, n >= 4) passed to inv()",
 'C05_2': "an integer exponent >= 5 whose binary expansion is not a palindrome",
 'C06_1': "vee in even dimension with operands whose grades sum to an odd number",
 'C06_2': "dual(J) with J ~J negative (mixed signature)",
 'C07_1': "a layout with 6 or more basis vectors and a blade tuple using ids beyond the fourth",
 'C07_2': "two layouts with equal signature but different blade orders, grade projection on both in one process",
 'C08_1': "a base layout whose pseudoscalar does not square to -1 (e.g. Cl(2), Cl(1,1), Cl(4))",
 'C08_2': "a base layout with a non-Euclidean signature and up() of a vector given in the base layout",
 'C09_1': "mixed signature and a blade with negative squared norm passed to project",
 'C09_2': "join with the receiver of strictly smaller grade, partially overlapping blades, n >= 5",
 'C10_1': "jitted `a | b` for homogeneous operands of grade pairs (1,2), (1,4), (3,4)",
 'C10_2': "NUMBA_DISABLE_JIT=1 and bitmaps needing more than 8 bits (n >= 10, or n >= 9 with a custom order)",
 'C11_1': "from_rotor with a versor of negative R ~R",
 'C11_2': "an outermorphism from a layout whose storage order puts a blade before one of its sub-blades",
 'C12_1': "a rotor with an e4-containing 4-vector part (screw motion, general motor, rotor between skew lines)",
 'C12_2': "a rotation matrix whose angle is within 1e-5 of pi about a non-coordinate axis",
 'C13_1': "two rounds for which (1 + X2 X1)~(1 + X2 X1) is a negative scalar: coplanar disjoint, nested opposite, coaxial opposite",
 'C13_2': "a rotation-translation rotor with negative scalar part (angle in (pi, 2 pi), or -R)",
 'C14_1': "CGA(4) and a non-simple base bivector such as 0.7 e12 + 0.4 e34",
 'C14_2': "a translation built from a null vector up(a) instead of the base vector a",
 'C19_1': "two layouts with equal signature but different names, parse_multivector on both in one process",
 'C19_2': "repr/eval of a multivector with a narrow dtype (int8, float32)",
 'C20_1': "an array of multivectors with three or more leading axes written to HDF5/JSON",
 'C20_2': "a file whose signature is a permutation of the layout's signature (same counts of +, -, 0)",
}
def main():
    for name in sorted(os.listdir(ROOT)):
        d = os.path.join(ROOT, name)
        if not os.path.isdir(d) or not os.path.exists(os.path.join(d, 'patch.diff')):
            continue
        meta = dict(id=name, property=name.split('_')[0], needs=NEEDS.get(name, 'see notes_agent.md'))
        files = sorted(set(re.findall(r'^\+\+\+ b/(\S+)', open(os.path.join(d, 'patch.diff')).read(), re.M)))
        meta['files_changed'] = files
        ran = []
        c = os.path.join(d, 'confirm.txt')
        if os.path.exists(c):
            kv = dict(l.strip().split('=', 1) for l in open(c) if '=' in l and not l.startswith(('demo_mutated_tail', 'pytest_summary', 'pytest_unexpected:')))
            meta['confirmed'] = dict(demo_exit_on_clean_tree=kv.get('demo_clean_exit'), demo_exit_with_change=kv.get('demo_mutated_exit'),
                                     suite_unexpected_failures=kv.get('pytest_unexpected_count'), patch_applies=kv.get('patch_applies'))
            summ = [l.strip().split(': ', 1)[1] for l in open(c) if l.startswith('pytest_summary')]
            if summ:
                meta['confirmed']['suite_summary'] = summ[0]
            ran.append("tools/seed_confirm.sh: scratch worktree of /repo HEAD; demo.py on the clean tree and with patch.diff applied (fresh NUMBA_CACHE_DIR each); "
                       "full `pytest clifford/test` with the change (the 4 TestFitObjects failures of the unchanged tree are not counted)")
        t = os.path.join(d, 'detect.txt')
        if os.path.exists(t):
            txt = open(t).read()
            runs = []
            for blk in re.split(r'(?m)^== ', txt)[1:]:
                prop = blk.split('\n', 1)[0].strip()
                runs.append(dict(check=prop, violation_reported=('VIOLATION property=' + prop) in blk,
                                 summary=[l for l in blk.splitlines() if 'obligations' in l][-1:] ))
            meta['detection'] = runs
            meta['detected_by_quick_check'] = bool(runs) and runs[-1]['violation_reported']
            ran.append("tools/seed_check.sh: ./verif check <prop> --tier quick with VERIF_REPO pointing at a scratch worktree with the change applied")
        meta['what_was_run'] = ran
        json.dump(meta, open(os.path.join(d, 'meta.json'), 'w'), indent=1)
        print(name, meta.get('detected_by_quick_check'), (meta.get('confirmed') or {}).get('suite_unexpected_failures'))
if __name__ == '__main__':
    main()
