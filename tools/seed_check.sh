#!/bin/sh
# usage: seed_check.sh <name> <patch> <prop> [more props...]
# runs ./verif check <prop> against a scratch worktree of /repo HEAD with the seeded change applied
# (VERIF_REPO override; /repo itself is not touched). Appends to /verif/seeded/<name>/detect.txt
name=$1; patch=$2; shift 2
wt=/tmp/seedwt/chk_$name
mkdir -p /tmp/seedwt /verif/seeded/$name
git -C /repo worktree remove --force $wt 2>/dev/null
git -C /repo worktree add -q --detach $wt HEAD || exit 2
(cd $wt && git apply $patch) || { echo "patch does not apply" >> /verif/seeded/$name/detect.txt; git -C /repo worktree remove --force $wt; exit 1; }
for prop in "$@"; do
  out=$(cd /verif && VERIF_REPO=$wt VERIF_EVIDENCE_DIR=/tmp/seedwt/ev_$name ./verif check $prop --tier quick 2>&1 | grep -E "VIOLATION|KNOWN-FINDING|CHECK-BROKEN|obligations" | head -8)
  echo "== $prop" >> /verif/seeded/$name/detect.txt
  echo "$out" >> /verif/seeded/$name/detect.txt
done
git -C /repo worktree remove --force $wt
rm -rf /tmp/seedwt/ev_$name
