#!/bin/sh
# usage: seed_confirm.sh <name> <patch> <demo> [notest]
# confirms a seeded change in a scratch worktree of /repo HEAD: demo fails with it, passes without it, the
# repository's own test-suite still passes with it. Writes /verif/seeded/<name>/confirm.txt. Removes the worktree.
name=$1; patch=$2; demo=$3; notest=$4
wt=/tmp/seedwt/${name}${SUFFIX}
mkdir -p /tmp/seedwt /verif/seeded/$name
git -C /repo worktree remove --force $wt 2>/dev/null
git -C /repo worktree add -q --detach $wt HEAD || exit 2
out=/verif/seeded/$name/confirm.txt
: > $out
cd $wt
run() { PYTHONPATH=$wt NUMBA_CACHE_DIR=$wt/.nbc_$1 PYTHONDONTWRITEBYTECODE=1 timeout 900 /venv/bin/python $demo > $wt/.demo_$1.log 2>&1; echo $?; }
echo "demo_clean_exit=$(run clean)" >> $out
if ! git apply $patch; then echo "patch_applies=no" >> $out; cd /; git -C /repo worktree remove --force $wt; exit 1; fi
echo "patch_applies=yes" >> $out
echo "demo_mutated_exit=$(run mut)" >> $out
tail -3 $wt/.demo_mut.log | sed 's/^/demo_mutated_tail: /' >> $out
if [ -z "$notest" ]; then
  PYTHONPATH=$wt NUMBA_CACHE_DIR=$wt/.nbc_t PYTHONDONTWRITEBYTECODE=1 /venv/bin/python -m pytest -q -p no:cacheprovider --timeout=900 -q clifford/test > $wt/.pytest.log 2>&1
  echo "pytest_exit=$?" >> $out
  tail -1 $wt/.pytest.log | sed 's/^/pytest_summary: /' >> $out
  grep -E "^(FAILED|ERROR)" $wt/.pytest.log | grep -v "TestFitObjects" | head -8 | sed 's/^/pytest_unexpected: /' >> $out
  echo "pytest_unexpected_count=$(grep -E '^(FAILED|ERROR)' $wt/.pytest.log | grep -vc TestFitObjects)" >> $out
fi
cd /
git -C /repo worktree remove --force $wt
echo done >> $out
