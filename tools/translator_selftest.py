#!/usr/bin/env python3
"""Self-test of the translators (developer tool, not a registered check): applies behaviour-preserving rewrites (must be
accepted and the generated theorems must still check) and semantic changes (must be refused or break a generated theorem) to a
scratch copy of /repo/clifford under /tmp and runs the translator + `lake env lean` on each.  Usage: python3 tools/translator_selftest.py"""
import re, subprocess, os, json, sys, shutil
SCR = '/tmp/translator_selftest'
def prepare():
    shutil.rmtree(SCR, ignore_errors=True); os.makedirs(SCR + '/repo'); shutil.copytree('/repo/clifford', SCR + '/repo/clifford')
def run(script, label, edits, expect):
    shutil.rmtree(SCR + '/repo2', ignore_errors=True); shutil.copytree(SCR + '/repo', SCR + '/repo2')
    for f, a, b in edits:
        p = SCR + '/repo2/' + f; s = open(p).read(); assert a in s, (label, a); open(p, 'w').write(s.replace(a, b, 1))
    r = subprocess.run(['python3', '/verif/translate/' + script, '--repo', SCR + '/repo2', '--status'], capture_output=True, text=True)
    open(SCR + '/H.lean', 'w').write(r.stdout)
    st = json.loads(r.stderr)
    ref = [k for k, v in st['status'].items() if v['status'] != 'ok']
    o = subprocess.run(['lake', 'env', 'lean', SCR + '/H.lean'], cwd='/verif/lean', capture_output=True, text=True).stdout
    errs = re.findall(r"H.lean:(\d+):\d+: error", o)
    got = 'flagged' if (ref or errs) else 'clean'
    ok = (got == expect)
    print(f"{'ok ' if ok else 'BAD'} expect={expect:7s} got={got:7s} {script:16s} {label:45s} refused={ref} errors={len(errs)}")
    return ok
def harmless(script, label, edits): return run(script, label, edits, 'clean')
def semantic(script, label, edits): return run(script, label, edits, 'flagged')
def main():
    prepare()
    res = []
    CL='clifford/_conformal_layout.py'; L='clifford/_layout.py'
    res.append(harmless('mv2lean.py','up reordered, 0.5*',[(CL,"return x + (.5 ^ ((x**2)*self.einf)) + self.eo","return x + self.eo + 0.5 * (x*x) * self.einf")]))
    res.append(harmless('mv2lean.py','eo = (en-ep)/2, einf = ep+en',[(CL,"eo = .5 ^ (en - ep)","eo = (en - ep) / 2"),(CL,"einf = en + ep","einf = ep + en")]))
    res.append(harmless('mv2lean.py','cga translation 0.5*',[('clifford/cga.py',"mv = 1 - self.cga.straight_up(arg)*self.cga.einf/2.","mv = 1 - 0.5 * self.cga.straight_up(arg) * self.cga.einf")]))
    res.append(harmless('mv2lean.py','classify versor 0.5*',[('clifford/tools/classify.py',"versor = 1 - t*einf/2","versor = 1 - 0.5 * (t * einf)")]))
    res.append(harmless('mv2lean.py','g3c translation rotor 0.5*',[('clifford/tools/g3c/__init__.py',"return 1 + ninf * euc_vector_a / 2","return 1 + 0.5 * ninf * euc_vector_a")]))
    res.append(harmless('mv2lean.py','point pair: P = 0.5*(F+1)',[('clifford/tools/g3c/__init__.py',"    P = 0.5*F + 0.5\n","    P = 0.5*(F + 1)\n")]))
    res.append(harmless('closed2lean.py','hitzer n=4 grades (4,3)',[(L,"mv_mul_mv_conj(3, 4)","mv_mul_mv_conj(4, 3)")]))
    res.append(harmless('closed2lean.py','hitzer n=5 A - B*2',[(L,"numerator = combo_op * (mv_combo_op - 2 * mv_combo_op(1, 4))","numerator = combo_op * (mv_combo_op - mv_combo_op(1, 4) * 2)")]))
    res.append(harmless('methods2lean.py','commutator 0.5*',[('clifford/_multivector.py',"return ((self * other) - (other * self)) / 2","return 0.5 * (self * other - other * self)")]))
    res.append(harmless('methods2lean.py','even: (self + gi)/2',[('clifford/_multivector.py',"return .5*(self + self.gradeInvol())","return (self + self.gradeInvol()) / 2")]))
    res.append(harmless('py2lean.py','imt_check reordered',[(L,"return (grade_v == abs(grade_i - grade_j)) and (grade_i != 0) and (grade_j != 0)","return (grade_i != 0) and (grade_j != 0) and (abs(grade_j - grade_i) == grade_v)")]))
    res.append(harmless('loops2lean.py','cre: a >>= 1 ; sum += ',[('clifford/_layout_helpers.py',"        sum_value = sum_value + count_set_bits(a & bitmap_b)\n        a = a >> 1","        sum_value += count_set_bits(bitmap_b & a)\n        a >>= 1")]))
    res.append(harmless('loops2lean.py','gmt_element: bitmap_b ^ bitmap_a',[(L,"output_bitmap = bitmap_a^bitmap_b","output_bitmap = bitmap_b ^ bitmap_a")]))
    res.append(harmless('kernels2lean.py','res factor order',[('clifford/__init__.py',"res = value[k_list] * mult_table_vals * other_value[m_list]","res = mult_table_vals * value[k_list] * other_value[m_list]")]))
    res.append(harmless('series2lean.py','sin coefficient (-1)**n * (1/gamma)',[('clifford/taylor_expansions.py',"op = op + ((-1) ** (n) / math.gamma(2 * n + 2)) * X2np1","op = op + ((-1) ** n / math.gamma(2 * n + 2)) * X2np1")]))
    res.append(harmless('methods2lean.py','__pow__: newMV *= base',[('clifford/_multivector.py',"            newMV = newMV * base\n","            newMV *= base\n")]))
    NB='clifford/numba/_multivector.py'
    res.append(harmless('numba2lean.py','overloads reordered (even/odd swapped in the file)',[(NB,"@numba.extending.overload_attribute(MultiVectorType, 'even')\ndef MultiVector_even(self):\n    return MultiVector.even.fget\n\n\n@numba.extending.overload_attribute(MultiVectorType, 'odd')\ndef MultiVector_odd(self):\n    return MultiVector.odd.fget\n","@numba.extending.overload_attribute(MultiVectorType, 'odd')\ndef MultiVector_odd(self):\n    return MultiVector.odd.fget\n\n\n@numba.extending.overload_attribute(MultiVectorType, 'even')\ndef MultiVector_even(self):\n    return MultiVector.even.fget\n")]))
    res.append(harmless('shipped2lean.py','dpga.up terms reordered; gac n1 = e6 + e3',[('clifford/dpga.py',"return x*w1 + y*w2 + z*w3 + w0","return w0 + z*w3 + y*w2 + x*w1"),('clifford/gac.py',"n1 = e3 + e6","n1 = e6 + e3")]))
    res.append(harmless('shipped2lean.py','dg3c up_cga2 with (p|p) instead of p**2',[('clifford/dg3c.py',"return euc_point + 0.5*euc_point**2*einf2 + eo2","return euc_point + 0.5*(euc_point|euc_point)*einf2 + eo2")]))
    TE='clifford/taylor_expansions.py'
    res.append(harmless('series2lean.py','exp: result += tmp; tmp*scaled/i',[(TE,"            result = result + tmp\n","            result += tmp\n"),(TE,"tmp = tmp*scaled * (1.0 / i)","tmp = tmp*scaled / i")]))
    G3='clifford/tools/g3/__init__.py'
    res.append(harmless('quat2lean.py','q2m: qxy = q[2]*q[1]*2; m2q: x = s*(a21-a12)',[(G3,"qxy = 2*q[1]*q[2]","qxy = q[2]*q[1]*2"),(G3,"        x = (a[2][1] - a[1][2]) * s\n","        x = s * (a[2][1] - a[1][2])\n")]))
    CL='clifford/_conformal_layout.py'; L='clifford/_layout.py'; H='clifford/_layout_helpers.py'; I='clifford/__init__.py'
    res.append(semantic('series2lean.py','exp: scale from the largest coefficient',[(TE,"max_val = int(np.sum(np.abs(x.value)))","max_val = int(np.max(np.abs(x.value)))")]))
    res.append(semantic('series2lean.py','exp: squaring loop while scale > 2',[(TE,"    while scale > 1:\n        result = result*result","    while scale > 2:\n        result = result*result")]))
    res.append(semantic('quat2lean.py','q2m: entry (0,1) sign',[(G3,"[1-qy2-qz2, qxy-qzw, qxz+qyw]","[1-qy2-qz2, qxy+qzw, qxz+qyw]")]))
    res.append(semantic('quat2lean.py','m2q: branch 2 radicand sign',[(G3,"s = 2.0 * math.sqrt(1.0 + a[0][0] - a[1][1] - a[2][2])","s = 2.0 * math.sqrt(1.0 + a[0][0] + a[1][1] - a[2][2])")]))
    res.append(semantic('quat2lean.py','m2q: trace > -1',[(G3,"    if trace > 0:","    if trace > -1:")]))
    res.append(semantic('quat2lean.py','quaternion_to_rotor: +e123',[(G3,"    Q = -e123*Q\n","    Q = e123*Q\n")]))
    res.append(semantic('shipped2lean.py','dpga w1s = 0.5*(e1 + e1b)',[('clifford/dpga.py',"w1s = 0.5*(e1 - e1b)","w1s = 0.5*(e1 + e1b)")]))
    res.append(semantic('shipped2lean.py','gac down reads e2 twice',[('clifford/gac.py',"return (x|e1)[0]*e1 + (x|e2)[0]*e2","return (x|e2)[0]*e1 + (x|e2)[0]*e2")]))
    res.append(semantic('shipped2lean.py','dg3c einf2 = e9 - e10',[('clifford/dg3c.py',"einf2 = e9 + e10","einf2 = e9 - e10")]))
    res.append(semantic('shipped2lean.py','dg3c down contracts with einf1',[('clifford/dg3c.py',"cga_pnt = ((dcga_point|einf2)|IC1)*IC1","cga_pnt = ((dcga_point|einf1)|IC1)*IC1")]))
    res.append(semantic('shipped2lean.py','dg3c down_cga1 reads .value[2:5]',[('clifford/dg3c.py',".value[1:4]",".value[2:5]")]))
    res.append(semantic('numba2lean.py','even overload -> odd.fget',[(NB,"def MultiVector_even(self):\n    return MultiVector.even.fget","def MultiVector_even(self):\n    return MultiVector.odd.fget")]))
    res.append(semantic('numba2lean.py','ga_call runtime loop from 0 with &=',[(NB,"inds |= (grades == args[i])","inds &= (grades == args[i])")]))
    res.append(semantic('numba2lean.py','mag2 overload self*~self',[(NB,"return (~self * self).value[0]","return (self * ~self).value[0]")]))
    res.append(semantic('methods2lean.py','__pow__: range(other)',[('clifford/_multivector.py',"for i in range(1, other):\n            newMV = newMV * base","for i in range(other):\n            newMV = newMV * base")]))
    res.append(semantic('methods2lean.py','__pow__: negative keeps base = self',[('clifford/_multivector.py',"            base = self.inv()\n            other = -other","            base = self\n            other = -other")]))
    res.append(semantic('methods2lean.py','__pow__: product with self',[('clifford/_multivector.py',"            newMV = newMV * base\n","            newMV = newMV * self\n")]))
    res.append(semantic('mv2lean.py','up coeff .25',[(CL,".5 ^ ((x**2)*self.einf)",".25 ^ ((x**2)*self.einf)")]))
    res.append(semantic('mv2lean.py','einf sign',[(CL,"einf = en + ep","einf = en - ep")]))
    res.append(semantic('mv2lean.py','E0 swapped',[(CL,"E0 = einf ^ eo","E0 = eo ^ einf")]))
    res.append(harmless('closed2lean.py','shirokov Ck commuted',[(L,"Ck = (N / k) * Uk.value[0]","Ck = Uk.value[0] * (N / k)")]))
    res.append(semantic('closed2lean.py','shirokov adjU * U',[(L,"Uk = U * adjU","Uk = adjU * U")]))
    res.append(semantic('closed2lean.py','shirokov k / N',[(L,"Ck = (N / k) * Uk.value[0]","Ck = (k / N) * Uk.value[0]")]))
    res.append(semantic('closed2lean.py','shirokov range(1, N+1)',[(L,"for k in range(1, N):\n                Ck","for k in range(1, N + 1):\n                Ck")]))
    MVF='clifford/_multivector.py'
    PA='clifford/_parser.py'
    res.append(harmless('parser2lean.py','line offset: pos - 1 - len(line)',[(PA,"new_pos = pos - len(line) - 1","new_pos = pos - 1 - len(line)")]))
    res.append(semantic('parser2lean.py','line offset: newline not counted',[(PA,"new_pos = pos - len(line) - 1","new_pos = pos - len(line)")]))
    res.append(semantic('parser2lean.py','line offset: column from 0',[(PA,"return line_i, pos + 1, line","return line_i, pos, line")]))
    res.append(semantic('parser2lean.py','line offset: lines from 0',[(PA,"enumerate(lines, 1)","enumerate(lines, 0)")]))
    res.append(semantic('parser2lean.py','lexicon: wedge before coeff',[(PA,"r'\\^',\n        lambda s, t: ('wedge', s.match, None)","r'\\^\\^',\n        lambda s, t: ('wedge', s.match, None)")]))
    res.append(semantic('parser2lean.py','lexicon: sign payload swapped',[(PA,"1 if t == '+' else -1","-1 if t == '+' else 1")]))
    IO='clifford/io.py'
    res.append(harmless('io2lean.py','io: unchanged',[]))
    res.append(semantic('io2lean.py','io: json transposed data without flag',[(IO,"dset_data['data'] = mv_array.T.tolist()\n        dset_data['transpose'] = True","dset_data['data'] = mv_array.T.tolist()\n        dset_data['transpose'] = False")]))
    res.append(semantic('io2lean.py','io: uncompressed transposed branch stores untransposed',[(IO,'dset_data = f.create_dataset("data", data=mv_array.T)','dset_data = f.create_dataset("data", data=mv_array)')]))
    res.append(semantic('io2lean.py','io: reader ignores the flag',[(IO,"data_array = data[:].T","data_array = data[:]")]))
    res.append(semantic('io2lean.py','io: swapaxes',[(IO,"data_array = data[:].T","data_array = data[:].swapaxes(0, -1)")]))
    res.append(harmless('printer2lean.py','__str__ coeff*sign',[(MVF,"abs_coeff = sign*coeff","abs_coeff = coeff*sign")]))
    res.append(semantic('printer2lean.py','__str__ seps swapped',[(MVF,"sep = seps[1]\n                    sign = -1","sep = seps[0]\n                    sign = -1")]))
    res.append(semantic('printer2lean.py','__str__ grade == 1',[(MVF,"if grade == 0:\n                    # scalar","if grade == 1:\n                    # scalar")]))
    res.append(semantic('printer2lean.py','__str__ first minus lost',[(MVF,"seps = ('', '-')","seps = ('', '')")]))
    res.append(semantic('printer2lean.py','__str__ missing paren',[(MVF,"'%s%s(%s^%s)'","'%s%s(%s^%s'")]))
    res.append(semantic('closed2lean.py','n=4 grades (2,4)',[(L,"mv_mul_mv_conj(3, 4)","mv_mul_mv_conj(2, 4)")]))
    res.append(semantic('closed2lean.py','n=5 factor 3',[(L,"2 * mv_combo_op(1, 4)","3 * mv_combo_op(1, 4)")]))
    res.append(semantic('loops2lean.py','start a = bitmap_a',[(H,"a = bitmap_a >> 1","a = bitmap_a")]))
    res.append(semantic('loops2lean.py','a | bitmap_b',[(H,"count_set_bits(a & bitmap_b)","count_set_bits(a | bitmap_b)")]))
    res.append(semantic('loops2lean.py','metric cond flipped',[(L,"if (bitmap & 1) != 0:","if (bitmap & 1) == 0:")]))
    res.append(semantic('loops2lean.py','gmt xor->or',[(L,"output_bitmap = bitmap_a^bitmap_b","output_bitmap = bitmap_a|bitmap_b")]))
    res.append(semantic('loops2lean.py','tuple: sign of (b, out)',[(H,"s *= canonical_reordering_sign_euclidean(bitmap_out, bitmap_b)","s *= canonical_reordering_sign_euclidean(bitmap_b, bitmap_out)")]))
    res.append(semantic('kernels2lean.py','k/m swapped in res',[(I,"res = value[k_list] * mult_table_vals * other_value[m_list]","res = value[m_list] * mult_table_vals * other_value[k_list]")]))
    res.append(semantic('kernels2lean.py','mask on wrong operand',[(I,"(value != 0.0)[k_list] & (other_value != 0.0)[m_list]","(value != 0.0)[m_list] & (other_value != 0.0)[k_list]")]))
    res.append(semantic('kernels2lean.py','res squared table value',[(I,"res = value[k_list] * mult_table_vals * other_value[m_list]","res = value[k_list] * mult_table_vals * mult_table_vals * other_value[m_list]")]))
    res.append(semantic('kernels2lean.py','left matrix transposed',[(I,"intermed[j, i] += mult_table_vals[test_ind] * x[k]","intermed[i, j] += mult_table_vals[test_ind] * x[k]")]))
    res.append(semantic('kernels2lean.py','left matrix reads x[i]',[(I,"intermed[j, i] += mult_table_vals[test_ind] * x[k]","intermed[j, i] += mult_table_vals[test_ind] * x[i]")]))
    res.append(harmless('kernels2lean.py','left matrix factors commuted',[(I,"intermed[j, i] += mult_table_vals[test_ind] * x[k]","intermed[j, i] += x[k] * mult_table_vals[test_ind]")]))
    G3='clifford/tools/g3c/__init__.py'
    res.append(semantic('mv2lean.py','annihilate_k: K[0] + K(4)',[(G3,"k_4 = K.value[0] - K(4)","k_4 = K.value[0] + K(4)")]))
    res.append(semantic('mv2lean.py','positive_root: sigma - norm_s',[(G3,"    denominator = (math.sqrt(2) * math.sqrt(sigma.value[0] + norm_s))\n    return (sigma + norm_s)/denominator","    denominator = (math.sqrt(2) * math.sqrt(sigma.value[0] + norm_s))\n    return (sigma - norm_s)/denominator")]))
    res.append(semantic('mv2lean.py','rotor_between_objects_root: C from X1*X2',[(G3,"        C = 1 + gamma*(X2 * X1)\n        if abs(C.value[0]) < 1E-6:\n            R = (I5eo * X21)(2)\n","        C = 1 + gamma*(X1 * X2)\n        if abs(C.value[0]) < 1E-6:\n            R = (I5eo * X21)(2)\n")]))
    res.append(semantic('mv2lean.py','dorst_norm: plus',[(G3,"sqrd_ans = sigma.value[0] ** 2 - (sigma_4 * sigma_4).value[0]","sqrd_ans = sigma.value[0] ** 2 + (sigma_4 * sigma_4).value[0]")]))
    res.append(harmless('mv2lean.py','rotor_between_objects_root: C = 1 + (X2*X1)*gamma',[(G3,"        C = 1 + gamma*(X2 * X1)\n        if abs(C.value[0]) < 1E-6:\n            R = (I5eo * X21)(2)\n","        C = 1 + (X2 * X1)*gamma\n        if abs(C.value[0]) < 1E-6:\n            R = (I5eo * X21)(2)\n")]))
    res.append(semantic('mv2lean.py','fast_up: + no',[(G3,"return mv - no + (0.5 * ((mv * mv) * ninf))","return mv + no + (0.5 * ((mv * mv) * ninf))")]))
    res.append(semantic('mv2lean.py','fast_down: E0 on the left',[(G3,"return (fast_homo(mv) ^ E0) * E0","return E0 * (fast_homo(mv) ^ E0)")]))
    res.append(semantic('mv2lean.py','euc_dist: -1.0*dot',[(G3,"return math.sqrt(-2.0*dot_result)","return math.sqrt(-1.0*dot_result)")]))
    res.append(harmless('mv2lean.py','fast_up: terms reordered',[(G3,"return mv - no + (0.5 * ((mv * mv) * ninf))","return (0.5 * ((mv * mv) * ninf)) + mv - no")]))
    RP='clifford/tools/g3c/rotor_parameterisation.py'
    res.append(semantic('valexp2lean.py','val_exp: t_par / t_nor swapped in R',[(RP,"R_val = coef_val + gmt_func(coef_val, mult_with_ninf(t_nor_val)) + \\\n        np.sinc(phi/np.pi) * mult_with_ninf(t_par_val)","R_val = coef_val + gmt_func(coef_val, mult_with_ninf(t_par_val)) + \\\n        np.sinc(phi/np.pi) * mult_with_ninf(t_nor_val)")]))
    res.append(semantic('valexp2lean.py','val_exp: t_par = t + t_nor',[(RP,"t_par_val = t_val - t_nor_val","t_par_val = t_val + t_nor_val")]))
    res.append(semantic('valexp2lean.py','val_exp: P_n = I3 * P is fine, but coef uses cos for sin',[(RP,"coef_val = np.sin(phi) * P_val\n    coef_val[0] += np.cos(phi)","coef_val = np.cos(phi) * P_val\n    coef_val[0] += np.sin(phi)")]))
    res.append(harmless('valexp2lean.py','val_exp: sum reordered',[(RP,"R_val = coef_val + gmt_func(coef_val, mult_with_ninf(t_nor_val)) + \\\n        np.sinc(phi/np.pi) * mult_with_ninf(t_par_val)","R_val = np.sinc(phi/np.pi) * mult_with_ninf(t_par_val) + coef_val + \\\n        gmt_func(coef_val, mult_with_ninf(t_nor_val))")]))
    MVP='clifford/_multivector.py'
    res.append(semantic('methods2lean.py','__or__: tolerance-based scalar shortcut (seed C02_5)',[(MVP,"        if mv:\n            newValue = self.layout.imt_func(self.value, other.value)\n        else:\n            if isinstance(other, np.ndarray):\n                obj = self.__array__()\n                return obj|other","        if mv:\n            if self.isScalar() or other.isScalar():\n                return self._newMV(dtype=np.result_type(self.value.dtype, other.value.dtype))\n            newValue = self.layout.imt_func(self.value, other.value)\n        else:\n            if isinstance(other, np.ndarray):\n                obj = self.__array__()\n                return obj|other")]))
    res.append(semantic('methods2lean.py','__rxor__: operands not swapped',[(MVP,"newValue = self.layout.omt_func(other.value, self.value)","newValue = self.layout.omt_func(self.value, other.value)")]))
    res.append(semantic('methods2lean.py','lc: early return by top grades (seed C02_6)',[(MVP,"        other, mv = self._checkOther(other, coerce=True)\n\n        newValue = self.layout.lcmt_func(self.value, other.value)","        other, mv = self._checkOther(other, coerce=True)\n\n        if max(self.grades(eps=0), default=0) > max(other.grades(eps=0), default=0):\n            return self._newMV(dtype=np.result_type(self.value.dtype, other.value.dtype))\n        newValue = self.layout.lcmt_func(self.value, other.value)")]))
    res.append(harmless('methods2lean.py','__mul__: scalar branch self.value * other',[(MVP,"            newValue = other * self.value\n\n        return self._newMV(newValue)\n\n    def __rmul__","            newValue = self.value * other\n\n        return self._newMV(newValue)\n\n    def __rmul__")]))
    shutil.rmtree(SCR, ignore_errors=True)
    print("all as expected" if all(res) else "SOME UNEXPECTED")
    return 0 if all(res) else 1
if __name__ == "__main__":
    sys.exit(main())
