"""Worker process: runs one job of one property against the real implementation.
NUMBA_* variables are already set in the environment by the orchestrator."""
import importlib
import json
import sys
import traceback
import warnings


def main():
    prop = sys.argv[1]
    warnings.simplefilter('ignore')
    import os
    import clifford
    repo = os.environ.get('VERIF_REPO', '/repo')
    if not os.path.realpath(clifford.__file__).startswith(os.path.realpath(repo) + os.sep):
        raise RuntimeError(f"clifford imported from {clifford.__file__}, expected {repo}")
    mod = importlib.import_module(f'harness.props.{prop}')
    if sys.argv[2] == '--replay':
        obj = json.loads(open(sys.argv[3]).read())
        rc = mod.replay(obj)
        sys.exit(rc)
    job, tier, seed, out = sys.argv[2], sys.argv[3], int(sys.argv[4]), sys.argv[5]
    from harness import core
    try:
        res = mod.run_job(job, tier, seed)
    except Exception as e:
        # safety net below the per-case guards: an exception that escapes a whole job while the implementation is being evaluated
        # (a library call that raises, or a NaN / inf that cannot be compared exactly) is reported as a violation with the traceback
        # as the witness; mistakes of the harness itself (NameError, ImportError, SyntaxError in harness frames) and driver failures
        # still crash the worker (CHECK-BROKEN)
        tb = traceback.extract_tb(e.__traceback__)
        where = tb[-1]
        if isinstance(e, core.DriverError) or (isinstance(e, (NameError, ImportError, SyntaxError, AttributeError, KeyError, IndexError, AssertionError))
                                               and '/harness/' in where.filename):
            raise
        res = core.Result(job)
        res.violate(f'job `{job}` aborted by {type(e).__name__} while evaluating the implementation', dict(job=job, tier=tier, seed=seed),
                    f'{type(e).__name__}: {e}'[:300], 'a value',
                    dict(op='job-aborted', error=type(e).__name__, at=f'{where.filename.split("/")[-1]}:{where.name}',
                         traceback=[f'{fr.filename.split("/")[-1]}:{fr.lineno}:{fr.name}' for fr in tb[-6:]]))
    with open(out, 'w') as f:
        json.dump(core.jsonable(res.to_json()), f)


if __name__ == '__main__':
    main()
