"""Worker process: runs one job of one property against the real implementation.
NUMBA_* variables are already set in the environment by the orchestrator."""
import importlib
import json
import sys
import traceback
import warnings


def main():
    prop = sys.argv[1]
    warnings.simplefilter('ignore')
    import os
    import clifford
    repo = os.environ.get('VERIF_REPO', '/repo')
    if not os.path.realpath(clifford.__file__).startswith(os.path.realpath(repo) + os.sep):
        raise RuntimeError(f"clifford imported from {clifford.__file__}, expected {repo}")
    mod = importlib.import_module(f'harness.props.{prop}')
    if sys.argv[2] == '--replay':
        obj = json.loads(open(sys.argv[3]).read())
        rc = mod.replay(obj)
        sys.exit(rc)
    job, tier, seed, out = sys.argv[2], sys.argv[3], int(sys.argv[4]), sys.argv[5]
    from harness import core
    res = mod.run_job(job, tier, seed)
    with open(out, 'w') as f:
        json.dump(core.jsonable(res.to_json()), f)


if __name__ == '__main__':
    main()
