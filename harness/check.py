"""Orchestrator: `verif check <ID> [--tier quick|thorough] [--replay file]`.

regenerate (Tie A) -> lake build -> axiom audit -> correspondence + predicate workers
-> decision (VIOLATION protocol, known findings) -> evidence.
Exit 0: property held on everything explored. Exit 1: VIOLATION line printed.
Exit 2: the check itself is broken (crash, timeout) -- never a violation.
"""
import argparse
import importlib
import json
import os
import shutil
import subprocess
import sys
import tempfile
import time
import traceback
from concurrent.futures import ThreadPoolExecutor
from pathlib import Path

from . import core


def run_worker(prop, job, tier, seed, jit, timeout):
    cache = tempfile.mkdtemp(prefix='cliffverif_nb_')
    out = tempfile.NamedTemporaryFile(prefix='cliffverif_res_', suffix='.json', delete=False)
    out.close()
    env = core.worker_env(jit, cache)
    cmd = [core.PY, '-m', 'harness.worker', prop, job, tier, str(seed), out.name]
    t0 = time.time()
    try:
        p = subprocess.run(cmd, cwd='/', env=env, capture_output=True, text=True, timeout=timeout)
        dt = time.time() - t0
        if p.returncode != 0:
            return dict(job=job, crashed=True, log=(p.stdout + p.stderr)[-4000:], wall=dt)
        res = json.loads(Path(out.name).read_text())
        res['wall'] = dt
        res['jit'] = jit
        return res
    except subprocess.TimeoutExpired:
        return dict(job=job, crashed=True, timeout=True, log=f'timeout after {timeout}s', wall=time.time() - t0)
    finally:
        shutil.rmtree(cache, ignore_errors=True)
        try:
            os.unlink(out.name)
        except OSError:
            pass


def write_replay(prop, seed, k, obj):
    core.REPLAYS.mkdir(parents=True, exist_ok=True)
    p = core.REPLAYS / f"{prop}-{seed}-{k}.json"
    p.write_text(json.dumps(core.jsonable(obj), indent=1))
    return p


def main(argv=None):
    ap = argparse.ArgumentParser()
    ap.add_argument('cmd', choices=['check', 'replay', 'build'])
    ap.add_argument('prop', nargs='?')
    ap.add_argument('--tier', default=os.environ.get('VERIF_TIER', 'quick'))
    ap.add_argument('--replay')
    ap.add_argument('--seed', type=int, default=None)
    a = ap.parse_args(argv)
    if a.cmd == 'build':
        return build_all()
    seed = a.seed if a.seed is not None else int(os.environ.get('VERIF_SEED', '0') or 0)
    tier = a.tier if a.tier in ('quick', 'thorough') else 'quick'
    if a.cmd == 'replay' or a.replay:
        return do_replay(a.prop, a.replay)
    try:
        return check(a.prop, tier, seed)
    except Exception:
        traceback.print_exc()
        print(f"CHECK-BROKEN property={a.prop}")
        return 2


def build_all():
    # the translators (Tie A) are run by every check against the current source; nothing is generated at build time
    ok, log, dt = core.lake_build(['Model', 'Generated', 'Proofs', 'Props', 'cliffdrv'])
    print(log[-3000:])
    print(f"build {'ok' if ok else 'FAILED'} in {dt:.0f}s")
    return 0 if ok else 2


def do_replay(prop, path):
    obj = json.loads(Path(path).read_text())
    prop = prop or obj.get('property')
    cache = tempfile.mkdtemp(prefix='cliffverif_nb_')
    try:
        env = core.worker_env(obj.get('jit', False), cache)
        p = subprocess.run([core.PY, '-m', 'harness.worker', prop, '--replay', path], cwd='/', env=env)
        return p.returncode
    finally:
        shutil.rmtree(cache, ignore_errors=True)


def check(prop, tier, seed):
    t0 = time.time()
    mod = importlib.import_module(f'harness.props.{prop}')
    broken = []       # names of theorems / correspondences that no longer check
    notes = []

    # 1. Tie A (translator) for the loop-free integer code this property rests on: regenerated from the current source
    gen = {}
    tie_names = list(getattr(mod, 'TIE_A', []))
    tie_ax = {}
    tie_fallback = {}      # generated theorem -> why the translator did not produce it (source outside its fragment)
    if tie_names:
        tie_ax, tst, tlog = core.tie_a(tie_names)
        gen = tst.get('status', {}) if isinstance(tst, dict) else {}
        produced = set((tst.get('theorems') or {}).values()) if isinstance(tst, dict) else set()
        if isinstance(tst, dict) and tst.get('error'):
            print(tst['error'][-1500:])
            print(f"CHECK-BROKEN property={prop} (a translator crashed)")
            return 2
        refused = {fn: st.get('reason') for fn, st in gen.items() if st.get('status') != 'ok'}
        for t in list(tie_names):
            if t in produced:
                continue
            keys = sorted([fn for fn in refused if t.startswith(fn)], key=len, reverse=True)
            why = refused[keys[0]] if keys else 'the translator did not produce this theorem'
            # A refusal means the source has left the fragment the translator understands (a rewrite, harmless or not): the
            # translator tie is then *not established* on this run and the property rests on the correspondence check and the
            # direct predicates below, which is the tie every property has. It is reported, not counted as a violation; a
            # generated theorem that is produced and FAILS is a broken obligation.
            tie_fallback[t] = why
            tie_names.remove(t)
            print(f"NOTE property={prop} translator tie TieA.{t} not established on this source ({why}); relying on the correspondence check")

    # 2. build the property's theorems and the driver
    targets = list(getattr(mod, 'LEAN_TARGETS', [f'Props.{prop}'])) + ['cliffdrv']
    ok, log, bdt = core.lake_build(targets)
    build_ok = ok
    if not ok:
        # is it the driver/model (broken check) or the proofs (broken obligation)?
        okd, logd, _ = core.lake_build(['cliffdrv'])
        if not okd:
            print(logd[-3000:])
            print(f"CHECK-BROKEN property={prop} (driver does not build)")
            return 2
        errs = [l for l in log.splitlines() if 'error' in l][:20]
        notes.append('lake build failed: ' + ' | '.join(errs))

    # 3. forbidden tokens and axiom audit
    obligations = list(mod.OBLIGATIONS)
    hits = core.forbidden_token_hits()
    ax = {n: None for n in obligations}
    if build_ok:
        ax, auditlog = core.audit_axioms(obligations, getattr(mod, 'AUDIT_IMPORTS', [f'Props.{prop}']))
    # generated equivalence theorems are obligations too
    for t in tie_names:
        obligations.append('TieA.' + t)
        ax['TieA.' + t] = tie_ax.get(t)
    discharged = []
    for n in obligations:
        axs = ax.get(n)
        if axs is None:
            broken.append(f"theorem {n} does not check")
        elif not set(axs) <= core.ALLOWED_AXIOMS:
            broken.append(f"theorem {n} depends on axioms {sorted(set(axs) - core.ALLOWED_AXIOMS)}")
        else:
            discharged.append(n)
    if hits:
        broken.append('forbidden tokens: ' + '; '.join(hits))
        discharged = []
    lc_info = None
    if tier == 'thorough' and build_ok:
        mods = core.local_import_closure(list(getattr(mod, 'LEAN_TARGETS', [f'Props.{prop}'])))
        okc, outc, dtc = core.leanchecker(mods)
        lc_info = dict(modules=mods, ok=okc, wall_s=round(dtc, 1))
        if not okc and outc.startswith('killed (signal'):
            # infrastructure: the re-checker was killed (memory pressure from other processes). The obligations stand on `lake build` +
            # `#print axioms`, which did complete; the evidence records that the independent re-check did not run to the end.
            print(f"NOTE property={prop} leanchecker re-check not completed ({outc[:40].strip()}); the kernel check by `lake build` stands")
            lc_info['ok'] = None
            lc_info['note'] = 'killed by a signal (out of memory); not completed'
        elif not okc:
            if 'does not exist' in outc or 'No such file' in outc:
                # infrastructure (a compiled file is missing, e.g. a concurrent rebuild): the check is broken, not the property
                print(outc[-500:])
                print(f"CHECK-BROKEN property={prop} (leanchecker could not load the compiled modules)")
                return 2
            broken.append('leanchecker rejects the compiled modules: ' + outc[-300:])
            discharged = []

    # 4. correspondence + predicates on the real implementation
    jobs = mod.jobs(tier, seed)
    results = []
    maxw = int(os.environ.get('VERIF_WORKERS', '8'))
    with ThreadPoolExecutor(max_workers=maxw) as ex:
        futs = [ex.submit(run_worker, prop, j['name'], tier, seed, j.get('jit', False), j.get('timeout', 1500))
                for j in jobs]
        for f in futs:
            results.append(f.result())
    crashed = [r for r in results if r.get('crashed')]
    if crashed:
        done = [r for r in results if not r.get('crashed')]
        pending = [v for r in done for v in r['violations'] if core.match_known(prop, v) is None]
        for r in crashed:
            print(f"worker {r['job']} crashed:\n{r['log']}")
        if not pending:
            print(f"CHECK-BROKEN property={prop} (worker crash/timeout)")
            return 2
        # a job that did not come back (e.g. the implementation hangs in compiled code) cannot hide what the completed jobs found
        for r in crashed:
            print(f"NOTE property={prop} job {r['job']} did not complete ({'timeout' if r.get('timeout') else 'crash'}); reporting the violations found by the completed jobs")
        results = done

    evaluations = sum(r['evaluations'] for r in results)
    nontrivial = set()
    for r in results:
        nontrivial.update(r['nontrivial'])
    disagreements = [d for r in results for d in r['disagreements']]
    violations = [v for r in results for v in r['violations']]
    samples = [s for r in results for s in r['samples']][:8]
    dist = {}
    for r in results:
        for k, v in r['dist'].items():
            dist[f"{r['job']}:{k}"] = v

    for d in disagreements[:10]:
        broken.append(f"correspondence {d['what']} (job {d['job']})")

    # 5. decision
    exit_code = 0
    reported = 0
    known_lines = []
    k = 0
    unlisted = []
    for v in violations:
        e = core.match_known(prop, v)
        if e is not None:
            line = f"KNOWN-FINDING: property={prop} {e['what']}"
            if line not in known_lines:
                known_lines.append(line)
        else:
            unlisted.append(v)
    for line in known_lines:
        print(line)
    if unlisted:
        # one replay per distinct 'what'
        seen = set()
        for v in unlisted:
            if v['what'] in seen:
                continue
            seen.add(v['what'])
            v = dict(v)
            v['property'] = prop
            v['broken'] = broken
            v['replay_cmd'] = f"./verif replay {prop} --replay <this file>"
            p = write_replay(prop, seed, k, v)
            k += 1
            print(f"VIOLATION property={prop} replay={p}")
            reported += 1
            if reported >= 5:
                break
        exit_code = 1
    elif broken:
        # a proof obligation or the correspondence no longer checks, and the search on the
        # implementation (the predicates above ran on the disagreeing inputs and on the generators)
        # found no input on which the property itself fails
        obj = dict(property=prop, kind='broken-obligation', broken=broken, disagreements=disagreements[:10],
                   searched=dict(evaluations=evaluations, jobs=[r['job'] for r in results]), notes=notes)
        p = write_replay(prop, seed, 'unchecked', obj)
        print(f"VIOLATION property={prop} replay={p} no-failing-input-found")
        exit_code = 1

    # 6. evidence
    wall = time.time() - t0
    ev = dict(
        property_id=prop, tier=tier, seed=seed, level='proof',
        coverage=dict(
            obligations=len(obligations), discharged=len(discharged),
            checker_cmd=f"cd lean && lake build {' '.join(targets)} && lake env lean <#print axioms for each obligation>",
            trusted_base=core.TRUSTED_BASE + list(getattr(mod, 'TRUSTED_EXTRA', [])),
            theorems=[dict(name=n, axioms=ax.get(n)) for n in obligations],
            pending=list(getattr(mod, 'PENDING', [])),
            partial=list(getattr(mod, 'PARTIAL', [])),
            generated_functions={fn: st.get('status') for fn, st in gen.items()} if (tie_names or tie_fallback) else {},
            translator_fallback=tie_fallback,
            traces_validated_against_impl=evaluations,
            evaluations=evaluations, distinct_nontrivial=len(nontrivial),
            rule=getattr(mod, 'RULE', ''),
            samples=samples if samples else [dict(obligation=o) for o in obligations[:3]],
            distribution=dist, broken=broken,
            jobs=[dict(job=r['job'], jit=r.get('jit'), wall_s=round(r['wall'], 1), evaluations=r['evaluations']) for r in results],
            build_s=round(bdt, 1), leanchecker=lc_info,
        ),
        assumptions=list(getattr(mod, 'ASSUMPTIONS', [])),
        wall_s=round(wall, 2), violations=len(unlisted) + (1 if (broken and not unlisted) else 0),
        known_findings=known_lines,
    )
    core.EVIDENCE.mkdir(parents=True, exist_ok=True)
    (core.EVIDENCE / f'{prop}.json').write_text(json.dumps(core.jsonable(ev), indent=1))
    print(f"{prop} {tier} seed={seed}: obligations {len(discharged)}/{len(obligations)}, evaluations {evaluations}, "
          f"distinct non-trivial {len(nontrivial)}, disagreements {len(disagreements)}, violations {len(unlisted)}, "
          f"known {len(known_lines)}, {wall:.0f}s")
    return exit_code


if __name__ == '__main__':
    sys.exit(main())
