"""C03 Generated product kernels and operators compute exactly the published tables."""
import itertools
from fractions import Fraction
import operator as pyop

from harness import core, gen, common
from harness.props import C01

ID = 'C03'
LEAN_TARGETS = ['Props.C03']
TIE_A = ['kernel_dense_eq', 'kernel_sparse_eq', 'kernel_dispatch_eq', 'kernel_leftmat_eq', 'kernel_rightmat_eq', 'meth_operators_eq']
OBLIGATIONS = [
    'C03.dense_kernel_is_contraction', 'C03.sparse_kernel_is_contraction', 'C03.kernel_output_size', 'C03.contraction_entry_order',
    'C03.grade_filtered_kernel', 'C03.get_mult_function_spec', 'C03.scalar_operand_gp', 'C03.scalar_operand_op',
    'C03.promote_same', 'C03.promote_ge', 'C03.promote_is_one_of', 'C03.left_matrix_is_contraction', 'C03.right_matrix_is_contraction',
]
PENDING = []
RULE = ("every kernel (gmt/omt/imt/lcmt x default/grade-filtered) and the left/right matrices on dense, sparse, single-blade and all-zero operand "
        "patterns in int/float/complex dtypes; every operator x operand-class pair; non-trivial = both operands non-zero (zero patterns are "
        "counted separately in the distribution); distinct = distinct (layout, kernel, operands) text")
ASSUMPTIONS = C01.ASSUMPTIONS + ["numpy promotion: int8 table values do not widen int32/float32/complex64 operands"]

KINDS = {'i': 0, 'u': 0, 'b': 0, 'f': 1, 'c': 2}


def jobs(tier, seed):
    return [dict(name='kernels', jit=False, timeout=2400), dict(name='kernels_jit', jit=True, timeout=2400)]


def dense_table(coo):
    import numpy as np
    return np.asarray(coo.todense()).astype(np.int64)


def contraction(T, a, b):
    """exact contraction sum_{i,k} a_i T[i,j,k] b_k using python objects (ints / Fractions / complex of ints)"""
    import numpy as np
    A = np.array(a, dtype=object)
    B = np.array(b, dtype=object)
    return np.einsum('i,ijk,k->j', A, T.astype(object), B)


def exact_val(x):
    """python exact value of a numpy scalar: int, Fraction or (Fraction, Fraction) for complex"""
    import numpy as np
    if isinstance(x, (complex, np.complexfloating)):
        return (core.frac(x.real), core.frac(x.imag))
    return core.frac(x)


def to_obj(vals, kind):
    """exact python objects for the einsum reference"""
    from fractions import Fraction
    if kind == 'c':
        return [complex(v) for v in vals]      # Gaussian integers: exact in complex arithmetic
    return [Fraction(v) for v in vals]


def operand(rng, N, dtype, pattern):
    """(numpy array, exact list). dtype in int64,int32,float64,float32,complex128,complex64"""
    import numpy as np
    if pattern == 'zero':
        iv = [0] * N
    elif pattern == 'single':
        iv = [0] * N
        iv[int(rng.integers(N))] = int(rng.integers(1, 6)) * int(rng.choice([1, -1]))
    elif pattern == 'sparse':
        iv = gen.int_mv(rng, N, 'sparse2')
    elif pattern == 'half':
        iv = gen.int_mv(rng, N, 'half')
    else:
        iv = gen.int_mv(rng, N, 'dense')
    dt = np.dtype(dtype)
    if pattern == 'tiny' and dt.kind != 'i':
        # non-zero coefficients far below the library's eps: they are still non-zero and must take part in the product
        iv = gen.int_mv(rng, N, 'half')
        sc = core.frac(2.0 ** -48) if dt == np.dtype('float64') or dt == np.dtype('complex128') else core.frac(2.0 ** -20)
        vals = [core.frac(x) * sc for x in iv]
        if dt.kind == 'f':
            return np.array([float(v) for v in vals], dtype=dt), vals
        cv = [complex(float(v), 0.0) for v in vals]
        return np.array(cv, dtype=dt), cv
    if dt.kind == 'i':
        return np.array(iv, dtype=dt), iv
    if dt.kind == 'f':
        # dyadic values (exact in float32 as well): m / 2^e with small m
        e = rng.integers(0, 4, size=N)
        vals = [core.frac(x) / (2 ** int(k)) for x, k in zip(iv, e)]
        return np.array([float(v) for v in vals], dtype=dt), vals
    im = gen.int_mv(rng, N, 'half') if pattern not in ('zero',) else [0] * N
    vals = [complex(r, i) for r, i in zip(iv, im)]
    return np.array(vals, dtype=dt), vals


def same(got, exp_obj):
    """numpy result equals the exact object reference"""
    import numpy as np
    g = np.asarray(got)
    for x, y in zip(g.tolist(), list(exp_obj)):
        if isinstance(x, complex) or isinstance(y, complex):
            if complex(x) != complex(y):
                return False
        elif core.frac(x) != core.frac(y):
            return False
    return len(g) == len(exp_obj)


def check_kernels(res, L, rng, tag, tier, jit):
    import numpy as np
    n, N = L.dims, L.gaDims
    site = common.site_of(L)
    gr = [int(g) for g in L._basis_blade_order.grades]
    tables = dict(gmt=dense_table(L.gmt), omt=dense_table(L.omt), imt=dense_table(L.imt), lcmt=dense_table(L.lcmt))
    funcs = dict(gmt=L.gmt_func, omt=L.omt_func, imt=L.imt_func, lcmt=L.lcmt_func)
    gens = dict(gmt=L.gmt_func_generator, omt=L.omt_func_generator, imt=L.imt_func_generator, lcmt=L.lcmt_func_generator)
    dtypes = ['int64', 'float64', 'complex128'] + ([] if jit and tier == 'quick' else ['int32', 'float32', 'complex64'])
    patterns = ['dense', 'sparse', 'single', 'zero', 'half', 'tiny']
    for which, f in funcs.items():
        T = tables[which]
        for dt in dtypes:
            for pa in patterns:
                pb = patterns[int(rng.integers(len(patterns)))]
                a, ea = operand(rng, N, dt, pa)
                b, eb = operand(rng, N, dt, pb)
                out = f(a, b)
                exp = contraction(T, to_obj(ea, np.dtype(dt).kind), to_obj(eb, np.dtype(dt).kind))
                nt = any(ea) and any(eb)
                res.case(('kernel', tag, which, dt, str(ea), str(eb)), nontrivial=nt,
                         sample=dict(sig=site['sig'], table=which, dtype=dt, a=str(ea)[:80], b=str(eb)[:80]))
                res.count(f'pattern_{pa}')
                res.count(f'dtype_{dt}')
                inp = dict(site, table=which, dtype=dt, a=[str(x) for x in ea], b=[str(x) for x in eb])
                if not same(out, exp):
                    res.violate(f'{which}_func is not the contraction of the layout table with its operands', inp,
                                np.asarray(out).tolist(), [str(x) for x in exp], dict(site, op=which + '_func', dtype=dt))
                if out.dtype != np.dtype(dt):
                    res.violate('kernel result dtype differs from the common operand dtype', inp, str(out.dtype), dt, dict(site, op=which + '_func-dtype', dtype=dt))
        # mixed dtypes -> promoted kind
        for (da, db) in (('int64', 'float64'), ('float64', 'complex128'), ('int64', 'complex128')):
            a, ea = operand(rng, N, da, 'dense')
            b, eb = operand(rng, N, db, 'half')
            out = f(a, b)
            k = 'c' if 'complex' in db else 'f'
            exp = contraction(T, to_obj(ea, k), to_obj(eb, k))
            res.case(('kernel-mixed', tag, which, da, db, str(ea), str(eb)))
            if not same(out, exp) or KINDS[out.dtype.kind] != max(KINDS[np.dtype(da).kind], KINDS[np.dtype(db).kind]):
                res.violate('mixed-dtype kernel result is wrong or of a narrower kind', dict(site, table=which, da=da, db=db),
                            [np.asarray(out).tolist(), str(out.dtype)], [str(x) for x in exp], dict(site, op=which + '_func-mixed'))
    # the kernel generator is public and works for ANY sparse table: a table with non-integer entries (half the geometric table, and a
    # table with float / fractional weights per entry) must be contracted as given
    if N <= 32:
        import sparse
        import clifford as cf
        g = L.gmt
        for nm_, data_ in (('half', g.data.astype(np.float64) * 0.5), ('weighted', g.data.astype(np.float64) * (1.0 + (np.arange(len(g.data)) % 4) * 0.25))):
            mt = sparse.COO(coords=g.coords, data=data_, shape=g.shape, prune=True)
            dense_ = np.asarray(mt.todense())
            Tm = np.empty(dense_.shape, dtype=object)
            for idx_ in np.ndindex(*dense_.shape):
                Tm[idx_] = Fraction(float(dense_[idx_]))
            allg = list(range(n + 1))
            fm = cf.get_mult_function(mt, L._basis_blade_order.grades) if nm_ == 'half' else cf.get_mult_function(mt, L._basis_blade_order.grades, grades_a=allg, grades_b=allg)
            a, ea = operand(rng, N, 'float64', 'dense')
            b, eb = operand(rng, N, 'float64', 'half')
            out = fm(a, b)
            exp = contraction(Tm, to_obj(ea, 'f'), to_obj(eb, 'f'))
            res.case(('kernel-float-table', tag, nm_, str(ea), str(eb)), nontrivial=any(ea) and any(eb))
            res.count('float_table')
            if not same(out, exp):
                res.violate('get_mult_function on a table with non-integer entries is not the contraction of that table', dict(site, table=nm_,
                            a=[str(x) for x in ea], b=[str(x) for x in eb]), np.asarray(out).tolist(), [str(x) for x in exp], dict(site, op='float-table:' + nm_))
    # grade-restricted variants
    all_sets = [list(c) for r in range(n + 2) for c in itertools.combinations(range(n + 1), r)]
    pairs = list(itertools.product(all_sets, repeat=2))
    limit = (6 if jit else (40 if tier == 'quick' else 200))
    if n <= 2 and not jit:
        chosen = pairs
    else:
        chosen = [pairs[i] for i in rng.choice(len(pairs), size=min(limit, len(pairs)), replace=False)]
    for (ga, gb) in chosen:
        which = ['gmt', 'omt', 'imt', 'lcmt'][int(rng.integers(4))]
        T = tables[which]
        # the signature asks for a container of grades: lists, tuples, sets (what `MultiVector.grades()` returns), frozensets, arrays
        kinds = [list, tuple, set, frozenset, lambda g: np.array(sorted(g), dtype=int)]
        ca, cb = kinds[int(rng.integers(len(kinds)))], kinds[int(rng.integers(len(kinds)))]
        res.count('grade_container_' + (getattr(ca, '__name__', 'ndarray') if not callable(ca) or hasattr(ca, '__name__') else 'ndarray'))
        f = gens[which](grades_a=ca(ga), grades_b=cb(gb))
        dt = ['int64', 'float64', 'float32', 'int32', 'complex64'][int(rng.integers(5))]
        a, ea = operand(rng, N, dt, 'dense')
        b, eb = operand(rng, N, dt, ['dense', 'half'][int(rng.integers(2))])
        kk_ = 'c' if dt.startswith('complex') else 'f'
        pa = [x if gr[i] in ga else 0 for i, x in enumerate(to_obj(ea, kk_))]
        pb = [x if gr[i] in gb else 0 for i, x in enumerate(to_obj(eb, kk_))]
        exp = contraction(T, pa, pb)
        out = f(a, b)
        res.case(('kernel-grades', tag, which, tuple(ga), tuple(gb), str(ea), str(eb)), nontrivial=any(pa) and any(pb))
        res.count('grade_filtered')
        if not same(out, exp):
            res.violate(f'{which}_func_generator(grades_a, grades_b) is not the contraction restricted to the requested grades',
                        dict(site, table=which, grades_a=ga, grades_b=gb, a=[str(x) for x in ea], b=[str(x) for x in eb]),
                        np.asarray(out).tolist(), [str(x) for x in exp], dict(site, op=which + '_func_generator'))
        if out.dtype != np.dtype(dt):
            res.violate('grade-restricted kernel result dtype differs from the common operand dtype',
                        dict(site, table=which, grades_a=ga, grades_b=gb, dtype=dt), str(out.dtype), dt, dict(site, op=which + '_func_generator-dtype', dtype=dt))
    # one-sided grade lists fall back to the unrestricted kernel
    f = L.gmt_func_generator(grades_a=[0])
    a, ea = operand(rng, N, 'int64', 'dense')
    b, eb = operand(rng, N, 'int64', 'dense')
    res.case(('kernel-onesided', tag, str(ea), str(eb)))
    if not same(f(a, b), contraction(tables['gmt'], ea, eb)):
        res.violate('gmt_func_generator with one grade list is not the full product', dict(site), None, None, dict(site, op='generator-onesided'))
    # left / right matrices
    for dt in ('int64', 'float64'):
        x, ex = operand(rng, N, dt, 'dense')
        b, eb = operand(rng, N, dt, 'dense')
        X = common.mv(L, x, x.dtype)
        Lm = L.get_left_gmt_matrix(X)
        Rm = L.get_right_gmt_matrix(X)
        res.case(('matrices', tag, dt, str(ex), str(eb)))
        T = tables['gmt']
        expL = np.einsum('i,ijk->jk', np.array(to_obj(ex, 'f'), dtype=object), T.astype(object))
        expR = np.einsum('ijk,k->ji', T.astype(object), np.array(to_obj(ex, 'f'), dtype=object))
        okL = all(core.frac(p) == core.frac(q) for p, q in zip(np.asarray(Lm).ravel().tolist(), expL.ravel().tolist()))
        okR = all(core.frac(p) == core.frac(q) for p, q in zip(np.asarray(Rm).ravel().tolist(), expR.ravel().tolist()))
        if not (okL and okR and same(Lm @ b, contraction(T, ex, eb)) and same(Rm @ b, contraction(T, eb, ex))):
            res.violate('left/right multiplication matrices do not reproduce x*b / b*x', dict(site, x=[str(v) for v in ex], b=[str(v) for v in eb]),
                        None, None, dict(site, op='mt_matrix', dtype=dt))


OPS = {'*': pyop.mul, '^': pyop.xor, '|': pyop.or_, '+': pyop.add, '-': pyop.sub}


def check_operators(res, L, rng, tag, tier):
    """operators incl. reflected and scalar-operand forms: value = table contraction, scalar = grade-0 multivector, kinds promote"""
    import numpy as np
    from clifford import MultiVector
    n, N = L.dims, L.gaDims
    site = common.site_of(L)
    sidx = int(L._basis_blade_order.bitmap_to_index[0])
    tables = {'*': dense_table(L.gmt), '^': dense_table(L.omt), '|': dense_table(L.imt)}
    scalars = [3, -2, 2.5, np.float64(-1.5), np.int64(4), (1 + 2j), np.float32(0.5), 0]
    for dt in ('int64', 'float64', 'complex128'):
        a, ea = operand(rng, N, dt, 'dense')
        b, eb = operand(rng, N, dt, 'half')
        A, B = MultiVector(L, a), MultiVector(L, b)
        k = np.dtype(dt).kind
        for sym, f in OPS.items():
            res.case(('op', tag, sym, dt, str(ea), str(eb)))
            got = f(A, B)
            if sym in tables:
                exp = contraction(tables[sym], to_obj(ea, k), to_obj(eb, k))
            else:
                oa, ob_ = to_obj(ea, k), to_obj(eb, k)
                exp = [f(x, y) for x, y in zip(oa, ob_)]
            if not same(got.value, exp) or got.value.dtype != np.dtype(dt):
                res.violate(f'operator {sym} between multivectors is not the table contraction (or changes dtype)', dict(site, op=sym, a=[str(x) for x in ea], b=[str(x) for x in eb]),
                            got.value.tolist(), [str(x) for x in exp], dict(site, op='operator' + sym, dtype=dt))
            # reflected forms called explicitly
            refl = {'*': '__rmul__', '^': '__rxor__', '|': '__ror__', '+': '__radd__', '-': '__rsub__'}[sym]
            got_r = getattr(B, refl)(A)
            if not same(got_r.value, exp):
                res.violate(f'reflected operator {refl} differs from the direct form', dict(site, op=refl), got_r.value.tolist(), [str(x) for x in exp],
                            dict(site, op=refl, dtype=dt))
        for s in scalars:
            sk = np.result_type(s).kind
            S = MultiVector(L, np.zeros(N, dtype=np.result_type(s)))
            S.value[sidx] = s
            for sym, f in list(OPS.items()) + [('<<', pyop.lshift), ('lc', lambda x_, y_: x_.lc(y_))]:
                for side in (('right',) if sym in ('<<', 'lc') else ('right', 'left')):
                    res.case(('scalar', tag, sym, side, dt, repr(s), str(ea)))
                    res.count(f'scalar_{type(s).__name__}')
                    try:
                        got = f(A, s) if side == 'right' else f(s, A)
                        ref = f(A, S) if side == 'right' else f(S, A)
                    except Exception as e:
                        res.violate('operator with a scalar operand raises', dict(site, op=sym, side=side, scalar=repr(s), dtype=dt), repr(e), 'a MultiVector',
                                    dict(site, op='scalar' + sym, dtype=dt))
                        continue
                    if not isinstance(got, MultiVector) or not np.array_equal(np.asarray(got.value), np.asarray(ref.value)):
                        res.violate('a scalar operand does not behave as the grade-0 multivector of that value',
                                    dict(site, op=sym, side=side, scalar=repr(s), a=[str(x) for x in ea]), getattr(got, 'value', got).tolist() if hasattr(got, 'value') else repr(got),
                                    ref.value.tolist(), dict(site, op='scalar' + sym, dtype=dt, side=side))
                        continue
                    want = max(KINDS[k], KINDS[sk])
                    if KINDS[got.value.dtype.kind] < want:
                        res.violate('result kind is narrower than the promoted kind of the operands', dict(site, op=sym, side=side, scalar=repr(s), dtype=dt),
                                    str(got.value.dtype), want, dict(site, op='scalar-kind' + sym, dtype=dt, side=side))


def model_correspondence(res, layouts, rng, reps, label):
    import numpy as np
    ob = common.OpBatch()
    for tag, L in layouts:
        N = L.gaDims
        n = L.dims
        ob.layout(tag, L)
        funcs = dict(gmt=L.gmt_func, omt=L.omt_func, imt=L.imt_func, lcmt=L.lcmt_func)
        gens = dict(gmt=L.gmt_func_generator, omt=L.omt_func_generator, imt=L.imt_func_generator, lcmt=L.lcmt_func_generator)
        for r in range(reps):
            which = ['gmt', 'omt', 'imt', 'lcmt'][r % 4]
            a, ea = operand(rng, N, 'int64' if r % 2 == 0 else 'float64', ['dense', 'sparse', 'half', 'single'][r % 4])
            b, eb = operand(rng, N, 'int64' if r % 2 == 0 else 'float64', ['half', 'dense', 'zero', 'sparse'][(r // 2) % 4])
            sa, sb = core.mvstr(ea), core.mvstr(eb)
            obs = core.mvstr(common.exact_list(funcs[which](a, b)))
            nt = any(ea) and any(eb)
            st = dict(common.site_of(L), op=which + '_func')
            ob.raw(f"K {tag} {which} sparse {sa} {sb}", obs, 'default kernel differs from the model runtime-sparse kernel', nontrivial=nt, site=st)
            ob.raw(f"K {tag} {which} contraction {sa} {sb}", obs, 'default kernel differs from the model contraction', nontrivial=nt, site=st)
            ga = sorted(set(int(x) for x in rng.integers(0, n + 1, size=int(rng.integers(0, n + 2)))))
            gb = sorted(set(int(x) for x in rng.integers(0, n + 1, size=int(rng.integers(0, n + 2)))))
            if r < reps // 2 + 1:
                obs2 = core.mvstr(common.exact_list(gens[which](grades_a=ga, grades_b=gb)(a, b)))
                ob.raw(f"KG {tag} {which} {core.ints(ga)} {core.ints(gb)} {sa} {sb}", obs2, 'grade-filtered kernel differs from the model', nontrivial=nt,
                       site=dict(st, op=which + '_func_generator'))
        if N <= 16:
            x, ex = operand(rng, N, 'int64', 'dense')
            X = common.mv(L, x)
            lm = ";".join(core.mvstr(common.exact_list(row)) for row in L.get_left_gmt_matrix(X))
            rm = ";".join(core.mvstr(common.exact_list(row)) for row in L.get_right_gmt_matrix(X))
            ob.raw(f"LMAT {tag} {core.mvstr(ex)}", lm, 'left multiplication matrix differs from the model', site=dict(common.site_of(L), op='left_matrix'))
            ob.raw(f"RMAT {tag} {core.mvstr(ex)}", rm, 'right multiplication matrix differs from the model', site=dict(common.site_of(L), op='right_matrix'))
    # dtype-kind promotion table against the model
    for ka, kb in itertools.product('ifc', repeat=2):
        da = {'i': np.int64, 'f': np.float64, 'c': np.complex128}[ka]
        db = {'i': np.int64, 'f': np.float64, 'c': np.complex128}[kb]
        tag, L = layouts[0]
        out = L.gmt_func(np.ones(L.gaDims, dtype=da), np.ones(L.gaDims, dtype=db))
        ob.raw(f"KIND {ka} {kb}", out.dtype.kind, 'result dtype kind differs from the model promotion', site=dict(op='kind'))
    ob.run(res, label)


def run_job(job, tier, seed):
    from harness import real
    res = core.Result(job)
    rng = gen.rng_for(seed, 'C03', job)
    if job == 'kernels':
        cases = [dict(sig=s) for n in range(0, 3) for s in gen.all_signatures(n)]
        cases += [dict(sig=gen.random_signature(rng, n)) for n in ((3, 3, 4, 4, 5) if tier == 'quick' else (3, 3, 3, 4, 4, 4, 5, 5, 6))]
        for _ in range(4 if tier == 'quick' else 12):
            n = int(rng.integers(1, 4))
            ids, first = gen.random_ids(rng, n)
            cases.append(dict(sig=gen.random_signature(rng, n), ids=ids, first=first, order=gen.random_order(rng, n)))
        layouts = common.build_layouts(res, cases)
        for tag, L in layouts:
            common.gcall(res, check_kernels, L, rng, tag, tier, jit=False)
            if L.gaDims <= 16:
                common.gcall(res, check_operators, L, rng, tag, tier)
        common.gcall(res, model_correspondence, [(t, L) for t, L in layouts if L.gaDims <= 32], rng, 8 if tier == 'quick' else 20, 'nojit')
        for name in ('g3c', 'pga'):
            common.gcall(res, check_kernels, real.predefined(name), rng, name, tier, jit=False)
    elif job == 'kernels_jit':
        cases = [dict(sig=gen.random_signature(rng, n)) for n in (2, 3, 4)]
        n = 3
        ids, first = gen.random_ids(rng, n)
        cases.append(dict(sig=gen.random_signature(rng, n), ids=ids, first=first, order=gen.random_order(rng, n, 'perm')))
        layouts = common.build_layouts(res, cases, prefix='J')
        for tag, L in layouts:
            common.gcall(res, check_kernels, L, rng, tag, tier, jit=True)
        common.gcall(res, check_operators, layouts[0][1], rng, layouts[0][0], tier)
        common.gcall(res, model_correspondence, layouts, rng, 8, 'jit')
    else:
        raise ValueError(job)
    return res


def replay(obj):
    from harness import real
    site = obj.get('site', {})
    order = site.get('order')
    L = real.make_layout(site['sig'], None, None, order if isinstance(order, list) else None)
    res = core.Result('replay')
    rng = gen.rng_for(0, 'replay')
    check_kernels(res, L, rng, 'replay', 'quick', jit=False)
    if L.gaDims <= 16:
        check_operators(res, L, rng, 'replay', 'quick')
    for v in res.violations[:5]:
        print('still failing:', v['what'], v['site'])
    return 1 if res.violations else 0
