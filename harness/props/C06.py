"""C06 Complements, dual and the vee (regressive) product."""
from harness import core, gen, common
from harness.props import C01

ID = 'C06'
LEAN_TARGETS = ['Props.C06']
TIE_A = ['meth_dual_eq'] + ['lay_complement_eq', 'lay_vee_eq', 'lay_dual_eq']
OBLIGATIONS = [
    'C06.shortlex_reverse_complement', 'C06.shortlexOrder_mirror_upto8', 'C06.shortlexOrder_mirror_all', 'C06.shortlexOrder_mirror_index', 'C06.blade_wedge_rc', 'C06.lc_wedge_blade',
    'C06.rc_linear_add', 'C06.rc_linear_smul', 'C06.lc_linear_add', 'C06.lc_linear_smul', 'C06.lc_rc', 'C06.rc_lc',
    'C06.pseudoscalar_sq', 'C06.dual_uses_inverse_of_I', 'C06.rc_vee', 'C06.vee_assoc', 'C06.vee_I_right', 'C06.vee_I_left',
    'C06.vee_grade', 'C06.vee_grade_zero', 'C06.rc_grade',
    'C06.omt_table_entry', 'C06.complement_sign_lists', 'C06.complement_functions',
]
PENDING = ['that the storage order of the layout under test has the scalar first and the mirror property is proved for Model.shortlexOrder and compared with the implementation for the arrays it builds']
RULE = ("default blade order; every signature in {+1,-1,0}^n for small n, random above; integer multivectors (dense/sparse/homogeneous); "
        "non-trivial = non-zero non-scalar operand; distinct = distinct (signature, operands, clause) text")
ASSUMPTIONS = C01.ASSUMPTIONS


def jobs(tier, seed):
    return [dict(name='laws', jit=False, timeout=2400), dict(name='laws_jit', jit=True, timeout=2400)]


def check_laws(res, L, rng, tag, reps):
    import numpy as np
    n, N = L.dims, L.gaDims
    site = common.site_of(L)
    sig = [int(x) for x in L.sig]
    zero = common.mv(L, np.zeros(N, dtype=np.int64))
    I = common.mv(L, [0] * (N - 1) + [1])
    one = common.mv(L, [1] + [0] * (N - 1))
    gr = np.array(common.grades_of(L))
    # every basis blade
    idxs = range(N) if N <= 64 else rng.choice(N, size=48, replace=False)
    for i in idxs:
        b = common.mv(L, [1 if j == i else 0 for j in range(N)])
        res.case(('blade', tag, int(i)))
        rc, lc = b.right_complement(), b.left_complement()
        if not (common.eq(b ^ rc, I) and common.eq(lc ^ b, I)):
            res.violate('b ^ rc(b) != I or lc(b) ^ b != I for a basis blade', dict(site, index=int(i)),
                        [(b ^ rc).value.tolist(), (lc ^ b).value.tolist()], I.value.tolist(), dict(site, op='complement-blade'))
        # signed complementary blade: single non-zero coefficient +-1 at the complementary grade
        nz = np.nonzero(rc.value)[0]
        if len(nz) != 1 or abs(int(rc.value[nz[0]])) != 1 or int(gr[nz[0]]) != n - int(gr[i]):
            res.violate('rc(b) is not a signed complementary blade', dict(site, index=int(i)), rc.value.tolist(), None, dict(site, op='complement-shape'))
    for _ in range(reps):
        A, B, C = (common.mv(L, gen.int_mv(rng, N)) for _ in range(3))
        key = (tag, A.value.tolist(), B.value.tolist(), C.value.tolist())
        inp = dict(site, A=A.value.tolist(), B=B.value.tolist(), C=C.value.tolist())
        nt = gen.nontrivial_mv(A.value.tolist()) and gen.nontrivial_mv(B.value.tolist())
        rcf, lcf = (lambda x: x.right_complement()), (lambda x: x.left_complement())
        res.case(('linear-inverse',) + key, nontrivial=nt)
        if not (common.eq(rcf(A + B), rcf(A) + rcf(B)) and common.eq(lcf(A + B), lcf(A) + lcf(B))
                and common.eq(rcf(3 * A), 3 * rcf(A)) and common.eq(lcf(-2 * A), -2 * lcf(A))):
            res.violate('complements are not linear', inp, None, None, dict(site, op='complement-linear'))
        if not (common.eq(lcf(rcf(A)), A) and common.eq(rcf(lcf(A)), A)):
            res.violate('left and right complement are not mutually inverse', inp, lcf(rcf(A)).value.tolist(), A.value.tolist(),
                        dict(site, op='complement-inverse'))
        # dual
        res.case(('dual',) + key[:2], nontrivial=nt)
        d = A.dual()
        if 0 in sig:
            exp = rcf(A)
        else:
            ii = int((I * I).value[0])
            exp = A * (ii * I)        # I^-1 = (I*I) I because I*I = +-1
            if ii not in (1, -1) or not common.eq(I * (ii * I), one):
                res.violate('I*I is not +-1 in a non-degenerate algebra', dict(site), ii, '+-1', dict(site, op='II'))
        if not np.array_equal(np.asarray(d.value), np.asarray(exp.value)):
            res.violate('dual() is not M*I^-1 (non-degenerate) / the right complement (degenerate)', inp, d.value.tolist(), exp.value.tolist(),
                        dict(site, op='dual'))
        # dual(J) for an invertible blade J (a basis blade with non-null factors, scaled by a power of two)
        cand = [i for i in range(N) if all(sig[k] != 0 for k in range(n) if (L._basis_blade_order.index_to_bitmap[i] >> k) & 1)]
        if cand:
            j = int(rng.choice(cand))
            sc = int(rng.choice([1, -1, 2, -4]))
            J = common.mv(L, [sc if k == j else 0 for k in range(N)])
            jj = int((J * J).value[0])          # = +-sc^2
            Jinv = common.mv(L, [(1.0 / jj) * sc if k == j else 0.0 for k in range(N)], np.float64)
            res.case(('dualJ', tag, A.value.tolist(), j, sc), nontrivial=nt)
            got = A.dual(J)
            exp = A * Jinv
            if not np.array_equal(np.asarray(got.value, dtype=float), np.asarray(exp.value, dtype=float)):
                res.violate('dual(J) is not M*J^-1', dict(inp, J=J.value.tolist()), got.value.tolist(), exp.value.tolist(), dict(site, op='dualJ'))
        # vee
        res.case(('vee',) + key, nontrivial=nt)
        v = A & B
        if not common.eq(v, A.vee(B)):
            res.violate('A & B differs from A.vee(B)', inp, None, None, dict(site, op='vee-alias'))
        if not common.eq(rcf(v), rcf(A) ^ rcf(B)):
            res.violate('rc(A & B) != rc(A) ^ rc(B)', inp, rcf(v).value.tolist(), (rcf(A) ^ rcf(B)).value.tolist(), dict(site, op='vee-def'))
        if not common.eq((A & B) & C, A & (B & C)):
            res.violate('vee is not associative', inp, None, None, dict(site, op='vee-assoc'))
        if not (common.eq(A & I, A) and common.eq(I & A, A)):
            res.violate('the pseudoscalar is not the identity of vee', inp, (A & I).value.tolist(), A.value.tolist(), dict(site, op='vee-identity'))
    # grades (r, s) -> r + s - n
    for r in range(n + 1):
        for s in range(n + 1):
            A, B = common.hom_mv(rng, L, r), common.hom_mv(rng, L, s)
            v = A & B
            res.case(('veegrade', tag, r, s, A.value.tolist(), B.value.tolist()))
            g = r + s - n
            bad = [int(x) for x in gr[np.nonzero(v.value)[0]] if int(x) != g]
            if bad:
                res.violate('vee does not map grades (r,s) to r+s-n', dict(site, r=r, s=s, A=A.value.tolist(), B=B.value.tolist()),
                            v.value.tolist(), g, dict(site, op='vee-grade', r=r, s=s))


def check_vee_signature_independence(res, rng, n, reps):
    from harness import real
    sigs = gen.all_signatures(n) if n <= 3 else [gen.random_signature(rng, n) for _ in range(6)]
    Ls = [real.make_layout(s) for s in sigs]
    N = 2 ** n
    for _ in range(reps):
        a, b = gen.int_mv(rng, N), gen.int_mv(rng, N)
        ref = None
        for s, L in zip(sigs, Ls):
            A, B = common.mv(L, a), common.mv(L, b)
            got = [(A & B).value.tolist(), A.right_complement().value.tolist(), A.left_complement().value.tolist()]
            res.case(('sigindep', n, tuple(s), tuple(a), tuple(b)), nontrivial=gen.nontrivial_mv(a) and gen.nontrivial_mv(b))
            if ref is None:
                ref = got
            elif got != ref:
                res.violate('vee / complements depend on the signature', dict(sig=s, other_sig=sigs[0], A=a, B=b), got, ref, dict(sig=s, op='vee-sig'))


def correspondence(res, layouts, rng, reps, label, dtypes=('int',)):
    import numpy as np
    ob = common.OpBatch()
    for tag, L in layouts:
        N = L.gaDims
        ones = np.ones(N, dtype=np.int64)
        # sign lists: apply to all-ones and read back in mirrored order
        ob.op(tag, L, 'lcompsigns', [], core.ints([int(x) for x in L.left_complement_func(ones)]))
        ob.op(tag, L, 'rcompsigns', [], core.ints([int(x) for x in L.right_complement_func(ones)]))
        for r in range(reps):
            dt = dtypes[r % len(dtypes)]
            if dt == 'int':
                a, b = gen.int_mv(rng, N), gen.int_mv(rng, N)
                A, B = common.mv(L, a), common.mv(L, b)
            else:
                a, b = gen.dyadic_mv(rng, N), gen.dyadic_mv(rng, N)
                A, B = common.mv(L, [float(x) for x in a], np.float64), common.mv(L, [float(x) for x in b], np.float64)
            nt = gen.nontrivial_mv(a)
            sa, sb = core.mvstr(a), core.mvstr(b)
            ob.op(tag, L, 'lcomp', [sa], A.left_complement().value, nontrivial=nt)
            ob.op(tag, L, 'rcomp', [sa], A.right_complement().value, nontrivial=nt)
            ob.op(tag, L, 'dual', [sa], A.dual().value, nontrivial=nt)
            ob.op(tag, L, 'vee', [sa, sb], (A & B).value, nontrivial=nt and gen.nontrivial_mv(b))
    ob.run(res, label)


def run_job(job, tier, seed):
    from harness import real
    res = core.Result(job)
    rng = gen.rng_for(seed, 'C06', job)
    if job in ('laws', 'laws_jit'):
        # layouts with a custom blade order use their complements / vee / degenerate dual FIRST: whatever they leave behind
        # (caches keyed by dimension or signature) must not reach the default-order layouts checked below
        import numpy as np
        from clifford import MultiVector
        for n in (2, 3, 4, 5):
            with common.guard(res, 'custom-order warm-up', dict(n=n)):
                Lc = real.make_layout([0] + [1] * (n - 1), order=list(range(2 ** n)))
                Mc = MultiVector(Lc, np.arange(1, 2 ** n + 1, dtype=np.int64))
                _ = (Mc.right_complement(), Mc.left_complement(), Mc & Mc, Mc.dual())
    if job == 'laws':
        cases = common.layout_cases(tier, seed, 'C06', ex_quick=4, ex_thorough=6, rnd_quick={5: 6, 6: 2}, rnd_thorough={7: 6, 8: 2},
                                    custom_orders=False)
        layouts = common.build_layouts(res, cases)
        for tag, L in layouts:
            if L.dims == 0:
                continue
            common.gcall(res, check_laws, L, rng, tag, reps=2 if L.gaDims <= 32 else 1)
        for n in range(1, 5 if tier == 'quick' else 7):
            common.gcall(res, check_vee_signature_independence, rng, n, 3 if tier == 'quick' else 10)
        common.gcall(res, correspondence, [(t, L) for t, L in layouts if L.gaDims <= 64], rng, 2 if tier == 'quick' else 5, 'nojit')
        for name in ('pga', 'g3c', 'pga2d'):
            L = real.predefined(name)
            common.gcall(res, check_laws, L, rng, name, reps=2)
    elif job == 'laws_jit':
        cases = [dict(sig=gen.random_signature(rng, n, k)) for n, k in ((2, 'nondeg'), (3, 'degenerate'), (4, 'mixed'), (4, 'nondeg'), (5, 'degenerate'))]
        layouts = common.build_layouts(res, cases, prefix='J')
        for tag, L in layouts:
            common.gcall(res, check_laws, L, rng, tag, reps=2)
        common.gcall(res, correspondence, layouts, rng, 6 if tier == 'quick' else 20, 'jit', dtypes=('int', 'float'))
    else:
        raise ValueError(job)
    return res


def replay(obj):
    from harness import real
    site = obj.get('site', {})
    L = real.make_layout(site['sig'])
    res = core.Result('replay')
    rng = gen.rng_for(0, 'replay')
    check_laws(res, L, rng, 'replay', reps=4)
    check_vee_signature_independence(res, rng, L.dims, 3)
    for v in res.violations[:5]:
        print('still failing:', v['what'], v['site'])
    return 1 if res.violations else 0
