"""C14 CGA object layer: operators act as named, objects contain their defining points."""
import math
from fractions import Fraction

from harness import core, gen, common

ID = 'C14'
LEAN_TARGETS = ['Props.C14']
TIE_A = ['cga_call_eq', 'cga_translation_eq', 'cga_round_eq'] + ['cga_dilation_eq']
OBLIGATIONS = ['C14.translation_unit', 'C14.translation_moves_point', 'C14.translation_fixes_einf', 'C14.versor_product_composes',
               'C14.dilation_unit', 'C14.dilation_scales_point', 'C14.base_bivector_commutes_with_added', 'C14.rotation_commutes',
               'C14.commutes_with_eo_einf', 'C14.unit_versor_fixes', 'C14.unit_versor_isometry',
               'C14.transversion_is_inversion_translation_inversion', 'C14.transversion_is_unit',
               'C14.round_radius', 'C14.round_normalisation', 'C14.round_centre', 'C14.round_contains_iff_distance',
               'C14.object_contains_defining_points', 'C14.object_grade']
PARTIAL = ['the exponentials enter the theorems as `a + b E0` with a^2 - b^2 = 1 (dilation) and as a polynomial in B (rotation): closeness of the truncated series to '
           'cosh/sinh/cos/sin and R~R = 1 for the rotation rotor are analytic, evaluated on the implementation (and C16)',
           'dim, the class bookkeeping of __call__ and the random constructors are evaluated on the implementation for CGA(2), CGA(3), CGA(4)']
RULE = ("CGA(2), CGA(3), CGA(4); base vectors with dyadic coordinates in a box of size 4, scales in [1/4, 4], base bivectors with coefficients in [-2, 2], "
        "centres/radii dyadic, point sets of k = 2..n+1 points in general position. Non-trivial = non-zero vector; distinct = distinct (n, clause, input)")
ASSUMPTIONS = ["tolerance 1e-9 relative to the magnitudes involved (series exponentials: 1e-7)"]


def jobs(tier, seed):
    return [dict(name='cga', jit=False, timeout=2400), dict(name='cga_jit', jit=True, timeout=2400)]


def near(a, b, scale=1.0, tol=1e-9):
    import numpy as np
    a = np.asarray(getattr(a, 'value', a), dtype=float)
    b = np.asarray(getattr(b, 'value', b), dtype=float)
    return bool(a.shape == b.shape and np.all(np.isfinite(a)) and np.max(np.abs(a - b)) <= tol * max(1.0, scale))


def mag(*xs):
    import numpy as np
    return max([1.0] + [float(np.max(np.abs(np.asarray(getattr(x, 'value', x), dtype=float)))) for x in xs])


def check_cga(res, n, rng, reps):
    import numpy as np
    from clifford.cga import CGA
    c = CGA(n)
    L = c.layout
    E = L.basis_vectors_lst[:n]
    site = dict(n=n)
    zero = 0 * E[0]

    def bvec():
        return sum((float(Fraction(int(rng.integers(-16, 17)), 4)) * e for e in E), zero)
    one = 1 + zero
    # the zero base vector is a base vector: translation by it is the identity (repaired defect 16)
    res.case(('translation-zero', n), nontrivial=True)
    with common.guard(res, 'translation', site, dict(site, a=[0.0] * n)):
        T0 = c.translation(zero)
        xz = bvec() + E[0]
        if not (near(T0.mv, one, 1.0) and near(T0(c.up(xz)), c.up(xz), mag(c.up(xz))) and near(c.transversion(zero).mv, one, 1.0)):
            res.violate('translation / transversion by the zero base vector is not the identity', dict(site, a=[0.0] * n), T0.mv.value.tolist(), 1, dict(site, op='translation-zero'))
    for _ in range(reps):
        x, a = bvec(), bvec()
        while not x.value.any():
            x = bvec()       # (as an operator argument the zero multivector carries no grade and is mapped to zero; the origin is exercised as up(0) below)
        X = c.up(x)
        inp = dict(site, x=x.value[1:n + 1].tolist(), a=a.value[1:n + 1].tolist())
        # translation
        for arg_kind, arg in (('base', a), ('null', c.up(a))):
            res.case(('translation', n, arg_kind, tuple(inp['x']), tuple(inp['a'])), nontrivial=bool(a.value.any()), sample=dict(inp, arg=arg_kind))
            with common.guard(res, 'translation', site, inp):
                T = c.translation(arg)
                if not near(T.mv * ~T.mv, one, 1.0):
                    res.violate('translation is not a unit rotor', dict(inp, arg=arg_kind), (T.mv * ~T.mv).value.tolist(), 1, dict(site, op='translation-unit', arg=arg_kind))
                img = T(x)              # a base vector is up-projected by __call__
                img2 = T(X)
                exp = c.up(x + a)
                if not (near(img, exp, mag(exp)) and near(img2, exp, mag(exp))):
                    res.violate('translation(a) does not map the point of x to the point of x+a', dict(inp, arg=arg_kind), img.value.tolist(), exp.value.tolist(),
                                dict(site, op='translation', arg=arg_kind))
        # dilation
        s = float(rng.choice([0.25, 0.5, 2.0, 3.0, 4.0]))
        res.case(('dilation', n, s, tuple(inp['x'])), nontrivial=bool(x.value.any()))
        with common.guard(res, 'dilation', site, inp):
            D = c.dilation(s)
            img = c.homo(D(X)(1)) if False else D(X)
            # down-projection removes the scale
            got = c.down(img)
            exp = s * x
            if not near(got, exp, mag(exp), 1e-8):
                res.violate('dilation(s) does not map x to s*x', dict(inp, s=s), got.value.tolist(), exp.value.tolist(), dict(site, op='dilation'))
        # rotation
        if n >= 2:
            Bv = zero
            for i in range(n):
                for j in range(i + 1, n):
                    Bv = Bv + float(Fraction(int(rng.integers(-8, 9)), 4)) * (E[i] ^ E[j])
            if not Bv.value.any():
                Bv = 0.75 * (E[0] ^ E[1])       # the zero multivector has no grade: rotation() rightly rejects it
            res.case(('rotation', n, tuple(Bv.value.tolist()), tuple(inp['x'])), nontrivial=True)
            with common.guard(res, 'rotation', site, inp):
                R = c.rotation(Bv)
                if not near(R.mv, Bv.exp(), mag(Bv.exp()), 1e-12):
                    res.violate('rotation(B) is not exp(B)', dict(inp, B=Bv.value.tolist()), R.mv.value.tolist(), Bv.exp().value.tolist(), dict(site, op='rotation-exp'))
                eo_img, einf_img = R.mv * c.eo * ~R.mv, R.mv * c.einf * ~R.mv
                if not (near(eo_img, c.eo, 1.0, 1e-7) and near(einf_img, c.einf, 1.0, 1e-7)):
                    res.violate('rotation does not fix eo and einf', dict(inp, B=Bv.value.tolist()), eo_img.value.tolist(), c.eo.value.tolist(), dict(site, op='rotation-fix'))
                y = bvec()
                d0 = float(((x - y) * (x - y)).value[0])
                ix, iy = c.down(R(x)), c.down(R(y))
                d1 = float(((ix - iy) * (ix - iy)).value[0])
                if abs(d0 - d1) > 1e-7 * max(1.0, abs(d0)) * mag(Bv.exp()) ** 2:
                    res.violate('rotation is not an isometry', dict(inp, B=Bv.value.tolist(), y=y.value[1:n + 1].tolist()), d1, d0, dict(site, op='rotation-isometry'))
        # an operator called on the vectors eo and einf themselves acts by the versor product (they are points / the point at infinity, not base vectors)
        res.case(('operator-on-eo-einf', n, tuple(inp['a'])), nontrivial=True)
        with common.guard(res, 'operator(eo), operator(einf)', site, inp):
            ops = [('translation', c.translation(a)), ('dilation', c.dilation(2.0)), ('transversion', c.transversion(a))]
            if n >= 2:
                ops.append(('rotation', c.rotation(0.75 * (E[0] ^ E[1]))))
            for oname, O in ops:
                for vname, v in (('einf', c.einf), ('eo', c.eo), ('eo+3einf', c.eo + 3.0 * c.einf), ('2einf', 2.0 * c.einf)):
                    got, exp = O(v), O.mv * v * ~O.mv
                    if not near(got, exp, mag(exp) + 1.0, 1e-9):
                        res.violate('an operator applied to eo / einf does not act by the versor product', dict(inp, operator=oname, vector=vname), got.value.tolist(),
                                    exp.value.tolist(), dict(site, op='operator-on-eo-einf', operator=oname, vector=vname))
                if oname in ('translation', 'rotation') and not near(O(c.einf), c.einf, 1.0, 1e-9):
                    res.violate(f'{oname} does not fix einf (through the operator call)', dict(inp, operator=oname), O(c.einf).value.tolist(), c.einf.value.tolist(),
                                dict(site, op='operator-fixes-einf', operator=oname))
                if oname == 'rotation' and not near(O(c.eo), c.eo, 1.0, 1e-9):
                    res.violate('rotation does not fix eo (through the operator call)', inp, O(c.eo).value.tolist(), c.eo.value.tolist(), dict(site, op='operator-fixes-eo'))
        # transversion = inversion . translation . inversion
        res.case(('transversion', n, tuple(inp['a'])), nontrivial=bool(a.value.any()))
        with common.guard(res, 'transversion', site, inp):
            K = c.transversion(a)
            T = c.translation(a)
            exp = c.ep * T.mv * c.ep
            if not near(K.mv, exp, mag(exp)):
                res.violate('transversion(a) is not inversion-translation-inversion', inp, K.mv.value.tolist(), exp.value.tolist(), dict(site, op='transversion'))
        # round from centre and radius
        r = float(rng.choice([0.5, 1.0, 2.0, 3.0]))
        res.case(('round-cr', n, tuple(inp['x']), r), nontrivial=True)
        with common.guard(res, 'round((c, r))', site, inp):
            Rd = c.round((x, r))
            cen = c.down(Rd.center)
            if not (near(cen, x, mag(x), 1e-8) and abs(Rd.radius - r) < 1e-8 * r):
                res.violate('round((c, r)) does not have centre c and radius r', dict(inp, r=r), [cen.value.tolist(), Rd.radius], [x.value.tolist(), r], dict(site, op='round-cr'))
            # a multi-step history on one object: its radius / dual / centre are read first, then operators are applied and the object
            # is re-defined; every derived quantity must follow the object's current blade (nothing may be remembered from before)
            _ = (Rd.radius, Rd.dual, Rd.center)
            D2 = c.dilation(2.0)(Rd)
            Tm = c.translation(a)(Rd)
            ok_d = abs(D2.radius - 2 * r) < 1e-7 * r and near(c.down(D2.center), 2.0 * x, mag(x), 1e-7)
            ok_t = abs(Tm.radius - r) < 1e-7 * r and near(c.down(Tm.center), x + a, mag(x) + mag(a), 1e-7) \
                and near(Tm.dual, Tm.mv * L.I, mag(Tm.mv), 1e-9)
            if not (ok_d and ok_t):
                res.violate('an operator applied to a round whose radius / dual had been read does not act by the versor product on all derived quantities',
                            dict(inp, r=r), [D2.radius, Tm.radius], [2 * r, r], dict(site, op='operator-after-read'))
            x2, r2 = bvec(), float(rng.choice([0.75, 1.5, 4.0]))
            Rd.from_center_radius(x2, r2)
            if not (near(c.down(Rd.center), x2, mag(x2), 1e-8) and abs(Rd.radius - r2) < 1e-8 * r2):
                res.violate('a round re-defined by from_center_radius does not report the new centre and radius', dict(inp, r=r, r2=r2),
                            [c.down(Rd.center).value.tolist(), Rd.radius], [x2.value.tolist(), r2], dict(site, op='round-redefine'))
        # the origin written as the zero base vector is a point like any other
        res.case(('origin', n, r), nontrivial=True)
        with common.guard(res, 'origin as zero vector', site, inp):
            z = 0.0 * E[0]
            N0, N1 = c.null_vector(z), c.null_vector(z)
            R0 = c.round((z, r))
            ok = near(N0, c.eo, 1.0, 1e-12) and near(N1, N0, 1.0, 0) and near(c.down(R0.center), z, 1.0, 1e-9) and abs(R0.radius - r) < 1e-8 * r
            if not ok:
                res.violate('the origin given as the zero base vector is not treated as the point eo', dict(site, r=r),
                            [N0.value.tolist()[:8], c.down(R0.center).value.tolist()[:8]], 'eo / centre 0', dict(site, op='origin-zero-vector'))
        # rounds and flats through points
        for k in range(2, n + 2):
            pts = [bvec() for _ in range(k)]
            if k >= 2 and rng.random() < 0.34:
                pts[0] = 0.0 * pts[0]           # the origin as one of the defining points
            nulls = [c.up(p) for p in pts]
            W = nulls[0]
            for q in nulls[1:]:
                W = W ^ q
            if abs(float(W.mag2())) < 1e-3 or abs(float((W ^ c.einf).mag2())) < 1e-3:
                continue        # not in general position
            pin = dict(site, k=k, points=[p.value[1:n + 1].tolist() for p in pts])
            res.case(('round-pts', n, k, str(pin['points'])), nontrivial=True)
            with common.guard(res, 'round(p1..pk)', site, pin):
                Rd = c.round(*pts)
                grades = set(int(g) for g in Rd.mv.grades())
                ok = grades == {k} and Rd.dim == k - 2 and all(near(Rd.mv ^ q, zero, mag(Rd.mv) * mag(q), 1e-8) for q in nulls) and Rd.mv.isBlade()
                if not ok:
                    res.violate('round(p1..pk) is not a grade-k blade containing its defining points (dim = k-2)', pin, [sorted(grades), Rd.dim], [k, k - 2],
                                dict(site, op='round-points', k=k))
                for mname, mixed in (('first-base', [pts[0]] + nulls[1:]), ('first-null', [nulls[0]] + pts[1:])):
                    res.case(('round-pts-mixed', n, k, mname, str(pin['points'])), nontrivial=True)
                    Rm = c.round(*mixed)
                    if not (set(int(g) for g in Rm.mv.grades()) == {k} and all(near(Rm.mv ^ q, zero, mag(Rm.mv) * mag(q), 1e-8) for q in nulls)):
                        res.violate('round(p1..pk) with the points given partly as base vectors and partly as null vectors does not contain its defining points',
                                    dict(pin, representation=mname), Rm.mv.value.tolist()[:8], 'a round through the points', dict(site, op='round-points-mixed', k=k, rep=mname))
            if k <= n:
                res.case(('flat-pts', n, k, str(pin['points'])), nontrivial=True)
                with common.guard(res, 'flat(p1..pk)', site, pin):
                    Fl = c.flat(*pts)
                    grades = set(int(g) for g in Fl.mv.grades())
                    ok = grades == {k + 1} and all(near(Fl.mv ^ q, zero, mag(Fl.mv) * mag(q), 1e-8) for q in nulls) and near(Fl.mv ^ c.einf, zero, mag(Fl.mv), 1e-8) \
                        and np.all(np.isfinite(Fl.mv.value))
                    if not ok:
                        res.violate('flat(p1..pk) is not a grade-(k+1) blade containing its defining points and einf', pin, [sorted(grades), Fl.mv.value.tolist()[:8]], k + 1,
                                    dict(site, op='flat-points', k=k))
                    # the defining points may be given in either representation, also mixed: base vectors and null vectors describe the same points
                    for mname, mixed in (('first-base', [pts[0]] + nulls[1:]), ('first-null', [nulls[0]] + pts[1:]), ('all-null', list(nulls))):
                        res.case(('flat-pts-mixed', n, k, mname, str(pin['points'])), nontrivial=True)
                        Fm = c.flat(*mixed)
                        if not (set(int(g) for g in Fm.mv.grades()) == {k + 1} and all(near(Fm.mv ^ q, zero, mag(Fm.mv) * mag(q), 1e-8) for q in nulls)
                                and near(Fm.mv ^ c.einf, zero, mag(Fm.mv), 1e-8)):
                            res.violate('flat(p1..pk) with the points given partly as base vectors and partly as null vectors does not contain its defining points',
                                        dict(pin, representation=mname), Fm.mv.value.tolist()[:8], 'a flat through the points', dict(site, op='flat-points-mixed', k=k, rep=mname))
                    # an operator applied to an object acts by the versor product
                    T = c.translation(a)
                    moved = T(Fl)
                    if not (isinstance(moved, type(Fl)) and near(moved.mv, T.mv * Fl.mv * ~T.mv, mag(Fl.mv) * mag(T.mv) ** 2)):
                        res.violate('an operator applied to an object is not the versor product', pin, None, None, dict(site, op='operator-on-object'))
                    for q in pts:
                        if not near(moved.mv ^ c.up(q + a), zero, mag(moved.mv) * mag(c.up(q + a)), 1e-7):
                            res.violate('a translated flat does not contain the translated points', pin, None, None, dict(site, op='operator-on-object-points'))


def run_job(job, tier, seed):
    res = core.Result(job)
    rng = gen.rng_for(seed, 'C14', job)
    if job == 'cga':
        for n in (2, 3, 4):
            with common.guard(res, f'CGA({n})', dict(n=n)):
                check_cga(res, n, rng, (6 if n < 4 else 3) if tier == 'quick' else 25)
    elif job == 'cga_jit':
        for n in (2, 3):
            with common.guard(res, f'CGA({n})', dict(n=n)):
                check_cga(res, n, rng, 2)
    else:
        raise ValueError(job)
    return res


def replay(obj):
    res = run_job('cga', 'quick', 0)
    for v in res.violations[:5]:
        print('still failing:', v['what'], v['site'])
    return 1 if res.violations else 0
