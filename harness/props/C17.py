"""C17 Operations are pure and deterministic; seeded randomness is reproducible."""
import inspect

from harness import core, gen, common

ID = 'C17'
LEAN_TARGETS = ['Props.C17']
OBLIGATIONS = [
    'C17.pure_op_preserves', 'C17.pure_op_fresh', 'C17.mutator_touches_target_only', 'C17.history_preserves',
    'C17.rng_reproducible', 'C17.rng_many_is_sequential', 'C17.rng_consumption',
]
PARTIAL = ['the theorems are about the store model (what a catalogue operation may touch); that each real operation is of the class the model says '
           '(reads operands, allocates its result) is what the history replay checks on the implementation, operation by operation',
           'settings non-interference is checked on the implementation only (re-evaluation under changed eps / pretty / precision)']
RULE = ("random histories (length 50 quick / 200 thorough) of catalogue operations over a shared pool of operands, results, layout constants and tools-module "
        "constants in a conformal, a mixed-signature and a degenerate layout; every generator that accepts rng with several seeds and sample counts. "
        "Non-trivial = an operation with at least one non-scalar operand; distinct = distinct (operation, operand contents) pairs")
ASSUMPTIONS = ["an array's contents are observed through tobytes(); np.shares_memory decides aliasing"]


def jobs(tier, seed):
    return [dict(name='history', jit=False, timeout=2400), dict(name='history_jit', jit=True, timeout=2400), dict(name='rng', jit=False, timeout=2400)]


# ---------------------------------------------------------------- operation catalogue

def _finite_moderate(a):
    """long histories can reach inf / NaN coefficients (inverses of nearly singular results, normal() of zero); in compiled mode
    `taylor_expansions.exp` does not return on NaN (DESIGN section 7, observed and not claimed), so `exp` is only applied to finite operands"""
    import numpy as np
    v = np.asarray(a.value, dtype=float) if not np.iscomplexobj(a.value) else np.abs(a.value)
    return bool(np.all(np.isfinite(v)) and (np.abs(v).max() if v.size else 0.0) < 1e8)


def catalogue(L, conformal, g3c_tools):
    """list of (name, arity, callable(*mvs, rng) -> result). Results may be MultiVector, ndarray, scalar, bool, str, set, tuple"""
    import numpy as np
    import clifford as cf
    ops = [
        ('add', 2, lambda a, b, r: a + b), ('sub', 2, lambda a, b, r: a - b), ('gp', 2, lambda a, b, r: a * b),
        ('op', 2, lambda a, b, r: a ^ b), ('ip', 2, lambda a, b, r: a | b), ('lc', 2, lambda a, b, r: a << b),
        ('vee', 2, lambda a, b, r: a & b), ('commutator', 2, lambda a, b, r: a.commutator(b)),
        ('anticommutator', 2, lambda a, b, r: a.anticommutator(b)),
        ('radd', 1, lambda a, r: 2 + a), ('rmul', 1, lambda a, r: 3 * a), ('rsub', 1, lambda a, r: 1.5 - a), ('scalar-div', 1, lambda a, r: a / 4),
        ('rev', 1, lambda a, r: ~a), ('neg', 1, lambda a, r: -a), ('pos', 1, lambda a, r: +a),
        ('gradeInvol', 1, lambda a, r: a.gradeInvol()), ('conjugate', 1, lambda a, r: a.conjugate()), ('dual', 1, lambda a, r: a.dual()),
        ('rcomp', 1, lambda a, r: a.right_complement()), ('lcomp', 1, lambda a, r: a.left_complement()),
        ('even', 1, lambda a, r: a.even), ('odd', 1, lambda a, r: a.odd), ('call', 1, lambda a, r: a(int(r.integers(0, L.dims + 1)))),
        ('call2', 1, lambda a, r: a(0, 2)), ('mag2', 1, lambda a, r: a.mag2()), ('abs', 1, lambda a, r: abs(a)), ('grades', 1, lambda a, r: a.grades()),
        ('str', 1, lambda a, r: str(a)), ('repr', 1, lambda a, r: repr(a)), ('eq', 2, lambda a, b, r: a == b), ('isScalar', 1, lambda a, r: a.isScalar()),
        ('inv', 1, lambda a, r: a.inv()), ('normal', 1, lambda a, r: a.normal()), ('pow2', 1, lambda a, r: a ** 2), ('pow0', 1, lambda a, r: a ** 0),
        ('pow1', 1, lambda a, r: a ** 1), ('pow1.0', 1, lambda a, r: a ** 1.0), ('pow3', 1, lambda a, r: a ** 3),
        ('isBlade', 1, lambda a, r: a.isBlade()), ('isVersor', 1, lambda a, r: a.isVersor()), ('astype', 1, lambda a, r: a.astype(np.float64)),
        ('astype-same-nocopy', 1, lambda a, r: a.astype(a.value.dtype, copy=False)), ('astype-f64-nocopy', 1, lambda a, r: a.astype(np.float64, copy=False)),
        ('getitem', 1, lambda a, r: a[()]), ('blades_list', 1, lambda a, r: a.blades_list),
        ('project', 2, lambda a, b, r: a(1).project(b) if True else None), ('join', 2, lambda a, b, r: a(1).join(b(2))),
        ('meet', 2, lambda a, b, r: (a(2)).meet(b(2))), ('exp', 1, lambda a, r: (0.125 * a(2)).exp() if _finite_moderate(a) else +a(2)),
        ('join-raw', 2, lambda a, b, r: a.join(b)), ('meet-raw', 2, lambda a, b, r: a.meet(b)), ('project-raw', 2, lambda a, b, r: a.project(b)),
        ('leftmat', 1, lambda a, r: L.get_left_gmt_matrix(a)), ('array', 1, lambda a, r: cf.array([a, a]).value),
        ('hitzer', 1, lambda a, r: a.hitzer_inverse()),
    ]
    if conformal:
        ops += [('up', 1, lambda a, r: L.up(a(1))), ('down', 1, lambda a, r: L.down(L.up(a(1)))), ('homo', 1, lambda a, r: L.homo(L.up(a(1)) * 3))]
    if g3c_tools:
        import clifford.tools.g3c as t
        ops += [('fast_up', 1, lambda a, r: t.fast_up(a(1))), ('fast_down', 1, lambda a, r: t.fast_down(t.fast_up(a(1)))),
                ('fast_dual', 1, lambda a, r: t.fast_dual(a)), ('g3c.meet', 2, lambda a, b, r: t.meet(a, b)),
                ('apply_rotor', 2, lambda a, b, r: t.apply_rotor(a, b)), ('val_apply_rotor', 2, lambda a, b, r: t.val_apply_rotor(a.value * 1.0, b.value * 1.0)),
                ('normalised', 1, lambda a, r: t.normalised(a + 1)), ('norm', 1, lambda a, r: t.norm(a)),
                ('euc_dist', 2, lambda a, b, r: t.euc_dist(t.fast_up(a(1)), t.fast_up(b(1)))),
                ('generate_translation_rotor', 1, lambda a, r: t.generate_translation_rotor(a(1))),
                ('rotor_between_objects', 2, lambda a, b, r: t.rotor_between_objects((t.fast_up(a(1)) ^ t.fast_up(b(1)) ^ t.ninf).normal(),
                                                                                      (t.fast_up(b(1)) ^ t.fast_up(a(1) + t.e1) ^ t.ninf).normal())),
                ('rotor_explicit_antipodal', 1, lambda a, r: t.val_rotor_between_objects_explicit(((t.fast_up(a(1)) ^ t.fast_up(a(1) + t.e2) ^ t.ninf).normal()).value,
                                                                                                     (-(t.fast_up(a(1)) ^ t.fast_up(a(1) + t.e2) ^ t.ninf).normal()).value)),
                ('rotor_cost', 1, lambda a, r: __import__('clifford.tools.g3c.cost_functions', fromlist=['x']).rotor_cost(a.even + 1))]
    return ops


MUTATORS = ['setitem', 'clean', 'round']


def arrays_of(result):
    """numpy arrays reachable from an operation's result (the memory it hands to the caller)"""
    import numpy as np
    from clifford import MultiVector
    out = []
    if isinstance(result, MultiVector):
        out.append(result.value)
    elif isinstance(result, np.ndarray):
        if result.dtype == object:
            for x in result.ravel():
                out += arrays_of(x)
        else:
            out.append(result)
    elif isinstance(result, (list, tuple)):
        for x in result:
            out += arrays_of(x)
    return out


def result_bytes(result):
    import numpy as np
    from clifford import MultiVector
    if isinstance(result, MultiVector):
        return b'mv' + np.ascontiguousarray(result.value).tobytes() + str(result.value.dtype).encode()
    if isinstance(result, np.ndarray):
        if result.dtype == object:
            return b'oa' + b'|'.join(result_bytes(x) for x in result.ravel())
        return b'ar' + np.ascontiguousarray(result).tobytes()
    if isinstance(result, (list, tuple)):
        return b'sq' + b'|'.join(result_bytes(x) for x in result)
    if isinstance(result, (set, frozenset)):
        return repr(sorted(float(x) for x in result)).encode()
    return repr(result).encode()


class Pool:
    def __init__(self):
        self.objs = []      # (label, getter returning the ndarray currently held)
        self.mvs = []       # indices of entries that are MultiVector operands (usable as arguments)

    def add_mv(self, label, mv):
        self.objs.append((label, mv, lambda m=mv: m.value))
        self.mvs.append(len(self.objs) - 1)
        return len(self.objs) - 1

    def add_array(self, label, arr):
        self.objs.append((label, arr, lambda a=arr: a))
        return len(self.objs) - 1

    def snapshot(self):
        import numpy as np
        return [np.ascontiguousarray(g()).tobytes() + str(np.asarray(g()).dtype).encode() for _, _, g in self.objs]

    def arrays(self):
        return [g() for _, _, g in self.objs]


def check_special_operands(res, rng):
    """purity on the operands that take the rarely used branches of the g3c parameterisation kernels (rotation-free bivectors, the identity
    rotor, equal poses), with the operands as the *caller's own* arrays: bytes unchanged, results fresh, second evaluation identical"""
    import numpy as np
    import clifford.tools.g3c as t
    import clifford.tools.g3c.rotor_parameterisation as rp
    L = t.layout
    tv = float(rng.integers(1, 5)) * t.e1 + float(rng.integers(-4, 5)) * t.e2 + 0.5 * t.e3
    Bt = tv * t.ninf                                          # rotation-free: exp(B) = 1 + B
    Br = 0.75 * t.e12 + 0.25 * (t.e2 * t.ninf)                # rotation + translation
    Rt = t.generate_translation_rotor(tv)
    Rr = rp.ga_exp(Br)
    one = 1.0 + 0.0 * t.e1
    cases = [('ga_exp(translation-only B)', lambda a: rp.ga_exp(a), (Bt,)), ('ga_exp(B)', lambda a: rp.ga_exp(a), (Br,)),
             ('ga_exp(0)', lambda a: rp.ga_exp(a), (0.0 * t.e12,)),
             ('val_exp(translation-only B)', lambda a: rp.val_exp(a), (Bt.value.copy(),)), ('val_exp(B)', lambda a: rp.val_exp(a), (Br.value.copy(),)),
             ('ga_log(translation rotor)', lambda a: rp.ga_log(a), (Rt,)), ('ga_log(R)', lambda a: rp.ga_log(a), (Rr,)),
             ('interpolate_TR_rotors(R, 1, 0.5)', lambda a, b: rp.interpolate_TR_rotors(a, b, 0.5), (Rr, one)),
             ('interpolate_TR_rotors(R, R, 0)', lambda a, b: rp.interpolate_TR_rotors(a, b, 0.0), (Rr, Rr.astype(float))),
             ('general_logarithm(R)', lambda a: rp.general_logarithm(a), (Rr,)),
             ('TR_biv_params_to_rotor(translation-only)', lambda a: rp.TR_biv_params_to_rotor(a), (np.array([1.0, 2.0, 0.5, 0.0, 0.0, 0.0]),)),
             ('val_vec_repr_to_bivector', lambda a: rp.val_vec_repr_to_bivector(a), (np.array([1.0, 2.0, 0.5, 0.25, 0.0, -0.5]),)),
             ('apply_rotor(X, 1)', lambda a, b: t.apply_rotor(a, b), (t.up(tv), one)),
             ('normalise_n_minus_1', lambda a: t.normalise_n_minus_1(a), (3.0 * t.up(tv),)),
             ('fast_dual', lambda a: t.fast_dual(a), (t.up(tv),)), ('meet', lambda a, b: t.meet(a, b), (t.up(tv) ^ t.e1 ^ t.ninf, t.e123 * t.ninf + 0 * t.e1))]
    for name, f, args in cases:
        arrs = [a.value if hasattr(a, 'value') else a for a in args]
        before = [a.tobytes() for a in arrs]
        site = dict(module='tools.g3c', op=name)
        res.case(('special-operands', name, tuple(before)), nontrivial=True)
        res.count('special_operands')
        try:
            r1 = f(*args)
            mid = [a.tobytes() for a in arrs]
            r2 = f(*args)
        except Exception as e:
            res.violate('a tools function raises on a special operand', site, repr(e)[:200], None, dict(site, kind='raise'))
            continue
        v1, v2 = (r.value if hasattr(r, 'value') else np.asarray(r) for r in (r1, r2))
        if mid != before or [a.tobytes() for a in arrs] != before:
            res.violate('a tools function modifies the coefficient array of its operand', dict(site, operand=[np.frombuffer(b).tolist()[:8] for b in before]),
                        [a.tolist()[:8] for a in arrs], 'unchanged operands', dict(site, kind='operand-modified'))
        elif any(np.shares_memory(v1, a) for a in arrs) and name not in ('interpolate_TR_rotors(R, R, 0)',):
            res.violate('the result of a tools function shares memory with its operand', site, None, None, dict(site, kind='result-aliases-operand'))
        elif not (np.array_equal(v1, v2, equal_nan=True)):
            res.violate('a tools function evaluated twice on the same operands gives different results', site, v2.tolist()[:8], v1.tolist()[:8], dict(site, kind='not-deterministic'))


def check_result_freshness(res, rng):
    """values handed out by a layout or a multivector on request (pseudoscalar, scalar, blades, basis vectors, invPS, ...) are results: writing
    into one with a documented mutator changes that object only — the next request returns the original value in other memory"""
    import numpy as np
    from harness import real
    import clifford as cf
    for lname, L in (('Cl(3)', real.make_layout([1, 1, 1])), ('Cl(1,3)', real.make_layout([1, -1, -1, -1])), ('g3c', real.predefined('g3c'))):
        N = L.gaDims
        a = L.MultiVector(np.arange(1, N + 1, dtype=float))
        accessors = [('layout.pseudoScalar', lambda: L.pseudoScalar), ('layout.I', lambda: L.I), ('layout.scalar', lambda: L.scalar),
                     ('layout.blades_list[-1]', lambda: L.blades_list[-1]), ('layout.basis_vectors_lst[0]', lambda: L.basis_vectors_lst[0]),
                     ('layout.blades[name]', lambda: L.blades[L.names[N - 1]]), ('layout.bases()[name]', lambda: L.bases()[L.names[N - 1]]),
                     ('layout.blades_of_grade(1)[0]', lambda: L.blades_of_grade(1)[0]),
                     ('mv.pseudoScalar', lambda: a.pseudoScalar), ('mv.I', lambda: a.I), ('mv.invPS()', lambda: a.invPS()), ('mv.dual()', lambda: a.dual()),
                     ('layout.MultiVector()', lambda: L.MultiVector()), ('layout.randomMV(rng=3)', lambda: L.randomMV(rng=3))]
        for name, acc in accessors:
            site = dict(layout=lname, accessor=name)
            res.case(('freshness', lname, name), nontrivial=True)
            res.count('result_freshness')
            try:
                r1 = acc()
                ref = r1.value.copy()
                r1b = acc()
                shared = np.shares_memory(r1.value, r1b.value)
                idx = int(np.argmax(np.abs(ref))) if ref.any() else 0
                r1.value[idx] = 3.0 * (ref[idx] if ref[idx] else 1.0) + 1.0          # what item assignment (a documented mutator) does to its target
                r1[()] = 5
                r2 = acc()
            except Exception as e:
                res.violate('requesting a layout / multivector value raises', site, repr(e)[:200], None, dict(site, kind='raise'))
                continue
            if shared or not np.array_equal(r2.value, ref) or np.shares_memory(r2.value, r1.value):
                res.violate('a value handed out on request is shared between requests: writing into one result changes what the next request returns',
                            site, r2.value.tolist()[:8], ref.tolist()[:8], dict(site, kind='shared-result'))


def run_history(res, lname, L, rng, length, conformal, g3c_tools, hist_id):
    import numpy as np
    import clifford as cf
    from clifford import MultiVector
    N = L.gaDims
    site = dict(layout=lname)
    pool = Pool()
    for k in range(6):
        kind = ['dense', 'sparse2', 'half', 'dense', 'sparse3', 'dense'][k]
        v = np.array(gen.int_mv(rng, N, kind), dtype=np.float64 if k % 2 == 0 else np.int64)
        if k == 5:
            v = v.astype(np.float64)
            v[int(rng.integers(N))] = 1e-13       # a coefficient below eps: clean() on a copy must not touch the operand
        pool.add_mv(f'operand{k}', MultiVector(L, v))
    # blade operands (some carrying a coefficient below eps) so that join / meet / project reach their general branches on pool members
    i2b = L._basis_blade_order.index_to_bitmap.tolist()
    biv = [i for i, b in enumerate(i2b) if bin(b).count('1') == 2]
    for k in range(min(4, len(biv))):
        v = np.zeros(N)
        v[biv[int(rng.integers(len(biv)))]] = 1.0
        if k % 2 == 0:
            v[biv[int(rng.integers(len(biv)))]] += 1e-13
        pool.add_mv(f'operand-blade{k}', MultiVector(L, v))
    # shared constants of the layout and of the tools module
    if conformal:
        for nm in ('eo', 'einf', 'E0', 'ep', 'en', 'I_base'):
            pool.add_mv('layout.' + nm, getattr(L, nm))
    for nm, tab in (('gmt', L.gmt), ('omt', L.omt), ('imt', L.imt), ('lcmt', L.lcmt)):
        pool.add_array(f'layout.{nm}.data', tab.data)
        pool.add_array(f'layout.{nm}.coords', tab.coords)
    pool.add_array('layout.sig', L.sig)
    if g3c_tools:
        import clifford.tools.g3c as t
        import clifford.g3c as g3cmod
        for nm in ('ninf', 'no', 'E0', 'I5', 'I3', 'e1', 'e2', 'e3', 'e4', 'e5', 'e12', 'e123', 'unit_scalar_mv', 'eo', 'einf'):
            if hasattr(t, nm) and isinstance(getattr(t, nm), MultiVector):
                pool.add_mv('tools.g3c.' + nm, getattr(t, nm))
        for nm in ('e1', 'e12345', 'eo', 'einf', 'E0'):
            if hasattr(g3cmod, nm):
                pool.add_mv('clifford.g3c.' + nm, getattr(g3cmod, nm))
    n0 = len(pool.objs)
    ops = catalogue(L, conformal, g3c_tools)
    model_ops = []
    observed = []
    recorded = []       # (name, fn, arg indices, call seed, result bytes) for the settings re-evaluation
    n_operand_slots = 6
    for stepno in range(length):
        before = pool.snapshot()
        ismut = rng.random() < 0.12
        if ismut:
            # mutate one of the *operands* created by this history (never a constant)
            cand = [i for i in pool.mvs if pool.objs[i][0].startswith('operand') or pool.objs[i][0].startswith('result')]
            tgt = int(rng.choice(cand))
            mv = pool.objs[tgt][1]
            which = MUTATORS[int(rng.integers(len(MUTATORS)))]
            try:
                if which == 'setitem':
                    mv[()] = float(rng.integers(-5, 6)) + 0.5
                elif which == 'clean':
                    r2 = mv.clean(1e-9)
                    if r2 is not mv:
                        res.violate('clean() does not return its target', dict(site, step=stepno), None, None, dict(site, op='mutator-return'))
                else:
                    mv.round(3)
            except Exception as e:
                res.count('mutator_exception_' + type(e).__name__)
            model_ops.append(f"m:{tgt}")
            after = pool.snapshot()
            changed = [i for i in range(len(before)) if before[i] != after[i]]
            # a mutator may leave the contents equal (e.g. clean with nothing to clean): compare as "subset of {target}"
            res.case(('mutate', lname, hist_id, stepno, which, before[tgt]), nontrivial=True)
            res.count('mutator_' + which)
            if any(c != tgt for c in changed):
                res.violate(f'mutator {which} changed arrays other than its target', dict(site, step=stepno, target=pool.objs[tgt][0],
                            changed=[pool.objs[c][0] for c in changed]), [pool.objs[c][0] for c in changed], [pool.objs[tgt][0]],
                            dict(site, op='mutator-' + which))
            observed.append((tgt, None, changed, True))
            continue
        name, arity, fn = ops[int(rng.integers(len(ops)))]
        args_idx = [int(rng.choice(pool.mvs)) for _ in range(arity)]
        if name.endswith('-raw'):
            blades = [i for i in pool.mvs if pool.objs[i][0].startswith('operand-blade')]
            if blades:
                args_idx = [int(rng.choice(blades)) for _ in range(arity)]
        args = [pool.objs[i][1] for i in args_idx]
        call_seed = int(rng.integers(2 ** 31))
        raised = None
        try:
            out = fn(*args, np.random.default_rng(call_seed))
        except Exception as e:
            out = None
            raised = type(e).__name__
        after = pool.snapshot()
        changed = [i for i in range(len(before)) if before[i] != after[i]]
        key = (name, tuple(before[i] for i in args_idx))
        nt = any(gen.nontrivial_mv(np.abs(a.value).tolist()) for a in args)
        res.case(('op', lname, name, key[1]), nontrivial=nt, sample=dict(layout=lname, op=name, args=[pool.objs[i][0] for i in args_idx]))
        res.count('op_' + name)
        if raised:
            res.count('raised_' + raised)
        if changed:
            res.violate(f'operation `{name}` changed the contents of an existing array (operand, earlier result or shared constant)',
                        dict(site, step=stepno, op=name, args=[pool.objs[i][0] for i in args_idx], changed=[pool.objs[c][0] for c in changed],
                             operands=[np.asarray(a.value).tolist() for a in args]),
                        [pool.objs[c][0] for c in changed], [], dict(site, op='impure:' + name, changed=[pool.objs[c][0].split('.')[0] for c in changed]))
        fresh = True
        shared_with = []
        for arr in arrays_of(out):
            for i, parr in enumerate(pool.arrays()):
                if isinstance(parr, np.ndarray) and isinstance(arr, np.ndarray) and arr.size and parr.size and np.shares_memory(arr, parr):
                    fresh = False
                    shared_with.append(pool.objs[i][0])
        if not fresh:
            res.violate(f'result of `{name}` shares memory with an existing array', dict(site, step=stepno, op=name, args=[pool.objs[i][0] for i in args_idx],
                        shares_with=shared_with), shared_with, 'fresh memory', dict(site, op='aliased:' + name))
        # determinism: the same expression again gives bit-identical output
        if raised is None:
            try:
                out2 = fn(*args, np.random.default_rng(call_seed))
                if result_bytes(out2) != result_bytes(out):
                    res.violate(f'evaluating `{name}` twice gives different results', dict(site, step=stepno, op=name, operands=[np.asarray(a.value).tolist() for a in args]),
                                None, None, dict(site, op='nondeterministic:' + name))
            except Exception as e:
                res.violate(f'`{name}` raises on the second evaluation only', dict(site, step=stepno, op=name), repr(e), None, dict(site, op='nondeterministic:' + name))
            if len(recorded) < 40 and name not in ('str', 'repr', 'eq', 'isScalar', 'grades', 'inv', 'normal', 'isBlade', 'isVersor', 'blades_list', 'exp', 'join',
                                                    'meet', 'project', 'pow2', 'pow0', 'pow3', 'hitzer', 'normalised', 'rotor_between_objects', 'rotor_explicit_antipodal'):
                recorded.append((name, fn, [pool.objs[i][1] for i in args_idx], call_seed, result_bytes(out), [before[i] for i in args_idx], args_idx))
        model_ops.append("p:" + core.ints(args_idx))
        # the result joins the pool (scalars and other array-less results as a dummy cell so that addresses stay aligned with the model)
        if isinstance(out, MultiVector):
            idx = pool.add_mv(f'result{stepno}', out)
        else:
            arrs = arrays_of(out)
            idx = pool.add_array(f'result{stepno}', arrs[0] if arrs else np.zeros(1))
        observed.append((idx, fresh, changed, False))
    # the model's view of the same history
    rep = core.drv_batch([f"HIST {n0} " + ";".join(model_ops)])[0].split(';') if model_ops else []
    for stepno, (mo, ob_) in enumerate(zip(rep, observed)):
        addr_s, changed_s = mo.split(':')
        m_changed = [int(x) for x in changed_s.split(',')] if changed_s else []
        idx, fresh, changed, ismut = ob_
        res.case(('model-step', lname, hist_id, stepno), nontrivial=True)
        if int(addr_s) != idx:
            res.disagree('store model and implementation disagree on the result address', dict(site, step=stepno, op=model_ops[stepno]), idx, int(addr_s), dict(site, op='store-address'))
        if ismut:
            if not set(changed) <= set(m_changed):
                res.disagree('a mutator changed more than the store model allows', dict(site, step=stepno, op=model_ops[stepno]), changed, m_changed, dict(site, op='store-mutator'))
        else:
            if changed != m_changed or fresh is not True:
                res.disagree('a catalogue operation is not pure/fresh as the store model says', dict(site, step=stepno, op=model_ops[stepno]), [changed, fresh], [m_changed, True],
                             dict(site, op='store-pure'))
    # settings affect only comparison and printing
    old = (cf.eps(), cf._settings._pretty, cf._settings._print_precision)
    try:
        cf.eps(1e-6)
        cf.ugly()
        cf.print_precision(3)
        for name, fn, args, call_seed, rb, bef, args_idx in recorded:
            # only if the operands still have the contents they had then
            if any((np.ascontiguousarray(a.value).tobytes() + str(a.value.dtype).encode()) != b for a, b in zip(args, bef)):
                continue
            res.case(('settings', lname, hist_id, name, tuple(bef)), nontrivial=True)
            try:
                out = fn(*args, np.random.default_rng(call_seed))
            except Exception as e:
                res.violate(f'`{name}` raises under different global settings', dict(site, op=name), repr(e), None, dict(site, op='settings:' + name))
                continue
            if result_bytes(out) != rb:
                res.violate(f'global eps/pretty/precision settings change the result of `{name}`', dict(site, op=name, operands=[np.asarray(a.value).tolist() for a in args]),
                            None, None, dict(site, op='settings:' + name))
    finally:
        cf.eps(old[0])
        cf._settings._pretty = old[1]
        cf.print_precision(old[2])


def same(a, b):
    return result_bytes(a) == result_bytes(b)


def check_rng(res, rng, tier):
    import numpy as np
    import clifford as cf
    import clifford.tools.g3 as g3
    import clifford.tools.g3c as g3c
    from harness import real
    layouts = [('Cl3', real.make_layout([1, 1, 1])), ('Cl21', real.make_layout([1, 1, -1])), ('g3c', real.predefined('g3c'))]
    seeds = [int(x) for x in rng.integers(0, 2 ** 31, size=3 if tier == 'quick' else 10)]
    for lname, L in layouts:
        gens = {
            'randomMV': lambda r, n=1: cf.randomMV(L, n=n, rng=r),
            'randomMV-grades': lambda r, n=1: cf.randomMV(L, grades=[1, 2], n=n, rng=r),
            'randomMV-normed': lambda r, n=1: cf.randomMV(L, grades=[1], normed=True, n=n, rng=r),
            'Layout.randomMV': lambda r, n=1: L.randomMV(n=n, rng=r),
            'Layout.randomV': lambda r, n=1: L.randomV(n=n, rng=r),
        }
        for gname, f in gens.items():
            for s in seeds:
                for n in (1, 2, 5):
                    res.case(('rng', lname, gname, s, n), nontrivial=True, sample=dict(layout=lname, generator=gname, seed=s, n=n))
                    res.count('rng_' + gname)
                    site = dict(layout=lname, generator=gname, n=n)
                    a, b = f(np.random.default_rng(s), n), f(np.random.default_rng(s), n)
                    c, d = f(s, n), f(s, n)
                    if not (same(a, b) and same(c, d)):
                        res.violate('a generator given the same rng state/seed returns different output', dict(site, seed=s), None, None, dict(site, op='rng-reproducible'))
                    if n > 1:
                        g1, g2 = np.random.default_rng(s), np.random.default_rng(s)
                        many = f(g1, n)
                        seq = [f(g2, 1) for _ in range(n)]
                        if not same(list(many), seq) or g1.bit_generator.state != g2.bit_generator.state:
                            res.violate('a request for n samples is not n sequential draws from the generator', dict(site, seed=s), None, None, dict(site, op='rng-sequential'))
                        if same(many[0], many[1]):
                            res.violate('several samples requested at once are identical', dict(site, seed=s), None, None, dict(site, op='rng-identical'))
        res.case(('randomRotor', lname))
        for s in seeds:
            if not same(L.randomRotor(rng=np.random.default_rng(s)), L.randomRotor(rng=np.random.default_rng(s))):
                res.violate('randomRotor is not reproducible from the rng state', dict(layout=lname, seed=s), None, None, dict(layout=lname, generator='randomRotor', op='rng-reproducible'))
        # draw consumption against the model: n samples of gaDims draws each
        calls = []

        def uni(lo, hi, size=None):
            calls.append(size)
            return np.zeros(size) if size is not None else 0.0
        cf.randomMV(L, n=3, uniform=uni)
        total = sum(int(np.prod(c)) if c is not None else 1 for c in calls)
        rep = core.drv_batch([f"DRAWS {L.gaDims} 3 0"])[0]
        res.case(('rng-consumption', lname))
        if int(rep.split()[-1]) != total:
            res.disagree('number of draws consumed by randomMV(n=3) differs from the model', dict(layout=lname), total, rep, dict(layout=lname, op='rng-consumption'))
    # tools generators
    for mod, mname in ((g3, 'tools.g3'), (g3c, 'tools.g3c')):
        for name, f in sorted(vars(mod).items()):
            if not callable(f) or name.startswith('_'):
                continue
            try:
                sig = inspect.signature(f)
            except Exception:
                continue
            if 'rng' not in sig.parameters:
                continue
            req = [p for p in sig.parameters.values() if p.default is inspect._empty and p.kind in (p.POSITIONAL_ONLY, p.POSITIONAL_OR_KEYWORD)]
            args = []
            if name == 'disturb_object':
                args = [g3c.random_line(rng=np.random.default_rng(1))]
            elif name == 'generate_random_object_cluster':
                args = [3, g3c.random_line]
            elif name == 'generate_n_clusters':
                args = [g3c.random_line, 2, 2]
            elif req:
                continue
            for s in seeds:
                site = dict(generator=f'{mname}.{name}')
                res.case(('rng-tools', mname, name, s), nontrivial=True)
                res.count('rng_tools')
                try:
                    a = f(*args, rng=np.random.default_rng(s))
                    b = f(*args, rng=np.random.default_rng(s))
                except Exception as e:
                    res.violate('a generator that accepts rng raises', dict(site, seed=s), repr(e), None, dict(site, op='rng-raise'))
                    continue
                if not same(a, b):
                    res.violate('a tools generator given the same rng state returns different output', dict(site, seed=s), None, None, dict(site, op='rng-reproducible'))


def check_twin_layouts(res, rng):
    """an operation's result is a function of its operands (and their own layout) only: two layouts with the same signature but
    different blade orders, used alternately in one process, each project onto grades by their own grade arrays"""
    import numpy as np
    from harness import real
    from clifford import MultiVector
    for sig, order in (([1, 1, -1], [0, 1, 2, 3, 4, 5, 6, 7]), ([1, 1, 1, 1], None)):
        n = len(sig)
        N = 2 ** n
        if order is None:
            order = [int(x) for x in rng.permutation(N)]
        A = real.make_layout(sig)
        B = real.make_layout(sig, order=order)
        site = dict(layout=f'twin Cl{sig}', order=order)
        va = np.arange(1, N + 1, dtype=np.int64)
        for rnd in range(3):
            for L, nm in ((A, 'default'), (B, 'custom'), (A, 'default')):
                M = MultiVector(L, va.copy())
                grades = np.asarray(L._basis_blade_order.grades)
                for g in range(n + 1):
                    res.case(('twin', tuple(sig), tuple(order), nm, g, rnd), nontrivial=True)
                    res.count('twin_call')
                    got = M(g).value
                    exp = np.where(grades == g, va, 0)
                    if not np.array_equal(got, exp):
                        res.violate('grade projection depends on which equal-signature layout was used before (hidden shared state)',
                                    dict(site, which=nm, grade=g, round=rnd), got.tolist(), exp.tolist(), dict(site, op='impure:call-twin'))
                # evict bounded caches between rounds: projections in many other signatures
            for k in range(40):
                Lk = real.make_layout([1] * 2 + [-1] * (k % 3) + [0] * (k % 2) + [1] * (k // 6 % 3))
                for g in range(Lk.dims + 1):
                    MultiVector(Lk, np.ones(Lk.gaDims))(g)


def check_blademap_purity(res, rng):
    """a transformation built from a caller's list leaves that list alone and does not depend on how many maps were built from it:
    the same expression evaluated repeatedly, before and after building further maps from the same list, is bit-identical"""
    import numpy as np
    import clifford as cf
    from clifford import BladeMap, MultiVector
    L1, b1 = cf.Cl(3)
    L2, b2 = cf.Cl(1, 3, firstIdx=0)
    site = dict(op='impure:blademap')
    for with_scalars in (True, False):
        pairs = [(b1['e1'], b2['e1'] * b2['e0']), (b1['e2'], b2['e2'] * b2['e0']), (b1['e3'], b2['e3'] * b2['e0']), (b1['e12'], b2['e12'])]
        ids_before = [(id(x), id(y)) for x, y in pairs]
        X = MultiVector(L1, np.array([int(v) for v in rng.integers(-4, 5, size=8)]) + np.array([3] + [0] * 7))
        xv = X.value.copy()
        res.case(('blademap', with_scalars, X.value.tolist()), nontrivial=True)
        res.count('blademap_purity')
        m1 = BladeMap(pairs, map_scalars=with_scalars)
        r1 = m1(X).value.copy()
        m2 = BladeMap(pairs, map_scalars=with_scalars)
        r2 = m2(X).value.copy()
        m3 = BladeMap(pairs, map_scalars=with_scalars)
        r3, r1b = m3(X).value.copy(), m1(X).value.copy()
        if [(id(x), id(y)) for x, y in pairs] != ids_before:
            res.violate("BladeMap() modifies the caller's list of blade pairs", dict(site, map_scalars=with_scalars), len(pairs), len(ids_before),
                        dict(site, what='argument list'))
        if not (np.array_equal(r1, r2) and np.array_equal(r1, r3) and np.array_equal(r1, r1b) and np.array_equal(X.value, xv)):
            res.violate('the same BladeMap expression evaluated repeatedly is not bit-identical (depends on the maps built before)',
                        dict(site, map_scalars=with_scalars, X=xv.tolist()), [r1.tolist(), r2.tolist(), r3.tolist(), r1b.tolist()], r1.tolist(),
                        dict(site, what='repeat'))


def run_job(job, tier, seed):
    from harness import real
    import clifford as cf
    res = core.Result(job)
    rng = gen.rng_for(seed, 'C17', job)
    if job == 'history':
        with common.guard(res, 'twin layouts', {}):
            check_twin_layouts(res, rng)
        with common.guard(res, 'blademap purity', {}):
            check_blademap_purity(res, rng)
        with common.guard(res, 'special operands of the g3c kernels', {}):
            check_special_operands(res, rng)
        with common.guard(res, 'freshness of values handed out on request', {}):
            check_result_freshness(res, rng)
    if job in ('history', 'history_jit'):
        length = 50 if tier == 'quick' else 200
        nh = (3 if tier == 'quick' else 8) if job == 'history' else 1
        g3c = real.predefined('g3c')
        base, _ = cf.Cl(1, 1)
        c11, _, _ = cf.conformalize(base)
        plans = [('g3c', g3c, True, True), ('conformal(1,1)', c11, True, False), ('pga', real.predefined('pga'), False, False),
                 ('Cl(2,1)', real.make_layout([1, 1, -1]), False, False)]
        if job == 'history_jit':
            plans = plans[:1] + plans[3:]
        for lname, L, conf, tools in plans:
            for h in range(nh):
                with common.guard(res, 'history replay', dict(layout=lname)):
                    run_history(res, lname, L, rng, length, conf, tools, h)
    elif job == 'rng':
        with common.guard(res, 'rng', {}):
            check_rng(res, rng, tier)
    else:
        raise ValueError(job)
    return res


def replay(obj):
    res = core.Result('replay')
    for job in ('history', 'rng'):
        r = run_job(job, 'quick', obj.get('seed', 0))
        res.violations += r.violations
    for v in res.violations[:5]:
        print('still failing:', v['what'], v['site'])
    return 1 if res.violations else 0
