"""C16 Series functions exp, sin, cos, tan, sinh, cosh, tanh match their closed forms."""
import math
from fractions import Fraction

from harness import core, gen, common

ID = 'C16'
LEAN_TARGETS = ['Props.C16']
TIE_A = ['series_sin_eq', 'series_sinh_eq', 'series_cos_eq', 'series_cosh_eq', 'series_exp_eq']
OBLIGATIONS = [
    'C16.blade_even_powers', 'C16.blade_odd_powers', 'C16.exp_on_blade', 'C16.exp_on_null_blade', 'C16.exp_on_scalar',
    'C16.squaring_undoes_scaling', 'C16.exp_commute', 'C16.cosh_plus_sinh_is_exp', 'C16.series_loop_invariant',
    'C16.even_series_parity', 'C16.odd_series_parity', 'C16.cos_cosh_on_blade', 'C16.sin_sinh_on_blade',
    'C16.exp_on_scalar_matches_real_exp', 'C16.cos_sin_on_scalar_match_real', 'C16.cosh_sinh_on_scalar_match_real', 'C16.exp_on_blade_matches_closed_form',
    'C16.l1_submultiplicative', 'C16.l1_is_a_norm', 'C16.max_coefficient_is_not_submultiplicative', 'C16.exp_truncations_cauchy', 'C16.exp_15_terms_suffice_general', 'C16.exp_scheme_general_partial',
]
PARTIAL = ['on real scalars the closeness IS proved (exp with scaling and squaring within 1e-6 relative for |c| <= 2^18; cos, sin, cosh, sinh within 1e-12 for |c| <= 8: Mathlib remainder bounds; tan, tanh are quotients of these); '
           'for blades it reduces to the same scalar statements for C_N(s), S_N(s); for general multivectors the sum of the absolute coefficients is proved submultiplicative, '
           'the truncations are proved Cauchy with the scalar modulus and the coded 15-term scale-and-square scheme is proved within 2^j 3^(2^j-1) 2/15! of the scheme with any number of terms (the limit itself is not formalised); '
           'closeness of the truncated polynomials to the real functions (and exp(A+B)=exp(A)exp(B), cos^2+sin^2=1 for the truncations) is analytic: compared with libm '
           'within the stated relative tolerance 1e-6, and with the exact-rational evaluation of the coded series within rounding, not proved']
RULE = ("signatures incl. degenerate (n=2..4, n=5 thorough); 2-blades from integer vectors scaled to coefficient size in [1e-3, 30]; scalars in [-5, 5]; multivectors with "
        "coefficients <= 1.5 for the trigonometric identities; dyadic inputs for the exact comparison with the model. Non-trivial = non-scalar argument; "
        "distinct = distinct (signature, function, argument)")
ASSUMPTIONS = ["libm cos/sin/cosh/sinh/exp are accurate to a few ulp", "tolerance: 1e-6 relative to the largest magnitude among the terms of the identity, as the property states"]
EPS = '1/1000000000000'


def jobs(tier, seed):
    return [dict(name='series', jit=False, timeout=2400), dict(name='series_jit', jit=True, timeout=2400)]


def rel_ok(got, exp, scale, tol=1e-6):
    import numpy as np
    g, e = np.asarray(got, dtype=float), np.asarray(exp, dtype=float)
    if not np.all(np.isfinite(g)):
        return False
    return bool(np.max(np.abs(g - e)) <= tol * max(scale, 1e-300))


def mag(*xs):
    import numpy as np
    return max([1.0] + [float(np.max(np.abs(np.asarray(getattr(x, 'value', x), dtype=float)))) for x in xs])


def check_layout(res, L, rng, tag, reps, ob, model):
    import numpy as np
    import clifford as cf
    from clifford import taylor_expansions as te, MultiVector
    n, N = L.dims, L.gaDims
    sig = [int(s) for s in L.sig]
    site = common.site_of(L)
    E = L.basis_vectors_lst
    one = common.mv(L, [1.0] + [0.0] * (N - 1), np.float64)
    # scalars
    for _ in range(reps):
        s = float(rng.uniform(-5, 5))
        S = s * one
        res.case(('scalar', tag, s), nontrivial=False)
        for nm, f, ref in (('exp', lambda m: m.exp(), math.exp), ('sin', lambda m: m.sin(), math.sin), ('cos', lambda m: m.cos(), math.cos),
                           ('sinh', lambda m: m.sinh(), math.sinh), ('cosh', lambda m: m.cosh(), math.cosh), ('tan', lambda m: m.tan(), math.tan),
                           ('tanh', lambda m: m.tanh(), math.tanh)):
            got = f(S)
            exp = ref(s)
            if nm == 'tan' and abs(math.cos(s)) < 0.2:
                continue
            if not (rel_ok(got.value, (exp * one).value, max(1.0, abs(exp)) * (1 + abs(math.tan(s)) if nm == 'tan' else 1))):
                res.violate(f'{nm} of a scalar differs from the real function', dict(site, s=s), got.value.tolist(), exp, dict(site, op='scalar-' + nm))
    # 2-blades with scalar square
    if n >= 2:
        for r in range(reps * 2):
            a = [int(x) for x in rng.integers(-3, 4, size=n)]
            b = [int(x) for x in rng.integers(-3, 4, size=n)]
            va = sum((c * e for c, e in zip(a, E)), 0 * E[0])
            vb = sum((c * e for c, e in zip(b, E)), 0 * E[0])
            B0 = (va ^ vb)
            if not B0.value.any():
                continue
            size = 10.0 ** rng.uniform(-3, math.log10(30))
            B = B0 * (size / float(np.max(np.abs(B0.value))))
            sq = float((B * B).value[0])
            res.case(('blade', tag, tuple(a), tuple(b), size), nontrivial=True, sample=dict(sig=sig, a=a, b=b, size=size, square=sq))
            if sq < 0:
                t = math.sqrt(-sq)
                exp = math.cos(t) * one + B * (math.sin(t) / t)
                cls = 'elliptic'
            elif sq > 0:
                t = math.sqrt(sq)
                exp = math.cosh(t) * one + B * (math.sinh(t) / t)
                cls = 'hyperbolic'
            else:
                exp = one + B
                cls = 'null'
            res.count('blade_' + cls)
            got = B.exp()
            inp = dict(site, a=a, b=b, size=size, cls=cls)
            if not rel_ok(got.value, exp.value, mag(exp)):
                res.violate('exp(B) of a 2-blade differs from its closed form', inp, got.value.tolist(), exp.value.tolist(), dict(site, op='exp-blade', cls=cls))
            # the four call forms coincide
            forms = [np.exp(B), math.e ** B, te.exp(B)]
            for k, fm in enumerate(forms):
                if not rel_ok(fm.value, got.value, mag(got)):
                    res.violate('M.exp(), np.exp(M), e**M and taylor_expansions.exp(M) do not coincide', dict(inp, form=k), fm.value.tolist(), got.value.tolist(),
                                dict(site, op='exp-forms'))
            # exp(-X) exp(X) = 1 at the scale of |exp X||exp -X|
            em = (-B).exp()
            prod = em * got
            if not rel_ok(prod.value, one.value, mag(em) * mag(got)):
                res.violate('exp(-X)exp(X) != 1', inp, prod.value.tolist(), 1, dict(site, op='exp-inverse', cls=cls))
            # commuting arguments: a scalar multiple and (n >= 4) a blade in an orthogonal plane
            lam = float(rng.uniform(-1, 1))
            A2 = lam * B
            lhs, rhs = (A2 + B).exp(), A2.exp() * got
            if not rel_ok(lhs.value, rhs.value, mag(A2.exp()) * mag(got)):
                res.violate('exp(A+B) != exp(A)exp(B) for commuting A, B', dict(inp, lam=lam), lhs.value.tolist(), rhs.value.tolist(), dict(site, op='exp-commuting'))
            sc = float(rng.uniform(-2, 2))
            lhs, rhs = (sc * one + B).exp(), math.exp(sc) * got
            if not rel_ok(lhs.value, rhs.value, math.exp(sc) * mag(got)):
                res.violate('exp(s+B) != e^s exp(B)', dict(inp, s=sc), lhs.value.tolist(), rhs.value.tolist(), dict(site, op='exp-commuting'))
        if n >= 4:
            for _ in range(reps):
                i, j, k, l = [int(x) for x in rng.permutation(n)[:4]]
                A1 = float(rng.uniform(-3, 3)) * (E[i] ^ E[j])
                B1 = float(rng.uniform(-3, 3)) * (E[k] ^ E[l])
                res.case(('commuting-planes', tag, i, j, k, l, A1.value.tolist(), B1.value.tolist()))
                lhs, rhs = (A1 + B1).exp(), A1.exp() * B1.exp()
                if not rel_ok(lhs.value, rhs.value, mag(A1.exp()) * mag(B1.exp())):
                    res.violate('exp(A+B) != exp(A)exp(B) for blades in orthogonal planes', dict(site, A=A1.value.tolist(), B=B1.value.tolist()), lhs.value.tolist(),
                                rhs.value.tolist(), dict(site, op='exp-commuting-planes'))
    # general multivectors of moderate size, plus multivectors whose square has a ZERO scalar part without being zero
    # (e.g. e1 + e23 in Cl(3): the square is 2 e123), which are not null and whose series does not stop after the linear term
    specials = []
    if 3 <= n <= 4:
        for _try in range(400):
            v = np.zeros(N)
            idx = rng.choice(N, size=int(rng.integers(2, 4)), replace=False)
            v[idx] = rng.choice([-1.0, 1.0, 0.5, -0.5], size=len(idx))
            X = MultiVector(L, v)
            X2 = X * X
            if X2.value[int(L._basis_blade_order.bitmap_to_index[0])] == 0 and X2.value.any():
                specials.append(X)
                if len(specials) >= 2:
                    break
    Ms = [MultiVector(L, rng.uniform(-1.5, 1.5, size=N) * (rng.random(N) < 0.7)) for _ in range(reps)] + specials
    for M in Ms:
        if any(M is sp for sp in specials):
            res.count('zero_scalar_square')
        res.case(('identities', tag, M.value.tolist()), nontrivial=True)
        c, s_, ch, sh, ex = M.cos(), M.sin(), M.cosh(), M.sinh(), M.exp()
        inp = dict(site, M=M.value.tolist())
        # tolerance: 1e-6 relative to the magnitude of the terms of the identity (as the property states), plus the rounding
        # of the unscaled 30-term series, whose terms |M|^k/k! sum to e^|M| in the operator norm: 1e-12 * e^|M|_op
        opn = float(np.linalg.norm(np.asarray(L.get_left_gmt_matrix(M), dtype=float), 2))
        terms = 1e-6 * math.exp(opn)
        checks = [('cos^2+sin^2=1', c * c + s_ * s_, one, mag(c * c, s_ * s_)), ('cosh^2-sinh^2=1', ch * ch - sh * sh, one, mag(ch * ch, sh * sh)),
                  ('exp=cosh+sinh', ex, ch + sh, mag(ch, sh)), ('tan*cos=sin', M.tan() * c, s_, mag(M.tan()) * mag(c)),
                  ('tanh*cosh=sinh', M.tanh() * ch, sh, mag(M.tanh()) * mag(ch)),
                  ('te.sin', te.sin(M), s_, mag(s_)), ('te.cosh', te.cosh(M), ch, mag(ch)),
                  ('exp(-M)exp(M)=1', (-M).exp() * ex, one, mag((-M).exp()) * mag(ex))]
        for nm, got, exp, scale in checks:
            if not rel_ok(got.value, exp.value, max(scale, terms)):
                res.violate(f'series identity fails: {nm}', inp, got.value.tolist(), exp.value.tolist(), dict(site, op='identity:' + nm))
    # exact comparison with the model (the coded truncated series evaluated in exact rationals)
    if model and N <= 8:
        for _ in range(reps):
            v = [Fraction(int(x), 4) for x in rng.integers(-6, 7, size=N)]
            if rng.random() < 0.3:
                v = [x * 4 for x in v]           # larger arguments exercise the scaling loop
            M = MultiVector(L, np.array([float(x) for x in v]))
            sv = core.mvstr(v)
            nt = gen.nontrivial_mv(v)
            big = max(abs(x) for x in v) > 2
            for nm, f in (('exp', lambda m: m.exp()), ('sin', lambda m: m.sin()), ('cos', lambda m: m.cos()), ('sinh', lambda m: m.sinh()), ('cosh', lambda m: m.cosh())):
                if big and nm != 'exp':
                    continue        # the unscaled series are claimed for coefficients <= 1.5 only (cancellation among huge terms otherwise)
                got = f(M)
                args = [EPS, '15', sv] if nm == 'exp' else ['30', sv]
                ob.layout(tag, L)
                ob.lines.append(f"OP {tag} {nm} " + " ".join(args))
                ob.meta.append(('series', tag, L, dict(op=nm, observed=got.value.tolist(), arg=[core.fstr(x) for x in v], nontrivial=nt)))


def check_storage_orders(res, rng):
    """the series functions do not depend on where a layout stores its blades: on a layout whose order does not begin with the scalar (and on a
    bitmap-order one) every function returns the coefficients it returns on the default order, permuted (the default order is the one compared
    with the exact model)"""
    import numpy as np
    import math
    from harness import real
    from clifford import taylor_expansions as te, MultiVector
    for sig, order in (([1, 1, -1], [3, 0, 1, 2, 4, 5, 6, 7]), ([1, 1, -1], list(range(8))), ([1, -1, 0, 1], [5, 3] + [b for b in range(16) if b not in (5, 3)])):
        Ld = real.make_layout(sig)
        Lp = real.make_layout(sig, order=order)
        i2b_d = Ld._basis_blade_order.index_to_bitmap.tolist()
        b2i_p = Lp._basis_blade_order.bitmap_to_index.tolist()
        perm = [b2i_p[b] for b in i2b_d]            # slot in Lp of the blade stored at slot i of Ld
        site = dict(sig=sig, order=order)
        for r in range(3):
            v = rng.uniform(-1.0, 1.0, size=Ld.gaDims)
            if r == 0:
                v = np.zeros(Ld.gaDims)
                v[0], v[4] = 0.5, 0.7                 # scalar + one bivector
            vp = np.zeros_like(v)
            vp[perm] = v
            Md, Mp = MultiVector(Ld, v), MultiVector(Lp, vp)
            fns = [('exp', te.exp), ('M.exp()', lambda m: m.exp()), ('np.exp', lambda m: np.exp(m)), ('e**M', lambda m: math.e ** m),
                   ('sin', te.sin), ('cos', te.cos), ('sinh', te.sinh), ('cosh', te.cosh)]
            for name, f in fns:
                res.case(('storage-order', name, str(order), v.tolist()), nontrivial=True)
                res.count('storage_order')
                a, b = f(Md).value, f(Mp).value
                want = np.zeros_like(a)
                want[perm] = a
                if not rel_ok(b, want, float(np.max(np.abs(want))) + 1.0, 1e-10):
                    res.violate(f'{name} on a layout with another blade order (scalar not first / bitmap order) differs from the default-order result, permuted',
                                dict(site, M=v.tolist()), b.tolist(), want.tolist(), dict(site, op='storage-order:' + name))


def check_norm(res, rng, tier):
    """the quantity `exp` scales by — the sum of the absolute coefficients — is submultiplicative on the real product (exact integers):
    the premise `C16.l1_submultiplicative` is about, evaluated on the implementation for every signature class and a custom order"""
    import numpy as np
    import itertools
    from harness import real
    from clifford import MultiVector
    sigs = [list(t) for n_ in (1, 2, 3) for t in itertools.product((1, -1, 0), repeat=n_)]
    sigs += [[1, 1, 1, 1], [1, -1, 0, 1], [1, 1, 1, 1, -1], [0, 0, 1, -1, 1]]
    if tier == 'thorough':
        sigs += [list(t) for t in itertools.product((1, -1, 0), repeat=4)] + [[1, 1, 1, 1, 1, -1]]
    for sig in sigs:
        layouts = [real.make_layout(sig)]
        if len(sig) == 3:
            layouts.append(real.make_layout(sig, order=[3, 0, 1, 2, 4, 5, 6, 7]))
        for L in layouts:
            for r in range(2):
                a = rng.integers(-9, 10, size=L.gaDims)
                b = rng.integers(-9, 10, size=L.gaDims)
                if r == 1:
                    a = np.ones(L.gaDims, dtype=np.int64)          # the dense all-ones operand: norm 2^n, largest coefficient 1
                A, B = MultiVector(L, a), MultiVector(L, b)
                res.case(('l1-norm', str(sig), a.tolist(), b.tolist()), nontrivial=True)
                res.count('l1_norm')
                lhs = int(np.sum(np.abs((A * B).value)))
                rhs = int(np.sum(np.abs(a))) * int(np.sum(np.abs(b)))
                if lhs > rhs:
                    res.violate('sum of absolute coefficients of A*B exceeds the product of the sums for A and B (the bound the scaling of exp relies on)',
                                dict(sig=sig, A=a.tolist(), B=b.tolist()), lhs, rhs, dict(common.site_of(L), op='l1-norm'))


def run_job(job, tier, seed):
    from harness import real
    import numpy as np
    res = core.Result(job)
    rng = gen.rng_for(seed, 'C16', job)
    ob = common.OpBatch()
    if job == 'series':
        common.gcall(res, check_storage_orders, rng)
        common.gcall(res, check_norm, rng, tier)
        sigs = [[1, 1], [1, -1], [0, 1], [1, 1, 1], [1, 1, -1], [0, 1, 1], [-1, -1, -1], [1, 1, 1, 1], [1, 1, 1, -1], [0, 1, 1, 1], [1, -1, 1, -1]]
        if tier == 'thorough':
            sigs += [[1, 1, 1, 1, -1], [0, 0, 1, 1], [1] * 5]
        for i, s in enumerate(sigs):
            L = real.make_layout(s)
            common.gcall(res, check_layout, L, rng, f"S{i}", 3 if tier == 'quick' else 10, ob, True)
        # dense operands in 32 and 64 dimensions: the largest coefficient says little about the norm there
        # (fixed defect: exp scaled its argument by the largest coefficient and lost accuracy, 1e-5 .. 1e-3 relative)
        for i, s in enumerate([[1] * 5, [1, 1, 1, 1, 1, -1]] if tier == 'quick' else [[1] * 6, [1, 1, 1, 1, 1, -1], [0, 1, 1, 1, 1, 1]]):
            L = real.make_layout(s)
            common.gcall(res, check_layout, L, rng, f"D{i}", 2 if tier == 'quick' else 4, ob, False)
    elif job == 'series_jit':
        for i, s in enumerate([[1, 1, -1], [1, 1, 1, 1]]):
            L = real.make_layout(s)
            common.gcall(res, check_layout, L, rng, f"J{i}", 2, ob, i == 0)
        # a second layout with the same signature and ids as J0 but another blade order, used after it in this process: the jitted series
        # must run on ITS tables (numba interns its types by name)
        L = real.make_layout([1, 1, -1], order=[0, 4, 2, 1, 3, 6, 5, 7])
        common.gcall(res, check_layout, L, rng, "J0perm", 2, ob, True)
        L2 = real.make_layout([1, 1, -1], ids=['x', 'y', 't'])
        common.gcall(res, check_layout, L2, rng, "J0ids", 1, ob, False)
        # and directly: the compiled series against the same Python body run by the interpreter, on both twins
        from clifford import taylor_expansions as te, MultiVector
        for nm_, Lt in (('J0perm', L), ('J0ids', L2), ('J0perm', L)):
            for fn in (te.sin, te.cos, te.sinh, te.cosh):
                if not hasattr(fn, 'py_func'):
                    continue
                M = MultiVector(Lt, rng.uniform(-1.0, 1.0, size=Lt.gaDims))
                res.case(('twin-series', nm_, fn.__name__, M.value.tolist()), nontrivial=True)
                res.count('twin_series')
                a_, b_ = fn(M), fn.py_func(M)
                if not (rel_ok(a_.value, b_.value, mag(b_), 1e-12) and repr(a_.layout) == repr(Lt)):
                    res.violate('a jitted series function differs from its interpreted body on a layout that shares signature and ids with an earlier one',
                                dict(layout=nm_, function=fn.__name__, M=M.value.tolist()), a_.value.tolist(), b_.value.tolist(),
                                dict(common.site_of(Lt), op='twin-series:' + fn.__name__))
    else:
        raise ValueError(job)
    if ob.lines:
        out = core.drv_batch(ob.lines, timeout=1500)
        for line, (kind, tag, L, m), rep in zip(ob.lines, ob.meta, out):
            if kind != 'series':
                continue
            exact = core.parse_mv(rep)
            scale = max([1] + [abs(float(x)) for x in exact])
            res.case(('model', line[:200]), nontrivial=m['nontrivial'], sample=dict(op=m['op'], arg=m['arg']))
            res.count('model_' + m['op'])
            if not all(abs(Fraction(o) - e) <= Fraction(1, 10 ** 9) * Fraction(scale) for o, e in zip(m['observed'], exact)):
                res.disagree(f"`{m['op']}` differs from the exact evaluation of the coded truncated series", dict(arg=m['arg'], sig=common.site_of(L)['sig']),
                             m['observed'], [float(x) for x in exact], dict(common.site_of(L), op='series-model:' + m['op']))
    return res


def replay(obj):
    from harness import real
    site = obj.get('site', {})
    L = real.make_layout(site['sig'])
    res = core.Result('replay')
    check_layout(res, L, gen.rng_for(0, 'replay'), 'replay', 6, common.OpBatch(), False)
    for v in res.violations[:5]:
        print('still failing:', v['what'], v['site'])
    return 1 if res.violations else 0
