"""C05 Inverses, division and integer powers are true two-sided algebra inverses/powers."""
from fractions import Fraction

from harness import core, gen, common
from harness.props import C01

ID = 'C05'
LEAN_TARGETS = ['Props.C05']
# Tie A: equivalence theorems generated from the current source by translate/py2lean.py (checked on every run)
TIE_A = ['shirokovN_eq', 'shirokov_loop_eq'] + ['hitzer_tail_ok', 'hitzer_num1_eq', 'hitzer_num2_eq', 'hitzer_num3_eq', 'hitzer_num4_eq', 'hitzer_num5_eq'] + ['meth_pick_inv_eq', 'meth_pow_eq', 'kernel_leftmat_eq', 'kernel_lainv_eq']
OBLIGATIONS = [
    'C05.left_inv_iff_right_inv', 'C05.all_methods_agree', 'C05.normalInv_correct', 'C05.hitzer_partial', 'C05.shirokov_partial',
    'C05.zero_divisor_not_invertible', 'C05.one_add_e_singular', 'C05.pow_loop', 'C05.neg_pow',
    'C05.hitzer_scalar_n1', 'C05.hitzer_scalar_n2', 'C05.hitzer_scalar_n3', 'C05.hitzer_scalar_n4', 'C05.hitzer_scalar_n5',
    'C05.scalar_of_components', 'C05.closed_form_correct', 'C05.hitzer_correct_n3', 'C05.hitzer_correct_n4', 'C05.hitzer_correct_n5', 'C05.hitzer_singular',
    'C05.leftLaInv_solution_is_inverse', 'C05.leftLaInv_inverse_solves_system',
    'C05.shirokov_scalar_n1', 'C05.shirokov_scalar_n2', 'C05.shirokov_scalar_n3', 'C05.shirokov_correct_n1', 'C05.shirokov_correct_n2', 'C05.shirokov_correct_n3', 'C05.shirokov_singular_n3',
]
PARTIAL = ['Shirokov (Faddeev-LeVerrier) recursion: that the last U_k is scalar IS proved for dimensions 1, 2, 3 (every signature, every multivector, any field of characteristic 0; the loop is translated from the source: shirokov_loop_eq); '
           'for dimensions >= 4 only the final step is a theorem (shirokov_partial) and the executable model of the '
           'algorithm is compared with the exact Gauss-Jordan inverse on every generated input. (The closed-form numerators n = 1..5 ARE proved: M*numerator is scalar.)',
           'leftLaInv: proved that the linear system the code builds from the executable table has exactly the inverse as its solution (any storage order); np.linalg.solve/cond themselves are parameters of the model']
RULE = ("signatures incl. degenerate, n<=5 quick (n<=8 thorough for the linear-algebra path); multivector families: dense small integers, versors "
        "(products of non-null integer vectors), scaled basis blades, scalar+pseudoscalar, near-scalars, all scaled by powers of two and by 0.1; "
        "singular families: 0, k(1+e) with e*e=1, null vectors. Non-trivial = non-scalar operand; distinct = distinct (signature, operand, method) text")
ASSUMPTIONS = C01.ASSUMPTIONS + ["binary64 rounding is outside the theorems: float results are compared with the exact rational inverse within 1e-9 * (1 + |M|_1 |X|_1)",
                                 "np.linalg.solve/cond are parameters of the model (exact solve in the model)"]

EPS = '1/1000000000000'


def jobs(tier, seed):
    return [dict(name='inverses', jit=False, timeout=2400), dict(name='inverses_jit', jit=True, timeout=2400)]


def families(rng, L, count):
    """yield (family, integer coefficient list, scale Fraction)"""
    import numpy as np
    n, N = L.dims, L.gaDims
    sig = [int(x) for x in L.sig]
    E = L.basis_vectors_lst
    nonnull = [i for i in range(n) if sig[i] != 0]
    out = []
    for _ in range(count):
        fam = rng.choice(['dense', 'versor', 'blade', 'scalar_ps', 'near_scalar', 'scalar', 'sparse', 'kvector', 'kvector'])
        if fam == 'dense':
            v = gen.int_mv(rng, N, 'dense', -3, 3)
        elif fam == 'sparse':
            v = gen.int_mv(rng, N, 'sparse3', -3, 3)
            v[0] += int(rng.integers(1, 4))
        elif fam == 'versor' and nonnull:
            k = int(rng.integers(1, min(n, 4) + 1))
            M = common.mv(L, [1] + [0] * (N - 1))
            for _k in range(k):
                c = [int(x) for x in rng.integers(-2, 3, size=n)]
                vec = common.mv(L, [0] * N)
                for ci, e in zip(c, E):
                    vec = vec + ci * e
                q = sum(s * ci * ci for s, ci in zip(sig, c))
                if q == 0:
                    vec = E[nonnull[0]]
                M = M * vec
            v = [int(x) for x in M.value]
        elif fam == 'blade' and nonnull:
            bits = [i for i in nonnull if rng.random() < 0.6] or [nonnull[0]]
            bm = sum(1 << i for i in bits)
            idx = int(L._basis_blade_order.bitmap_to_index[bm])
            v = [0] * N
            v[idx] = int(rng.choice([1, -1, 2, 3]))
        elif fam == 'kvector' and n >= 1:
            # a single-grade multivector that is in general NOT a blade (e.g. e12 + 2 e34): ~M*M is not scalar
            k = int(rng.integers(1, n + 1))
            gr = [int(g) for g in L._basis_blade_order.grades]
            idxs = [i for i in range(N) if gr[i] == k]
            v = [0] * N
            for i in idxs:
                if rng.random() < 0.6:
                    v[i] = int(rng.integers(-3, 4))
            if not any(v):
                v[idxs[0]] = 1
        elif fam == 'scalar_ps':
            v = [0] * N
            v[0] = int(rng.integers(1, 5))
            v[-1] = int(rng.integers(-4, 5))
        elif fam == 'near_scalar':
            v = gen.int_mv(rng, N, 'sparse2', -1, 1)
            v[0] = int(rng.integers(4, 9))
        else:
            v = [0] * N
            v[0] = int(rng.choice([1, -2, 3, 5]))
        sc = Fraction(1, 10) if rng.random() < 0.2 else Fraction(2) ** int(rng.integers(-6, 7))
        out.append((str(fam), [int(x) for x in v], sc))
    return out


def singular_families(rng, L):
    n, N = L.dims, L.gaDims
    sig = [int(x) for x in L.sig]
    i2b = L._basis_blade_order.index_to_bitmap.tolist()
    out = [('zero', [0] * N)]
    one = common.mv(L, [1] + [0] * (N - 1))
    for idx in range(1, N):
        b = L._basis_blade(idx)
        sq = (b * b).value
        if int(sq[0]) == 1:
            k = int(rng.choice([1, 2, -3]))
            out.append(('k(1+e)', [int(x) for x in (k * (one + b)).value]))
            out.append(('k(1-e)', [int(x) for x in (k * (one - b)).value]))
        if int(sq[0]) == 0 and bin(i2b[idx]).count('1') == 1:
            out.append(('null-vector', [int(x) for x in (2 * b).value]))
    pos = [i for i in range(n) if sig[i] == 1]
    neg = [i for i in range(n) if sig[i] == -1]
    if pos and neg:
        E = L.basis_vectors_lst
        out.append(('null-sum', [int(x) for x in (E[pos[0]] + E[neg[0]]).value]))
    if len(out) > 8:
        keep = [out[0]] + [out[i] for i in rng.choice(np_range(1, len(out)), size=7, replace=False)]
        out = keep
    # zero divisors whose coefficients are not all equal (nothing about them survives a division by the largest coefficient exactly):
    # k(1+e) with the non-axis unit vector e = (3a+4b)/5 or (5a+12b)/13, and products (1±e)·W with a small-integer W (annihilated by 1∓e)
    E = L.basis_vectors_lst
    extra = []
    if len(pos) >= 2:
        a, b = E[pos[0]], E[pos[1]]
        extra.append(('k(1+e) non-axis', [int(x) for x in (5 * one + 3 * a + 4 * b).value]))
        extra.append(('k(1+e) non-axis', [int(x) for x in (13 * one - 5 * a + 12 * b).value]))
    for idx in range(1, N):
        b = L._basis_blade(idx)
        if int((b * b).value[0]) == 1:
            W = common.mv(L, [int(x) for x in rng.integers(-3, 4, size=N)])
            for M in ((one + b) * W, W * (one - b)):
                v = [int(x) for x in M.value]
                if any(v) and len(set(abs(x) for x in v if x)) > 1:
                    extra.append(('zero-divisor product', v))
            break
    return out + extra


def np_range(a, b):
    import numpy as np
    return np.arange(a, b)


def norm1(v):
    return sum(abs(Fraction(x)) for x in v)


def close(obs, exact, tol):
    """max |obs_i - exact_i| <= tol (obs floats/ints, exact Fractions)"""
    return all(abs(core.frac(o) - e) <= tol for o, e in zip(obs, exact))


def check_layout(res, L, rng, tag, tier, jit, count):
    import numpy as np
    from clifford import MultiVector
    n, N = L.dims, L.gaDims
    site = common.site_of(L)
    ob = common.OpBatch()
    ob.layout(tag, L)
    cases = families(rng, L, count)
    # ask the model for the exact inverse (certified by recomputing X*M in the model) and for each algorithm's exact result
    lines = [real_layout_line(tag, L)]
    for fam, v, sc in cases:
        ex = [Fraction(x) * sc for x in v]
        s = core.mvstr(ex)
        lines += [f"OP {tag} rinv {s}", f"OP {tag} linv {s}", f"OP {tag} hitzer {s}", f"OP {tag} shirokov {s}", f"OP {tag} inv {EPS} {s}",
                  f"OP {tag} normalinv {EPS} {s}"]
    out = core.drv_batch(lines)[1:]
    one = [Fraction(1)] + [Fraction(0)] * (N - 1)
    for ci, (fam, v, sc) in enumerate(cases):
        ex = [Fraction(x) * sc for x in v]
        r_rinv, r_linv, r_hitzer, r_shir, r_inv, r_ninv = out[6 * ci: 6 * ci + 6]
        inp = dict(site, family=fam, M=[core.fstr(x) for x in ex])
        res.count('family_' + fam)
        nt = gen.nontrivial_mv(v)
        Mf = MultiVector(L, np.array([float(x) for x in ex]))
        if r_rinv == 'singular':
            # the generated multivector happens to be singular: inv() must raise
            res.case(('singular-generated', tag, str(ex)), nontrivial=nt)
            res.count('singular_generated')
            if any(Fraction(float(x)) != x for x in ex):
                # the rational multivector is singular but its floating-point image (coefficients such as 3/10) is a different, generally
                # invertible, multivector: the property says nothing about it
                res.count('singular_generated_inexact_skipped')
                continue
            try:
                X = Mf.inv()
                # an exactly singular input may be returned with a huge value only if rounding hid the zero; treat as violation when X*M is not 1
                if not close((X * Mf).value, one, 1e-6):
                    res.violate('inv() of an exactly singular multivector returns a value', inp, X.value.tolist(), 'ValueError', dict(site, op='inv-singular', family=fam))
            except ValueError:
                pass
            continue
        Xe = core.parse_mv(r_rinv)
        # model self-consistency: left inverse = right inverse (theorem), each algorithm's exact result = the exact inverse
        if r_linv != r_rinv:
            res.disagree('model: exact left and right inverses differ', inp, r_linv, r_rinv, dict(site, op='model-linv'))
        if n <= 5 and r_hitzer != r_rinv:
            res.disagree('model of _hitzer_inverse does not return the exact inverse (premise of hitzer_partial fails)', inp, r_hitzer, r_rinv, dict(site, op='model-hitzer'))
        if n >= 1 and r_shir != r_rinv:
            res.disagree('model of _shirokov_inverse does not return the exact inverse (premise of shirokov_partial fails)', inp, r_shir, r_rinv, dict(site, op='model-shirokov'))
        if r_inv != r_rinv:
            res.disagree('model of inv() does not return the exact inverse', inp, r_inv, r_rinv, dict(site, op='model-inv'))
        kappa = norm1(ex) * norm1(Xe)
        tol = Fraction(1, 10 ** 9) * (1 + kappa)
        xscale = max(abs(x) for x in Xe)
        methods = [('inv', lambda m: m.inv())]
        if not r_ninv.startswith('err'):
            methods.append(('normalInv', lambda m: m.normalInv()))
        if n <= 5:
            methods.append(('hitzer_inverse', lambda m: m.hitzer_inverse()))
        if n >= 1 and (n <= 6 or tier == 'thorough'):
            methods.append(('shirokov_inverse', lambda m: m.shirokov_inverse()))
        if N <= 64 or tier == 'thorough':
            methods.append(('leftLaInv', lambda m: m.leftLaInv()))
        operands = [('float', Mf)]
        # integer dtype only at scale 1: the n=5 closed form has degree 8, and int64 must not wrap (stated assumption)
        if sc == 1 and max(abs(x) for x in v) <= 4:
            operands.append(('int', MultiVector(L, np.array([int(x) for x in ex], dtype=np.int64))))
        for mname, f in methods:
            for dname, M in operands:
                if dname == 'int' and mname in ('leftLaInv', 'shirokov_inverse'):
                    continue      # integer dtype: numba's linalg needs floats (documented scope), shirokov casts itself but mixes dtypes
                if dname == 'int' and mname == 'inv' and n > 5:
                    continue
                res.case((mname, dname, tag, str(ex)), nontrivial=nt,
                         sample=dict(sig=site['sig'], family=fam, method=mname, M=[core.fstr(x) for x in ex][:8]))
                res.count('method_' + mname)
                try:
                    X = f(M)
                except Exception as e:
                    res.violate(f'{mname}() raises on an invertible multivector', dict(inp, dtype=dname), repr(e), [core.fstr(x) for x in Xe],
                                dict(site, op=mname, family=fam, error=type(e).__name__))
                    continue
                # two-sided, agreement with the exact inverse
                left = (X * Mf).value
                right = (Mf * X).value
                ok = close(left, one, tol) and close(right, one, tol) and close(X.value, Xe, tol * max(1, xscale))
                if not ok:
                    res.violate(f'{mname}() is not the two-sided inverse / disagrees with the exact rational inverse', dict(inp, dtype=dname),
                                X.value.tolist(), [core.fstr(x) for x in Xe], dict(site, op=mname, family=fam))
        try:
            # division
            B = MultiVector(L, np.array(gen.int_mv(rng, N, 'dense', -3, 3), dtype=float))
            res.case(('div', tag, str(ex), B.value.tolist()), nontrivial=nt)
            q = B / Mf
            exp = B * Mf.inv()
            s = float(rng.choice([2.0, -3.0, 0.5]))
            q2 = s / Mf
            exp2 = s * Mf.inv()
            if not (np.array_equal(q.value, exp.value) and np.array_equal(q2.value, exp2.value)):
                res.violate('A/B != A*B.inv() or s/M != s*M.inv()', dict(inp, A=B.value.tolist(), s=s), q.value.tolist(), exp.value.tolist(), dict(site, op='div'))
            if not close(q.value, core.parse_mv(core.drv_batch([lines[0], f"OP {tag} gp {core.mvstr(common.exact_list(B.value))} {r_rinv}"])[1]),
                         tol * max(1, norm1(common.exact_list(B.value)))):
                res.violate('A/B is not A times the exact inverse of B', dict(inp, A=B.value.tolist()), q.value.tolist(), None, dict(site, op='div-exact'))
            # powers
            k = int(rng.choice([-6, -5, -3, -2, -1, 0, 1, 2, 3, 5, 6, 7, 9, 11]))
            res.case(('pow', tag, k, str(ex)), nontrivial=nt)
            res.count('pow_neg' if k < 0 else ('pow_zero' if k == 0 else 'pow_pos'))
            P = Mf ** k
            rep = core.drv_batch([lines[0], f"OP {tag} powint {EPS} {k} {core.mvstr(ex)}"])[1]
            if rep.startswith('err'):
                res.disagree('model powInt fails on an invertible multivector', dict(inp, k=k), 'value', rep, dict(site, op='pow'))
            else:
                Pe = core.parse_mv(rep)
                ptol = Fraction(1, 10 ** 9) * (1 + kappa) ** max(1, abs(k)) * max(1, max(abs(x) for x in Pe))
                if not close(P.value, Pe, ptol):
                    res.violate('M**k is not the k-fold product (of M.inv() for k<0, 1 for k=0)', dict(inp, k=k), P.value.tolist(), [core.fstr(x) for x in Pe],
                                dict(site, op='pow', k=('neg' if k < 0 else 'nonneg')))
            if len(operands) == 2 and k > 0:
                Mi = operands[-1][1]
                Pi = Mi ** k
                expP = Mi
                for _ in range(k - 1):
                    expP = expP * Mi
                if not np.array_equal(Pi.value, expP.value):
                    res.violate('integer M**k is not the k-fold product', dict(inp, k=k), Pi.value.tolist(), expP.value.tolist(), dict(site, op='pow-int'))
            if k < 0 and n <= 5 and not rep.startswith('err') and max(abs(x) for x in v) <= 4:
                # (n <= 5: beyond that inv() goes through numba's linalg, which needs floats -- the documented scope, as for `inv` above)
                # an integer-dtype multivector raised to a negative power is the product of its (floating-point) inverse;
                # the unscaled integer coefficients v = ex / sc are used, so (v)**k = (ex)**k / sc**k
                Mi = MultiVector(L, np.array([int(x) for x in v], dtype=np.int64))
                Pi = Mi ** k
                res.count('pow_neg_intdtype')
                unsc = Fraction(sc) ** (-k)
                if not close(Pi.value, [x * unsc for x in Pe], ptol * unsc):
                    res.violate('M**k for an integer-dtype M and k<0 is not the |k|-fold product of M.inv()', dict(inp, k=k, M=[int(x) for x in v], dtype=str(Mi.value.dtype)),
                                Pi.value.tolist(), [core.fstr(x * unsc) for x in Pe], dict(site, op='pow-int-neg'))
            if k == 0 and not close(P.value, one, 0):
                res.violate('M**0 is not 1', inp, P.value.tolist(), 1, dict(site, op='pow0'))
        except Exception as e:
            res.violate('division or power of an invertible multivector raises', inp, repr(e), 'a value', dict(site, op='div-pow', family=fam, error=type(e).__name__))
    # singular families: inv() raises ValueError
    for fam, v in singular_families(rng, L):
        for dt in (np.float64, np.int64):
            M = MultiVector(L, np.array(v, dtype=dt))
            if dt == np.int64 and n > 5:
                continue
            res.case(('singular', tag, fam, str(v), dt.__name__), nontrivial=any(v))
            res.count('singular_' + fam)
            try:
                X = M.inv()
                res.violate('inv() of an exactly singular multivector returns a value instead of raising ValueError', dict(site, family=fam, M=v, dtype=dt.__name__),
                            X.value.tolist(), 'ValueError', dict(site, op='inv-singular', family=fam))
            except ValueError:
                pass
            except Exception as e:
                res.violate('inv() of an exactly singular multivector raises the wrong exception', dict(site, family=fam, M=v, dtype=dt.__name__), repr(e), 'ValueError',
                            dict(site, op='inv-singular', family=fam, error=type(e).__name__))


def real_layout_line(tag, L):
    from harness import real
    return real.layout_line(tag, L)


def run_job(job, tier, seed):
    from harness import real
    res = core.Result(job)
    rng = gen.rng_for(seed, 'C05', job)
    if job == 'inverses':
        cases = []
        for n in range(0, 3):
            cases += [dict(sig=s) for s in gen.all_signatures(n)]
        cases += [dict(sig=gen.random_signature(rng, 3)) for _ in range(6 if tier == 'quick' else 20)]
        cases += [dict(sig=gen.random_signature(rng, 4)) for _ in range(5 if tier == 'quick' else 20)]
        cases += [dict(sig=gen.random_signature(rng, 5)) for _ in range(3 if tier == 'quick' else 10)]
        cases += [dict(sig=gen.random_signature(rng, 6, k)) for k in (['nondeg', 'degenerate'] if tier == 'quick' else ['nondeg', 'mixed', 'degenerate', 'pos'])]
        # twin layouts: the same signature stored in two blade orders (the layouts compare equal), used one after the other
        for n_t in ((3, 4) if tier == 'quick' else (2, 3, 4, 5)):
            s_t = gen.random_signature(rng, n_t, 'nondeg')
            perm = gen.shortlex(n_t)[1:]
            rng.shuffle(perm)
            cases += [dict(sig=s_t), dict(sig=s_t, order=list(range(2 ** n_t))), dict(sig=s_t, order=[0] + [int(x) for x in perm])]
        if tier == 'thorough':
            cases += [dict(sig=gen.random_signature(rng, 7, 'nondeg')), dict(sig=[1] * 8)]
        layouts = common.build_layouts(res, cases)
        for tag, L in layouts:
            cnt = {0: 3, 1: 4, 2: 5, 3: 6, 4: 5, 5: 3, 6: 3, 7: 2, 8: 1}[L.dims] * (1 if tier == 'quick' else 3)
            common.gcall(res, check_layout, L, rng, tag, tier, False, cnt)
        # the fixed defect: well-conditioned small multivector in Cl(6)
        L6 = real.make_layout([1] * 6)
        import numpy as np
        from clifford import MultiVector
        v = np.zeros(64)
        v[0], v[1], v[7] = 0.2, 0.1, 0.1
        M = MultiVector(L6, v)
        res.case(('regression-leftLaInv-scale',))
        try:
            X = M.inv()
            if not close((X * M).value, [Fraction(1)] + [Fraction(0)] * 63, Fraction(1, 10 ** 9)):
                res.violate('inv() of 0.2+0.1e1+0.1e12 in Cl(6) is not an inverse', dict(sig=[1] * 6), X.value.tolist(), None, dict(sig=[1] * 6, op='leftLaInv-scale'))
        except ValueError as e:
            res.violate('inv() rejects a well-conditioned multivector with small coefficients (determinant-based singularity test)', dict(sig=[1] * 6, M='0.2+0.1e1+0.1e12'),
                        repr(e), 'an inverse', dict(sig=[1] * 6, op='leftLaInv-scale'))
    elif job == 'inverses_jit':
        cases = [dict(sig=gen.random_signature(rng, n, k)) for n, k in ((1, 'nondeg'), (2, 'mixed'), (3, 'nondeg'), (4, 'mixed'), (5, 'nondeg'), (6, 'nondeg'))]
        layouts = common.build_layouts(res, cases, prefix='J')
        for tag, L in layouts:
            common.gcall(res, check_layout, L, rng, tag, tier, True, 4 if tier == 'quick' else 10)
    else:
        raise ValueError(job)
    return res


def replay(obj):
    from harness import real
    site = obj.get('site', {})
    L = real.make_layout(site['sig'])
    res = core.Result('replay')
    check_layout(res, L, gen.rng_for(0, 'replay'), 'replay', 'quick', False, 12)
    for v in res.violations[:5]:
        print('still failing:', v['what'], v['site'])
    return 1 if res.violations else 0
